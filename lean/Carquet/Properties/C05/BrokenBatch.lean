import Carquet.Properties.C05.BrokenFlush
/-
C05 ("every file reported complete is structurally valid"), failure of a `carquet_writer_write_batch`.  F98: in the pinned
code (and after the repair of F97) a write_batch that failed PAST its argument checks - out of memory after the definition
levels of the batch had been appended but before its values, or while the page it had just filled was being finished - left
the page writer with levels that have no values, or the column writer with values that the file writer had not counted
(`column_values_written`, `current_row_group_rows` are only advanced after a successful call).  A caller that carried on
(next row group, more batches, close) got OK from close for a file whose row counts and value counts do not add up (found
by the `c05alloc` component once its allocation faults were also delivered inside write_batch calls: the independent reader
refuses the file with `rowGroupRowCountMismatch` / `valuesDecode`).  The repaired `carquet_writer_write_batch` records every
failure other than INVALID_ARGUMENT (status 1: the argument checks, made before anything is touched) in `writer->broken`.

The model extends the status flow of `BrokenFlush` by the write_batch call; what a call would do is again a parameter.
-/
namespace Carquet.Properties.C05.BrokenBatch
open Carquet.Properties.C05.BrokenFlush

/-- CARQUET_ERROR_INVALID_ARGUMENT -/
def invalidArgument : Nat := 1

/-- `carquet_writer_write_batch` of the repaired code, given the status `st` that the row-group writer returns for the
batch (0 = OK): a failure other than INVALID_ARGUMENT is remembered -/
def writeBatch (w : Writer) (st : Nat) : Writer × Nat :=
  if st = 0 then (w, 0)
  else if st = invalidArgument then (w, st)
  else ({ w with broken := st }, st)

/-- the pinned code: the status is passed on and nothing is remembered -/
def writeBatchPreFixF98 (w : Writer) (st : Nat) : Writer × Nat := (w, st)

/-- one call of a write history: a row-group flush (`carquet_writer_new_row_group`) with what its attempt would do, or a
write_batch with the status its row-group writer would return -/
inductive Call where
  | flush (a : Attempt)
  | batch (st : Nat)
deriving DecidableEq, Repr

def step (wb : Writer → Nat → Writer × Nat) (w : Writer) : Call → Writer × Nat
  | .flush a => flush w a
  | .batch st => wb w st

def runCalls (wb : Writer → Nat → Writer × Nat) (w : Writer) : List Call → Writer × List (Call × Nat)
  | [] => (w, [])
  | c :: cs => ((runCalls wb (step wb w c).1 cs).1, (c, (step wb w c).2) :: (runCalls wb (step wb w c).1 cs).2)

theorem step_broken_stays (w : Writer) (c : Call) (h : w.broken ≠ 0) : (step writeBatch w c).1.broken ≠ 0 := by
  cases c with
  | flush a => exact (broken_stays w a h).1
  | batch st =>
    simp only [step, writeBatch]
    split
    · exact h
    · split
      · exact h
      · assumption

theorem runCalls_broken (w : Writer) (h : w.broken ≠ 0) :
    ∀ cs : List Call, (runCalls writeBatch w cs).1.broken ≠ 0 ∧
      ∀ a s, (Call.flush a, s) ∈ (runCalls writeBatch w cs).2 → s ≠ 0
  | [] => by simp [runCalls, h]
  | c :: cs => by
    have hb := step_broken_stays w c h
    have ih := runCalls_broken (step writeBatch w c).1 hb cs
    simp only [runCalls]
    refine ⟨ih.1, ?_⟩
    intro a s hs
    simp only [List.mem_cons] at hs
    cases hs with
    | inl e =>
      injection e with e1 e2
      subst e1; subst e2
      exact (broken_stays w a h).2
    | inr m => exact ih.2 a s m

/-- **After a write_batch that failed past its argument checks, no later flush and no close reports OK** - whatever calls
follow (further batches that succeed or fail, flushes whose attempt would succeed), however often they are repeated. -/
theorem C05_failed_batch_poisons_close (w : Writer) (st : Nat) (hst : st ≠ 0) (harg : st ≠ invalidArgument)
    (later : List Call) (last : Attempt) :
    (∀ a s, (Call.flush a, s) ∈ (runCalls writeBatch (writeBatch w st).1 later).2 → s ≠ 0) ∧
    close flush (runCalls writeBatch (writeBatch w st).1 later).1 last ≠ 0 := by
  have hb : (writeBatch w st).1.broken ≠ 0 := by simp [writeBatch, hst, harg]
  have hr := runCalls_broken _ hb later
  refine ⟨hr.2, ?_⟩
  have := broken_stays (runCalls writeBatch (writeBatch w st).1 later).1 last hr.1
  simp [close, this.2]

/-- a batch refused by the argument checks, and a successful one, change nothing -/
theorem C05_rejected_batch_harmless (w : Writer) :
    (writeBatch w invalidArgument).1 = w ∧ (writeBatch w 0).1 = w := by
  simp [writeBatch, invalidArgument]

-- non-vacuity: the failed batch (status 2), a new row group whose attempt would succeed, a good batch, and the close
example : ((runCalls writeBatch (writeBatch {} 2).1 [.flush .ok, .batch 0]).2.map (·.2)) = [2, 0] ∧
    close flush (runCalls writeBatch (writeBatch {} 2).1 [.flush .ok, .batch 0]).1 .ok = 2 := by decide

/-- **F98.**  Pinned code: the batch fails with status 2 (out of memory), the next row group, the next batch and close all
report OK - the history on which the real writer produced a file the independent reader refuses (witness
corpus/C05/F98-failed-batch.ops). -/
theorem C05_regression_F98 :
    (writeBatchPreFixF98 {} 2).2 = 2 ∧
    ((runCalls writeBatchPreFixF98 (writeBatchPreFixF98 {} 2).1 [.flush .ok, .batch 0]).2.map (·.2)) = [0, 0] ∧
    close flush (runCalls writeBatchPreFixF98 (writeBatchPreFixF98 {} 2).1 [.flush .ok, .batch 0]).1 .ok = 0 := by decide

end Carquet.Properties.C05.BrokenBatch
