import Carquet.Proofs.Writer
import Carquet.Impl.FileReal
/-
C05 (envelope part) — every file the writer reports complete has the Parquet envelope.
Statements only; lemmas in Proofs/Writer.lean.  Generic in the byte-level components
(`Deps`), hence in particular for the real ones (`Impl.FileReal.deps`).
-/
namespace Carquet.Properties.C05
open Carquet.Impl.Writer Carquet.Proofs.Writer

/-- For every schema, options and write history (any batches, any row-group boundaries, also
calls that failed in between): if `carquet_writer_close` returns OK, the stream received
`PAR1`, then the data region, then the footer, its length as a 4-byte little-endian number,
and `PAR1` — and the footer is exactly what `parquet_write_file_metadata` produced. -/
theorem C05_envelope (D : Deps) (cols : List Col) (codec pageSize : Nat) (createdBy : String)
    (ops : List Op)
    (hok : (fileOf D cols codec pageSize createdBy ops).2.getLast? = some .ok) :
    ∃ (data ftr : Bytes), (fileOf D cols codec pageSize createdBy ops).1 =
      magic ++ data ++ ftr ++ le32 ftr.length ++ magic := by
  unfold fileOf writesOf at hok ⊢
  obtain ⟨body, ftr, h⟩ := run_inv_shape D ops _ [] (inv_init cols codec pageSize createdBy) hok
  refine ⟨body.flatten, ftr, ?_⟩
  simp only at h ⊢
  rw [h]
  simp [List.flatten_cons, List.flatten_append, List.append_assoc]

/-- the same for the real components -/
theorem C05_envelope_real (cols : List Col) (codec pageSize : Nat) (ops : List Op)
    (hok : (fileOf (Carquet.Impl.FileReal.deps []) cols codec pageSize "Carquet" ops).2.getLast? = some .ok) :
    ∃ (data ftr : Bytes), (fileOf (Carquet.Impl.FileReal.deps []) cols codec pageSize "Carquet" ops).1 =
      magic ++ data ++ ftr ++ le32 ftr.length ++ magic :=
  C05_envelope _ cols codec pageSize "Carquet" ops hok

/-- non-vacuity: a two-column history with a row-group boundary closes OK -/
example : (fileOf (Carquet.Impl.FileReal.deps []) [⟨"a", .int32, .optional, 0⟩, ⟨"b", .boolean, .required, 0⟩] 0 64 "Carquet"
    [.batch ⟨0, 3, some [1, 0, 1], [[1, 0, 0, 0], [2, 0, 0, 0]]⟩, .batch ⟨1, 3, none, [[1], [0], [1]]⟩, .newRowGroup,
     .batch ⟨0, 1, none, [[7, 0, 0, 0]]⟩, .batch ⟨1, 1, none, [[0]]⟩]).2.getLast? = some .ok := by
  decide +kernel

end Carquet.Properties.C05
