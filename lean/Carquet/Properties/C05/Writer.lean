import Carquet.Proofs.Writer
import Carquet.Proofs.WriterLayout
import Carquet.Proofs.WriterPages
import Carquet.Proofs.WriterTable
import Carquet.Impl.FileReal
/-
C05 (envelope part) — every file the writer reports complete has the Parquet envelope.
Statements only; lemmas in Proofs/Writer.lean.  Generic in the byte-level components
(`Deps`), hence in particular for the real ones (`Impl.FileReal.deps`).
-/
namespace Carquet.Properties.C05
open Carquet.Impl.Writer Carquet.Proofs.Writer Carquet.Proofs.WriterLayout Carquet.Proofs.WriterPages
open Carquet.Proofs.WriterTable

/-- For every schema, options and write history (any batches, any row-group boundaries, also
calls that failed in between): if `carquet_writer_close` returns OK, the stream received
`PAR1`, then the data region, then the footer, its length as a 4-byte little-endian number,
and `PAR1` — and the footer is exactly what `parquet_write_file_metadata` produced. -/
theorem C05_envelope (D : Deps) (cols : List Col) (codec pageSize : Nat) (createdBy : String)
    (ops : List Op)
    (hok : (fileOf D cols codec pageSize createdBy ops).2.getLast? = some .ok) :
    ∃ (data ftr : Bytes), (fileOf D cols codec pageSize createdBy ops).1 =
      magic ++ data ++ ftr ++ le32 ftr.length ++ magic := by
  unfold fileOf writesOf at hok ⊢
  obtain ⟨body, ftr, h⟩ := run_inv_shape D ops _ [] (inv_init cols codec pageSize createdBy) hok
  refine ⟨body.flatten, ftr, ?_⟩
  simp only at h ⊢
  rw [h]
  simp [List.flatten_cons, List.flatten_append, List.append_assoc]

/-- For every schema, options and history: if close returns OK, the file is
`PAR1 ++ data ++ footer ++ len ++ PAR1` where the footer is the serialisation of metadata `md`
whose row groups and column chunks describe consecutive, gap-free, non-overlapping byte ranges
starting at offset 4 and ending exactly where the footer starts (`GroupsAt md.rowGroups 4`,
`|data| = Σ total_compressed_size`), the file's `num_rows` is the sum of the row groups' `num_rows`, each row group's
`total_compressed_size` being the sum of its chunks' `total_compressed_size`, its `total_byte_size` the sum of its chunks'
`total_uncompressed_size` (parquet.thrift: "Total byte size of all the uncompressed column data in this row group"; after
fix F23 — the pinned code put the compressed sizes there) and each chunk's `file_offset` (= `data_page_offset`) the position
of its first byte. -/
theorem C05_chunks_tile (D : Deps) (cols : List Col) (codec pageSize : Nat) (createdBy : String)
    (ops : List Op)
    (hok : (fileOf D cols codec pageSize createdBy ops).2.getLast? = some .ok) :
    ∃ (data : Bytes) (md : FooterData),
      (fileOf D cols codec pageSize createdBy ops).1 =
        magic ++ data ++ D.footer md ++ le32 (D.footer md).length ++ magic ∧
      md.cols = cols ∧ md.createdBy = createdBy ∧
      data.length = groupsSize md.rowGroups ∧ GroupsAt md.rowGroups 4 ∧
      md.numRows = (md.rowGroups.map (·.numRows)).sum := by
  unfold fileOf writesOf at hok ⊢
  have hinit := allInv_init cols codec pageSize createdBy
  obtain ⟨r1, r2⟩ := run_eq_close D ops { cols := cols, codec := codec, pageSize := pageSize, createdBy := createdBy } []
  simp only at hok ⊢
  rw [r2] at hok
  have hok' := Option.some.inj hok
  have hA := allInv_stateAfter D ops _ hinit
  obtain ⟨c1, c2, c3⟩ := close_layout D _ hA hok'
  rw [r1, c1]
  -- the closing state's stream starts with the magic
  have hE := allInv_ensureHeader _ hA
  have hF := allInv_flushRowGroup D _ hE.1 hE.2
  have hh : (closing D (stateAfter D { cols := cols, codec := codec, pageSize := pageSize, createdBy := createdBy } ops)).headerWritten = true := by
    unfold closing; rw [flushRowGroup_header]; exact hE.2
  obtain ⟨rest, hrest⟩ := hF.1.2 hh
  have hclosing : ∀ w : W, (closing D w).cols = w.cols ∧ (closing D w).createdBy = w.createdBy := by
    intro w
    have := step_cols D w .newRowGroup
    simpa [step, closing] using this
  have hfold := stateAfter_cols D
  obtain ⟨k1, k2⟩ := hclosing (stateAfter D { cols := cols, codec := codec, pageSize := pageSize, createdBy := createdBy } ops)
  obtain ⟨f1, f2⟩ := hfold ops { cols := cols, codec := codec, pageSize := pageSize, createdBy := createdBy }
  have hrows := rowsInv_closing D _ (rowsInv_stateAfter D ops
    { cols := cols, codec := codec, pageSize := pageSize, createdBy := createdBy } (by simp [RowsInv]))
  have hrest : (closing D (stateAfter D { cols := cols, codec := codec, pageSize := pageSize, createdBy := createdBy } ops)).out = magic :: rest := hrest
  generalize hW : closing D (stateAfter D { cols := cols, codec := codec, pageSize := pageSize, createdBy := createdBy } ops) = W' at *
  refine ⟨rest.flatten, ⟨W'.cols, W'.createdBy, W'.totalRows, W'.rowGroups⟩, ?_, ?_, ?_, ?_, c3, hrows⟩
  · rw [hrest]; simp [footerOf, List.flatten_cons, List.append_assoc]
  · simpa using k1.trans f1
  · simpa using k2.trans f2
  · have := c2; rw [hrest] at this; simp [List.flatten_cons, magic] at this; simp; omega

/-- For every schema, options and history: if close returns OK, the data region of the file
is, row group by row group and chunk by chunk, a concatenation of pages
`pageHeader(|body|, |stored|, crc32(stored), rows, stats) ++ stored` with
`stored = compress(codec, body)` (`PageRec.bytes`, `PageOk`): the sizes in each header are the
lengths of the bytes that follow and of what they decompress from, the CRC in the header is the
CRC-32 of exactly the stored page bytes, no page is empty; and every chunk's metadata are the sums
over its pages (`ChunkPages`: `num_values` = Σ rows, `total_compressed_size` = Σ |header ++ stored|,
`total_uncompressed_size` = Σ (|header| + |body|) as parquet.thrift defines it — `sumUsize`, after fix F23; the pinned
code left the headers out —, the codec tag is the writer's).  The same metadata `md`
tile the region (`GroupsAt`, as in `C05_chunks_tile`). -/
theorem C05_pages_chain (D : Deps) (cols : List Col) (codec pageSize : Nat) (createdBy : String)
    (ops : List Op)
    (hok : (fileOf D cols codec pageSize createdBy ops).2.getLast? = some .ok) :
    ∃ (md : FooterData) (gs : List (List (List PageRec))),
      (fileOf D cols codec pageSize createdBy ops).1 =
        magic ++ dataBytes D gs ++ D.footer md ++ le32 (D.footer md).length ++ magic ∧
      GroupsAt md.rowGroups 4 ∧ AllGroups D codec md.rowGroups gs := by
  unfold fileOf writesOf at hok ⊢
  have hinit := allInv_init cols codec pageSize createdBy
  obtain ⟨r1, r2⟩ := run_eq_close D ops { cols := cols, codec := codec, pageSize := pageSize, createdBy := createdBy } []
  simp only at hok ⊢
  rw [r2] at hok
  have hok' := Option.some.inj hok
  have hA := allInv_stateAfter D ops _ hinit
  have hP := pinv_closing D codec _ (pinv_stateAfter D codec ops _ (pinv_init D cols codec pageSize createdBy) hinit) hA
  obtain ⟨c1, _, c3⟩ := close_layout D _ hA hok'
  have hh : (closing D (stateAfter D { cols := cols, codec := codec, pageSize := pageSize, createdBy := createdBy } ops)).headerWritten = true := by
    unfold closing; rw [flushRowGroup_header]; exact (allInv_ensureHeader _ hA).2
  obtain ⟨_, ⟨g1, g2, _⟩, _⟩ := hP
  rw [r1, c1, g1 hh]
  generalize closing D (stateAfter D { cols := cols, codec := codec, pageSize := pageSize, createdBy := createdBy } ops) = W' at *
  exact ⟨⟨W'.cols, W'.createdBy, W'.totalRows, W'.rowGroups⟩, W'.pagesDone, by simp [footerOf, List.append_assoc], c3, g2⟩

/-- **What the pages contain** (writer half of "recovers exactly the table that was written").
For every schema, options and history whose batches are well formed (`HistWF`: the caller's
arrays hold what the counts say) and in which EVERY call and the close returned OK: the file is
`PAR1 ++ pages ++ footer(md) ++ len ++ PAR1` as in `C05_pages_chain`, every page record is the
finalisation of the page-builder content it carries — body = rep levels ++ def levels ++ PLAIN
values of exactly that content, header row count, statistics (`GroupOf` / `pageRecOf`) — and
the contents of the pages, concatenated chunk by chunk, are exactly the table the history
denotes (`tableOf`, defined from the batches alone: rows, levels and dense values per column
per row group, in call order). -/
theorem C05_written_table (D : Deps) (cols : List Col) (codec pageSize : Nat) (createdBy : String)
    (ops : List Op) (hwf : HistWF ops)
    (hok : ∀ s ∈ (fileOf D cols codec pageSize createdBy ops).2, s = .ok) :
    ∃ (md : FooterData) (gs : List (List (List PageRec))),
      (fileOf D cols codec pageSize createdBy ops).1 =
        magic ++ dataBytes D gs ++ D.footer md ++ le32 (D.footer md).length ++ magic ∧
      md.cols = cols ∧ GroupsAt md.rowGroups 4 ∧ AllGroups D codec md.rowGroups gs ∧
      (∀ g ∈ gs, GroupOf D codec cols g) ∧
      gs.map (·.map pagesData) = tableOf cols ops := by
  unfold fileOf writesOf at hok ⊢
  simp only at hok ⊢
  have hinit := allInv_init cols codec pageSize createdBy
  obtain ⟨r1, _⟩ := run_eq_close D ops { cols := cols, codec := codec, pageSize := pageSize, createdBy := createdBy } []
  obtain ⟨a1, a2⟩ := run_all_ok D ops _ [] hok
  have hA := allInv_stateAfter D ops _ hinit
  have hP := pinv_closing D codec _ (pinv_stateAfter D codec ops _ (pinv_init D cols codec pageSize createdBy) hinit) hA
  obtain ⟨t1, t2, t3, t4⟩ := stateAfter_refines D ops _ (tinv_init D cols codec pageSize createdBy) hwf a1
  have hcl : (step D (stateAfter D { cols := cols, codec := codec, pageSize := pageSize, createdBy := createdBy } ops) .newRowGroup).2 = .ok := by
    rw [← close_status]; exact a2
  obtain ⟨s1, s2, s3, s4⟩ := step_refines D _ .newRowGroup t1 (fun b hb => by cases hb) hcl
  obtain ⟨c1, _, c3⟩ := close_layout D _ hA a2
  have hh : (closing D (stateAfter D { cols := cols, codec := codec, pageSize := pageSize, createdBy := createdBy } ops)).headerWritten = true := by
    unfold closing; rw [flushRowGroup_header]; exact (allInv_ensureHeader _ hA).2
  obtain ⟨_, ⟨g1, g2, _⟩, _⟩ := hP
  have hstep : (step D (stateAfter D { cols := cols, codec := codec, pageSize := pageSize, createdBy := createdBy } ops) .newRowGroup).1 =
      closing D (stateAfter D { cols := cols, codec := codec, pageSize := pageSize, createdBy := createdBy } ops) := rfl
  rw [hstep] at s1 s2 s3 s4
  rw [r1, c1, g1 hh]
  have htab : (closing D (stateAfter D { cols := cols, codec := codec, pageSize := pageSize, createdBy := createdBy } ops)).pagesDone.map (·.map pagesData) =
      tableOf cols ops := by
    have := congrArg A.done s2
    rw [t2, t3] at this
    simpa [abs, tableOf] using this
  have hcols : (closing D (stateAfter D { cols := cols, codec := codec, pageSize := pageSize, createdBy := createdBy } ops)).cols = cols := by
    rw [s3, t3]
  have hcodec : (closing D (stateAfter D { cols := cols, codec := codec, pageSize := pageSize, createdBy := createdBy } ops)).codec = codec := by
    rw [s4, t4]
  have hgo := s1.1
  rw [hcols, hcodec] at hgo
  generalize closing D (stateAfter D { cols := cols, codec := codec, pageSize := pageSize, createdBy := createdBy } ops) = W' at *
  exact ⟨⟨W'.cols, W'.createdBy, W'.totalRows, W'.rowGroups⟩, W'.pagesDone, by simp [footerOf, List.append_assoc],
    hcols, c3, g2, hgo, htab⟩

/-- the same for the real components -/
theorem C05_envelope_real (cols : List Col) (codec pageSize : Nat) (ops : List Op)
    (hok : (fileOf (Carquet.Impl.FileReal.deps []) cols codec pageSize "Carquet" ops).2.getLast? = some .ok) :
    ∃ (data ftr : Bytes), (fileOf (Carquet.Impl.FileReal.deps []) cols codec pageSize "Carquet" ops).1 =
      magic ++ data ++ ftr ++ le32 ftr.length ++ magic :=
  C05_envelope _ cols codec pageSize "Carquet" ops hok

/-- non-vacuity: a two-column history with a row-group boundary closes OK -/
example : (fileOf (Carquet.Impl.FileReal.deps []) [⟨"a", .int32, .optional, 0, none⟩, ⟨"b", .boolean, .required, 0, none⟩] 0 64 "Carquet"
    [.batch ⟨0, 3, some [1, 0, 1], [[1, 0, 0, 0], [2, 0, 0, 0]], none⟩, .batch ⟨1, 3, none, [[1], [0], [1]], none⟩, .newRowGroup,
     .batch ⟨0, 1, none, [[7, 0, 0, 0]], none⟩, .batch ⟨1, 1, none, [[0]], none⟩]).2.getLast? = some .ok := by
  decide +kernel

/-- non-vacuity of `C05_written_table`: the same history is well formed, all its calls return
OK, and the table it denotes is the expected one (two row groups) -/
example : HistWF [.batch ⟨0, 3, some [1, 0, 1], [[1, 0, 0, 0], [2, 0, 0, 0]], none⟩, .batch ⟨1, 3, none, [[1], [0], [1]], none⟩, .newRowGroup,
     .batch ⟨0, 1, none, [[7, 0, 0, 0]], none⟩, .batch ⟨1, 1, none, [[0]], none⟩] := by
  intro b hb
  simp only [List.mem_cons, Op.batch.injEq, List.mem_nil_iff, or_false, reduceCtorEq, false_or] at hb
  rcases hb with h | h | h | h <;> subst h <;>
    exact ⟨by decide, (by intro ds h; cases h <;> rfl), (by intro rs h; cases h)⟩

example : ((fileOf (Carquet.Impl.FileReal.deps []) [⟨"a", .int32, .optional, 0, none⟩, ⟨"b", .boolean, .required, 0, none⟩] 0 64 "Carquet"
    [.batch ⟨0, 3, some [1, 0, 1], [[1, 0, 0, 0], [2, 0, 0, 0]], none⟩, .batch ⟨1, 3, none, [[1], [0], [1]], none⟩, .newRowGroup,
     .batch ⟨0, 1, none, [[7, 0, 0, 0]], none⟩, .batch ⟨1, 1, none, [[0]], none⟩]).2.all (· == .ok)) = true := by
  decide +kernel

example : tableOf [⟨"a", .int32, .optional, 0, none⟩, ⟨"b", .boolean, .required, 0, none⟩]
    [.batch ⟨0, 3, some [1, 0, 1], [[1, 0, 0, 0], [2, 0, 0, 0]], none⟩, .batch ⟨1, 3, none, [[1], [0], [1]], none⟩, .newRowGroup,
     .batch ⟨0, 1, none, [[7, 0, 0, 0]], none⟩, .batch ⟨1, 1, none, [[0]], none⟩] =
    [[⟨3, [1, 0, 1], [], [[1, 0, 0, 0], [2, 0, 0, 0]]⟩, ⟨3, [], [], [[1], [0], [1]]⟩],
     [⟨1, [1], [], [[7, 0, 0, 0]]⟩, ⟨1, [], [], [[0]]⟩]] := by
  decide +kernel

end Carquet.Properties.C05
