import Carquet.Properties.C05.SpecWriter
import Carquet.Proofs.SpecFileLogical
/-
C05 — LOGICAL TYPES of the columns of written files.

`carquet_schema_add_column(schema, name, physical_type, logical_type, repetition, type_length)` takes a
logical type; `add_column_internal` copies it, `build_file_metadata` sets `has_logical_type` when the id is
not UNKNOWN, `write_schema_element` / `write_logical_type` serialise it as SchemaElement field 10 (the
LogicalType union).  The writer model carries it (`Impl.Writer.Col.logical`, `Impl.FileReal.colLogical`,
byte-exact through `Impl.ThriftParquet.wLogicalMember`; tie: whole files byte for byte, op `wr`), and the
independent reader `Spec.File.read` VALIDATES the union of every schema element against parquet.thrift —
exactly one member; DecimalType with scale and precision, TimeType / TimestampType with isAdjustedToUTC and a
one-member TimeUnit, IntType with bitWidth and isSigned (all REQUIRED there) — and returns the annotation in
the schema tree (`Spec.Schema.Info.logicalType`, next to the converted type `Info.logical`).

So `C05_spec_reader_accepts_writer` (Properties/C05/SpecWriter.lean) now holds for columns WITH logical types
and its right-hand side `specTableOf cols ops` STATES them.  This file makes that content explicit.
Statements only; lemmas in Proofs/SpecFileLogical.lean, Proofs/SpecWriterFooter.lean.
-/
namespace Carquet.Properties.C05
open Carquet.Impl Carquet.Impl.Writer Carquet.Impl.FileReal
open Carquet.Spec Carquet.Proofs.SpecWriter Carquet.Proofs.WriterTable

private theorem leafInfosList_leaves (cols : List Col) :
    Schema.leafInfosList (cols.map specLeafNode) =
      cols.map (fun c => (⟨c.name, some (specRep c.rep), some c.ptype.code, (c.typeLen : Int), none, specLogicalOf c⟩ : Schema.Info)) := by
  induction cols with
  | nil => rfl
  | cons c cs ih => simp [Schema.leafInfosList, Schema.leafInfos, specLeafNode, ih]

/-- **The file states what was written.**  Under the hypotheses of `C05_spec_reader_accepts_writer`, the schema
the independent reader returns for the written file carries, column by column, exactly the logical types the
columns were created with: id and parameters (DECIMAL scale and precision, TIME / TIMESTAMP UTC flag and unit,
INTEGER width and sign) for a column created with a logical type, nothing for a column created with a NULL
pointer or with id UNKNOWN — and no converted type.  The metadata stages alone (`readSchema`) return the same
tree. -/
theorem C05_written_logical_types
    (cols : List Col) (codec pageSize : Nat) (ops : List Op)
    (hcodec : codec = 0 ∨ codec = 1 ∨ codec = 5 ∨ codec = 7)
    (hschema : SchemaOk cols) (hhist : HistOk cols ops) (hsize : FileSizesOk cols codec pageSize ops)
    (hok : ∀ s ∈ (fileOf (deps []) cols codec pageSize "Carquet" ops).2, s = .ok) :
    ∃ t, Spec.File.read (fileOf (deps []) cols codec pageSize "Carquet" ops).1 (strictTiling := true) = .ok t ∧
      (Schema.leafInfos t.schema).map (·.logicalType) = cols.map specLogicalOf ∧
      (Schema.leafInfos t.schema).map (·.logical) = cols.map (fun _ => none) ∧
      Spec.File.readSchema (fileOf (deps []) cols codec pageSize "Carquet" ops).1 = .ok (specSchemaOf cols) := by
  have h := C05_spec_reader_accepts_writer cols codec pageSize ops hcodec hschema hhist hsize hok
  refine ⟨_, h, ?_, ?_, Carquet.Proofs.SpecFile.readSchema_of_read _ _ _ _ h⟩
  · show (Schema.leafInfos (specSchemaOf cols)).map (·.logicalType) = _
    simp [specSchemaOf, Schema.leafInfos, leafInfosList_leaves, List.map_map, Function.comp_def]
  · show (Schema.leafInfos (specSchemaOf cols)).map (·.logical) = _
    simp [specSchemaOf, Schema.leafInfos, leafInfosList_leaves, List.map_map, Function.comp_def]

/-- what `specLogicalOf` is, case by case: a NULL pointer and id UNKNOWN state nothing; every other
`carquet_logical_type_t` states the member of parquet.thrift's union with the same parameters -/
theorem C05_specLogicalOf_cases (c : Col) :
    (c.logical = none → specLogicalOf c = none) ∧ (c.logical = some .unknown → specLogicalOf c = none) ∧
    (∀ s p, c.logical = some (.decimal s p) → specLogicalOf c = some (.decimal s p)) ∧
    (∀ utc, c.logical = some (.timestamp utc .millis) → specLogicalOf c = some (.timestamp utc .millis)) ∧
    (∀ utc, c.logical = some (.timestamp utc .micros) → specLogicalOf c = some (.timestamp utc .micros)) ∧
    (∀ utc, c.logical = some (.timestamp utc .nanos) → specLogicalOf c = some (.timestamp utc .nanos)) ∧
    (∀ utc u, c.logical = some (.time utc u) → specLogicalOf c = some (.time utc (specUnit u))) ∧
    (∀ bw sg, c.logical = some (.integer bw sg) → specLogicalOf c = some (.integer bw sg)) ∧
    (∀ lt, c.logical = some lt → lt ≠ .unknown → (specLogicalOf c).isSome = true) := by
  refine ⟨?_, ?_, ?_, ?_, ?_, ?_, ?_, ?_, ?_⟩ <;> intros <;> simp_all [specLogicalOf, specLogical, specUnit]
  rename_i lt _ hne
  cases lt <;> simp_all [specLogical]

/-- **Every LogicalType struct of a written footer is complete per parquet.thrift.**  For every footer the
writer assembles (within the limits `footerOk`), the INDEPENDENT generic compact-protocol decoder reads the
footer bytes as one struct value consuming them exactly, and every SchemaElement value in its `schema` list
either has no field 10, or field 10 is a union value with exactly one member, of an id the union has, whose
member struct carries every REQUIRED field of parquet.thrift (DecimalType scale, precision; TimeType /
TimestampType isAdjustedToUTC, unit — itself a one-member TimeUnit; IntType bitWidth, isSigned) with the
types parquet.thrift gives them (`logicalTypeComplete`). -/
theorem C05_logical_type_required_fields (md : FooterData) (hok : Carquet.Proofs.FileRealFooter.footerOk md = true) :
    ∃ fs els, Spec.Thrift.decodeStruct (FileReal.footer md) = some (.struct fs) ∧
      File.structsOf "FileMetaData.schema" ((File.getList fs 2).getD []) = .ok els ∧
      els.length = 1 + md.cols.length ∧
      ∀ el ∈ els, ∀ u, File.getStruct el 10 = some u → File.logicalTypeComplete u = true := by
  refine ⟨fmFieldsW md, (Schema.flatten (specSchemaOf md.cols)).map Carquet.Proofs.SpecFile.seFields,
    decodeStruct_written md hok, ?_, ?_, ?_⟩
  · have h1 := Carquet.Proofs.SpecFile.structsOf_map "FileMetaData.schema" Carquet.Proofs.SpecFile.seFields
      (Schema.flatten (specSchemaOf md.cols))
    simpa [fmFieldsW, File.getList, File.field?] using h1
  · simp [specSchemaOf, Schema.flatten, flattenList_leaves]
    omega
  · intro el hel u hu
    obtain ⟨e, _, rfl⟩ := List.mem_map.mp hel
    exact Carquet.Proofs.SpecFile.seFields_logical_complete e u hu

/-- **An incomplete or malformed LogicalType is REJECTED, with a reason** (the independent reader's rule, for
ANY member struct `m`, whatever else it holds): a DecimalType lacking scale or precision; a TimeType /
TimestampType lacking isAdjustedToUTC or unit; an IntType lacking bitWidth or isSigned; a union that does not
hold exactly one member; a TimeUnit that does not hold exactly one member; and an error in field 10 is an error
of the schema element (hence of `parseFooter`, `readSchema` and `read`, which thread it through). -/
theorem C05_incomplete_logical_type_rejected :
    (∀ m, Spec.ParquetThrift.decimalType.complete m = false →
      File.logicalTypeOf [(5, .struct m)] = .error (.missingField "DecimalType")) ∧
    (∀ id, id = 7 ∨ id = 8 → ∀ m, Spec.ParquetThrift.timeType.complete m = false →
      File.logicalTypeOf [(id, .struct m)] = .error (.missingField "TimeType / TimestampType")) ∧
    (∀ m, Spec.ParquetThrift.intType.complete m = false →
      File.logicalTypeOf [(10, .struct m)] = .error (.missingField "IntType")) ∧
    (∀ u, u.length ≠ 1 → ∃ e, File.logicalTypeOf u = .error e) ∧
    (∀ u, u.length ≠ 1 → ∃ e, File.timeUnitOf u = .error e) ∧
    (∀ fs e, File.optLogicalTypeOf fs = .error e → ∃ e', File.schemaElementOf fs = .error e') :=
  ⟨Carquet.Proofs.SpecFile.logicalTypeOf_decimal_incomplete,
   fun id hid m h => Carquet.Proofs.SpecFile.logicalTypeOf_time_incomplete id hid m h,
   Carquet.Proofs.SpecFile.logicalTypeOf_int_incomplete,
   Carquet.Proofs.SpecFile.logicalTypeOf_not_one,
   Carquet.Proofs.SpecFile.timeUnitOf_not_one,
   Carquet.Proofs.SpecFile.schemaElementOf_logical_error⟩

/-! ### what the reader says about concrete union values (tests of the rule, kernel-checked) -/

open Carquet.Spec.Thrift in
/-- DECIMAL(9, 0) as carquet writes it: scale 0 IS on the wire -/
example : File.logicalTypeOf [(5, .struct [(1, .i32 0), (2, .i32 9)])] = .ok (some (.decimal 0 9)) := by decide
open Carquet.Spec.Thrift in
/-- the footer of the seeded defect (scale / precision written only when non-zero): DECIMAL(9, 0) without field 1 -/
example : File.logicalTypeOf [(5, .struct [(2, .i32 9)])] = .error (.missingField "DecimalType") := by decide
open Carquet.Spec.Thrift in
example : File.logicalTypeOf [(5, .struct [])] = .error (.missingField "DecimalType") := by decide
open Carquet.Spec.Thrift in
/-- a scale of the wrong Thrift type -/
example : File.logicalTypeOf [(5, .struct [(1, .i64 0), (2, .i32 9)])] = .error (.wrongFieldType "DecimalType") := by decide
open Carquet.Spec.Thrift in
/-- TIMESTAMP(UTC, MICROS) -/
example : File.logicalTypeOf [(8, .struct [(1, .bool true), (2, .struct [(2, .struct [])])])] =
    .ok (some (.timestamp true .micros)) := by decide
open Carquet.Spec.Thrift in
/-- TIMESTAMP whose unit sits under field 1 (where isAdjustedToUTC belongs): wrong type for field 1 -/
example : File.logicalTypeOf [(8, .struct [(1, .bool true), (1, .struct [(2, .struct [])])])] =
    .error (.missingField "TimeType / TimestampType") := by decide
open Carquet.Spec.Thrift in
example : File.logicalTypeOf [(8, .struct [(1, .struct [(2, .struct [])])])] =
    .error (.missingField "TimeType / TimestampType") := by decide
open Carquet.Spec.Thrift in
/-- TIME without its unit -/
example : File.logicalTypeOf [(7, .struct [(1, .bool false)])] = .error (.missingField "TimeType / TimestampType") := by decide
open Carquet.Spec.Thrift in
/-- a TimeUnit with two members, with none, with a member parquet.thrift does not have -/
example : File.logicalTypeOf [(7, .struct [(1, .bool false), (2, .struct [(1, .struct []), (2, .struct [])])])] =
    .error (.unionNotOneMember "TimeUnit") := by decide
open Carquet.Spec.Thrift in
example : File.logicalTypeOf [(7, .struct [(1, .bool false), (2, .struct [])])] = .error (.unionNotOneMember "TimeUnit") := by decide
open Carquet.Spec.Thrift in
example : File.logicalTypeOf [(7, .struct [(1, .bool false), (2, .struct [(4, .struct [])])])] = .error .unknownTimeUnit := by decide
open Carquet.Spec.Thrift in
/-- a union with two members; an empty union -/
example : File.logicalTypeOf [(1, .struct []), (6, .struct [])] = .error (.unionNotOneMember "LogicalType") := by decide
example : File.logicalTypeOf [] = .error (.unionNotOneMember "LogicalType") := by decide
open Carquet.Spec.Thrift in
/-- INTEGER(8, signed); without isSigned -/
example : File.logicalTypeOf [(10, .struct [(1, .i8 8), (2, .bool true)])] = .ok (some (.integer 8 true)) := by decide
open Carquet.Spec.Thrift in
example : File.logicalTypeOf [(10, .struct [(1, .i8 8)])] = .error (.missingField "IntType") := by decide
open Carquet.Spec.Thrift in
/-- a member that is not a struct -/
example : File.logicalTypeOf [(1, .i32 0)] = .error (.wrongFieldType "LogicalType") := by decide
open Carquet.Spec.Thrift in
/-- a single member this reader has no name for (a newer annotation): accepted, no annotation; unknown fields
inside a member are ignored -/
example : File.logicalTypeOf [(20, .struct [])] = .ok none := by decide
open Carquet.Spec.Thrift in
example : File.logicalTypeOf [(5, .struct [(1, .i32 2), (2, .i32 9), (7, .binary [1])])] = .ok (some (.decimal 2 9)) := by decide

/-! ### non-vacuity: a three-column, two-row-group, Snappy-compressed history with a DECIMAL(9, 0) INT32 column
(OPTIONAL, with a null), a TIMESTAMP(UTC, MICROS) INT64 column and a column created with a non-NULL pointer
whose id is UNKNOWN satisfies every hypothesis -/

def lgCols : List Col :=
  [⟨"price", .int32, .optional, 0, some (.decimal 0 9)⟩, ⟨"ts", .int64, .required, 0, some (.timestamp true .micros)⟩,
   ⟨"u", .boolean, .required, 0, some .unknown⟩]
def lgOps : List Op :=
  [.batch ⟨0, 3, some [1, 0, 1], [[1, 0, 0, 0], [2, 0, 0, 0]], none⟩,
   .batch ⟨1, 3, none, [[1, 0, 0, 0, 0, 0, 0, 0], [2, 0, 0, 0, 0, 0, 0, 0], [3, 0, 0, 0, 0, 0, 0, 0]], none⟩,
   .batch ⟨2, 3, none, [[1], [0], [1]], none⟩, .newRowGroup,
   .batch ⟨0, 1, none, [[7, 0, 0, 0]], none⟩, .batch ⟨1, 1, none, [[9, 0, 0, 0, 0, 0, 0, 0]], none⟩, .batch ⟨2, 1, none, [[0]], none⟩]

theorem lgSchemaOk : SchemaOk lgCols :=
  ⟨by decide, fun c hc => by
    simp only [lgCols, List.mem_cons, List.mem_nil_iff, or_false] at hc
    rcases hc with rfl | rfl | rfl <;> exact ⟨by decide⟩,
   ⟨by decide, by decide +kernel, by decide, by decide⟩⟩

theorem lgHistOk : HistOk lgCols lgOps := by
  refine ⟨?_, ?_, by decide +kernel, by decide +kernel⟩
  · intro b hb
    simp only [lgOps, List.mem_cons, Op.batch.injEq, List.mem_nil_iff, or_false, reduceCtorEq, false_or] at hb
    rcases hb with h | h | h | h | h | h <;> subst h <;>
      exact ⟨by decide, (by intro ds h; cases h <;> rfl), (by intro rs h; cases h)⟩
  · intro b hb c hc
    simp only [lgOps, List.mem_cons, Op.batch.injEq, List.mem_nil_iff, or_false, reduceCtorEq, false_or] at hb
    rcases hb with h | h | h | h | h | h <;> subst h <;>
      simp only [lgCols, List.getElem?_cons_zero, List.getElem?_cons_succ, Option.some.injEq] at hc <;> subst hc <;>
      exact ⟨by decide, (by intro ds h; cases h <;> rfl), (by intro _ ds h; cases h <;> decide), by decide,
        (by intro rs h; cases h), (by intro _ rs h; cases h)⟩

theorem lgSizesOk : FileSizesOk lgCols 1 64 lgOps := ⟨by decide +kernel, by decide +kernel, by decide +kernel⟩

theorem lgAllOk : ((fileOf (deps []) lgCols 1 64 "Carquet" lgOps).2.all (· == .ok)) = true := by decide +kernel

/-- `C05_spec_reader_accepts_writer` applied to it: the independent reader accepts the file and returns the table — with the
DECIMAL and TIMESTAMP annotations in its schema -/
example : Spec.File.read (fileOf (deps []) lgCols 1 64 "Carquet" lgOps).1 (strictTiling := true) =
    .ok (specTableOf lgCols lgOps) :=
  C05_spec_reader_accepts_writer lgCols 1 64 lgOps (by decide) lgSchemaOk lgHistOk lgSizesOk
    (fun s hs => by simpa using List.all_eq_true.mp lgAllOk s hs)

/-- `C05_written_logical_types` applied to it -/
example : ∃ t, Spec.File.read (fileOf (deps []) lgCols 1 64 "Carquet" lgOps).1 (strictTiling := true) = .ok t ∧
    (Schema.leafInfos t.schema).map (·.logicalType) = lgCols.map specLogicalOf ∧
    (Schema.leafInfos t.schema).map (·.logical) = lgCols.map (fun _ => none) ∧
    Spec.File.readSchema (fileOf (deps []) lgCols 1 64 "Carquet" lgOps).1 = .ok (specSchemaOf lgCols) :=
  C05_written_logical_types lgCols 1 64 lgOps (by decide) lgSchemaOk lgHistOk lgSizesOk
    (fun s hs => by simpa using List.all_eq_true.mp lgAllOk s hs)

/-- what the file must state: DECIMAL(scale 0, precision 9), TIMESTAMP(UTC, MICROS), and nothing for the column
whose id is UNKNOWN -/
example : lgCols.map specLogicalOf = [some (.decimal 0 9), some (.timestamp true .micros), none] := by decide

/-- the schema tree of the table -/
example : File.nodeBeq (specTableOf lgCols lgOps).schema
    (.group ⟨"schema", none, none, 0, none, none⟩
      [.leaf ⟨"price", some .optional, some 1, 0, none, some (.decimal 0 9)⟩,
       .leaf ⟨"ts", some .required, some 2, 0, none, some (.timestamp true .micros)⟩,
       .leaf ⟨"u", some .required, some 0, 0, none, none⟩]) = true := by decide

/-- the footer data of the example's run is within `footerOk` (hypothesis of `C05_logical_type_required_fields`,
`C05_spec_reader_reads_footer`, `C13_written_footer_roundtrip`) -/
theorem lgFooterOk : Carquet.Proofs.FileRealFooter.footerOk (mdOfRun (deps []) lgCols 1 64 "Carquet" lgOps) = true := by
  decide +kernel

/-- `C05_logical_type_required_fields` applied to it -/
example : ∃ fs els, Spec.Thrift.decodeStruct (FileReal.footer (mdOfRun (deps []) lgCols 1 64 "Carquet" lgOps)) = some (.struct fs) ∧
    File.structsOf "FileMetaData.schema" ((File.getList fs 2).getD []) = .ok els ∧
    els.length = 1 + (mdOfRun (deps []) lgCols 1 64 "Carquet" lgOps).cols.length ∧
    ∀ el ∈ els, ∀ u, File.getStruct el 10 = some u → File.logicalTypeComplete u = true :=
  C05_logical_type_required_fields _ lgFooterOk

/-- the bytes of field 10 of the two annotated columns in that footer, as `write_logical_type` emits them:
`5c 15 00 15 12 00 00` (member 5: struct { 1: i32 0, 2: i32 9 }) and `8c 11 1c 2c 00 00 00 00` hold the required
fields; the union values they decode to are complete -/
example : File.logicalTypeComplete [(5, .struct [(1, .i32 0), (2, .i32 9)])] = true ∧
    File.logicalTypeComplete [(8, .struct [(1, .bool true), (2, .struct [(2, .struct [])])])] = true ∧
    File.logicalTypeComplete [(5, .struct [(2, .i32 9)])] = false := by decide

end Carquet.Properties.C05
