/-
C05 ("every file reported complete is structurally valid"), failure of a row-group flush.  F97: in the pinned code a
`flush_row_group` that failed half-way - inside `carquet_row_group_writer_finalize` (pages already appended to the chunk
buffers), or after the row group's bytes had been handed to the stream (metadata allocation failed) - left the writer as if
nothing had happened: a second `carquet_writer_new_row_group` finalised the same columns AGAIN (or wrote the same bytes
again) and `carquet_writer_close` returned OK for a file whose page headers, value counts and chunk sizes no longer fit
together (found by the `c05alloc` component: every allocation of the flush failing once, the failed call repeated).
The repaired writer remembers the failure (`writer->broken`): every later flush, and close, reports it.

The model below is the status flow of `flush_row_group` / `carquet_writer_new_row_group` / `carquet_writer_close` with
respect to that flag, nothing else: what each attempt to finish a row group does is a parameter (`Attempt`).
-/
namespace Carquet.Properties.C05.BrokenFlush

/-- what one attempt to finish the pending row group would do if it were made -/
inductive Attempt where
  | ok                    -- finalize, fwrite and metadata all succeed
  | failsHalfWay (st : Nat)   -- finalize fails, or a metadata allocation fails after the fwrite (status st ≠ 0)
  | streamFails           -- the fwrite itself fails (remembered by the stream's error indicator, not by `broken`)
deriving DecidableEq, Repr

structure Writer where
  broken : Nat := 0        -- CARQUET_OK = 0
  streamError : Bool := false
deriving DecidableEq, Repr

/-- `flush_row_group` of the repaired code: status (0 = OK) -/
def flush (w : Writer) (a : Attempt) : Writer × Nat :=
  if w.broken ≠ 0 then (w, w.broken)
  else match a with
    | .ok => (w, 0)
    | .failsHalfWay st => ({ w with broken := st }, st)
    | .streamFails => ({ w with streamError := true }, 22)

/-- `flush_row_group` of the pinned code: no memory of a failure -/
def flushPreFixF97 (w : Writer) (a : Attempt) : Writer × Nat :=
  match a with
  | .ok => (w, 0)
  | .failsHalfWay st => (w, st)
  | .streamFails => ({ w with streamError := true }, 22)

/-- `carquet_writer_close`: the flush, then (if it succeeded) the footer; the final `ferror` test -/
def close (fl : Writer → Attempt → Writer × Nat) (w : Writer) (a : Attempt) : Nat :=
  if (fl w a).2 ≠ 0 then (fl w a).2 else if (fl w a).1.streamError then 22 else 0

/-- a history of `carquet_writer_new_row_group` calls, each with what its attempt would do -/
def run (fl : Writer → Attempt → Writer × Nat) (w : Writer) : List Attempt → Writer × List Nat
  | [] => (w, [])
  | a :: as => ((run fl (fl w a).1 as).1, (fl w a).2 :: (run fl (fl w a).1 as).2)

theorem broken_stays (w : Writer) (a : Attempt) (h : w.broken ≠ 0) : (flush w a).1.broken ≠ 0 ∧ (flush w a).2 ≠ 0 := by
  simp [flush, h]

theorem run_broken (w : Writer) (h : w.broken ≠ 0) : ∀ as : List Attempt, (run flush w as).1.broken ≠ 0 ∧ ∀ s ∈ (run flush w as).2, s ≠ 0
  | [] => by simp [run, h]
  | a :: as => by
    have hb := broken_stays w a h
    have ih := run_broken (flush w a).1 hb.1 as
    simp only [run]
    refine ⟨ih.1, ?_⟩
    intro s hs
    simp only [List.mem_cons] at hs
    cases hs with
    | inl e => subst e; exact hb.2
    | inr m => exact ih.2 s m

/-- **After a flush that failed half-way, no later flush and no close reports OK** - whatever the later attempts would do,
however often the caller repeats the call.  (Stated for status values `st ≠ 0`: the statuses the half-way failures have.) -/
theorem C05_failed_flush_poisons_close (w : Writer) (st : Nat) (hst : st ≠ 0) (hw : w.broken = 0)
    (later : List Attempt) (last : Attempt) :
    (∀ s ∈ (run flush (flush w (.failsHalfWay st)).1 later).2, s ≠ 0) ∧
    close flush (run flush (flush w (.failsHalfWay st)).1 later).1 last ≠ 0 := by
  have hb : (flush w (.failsHalfWay st)).1.broken ≠ 0 := by simp [flush, hw, hst]
  have hr := run_broken _ hb later
  refine ⟨hr.2, ?_⟩
  have := broken_stays (run flush (flush w (.failsHalfWay st)).1 later).1 last hr.1
  simp [close, this.2]

-- non-vacuity: the failed flush, a repeated call that would now succeed, and the close
example : (run flush (flush {} (.failsHalfWay 2)).1 [.ok, .ok]).2 = [2, 2] ∧
    close flush (run flush (flush {} (.failsHalfWay 2)).1 [.ok]).1 .ok = 2 := by decide

/-- **F97.**  Pinned code: the flush fails (status 2 = out of memory), the repeated call reports OK and so does close - the
history on which the real writer produced a file the independent reader refuses (witness corpus/C05/F97-*.ops). -/
theorem C05_regression_F97 :
    (flushPreFixF97 {} (.failsHalfWay 2)).2 = 2 ∧
    (run flushPreFixF97 (flushPreFixF97 {} (.failsHalfWay 2)).1 [.ok]).2 = [0] ∧
    close flushPreFixF97 (run flushPreFixF97 (flushPreFixF97 {} (.failsHalfWay 2)).1 [.ok]).1 .ok = 0 := by decide

end Carquet.Properties.C05.BrokenFlush
