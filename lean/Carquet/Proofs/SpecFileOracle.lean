import Carquet.Proofs.SpecFileWholeFull
import Carquet.Proofs.SpecFileGzip
import Carquet.Proofs.SpecFileZstd
/-
The oracle table the reference writer emits for an admissible layout is COHERENT (a function on
its keys): every pair is (container bytes, contents) of a decodable GZIP member or ZSTD frame, and
equal containers hold equal contents.  This discharges the `oracleCoherent` hypothesis of the
whole-file theorem.
-/
namespace Carquet.Proofs.SpecFile
open Carquet.Spec Carquet.Spec.File Carquet.Spec.Thrift Carquet.Spec.ParquetThrift

/-- what a container of the reference writer holds (for the proof only) -/
def unpackOracle (c : Bytes) : Option Bytes :=
  match gunzipStored c with
  | some d => some d
  | none => unzstdRaw c

def OracleValid (e : Bytes × Bytes) : Prop := unpackOracle e.1 = some e.2

theorem gunzipStored_zstd (f : Nat) (plan : List ZBlock) (data comp : Bytes) (h : zstdRaw f plan data = some comp) :
    gunzipStored comp = none := by
  unfold zstdRaw at h
  cases hcs : zContentSize f data.length with
  | none => simp [hcs] at h
  | some cs =>
    cases hbl : zBlocks plan data with
    | none => simp [hcs, hbl] at h
    | some bl =>
      simp only [hcs, hbl, Option.some.injEq] at h
      subst h
      unfold gunzipStored
      have : ¬ (([0x28, 0xB5, 0x2F] : Bytes) = [0x1f, 0x8b, 8]) := by decide
      simp [this]

theorem oracleEntry_valid (plan : CompPlan) (body comp : Bytes) (hc : compressWith plan body = some comp)
    (hp : planOk plan = true) : ∀ e ∈ oracleEntry plan comp body, OracleValid e := by
  intro e he
  cases plan with
  | none => simp [oracleEntry] at he
  | snappy ops => simp [oracleEntry] at he
  | lz4 tag seqs last => simp [oracleEntry] at he
  | gzip k name =>
    simp only [oracleEntry, List.mem_singleton] at he
    subst he
    simp only [compressWith, Option.some.injEq] at hc
    subst hc
    simp only [planOk] at hp
    simp [OracleValid, unpackOracle, gunzipStored_gzipStored k name body hp]
  | zstd f zp =>
    simp only [oracleEntry, List.mem_singleton] at he
    subst he
    simp only [compressWith] at hc
    simp [OracleValid, unpackOracle, gunzipStored_zstd f zp body comp hc, unzstdRaw_zstdRaw f zp body comp hc]

/-- a table of valid pairs is coherent -/
theorem coherent_of_valid (o : Oracle) (h : ∀ e ∈ o, OracleValid e) : oracleCoherent o = true := by
  unfold oracleCoherent
  rw [List.all_eq_true]
  intro e he
  unfold oracleLookup
  cases hf : o.find? (fun p => p.1 == e.1) with
  | none =>
    rw [List.find?_eq_none] at hf
    exact absurd (by simp) (hf e he)
  | some e' =>
    have hm := List.mem_of_find?_eq_some hf
    have hk := List.find?_some hf
    have hk' : e'.1 = e.1 := by simpa using hk
    have h1 := h e' hm
    have h2 := h e he
    unfold OracleValid at h1 h2
    rw [hk', h2] at h1
    simp only [Option.some.injEq] at h1
    simp [h1]

/-! ### every pair the writer emits is valid -/

theorem writeDataPages_oracle_valid (leaf : LeafInfo) (dict : Option (List Bytes)) :
    ∀ (pls : List PageLayout) (es : List Entry) (w : Written), (∀ pl ∈ pls, PageAdm pl) →
      writeDataPages leaf dict pls es = some w → ∀ e ∈ w.oracle, OracleValid e
  | [], es, w, _, hw => by
    simp only [writeDataPages] at hw
    split at hw
    · cases hw; intro e he; cases he
    · cases hw
  | pl :: r, es, w, hpl, hw => by
    simp only [writeDataPages] at hw
    split at hw
    · cases hw
    · cases h1 : writeDataPage leaf dict pl (es.take pl.count) with
      | none => simp [h1] at hw
      | some a =>
        cases h2 : writeDataPages leaf dict r (es.drop pl.count) with
        | none => simp [h1, h2] at hw
        | some b =>
          simp only [h1, h2, Option.some.injEq] at hw
          subst hw
          have ih := writeDataPages_oracle_valid leaf dict r (es.drop pl.count) b (fun p hp => hpl p (by simp [hp])) h2
          obtain ⟨repB, defB, valB, comp, _, _, _, hc, _, horacle, _⟩ := writeDataPage_adm (hpl pl (by simp)) h1
          intro e he
          simp only [List.mem_append] at he
          rcases he with he | he
          · rw [horacle] at he
            exact oracleEntry_valid pl.comp _ comp hc (hpl pl (by simp)).comp e he
          · exact ih e he

theorem writeChunk_oracle_valid {leaf : LeafInfo} {cl : ChunkLayout} {es : Chunk} {pos : Nat} {c : ChunkOut}
    (hp : ChunkAdm cl) (hw : writeChunk leaf cl es pos = some c) : ∀ e ∈ c.oracle, OracleValid e := by
  obtain ⟨dp, pages, hdp, hpages, _, _, _, _, _, horacle, _⟩ := writeChunk_adm hp hw
  have hpv := writeDataPages_oracle_valid leaf _ cl.pages es pages hp.pages hpages
  intro e he
  rw [horacle] at he
  simp only [List.mem_append] at he
  rcases he with he | he
  · cases hdict : cl.dict with
    | none =>
      rw [hdict] at hdp
      simp only [Option.some.injEq] at hdp
      subst hdp
      cases he
    | some d =>
      rw [hdict] at hdp
      obtain ⟨comp, hc, _, hor, _⟩ := writeDictPage_adm (hp.dict d hdict) hdp
      rw [hor] at he
      exact oracleEntry_valid d.comp _ comp hc (hp.dict d hdict).comp e he
  · exact hpv e he

theorem writeChunks_oracle_valid : ∀ (leaves : List LeafInfo) (cls : List ChunkLayout) (ess : List Chunk) (pos : Nat)
    (g : GroupOut), (∀ cl ∈ cls, ChunkAdm cl) → writeChunks leaves cls ess pos = some g → ∀ e ∈ g.oracle, OracleValid e
  | [], [], [], pos, g, _, hw => by
    simp only [writeChunks, Option.some.injEq] at hw
    subst hw
    intro e he; cases he
  | leaf :: ls, cl :: cls, es :: ess, pos, g, hpl, hw => by
    simp only [writeChunks] at hw
    cases hc : writeChunk leaf cl es pos with
    | none => simp [hc] at hw
    | some c =>
      cases hr : writeChunks ls cls ess c.endPos with
      | none => simp [hc, hr] at hw
      | some g' =>
        simp only [hc, hr, Option.some.injEq] at hw
        subst hw
        have h1 := writeChunk_oracle_valid (hpl cl (by simp)) hc
        have h2 := writeChunks_oracle_valid ls cls ess c.endPos g' (fun x hx => hpl x (by simp [hx])) hr
        intro e he
        simp only [List.mem_append] at he
        rcases he with he | he
        · exact h1 e he
        · exact h2 e he
  | [], _ :: _, _, _, _, _, hw => by simp [writeChunks] at hw
  | [], [], _ :: _, _, _, _, hw => by simp [writeChunks] at hw
  | _ :: _, [], _, _, _, _, hw => by simp [writeChunks] at hw
  | _ :: _, _ :: _, [], _, _, _, hw => by simp [writeChunks] at hw

theorem writeGroups_oracle_valid (leaves : List LeafInfo) (extra : Fields) :
    ∀ (lay : List (List ChunkLayout)) (groups : List RowGroup) (pos : Nat) (G : GroupOut),
      (∀ g ∈ lay, ∀ cl ∈ g, ChunkAdm cl) → writeGroups leaves extra lay groups pos = some G → ∀ e ∈ G.oracle, OracleValid e
  | [], [], pos, G, _, hw => by
    simp only [writeGroups, Option.some.injEq] at hw
    subst hw
    intro e he; cases he
  | cls :: r, g :: gs, pos, G, hpl, hw => by
    simp only [writeGroups] at hw
    split at hw
    · cases hw
    · cases hwc : writeChunks leaves cls g.chunks pos with
      | none => simp [hwc] at hw
      | some o =>
        cases hr : writeGroups leaves extra r gs o.endPos with
        | none => simp [hwc, hr] at hw
        | some rest =>
          simp only [hwc, hr, Option.some.injEq] at hw
          subst hw
          have h1 := writeChunks_oracle_valid leaves cls g.chunks pos o (hpl cls (by simp)) hwc
          have h2 := writeGroups_oracle_valid leaves extra r gs o.endPos rest (fun x hx => hpl x (by simp [hx])) hr
          intro e he
          simp only [List.mem_append] at he
          rcases he with he | he
          · exact h1 e he
          · exact h2 e he
  | [], _ :: _, _, _, _, hw => by simp [writeGroups] at hw
  | _ :: _, [], _, _, _, hw => by simp [writeGroups] at hw

/-- **the oracle table of an admissible layout is coherent** -/
theorem writeFull_oracle_coherent (t : Table) (l : Layout) (file : Bytes) (oracle : Oracle)
    (hadm : layoutAdm l = true) (hw : writeFull t l = some (file, oracle)) : oracleCoherent oracle = true := by
  have hl := layoutAdm_iff hadm
  unfold writeFull at hw
  cases hcols : columnsOf t.schema with
  | error e => simp [hcols] at hw
  | ok leaves =>
    simp only [hcols] at hw
    cases hg : writeGroups leaves l.rowGroupExtra l.rowGroups t.rowGroups 4 with
    | none => simp [hg] at hw
    | some G =>
      simp only [hg, Option.some.injEq, Prod.mk.injEq] at hw
      rw [← hw.2]
      exact coherent_of_valid _ (writeGroups_oracle_valid leaves _ _ _ 4 G hl.chunks hg)

/-- **whole file, every admissible layout** — the oracle hypothesis discharged -/
theorem read_write_full' (t : Table) (l : Layout) (file : Bytes) (oracle : Oracle)
    (hadm : layoutAdm l = true) (hw : writeFull t l = some (file, oracle))
    (hwf : ∀ v, footerValue t l = some v → v.wf = true ∧ footerUsizeOk v = true)
    (hlen : file.length < 2 ^ 31)
    (hsmall : ∀ g ∈ t.rowGroups, ∀ es ∈ g.chunks, es.length < 2 ^ 31) :
    File.read file (oracle := oracle) = .ok t :=
  read_write_full t l file oracle hadm hw hwf hlen hsmall oracle
    (oracleCoherent_lookup (writeFull_oracle_coherent t l file oracle hadm hw))

end Carquet.Proofs.SpecFile
