import Carquet.Impl.AllocFlow
import Carquet.Proofs.AllocBuffer
import Carquet.Proofs.AllocArena
/-
Propagation algebra for the flow models (C19): which computations report an error whenever a
request they made was refused (`Clean`), and which at least never report success with a result
other than the fault-free one (`Faithful`).
-/
namespace Carquet.Impl.Alloc.Flow
open Carquet.Impl.Alloc
open Carquet.Impl.Alloc.Buffer (Buf)

/-- `o'` is what is left of `o` after some requests that were all granted -/
def Granted (o o' : Oracle) : Prop := ∃ pre : List Bool, o = pre ++ o' ∧ ∀ b ∈ pre, b = true

theorem Granted.refl (o : Oracle) : Granted o o := ⟨[], rfl, by simp⟩

theorem Granted.trans {a b c : Oracle} (h1 : Granted a b) (h2 : Granted b c) : Granted a c := by
  obtain ⟨p1, e1, t1⟩ := h1
  obtain ⟨p2, e2, t2⟩ := h2
  refine ⟨p1 ++ p2, by rw [e1, e2, List.append_assoc], ?_⟩
  intro x hx
  rcases List.mem_append.mp hx with h | h
  · exact t1 x h
  · exact t2 x h

theorem Granted.step (o : Oracle) (h : o.grant = true) : Granted o o.rest := by
  cases o with
  | nil => exact Granted.refl _
  | cons b r =>
    simp [Oracle.grant] at h; subst h
    exact ⟨[true], rfl, by simp⟩

def NoCrash (m : M α) : Prop := ∀ o o', m o ≠ (.error .crash, o')

/-- success implies: every request made was granted and the result is the fault-free one; no crash -/
def Clean (m : M α) : Prop :=
  (∀ o a o', m o = (.ok a, o') → Granted o o' ∧ m [] = (.ok a, [])) ∧ NoCrash m

/-- success implies the fault-free result (requests may have been refused and absorbed); no crash -/
def Faithful (m : M α) : Prop :=
  (∀ o a o', m o = (.ok a, o') → m [] = (.ok a, [])) ∧ NoCrash m

/-- never succeeds, never crashes -/
def Fails (m : M α) : Prop := ∀ o, ∃ e o', m o = (.error e, o') ∧ e ≠ .crash

theorem Clean.faithful {m : M α} (h : Clean m) : Faithful m :=
  ⟨fun o a o' e => (h.1 o a o' e).2, h.2⟩

/-- some request made between `o` and `o'` was refused -/
def Refused (o o' : Oracle) : Prop := ∃ pre : List Bool, o = pre ++ o' ∧ false ∈ pre

theorem granted_not_refused {o o' : Oracle} (hg : Granted o o') (hr : Refused o o') : False := by
  obtain ⟨p1, e1, t1⟩ := hg
  obtain ⟨p2, e2, f2⟩ := hr
  have : p1 = p2 := List.append_cancel_right (e1.symm.trans e2)
  subst this
  exact absurd (t1 false f2) (by decide)

/-- the propagation statement in its plain form: a `Clean` computation during which a request was
refused ends in an error status (and not in a crash) -/
theorem Clean.refused {m : M α} (h : Clean m) {o o' : Oracle} {r : Except Fault α}
    (hm : m o = (r, o')) (hr : Refused o o') : ∃ e, r = .error e ∧ e ≠ .crash := by
  cases r with
  | ok a => exact absurd hr (fun hr => granted_not_refused (h.1 o a o' hm).1 hr)
  | error e => exact ⟨e, rfl, fun he => h.2 o o' (by rw [hm, he])⟩

/-- the effect statement: whenever the call succeeds, its result is the one of the fault-free run -/
def SameEffect (m : M α) : Prop :=
  ∀ o a o', m o = (.ok a, o') → ∀ a0 o0, m [] = (.ok a0, o0) → a = a0

theorem Faithful.sameEffect {m : M α} (h : Faithful m) : SameEffect m := by
  intro o a o' hm a0 o0 h0
  have := h.1 o a o' hm
  rw [this] at h0
  simp at h0
  exact h0.1

theorem clean_pure (a : α) : Clean (M.pure a) := by
  refine ⟨?_, ?_⟩
  · intro o x o' h
    simp [M.pure] at h
    obtain ⟨h1, h2⟩ := h; subst h1; subst h2
    exact ⟨Granted.refl _, rfl⟩
  · intro o o' h; simp [M.pure] at h

theorem clean_fail (e : Fault) (he : e ≠ .crash) : Clean (fail e : M α) := by
  refine ⟨?_, ?_⟩
  · intro o x o' h; simp [fail] at h
  · intro o o' h; simp [fail] at h; exact he h.1

theorem fails_fail (e : Fault) (he : e ≠ .crash) : Fails (fail e : M α) :=
  fun o => ⟨e, o, rfl, he⟩

theorem bind_ok {m : M α} {f : α → M β} {o : Oracle} {b : β} {o' : Oracle}
    (h : M.bind m f o = (.ok b, o')) : ∃ a o1, m o = (.ok a, o1) ∧ f a o1 = (.ok b, o') := by
  unfold M.bind at h
  generalize hm : m o = r at h
  obtain ⟨res, o1⟩ := r
  cases res with
  | ok a => exact ⟨a, o1, rfl, h⟩
  | error e => simp at h

theorem bind_crash {m : M α} {f : α → M β} {o o' : Oracle}
    (h : M.bind m f o = (.error .crash, o')) :
    m o = (.error .crash, o') ∨ ∃ a o1, m o = (.ok a, o1) ∧ f a o1 = (.error .crash, o') := by
  unfold M.bind at h
  generalize hm : m o = r at h
  obtain ⟨res, o1⟩ := r
  cases res with
  | ok a => exact Or.inr ⟨a, o1, rfl, h⟩
  | error e => simp at h; left; rw [h.1, h.2]

theorem bind_of_ok {m : M α} {f : α → M β} {o o1 : Oracle} {a : α} (h : m o = (.ok a, o1)) :
    M.bind m f o = f a o1 := by
  unfold M.bind; rw [h]

theorem clean_bind {m : M α} {f : α → M β} (hm : Clean m) (hf : ∀ a, Clean (f a)) : Clean (M.bind m f) := by
  refine ⟨?_, ?_⟩
  · intro o b o' h
    obtain ⟨a, o1, h1, h2⟩ := bind_ok h
    obtain ⟨g1, e1⟩ := hm.1 o a o1 h1
    obtain ⟨g2, e2⟩ := (hf a).1 o1 b o' h2
    exact ⟨g1.trans g2, by rw [bind_of_ok e1]; exact e2⟩
  · intro o o' h
    rcases bind_crash h with h1 | ⟨a, o1, _, h2⟩
    · exact hm.2 o o' h1
    · exact (hf a).2 o1 o' h2

theorem faithful_bind {m : M α} {f : α → M β} (hm : Faithful m) (hf : ∀ a, Faithful (f a)) : Faithful (M.bind m f) := by
  refine ⟨?_, ?_⟩
  · intro o b o' h
    obtain ⟨a, o1, h1, h2⟩ := bind_ok h
    have e1 := hm.1 o a o1 h1
    have e2 := (hf a).1 o1 b o' h2
    rw [bind_of_ok e1]; exact e2
  · intro o o' h
    rcases bind_crash h with h1 | ⟨a, o1, _, h2⟩
    · exact hm.2 o o' h1
    · exact (hf a).2 o1 o' h2

theorem clean_req : Clean req := by
  refine ⟨?_, ?_⟩
  · intro o a o' h
    unfold req at h
    by_cases hg : o.grant = true
    · simp [hg] at h; subst h
      exact ⟨Granted.step o hg, rfl⟩
    · simp [hg] at h
  · intro o o' h
    unfold req at h
    by_cases hg : o.grant = true <;> simp [hg] at h

theorem clean_reqIf (c : Bool) : Clean (reqIf c) := by
  unfold reqIf; cases c
  · exact clean_pure ()
  · exact clean_req

theorem clean_ite {c : Prop} [Decidable c] {m1 m2 : M α} (h1 : Clean m1) (h2 : Clean m2) :
    Clean (if c then m1 else m2) := by
  split <;> assumption

theorem faithful_ite {c : Prop} [Decidable c] {m1 m2 : M α} (h1 : Faithful m1) (h2 : Faithful m2) :
    Faithful (if c then m1 else m2) := by
  split <;> assumption

/-- an unchecked request followed by code that gives up when the request was refused -/
theorem clean_reqU {k : Bool → M α} (h1 : Clean (k true)) (h2 : Fails (k false)) : Clean (M.bind reqU k) := by
  refine ⟨?_, ?_⟩
  · intro o a o' h
    obtain ⟨g, o1, hr, hk⟩ := bind_ok h
    simp [reqU] at hr
    obtain ⟨hg, ho⟩ := hr; subst ho
    cases hgv : o.grant with
    | true =>
      rw [hgv] at hg; subst hg
      obtain ⟨g2, e2⟩ := h1.1 _ _ _ hk
      refine ⟨(Granted.step o hgv).trans g2, ?_⟩
      have : reqU [] = (.ok true, []) := rfl
      rw [bind_of_ok this]; exact e2
    | false =>
      rw [hgv] at hg; subst hg
      obtain ⟨e, o2, he, _⟩ := h2 o.rest
      rw [he] at hk; simp at hk
  · intro o o' h
    rcases bind_crash h with h1' | ⟨g, o1, hr, hk⟩
    · simp [reqU] at h1'
    · cases g with
      | true => exact h1.2 o1 o' hk
      | false =>
        obtain ⟨e, o2, he, hne⟩ := h2 o1
        rw [he] at hk; simp at hk; exact hne hk.1

theorem fails_reqU {k : Bool → M α} (h : ∀ b, Fails (k b)) : Fails (M.bind reqU k) := by
  intro o
  obtain ⟨e, o2, he, hne⟩ := h o.grant o.rest
  refine ⟨e, o2, ?_, hne⟩
  have : reqU o = (.ok o.grant, o.rest) := rfl
  rw [bind_of_ok this]; exact he

theorem clean_forEach {xs : List α} {s : β} {f : β → α → M β} (hf : ∀ s x, Clean (f s x)) :
    Clean (forEach xs s f) := by
  induction xs generalizing s with
  | nil => exact clean_pure s
  | cons x xs ih => exact clean_bind (hf s x) (fun s' => ih)

theorem faithful_forEach {xs : List α} {s : β} {f : β → α → M β} (hf : ∀ s x, Faithful (f s x)) :
    Faithful (forEach xs s f) := by
  induction xs generalizing s with
  | nil => exact (clean_pure s).faithful
  | cons x xs ih => exact faithful_bind (hf s x) (fun s' => ih)

/-! ### buffer appends -/

@[simp] theorem grant_nil : Oracle.grant [] = true := rfl
@[simp] theorem rest_nil : Oracle.rest [] = [] := rfl

theorem ensureCapacity_ok_indep (b : Buf) (n : Nat) (o : Oracle) (h : (Buffer.ensureCapacity b n o).1 = .ok) :
    Granted o (Buffer.ensureCapacity b n o).2.2 ∧
    Buffer.ensureCapacity b n [] = (.ok, (Buffer.ensureCapacity b n o).2.1, []) := by
  unfold Buffer.ensureCapacity at *
  by_cases h1 : n ≤ b.capacity
  · simp [h1]; exact Granted.refl _
  · by_cases h2 : (!b.owns && b.hasData) = true
    · simp [h1, h2] at h
    · by_cases h3 : o.grant = true
      · simp [h1, h2, h3]; exact Granted.step o h3
      · simp [h1, h2, h3] at h

theorem append_ok_indep (b : Buf) (bytes : List UInt8) (o : Oracle) (h : (Buffer.append b bytes o).1 = .ok) :
    Granted o (Buffer.append b bytes o).2.2 ∧
    Buffer.append b bytes [] = (.ok, (Buffer.append b bytes o).2.1, []) := by
  unfold Buffer.append at *
  by_cases h0 : bytes.length = 0
  · simp [h0]; exact Granted.refl _
  · simp only [h0, if_false] at *
    have hs : (Buffer.ensureCapacity b (b.size + bytes.length) o).1 = .ok := by
      rcases Buffer.ensureCapacity_spec b (b.size + bytes.length) o with ⟨hs, _⟩ | ⟨hs, _⟩
      · exact hs
      · have hne : (Buffer.ensureCapacity b (b.size + bytes.length) o).1 ≠ .ok := by rw [hs]; decide
        rw [Buffer.pushBytes_err _ _ hne] at h; exact absurd h hne
    obtain ⟨g, e⟩ := ensureCapacity_ok_indep b _ o hs
    rw [Buffer.pushBytes_ok _ _ hs, e]
    exact ⟨g, rfl⟩

theorem clean_appendM (b : Buf) (bytes : List UInt8) : Clean (appendM b bytes) := by
  refine ⟨?_, ?_⟩
  · intro o a o' h
    unfold appendM at h
    generalize hr : Buffer.append b bytes o = r at h
    obtain ⟨s, b', o1⟩ := r
    cases s <;> simp at h
    obtain ⟨h1, h2⟩ := h; subst h1; subst h2
    have hs : (Buffer.append b bytes o).1 = .ok := by rw [hr]
    obtain ⟨g, e⟩ := append_ok_indep b bytes o hs
    rw [hr] at g e
    refine ⟨g, ?_⟩
    unfold appendM; rw [e]
  · intro o o' h
    unfold appendM at h
    generalize Buffer.append b bytes o = r at h
    obtain ⟨s, b', o1⟩ := r
    cases s <;> simp at h

theorem clean_appendAll (b : Buf) (chunks : List (List UInt8)) : Clean (appendAll b chunks) :=
  clean_forEach (fun s x => clean_appendM s x)


/-! ### arena allocations -/

theorem allocAligned_some_indep (ar : Arena.Arena) (size al nb : Nat) (o : Oracle) (p : Nat × Nat)
    (h : (Arena.allocAligned ar size al nb o).1 = some p) :
    Granted o (Arena.allocAligned ar size al nb o).2.2 ∧
    Arena.allocAligned ar size al nb [] = (some p, (Arena.allocAligned ar size al nb o).2.1, []) := by
  unfold Arena.allocAligned at *
  by_cases h0 : size = 0
  · simp [h0] at h
  · simp only [h0, if_false] at *
    cases hc : ar.blocks[ar.current]? with
    | none => simp [hc] at h
    | some cur =>
      simp only [hc] at *
      by_cases hf : Arena.fits cur size (Arena.effAlign al) = true
      · simp only [hf, if_true] at *
        simp at h; subst h
        exact ⟨Granted.refl _, rfl⟩
      · simp only [hf] at *
        cases hff : Arena.findFit (ar.blocks.drop (ar.current + 1)) (ar.current + 1) size (Arena.effAlign al) with
        | some j =>
          simp only [hff] at *
          cases hj : ar.blocks[j]? with
          | none => simp [hj] at h
          | some bj =>
            simp only [hj] at *
            simp at h; subst h
            exact ⟨Granted.refl _, rfl⟩
        | none =>
          simp only [hff, Arena.newBlock] at *
          by_cases hg : o.grant = true
          · simp only [hg, if_true] at h ⊢
            simp at h; subst h
            simp
            exact Granted.step o hg
          · simp [hg] at h

theorem clean_arenaM (ar : Arena.Arena) (size al : Nat) : Clean (arenaM ar size al) := by
  refine ⟨?_, ?_⟩
  · intro o a o' h
    unfold arenaM at h
    cases hr : (Arena.allocAligned ar size al 8 o).1 with
    | some p =>
      obtain ⟨g, e⟩ := allocAligned_some_indep ar size al 8 o p hr
      generalize hrr : Arena.allocAligned ar size al 8 o = r at *
      obtain ⟨res, ar', o1⟩ := r
      simp at hr; subst hr
      simp at h; obtain ⟨h1, h2⟩ := h; subst h1; subst h2
      refine ⟨g, ?_⟩
      unfold arenaM; rw [e]
    | none =>
      generalize hrr : Arena.allocAligned ar size al 8 o = r at *
      obtain ⟨res, ar', o1⟩ := r
      simp at hr; subst hr
      by_cases h0 : size = 0
      · subst h0
        have e0 : ∀ oo, Arena.allocAligned ar 0 al 8 oo = (none, ar, oo) := by
          intro oo; simp [Arena.allocAligned]
        rw [e0] at hrr; cases hrr
        simp at h; obtain ⟨h1, h2⟩ := h; subst h1; subst h2
        refine ⟨Granted.refl _, ?_⟩
        unfold arenaM; rw [e0]; simp
      · simp [h0] at h
  · intro o o' h
    unfold arenaM at h
    generalize Arena.allocAligned ar size al 8 o = r at h
    obtain ⟨res, ar', o1⟩ := r
    cases res with
    | some p => simp at h
    | none => by_cases h0 : size = 0 <;> simp [h0] at h

/-- an unchecked arena allocation followed by code that gives up when no pointer came back -/
theorem clean_arenaU {ar : Arena.Arena} {size al : Nat} {k : Arena.Arena × Bool → M α}
    (h1 : ∀ ar', Clean (k (ar', true))) (h2 : ∀ ar', Fails (k (ar', false))) :
    Clean (M.bind (arenaU ar size al) k) := by
  refine ⟨?_, ?_⟩
  · intro o a o' h
    obtain ⟨r, o1, hr, hk⟩ := bind_ok h
    unfold arenaU at hr
    cases hres : (Arena.allocAligned ar size al 8 o).1 with
    | some p =>
      obtain ⟨g, e⟩ := allocAligned_some_indep ar size al 8 o p hres
      generalize hrr : Arena.allocAligned ar size al 8 o = rr at *
      obtain ⟨res, ar', o2⟩ := rr
      simp at hres; subst hres
      simp at hr; obtain ⟨hr1, hr2⟩ := hr; subst hr1; subst hr2
      obtain ⟨g2, e2⟩ := (h1 ar').1 _ _ _ hk
      refine ⟨g.trans g2, ?_⟩
      have : arenaU ar size al [] = (.ok (ar', true), []) := by unfold arenaU; rw [e]
      rw [bind_of_ok this]; exact e2
    | none =>
      generalize hrr : Arena.allocAligned ar size al 8 o = rr at *
      obtain ⟨res, ar', o2⟩ := rr
      simp at hres; subst hres
      simp at hr; obtain ⟨hr1, hr2⟩ := hr
      rw [← hr1] at hk
      obtain ⟨e, o3, he, _⟩ := h2 ar' o1
      rw [he] at hk; simp at hk
  · intro o o' h
    rcases bind_crash h with h1' | ⟨r, o1, hr, hk⟩
    · unfold arenaU at h1'
      generalize Arena.allocAligned ar size al 8 o = rr at h1'
      obtain ⟨res, ar', o2⟩ := rr
      cases res <;> simp at h1'
    · obtain ⟨ar', got⟩ := r
      cases got with
      | true => exact (h1 ar').2 o1 o' hk
      | false =>
        obtain ⟨e, o3, he, hne⟩ := h2 ar' o1
        rw [he] at hk; simp at hk; exact hne hk.1

/-! ### the Thrift latch -/

theorem put_status (e : Enc) (bytes : List UInt8) (o : Oracle) :
    (e.put bytes o).1.status = .ok ↔ e.status = .ok ∧ (e.put bytes o).2.2 = .ok := by
  unfold Enc.put
  by_cases h1 : e.status = .ok
  · by_cases h2 : (Buffer.append e.buf bytes o).1 = .ok <;> simp [h1, h2]
  · simp [h1]

/-- any failed append → final status ≠ OK; and an encoder already in error stays in error -/
theorem putAll_status (e : Enc) (chunks : List (List UInt8)) (o : Oracle) :
    (e.putAll chunks o).1.status = .ok ↔ e.status = .ok ∧ ∀ s ∈ (e.putAll chunks o).2.2, s = .ok := by
  induction chunks generalizing e o with
  | nil => simp [Enc.putAll]
  | cons c cs ih =>
    simp only [Enc.putAll]
    have := ih (e.put c o).1 (e.put c o).2.1
    generalize hr : Enc.putAll (e.put c o).1 cs (e.put c o).2.1 = r at *
    obtain ⟨e', o', tr⟩ := r
    simp only at this ⊢
    rw [this, put_status]
    simp only [List.mem_cons, forall_eq_or_imp]
    constructor
    · rintro ⟨⟨h1, h2⟩, h3⟩; exact ⟨h1, h2, h3⟩
    · rintro ⟨h1, h2, h3⟩; exact ⟨⟨h1, h2⟩, h3⟩

theorem putAll_cons (e : Enc) (c : List UInt8) (cs : List (List UInt8)) (o : Oracle) :
    e.putAll (c :: cs) o =
      (((e.put c o).1.putAll cs (e.put c o).2.1).1, ((e.put c o).1.putAll cs (e.put c o).2.1).2.1,
       (e.put c o).2.2 :: ((e.put c o).1.putAll cs (e.put c o).2.1).2.2) := by
  simp only [Enc.putAll]

/-- a fully successful encoder run: every request granted, buffer = fault-free buffer -/
theorem putAll_ok_indep (e : Enc) (chunks : List (List UInt8)) (o : Oracle)
    (h : (e.putAll chunks o).1.status = .ok) :
    Granted o (e.putAll chunks o).2.1 ∧
    (e.putAll chunks []).1 = (e.putAll chunks o).1 ∧ (e.putAll chunks []).2.1 = [] := by
  induction chunks generalizing e o with
  | nil => simp [Enc.putAll]; exact Granted.refl _
  | cons c cs ih =>
    have hst := (putAll_status e (c :: cs) o).mp h
    rw [putAll_cons] at h hst ⊢
    simp only at h hst ⊢
    have hput : (e.put c o).2.2 = .ok := hst.2 _ (List.mem_cons_self)
    have happ : (Buffer.append e.buf c o).1 = .ok := hput
    obtain ⟨g, eq⟩ := append_ok_indep e.buf c o happ
    have hp0 : e.put c [] = ((e.put c o).1, [], Status.ok) := by
      unfold Enc.put; rw [eq]; simp [happ]
    obtain ⟨g2, e2, e3⟩ := ih (e.put c o).1 (e.put c o).2.1 h
    have hg : Granted o (e.put c o).2.1 := g
    rw [putAll_cons, hp0]
    exact ⟨hg.trans g2, e2, e3⟩

theorem clean_encodeChecked (b : Buf) (chunks : List (List UInt8)) : Clean (encodeChecked b chunks) := by
  refine ⟨?_, ?_⟩
  · intro o a o' h
    unfold encodeChecked at h
    by_cases hs : ((Enc.init b).putAll chunks o).1.status = .ok
    · simp only [hs, if_true] at h
      simp at h; obtain ⟨h1, h2⟩ := h; subst h1; subst h2
      obtain ⟨g, e1, e2⟩ := putAll_ok_indep (Enc.init b) chunks o hs
      refine ⟨g, ?_⟩
      unfold encodeChecked
      rw [e1, e2]; simp [hs]
    · simp [hs] at h
  · intro o o' h
    unfold encodeChecked at h
    by_cases hs : ((Enc.init b).putAll chunks o).1.status = .ok <;> simp [hs] at h

end Carquet.Impl.Alloc.Flow
