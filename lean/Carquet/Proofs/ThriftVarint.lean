import Carquet.Spec.Thrift
import Carquet.Impl.Thrift
/-
Varints and zigzag: the Spec's ULEB128 reader inverts its writer; carquet's `thrift_write_varint`
produces the Spec's bytes and `thrift_read_varint` reads them back; zigzag is a bijection
between int64 and uint64.
-/
namespace Carquet.Proofs.Thrift
open Carquet.Spec.Thrift
open Carquet.Impl.Thrift

/-- the decoder repositioned: `rest` left, `pos` consumed (all other fields unchanged) -/
def _root_.Carquet.Impl.Thrift.Dec.at (d : Dec) (rest : List UInt8) (pos : Nat) : Dec :=
  { d with rest := rest, pos := pos }

@[simp] theorem at_rest (d : Dec) (r p) : (d.at r p).rest = r := rfl
@[simp] theorem at_pos (d : Dec) (r p) : (d.at r p).pos = p := rfl
@[simp] theorem at_lastId (d : Dec) (r p) : (d.at r p).lastId = d.lastId := rfl
@[simp] theorem at_status (d : Dec) (r p) : (d.at r p).status = d.status := rfl
@[simp] theorem at_boolPending (d : Dec) (r p) : (d.at r p).boolPending = d.boolPending := rfl
@[simp] theorem at_boolValue (d : Dec) (r p) : (d.at r p).boolValue = d.boolValue := rfl
@[simp] theorem at_overlay (d : Dec) (r p) : (d.at r p).overlay = d.overlay := rfl
@[simp] theorem at_budget (d : Dec) (r p) : (d.at r p).budget = d.budget := rfl
@[simp] theorem at_at (d : Dec) (r p r' p') : (d.at r p).at r' p' = d.at r' p' := rfl
theorem at_self (d : Dec) : d.at d.rest d.pos = d := rfl

theorem u8_toNat (n : Nat) (h : n < 256) : (UInt8.ofNat n).toNat = n := by
  rw [UInt8.toNat_ofNat']; exact Nat.mod_eq_of_lt h

theorem pow128 (f : Nat) : 128 ^ (f + 1) = 128 * 128 ^ f := by rw [Nat.pow_succ, Nat.mul_comm]

/-! ### Spec: `unuleb` inverts `uleb` -/

theorem unuleb_ulebAux (f : Nat) : ∀ (n : Nat) (r : List UInt8), n < 128 ^ (f + 1) →
    unuleb (ulebAux f n ++ r) = some (n, r) := by
  induction f with
  | zero =>
    intro n r h
    have h' : n < 128 := by simpa using h
    simp only [ulebAux, List.singleton_append, unuleb, u8_toNat n (by omega), h', if_true]
  | succ f ih =>
    intro n r h
    unfold ulebAux
    by_cases hn : n < 128
    · simp only [hn, if_true, List.singleton_append, unuleb, u8_toNat n (by omega)]
    · have hd : n / 128 < 128 ^ (f + 1) := by
        rw [pow128 (f + 1)] at h
        exact Nat.div_lt_of_lt_mul h
      simp only [hn, if_false, List.cons_append, unuleb]
      have hb : (UInt8.ofNat (n % 128 + 128)).toNat = n % 128 + 128 := u8_toNat _ (by omega)
      have hb' : ¬ (n % 128 + 128 < 128) := by omega
      rw [hb, if_neg hb', ih _ _ hd]
      simp only [Option.some.injEq, Prod.mk.injEq, and_true]
      omega

theorem two64_lt : (2 : Nat) ^ 64 ≤ 128 ^ 10 := by decide

theorem unuleb_uleb (n : Nat) (r : List UInt8) (h : n < 2 ^ 64) : unuleb (uleb n ++ r) = some (n, r) :=
  unuleb_ulebAux 9 n r (Nat.lt_of_lt_of_le h two64_lt)

theorem ulebAux_ne_nil (f n : Nat) : ulebAux f n ≠ [] := by
  cases f <;> simp [ulebAux]
  split <;> simp

theorem ulebAux_length_pos (f n : Nat) : 0 < (ulebAux f n).length :=
  List.length_pos_iff.mpr (ulebAux_ne_nil f n)

theorem uleb_length_pos (n : Nat) : 0 < (uleb n).length := ulebAux_length_pos 9 n

/-! ### zigzag -/

theorem unzigzag_zigzag (v : Int) : unzigzag (zigzag v) = v := by
  unfold zigzag unzigzag
  by_cases h : 0 ≤ v
  · simp only [h, if_true]
    have : ((2 * v).toNat) % 2 = 0 := by omega
    simp only [this, if_true]
    omega
  · simp only [h, if_false]
    have : ((2 * -v - 1).toNat) % 2 ≠ 0 := by omega
    simp only [this, if_false]
    omega

theorem zigzag_lt (v : Int) (h : inI64 v) : zigzag v < 2 ^ 64 := by
  unfold inI64 at h
  unfold zigzag
  split <;> omega

theorem zigzagEnc_eq (v : Int) : zigzagEnc v = zigzag v := by
  unfold zigzagEnc zigzag
  split <;> congr 1 <;> omega

theorem zigzagDec_zigzag (v : Int) : zigzagDec (zigzag v) = v := by
  unfold zigzag zigzagDec
  by_cases h : 0 ≤ v
  · simp only [h, if_true]
    have : ((2 * v).toNat) % 2 = 0 := by omega
    simp only [this, if_true]
    omega
  · simp only [h, if_false]
    have : ((2 * -v - 1).toNat) % 2 ≠ 0 := by omega
    simp only [this, if_false]
    omega

/-! ### Impl: the written varint is the Spec's, and is read back -/

theorem varintLoop_eq (f : Nat) : ∀ n, varintLoop f n = ulebAux f n := by
  induction f with
  | zero => intro n; rfl
  | succ f ih =>
    intro n
    unfold varintLoop ulebAux
    by_cases h : n < 128
    · have : ¬ 128 ≤ n := by omega
      simp [h, this]
    · have : 128 ≤ n := by omega
      simp [h, this, ih]

theorem varintBytes_eq (n : Nat) : varintBytes n = uleb n := varintLoop_eq 9 n

theorem readVarintLoop_ulebAux (f : Nat) : ∀ (k n shift acc : Nat) (d : Dec) (r : List UInt8),
    f < k → n < 128 ^ (f + 1) → d.rest = ulebAux f n ++ r →
    readVarintLoop k shift acc d
      = ((acc + n * 2 ^ shift) % 18446744073709551616, d.at r (d.pos + (ulebAux f n).length)) := by
  induction f with
  | zero =>
    intro k n shift acc d r hk hn hr
    have hn' : n < 128 := by simpa using hn
    obtain ⟨k, rfl⟩ : ∃ k', k = k' + 1 := ⟨k - 1, by omega⟩
    simp only [ulebAux, List.singleton_append] at hr
    have hb : (UInt8.ofNat n).toNat = n := u8_toNat n (by omega)
    simp only [readVarintLoop, hr, hb, hn', if_true, ulebAux, List.length_singleton]
    rfl
  | succ f ih =>
    intro k n shift acc d r hk hn hr
    obtain ⟨k, rfl⟩ : ∃ k', k = k' + 1 := ⟨k - 1, by omega⟩
    unfold ulebAux at hr ⊢
    by_cases h128 : n < 128
    · simp only [h128, if_true, List.singleton_append] at hr ⊢
      have hb : (UInt8.ofNat n).toNat = n := u8_toNat n (by omega)
      simp only [readVarintLoop, hr, hb, h128, if_true, List.length_singleton]
      rfl
    · simp only [h128, if_false, List.cons_append] at hr ⊢
      have hb : (UInt8.ofNat (n % 128 + 128)).toNat = n % 128 + 128 := u8_toNat _ (by omega)
      have hd : n / 128 < 128 ^ (f + 1) := by
        rw [pow128 (f + 1)] at hn
        exact Nat.div_lt_of_lt_mul hn
      have hnb : ¬ (n % 128 + 128 < 128) := by omega
      simp only [readVarintLoop, hr, hb, hnb, if_false]
      rw [ih k (n / 128) (shift + 7) _ _ r (by omega) hd rfl]
      have e1 : (n % 128 + 128) % 128 = n % 128 := by omega
      have e2 : acc + (n % 128) * 2 ^ shift + n / 128 * 2 ^ (shift + 7) = acc + n * 2 ^ shift := by
        have hx : 2 ^ (shift + 7) = 128 * 2 ^ shift := by rw [Nat.pow_add]; omega
        rw [hx]
        have := Nat.div_add_mod n 128
        calc acc + n % 128 * 2 ^ shift + n / 128 * (128 * 2 ^ shift)
            = acc + (n % 128 + 128 * (n / 128)) * 2 ^ shift := by
              rw [Nat.add_mul, Nat.mul_assoc, Nat.add_assoc, Nat.mul_comm (n / 128) (128 * 2 ^ shift),
                  Nat.mul_assoc, Nat.mul_comm (2 ^ shift) (n / 128)]
          _ = acc + n * 2 ^ shift := by rw [Nat.add_comm (n % 128), this]
      simp only [e1, e2, List.length_cons]
      congr 1
      show (Dec.at _ r _) = _
      unfold Dec.at
      simp only [Dec.mk.injEq, true_and, and_true]
      omega

/-- `thrift_read_varint` reads back what `thrift_write_varint` wrote, consuming exactly it -/
theorem readVarint_uleb (n : Nat) (h : n < 2 ^ 64) (d : Dec) (r : List UInt8) (hr : d.rest = uleb n ++ r) :
    readVarint d = (n, d.at r (d.pos + (uleb n).length)) := by
  have := readVarintLoop_ulebAux 9 10 n 0 0 d r (by omega) (Nat.lt_of_lt_of_le h two64_lt) hr
  unfold readVarint
  rw [this]
  simp only [uleb, Nat.pow_zero, Nat.mul_one, Nat.zero_add]
  congr 1
  have h2 : (2:Nat)^64 = 18446744073709551616 := by decide
  rw [h2] at h
  exact Nat.mod_eq_of_lt h

theorem readZigzag_zigzag (v : Int) (h : inI64 v) (d : Dec) (r : List UInt8)
    (hr : d.rest = uleb (zigzag v) ++ r) :
    readZigzag d = (v, d.at r (d.pos + (uleb (zigzag v)).length)) := by
  unfold readZigzag
  rw [readVarint_uleb _ (zigzag_lt v h) d r hr, zigzagDec_zigzag]

theorem toI16_id (v : Int) (h : inI16 v) : toI16 v = v := by unfold inI16 at h; unfold toI16; omega
theorem toI32_id (v : Int) (h : inI32 v) : toI32 v = v := by unfold inI32 at h; unfold toI32; omega
theorem toI64_id (v : Int) (h : inI64 v) : toI64 v = v := by unfold inI64 at h; unfold toI64; omega
theorem toI8_id (v : Int) (h : inI8 v) : toI8 v = v := by unfold inI8 at h; unfold toI8; omega

theorem inI64_of_inI32 {v : Int} (h : inI32 v) : inI64 v := by unfold inI32 at h; unfold inI64; omega
theorem inI64_of_inI16 {v : Int} (h : inI16 v) : inI64 v := by unfold inI16 at h; unfold inI64; omega

end Carquet.Proofs.Thrift
