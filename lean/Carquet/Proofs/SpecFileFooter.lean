import Carquet.Spec.File.Write
import Carquet.Proofs.SpecFileChain
import Carquet.Proofs.SpecFileSchema
/-
Footer layer: the metadata structures are extracted back from the Thrift values the reference
writer builds for them (without unknown fields).
-/
namespace Carquet.Proofs.SpecFile
open Carquet.Spec Carquet.Spec.File Carquet.Spec.Thrift Carquet.Spec.ParquetThrift

theorem bytesStr_strBytes (s : String) : bytesStr (strBytes s) = some s := by
  unfold bytesStr strBytes
  have h : (ByteArray.mk s.toUTF8.data.toList.toArray) = s.toByteArray := by simp [String.toUTF8]
  rw [h]
  simp [String.fromUTF8?, s.isValidUTF8, String.fromUTF8]

theorem checkStruct_of (s : StructSpec) (fs : Fields) (h1 : s.complete fs = true)
    (h2 : knownTyped s fs = true) :
    checkStruct s fs = .ok () := by
  unfold checkStruct
  simp only [h1, h2, Bool.not_true, Bool.false_eq_true, if_false]

theorem repOf_repCode (r : Option Schema.Rep) : repOf (r.map repCode) = .ok r := by
  cases r with
  | none => rfl
  | some x => cases x <;> rfl

theorem natCast_not_neg (n : Nat) : ¬ ((n : Int) < 0) := by omega

/-! ### the LogicalType union -/

theorem timeUnitOf_TV (u : Schema.AnnotTimeUnit) :
    (match annotUnitTV u with
     | .struct fs => timeUnitOf fs
     | _ => .error .footerNotThrift) = .ok u := by
  cases u <;> rfl

theorem annotUnitTV_struct (u : Schema.AnnotTimeUnit) : ∃ fs, annotUnitTV u = .struct fs ∧ timeUnitOf fs = .ok u := by
  cases u <;> exact ⟨_, rfl, rfl⟩

/-- the annotation is read back from the union value that states it -/
theorem logicalTypeOf_TV (a : Schema.Annotation) :
    ∃ fs, annotationTV a = .struct fs ∧ logicalTypeOf fs = .ok (some a) := by
  cases a with
  | decimal s p => exact ⟨_, rfl, rfl⟩
  | time utc u =>
    cases u <;> cases utc <;> exact ⟨_, rfl, by decide⟩
  | timestamp utc u =>
    cases u <;> cases utc <;> exact ⟨_, rfl, by decide⟩
  | integer bw sg => cases sg <;> exact ⟨_, rfl, rfl⟩
  | _ => exact ⟨_, rfl, by decide⟩

theorem optLogicalTypeOf_absent (fs : Fields) (h : field? fs 10 = none) : optLogicalTypeOf fs = .ok none := by
  simp [optLogicalTypeOf, getStruct, h]

theorem optLogicalTypeOf_struct (fs u : Fields) (a : Schema.Annotation) (h : field? fs 10 = some (.struct u))
    (hr : logicalTypeOf u = .ok (some a)) : optLogicalTypeOf fs = .ok (some a) := by
  simp [optLogicalTypeOf, getStruct, h, hr]

theorem optLogicalTypeOf_present (fs : Fields) (a : Schema.Annotation) (h : field? fs 10 = some (annotationTV a)) :
    optLogicalTypeOf fs = .ok (some a) := by
  obtain ⟨u, hu, hr⟩ := logicalTypeOf_TV a
  simp [optLogicalTypeOf, getStruct, h, hu, hr]

/-- the fields of a SchemaElement value in front of field 10 -/
def seFieldsBase (e : Schema.Element) : Fields :=
  optField 1 (fun n : Nat => .i32 n) e.info.ptype ++
   (if e.info.typeLength = 0 then [] else [(2, .i32 e.info.typeLength)]) ++
   optField 3 (fun r => .i32 (repCode r)) e.info.rep ++
   [(4, .binary (strBytes e.info.name))] ++
   (if e.numChildren = 0 then [] else [(5, .i32 e.numChildren)]) ++
   optField 6 (fun n : Nat => .i32 n) e.info.logical

theorem annotationTV_ty (a : Schema.Annotation) : (annotationTV a).ty = .struct := by cases a <;> rfl

theorem schemaElementOf_TV (e : Schema.Element) :
    (match schemaElementTV e [] with
     | .struct fs => schemaElementOf fs
     | _ => .error .footerNotThrift) = .ok e := by
  obtain ⟨⟨name, rep, pt, tl, lg, lt⟩, nc⟩ := e
  simp only [schemaElementTV, withExtras_nil]
  unfold schemaElementOf
  have hrep : ∀ r : Schema.Rep, repOf (some (repCode r)) = .ok (some r) := fun r => by cases r <;> rfl
  cases lt with
  | none =>
    cases pt <;> cases rep <;> cases lg <;> by_cases ht : tl = 0 <;> by_cases hn : nc = 0 <;>
      simp only [optField, ht, hn, if_true, if_false, List.nil_append, List.cons_append, List.append_nil] <;>
      rw [checkStruct_of _ _ rfl rfl, optLogicalTypeOf_absent _ rfl] <;>
      simp [bind, Except.bind, pure, Except.pure, getBin, getInt, field?, intOf, bytesStr_strBytes, optNatField, hrep,
        natCast_not_neg] <;>
      first | rfl | (simp [repOf])
  | some a =>
    obtain ⟨u, hu, hr⟩ := logicalTypeOf_TV a
    simp only [optField]
    rw [hu]
    cases pt <;> cases rep <;> cases lg <;> by_cases ht : tl = 0 <;> by_cases hn : nc = 0 <;>
      simp only [optField, ht, hn, if_true, if_false, List.nil_append, List.cons_append, List.append_nil] <;>
      rw [checkStruct_of _ _ rfl rfl, optLogicalTypeOf_struct _ u a rfl hr] <;>
      simp [bind, Except.bind, pure, Except.pure, getBin, getInt, field?, intOf, bytesStr_strBytes, optNatField, hrep,
        natCast_not_neg] <;>
      first | rfl | (simp [repOf])

/-! ### lists of structs -/

theorem structsOf_map {α : Type} (what : String) (f : α → Fields) (xs : List α) :
    structsOf what (xs.map (fun x => TVal.struct (f x))) = .ok (xs.map f) := by
  induction xs with
  | nil => rfl
  | cons x r ih => simp [structsOf, ih]

def seFields (e : Schema.Element) : Fields :=
  optField 1 (fun n : Nat => .i32 n) e.info.ptype ++
   (if e.info.typeLength = 0 then [] else [(2, .i32 e.info.typeLength)]) ++
   optField 3 (fun r => .i32 (repCode r)) e.info.rep ++
   [(4, .binary (strBytes e.info.name))] ++
   (if e.numChildren = 0 then [] else [(5, .i32 e.numChildren)]) ++
   optField 6 (fun n : Nat => .i32 n) e.info.logical ++
   optField 10 annotationTV e.info.logicalType

theorem schemaElementTV_eq (e : Schema.Element) : schemaElementTV e [] = .struct (seFields e) := rfl

theorem schemaElementOf_seFields (e : Schema.Element) : schemaElementOf (seFields e) = .ok e := by
  have := schemaElementOf_TV e
  rw [schemaElementTV_eq] at this
  exact this

theorem schemaElementsOf_map (es : List Schema.Element) : schemaElementsOf (es.map seFields) = .ok es := by
  induction es with
  | nil => rfl
  | cons e r ih => simp [schemaElementsOf, schemaElementOf_seFields, ih, bind, Except.bind, pure, Except.pure]

/-! ### column metadata -/

theorem intsOf_map (xs : List Int) : intsOf (xs.map TVal.i32) = xs := by
  induction xs with
  | nil => rfl
  | cons x r ih => simp [intsOf, intOf, ih]

theorem binsOf_map (xs : List Bytes) : binsOf (xs.map TVal.binary) = xs := by
  induction xs with
  | nil => rfl
  | cons x r ih => simp [binsOf, ih]

def cmFields (m : ColumnMeta) : Fields :=
  [(1, .i32 m.ptype), (2, .list .i32 (m.encodings.map .i32)), (3, .list .binary (m.path.map .binary)),
   (4, .i32 m.codec), (5, .i64 m.numValues), (6, .i64 m.totalUncompressed), (7, .i64 m.totalCompressed),
   (9, .i64 m.dataPageOffset)] ++ optField 11 (fun n : Nat => .i64 n) m.dictionaryPageOffset

theorem columnMetaTV_eq (m : ColumnMeta) : columnMetaTV m none [] = .struct (cmFields m) := by
  simp [columnMetaTV, cmFields, withExtras_nil, optField]

theorem columnMetaOf_cmFields (m : ColumnMeta) : columnMetaOf (cmFields m) = .ok m := by
  obtain ⟨pt, encs, path, codec, nv, tu, tc, dpo, dict⟩ := m
  unfold columnMetaOf cmFields
  cases dict <;>
    simp only [optField, List.append_nil] <;>
    rw [checkStruct_of _ _ rfl rfl] <;>
    simp [bind, Except.bind, pure, Except.pure, natField, optNatField, getInt, getList, field?, intOf, intsOf_map, binsOf_map,
      natCast_not_neg]

def ccFields (off : Nat) (m : ColumnMeta) : Fields := [(2, .i64 off), (3, .struct (cmFields m))]

theorem columnChunkTV_eq (off : Nat) (m : ColumnMeta) :
    columnChunkTV off (columnMetaTV m none []) [] = .struct (ccFields off m) := by
  simp [columnChunkTV, ccFields, withExtras_nil, columnMetaTV_eq]

theorem columnChunkOf_ccFields (off : Nat) (m : ColumnMeta) : columnChunkOf (ccFields off m) = .ok m := by
  unfold columnChunkOf ccFields
  rw [checkStruct_of _ _ rfl rfl]
  simp [bind, Except.bind, getStruct, field?, columnMetaOf_cmFields]

theorem columnChunksOf_map (ms : List (Nat × ColumnMeta)) :
    columnChunksOf (ms.map (fun p => ccFields p.1 p.2)) = .ok (ms.map (·.2)) := by
  induction ms with
  | nil => rfl
  | cons p r ih => simp [columnChunksOf, columnChunkOf_ccFields, ih, bind, Except.bind, pure, Except.pure]

/-! ### row groups and the file -/

def rgFields (ms : List (Nat × ColumnMeta)) (tb nr : Nat) : Fields :=
  [(1, .list .struct (ms.map (fun p => TVal.struct (ccFields p.1 p.2)))), (2, .i64 tb), (3, .i64 nr)]

theorem rowGroupOf_rgFields (ms : List (Nat × ColumnMeta)) (tb nr : Nat) :
    rowGroupOf (rgFields ms tb nr) = .ok ⟨ms.map (·.2), tb, nr⟩ := by
  unfold rowGroupOf rgFields
  rw [checkStruct_of _ _ rfl rfl]
  have h := structsOf_map "RowGroup.columns" (fun p : Nat × ColumnMeta => ccFields p.1 p.2) ms
  simp [bind, Except.bind, pure, Except.pure, getList, field?, h, columnChunksOf_map, natField, getInt, intOf, natCast_not_neg]

structure RgDesc where
  chunks : List (Nat × ColumnMeta)
  totalByteSize : Nat
  numRows : Nat

def RgDesc.fields (g : RgDesc) : Fields := rgFields g.chunks g.totalByteSize g.numRows
def RgDesc.meta' (g : RgDesc) : RowGroupMeta := ⟨g.chunks.map (·.2), g.totalByteSize, g.numRows⟩

theorem rowGroupsOf_map (gs : List RgDesc) : rowGroupsOf (gs.map RgDesc.fields) = .ok (gs.map RgDesc.meta') := by
  induction gs with
  | nil => rfl
  | cons g r ih =>
    simp [rowGroupsOf, RgDesc.fields, rowGroupOf_rgFields, ih, bind, Except.bind, pure, Except.pure, RgDesc.meta']

/-- the footer value the reference writer builds (no unknown fields), as a field list -/
def fmFields (version : Int) (schema : List Schema.Element) (numRows : Nat) (gs : List RgDesc) (createdBy : Option Bytes) : Fields :=
  [(1, .i32 version), (2, .list .struct (schema.map (fun e => TVal.struct (seFields e)))), (3, .i64 numRows),
   (4, .list .struct (gs.map (fun g => TVal.struct g.fields)))] ++ optField 6 .binary createdBy

/-- **footer value → metadata structures** -/
theorem fileMetaOf_fmFields (version : Int) (schema : List Schema.Element) (numRows : Nat) (gs : List RgDesc)
    (createdBy : Option Bytes) :
    fileMetaOf (fmFields version schema numRows gs createdBy) = .ok ⟨version, schema, numRows, gs.map RgDesc.meta'⟩ := by
  unfold fileMetaOf fmFields
  have h1 := structsOf_map "FileMetaData.schema" seFields schema
  have h2 := structsOf_map "FileMetaData.row_groups" RgDesc.fields gs
  cases createdBy <;>
    simp only [optField, List.append_nil] <;>
    rw [checkStruct_of _ _ rfl rfl] <;>
    simp [bind, Except.bind, pure, Except.pure, getList, field?, h1, h2, schemaElementsOf_map, rowGroupsOf_map, natField,
      getInt, intOf, natCast_not_neg]

end Carquet.Proofs.SpecFile
