import Carquet.Proofs.ThriftUnknown
/-
Unknown fields at EVERY nesting level, syntactically.

`Sch` describes where structs sit in a Thrift value (which ids a struct parser knows, how deep an
unknown field's value may be at that place, and the schema of each known member); `ExtD sch v v'`
says that `v'` is `v` with further fields inserted — at any struct the schema reaches, with ids the
parser of that struct does not know, of any wire type and bounded nesting depth — and nothing
else changed.  `TableExt`: a parser table does not see the difference (`okFields` is preserved,
`ofFields` is equal).  The schemas `schFileMeta`, `schPageHeader` are parquet.thrift restricted to
what carquet parses.
-/
namespace Carquet.Proofs.Thrift
open Carquet.Spec.Thrift Carquet.Spec.ParquetThrift
open Carquet.Impl.Thrift
open Carquet.Impl.ThriftParquet

/-- where structs sit: `struct R known child` — a struct whose parser knows the ids `known`,
skips values nested at most `R` deep under any other id, and whose known member `id` has schema
`child id`; `list e` — a list whose elements have schema `e`; `leaf` — anything else -/
inductive Sch where
  | leaf
  | struct (R : Nat) (known : List Int) (child : Int → Sch)
  | list (elem : Sch)

/-- `ext` is `base` with fields inserted anywhere (ids outside `known`, values nested at most `R`
deep), the kept fields related by `rel` -/
inductive ExtFs (R : Nat) (known : List Int) (rel : Int → TVal → TVal → Prop) : Fields → Fields → Prop
  | nil : ExtFs R known rel [] []
  | keep {id v v' base ext} : rel id v v' → ExtFs R known rel base ext → ExtFs R known rel ((id, v) :: base) ((id, v') :: ext)
  | add {id v base ext} : id ∉ known → v.depth ≤ R → ExtFs R known rel base ext → ExtFs R known rel base ((id, v) :: ext)

/-- two lists related element by element -/
inductive All2 {α : Type} (r : α → α → Prop) : List α → List α → Prop
  | nil : All2 r [] []
  | cons {a b l l'} : r a b → All2 r l l' → All2 r (a :: l) (b :: l')

/-- **ExtendsDeep**: `v'` is `v` with unknown fields inserted into the structs the schema reaches -/
def ExtD : Sch → TVal → TVal → Prop
  | .leaf, v, v' => v' = v
  | .struct R known child, v, v' =>
      v' = v ∨ ∃ fs fs', v = .struct fs ∧ v' = .struct fs' ∧ ExtFs R known (fun id => ExtD (child id)) fs fs'
  | .list e, v, v' => v' = v ∨ ∃ et xs xs', v = .list et xs ∧ v' = .list et xs' ∧ All2 (ExtD e) xs xs'

/-- a parser table does not see the extension: acceptability is preserved and the parsed state
is the same, from every initial state -/
def TableExt {σ : Type} (tbl : Table σ) (R : Nat) (child : Int → Sch) : Prop :=
  ∀ base ext, ExtFs R (tbl.map (·.1)) (fun id => ExtD (child id)) base ext → okFields tbl R base →
    okFields tbl R ext ∧ ∀ s : σ, ofFields tbl s ext = ofFields tbl s base

/-- one table entry does not see the extension of its member -/
def EntryExt {σ : Type} (sem : FieldSem σ) (sch : Sch) : Prop :=
  ∀ v v', ExtD sch v v' → sem.shape v → sem.shape v' ∧ ∀ s : σ, sem.upd s v' = sem.upd s v

theorem entryExt_leaf {σ : Type} (sem : FieldSem σ) : EntryExt sem .leaf := by
  intro v v' h hs
  simp only [ExtD] at h
  subst h
  exact ⟨hs, fun _ => rfl⟩

theorem lookupT_some_mem {σ : Type} (tbl : Table σ) (id : Int) (f : FieldSem σ) (h : lookupT tbl id = some f) :
    id ∈ tbl.map (·.1) := by
  have := lookupT_mem tbl id f h
  exact List.mem_map.mpr ⟨(id, f), this, rfl⟩

/-- the table-level statement from the entry-level ones -/
theorem tableExt_of_entries {σ : Type} (tbl : Table σ) (R : Nat) (child : Int → Sch)
    (hent : ∀ id sem, lookupT tbl id = some sem → EntryExt sem (child id))
    (hleaf : ∀ id, lookupT tbl id = none → child id = .leaf) : TableExt tbl R child := by
  intro base ext h
  induction h with
  | nil => intro hb; exact ⟨hb, fun _ => rfl⟩
  | @keep id v v' base ext hrel _ ih =>
    intro hb
    have hb0 : okT tbl R id v := hb (id, v) List.mem_cons_self
    obtain ⟨ih1, ih2⟩ := ih (fun g hg => hb g (List.mem_cons_of_mem _ hg))
    cases hl : lookupT tbl id with
    | none =>
      have := hleaf id hl
      rw [this] at hrel
      simp only [ExtD] at hrel
      subst hrel
      refine ⟨?_, fun s => ?_⟩
      · intro f hf
        rcases List.mem_cons.mp hf with rfl | hf'
        · exact hb0
        · exact ih1 f hf'
      · simp only [ofFields, List.foldl_cons] at ih2 ⊢
        exact ih2 _
    | some sem =>
      unfold okT at hb0
      rw [hl] at hb0
      obtain ⟨hs', hu⟩ := hent id sem hl v v' hrel hb0
      refine ⟨?_, fun s => ?_⟩
      · intro f hf
        rcases List.mem_cons.mp hf with rfl | hf'
        · unfold okT; rw [hl]; exact hs'
        · exact ih1 f hf'
      · simp only [ofFields, List.foldl_cons] at ih2 ⊢
        have : stepT tbl s id v' = stepT tbl s id v := by simp [stepT, hl, hu]
        rw [this]
        exact ih2 _
  | @add id v base ext hid hd _ ih =>
    intro hb
    obtain ⟨ih1, ih2⟩ := ih hb
    have hl := lookupT_none_of_not_mem tbl id hid
    refine ⟨?_, fun s => ?_⟩
    · intro f hf
      rcases List.mem_cons.mp hf with rfl | hf'
      · unfold okT; rw [hl]; exact hd
      · exact ih1 f hf'
    · simp only [ofFields, List.foldl_cons] at ih2 ⊢
      have : stepT tbl s id v = s := by simp [stepT, hl]
      rw [this]
      exact ih2 s

/-- a table all of whose members are leaves -/
theorem tableExt_leaf {σ : Type} (tbl : Table σ) (R : Nat) : TableExt tbl R (fun _ => .leaf) :=
  tableExt_of_entries tbl R _ (fun _ sem _ => entryExt_leaf sem) (fun _ _ => rfl)

/-! ### entry kinds with nested structs -/

theorem entryExt_struct {σ β τ : Type} (tbl' : Table τ) (R' : Nat) (child' : Int → Sch) (ht : TableExt tbl' R' child')
    (init : τ) (post : τ → β) (extra : τ → Prop) (set : σ → β → σ) :
    EntryExt (semStruct (fun fs => okFields tbl' R' fs ∧ extra (ofFields tbl' init fs)) (fun fs => post (ofFields tbl' init fs)) set)
      (.struct R' (tbl'.map (·.1)) child') := by
  intro v v' h hs
  simp only [ExtD] at h
  rcases h with rfl | h
  · exact ⟨hs, fun _ => rfl⟩
  obtain ⟨fs, fs', rfl, rfl, he⟩ := h
  obtain ⟨fs0, h0, hok, hex⟩ := hs
  cases h0
  obtain ⟨hok', hof⟩ := ht fs fs' he hok
  exact ⟨⟨fs', rfl, hok', by rw [hof]; exact hex⟩, fun s => by simp only [semStruct, asFields, hof]⟩

theorem entryExt_structS {σ τ : Type} (tbl' : Table τ) (R' : Nat) (child' : Int → Sch) (ht : TableExt tbl' R' child')
    (init : σ → τ) (set : σ → τ → σ) :
    EntryExt (semStructS (okFields tbl' R') (fun s fs => ofFields tbl' (init s) fs) set)
      (.struct R' (tbl'.map (·.1)) child') := by
  intro v v' h hs
  simp only [ExtD] at h
  rcases h with rfl | h
  · exact ⟨hs, fun _ => rfl⟩
  obtain ⟨fs, fs', rfl, rfl, he⟩ := h
  obtain ⟨fs0, h0, hok⟩ := hs
  cases h0
  obtain ⟨hok', hof⟩ := ht fs fs' he hok
  exact ⟨⟨fs', rfl, hok'⟩, fun s => by simp only [semStructS, asFields, hof]⟩

theorem forall2_structs {τ : Type} (tbl' : Table τ) (R' : Nat) (child' : Int → Sch) (ht : TableExt tbl' R' child')
    (init : τ) : ∀ (xs xs' : List TVal), All2 (ExtD (.struct R' (tbl'.map (·.1)) child')) xs xs' →
      (∀ x ∈ xs, isStructOf tbl' R' x) →
      (∀ x ∈ xs', isStructOf tbl' R' x) ∧ xs'.length = xs.length ∧
        xs'.map (fun v => ofFields tbl' init (asFields v)) = xs.map (fun v => ofFields tbl' init (asFields v)) := by
  intro xs xs' h
  induction h with
  | nil => intro _; exact ⟨fun _ hx => absurd hx List.not_mem_nil, rfl, rfl⟩
  | @cons a b l l' hab _ ih =>
    intro hs
    obtain ⟨i1, i2, i3⟩ := ih (fun x hx => hs x (List.mem_cons_of_mem _ hx))
    simp only [ExtD] at hab
    rcases hab with rfl | hab
    · refine ⟨?_, by simp [i2], ?_⟩
      · intro x hx
        rcases List.mem_cons.mp hx with rfl | hx'
        · exact hs _ List.mem_cons_self
        · exact i1 x hx'
      · simp only [List.map_cons]
        rw [i3]
    obtain ⟨fs, fs', rfl, rfl, he⟩ := hab
    obtain ⟨fs0, h0, hok⟩ := hs _ List.mem_cons_self
    cases h0
    obtain ⟨hok', hof⟩ := ht fs fs' he hok
    refine ⟨?_, by simp [i2], ?_⟩
    · intro x hx
      rcases List.mem_cons.mp hx with rfl | hx'
      · exact ⟨fs', rfl, hok'⟩
      · exact i1 x hx'
    · simp only [List.map_cons]
      rw [i3]
      congr 1
      exact hof init

theorem entryExt_list {σ τ : Type} (tbl' : Table τ) (R' : Nat) (child' : Int → Sch) (ht : TableExt tbl' R' child')
    (max : Int) (init : τ) (set : σ → List τ → σ) :
    EntryExt (semList max (isStructOf tbl' R') (fun v => ofFields tbl' init (asFields v)) set)
      (.list (.struct R' (tbl'.map (·.1)) child')) := by
  intro v v' h hs
  simp only [ExtD] at h
  rcases h with rfl | h
  · exact ⟨hs, fun _ => rfl⟩
  obtain ⟨et, xs, xs', rfl, rfl, hf⟩ := h
  obtain ⟨et0, xs0, h0, hmax, hsh⟩ := hs
  cases h0
  obtain ⟨i1, i2, i3⟩ := forall2_structs tbl' R' child' ht init xs xs' hf hsh
  exact ⟨⟨et, xs', rfl, by rw [i2]; exact hmax, i1⟩, fun s => by simp only [semList, asElems, i3]⟩

theorem entryExt_topList {α τ : Type} (tbl' : Table τ) (R' : Nat) (child' : Int → Sch) (ht : TableExt tbl' R' child')
    (max : Int) (init : τ) (set : α → List τ → α) :
    EntryExt (semTopList max (isStructOf tbl' R') (fun v => ofFields tbl' init (asFields v)) set)
      (.list (.struct R' (tbl'.map (·.1)) child')) := by
  intro v v' h hs
  simp only [ExtD] at h
  rcases h with rfl | h
  · exact ⟨hs, fun _ => rfl⟩
  obtain ⟨et, xs, xs', rfl, rfl, hf⟩ := h
  obtain ⟨et0, xs0, h0, hmax, hsh⟩ := hs
  cases h0
  obtain ⟨i1, i2, i3⟩ := forall2_structs tbl' R' child' ht init xs xs' hf hsh
  exact ⟨⟨et, xs', rfl, by rw [i2]; exact hmax, i1⟩, fun s => by simp only [semTopList, asElems, i3]⟩


theorem entryExt_struct0 {σ τ : Type} (tbl' : Table τ) (R' : Nat) (child' : Int → Sch) (ht : TableExt tbl' R' child')
    (init : τ) (set : σ → τ → σ) :
    EntryExt (semStruct (okFields tbl' R') (ofFields tbl' init) set) (.struct R' (tbl'.map (·.1)) child') := by
  intro v v' h hs
  simp only [ExtD] at h
  rcases h with rfl | h
  · exact ⟨hs, fun _ => rfl⟩
  obtain ⟨fs, fs', rfl, rfl, he⟩ := h
  obtain ⟨fs0, h0, hok⟩ := hs
  cases h0
  obtain ⟨hok', hof⟩ := ht fs fs' he hok
  exact ⟨⟨fs', rfl, hok'⟩, fun s => by simp only [semStruct, asFields, hof]⟩

/-! ### schemas with a few non-leaf members -/

def lookupS : List (Int × Sch) → Int → Option Sch
  | [], _ => none
  | (k, s) :: r, id => if id = k then some s else lookupS r id

/-- the member schemas of a struct: those listed, `leaf` for every other id -/
def childOf (special : List (Int × Sch)) : Int → Sch := fun id => (lookupS special id).getD .leaf

theorem lookupS_mem (special : List (Int × Sch)) (id : Int) (s : Sch) (h : lookupS special id = some s) : (id, s) ∈ special := by
  induction special with
  | nil => simp [lookupS] at h
  | cons e r ih =>
    obtain ⟨k, t⟩ := e
    simp only [lookupS] at h
    by_cases hk : id = k
    · simp only [hk, if_true, Option.some.injEq] at h; subst h; subst hk; exact List.mem_cons_self
    · simp only [hk, if_false] at h; exact List.mem_cons_of_mem _ (ih h)

theorem tableExt_special {σ : Type} (tbl : Table σ) (R : Nat) (special : List (Int × Sch))
    (h : ∀ id sch, (id, sch) ∈ special → ∃ sem, lookupT tbl id = some sem ∧ EntryExt sem sch) :
    TableExt tbl R (childOf special) := by
  refine tableExt_of_entries tbl R _ ?_ ?_
  · intro id sem hl
    unfold childOf
    cases hs : lookupS special id with
    | none => exact entryExt_leaf sem
    | some sch =>
      obtain ⟨sem', hl', he⟩ := h id sch (lookupS_mem special id sch hs)
      rw [hl] at hl'
      cases hl'
      exact he
  · intro id hl
    unfold childOf
    cases hs : lookupS special id with
    | none => rfl
    | some sch =>
      obtain ⟨sem', hl', _⟩ := h id sch (lookupS_mem special id sch hs)
      rw [hl] at hl'
      cases hl'

/-- a struct all of whose known members are leaves -/
def schFlat (R : Nat) (known : List Int) : Sch := .struct R known (childOf [])

/-! ### parquet.thrift as carquet parses it -/

def schStats (R : Nat) : Sch := .struct R (tblStats.map (·.1)) (childOf [])
def schKV (R : Nat) : Sch := .struct R (tblKV.map (·.1)) (childOf [])
def schPES (R : Nat) : Sch := .struct R (tblPES.map (·.1)) (childOf [])
def schDecimal (R : Nat) : Sch := .struct R (tblDecimal.map (·.1)) (childOf [])
def schInteger (R : Nat) : Sch := .struct R (tblInteger.map (·.1)) (childOf [])
def schTimeUnit (R : Nat) : Sch := .struct R ((tblTimeUnit R).map (·.1)) (childOf [])
def spTime (R : Nat) : List (Int × Sch) := [(2, schTimeUnit R)]
def schTime (R : Nat) : Sch := .struct (R + 1) ((tblTime R).map (·.1)) (childOf (spTime R))
def spLogical (R : Nat) : List (Int × Sch) := [(5, schDecimal R), (7, schTime R), (8, schTime R), (10, schInteger R)]
def schLogical (R : Nat) : Sch := .struct (R + 2) ((tblLogical R).map (·.1)) (childOf (spLogical R))
def spSchema (R : Nat) : List (Int × Sch) := [(10, schLogical R)]
def schSchema (R : Nat) : Sch := .struct (R + 3) ((tblSchema R).map (·.1)) (childOf (spSchema R))
def spColumnMeta (R : Nat) : List (Int × Sch) := [(8, .list (schKV R)), (12, schStats R), (13, .list (schPES R))]
def schColumnMeta (R : Nat) : Sch := .struct (R + 1) ((tblColumnMeta R).map (·.1)) (childOf (spColumnMeta R))
def spColumnChunk (R : Nat) : List (Int × Sch) := [(3, schColumnMeta R)]
def schColumnChunk (R : Nat) : Sch := .struct (R + 2) ((tblColumnChunk R).map (·.1)) (childOf (spColumnChunk R))
def spRowGroup (R : Nat) : List (Int × Sch) := [(1, .list (schColumnChunk R))]
def schRowGroup (R : Nat) : Sch := .struct (R + 3) ((tblRowGroup R).map (·.1)) (childOf (spRowGroup R))
def spFileMeta (R : Nat) : List (Int × Sch) := [(2, .list (schSchema R)), (4, .list (schRowGroup R)), (5, .list (schKV R))]
/-- FileMetaData: unknown fields nested up to `R + 4` deep at the top, `R + 3` in schema elements
and row groups, `R + 2` in column chunks and logical types, `R + 1` in column metadata and
time types, `R` in statistics, key/values, encoding stats, decimal/integer/time-unit members -/
def schFileMeta (R : Nat) : Sch := .struct (R + 4) ((tblFileMeta R).map (·.1)) (childOf (spFileMeta R))
def spDataPage (R : Nat) : List (Int × Sch) := [(5, schStats R)]
def schDataPage (R : Nat) : Sch := .struct (R + 1) ((tblDataPage R).map (·.1)) (childOf (spDataPage R))
def spDataPageV2 (R : Nat) : List (Int × Sch) := [(8, schStats R)]
def schDataPageV2 (R : Nat) : Sch := .struct (R + 1) ((tblDataPageV2 R).map (·.1)) (childOf (spDataPageV2 R))
def schDictPage (R : Nat) : Sch := .struct R (tblDictPage.map (·.1)) (childOf [])
def spPageHeader (R : Nat) : List (Int × Sch) := [(5, schDataPage R), (7, schDictPage R), (8, schDataPageV2 R)]
def schPageHeader (R : Nat) : Sch := .struct (R + 2) ((tblPageHeader R).map (·.1)) (childOf (spPageHeader R))

theorem tableExt_flat {σ : Type} (tbl : Table σ) (R : Nat) : TableExt tbl R (childOf []) :=
  tableExt_special tbl R [] (fun _ _ h => by cases h)

theorem tblTime_ext (R : Nat) : TableExt (tblTime R) (R + 1) (childOf (spTime R)) := by
  refine tableExt_special _ _ _ ?_
  intro id sch hm
  simp only [spTime, List.mem_cons, List.not_mem_nil, or_false, Prod.mk.injEq] at hm
  obtain ⟨rfl, rfl⟩ := hm
  exact ⟨_, rfl, entryExt_structS (tblTimeUnit R) R _ (tableExt_flat _ R) (fun (s : Bool × TimeUnit) => s.2) _⟩

theorem tblLogical_ext (R : Nat) : TableExt (tblLogical R) (R + 2) (childOf (spLogical R)) := by
  refine tableExt_special _ _ _ ?_
  intro id sch hm
  simp only [spLogical, List.mem_cons, List.not_mem_nil, or_false, Prod.mk.injEq] at hm
  rcases hm with ⟨rfl, rfl⟩ | ⟨rfl, rfl⟩ | ⟨rfl, rfl⟩ | ⟨rfl, rfl⟩
  · exact ⟨_, rfl, entryExt_struct0 tblDecimal R _ (tableExt_flat _ R) _ _⟩
  · exact ⟨_, rfl, entryExt_struct0 (tblTime R) (R + 1) _ (tblTime_ext R) _ _⟩
  · exact ⟨_, rfl, entryExt_struct0 (tblTime R) (R + 1) _ (tblTime_ext R) _ _⟩
  · exact ⟨_, rfl, entryExt_struct0 tblInteger R _ (tableExt_flat _ R) _ _⟩

theorem tblSchema_ext (R : Nat) : TableExt (tblSchema R) (R + 3) (childOf (spSchema R)) := by
  refine tableExt_special _ _ _ ?_
  intro id sch hm
  simp only [spSchema, List.mem_cons, List.not_mem_nil, or_false, Prod.mk.injEq] at hm
  obtain ⟨rfl, rfl⟩ := hm
  exact ⟨_, rfl, entryExt_struct (tblLogical R) (R + 2) _ (tblLogical_ext R) (.unknown, false) (·.1) (fun x => x.2 = false) _⟩

theorem tblColumnMeta_ext (R : Nat) : TableExt (tblColumnMeta R) (R + 1) (childOf (spColumnMeta R)) := by
  refine tableExt_special _ _ _ ?_
  intro id sch hm
  simp only [spColumnMeta, List.mem_cons, List.not_mem_nil, or_false, Prod.mk.injEq] at hm
  rcases hm with ⟨rfl, rfl⟩ | ⟨rfl, rfl⟩ | ⟨rfl, rfl⟩
  · exact ⟨_, rfl, entryExt_list tblKV R _ (tableExt_flat _ R) _ _ _⟩
  · exact ⟨_, rfl, entryExt_struct0 tblStats R _ (tableExt_flat _ R) _ _⟩
  · exact ⟨_, rfl, entryExt_list tblPES R _ (tableExt_flat _ R) _ _ _⟩

theorem tblColumnChunk_ext (R : Nat) : TableExt (tblColumnChunk R) (R + 2) (childOf (spColumnChunk R)) := by
  refine tableExt_special _ _ _ ?_
  intro id sch hm
  simp only [spColumnChunk, List.mem_cons, List.not_mem_nil, or_false, Prod.mk.injEq] at hm
  obtain ⟨rfl, rfl⟩ := hm
  exact ⟨_, rfl, entryExt_struct0 (tblColumnMeta R) (R + 1) _ (tblColumnMeta_ext R) _ _⟩

theorem tblRowGroup_ext (R : Nat) : TableExt (tblRowGroup R) (R + 3) (childOf (spRowGroup R)) := by
  refine tableExt_special _ _ _ ?_
  intro id sch hm
  simp only [spRowGroup, List.mem_cons, List.not_mem_nil, or_false, Prod.mk.injEq] at hm
  obtain ⟨rfl, rfl⟩ := hm
  exact ⟨_, rfl, entryExt_list (tblColumnChunk R) (R + 2) _ (tblColumnChunk_ext R) _ _ _⟩

theorem tblFileMeta_ext (R : Nat) : TableExt (tblFileMeta R) (R + 4) (childOf (spFileMeta R)) := by
  refine tableExt_special _ _ _ ?_
  intro id sch hm
  simp only [spFileMeta, List.mem_cons, List.not_mem_nil, or_false, Prod.mk.injEq] at hm
  rcases hm with ⟨rfl, rfl⟩ | ⟨rfl, rfl⟩ | ⟨rfl, rfl⟩
  · exact ⟨_, rfl, entryExt_topList (tblSchema R) (R + 3) _ (tblSchema_ext R) _ _ _⟩
  · exact ⟨_, rfl, entryExt_topList (tblRowGroup R) (R + 3) _ (tblRowGroup_ext R) _ _ _⟩
  · exact ⟨_, rfl, entryExt_topList tblKV R _ (tableExt_flat _ R) _ _ _⟩

theorem tblDataPage_ext (R : Nat) : TableExt (tblDataPage R) (R + 1) (childOf (spDataPage R)) := by
  refine tableExt_special _ _ _ ?_
  intro id sch hm
  simp only [spDataPage, List.mem_cons, List.not_mem_nil, or_false, Prod.mk.injEq] at hm
  obtain ⟨rfl, rfl⟩ := hm
  exact ⟨_, rfl, entryExt_struct0 tblStats R _ (tableExt_flat _ R) _ _⟩

theorem tblDataPageV2_ext (R : Nat) : TableExt (tblDataPageV2 R) (R + 1) (childOf (spDataPageV2 R)) := by
  refine tableExt_special _ _ _ ?_
  intro id sch hm
  simp only [spDataPageV2, List.mem_cons, List.not_mem_nil, or_false, Prod.mk.injEq] at hm
  obtain ⟨rfl, rfl⟩ := hm
  exact ⟨_, rfl, entryExt_struct0 tblStats R _ (tableExt_flat _ R) _ _⟩

theorem tblPageHeader_ext (R : Nat) : TableExt (tblPageHeader R) (R + 2) (childOf (spPageHeader R)) := by
  refine tableExt_special _ _ _ ?_
  intro id sch hm
  simp only [spPageHeader, List.mem_cons, List.not_mem_nil, or_false, Prod.mk.injEq] at hm
  rcases hm with ⟨rfl, rfl⟩ | ⟨rfl, rfl⟩ | ⟨rfl, rfl⟩
  · exact ⟨_, rfl, entryExt_structS (tblDataPage R) (R + 1) _ (tblDataPage_ext R) (fun (s : Top (PageHeader × Seen)) => s.val.1.dataPageHeader) _⟩
  · exact ⟨_, rfl, entryExt_structS tblDictPage R _ (tableExt_flat _ R) (fun (s : Top (PageHeader × Seen)) => s.val.1.dictionaryPageHeader) _⟩
  · exact ⟨_, rfl, entryExt_structS (tblDataPageV2 R) (R + 1) _ (tblDataPageV2_ext R)
      (fun (s : Top (PageHeader × Seen)) => { s.val.1.dataPageHeaderV2 with isCompressed := true }) _⟩


/-! ### ExtendsDeep is reflexive and contains the top-level `Extends` -/

theorem extD_refl : ∀ (sch : Sch) (v : TVal), ExtD sch v v
  | .leaf, _ => by simp only [ExtD]
  | .struct _ _ _, _ => by rw [ExtD]; exact Or.inl rfl
  | .list _, _ => by rw [ExtD]; exact Or.inl rfl

theorem extFs_of_extends (R : Nat) (known : List Int) (rel : Int → TVal → TVal → Prop) (hrefl : ∀ id v, rel id v v)
    {base ext : Fields} (h : Extends known R base ext) : ExtFs R known rel base ext := by
  induction h with
  | nil => exact ExtFs.nil
  | @keep f _ _ _ ih => obtain ⟨id, v⟩ := f; exact ExtFs.keep (hrefl id v) ih
  | add hid hd _ ih => exact ExtFs.add hid hd ih

/-- FileMetaData: any encoding of the structure's Thrift value extended by unknown fields at any
nesting level parses to `norm` -/
theorem accepts_filemetadata_deep (m : FileMetaData) (h : m.wf = true) (v' : TVal)
    (hext : ExtD (schFileMeta 27) (fileMetaDataTV m) v') (bs : List UInt8) (henc : Encodes v' bs) (r : List UInt8) :
    parseFileMetaDataX Cfg.fixed (bs ++ r) = ⟨none, m.norm, bs.length, false⟩ := by
  have hbase := fm_ok 27 (by omega) m h
  have key : ∃ fs', v' = .struct fs' ∧ okFields (tblFileMeta 27) 31 fs' ∧
      ofFileMetaFields 27 fs' = ofFileMetaFields 27 (fmFields m) := by
    simp only [schFileMeta, ExtD] at hext
    rcases hext with rfl | ⟨fs, fs', hv, rfl, he⟩
    · exact ⟨fmFields m, fileMetaDataTV_eq m, hbase, rfl⟩
    · rw [fileMetaDataTV_eq] at hv
      cases hv
      obtain ⟨h1, h2⟩ := tblFileMeta_ext 27 _ _ he hbase
      exact ⟨fs', rfl, h1, by unfold ofFileMetaFields; rw [h2]⟩
  obtain ⟨fs', rfl, hok, hof⟩ := key
  have hp := parseFileMetaData_reads 27 (by simp [maxNesting]) fs' bs henc hok (by rw [hof, fm_of 27 m h]; rfl) r
  rw [hp, hof, fm_of 27 m h]

/-- PageHeader: the same -/
theorem accepts_pageheader_deep (h : PageHeader) (v' : TVal)
    (hext : ExtD (schPageHeader 27) (pageHeaderTV h) v') (bs : List UInt8) (henc : Encodes v' bs) (r : List UInt8) :
    parsePageHeaderX Cfg.fixed (bs ++ r) = ⟨none, h.norm, bs.length, false⟩ := by
  have hbase := ph_ok 27 h
  have key : ∃ fs', v' = .struct fs' ∧ okFields (tblPageHeader 27) 29 fs' ∧
      ofFields (tblPageHeader 27) ⟨({}, {}), none⟩ fs' = ofFields (tblPageHeader 27) ⟨({}, {}), none⟩ (phFields h) := by
    simp only [schPageHeader, ExtD] at hext
    rcases hext with rfl | ⟨fs, fs', hv, rfl, he⟩
    · exact ⟨phFields h, pageHeaderTV_eq h, hbase, rfl⟩
    · rw [pageHeaderTV_eq] at hv
      cases hv
      obtain ⟨h1, h2⟩ := tblPageHeader_ext 27 _ _ he hbase
      exact ⟨fs', rfl, h1, h2 _⟩
  obtain ⟨fs', rfl, hok, hof⟩ := key
  obtain ⟨res, hres, h1, h2, h3, h4⟩ := parsePageHeaderTop_reads 27 (by simp [maxNesting]) fs' bs henc hok r
  unfold parsePageHeaderX
  rw [hres]
  obtain ⟨st, v, n, ov⟩ := res
  simp only at h1 h2 h3 h4
  subst h1 h3 h4
  rw [h2, hof, ph_of 27 h]
  simp [unionConsistent_norm]

/-- the top-level `Extends` of Proofs.ThriftUnknown is the special case "nothing inserted below" -/
theorem extD_of_extends_filemeta (m : FileMetaData) (fs : Fields) (hext : Extends fileMetaKnown 31 (fmFields m) fs) :
    ExtD (schFileMeta 27) (fileMetaDataTV m) (.struct fs) := by
  simp only [schFileMeta, ExtD]
  refine Or.inr ⟨fmFields m, fs, fileMetaDataTV_eq m, rfl, ?_⟩
  rw [fileMetaKnown_eq]
  exact extFs_of_extends _ _ _ (fun id v => extD_refl _ v) hext

theorem extD_of_extends_pageheader (h : PageHeader) (fs : Fields) (hext : Extends pageHeaderKnown 29 (phFields h) fs) :
    ExtD (schPageHeader 27) (pageHeaderTV h) (.struct fs) := by
  simp only [schPageHeader, ExtD]
  refine Or.inr ⟨phFields h, fs, pageHeaderTV_eq h, rfl, ?_⟩
  rw [pageHeaderKnown_eq]
  exact extFs_of_extends _ _ _ (fun id v => extD_refl _ v) hext

end Carquet.Proofs.Thrift
