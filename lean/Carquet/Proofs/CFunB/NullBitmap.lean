import Carquet.Proofs.CFunB.Bools
namespace Carquet.Proofs.CFunB
open Carquet Carquet.Impl Carquet.Impl.CSem Carquet.Impl.Simd Carquet.Proofs.CFun2
open Carquet.Spec.Kernels (packBits packByte)

/-! ### build_null_bitmap -/

theorem or_mask (x : BitVec 8) (m : BitVec 32) :
    BitVec.setWidth 8 (BitVec.setWidth 32 x ||| m) = x ||| BitVec.setWidth 8 m := by
  ext i hi
  simp [BitVec.getElem_setWidth]

/-- the bits of the bitmap: level below the maximum (signed) -/
def nullBits (levels : List (BitVec 16)) (mx : BitVec 16) : List Bool := levels.map fun l => l.slt mx

theorem nullBits_getD (levels : List (BitVec 16)) (mx : BitVec 16) (i : Nat) (h : i < levels.length) :
    (rd levels i).slt mx = (nullBits levels mx).getD i false := by
  simp [nullBits, rd, List.getD, List.getElem?_eq_getElem h]

/-- the partial last byte: `null_bitmap[j / 8] |= 1 << (j % 8)` for the remaining levels -/
theorem nb_tail (levels : List (BitVec 16)) (mx : BitVec 16) (full : Nat) (hn : levels.length < 2 ^ 63)
    (hfull : full = levels.length / 8) (done r2 : List UInt8) (hd : done.length = full) :
    ∀ (d t : Nat) (cur : BitVec 8) (fuel : Nat), 8 * full + t + d = levels.length → d < fuel →
      Gen.CFun.scalar_build_null_bitmap_loop2 fuel levels (BitVec.ofNat 64 levels.length) mx (done ++ UInt8.ofBitVec cur :: r2)
          (BitVec.ofNat 64 full) (BitVec.ofNat 64 (8 * full + t)) =
        done ++ UInt8.ofBitVec (orBits ((nullBits levels mx).drop (8 * full + t)) t cur) :: r2 ∧
      Gen.CFun.scalar_build_null_bitmap_loop2_defined fuel levels (BitVec.ofNat 64 levels.length) mx
          (done ++ UInt8.ofBitVec cur :: r2) (BitVec.ofNat 64 full) (BitVec.ofNat 64 (8 * full + t)) = true := by
  intro d
  induction d with
  | zero =>
    intro t cur fuel ht hf
    obtain ⟨f, rfl⟩ : ∃ f, fuel = f + 1 := ⟨fuel - 1, by omega⟩
    have hge : BitVec.slt (BitVec.ofNat 64 (8 * full + t)) (BitVec.ofNat 64 levels.length) = false := by
      rw [i64_slt _ _ (by omega) hn]; simp; omega
    have hdrop : (nullBits levels mx).drop (8 * full + t) = [] := by simp [nullBits]; omega
    simp [Gen.CFun.scalar_build_null_bitmap_loop2, Gen.CFun.scalar_build_null_bitmap_loop2_defined, hge, hdrop, orBits]
  | succ d ih =>
    intro t cur fuel ht hf
    obtain ⟨f, rfl⟩ : ∃ f, fuel = f + 1 := ⟨fuel - 1, by omega⟩
    have hj : 8 * full + t < levels.length := by omega
    have ht8 : t < 8 := by omega
    have hlt : BitVec.slt (BitVec.ofNat 64 (8 * full + t)) (BitVec.ofNat 64 levels.length) = true := by
      rw [i64_slt _ _ (by omega) hn]; simp [hj]
    have hdrop : (nullBits levels mx).drop (8 * full + t) =
        (nullBits levels mx).getD (8 * full + t) false :: (nullBits levels mx).drop (8 * full + t + 1) := by
      have hl : 8 * full + t < (nullBits levels mx).length := by simpa [nullBits] using hj
      rw [List.drop_eq_getElem_cons hl]; simp [List.getD, List.getElem?_eq_getElem hl]
    have hdiv : (8 * full + t) / 8 = full := by omega
    have hmod : (8 * full + t) % 8 = t := by omega
    have hor : BitVec.setWidth 8 (BitVec.setWidth 32 cur ||| (1#32 <<< t)) = cur ||| (1#8 <<< t) := or_bit_int cur ⟨t, ht8⟩
    have hsc : shCountOk true 32 (BitVec.ofNat 64 t) = true := by
      simp only [shCountOk, i64_msb _ (show t < 2 ^ 63 by omega), i64_toNat _ (show t < 2 ^ 63 by omega)]; simp; omega
    have hnext := ih (t + 1) (if (nullBits levels mx).getD (8 * full + t) false then cur ||| (1#8 <<< t) else cur) f
      (by omega) (by omega)
    rw [show 8 * full + (t + 1) = 8 * full + t + 1 by omega] at hnext
    simp only [Gen.CFun.scalar_build_null_bitmap_loop2, Gen.CFun.scalar_build_null_bitmap_loop2_defined, hlt, if_true,
      i64_toIntNat _ (show 8 * full + t < 2 ^ 63 by omega), i64_msb _ (show 8 * full + t < 2 ^ 63 by omega), inb_of_lt _ _ hj,
      i64_add_one, i64_sAddOk_one _ (show 8 * full + t + 1 < 2 ^ 63 by omega), hdrop, orBits,
      Gen.CFun.scalar_build_null_bitmap_v17, sext_slt, nullBits_getD levels mx _ hj,
      i64_sdiv _ 8 (show 8 * full + t < 2 ^ 63 by omega) (by omega), i64_srem _ 8 (show 8 * full + t < 2 ^ 63 by omega) (by omega),
      hdiv, hmod, i64_toIntNat _ (show full < 2 ^ 63 by omega), i64_msb _ (show full < 2 ^ 63 by omega),
      i64_toNat _ (show t < 2 ^ 63 by omega), rd8_at' _ _ _ _ hd.symm, wr8_at' _ _ _ _ _ hd.symm, inb_at' _ _ _ _ hd.symm,
      hor, hsc, sShlOk_one ⟨t, ht8⟩]
    by_cases hb : (nullBits levels mx).getD (8 * full + t) false = true
    · simp only [hb, if_true] at hnext ⊢
      exact ⟨by simpa using hnext.1, by simpa using hnext.2⟩
    · simp only [hb, if_false, Bool.false_eq_true] at hnext ⊢
      exact ⟨by simpa using hnext.1, by simpa using hnext.2⟩

theorem packBits_short : ∀ l : List Bool, l.length < 8 → packBits l = if l = [] then [] else [packByte l]
  | [], _ => rfl
  | [_], _ => rfl
  | [_, _], _ => rfl
  | [_, _, _], _ => rfl
  | [_, _, _, _], _ => rfl
  | [_, _, _, _, _], _ => rfl
  | [_, _, _, _, _, _], _ => rfl
  | [_, _, _, _, _, _, _], _ => rfl
  | _ :: _ :: _ :: _ :: _ :: _ :: _ :: _ :: _, h => by simp at h; omega

/-- what follows the loop over the full bytes: the partial last byte is set to 0, then or-ed into -/
theorem nb_exit (levels : List (BitVec 16)) (mx : BitVec 16) (hn : levels.length + 8 < 2 ^ 63) (done rest : List UInt8)
    (hd : done.length = levels.length / 8) (hl : done.length + rest.length = (levels.length + 7) / 8) (f : Nat) :
    Gen.CFun.scalar_build_null_bitmap_loop1 (f + 1) levels (BitVec.ofNat 64 levels.length) mx (done ++ rest)
        (BitVec.ofNat 64 (levels.length / 8)) (BitVec.ofNat 64 done.length) =
      done ++ packBits ((nullBits levels mx).drop (8 * done.length)) ∧
    Gen.CFun.scalar_build_null_bitmap_loop1_defined (f + 1) levels (BitVec.ofNat 64 levels.length) mx (done ++ rest)
        (BitVec.ofNat 64 (levels.length / 8)) (BitVec.ofNat 64 done.length) = true := by
  have hge : BitVec.slt (BitVec.ofNat 64 done.length) (BitVec.ofNat 64 (levels.length / 8)) = false := by
    rw [i64_slt _ _ (by omega) (by omega)]; simp; omega
  have hmul : BitVec.ofNat 64 (levels.length / 8) * 8#64 = BitVec.ofNat 64 (8 * (levels.length / 8)) := by
    rw [i64_mul, Nat.mul_comm]
  have hmulok : sMulOk (BitVec.ofNat 64 (levels.length / 8)) 8#64 = true := i64_sMulOk _ 8 (by omega) (by omega) (by omega)
  by_cases htail : 8 * (levels.length / 8) < levels.length
  · have hlt : BitVec.slt (BitVec.ofNat 64 (8 * (levels.length / 8))) (BitVec.ofNat 64 levels.length) = true := by
      rw [i64_slt _ _ (by omega) (by omega)]; simp [htail]
    obtain ⟨y, ys, rfl⟩ : ∃ y ys, rest = y :: ys := by
      cases rest with
      | nil => simp at hl; omega
      | cons y ys => exact ⟨y, ys, rfl⟩
    have ht := nb_tail levels mx (levels.length / 8) (by omega) rfl done ys hd (levels.length - 8 * (levels.length / 8)) 0 0#8 9
      (by omega) (by omega)
    simp only [Nat.add_zero] at ht
    have hshort := packBits_short ((nullBits levels mx).drop (8 * (levels.length / 8))) (by simp [nullBits]; omega)
    have hne : (nullBits levels mx).drop (8 * (levels.length / 8)) ≠ [] := by
      intro h; have := congrArg List.length h; simp [nullBits] at this; omega
    simp only [Gen.CFun.scalar_build_null_bitmap_loop1, Gen.CFun.scalar_build_null_bitmap_loop1_defined, hge, if_false,
      Bool.false_eq_true, Gen.CFun.scalar_build_null_bitmap_v16, hmul, hlt, if_true, hmulok,
      i64_toIntNat _ (show levels.length / 8 < 2 ^ 63 by omega), i64_msb _ (show levels.length / 8 < 2 ^ 63 by omega),
      wr8_at' _ _ _ _ _ hd.symm, inb_at' _ _ _ _ hd.symm, ht.1, ht.2,
      show 8 * done.length = 8 * (levels.length / 8) by rw [hd], hshort, if_neg hne]
    rw [orBits_packByte _ (by simp [nullBits]; omega)]
    have hys : ys = [] := by
      cases ys with
      | nil => rfl
      | cons z zs => simp at hl; omega
    simp [hys]
  · have hlt : BitVec.slt (BitVec.ofNat 64 (8 * (levels.length / 8))) (BitVec.ofNat 64 levels.length) = false := by
      rw [i64_slt _ _ (by omega) (by omega)]; simp; omega
    have hr : rest = [] := by
      cases rest with
      | nil => rfl
      | cons y ys => simp at hl; omega
    subst hr
    have hdrop : (nullBits levels mx).drop (8 * done.length) = [] := by simp [nullBits]; omega
    simp [Gen.CFun.scalar_build_null_bitmap_loop1, Gen.CFun.scalar_build_null_bitmap_loop1_defined, hge,
      Gen.CFun.scalar_build_null_bitmap_loop2, Gen.CFun.scalar_build_null_bitmap_loop2_defined, hmul, hlt, hmulok, hdrop, packBits]

theorem take8_drop (l : List Bool) (k : Nat) (h : k + 8 ≤ l.length) :
    (l.drop k).take 8 = [l.getD k false, l.getD (k + 1) false, l.getD (k + 2) false, l.getD (k + 3) false,
      l.getD (k + 4) false, l.getD (k + 5) false, l.getD (k + 6) false, l.getD (k + 7) false] := by
  apply List.ext_getElem
  · simp; omega
  · intro i h1 h2
    have hi : i < 8 := by simpa using h2
    have hk : k + i < l.length := by omega
    simp only [List.getElem_take, List.getElem_drop]
    have : ∀ j, j < 8 → k + j < l.length := fun j hj => by omega
    match i, hi with
    | 0, _ => simp [List.getD, List.getElem?_eq_getElem (show k < l.length by omega)]
    | 1, _ => simp [List.getD, List.getElem?_eq_getElem (this 1 (by omega))]
    | 2, _ => simp [List.getD, List.getElem?_eq_getElem (this 2 (by omega))]
    | 3, _ => simp [List.getD, List.getElem?_eq_getElem (this 3 (by omega))]
    | 4, _ => simp [List.getD, List.getElem?_eq_getElem (this 4 (by omega))]
    | 5, _ => simp [List.getD, List.getElem?_eq_getElem (this 5 (by omega))]
    | 6, _ => simp [List.getD, List.getElem?_eq_getElem (this 6 (by omega))]
    | 7, _ => simp [List.getD, List.getElem?_eq_getElem (this 7 (by omega))]

/-- the eight unrolled `if (def_levels[base + k] < max_def_level) null_bits |= 1 << k` -/
theorem nb_byte (levels : List (BitVec 16)) (mx : BitVec 16) (cnt full : BitVec 64) (bm : List UInt8) (b : Nat)
    (hb : 8 * b + 8 ≤ levels.length) (hn : levels.length < 2 ^ 63) :
    UInt8.ofBitVec (Gen.CFun.scalar_build_null_bitmap_v15 levels cnt mx bm full (BitVec.ofNat 64 b)) =
      packByte [(nullBits levels mx).getD (8 * b) false, (nullBits levels mx).getD (8 * b + 1) false,
        (nullBits levels mx).getD (8 * b + 2) false, (nullBits levels mx).getD (8 * b + 3) false,
        (nullBits levels mx).getD (8 * b + 4) false, (nullBits levels mx).getD (8 * b + 5) false,
        (nullBits levels mx).getD (8 * b + 6) false, (nullBits levels mx).getD (8 * b + 7) false] := by
  simp only [Gen.CFun.scalar_build_null_bitmap_v15, Gen.CFun.scalar_build_null_bitmap_v14, Gen.CFun.scalar_build_null_bitmap_v13,
    Gen.CFun.scalar_build_null_bitmap_v12, Gen.CFun.scalar_build_null_bitmap_v11, Gen.CFun.scalar_build_null_bitmap_v10,
    Gen.CFun.scalar_build_null_bitmap_v9, Gen.CFun.scalar_build_null_bitmap_v8, Gen.CFun.scalar_build_null_bitmap_v7,
    Gen.CFun.scalar_build_null_bitmap_v6, Gen.CFun.scalar_build_null_bitmap_v5, Gen.CFun.scalar_build_null_bitmap_v4,
    Gen.CFun.scalar_build_null_bitmap_v3, Gen.CFun.scalar_build_null_bitmap_v2, Gen.CFun.scalar_build_null_bitmap_v1,
    i64_mul, i64_add, Nat.mul_comm b 8, Nat.add_zero, sext_slt,
    i64_toIntNat _ (show 8 * b < 2 ^ 63 by omega),
    i64_toIntNat _ (show 8 * b + 1 < 2 ^ 63 by omega), i64_toIntNat _ (show 8 * b + 2 < 2 ^ 63 by omega),
    i64_toIntNat _ (show 8 * b + 3 < 2 ^ 63 by omega), i64_toIntNat _ (show 8 * b + 4 < 2 ^ 63 by omega),
    i64_toIntNat _ (show 8 * b + 5 < 2 ^ 63 by omega), i64_toIntNat _ (show 8 * b + 6 < 2 ^ 63 by omega),
    i64_toIntNat _ (show 8 * b + 7 < 2 ^ 63 by omega),
    nullBits_getD levels mx (8 * b) (by omega), nullBits_getD levels mx (8 * b + 1) (by omega),
    nullBits_getD levels mx (8 * b + 2) (by omega), nullBits_getD levels mx (8 * b + 3) (by omega),
    nullBits_getD levels mx (8 * b + 4) (by omega), nullBits_getD levels mx (8 * b + 5) (by omega),
    nullBits_getD levels mx (8 * b + 6) (by omega), nullBits_getD levels mx (8 * b + 7) (by omega)]
  generalize (nullBits levels mx).getD (8 * b) false = c0
  generalize (nullBits levels mx).getD (8 * b + 1) false = c1
  generalize (nullBits levels mx).getD (8 * b + 2) false = c2
  generalize (nullBits levels mx).getD (8 * b + 3) false = c3
  generalize (nullBits levels mx).getD (8 * b + 4) false = c4
  generalize (nullBits levels mx).getD (8 * b + 5) false = c5
  generalize (nullBits levels mx).getD (8 * b + 6) false = c6
  generalize (nullBits levels mx).getD (8 * b + 7) false = c7
  revert c0 c1 c2 c3 c4 c5 c6 c7
  decide

theorem nb_full (levels : List (BitVec 16)) (mx : BitVec 16) (hn : levels.length + 8 < 2 ^ 63) :
    ∀ (m : Nat) (rest done : List UInt8) (fuel : Nat), m < fuel → done.length + m = levels.length / 8 →
      done.length + rest.length = (levels.length + 7) / 8 →
      Gen.CFun.scalar_build_null_bitmap_loop1 fuel levels (BitVec.ofNat 64 levels.length) mx (done ++ rest)
          (BitVec.ofNat 64 (levels.length / 8)) (BitVec.ofNat 64 done.length) =
        done ++ packBits ((nullBits levels mx).drop (8 * done.length)) ∧
      Gen.CFun.scalar_build_null_bitmap_loop1_defined fuel levels (BitVec.ofNat 64 levels.length) mx (done ++ rest)
          (BitVec.ofNat 64 (levels.length / 8)) (BitVec.ofNat 64 done.length) = true := by
  intro m
  induction m with
  | zero =>
    intro rest done fuel hf hm hl
    obtain ⟨f, rfl⟩ : ∃ f, fuel = f + 1 := ⟨fuel - 1, by omega⟩
    exact nb_exit levels mx hn done rest (by omega) hl f
  | succ m ih =>
    intro rest done fuel hf hm hl
    obtain ⟨f, rfl⟩ : ∃ f, fuel = f + 1 := ⟨fuel - 1, by omega⟩
    obtain ⟨y, ys, rfl⟩ : ∃ y ys, rest = y :: ys := by
      cases rest with
      | nil => simp at hl; omega
      | cons y ys => exact ⟨y, ys, rfl⟩
    have hb : 8 * done.length + 8 ≤ levels.length := by omega
    have hlt : BitVec.slt (BitVec.ofNat 64 done.length) (BitVec.ofNat 64 (levels.length / 8)) = true := by
      rw [i64_slt _ _ (by omega) (by omega)]; simp; omega
    have hne : (nullBits levels mx).drop (8 * done.length) ≠ [] := by
      intro h; have := congrArg List.length h; simp [nullBits] at this; omega
    have hlen : (nullBits levels mx).length = levels.length := by simp [nullBits]
    rw [packBits_step _ hne, take8_drop _ _ (by omega), List.drop_drop]
    have h := ih ys (done ++ [packByte [(nullBits levels mx).getD (8 * done.length) false,
      (nullBits levels mx).getD (8 * done.length + 1) false, (nullBits levels mx).getD (8 * done.length + 2) false,
      (nullBits levels mx).getD (8 * done.length + 3) false, (nullBits levels mx).getD (8 * done.length + 4) false,
      (nullBits levels mx).getD (8 * done.length + 5) false, (nullBits levels mx).getD (8 * done.length + 6) false,
      (nullBits levels mx).getD (8 * done.length + 7) false]]) f (by omega) (by simp; omega) (by simp at hl ⊢; omega)
    simp only [List.length_append, List.length_cons, List.length_nil, List.append_assoc, List.cons_append, List.nil_append,
      Nat.zero_add, Nat.mul_add, Nat.mul_one] at h
    simp only [Gen.CFun.scalar_build_null_bitmap_loop1, Gen.CFun.scalar_build_null_bitmap_loop1_defined, hlt, if_true,
      i64_mul, i64_add, Nat.mul_comm done.length 8, Nat.add_zero,
      i64_sMulOk _ 8 (show done.length * 8 < 2 ^ 63 by omega) (show done.length < 2 ^ 63 by omega) (by omega),
      i64_sAddOk _ 0 (show 8 * done.length + 0 < 2 ^ 63 by omega),
      i64_sAddOk _ 1 (show 8 * done.length + 1 < 2 ^ 63 by omega), i64_sAddOk _ 2 (show 8 * done.length + 2 < 2 ^ 63 by omega),
      i64_sAddOk _ 3 (show 8 * done.length + 3 < 2 ^ 63 by omega), i64_sAddOk _ 4 (show 8 * done.length + 4 < 2 ^ 63 by omega),
      i64_sAddOk _ 5 (show 8 * done.length + 5 < 2 ^ 63 by omega), i64_sAddOk _ 6 (show 8 * done.length + 6 < 2 ^ 63 by omega),
      i64_sAddOk _ 7 (show 8 * done.length + 7 < 2 ^ 63 by omega),
      i64_toIntNat _ (show 8 * done.length < 2 ^ 63 by omega),
      i64_toIntNat _ (show 8 * done.length + 1 < 2 ^ 63 by omega), i64_toIntNat _ (show 8 * done.length + 2 < 2 ^ 63 by omega),
      i64_toIntNat _ (show 8 * done.length + 3 < 2 ^ 63 by omega), i64_toIntNat _ (show 8 * done.length + 4 < 2 ^ 63 by omega),
      i64_toIntNat _ (show 8 * done.length + 5 < 2 ^ 63 by omega), i64_toIntNat _ (show 8 * done.length + 6 < 2 ^ 63 by omega),
      i64_toIntNat _ (show 8 * done.length + 7 < 2 ^ 63 by omega),
      i64_msb _ (show 8 * done.length < 2 ^ 63 by omega),
      i64_msb _ (show 8 * done.length + 1 < 2 ^ 63 by omega), i64_msb _ (show 8 * done.length + 2 < 2 ^ 63 by omega),
      i64_msb _ (show 8 * done.length + 3 < 2 ^ 63 by omega), i64_msb _ (show 8 * done.length + 4 < 2 ^ 63 by omega),
      i64_msb _ (show 8 * done.length + 5 < 2 ^ 63 by omega), i64_msb _ (show 8 * done.length + 6 < 2 ^ 63 by omega),
      i64_msb _ (show 8 * done.length + 7 < 2 ^ 63 by omega),
      inb_of_lt levels (8 * done.length) (by omega),
      inb_of_lt levels (8 * done.length + 1) (by omega), inb_of_lt levels (8 * done.length + 2) (by omega),
      inb_of_lt levels (8 * done.length + 3) (by omega), inb_of_lt levels (8 * done.length + 4) (by omega),
      inb_of_lt levels (8 * done.length + 5) (by omega), inb_of_lt levels (8 * done.length + 6) (by omega),
      inb_of_lt levels (8 * done.length + 7) (by omega),
      i64_toIntNat _ (show done.length < 2 ^ 63 by omega), i64_msb _ (show done.length < 2 ^ 63 by omega),
      i64_sAddOk_one _ (show done.length + 1 < 2 ^ 63 by omega), wr8_at, inb_at]
    rw [nb_byte levels mx _ _ _ done.length hb (by omega)]
    exact ⟨h.1, by simpa using h.2⟩

/-- `scalar_build_null_bitmap(def_levels, count, max_def_level, null_bitmap)` with `(count + 7) / 8` bitmap bytes; the
previous content of the bitmap does not matter (FS1) -/
theorem scalar_build_null_bitmap_eq (levels : List (BitVec 16)) (mx : BitVec 16) (bm : List UInt8)
    (hb : bm.length = (levels.length + 7) / 8) (hn : levels.length + 8 < 2 ^ 63) :
    Gen.CFun.scalar_build_null_bitmap levels (BitVec.ofNat 64 levels.length) mx bm = scalarBuildNullBitmap levels mx ∧
    Gen.CFun.scalar_build_null_bitmap_defined levels (BitVec.ofNat 64 levels.length) mx bm = true := by
  have := nb_full levels mx hn (levels.length / 8) bm [] (levels.length / 8 + 1) (by omega) (by simp) (by simpa using hb)
  rw [SimdKernels.scalar_null_bitmap]
  simpa [Gen.CFun.scalar_build_null_bitmap, Gen.CFun.scalar_build_null_bitmap_defined, Spec.Kernels.buildNullBitmap, nullBits,
    i64_toIntNat _ (show levels.length < 2 ^ 63 by omega), i64_sdiv _ 8 (show levels.length < 2 ^ 63 by omega) (by omega)] using this

end Carquet.Proofs.CFunB
