import Carquet.Proofs.CFunB.Basic
import Carquet.Gen.CFun
import Carquet.Impl.SimdMore
/-
The LZ77 helpers of src/simd/dispatch.c as translated from the current C source: `scalar_match_length(p, match, limit)`
(three pointers into one buffer; `match` is the lowest) and `scalar_match_copy(dst, src, len, offset)` (`src = dst - offset`,
8-byte `memcpy` blocks when `offset >= 8`, else byte by byte), against Impl.Simd.scalarMatchLength / scalarMatchCopy.
-/
namespace Carquet.Proofs.CFunB
open Carquet Carquet.Impl Carquet.Impl.CSem Carquet.Impl.Simd Carquet.Proofs.CFun2

theorem zext_beq (a b : BitVec 8) : (BitVec.setWidth 32 a == BitVec.setWidth 32 b) = (a == b) := by
  rw [Bool.eq_iff_iff]; simp only [beq_iff_eq]
  constructor
  · intro h
    apply BitVec.eq_of_toNat_eq
    have := congrArg BitVec.toNat h
    simp only [BitVec.toNat_setWidth] at this
    have ha := a.isLt; have hb := b.isLt
    omega
  · intro h; rw [h]

/-! ### match_length -/

theorem ofInt_sub_start (off k : Nat) : BitVec.ofInt 64 (Int.ofNat (off + k) - Int.ofNat off) = BitVec.ofNat 64 k := by
  have : Int.ofNat (off + k) - Int.ofNat off = (k : Int) := by simp; omega
  rw [this]; rfl

theorem match_length_loop (buf : List UInt8) (off : Nat) (hL : buf.length < 2 ^ 63) :
    ∀ (d k fuel : Nat), off + k + d = buf.length → d < fuel →
      Gen.CFun.scalar_match_length_loop1 fuel buf k buf.length (off + k) off =
        BitVec.ofNat 64 (k + firstIdx (fun pm => pm.1 != pm.2) ((buf.drop (off + k)).zip (buf.drop k))) ∧
      Gen.CFun.scalar_match_length_loop1_defined fuel buf k buf.length (off + k) off = true := by
  intro d
  induction d with
  | zero =>
    intro k fuel hk hf
    obtain ⟨f, rfl⟩ : ∃ f, fuel = f + 1 := ⟨fuel - 1, by omega⟩
    have hp : ¬ off + k < buf.length := by omega
    have hdrop : buf.drop (off + k) = [] := by simp; omega
    have hsub : BitVec.ofInt 64 (Int.ofNat (off + k) - Int.ofNat off) = BitVec.ofNat 64 k := ofInt_sub_start off k
    simp only [Gen.CFun.scalar_match_length_loop1, Gen.CFun.scalar_match_length_loop1_defined, hp, decide_false, Bool.false_and,
      hdrop, hsub, List.zip_nil_left, firstIdx]
    simp
  | succ d ih =>
    intro k fuel hk hf
    obtain ⟨f, rfl⟩ : ∃ f, fuel = f + 1 := ⟨fuel - 1, by omega⟩
    have hp : off + k < buf.length := by omega
    have hm : k < buf.length := by omega
    have hsub : BitVec.ofInt 64 (Int.ofNat (off + k) - Int.ofNat off) = BitVec.ofNat 64 k := ofInt_sub_start off k
    have hnext := ih (k + 1) f (by omega) (by omega)
    rw [show off + (k + 1) = off + k + 1 by omega] at hnext
    simp only [Gen.CFun.scalar_match_length_loop1, Gen.CFun.scalar_match_length_loop1_defined, hp, decide_true, Bool.true_and,
      zext_beq, rd8_of_lt _ _ hp, rd8_of_lt _ _ hm, inb_of_lt _ _ hp, inb_of_lt _ _ hm, List.drop_eq_getElem_cons hp,
      List.drop_eq_getElem_cons hm, List.zip_cons_cons, firstIdx, hsub]
    have hbeq : (buf[off + k].toBitVec == buf[k].toBitVec) = (buf[off + k] == buf[k]) := by
      rw [Bool.eq_iff_iff]; simp [← UInt8.toBitVec_inj]
    rw [hbeq]
    by_cases he : buf[off + k] = buf[k]
    · simp only [he, beq_self_eq_true, if_true, bne_self_eq_false, Bool.false_eq_true, if_false]
      refine ⟨?_, by simpa using hnext.2⟩
      rw [hnext.1]; congr 1; omega
    · have h1 : (buf[off + k] == buf[k]) = false := by simpa using he
      have h2 : (buf[off + k] != buf[k]) = true := by simpa using he
      simp [h1, h2]

/-- `scalar_match_length(p, match, limit)` with `match` the start of the buffer, `p = match + off`, `limit` its end -/
theorem scalar_match_length_eq (buf : List UInt8) (off : Nat) (ho : off ≤ buf.length) (hL : buf.length < 2 ^ 63) :
    Gen.CFun.scalar_match_length off buf buf.length = BitVec.ofNat 64 (scalarMatchLength buf off) ∧
    Gen.CFun.scalar_match_length_defined off buf buf.length = true := by
  have := match_length_loop buf off hL (buf.length - off) 0 (buf.length + 1) (by omega) (by omega)
  simpa [Gen.CFun.scalar_match_length, Gen.CFun.scalar_match_length_defined, scalarMatchLength, matchPairs] using this

/-! ### match_copy -/

theorem copyByte_eq (o : Nat) (hist : List UInt8) (ho : 0 < o) (hle : o ≤ hist.length) :
    copyByte o hist = hist ++ [hist.getD (hist.length - o) 0] := by
  have hlt : hist.length - o < hist.length := by omega
  unfold copyByte
  rw [List.drop_eq_getElem_cons hlt, List.take_succ_cons, List.take_zero]
  simp only [List.getD, List.getElem?_eq_getElem hlt, Option.getD_some]

set_option hygiene false in
/-- `while (len > 0) { *dst++ = *src++; len--; }` (loops #2 and #3 of `scalar_match_copy`) -/
local macro "byte_loop_proof" l:ident ld:ident : tactic => `(tactic| (
  intro t1
  induction t1 with
  | nil =>
    intro hist fuel hle hf hlen
    obtain ⟨f, rfl⟩ : ∃ f, fuel = f + 1 := ⟨fuel - 1, by simp at hf; omega⟩
    simp [$l:ident, $ld:ident, copyBytes]
  | cons y ys ih =>
    intro hist fuel hle hf hlen
    obtain ⟨f, rfl⟩ : ∃ f, fuel = f + 1 := ⟨fuel - 1, by simp at hf; omega⟩
    simp only [List.length_cons] at hf hlen
    have hpos : decide (0#64 < BitVec.ofNat 64 (ys.length + 1)) = true := by
      rw [show (0#64 : BitVec 64) = BitVec.ofNat 64 0 from rfl, u64_lt _ _ (by omega) hlen]; simp
    have hsrc : inb (hist ++ y :: (ys ++ t2)) (hist.length - o) 1 = true := by simp [inb]; omega
    have hrd : rd8 (hist ++ y :: (ys ++ t2)) (hist.length - o) = (hist.getD (hist.length - o) 0).toBitVec := by
      have hlt : hist.length - o < hist.length := by omega
      simp [rd8, List.getD, List.getElem?_append_left hlt]
    have hnext := ih (copyByte o hist) f (by rw [copyByte_eq o hist ho hle]; simp; omega) (by omega) (by omega)
    rw [copyByte_eq o hist ho hle] at hnext
    simp only [List.length_append, List.length_cons, List.length_nil, Nat.zero_add, List.append_assoc, List.cons_append,
      List.nil_append] at hnext
    rw [show hist.length + 1 - o = hist.length - o + 1 by omega] at hnext
    simp only [$l:ident, $ld:ident, List.length_cons, hpos, if_true, List.append_assoc, List.cons_append, hrd,
      wr8_at, inb_at, hsrc, show (1#64 : BitVec 64) = BitVec.ofNat 64 1 from rfl,
      u64_sub _ 1 (by omega) hlen, Nat.add_sub_cancel, copyBytes, copyByte_eq o hist ho hle] at hnext ⊢
    exact ⟨by simpa using hnext.1, by simpa using hnext.2⟩))

theorem match_copy_loop3 (o : Nat) (ho : 0 < o) (offset : BitVec 64) (t2 : List UInt8) :
    ∀ (t1 hist : List UInt8) (fuel : Nat), o ≤ hist.length → t1.length < fuel → t1.length < 2 ^ 64 →
      Gen.CFun.scalar_match_copy_loop3 fuel (hist ++ t1 ++ t2) (hist.length - o) (BitVec.ofNat 64 t1.length) offset hist.length =
        copyBytes o t1.length hist ++ t2 ∧
      Gen.CFun.scalar_match_copy_loop3_defined fuel (hist ++ t1 ++ t2) (hist.length - o) (BitVec.ofNat 64 t1.length) offset
        hist.length = true := by
  byte_loop_proof Gen.CFun.scalar_match_copy_loop3 Gen.CFun.scalar_match_copy_loop3_defined

theorem match_copy_loop2 (o : Nat) (ho : 0 < o) (offset : BitVec 64) (t2 : List UInt8) :
    ∀ (t1 hist : List UInt8) (fuel : Nat), o ≤ hist.length → t1.length < fuel → t1.length < 2 ^ 64 →
      Gen.CFun.scalar_match_copy_loop2 fuel (hist ++ t1 ++ t2) (hist.length - o) (BitVec.ofNat 64 t1.length) offset hist.length =
        copyBytes o t1.length hist ++ t2 ∧
      Gen.CFun.scalar_match_copy_loop2_defined fuel (hist ++ t1 ++ t2) (hist.length - o) (BitVec.ofNat 64 t1.length) offset
        hist.length = true := by
  byte_loop_proof Gen.CFun.scalar_match_copy_loop2 Gen.CFun.scalar_match_copy_loop2_defined

theorem copyBlock8_eq (o : Nat) (hist : List UInt8) (ho : 8 ≤ o) (hle : o ≤ hist.length) :
    (copyBlock 8 o hist).length = hist.length + 8 := by
  simp [copyBlock]; omega

/-- the 8-byte `memcpy` loop (#1) followed by the byte loop (#2) -/
theorem match_copy_loop1 (o : Nat) (ho : 8 ≤ o) (offset : BitVec 64) (t2 : List UInt8) :
    ∀ (q : Nat) (t1 hist : List UInt8) (fuel : Nat), t1.length / 8 = q → o ≤ hist.length → q < fuel → t1.length < 2 ^ 64 →
      Gen.CFun.scalar_match_copy_loop1 fuel (hist ++ t1 ++ t2) (hist.length - o) (BitVec.ofNat 64 t1.length) offset hist.length =
        copyBytes o (t1.length % 8) (copyBlocks 8 o (t1.length / 8) hist) ++ t2 ∧
      Gen.CFun.scalar_match_copy_loop1_defined fuel (hist ++ t1 ++ t2) (hist.length - o) (BitVec.ofNat 64 t1.length) offset
        hist.length = true := by
  intro q
  induction q with
  | zero =>
    intro t1 hist fuel hq hle hf hlen
    obtain ⟨f, rfl⟩ : ∃ f, fuel = f + 1 := ⟨fuel - 1, by omega⟩
    have hlt8 : t1.length < 8 := by omega
    have hge : decide (8#64 ≤ BitVec.ofNat 64 t1.length) = false := by
      rw [show (8#64 : BitVec 64) = BitVec.ofNat 64 8 from rfl, u64_le _ _ (by omega) hlen]; simp; omega
    have h2 := match_copy_loop2 o (by omega) offset t2 t1 hist (t1.length + 1) hle (by omega) hlen
    simp only [Gen.CFun.scalar_match_copy_loop1, Gen.CFun.scalar_match_copy_loop1_defined, hge, Bool.false_eq_true, if_false,
      u64_toNat _ hlen, hq, copyBlocks, Nat.mod_eq_of_lt hlt8]
    exact h2
  | succ q ih =>
    intro t1 hist fuel hq hle hf hlen
    obtain ⟨f, rfl⟩ : ∃ f, fuel = f + 1 := ⟨fuel - 1, by omega⟩
    have hge8 : 8 ≤ t1.length := by omega
    have hge : decide (8#64 ≤ BitVec.ofNat 64 t1.length) = true := by
      rw [show (8#64 : BitVec 64) = BitVec.ofNat 64 8 from rfl, u64_le _ _ (by omega) hlen]; simp [hge8]
    -- the block that is copied lies inside what has been written so far
    have hblit : blit (hist ++ t1 ++ t2) hist.length (hist ++ t1 ++ t2) (hist.length - o) 8 =
        copyBlock 8 o hist ++ t1.drop 8 ++ t2 := by
      have h1 : (hist ++ t1 ++ t2).take hist.length = hist := by simp
      have h2 : ((hist ++ t1 ++ t2).drop (hist.length - o)).take 8 = (hist.drop (hist.length - o)).take 8 := by
        rw [List.append_assoc, List.drop_append_of_le_length (by omega), List.take_append_of_le_length (by simp; omega)]
      have h3 : (hist ++ t1 ++ t2).drop (hist.length + 8) = t1.drop 8 ++ t2 := by
        rw [List.append_assoc, List.drop_append, List.drop_eq_nil_of_le (by omega)]
        simp only [List.nil_append, Nat.add_sub_cancel_left]
        rw [List.drop_append_of_le_length (by omega)]
      unfold blit copyBlock
      rw [h1, h2, h3]; simp only [List.append_assoc]
    have hnext := ih (t1.drop 8) (copyBlock 8 o hist) f (by simp; omega)
      (by rw [copyBlock8_eq o hist ho hle]; omega) (by omega) (by simp; omega)
    rw [copyBlock8_eq o hist ho hle, List.length_drop, show hist.length + 8 - o = hist.length - o + 8 by omega] at hnext
    have hinb1 : inb (hist ++ t1 ++ t2) hist.length 8 = true := by simp [inb]; omega
    have hinb2 : inb (hist ++ t1 ++ t2) (hist.length - o) 8 = true := by simp [inb]; omega
    have hdis : disjoint hist.length (hist.length - o) 8 = true := by simp [disjoint]; omega
    simp only [Gen.CFun.scalar_match_copy_loop1, Gen.CFun.scalar_match_copy_loop1_defined, hge, if_true, hblit, hinb1, hinb2, hdis,
      u64_sub _ 8 hge8 hlen, Bool.true_and]
    have hq' : t1.length / 8 = (t1.length - 8) / 8 + 1 := by omega
    have hm' : t1.length % 8 = (t1.length - 8) % 8 := by omega
    rw [hq', hm', copyBlocks]
    exact hnext

/-- `scalar_match_copy(dst, src, len, offset)`: `window` = the `offset` bytes before `dst` (`src = dst - offset` is the start of
the buffer), `t1` = the `len` bytes that are overwritten, `t2` = whatever follows (untouched) -/
theorem scalar_match_copy_eq (window t1 t2 : List UInt8) (ho : 0 < window.length) (hlen : t1.length < 2 ^ 64)
    (hoff : window.length < 2 ^ 64) :
    Gen.CFun.scalar_match_copy window.length (window ++ t1 ++ t2) (BitVec.ofNat 64 t1.length) (BitVec.ofNat 64 window.length) =
      window ++ scalarMatchCopy window t1.length ++ t2 ∧
    Gen.CFun.scalar_match_copy_defined window.length (window ++ t1 ++ t2) (BitVec.ofNat 64 t1.length)
      (BitVec.ofNat 64 window.length) = true := by
  have hpre : ∀ n h, h.length ≥ window.length → (copyBytes window.length n h).take window.length = h.take window.length := by
    intro n
    induction n with
    | zero => intro h _; rfl
    | succ n ih =>
      intro h hh
      rw [copyBytes, ih _ (by rw [copyByte_eq _ _ ho hh]; simp; omega), copyByte_eq _ _ ho hh,
        List.take_append_of_le_length hh]
  have hpreB : ∀ n h, 8 ≤ window.length → h.length ≥ window.length →
      (copyBlocks 8 window.length n h).take window.length = h.take window.length ∧
      (copyBlocks 8 window.length n h).length ≥ window.length := by
    intro n
    induction n with
    | zero => intro h _ hh; exact ⟨rfl, hh⟩
    | succ n ih =>
      intro h h8 hh
      have := ih (copyBlock 8 window.length h) h8 (by rw [copyBlock8_eq _ _ h8 hh]; omega)
      rw [copyBlocks]
      refine ⟨?_, this.2⟩
      rw [this.1, copyBlock, List.take_append_of_le_length hh]
  by_cases h8 : 8 ≤ window.length
  · have hge : decide (8#64 ≤ BitVec.ofNat 64 window.length) = true := by
      rw [show (8#64 : BitVec 64) = BitVec.ofNat 64 8 from rfl, u64_le _ _ (by omega) hoff]; simp [h8]
    have h1 := match_copy_loop1 window.length h8 (BitVec.ofNat 64 window.length) t2 (t1.length / 8) t1 window
      (t1.length / 8 + 1) rfl (Nat.le_refl _) (by omega) hlen
    simp only [Nat.sub_self] at h1
    simp only [Gen.CFun.scalar_match_copy, Gen.CFun.scalar_match_copy_defined, hge, if_true, u64_toNat _ hlen, scalarMatchCopy,
      ge_iff_le, h8]
    refine ⟨?_, h1.2⟩
    rw [h1.1]
    have hB := hpreB (t1.length / 8) window h8 (Nat.le_refl _)
    have hP := hpre (t1.length % 8) _ hB.2
    rw [hB.1, List.take_length] at hP
    conv => lhs; rw [← List.take_append_drop window.length (copyBytes window.length (t1.length % 8)
      (copyBlocks 8 window.length (t1.length / 8) window))]
    rw [hP]
  · have hge : decide (8#64 ≤ BitVec.ofNat 64 window.length) = false := by
      rw [show (8#64 : BitVec 64) = BitVec.ofNat 64 8 from rfl, u64_le _ _ (by omega) hoff]; simp; omega
    have h3 := match_copy_loop3 window.length ho (BitVec.ofNat 64 window.length) t2 t1 window (t1.length + 1) (Nat.le_refl _)
      (by omega) hlen
    simp only [Nat.sub_self] at h3
    simp only [Gen.CFun.scalar_match_copy, Gen.CFun.scalar_match_copy_defined, hge, Bool.false_eq_true, if_false,
      u64_toNat _ hlen, scalarMatchCopy, ge_iff_le, h8]
    refine ⟨?_, h3.2⟩
    rw [h3.1]
    have hP := hpre t1.length window (Nat.le_refl _)
    rw [List.take_length] at hP
    conv => lhs; rw [← List.take_append_drop window.length (copyBytes window.length t1.length window)]
    rw [hP]

end Carquet.Proofs.CFunB
