import Carquet.Proofs.CFunB.Basic
import Carquet.Gen.CFun
import Carquet.Gen.Dispatch
import Carquet.Impl.SimdMore
/-
Second part of the loop inductions for the scalar reference kernels of src/simd/dispatch.c: definition levels, run
length, CRC-32C.
-/
namespace Carquet.Proofs.CFunB
open Carquet Carquet.Impl Carquet.Impl.CSem Carquet.Impl.Simd

/-! ### fill_def_levels -/

theorem fill_loop (value : BitVec 16) :
    ∀ (rest done : List (BitVec 16)) (fuel : Nat), rest.length < fuel → done.length + rest.length < 2 ^ 63 →
      Gen.CFun.scalar_fill_def_levels_loop1 fuel (done ++ rest) (BitVec.ofNat 64 (done.length + rest.length)) value
          (BitVec.ofNat 64 done.length) = done ++ rest.map (fun _ => value) ∧
      Gen.CFun.scalar_fill_def_levels_loop1_defined fuel (done ++ rest) (BitVec.ofNat 64 (done.length + rest.length)) value
          (BitVec.ofNat 64 done.length) = true := by
  intro rest
  induction rest with
  | nil =>
    intro done fuel hf hl
    obtain ⟨f, rfl⟩ : ∃ f, fuel = f + 1 := ⟨fuel - 1, by simp at hf; omega⟩
    simp only [List.length_nil, Nat.add_zero] at hl
    have hge : BitVec.slt (BitVec.ofNat 64 done.length) (BitVec.ofNat 64 done.length) = false := by
      rw [i64_slt _ _ hl hl]; simp
    simp [Gen.CFun.scalar_fill_def_levels_loop1, Gen.CFun.scalar_fill_def_levels_loop1_defined, hge]
  | cons x xs ih =>
    intro done fuel hf hl
    obtain ⟨f, rfl⟩ : ∃ f, fuel = f + 1 := ⟨fuel - 1, by simp at hf; omega⟩
    simp only [List.length_cons] at hf hl
    have hlt : BitVec.slt (BitVec.ofNat 64 done.length) (BitVec.ofNat 64 (done.length + (xs.length + 1))) = true := by
      rw [i64_slt _ _ (by omega) hl]; simp
    have h := ih (done ++ [value]) f (by omega) (by simp; omega)
    simp only [List.length_append, List.length_cons, List.length_nil, List.append_assoc, List.cons_append, List.nil_append,
      Nat.zero_add] at h
    rw [show done.length + 1 + xs.length = done.length + (xs.length + 1) by omega] at h
    simp only [Gen.CFun.scalar_fill_def_levels_loop1, Gen.CFun.scalar_fill_def_levels_loop1_defined, List.length_cons, hlt, if_true,
      i64_toIntNat _ (show done.length < 2 ^ 63 by omega), wr_at, inb_at, i64_msb _ (show done.length < 2 ^ 63 by omega),
      i64_add_one, i64_sAddOk_one _ (show done.length + 1 < 2 ^ 63 by omega), List.map_cons]
    exact ⟨h.1, by simpa using h.2⟩

theorem scalar_fill_def_levels_eq (old : List (BitVec 16)) (value : BitVec 16) (h : old.length < 2 ^ 63) :
    Gen.CFun.scalar_fill_def_levels old (BitVec.ofNat 64 old.length) value = scalarFillDefLevels old value ∧
    Gen.CFun.scalar_fill_def_levels_defined old (BitVec.ofNat 64 old.length) value = true := by
  have := fill_loop value old [] (old.length + 1) (by omega) (by simpa using h)
  simpa [Gen.CFun.scalar_fill_def_levels, Gen.CFun.scalar_fill_def_levels_defined, scalarFillDefLevels, i64_toIntNat _ h] using this

/-! ### count_non_nulls -/

theorem count_loop (mx : BitVec 16) :
    ∀ (rest done : List (BitVec 16)) (c fuel : Nat), rest.length < fuel → done.length + rest.length < 2 ^ 63 →
      c ≤ done.length →
      Gen.CFun.scalar_count_non_nulls_loop1 fuel (done ++ rest) (BitVec.ofNat 64 (done.length + rest.length)) mx
          (BitVec.ofNat 64 c) (BitVec.ofNat 64 done.length) = BitVec.ofNat 64 (rest.foldl (cnnStep mx) c) ∧
      Gen.CFun.scalar_count_non_nulls_loop1_defined fuel (done ++ rest) (BitVec.ofNat 64 (done.length + rest.length)) mx
          (BitVec.ofNat 64 c) (BitVec.ofNat 64 done.length) = true := by
  intro rest
  induction rest with
  | nil =>
    intro done c fuel hf hl hc
    obtain ⟨f, rfl⟩ : ∃ f, fuel = f + 1 := ⟨fuel - 1, by simp at hf; omega⟩
    simp only [List.length_nil, Nat.add_zero] at hl
    have hge : BitVec.slt (BitVec.ofNat 64 done.length) (BitVec.ofNat 64 done.length) = false := by
      rw [i64_slt _ _ hl hl]; simp
    simp [Gen.CFun.scalar_count_non_nulls_loop1, Gen.CFun.scalar_count_non_nulls_loop1_defined, hge]
  | cons x xs ih =>
    intro done c fuel hf hl hc
    obtain ⟨f, rfl⟩ : ∃ f, fuel = f + 1 := ⟨fuel - 1, by simp at hf; omega⟩
    simp only [List.length_cons] at hf hl
    have hlt : BitVec.slt (BitVec.ofNat 64 done.length) (BitVec.ofNat 64 (done.length + (xs.length + 1))) = true := by
      rw [i64_slt _ _ (by omega) hl]; simp
    have h := ih (done ++ [x]) (cnnStep mx c x) f (by omega) (by simp; omega)
      (by simp only [cnnStep, List.length_append, List.length_cons, List.length_nil]; split <;> omega)
    simp only [List.length_append, List.length_cons, List.length_nil, List.append_assoc, List.cons_append, List.nil_append,
      Nat.zero_add] at h
    rw [show done.length + 1 + xs.length = done.length + (xs.length + 1) by omega] at h
    simp only [Gen.CFun.scalar_count_non_nulls_loop1, Gen.CFun.scalar_count_non_nulls_loop1_defined,
      Gen.CFun.scalar_count_non_nulls_v1, List.length_cons, hlt, if_true,
      i64_toIntNat _ (show done.length < 2 ^ 63 by omega), rd_at, inb_at, i64_msb _ (show done.length < 2 ^ 63 by omega),
      i64_add_one, i64_sAddOk_one _ (show done.length + 1 < 2 ^ 63 by omega), i64_sAddOk_one _ (show c + 1 < 2 ^ 63 by omega),
      List.foldl_cons, sext_beq]
    have hstep : (if (x == mx) = true then BitVec.ofNat 64 (c + 1) else BitVec.ofNat 64 c) = BitVec.ofNat 64 (cnnStep mx c x) := by
      simp only [cnnStep]; split <;> rfl
    rw [hstep]
    exact ⟨h.1, by simpa using h.2⟩

theorem scalar_count_non_nulls_eq (levels : List (BitVec 16)) (mx : BitVec 16) (h : levels.length < 2 ^ 63) :
    Gen.CFun.scalar_count_non_nulls levels (BitVec.ofNat 64 levels.length) mx =
      BitVec.ofNat 64 (scalarCountNonNulls levels mx) ∧
    Gen.CFun.scalar_count_non_nulls_defined levels (BitVec.ofNat 64 levels.length) mx = true := by
  have := count_loop mx levels [] 0 (levels.length + 1) (by omega) (by simpa using h) (by simp)
  simpa [Gen.CFun.scalar_count_non_nulls, Gen.CFun.scalar_count_non_nulls_defined, scalarCountNonNulls, i64_toIntNat _ h] using this

/-! ### find_run_length_i32 -/

theorem run_loop (first : BitVec 32) :
    ∀ (rest done : List (BitVec 32)) (fuel : Nat), rest.length < fuel → done.length + rest.length < 2 ^ 63 →
      Gen.CFun.scalar_find_run_length_i32_loop1 fuel (done ++ rest) (BitVec.ofNat 64 (done.length + rest.length)) first
          (BitVec.ofNat 64 done.length) = BitVec.ofNat 64 (done.length + firstIdx (· != first) rest) ∧
      Gen.CFun.scalar_find_run_length_i32_loop1_defined fuel (done ++ rest) (BitVec.ofNat 64 (done.length + rest.length)) first
          (BitVec.ofNat 64 done.length) = true := by
  intro rest
  induction rest with
  | nil =>
    intro done fuel hf hl
    obtain ⟨f, rfl⟩ : ∃ f, fuel = f + 1 := ⟨fuel - 1, by simp at hf; omega⟩
    simp only [List.length_nil, Nat.add_zero] at hl
    have hge : BitVec.slt (BitVec.ofNat 64 done.length) (BitVec.ofNat 64 done.length) = false := by
      rw [i64_slt _ _ hl hl]; simp
    simp [Gen.CFun.scalar_find_run_length_i32_loop1, Gen.CFun.scalar_find_run_length_i32_loop1_defined, hge, firstIdx]
  | cons x xs ih =>
    intro done fuel hf hl
    obtain ⟨f, rfl⟩ : ∃ f, fuel = f + 1 := ⟨fuel - 1, by simp at hf; omega⟩
    simp only [List.length_cons] at hf hl
    have hlt : BitVec.slt (BitVec.ofNat 64 done.length) (BitVec.ofNat 64 (done.length + (xs.length + 1))) = true := by
      rw [i64_slt _ _ (by omega) hl]; simp
    have h := ih (done ++ [x]) f (by omega) (by simp; omega)
    simp only [List.length_append, List.length_cons, List.length_nil, List.append_assoc, List.cons_append, List.nil_append,
      Nat.zero_add] at h
    rw [show done.length + 1 + xs.length = done.length + (xs.length + 1) by omega] at h
    simp only [Gen.CFun.scalar_find_run_length_i32_loop1, Gen.CFun.scalar_find_run_length_i32_loop1_defined, List.length_cons, hlt,
      if_true, i64_toIntNat _ (show done.length < 2 ^ 63 by omega), rd_at, inb_at, i64_msb _ (show done.length < 2 ^ 63 by omega),
      i64_add_one, i64_sAddOk_one _ (show done.length + 1 < 2 ^ 63 by omega), firstIdx]
    by_cases hx : (x != first) = true
    · simp [hx]
    · simp only [hx, if_false, Bool.false_eq_true]
      refine ⟨?_, by simpa using h.2⟩
      rw [h.1]; congr 1; omega

theorem scalar_find_run_length_i32_eq (vals : List (BitVec 32)) (h : vals.length < 2 ^ 63) :
    Gen.CFun.scalar_find_run_length_i32 vals (BitVec.ofNat 64 vals.length) = BitVec.ofNat 64 (scalarFindRunLength vals) ∧
    Gen.CFun.scalar_find_run_length_i32_defined vals (BitVec.ofNat 64 vals.length) = true := by
  cases vals with
  | nil => simp [Gen.CFun.scalar_find_run_length_i32, Gen.CFun.scalar_find_run_length_i32_defined, scalarFindRunLength]
  | cons x xs =>
    simp only [List.length_cons] at h
    have := run_loop x xs [x] (xs.length + 1 + 1) (by omega) (by simp; omega)
    have hz : (BitVec.ofNat 64 (xs.length + 1) == 0#64) = false := by rw [i64_eq_zero _ h]; simp
    simp only [List.length_cons, List.length_nil, Nat.zero_add, List.cons_append, List.nil_append,
      show 1 + xs.length = xs.length + 1 by omega] at this
    simp only [Gen.CFun.scalar_find_run_length_i32, Gen.CFun.scalar_find_run_length_i32_defined, List.length_cons, hz,
      Bool.false_eq_true, if_false, i64_toIntNat _ h, scalarFindRunLength]
    refine ⟨by simpa [rd] using this.1, ?_⟩
    have hin : inb (x :: xs) 0 1 = true := by simp [inb]
    simpa [rd, hin] using this.2

/-! ### crc32c -/

theorem rd_map_ofNat (T : List Nat) (i : Nat) : rd (T.map (BitVec.ofNat 32)) i = BitVec.ofNat 32 (T.getD i 0) := by
  simp only [rd, List.getD, List.getElem?_map]
  cases T[i]? <;> simp

/-- the table the translator read from the initialiser in the AST is the table the regex translator extracted
(`Gen.Dispatch.crc32cTable`, which `C15_crc32c_table` proves to be the Castagnoli table) -/
theorem crc32c_table_eq : Gen.CFun.dispatch_crc32c_table = Gen.Dispatch.crc32cTable.map (BitVec.ofNat 32) := by decide +kernel

theorem and255_lt (x : BitVec 32) : (x &&& 255#32).toNat < 256 := by
  have : (x &&& 255#32).toNat = x.toNat &&& 255 := by simp
  rw [this]; exact Nat.lt_of_le_of_lt Nat.and_le_right (by omega)

def crcTabStep (c : BitVec 32) (b : UInt8) : BitVec 32 :=
  BitVec.ofNat 32 (Gen.Dispatch.crc32cTable.getD ((c ^^^ b.toBitVec.setWidth 32) &&& 0xFF#32).toNat 0) ^^^ (c >>> 8)

theorem crc_loop :
    ∀ (rest done : List UInt8) (crc : BitVec 32) (fuel : Nat), rest.length < fuel → done.length + rest.length < 2 ^ 64 →
      Gen.CFun.scalar_crc32c_loop1 fuel (done ++ rest) crc (BitVec.ofNat 64 (done.length + rest.length))
          (BitVec.ofNat 64 done.length) = ~~~ (rest.foldl crcTabStep crc) ∧
      Gen.CFun.scalar_crc32c_loop1_defined fuel (done ++ rest) crc (BitVec.ofNat 64 (done.length + rest.length))
          (BitVec.ofNat 64 done.length) = true := by
  intro rest
  induction rest with
  | nil =>
    intro done crc fuel hf hl
    obtain ⟨f, rfl⟩ : ∃ f, fuel = f + 1 := ⟨fuel - 1, by simp at hf; omega⟩
    simp [Gen.CFun.scalar_crc32c_loop1, Gen.CFun.scalar_crc32c_loop1_defined]
  | cons x xs ih =>
    intro done crc fuel hf hl
    obtain ⟨f, rfl⟩ : ∃ f, fuel = f + 1 := ⟨fuel - 1, by simp at hf; omega⟩
    simp only [List.length_cons] at hf hl
    have hlt : decide (BitVec.ofNat 64 done.length < BitVec.ofNat 64 (done.length + (xs.length + 1))) = true := by
      rw [u64_lt _ _ (by omega) hl]; simp
    have h := ih (done ++ [x]) (crcTabStep crc x) f (by omega) (by simp; omega)
    simp only [List.length_append, List.length_cons, List.length_nil, List.append_assoc, List.cons_append, List.nil_append,
      Nat.zero_add] at h
    rw [show done.length + 1 + xs.length = done.length + (xs.length + 1) by omega] at h
    simp only [Gen.CFun.scalar_crc32c_loop1, Gen.CFun.scalar_crc32c_loop1_defined, Gen.CFun.scalar_crc32c_v1, List.length_cons, hlt,
      if_true, u64_toNat _ (show done.length < 2 ^ 64 by omega), rd8_at, inb_at, i64_add_one, List.foldl_cons, crc32c_table_eq,
      rd_map_ofNat]
    have hidx : decide (((crc ^^^ BitVec.setWidth 32 x.toBitVec) &&& 255#32).toNat < 256) = true :=
      decide_eq_true (and255_lt _)
    rw [hidx]
    have hs : BitVec.ofNat 32 (Gen.Dispatch.crc32cTable.getD ((crc ^^^ BitVec.setWidth 32 x.toBitVec) &&& 255#32).toNat 0) ^^^
        crc >>> 8 = crcTabStep crc x := rfl
    rw [hs]
    exact ⟨h.1, by simpa using h.2⟩

theorem scalar_crc32c_eq (crc : BitVec 32) (data : List UInt8) (h : data.length < 2 ^ 64) :
    Gen.CFun.scalar_crc32c crc data (BitVec.ofNat 64 data.length) = scalarCrc32c Gen.Dispatch.crc32cTable crc data ∧
    Gen.CFun.scalar_crc32c_defined crc data (BitVec.ofNat 64 data.length) = true := by
  have := crc_loop data [] (~~~crc) (data.length + 1) (by omega) (by simpa using h)
  have hs : scalarCrc32c Gen.Dispatch.crc32cTable crc data = ~~~ (data.foldl crcTabStep (~~~crc)) := rfl
  rw [hs]
  simpa [Gen.CFun.scalar_crc32c, Gen.CFun.scalar_crc32c_defined, u64_toNat _ h] using this

end Carquet.Proofs.CFunB
