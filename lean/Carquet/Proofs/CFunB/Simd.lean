import Carquet.Proofs.CFunB.Basic
import Carquet.Gen.CFun
import Carquet.Impl.SimdMore
/-
Loop inductions linking the scalar reference kernels of src/simd/dispatch.c, as translated from the current C source
(`Gen.CFun.scalar_*`), to the definitions the C15 theorems are about (`Impl.Simd.scalar*`).
Shape of every proof: the array is `done ++ rest` with `i = done.length`; induction on `rest`, the fuel is generalised.
-/
namespace Carquet.Proofs.CFunB
open Carquet Carquet.Impl Carquet.Impl.CSem Carquet.Impl.Simd

/-! ### prefix sums -/

theorem prefix_sum_i32_loop (init : BitVec 32) :
    ∀ (rest done : List (BitVec 32)) (sum : BitVec 32) (fuel : Nat), rest.length < fuel →
      done.length + rest.length < 2 ^ 63 →
      Gen.CFun.scalar_prefix_sum_i32_loop1 fuel (done ++ rest) (BitVec.ofNat 64 (done.length + rest.length)) init sum
          (BitVec.ofNat 64 done.length) = done ++ (scalarScan psStep sum rest).1 ∧
      Gen.CFun.scalar_prefix_sum_i32_loop1_defined fuel (done ++ rest) (BitVec.ofNat 64 (done.length + rest.length)) init sum
          (BitVec.ofNat 64 done.length) = true := by
  intro rest
  induction rest with
  | nil =>
    intro done sum fuel hf hl
    obtain ⟨f, rfl⟩ : ∃ f, fuel = f + 1 := ⟨fuel - 1, by simp at hf; omega⟩
    simp only [List.length_nil, Nat.add_zero] at hl
    have hge : BitVec.slt (BitVec.ofNat 64 done.length) (BitVec.ofNat 64 done.length) = false := by
      rw [i64_slt _ _ hl hl]; simp
    simp [Gen.CFun.scalar_prefix_sum_i32_loop1, Gen.CFun.scalar_prefix_sum_i32_loop1_defined, hge, scalarScan]
  | cons x xs ih =>
    intro done sum fuel hf hl
    obtain ⟨f, rfl⟩ : ∃ f, fuel = f + 1 := ⟨fuel - 1, by simp at hf; omega⟩
    simp only [List.length_cons] at hf hl
    have hlt : BitVec.slt (BitVec.ofNat 64 done.length) (BitVec.ofNat 64 (done.length + (xs.length + 1))) = true := by
      rw [i64_slt _ _ (by omega) hl]; simp
    have h := ih (done ++ [sum + x]) (sum + x) f (by omega) (by simp; omega)
    simp only [List.length_append, List.length_cons, List.length_nil, List.append_assoc, List.cons_append, List.nil_append,
      Nat.zero_add] at h
    rw [show done.length + 1 + xs.length = done.length + (xs.length + 1) by omega] at h
    simp only [Gen.CFun.scalar_prefix_sum_i32_loop1, Gen.CFun.scalar_prefix_sum_i32_loop1_defined, List.length_cons, hlt, if_true,
      i64_toIntNat _ (show done.length < 2 ^ 63 by omega), rd_at, wr_at, inb_at, i64_msb _ (show done.length < 2 ^ 63 by omega),
      i64_add_one, i64_sAddOk_one _ (show done.length + 1 < 2 ^ 63 by omega), scalarScan, psStep]
    exact ⟨h.1, by simpa using h.2⟩

theorem prefix_sum_i64_loop (init : BitVec 64) :
    ∀ (rest done : List (BitVec 64)) (sum : BitVec 64) (fuel : Nat), rest.length < fuel →
      done.length + rest.length < 2 ^ 63 →
      Gen.CFun.scalar_prefix_sum_i64_loop1 fuel (done ++ rest) (BitVec.ofNat 64 (done.length + rest.length)) init sum
          (BitVec.ofNat 64 done.length) = done ++ (scalarScan psStep sum rest).1 ∧
      Gen.CFun.scalar_prefix_sum_i64_loop1_defined fuel (done ++ rest) (BitVec.ofNat 64 (done.length + rest.length)) init sum
          (BitVec.ofNat 64 done.length) = true := by
  intro rest
  induction rest with
  | nil =>
    intro done sum fuel hf hl
    obtain ⟨f, rfl⟩ : ∃ f, fuel = f + 1 := ⟨fuel - 1, by simp at hf; omega⟩
    simp only [List.length_nil, Nat.add_zero] at hl
    have hge : BitVec.slt (BitVec.ofNat 64 done.length) (BitVec.ofNat 64 done.length) = false := by
      rw [i64_slt _ _ hl hl]; simp
    simp [Gen.CFun.scalar_prefix_sum_i64_loop1, Gen.CFun.scalar_prefix_sum_i64_loop1_defined, hge, scalarScan]
  | cons x xs ih =>
    intro done sum fuel hf hl
    obtain ⟨f, rfl⟩ : ∃ f, fuel = f + 1 := ⟨fuel - 1, by simp at hf; omega⟩
    simp only [List.length_cons] at hf hl
    have hlt : BitVec.slt (BitVec.ofNat 64 done.length) (BitVec.ofNat 64 (done.length + (xs.length + 1))) = true := by
      rw [i64_slt _ _ (by omega) hl]; simp
    have h := ih (done ++ [sum + x]) (sum + x) f (by omega) (by simp; omega)
    simp only [List.length_append, List.length_cons, List.length_nil, List.append_assoc, List.cons_append, List.nil_append,
      Nat.zero_add] at h
    rw [show done.length + 1 + xs.length = done.length + (xs.length + 1) by omega] at h
    simp only [Gen.CFun.scalar_prefix_sum_i64_loop1, Gen.CFun.scalar_prefix_sum_i64_loop1_defined, List.length_cons, hlt, if_true,
      i64_toIntNat _ (show done.length < 2 ^ 63 by omega), rd_at, wr_at, inb_at, i64_msb _ (show done.length < 2 ^ 63 by omega),
      i64_add_one, i64_sAddOk_one _ (show done.length + 1 < 2 ^ 63 by omega), scalarScan, psStep]
    exact ⟨h.1, by simpa using h.2⟩

/-- `scalar_prefix_sum_i32(values, count, initial)` on exactly `count` values -/
theorem scalar_prefix_sum_i32_eq (vals : List (BitVec 32)) (init : BitVec 32) (h : vals.length < 2 ^ 63) :
    Gen.CFun.scalar_prefix_sum_i32 vals (BitVec.ofNat 64 vals.length) init = scalarPrefixSum init vals ∧
    Gen.CFun.scalar_prefix_sum_i32_defined vals (BitVec.ofNat 64 vals.length) init = true := by
  have := prefix_sum_i32_loop init vals [] init (vals.length + 1) (by omega) (by simpa using h)
  simpa [Gen.CFun.scalar_prefix_sum_i32, Gen.CFun.scalar_prefix_sum_i32_defined, scalarPrefixSum, i64_toIntNat _ h] using this

theorem scalar_prefix_sum_i64_eq (vals : List (BitVec 64)) (init : BitVec 64) (h : vals.length < 2 ^ 63) :
    Gen.CFun.scalar_prefix_sum_i64 vals (BitVec.ofNat 64 vals.length) init = scalarPrefixSum init vals ∧
    Gen.CFun.scalar_prefix_sum_i64_defined vals (BitVec.ofNat 64 vals.length) init = true := by
  have := prefix_sum_i64_loop init vals [] init (vals.length + 1) (by omega) (by simpa using h)
  simpa [Gen.CFun.scalar_prefix_sum_i64, Gen.CFun.scalar_prefix_sum_i64_defined, scalarPrefixSum, i64_toIntNat _ h] using this

/-! ### dictionary gathers -/

theorem loadZx_memOf {α : Type} (d : List α) (x : BitVec 32) : loadZx (memOf d) x = d[x.toNat]? := by
  simp [loadZx, memOf]

/-- what the link theorems of the four gathers say: value when every index is inside the dictionary, `_defined = false`
otherwise -/
def GatherLink {w : Nat} (dict : List (BitVec w)) (ri : List (BitVec 32)) (dOut : List (BitVec w))
    (v : List (BitVec w)) (d : Bool) : Prop :=
  (∀ r, allLoaded (gatherTail (memOf dict) ri) = some r → v = dOut ++ r) ∧
  d = (allLoaded (gatherTail (memOf dict) ri)).isSome

set_option hygiene false in
local macro "gather_loop_proof" l:ident ld:ident : tactic => `(tactic| (

  intro ri
  induction ri with
  | nil =>
    intro di dOut rOut fuel hf hd hr hl
    obtain ⟨f, rfl⟩ : ∃ f, fuel = f + 1 := ⟨fuel - 1, by simp at hf; omega⟩
    have hr0 : rOut = [] := by simpa using hr.symm
    subst hr0
    simp only [List.length_nil, Nat.add_zero, List.append_nil] at hl ⊢
    have hge : BitVec.slt (BitVec.ofNat 64 di.length) (BitVec.ofNat 64 di.length) = false := by
      rw [i64_slt _ _ hl hl]; simp
    simp [GatherLink, $l:ident, $ld:ident, hge, allLoaded, gatherTail]
  | cons x xs ih =>
    intro di dOut rOut fuel hf hd hr hl
    obtain ⟨f, rfl⟩ : ∃ f, fuel = f + 1 := ⟨fuel - 1, by simp at hf; omega⟩
    obtain ⟨y, ys, rfl⟩ : ∃ y ys, rOut = y :: ys := by
      cases rOut with
      | nil => simp at hr
      | cons y ys => exact ⟨y, ys, rfl⟩
    simp only [List.length_cons] at hf hl hr
    have hlt : BitVec.slt (BitVec.ofNat 64 di.length) (BitVec.ofNat 64 (di.length + (xs.length + 1))) = true := by
      rw [i64_slt _ _ (by omega) hl]; simp
    have hdi : di.length < 2 ^ 63 := by omega
    simp only [$l:ident, $ld:ident, List.length_cons, hlt, if_true, i64_toIntNat _ hdi, rd_at, inb_at, i64_msb _ hdi,
      i64_add_one, i64_sAddOk_one _ (show di.length + 1 < 2 ^ 63 by omega)]
    simp only [wr_at' _ _ _ _ _ hd, inb_at' _ _ _ _ hd]
    by_cases hx : x.toNat < dict.length
    · have h := ih (di ++ [x]) (dOut ++ [rd dict x.toNat]) ys f (by omega) (by simp [hd]) (by omega) (by simp; omega)
      simp only [List.length_append, List.length_cons, List.length_nil, List.append_assoc, List.cons_append, List.nil_append,
        Nat.zero_add] at h
      rw [show di.length + 1 + xs.length = di.length + (xs.length + 1) by omega] at h
      simp only [GatherLink, gatherTail, List.map_cons, loadZx_memOf, List.getElem?_eq_getElem hx, allLoaded] at h ⊢
      rw [inb_of_lt _ _ hx, rd_of_lt _ _ hx] at *
      cases hA : allLoaded (List.map (loadZx (memOf dict)) xs) with
      | none => simp only [hA] at h ⊢; simpa using h.2
      | some r =>
        simp only [hA] at h ⊢
        simp only [Option.map_some, Option.some.injEq, Option.isSome_some]
        exact ⟨fun r' hr' => by rw [← hr', h.1 r rfl]; simp, by simpa using h.2⟩
    · have hx' : dict.length ≤ x.toNat := by omega
      simp only [GatherLink, gatherTail, List.map_cons, loadZx_memOf, List.getElem?_eq_none hx', allLoaded,
        inb_false_of_ge _ _ hx']
      simp))

theorem gather_i32_loop (dict : List (BitVec 32)) :
    ∀ (ri di : List (BitVec 32)) (dOut rOut : List (BitVec 32)) (fuel : Nat), ri.length < fuel →
      di.length = dOut.length → ri.length = rOut.length → di.length + ri.length < 2 ^ 63 →
      GatherLink dict ri dOut
        (Gen.CFun.scalar_gather_i32_loop1 fuel dict (di ++ ri) (BitVec.ofNat 64 (di.length + ri.length)) (dOut ++ rOut)
          (BitVec.ofNat 64 di.length))
        (Gen.CFun.scalar_gather_i32_loop1_defined fuel dict (di ++ ri) (BitVec.ofNat 64 (di.length + ri.length)) (dOut ++ rOut)
          (BitVec.ofNat 64 di.length)) := by
  gather_loop_proof Gen.CFun.scalar_gather_i32_loop1 Gen.CFun.scalar_gather_i32_loop1_defined

/-- `scalar_gather_i32(dict, indices, count, output)` with `count` indices and `count` output slots: the model's result when
every index is inside the dictionary; otherwise `_defined` is false (a read outside `dict`) -/
theorem scalar_gather_i32_eq (dict : List (BitVec 32)) (idx : List (BitVec 32)) (out : List (BitVec 32))
    (ho : out.length = idx.length) (h : idx.length < 2 ^ 63) :
    (∀ r, scalarGather (memOf dict) idx = some r → Gen.CFun.scalar_gather_i32 dict idx (BitVec.ofNat 64 idx.length) out = r) ∧
    Gen.CFun.scalar_gather_i32_defined dict idx (BitVec.ofNat 64 idx.length) out = (scalarGather (memOf dict) idx).isSome := by
  have := gather_i32_loop dict idx [] [] out (idx.length + 1) (by omega) rfl ho.symm (by simpa using h)
  simpa [GatherLink, Gen.CFun.scalar_gather_i32, Gen.CFun.scalar_gather_i32_defined, scalarGather, i64_toIntNat _ h] using this

theorem gather_i64_loop (dict : List (BitVec 64)) :
    ∀ (ri di : List (BitVec 32)) (dOut rOut : List (BitVec 64)) (fuel : Nat), ri.length < fuel →
      di.length = dOut.length → ri.length = rOut.length → di.length + ri.length < 2 ^ 63 →
      GatherLink dict ri dOut
        (Gen.CFun.scalar_gather_i64_loop1 fuel dict (di ++ ri) (BitVec.ofNat 64 (di.length + ri.length)) (dOut ++ rOut)
          (BitVec.ofNat 64 di.length))
        (Gen.CFun.scalar_gather_i64_loop1_defined fuel dict (di ++ ri) (BitVec.ofNat 64 (di.length + ri.length)) (dOut ++ rOut)
          (BitVec.ofNat 64 di.length)) := by
  gather_loop_proof Gen.CFun.scalar_gather_i64_loop1 Gen.CFun.scalar_gather_i64_loop1_defined

/-- `scalar_gather_i64(dict, indices, count, output)` with `count` indices and `count` output slots: the model's result when
every index is inside the dictionary; otherwise `_defined` is false (a read outside `dict`) -/
theorem scalar_gather_i64_eq (dict : List (BitVec 64)) (idx : List (BitVec 32)) (out : List (BitVec 64))
    (ho : out.length = idx.length) (h : idx.length < 2 ^ 63) :
    (∀ r, scalarGather (memOf dict) idx = some r → Gen.CFun.scalar_gather_i64 dict idx (BitVec.ofNat 64 idx.length) out = r) ∧
    Gen.CFun.scalar_gather_i64_defined dict idx (BitVec.ofNat 64 idx.length) out = (scalarGather (memOf dict) idx).isSome := by
  have := gather_i64_loop dict idx [] [] out (idx.length + 1) (by omega) rfl ho.symm (by simpa using h)
  simpa [GatherLink, Gen.CFun.scalar_gather_i64, Gen.CFun.scalar_gather_i64_defined, scalarGather, i64_toIntNat _ h] using this

theorem gather_float_loop (dict : List (BitVec 32)) :
    ∀ (ri di : List (BitVec 32)) (dOut rOut : List (BitVec 32)) (fuel : Nat), ri.length < fuel →
      di.length = dOut.length → ri.length = rOut.length → di.length + ri.length < 2 ^ 63 →
      GatherLink dict ri dOut
        (Gen.CFun.scalar_gather_float_loop1 fuel dict (di ++ ri) (BitVec.ofNat 64 (di.length + ri.length)) (dOut ++ rOut)
          (BitVec.ofNat 64 di.length))
        (Gen.CFun.scalar_gather_float_loop1_defined fuel dict (di ++ ri) (BitVec.ofNat 64 (di.length + ri.length)) (dOut ++ rOut)
          (BitVec.ofNat 64 di.length)) := by
  gather_loop_proof Gen.CFun.scalar_gather_float_loop1 Gen.CFun.scalar_gather_float_loop1_defined

/-- `scalar_gather_float(dict, indices, count, output)` with `count` indices and `count` output slots: the model's result when
every index is inside the dictionary; otherwise `_defined` is false (a read outside `dict`) -/
theorem scalar_gather_float_eq (dict : List (BitVec 32)) (idx : List (BitVec 32)) (out : List (BitVec 32))
    (ho : out.length = idx.length) (h : idx.length < 2 ^ 63) :
    (∀ r, scalarGather (memOf dict) idx = some r → Gen.CFun.scalar_gather_float dict idx (BitVec.ofNat 64 idx.length) out = r) ∧
    Gen.CFun.scalar_gather_float_defined dict idx (BitVec.ofNat 64 idx.length) out = (scalarGather (memOf dict) idx).isSome := by
  have := gather_float_loop dict idx [] [] out (idx.length + 1) (by omega) rfl ho.symm (by simpa using h)
  simpa [GatherLink, Gen.CFun.scalar_gather_float, Gen.CFun.scalar_gather_float_defined, scalarGather, i64_toIntNat _ h] using this

theorem gather_double_loop (dict : List (BitVec 64)) :
    ∀ (ri di : List (BitVec 32)) (dOut rOut : List (BitVec 64)) (fuel : Nat), ri.length < fuel →
      di.length = dOut.length → ri.length = rOut.length → di.length + ri.length < 2 ^ 63 →
      GatherLink dict ri dOut
        (Gen.CFun.scalar_gather_double_loop1 fuel dict (di ++ ri) (BitVec.ofNat 64 (di.length + ri.length)) (dOut ++ rOut)
          (BitVec.ofNat 64 di.length))
        (Gen.CFun.scalar_gather_double_loop1_defined fuel dict (di ++ ri) (BitVec.ofNat 64 (di.length + ri.length)) (dOut ++ rOut)
          (BitVec.ofNat 64 di.length)) := by
  gather_loop_proof Gen.CFun.scalar_gather_double_loop1 Gen.CFun.scalar_gather_double_loop1_defined

/-- `scalar_gather_double(dict, indices, count, output)` with `count` indices and `count` output slots: the model's result when
every index is inside the dictionary; otherwise `_defined` is false (a read outside `dict`) -/
theorem scalar_gather_double_eq (dict : List (BitVec 64)) (idx : List (BitVec 32)) (out : List (BitVec 64))
    (ho : out.length = idx.length) (h : idx.length < 2 ^ 63) :
    (∀ r, scalarGather (memOf dict) idx = some r → Gen.CFun.scalar_gather_double dict idx (BitVec.ofNat 64 idx.length) out = r) ∧
    Gen.CFun.scalar_gather_double_defined dict idx (BitVec.ofNat 64 idx.length) out = (scalarGather (memOf dict) idx).isSome := by
  have := gather_double_loop dict idx [] [] out (idx.length + 1) (by omega) rfl ho.symm (by simpa using h)
  simpa [GatherLink, Gen.CFun.scalar_gather_double, Gen.CFun.scalar_gather_double_defined, scalarGather, i64_toIntNat _ h] using this

end Carquet.Proofs.CFunB
