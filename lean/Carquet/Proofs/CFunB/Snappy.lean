import Carquet.Proofs.CFunB.Basic
import Carquet.Gen.CFun
import Carquet.Impl.Snappy
/-
The encoder helpers of src/compression/snappy.c as translated from the current C source: `snappy_write_varint` (the stream
header), `snappy_emit_literal` (tag byte, 0..4 length bytes, `memcpy` of the literal; pointer result), `snappy_emit_copy`
(64-byte copies while `len >= 68`, one 60-byte copy, the final 1- or 2-byte-offset element; pointer result), `snappy_read32`,
against Impl.Snappy.writeVarint / literalHeader / copyBytes.
-/
namespace Carquet.Proofs.CFunB
open Carquet Carquet.Impl Carquet.Impl.CSem Carquet.Proofs.CFun2

theorem ofInt_off (k : Nat) : BitVec.ofInt 64 (Int.ofNat k - Int.ofNat 0) = BitVec.ofNat 64 k := by
  have : Int.ofNat k - Int.ofNat 0 = (k : Int) := by simp
  rw [this]; rfl

theorem byte_of_trunc {w : Nat} (x : BitVec w) : UInt8.ofBitVec (BitVec.setWidth 8 x) = UInt8.ofNat x.toNat := by
  apply UInt8.eq_of_toBitVec_eq
  apply BitVec.eq_of_toNat_eq
  simp [BitVec.toNat_setWidth]

theorem or128 : ∀ r : Fin 256, (r.val ||| 128) = r.val % 128 + 128 := by decide +kernel

theorem ofNat8_congr (a b : Nat) (h : a % 256 = b % 256) : UInt8.ofNat a = UInt8.ofNat b := by
  apply UInt8.toNat_inj.mp
  simp [h]

theorem cont_byte (x : BitVec 32) : UInt8.ofBitVec (BitVec.setWidth 8 (x ||| 128#32)) = UInt8.ofNat (x.toNat % 128 + 128) := by
  rw [byte_of_trunc, BitVec.toNat_or, show (128#32 : BitVec 32).toNat = 128 from rfl]
  apply ofNat8_congr
  rw [show (256 : Nat) = 2 ^ 8 from rfl, Nat.or_mod_two_pow]
  have h := or128 ⟨x.toNat % 256, Nat.mod_lt _ (by omega)⟩
  simp only at h
  rw [show (2 : Nat) ^ 8 = 256 from rfl, show 128 % 256 = 128 from rfl, h]
  omega

/-! ### snappy_write_varint -/

theorem write_varint_loop :
    ∀ (k : Nat) (v : BitVec 32) (pre rest : List UInt8) (fuel : Nat), v.toNat < 2 ^ (7 * (k + 1)) → k < fuel →
      (Snappy.writeVarint k v.toNat).length ≤ rest.length →
      Gen.CFun.snappy_write_varint_loop1 fuel (pre ++ rest) pre.length v =
        (BitVec.ofNat 64 (pre.length + (Snappy.writeVarint k v.toNat).length),
         pre ++ Snappy.writeVarint k v.toNat ++ rest.drop (Snappy.writeVarint k v.toNat).length) ∧
      Gen.CFun.snappy_write_varint_loop1_defined fuel (pre ++ rest) pre.length v = true := by
  intro k
  induction k with
  | zero =>
    intro v pre rest fuel hv hf hl
    obtain ⟨f, rfl⟩ : ∃ f, fuel = f + 1 := ⟨fuel - 1, by omega⟩
    obtain ⟨r0, rest', rfl⟩ : ∃ r0 rest', rest = r0 :: rest' := by
      cases rest with
      | nil => simp [Snappy.writeVarint] at hl
      | cons a b => exact ⟨a, b, rfl⟩
    have hc : decide (128#32 ≤ v) = false := by
      simp only [decide_eq_false_iff_not, BitVec.le_def, show (128#32 : BitVec 32).toNat = 128 from rfl]; omega
    simp only [Gen.CFun.snappy_write_varint_loop1, Gen.CFun.snappy_write_varint_loop1_defined, hc, Bool.false_eq_true, if_false,
      wr8_at, inb_at, ofInt_off, byte_of_trunc, Snappy.writeVarint, List.length_singleton]
    simp
  | succ k ih =>
    intro v pre rest fuel hv hf hl
    obtain ⟨f, rfl⟩ : ∃ f, fuel = f + 1 := ⟨fuel - 1, by omega⟩
    obtain ⟨r0, rest', rfl⟩ : ∃ r0 rest', rest = r0 :: rest' := by
      cases rest with
      | nil => rw [Snappy.writeVarint] at hl; split at hl <;> simp at hl
      | cons a b => exact ⟨a, b, rfl⟩
    by_cases h128 : 128 ≤ v.toNat
    · have hc : decide (128#32 ≤ v) = true := by
        simp only [decide_eq_true_eq, BitVec.le_def, show (128#32 : BitVec 32).toNat = 128 from rfl]; exact h128
      have hv7 : (v >>> 7).toNat = v.toNat / 128 := by simp [BitVec.toNat_ushiftRight, Nat.shiftRight_eq_div_pow]
      have hlt : v.toNat / 128 < 2 ^ (7 * (k + 1)) := by
        have : 2 ^ (7 * (k + 1 + 1)) = 2 ^ (7 * (k + 1)) * 128 := by
          rw [show 7 * (k + 1 + 1) = 7 * (k + 1) + 7 by omega, Nat.pow_add]
        omega
      rw [Snappy.writeVarint, if_pos h128] at hl ⊢
      simp only [List.length_cons] at hl
      have hnext := ih (v >>> 7) (pre ++ [UInt8.ofNat (v.toNat % 128 + 128)]) rest' f (by rw [hv7]; exact hlt) (by omega)
        (by rw [hv7]; omega)
      simp only [List.length_append, List.length_singleton, List.append_assoc, List.singleton_append, hv7] at hnext
      simp only [Gen.CFun.snappy_write_varint_loop1, Gen.CFun.snappy_write_varint_loop1_defined, hc, if_true, wr8_at, inb_at,
        cont_byte, List.length_cons, List.drop_succ_cons, Bool.true_and]
      refine ⟨?_, hnext.2⟩
      rw [hnext.1]
      simp [Nat.add_assoc, Nat.add_comm 1]
    · have hc : decide (128#32 ≤ v) = false := by
        simp only [decide_eq_false_iff_not, BitVec.le_def, show (128#32 : BitVec 32).toNat = 128 from rfl]; exact h128
      rw [Snappy.writeVarint, if_neg h128] at hl ⊢
      simp only [Gen.CFun.snappy_write_varint_loop1, Gen.CFun.snappy_write_varint_loop1_defined, hc, Bool.false_eq_true, if_false,
        wr8_at, inb_at, ofInt_off, byte_of_trunc, List.length_singleton]
      simp

/-- `snappy_write_varint(p, value)` on a buffer that has room for the encoding -/
theorem snappy_write_varint_eq (p : List UInt8) (v : BitVec 32) (h : (Snappy.writeVarint 4 v.toNat).length ≤ p.length) :
    Gen.CFun.snappy_write_varint p v =
      (BitVec.ofNat 64 (Snappy.writeVarint 4 v.toNat).length,
       Snappy.writeVarint 4 v.toNat ++ p.drop (Snappy.writeVarint 4 v.toNat).length) ∧
    Gen.CFun.snappy_write_varint_defined p v = true := by
  have := write_varint_loop 4 v [] p 6 (by have := v.isLt; omega) (by omega) h
  simpa [Gen.CFun.snappy_write_varint, Gen.CFun.snappy_write_varint_defined] using this

/-! ### snappy_emit_literal -/

theorem wr8_zero (x : UInt8) (xs : List UInt8) (v : BitVec 8) : wr8 (x :: xs) 0 v = UInt8.ofBitVec v :: xs := by simp [wr8]
theorem wr8_succ (x : UInt8) (xs : List UInt8) (i : Nat) (v : BitVec 8) : wr8 (x :: xs) (i + 1) v = x :: wr8 xs i v := by
  simp [wr8]
theorem wr8_length (a : List UInt8) (i : Nat) (v : BitVec 8) : (wr8 a i v).length = a.length := by simp [wr8]

theorem blit_at (h t src : List UInt8) (n : Nat) :
    blit (h ++ t) h.length src 0 n = h ++ src.take n ++ t.drop n := by
  simp [blit, List.drop_append]

theorem u64_and255 (k : Nat) : UInt8.ofBitVec (BitVec.setWidth 8 (BitVec.ofNat 64 k &&& 255#64)) = UInt8.ofNat (k % 256) := by
  rw [byte_of_trunc]
  apply ofNat8_congr
  simp only [BitVec.toNat_and, BitVec.toNat_ofNat, show (255 : Nat) % 2 ^ 64 = 2 ^ 8 - 1 from rfl, Nat.and_two_pow_sub_one_eq_mod]
  omega

theorem u64_shr (k s : Nat) (hk : k < 2 ^ 64) : BitVec.ofNat 64 k >>> s = BitVec.ofNat 64 (k / 2 ^ s) := by
  apply BitVec.eq_of_toNat_eq
  have : k / 2 ^ s < 2 ^ 64 := Nat.lt_of_le_of_lt (Nat.div_le_self _ _) hk
  simp only [BitVec.toNat_ushiftRight, BitVec.toNat_ofNat, Nat.shiftRight_eq_div_pow, Nat.mod_eq_of_lt hk, Nat.mod_eq_of_lt this]

theorem u64_trunc8 (k : Nat) : UInt8.ofBitVec (BitVec.setWidth 8 (BitVec.ofNat 64 k)) = UInt8.ofNat k := by
  rw [byte_of_trunc]
  apply ofNat8_congr
  simp only [BitVec.toNat_ofNat]; omega

theorem exists_cons {α : Type} (l : List α) (h : 0 < l.length) : ∃ x t, l = x :: t := by
  cases l with
  | nil => simp at h
  | cons x t => exact ⟨x, t, rfl⟩

theorem blit_hdr (hdr t lit : List UInt8) (n k : Nat) (hk : k = hdr.length) :
    blit (hdr ++ t) k lit 0 n = hdr ++ lit.take n ++ t.drop n := by subst hk; exact blit_at hdr t lit n

/-- `snappy_emit_literal(op, literal, len)` for `len > 0` on an output that has room for header and literal: the offset of the
returned pointer and the buffer afterwards -/
theorem snappy_emit_literal_eq (op lit : List UInt8) (len : Nat) (h0 : 0 < len) (hl : len < 2 ^ 64) (hlit : len ≤ lit.length)
    (hop : (Snappy.literalHeader len).length + len ≤ op.length) :
    Gen.CFun.snappy_emit_literal op lit (BitVec.ofNat 64 len) =
      ((Snappy.literalHeader len).length + len,
       Snappy.literalHeader len ++ lit.take len ++ op.drop ((Snappy.literalHeader len).length + len)) ∧
    Gen.CFun.snappy_emit_literal_defined op lit (BitVec.ofNat 64 len) = true := by
  have hsub : BitVec.ofNat 64 len - 1#64 = BitVec.ofNat 64 (len - 1) := u64_sub len 1 (by omega) hl
  have hle : ∀ c : Nat, c < 2 ^ 64 → decide (BitVec.ofNat 64 len ≤ BitVec.ofNat 64 c) = decide (len ≤ c) :=
    fun c hc => u64_le len c hl hc
  have hlitb : inb lit 0 len = true := by simp [inb]; omega
  have hlen : (BitVec.ofNat 64 len).toNat = len := u64_toNat len hl
  have hlm : len - 1 < 2 ^ 64 := by omega
  unfold Snappy.literalHeader at hop ⊢
  by_cases c1 : len ≤ 60
  · rw [if_pos c1] at hop ⊢
    obtain ⟨o0, t0, rfl⟩ := exists_cons op (by simp at hop; omega)
    have hb : UInt8.ofBitVec (BitVec.setWidth 8 (BitVec.ofNat 64 (len - 1) <<< 2)) = UInt8.ofNat ((len - 1) * 4) := by
      rw [byte_of_trunc]; apply ofNat8_congr
      simp only [BitVec.toNat_shiftLeft, BitVec.toNat_ofNat, Nat.shiftLeft_eq]; omega
    simp only [Gen.CFun.snappy_emit_literal, Gen.CFun.snappy_emit_literal_defined, Gen.CFun.snappy_emit_literal_v7,
      Gen.CFun.snappy_emit_literal_v6, hle 60 (by omega), c1, decide_true, if_true, hsub, wr8_zero, hb, hlen, hlitb]
    simp only [List.length_cons] at hop
    have := blit_hdr [UInt8.ofNat ((len - 1) * 4)] t0 lit len 1 rfl
    simp only [List.singleton_append] at this
    rw [this]
    exact ⟨by simp [Nat.add_comm], by simp [inb]; omega⟩
  · rw [if_neg c1] at hop ⊢
    have d1 : decide (len ≤ 60) = false := by simpa using c1
    by_cases c2 : len ≤ 256
    · rw [if_pos c2] at hop ⊢
      obtain ⟨o0, t0, rfl⟩ := exists_cons op (by simp at hop; omega)
      obtain ⟨o1, t1, rfl⟩ := exists_cons t0 (by simp at hop; omega)
      simp only [Gen.CFun.snappy_emit_literal, Gen.CFun.snappy_emit_literal_defined, Gen.CFun.snappy_emit_literal_v7,
        Gen.CFun.snappy_emit_literal_v6, Gen.CFun.snappy_emit_literal_v5, Gen.CFun.snappy_emit_literal_v4,
        hle 60 (by omega), hle 256 (by omega), d1, c2, decide_true, if_true, Bool.false_eq_true, if_false, hsub, wr8_zero, wr8_succ,
        u64_trunc8, hlen, hlitb, show UInt8.ofBitVec (BitVec.setWidth 8 (60#32 <<< 2)) = UInt8.ofNat (60 * 4) from by decide,
        show sShlOk 60#32 2 = true from by decide]
      simp only [List.length_cons] at hop
      have := blit_hdr [UInt8.ofNat (60 * 4), UInt8.ofNat (len - 1)] t1 lit len 2 rfl
      simp only [List.cons_append, List.nil_append] at this
      rw [this]
      exact ⟨by simp [Nat.add_comm], by simp [inb]; omega⟩
    · rw [if_neg c2] at hop ⊢
      have d2 : decide (len ≤ 256) = false := by simpa using c2
      by_cases c3 : len ≤ 65536
      · rw [if_pos c3] at hop ⊢
        obtain ⟨o0, t0, rfl⟩ := exists_cons op (by simp at hop; omega)
        obtain ⟨o1, t1, rfl⟩ := exists_cons t0 (by simp at hop; omega)
        obtain ⟨o2, t2, rfl⟩ := exists_cons t1 (by simp at hop; omega)
        simp only [Gen.CFun.snappy_emit_literal, Gen.CFun.snappy_emit_literal_defined, Gen.CFun.snappy_emit_literal_v7,
          Gen.CFun.snappy_emit_literal_v6, Gen.CFun.snappy_emit_literal_v5, Gen.CFun.snappy_emit_literal_v4,
          Gen.CFun.snappy_emit_literal_v3, Gen.CFun.snappy_emit_literal_v2,
          hle 60 (by omega), hle 256 (by omega), hle 65536 (by omega), d1, d2, c3, decide_true, if_true, Bool.false_eq_true, if_false,
          hsub, wr8_zero, wr8_succ, u64_trunc8, u64_and255, u64_shr _ 8 hlm, hlen, hlitb,
          show UInt8.ofBitVec (BitVec.setWidth 8 (61#32 <<< 2)) = UInt8.ofNat (61 * 4) from by decide,
          show sShlOk 61#32 2 = true from by decide]
        simp only [List.length_cons] at hop
        have := blit_hdr [UInt8.ofNat (61 * 4), UInt8.ofNat ((len - 1) % 256), UInt8.ofNat ((len - 1) / 256)] t2 lit len 3 rfl
        simp only [List.cons_append, List.nil_append] at this
        rw [show (2 : Nat) ^ 8 = 256 from rfl, this]
        exact ⟨by simp [Nat.add_comm], by simp [inb]; omega⟩
      · rw [if_neg c3] at hop ⊢
        have d3 : decide (len ≤ 65536) = false := by simpa using c3
        have hs8 : (len - 1) / 2 ^ 8 < 2 ^ 64 := Nat.lt_of_le_of_lt (Nat.div_le_self _ _) hlm
        by_cases c4 : len ≤ 16777216
        · rw [if_pos c4] at hop ⊢
          obtain ⟨o0, t0, rfl⟩ := exists_cons op (by simp at hop; omega)
          obtain ⟨o1, t1, rfl⟩ := exists_cons t0 (by simp at hop; omega)
          obtain ⟨o2, t2, rfl⟩ := exists_cons t1 (by simp at hop; omega)
          obtain ⟨o3, t3, rfl⟩ := exists_cons t2 (by simp at hop; omega)
          simp only [Gen.CFun.snappy_emit_literal, Gen.CFun.snappy_emit_literal_defined, Gen.CFun.snappy_emit_literal_v7,
            Gen.CFun.snappy_emit_literal_v6, Gen.CFun.snappy_emit_literal_v5, Gen.CFun.snappy_emit_literal_v4,
            Gen.CFun.snappy_emit_literal_v3, Gen.CFun.snappy_emit_literal_v2, Gen.CFun.snappy_emit_literal_v1,
            hle 60 (by omega), hle 256 (by omega), hle 65536 (by omega), hle 16777216 (by omega), d1, d2, d3, c4, decide_true, if_true,
            Bool.false_eq_true, if_false,
            hsub, wr8_zero, wr8_succ, u64_and255, u64_shr _ 8 hlm, u64_shr _ 16 hlm, hlen, hlitb,
            show UInt8.ofBitVec (BitVec.setWidth 8 (62#32 <<< 2)) = UInt8.ofNat (62 * 4) from by decide,
            show sShlOk 62#32 2 = true from by decide]
          simp only [List.length_cons] at hop
          have := blit_hdr [UInt8.ofNat (62 * 4), UInt8.ofNat ((len - 1) % 256), UInt8.ofNat ((len - 1) / 256 % 256),
            UInt8.ofNat ((len - 1) / 65536 % 256)] t3 lit len 4 rfl
          simp only [List.cons_append, List.nil_append] at this
          rw [show (2 : Nat) ^ 8 = 256 from rfl, show (2 : Nat) ^ 16 = 65536 from rfl, this]
          exact ⟨by simp [Nat.add_comm], by simp [inb]; omega⟩
        · rw [if_neg c4] at hop ⊢
          have d4 : decide (len ≤ 16777216) = false := by simpa using c4
          obtain ⟨o0, t0, rfl⟩ := exists_cons op (by simp at hop; omega)
          obtain ⟨o1, t1, rfl⟩ := exists_cons t0 (by simp at hop; omega)
          obtain ⟨o2, t2, rfl⟩ := exists_cons t1 (by simp at hop; omega)
          obtain ⟨o3, t3, rfl⟩ := exists_cons t2 (by simp at hop; omega)
          obtain ⟨o4, t4, rfl⟩ := exists_cons t3 (by simp at hop; omega)
          simp only [Gen.CFun.snappy_emit_literal, Gen.CFun.snappy_emit_literal_defined, Gen.CFun.snappy_emit_literal_v7,
            Gen.CFun.snappy_emit_literal_v6, Gen.CFun.snappy_emit_literal_v5, Gen.CFun.snappy_emit_literal_v4,
            Gen.CFun.snappy_emit_literal_v3, Gen.CFun.snappy_emit_literal_v2, Gen.CFun.snappy_emit_literal_v1,
            hle 60 (by omega), hle 256 (by omega), hle 65536 (by omega), hle 16777216 (by omega), d1, d2, d3, d4, decide_true, if_true,
            Bool.false_eq_true, if_false,
            hsub, wr8_zero, wr8_succ, u64_and255, u64_shr _ 8 hlm, u64_shr _ 16 hlm, u64_shr _ 24 hlm, hlen, hlitb,
            show UInt8.ofBitVec (BitVec.setWidth 8 (63#32 <<< 2)) = UInt8.ofNat (63 * 4) from by decide,
            show sShlOk 63#32 2 = true from by decide]
          simp only [List.length_cons] at hop
          have := blit_hdr [UInt8.ofNat (63 * 4), UInt8.ofNat ((len - 1) % 256), UInt8.ofNat ((len - 1) / 256 % 256),
            UInt8.ofNat ((len - 1) / 65536 % 256), UInt8.ofNat ((len - 1) / 16777216 % 256)] t4 lit len 5 rfl
          simp only [List.cons_append, List.nil_append] at this
          rw [show (2 : Nat) ^ 8 = 256 from rfl, show (2 : Nat) ^ 16 = 65536 from rfl, show (2 : Nat) ^ 24 = 16777216 from rfl, this]
          exact ⟨by simp [Nat.add_comm], by simp [inb]; omega⟩

/-! ### snappy_emit_copy -/

theorem wr8_app (pre t : List UInt8) (j : Nat) (v : BitVec 8) : wr8 (pre ++ t) (pre.length + j) v = pre ++ wr8 t j v := by
  simp [wr8]

theorem wr8_app0 (pre t : List UInt8) (v : BitVec 8) : wr8 (pre ++ t) pre.length v = pre ++ wr8 t 0 v := by
  simpa using wr8_app pre t 0 v

theorem inb_app (pre t : List UInt8) (j : Nat) : inb (pre ++ t) (pre.length + j) 1 = decide (j < t.length) := by
  simp [inb]; omega

theorem inb_app0 (pre t : List UInt8) : inb (pre ++ t) pre.length 1 = decide (0 < t.length) := by
  simpa using inb_app pre t 0

theorem or2 (m : Nat) : (m * 4 ||| 2) = m * 4 + 2 := by
  have := Nat.shiftLeft_add_eq_or_of_lt (show 2 < 2 ^ 2 by omega) m
  simp only [Nat.shiftLeft_eq, show (2 : Nat) ^ 2 = 4 from rfl] at this
  exact this.symm

theorem or1_4 : ∀ m : Fin 8, (m.val * 4 ||| 1) = m.val * 4 + 1 := by decide

theorem or_tag1 (q m : Nat) (hm : m < 8) : (q * 32 ||| m * 4 ||| 1) = q * 32 + m * 4 + 1 := by
  have h1 := or1_4 ⟨m, hm⟩
  simp only at h1
  rw [Nat.or_assoc, h1]
  have := Nat.shiftLeft_add_eq_or_of_lt (show m * 4 + 1 < 2 ^ 5 by omega) q
  simp only [Nat.shiftLeft_eq, show (2 : Nat) ^ 5 = 32 from rfl] at this
  rw [← this]; omega

/-- tag byte of a COPY_2 element -/
theorem tag2_byte (l : Nat) (hl : 1 ≤ l) (hl2 : l < 2 ^ 61) :
    UInt8.ofBitVec (BitVec.setWidth 8 (((BitVec.ofNat 64 l - 1#64) <<< 2) ||| 2#64)) = UInt8.ofNat ((l - 1) * 4 + 2) := by
  rw [u64_sub l 1 hl (by omega), byte_of_trunc]
  apply ofNat8_congr
  simp only [BitVec.toNat_or, BitVec.toNat_shiftLeft, BitVec.toNat_ofNat, Nat.shiftLeft_eq]
  rw [Nat.mod_eq_of_lt (show l - 1 < 2 ^ 64 by omega), Nat.mod_eq_of_lt (show (l - 1) * 2 ^ 2 < 2 ^ 64 by omega),
    show (2 : Nat) % 2 ^ 64 = 2 from rfl, show (2 : Nat) ^ 2 = 4 from rfl, or2]

/-- tag byte of a COPY_1 element -/
theorem tag1_byte (off l : Nat) (hoff : off < 2 ^ 64) (hl : 4 ≤ l) (hl2 : l < 12) :
    UInt8.ofBitVec (BitVec.setWidth 8 ((((BitVec.ofNat 64 off >>> 8) <<< 5) ||| ((BitVec.ofNat 64 l - 4#64) <<< 2)) ||| 1#64)) =
      UInt8.ofNat (off / 256 * 32 + (l - 4) * 4 + 1) := by
  rw [show (4#64 : BitVec 64) = BitVec.ofNat 64 4 from rfl, u64_sub l 4 hl (by omega), u64_shr off 8 hoff, byte_of_trunc]
  apply ofNat8_congr
  have h1 : off / 2 ^ 8 < 2 ^ 56 := by
    rw [Nat.div_lt_iff_lt_mul (by omega)]; omega
  simp only [BitVec.toNat_or, BitVec.toNat_shiftLeft, BitVec.toNat_ofNat, Nat.shiftLeft_eq]
  rw [Nat.mod_eq_of_lt (show off / 2 ^ 8 < 2 ^ 64 by omega), Nat.mod_eq_of_lt (show off / 2 ^ 8 * 2 ^ 5 < 2 ^ 64 by omega),
    Nat.mod_eq_of_lt (show l - 4 < 2 ^ 64 by omega), Nat.mod_eq_of_lt (show (l - 4) * 2 ^ 2 < 2 ^ 64 by omega),
    show (1 : Nat) % 2 ^ 64 = 1 from rfl, show (2 : Nat) ^ 5 = 32 from rfl, show (2 : Nat) ^ 2 = 4 from rfl,
    show (2 : Nat) ^ 8 = 256 from rfl, or_tag1 _ _ (show l - 4 < 8 by omega)]

theorem off_hi (off : Nat) (hoff : off < 2 ^ 64) :
    UInt8.ofBitVec (BitVec.setWidth 8 (BitVec.ofNat 64 off >>> 8)) = UInt8.ofNat (off / 256) := by
  rw [u64_shr off 8 hoff, u64_trunc8]

theorem copyTail_length (off l : Nat) : 2 ≤ (Snappy.copyTail off l).length ∧ (Snappy.copyTail off l).length ≤ 3 := by
  unfold Snappy.copyTail; split <;> simp [Snappy.copy2Bytes, Snappy.copy1Bytes]

theorem inb_wr8 (a : List UInt8) (i j n : Nat) (v : BitVec 8) : inb (wr8 a i v) j n = inb a j n := by simp [inb, wr8]

theorem copyBytes_ge (off : Nat) : ∀ len, 2 ≤ (Snappy.copyBytes off len).length := by
  intro len
  induction len using Nat.strongRecOn with
  | _ len ih =>
    rw [Snappy.copyBytes]
    split
    · simp [Snappy.copy2Bytes]
    · split
      · simp [Snappy.copy2Bytes]
      · exact (copyTail_length off len).1

theorem emit_copy_loop (off : Nat) (hoff : off < 2 ^ 64) :
    ∀ (fuel len : Nat) (pre rest : List UInt8), 4 ≤ len → len < 2 ^ 61 → len / 64 < fuel →
      (Snappy.copyBytes off len).length ≤ rest.length →
      Gen.CFun.snappy_emit_copy_loop1 fuel (pre ++ rest) pre.length (BitVec.ofNat 64 off) (BitVec.ofNat 64 len) =
        (pre.length + (Snappy.copyBytes off len).length,
         pre ++ Snappy.copyBytes off len ++ rest.drop (Snappy.copyBytes off len).length) ∧
      Gen.CFun.snappy_emit_copy_loop1_defined fuel (pre ++ rest) pre.length (BitVec.ofNat 64 off) (BitVec.ofNat 64 len) = true := by
  intro fuel
  induction fuel with
  | zero => intro len pre rest _ _ hf; omega
  | succ f ih =>
    intro len pre rest h4 hl hf hr
    have h68 : decide (68#64 ≤ BitVec.ofNat 64 len) = decide (68 ≤ len) := u64_le 68 len (by omega) (by omega)
    have h64 : decide (64#64 < BitVec.ofNat 64 len) = decide (64 < len) := u64_lt 64 len (by omega) (by omega)
    rw [Snappy.copyBytes] at hr ⊢
    by_cases c68 : 68 ≤ len
    · rw [if_pos c68] at hr ⊢
      have hge := copyBytes_ge off (len - 64)
      simp only [Snappy.copy2Bytes, List.length_append, List.length_cons, List.length_nil] at hr
      obtain ⟨r0, t0, rfl⟩ := exists_cons rest (by omega)
      obtain ⟨r1, t1, rfl⟩ := exists_cons t0 (by simp at hr; omega)
      obtain ⟨r2, t2, rfl⟩ := exists_cons t1 (by simp at hr; omega)
      have hnext := ih (len - 64) (pre ++ [UInt8.ofNat ((64 - 1) * 4 + 2), UInt8.ofNat (off % 256), UInt8.ofNat (off / 256)]) t2
        (by omega) (by omega) (by omega) (by simp at hr; omega)
      simp only [List.length_append, List.length_cons, List.length_nil, List.append_assoc, List.cons_append, List.nil_append] at hnext
      simp only [Gen.CFun.snappy_emit_copy_loop1, Gen.CFun.snappy_emit_copy_loop1_defined, h68, c68, decide_true, if_true,
        wr8_app0, wr8_app, wr8_zero, wr8_succ, inb_wr8, inb_app0, inb_app, u64_and255, off_hi off hoff,
        show UInt8.ofBitVec (BitVec.setWidth 8 ((63#32 <<< 2) ||| 2#32)) = UInt8.ofNat ((64 - 1) * 4 + 2) from by decide,
        show sShlOk 63#32 2 = true from by decide,
        u64_sub len 64 (by omega) (by omega), Snappy.copy2Bytes,
        List.length_cons, List.length_append, List.length_nil]
      refine ⟨?_, by simpa using hnext.2⟩
      rw [hnext.1]
      simp [Nat.add_assoc, Nat.add_comm 3]
    · rw [if_neg c68] at hr ⊢
      have d68 : decide (68 ≤ len) = false := by simpa using c68
      have h12 : ∀ l : Nat, l < 2 ^ 64 → decide (12#64 ≤ BitVec.ofNat 64 l) = decide (12 ≤ l) :=
        fun l hl' => u64_le 12 l (by omega) hl'
      have h2048 : decide (2048#64 ≤ BitVec.ofNat 64 off) = decide (2048 ≤ off) := u64_le 2048 off (by omega) hoff
      by_cases c64 : 64 < len
      · rw [if_pos c64] at hr ⊢
        unfold Snappy.copyTail at hr ⊢
        by_cases c : 12 ≤ len - 60 ∨ 2048 ≤ off
        · have hc : (decide (12 ≤ len - 60) || decide (2048 ≤ off)) = true := by simpa using c
          rw [if_pos c] at hr ⊢
          simp only [Snappy.copy2Bytes, List.length_append, List.length_cons, List.length_nil] at hr
          obtain ⟨r0, t0, rfl⟩ := exists_cons rest (by omega)
          obtain ⟨r1, t1, rfl⟩ := exists_cons t0 (by simp at hr; omega)
          obtain ⟨r2, t2, rfl⟩ := exists_cons t1 (by simp at hr; omega)
          obtain ⟨r3, t3, rfl⟩ := exists_cons t2 (by simp at hr; omega)
          obtain ⟨r4, t4, rfl⟩ := exists_cons t3 (by simp at hr; omega)
          obtain ⟨r5, t5, rfl⟩ := exists_cons t4 (by simp at hr; omega)
          simp only [Gen.CFun.snappy_emit_copy_loop1, Gen.CFun.snappy_emit_copy_loop1_defined, Gen.CFun.snappy_emit_copy_v3,
            Gen.CFun.snappy_emit_copy_v2, Gen.CFun.snappy_emit_copy_v1, h68, d68, h64, c64, decide_true, if_true, Bool.false_eq_true,
            if_false, u64_sub len 60 (by omega) (by omega), h12 (len - 60) (by omega), h2048, hc,
            Nat.add_assoc, wr8_app0, wr8_app, wr8_zero, wr8_succ, inb_wr8, inb_app0, inb_app, u64_and255, off_hi off hoff,
            tag2_byte (len - 60) (by omega) (by omega),
            show UInt8.ofBitVec (BitVec.setWidth 8 ((59#32 <<< 2) ||| 2#32)) = UInt8.ofNat ((60 - 1) * 4 + 2) from by decide,
            show sShlOk 59#32 2 = true from by decide, Snappy.copy2Bytes]
          simp
        · have hc : (decide (12 ≤ len - 60) || decide (2048 ≤ off)) = false := by
            simp only [Bool.or_eq_false_iff, decide_eq_false_iff_not]; omega
          rw [if_neg c] at hr ⊢
          simp only [Snappy.copy2Bytes, Snappy.copy1Bytes, List.length_append, List.length_cons, List.length_nil] at hr
          obtain ⟨r0, t0, rfl⟩ := exists_cons rest (by omega)
          obtain ⟨r1, t1, rfl⟩ := exists_cons t0 (by simp at hr; omega)
          obtain ⟨r2, t2, rfl⟩ := exists_cons t1 (by simp at hr; omega)
          obtain ⟨r3, t3, rfl⟩ := exists_cons t2 (by simp at hr; omega)
          obtain ⟨r4, t4, rfl⟩ := exists_cons t3 (by simp at hr; omega)
          simp only [Gen.CFun.snappy_emit_copy_loop1, Gen.CFun.snappy_emit_copy_loop1_defined, Gen.CFun.snappy_emit_copy_v3,
            Gen.CFun.snappy_emit_copy_v2, Gen.CFun.snappy_emit_copy_v1, h68, d68, h64, c64, decide_true, if_true, Bool.false_eq_true,
            if_false, u64_sub len 60 (by omega) (by omega), h12 (len - 60) (by omega), h2048, hc,
            Nat.add_assoc, wr8_app0, wr8_app, wr8_zero, wr8_succ, inb_wr8, inb_app0, inb_app, u64_and255, off_hi off hoff,
            tag1_byte off (len - 60) hoff (by omega) (by omega),
            show UInt8.ofBitVec (BitVec.setWidth 8 ((59#32 <<< 2) ||| 2#32)) = UInt8.ofNat ((60 - 1) * 4 + 2) from by decide,
            show sShlOk 59#32 2 = true from by decide, Snappy.copy2Bytes, Snappy.copy1Bytes]
          simp
      · rw [if_neg c64] at hr ⊢
        have d64 : decide (64 < len) = false := by simpa using c64
        unfold Snappy.copyTail at hr ⊢
        by_cases c : 12 ≤ len ∨ 2048 ≤ off
        · have hc : (decide (12 ≤ len) || decide (2048 ≤ off)) = true := by simpa using c
          rw [if_pos c] at hr ⊢
          simp only [Snappy.copy2Bytes, List.length_cons, List.length_nil] at hr
          obtain ⟨r0, t0, rfl⟩ := exists_cons rest (by omega)
          obtain ⟨r1, t1, rfl⟩ := exists_cons t0 (by simp at hr; omega)
          obtain ⟨r2, t2, rfl⟩ := exists_cons t1 (by simp at hr; omega)
          simp only [Gen.CFun.snappy_emit_copy_loop1, Gen.CFun.snappy_emit_copy_loop1_defined, Gen.CFun.snappy_emit_copy_v3,
            Gen.CFun.snappy_emit_copy_v2, Gen.CFun.snappy_emit_copy_v1, h68, d68, h64, d64, Bool.false_eq_true,
            if_false, h12 len (by omega), h2048, hc, if_true,
            Nat.add_assoc, wr8_app0, wr8_app, wr8_zero, wr8_succ, inb_wr8, inb_app0, inb_app, u64_and255, off_hi off hoff,
            tag2_byte len (by omega) (by omega), Snappy.copy2Bytes]
          simp
        · have hc : (decide (12 ≤ len) || decide (2048 ≤ off)) = false := by
            simp only [Bool.or_eq_false_iff, decide_eq_false_iff_not]; omega
          rw [if_neg c] at hr ⊢
          simp only [Snappy.copy1Bytes, List.length_cons, List.length_nil] at hr
          obtain ⟨r0, t0, rfl⟩ := exists_cons rest (by omega)
          obtain ⟨r1, t1, rfl⟩ := exists_cons t0 (by simp at hr; omega)
          simp only [Gen.CFun.snappy_emit_copy_loop1, Gen.CFun.snappy_emit_copy_loop1_defined, Gen.CFun.snappy_emit_copy_v3,
            Gen.CFun.snappy_emit_copy_v2, Gen.CFun.snappy_emit_copy_v1, h68, d68, h64, d64, Bool.false_eq_true,
            if_false, h12 len (by omega), h2048, hc,
            Nat.add_assoc, wr8_app0, wr8_app, wr8_zero, wr8_succ, inb_wr8, inb_app0, inb_app, u64_and255, off_hi off hoff,
            tag1_byte off len hoff (by omega) (by omega), Snappy.copy1Bytes]
          simp

/-- `snappy_emit_copy(op, offset, len)` for `len >= 4` on an output that has room for the elements -/
theorem snappy_emit_copy_eq (op : List UInt8) (off len : Nat) (hoff : off < 2 ^ 64) (h4 : 4 ≤ len) (hl : len < 2 ^ 61)
    (hop : (Snappy.copyBytes off len).length ≤ op.length) :
    Gen.CFun.snappy_emit_copy op (BitVec.ofNat 64 off) (BitVec.ofNat 64 len) =
      ((Snappy.copyBytes off len).length, Snappy.copyBytes off len ++ op.drop (Snappy.copyBytes off len).length) ∧
    Gen.CFun.snappy_emit_copy_defined op (BitVec.ofNat 64 off) (BitVec.ofNat 64 len) = true := by
  have := emit_copy_loop off hoff (len / 64 + 1) len [] op h4 hl (by omega) hop
  simpa [Gen.CFun.snappy_emit_copy, Gen.CFun.snappy_emit_copy_defined, u64_toNat len (by omega)] using this

end Carquet.Proofs.CFunB
