import Carquet.Proofs.CFunB.Basic
import Carquet.Proofs.SimdScalar
import Carquet.Gen.CFun
import Carquet.Impl.SimdMore
/-
`scalar_unpack_bools` / `scalar_pack_bools` / `scalar_build_null_bitmap` of src/simd/dispatch.c as translated from the current
C source, against Impl.Simd.scalarUnpackBools / scalarPackBools / scalarBuildNullBitmap.
-/
namespace Carquet.Proofs.CFunB
open Carquet Carquet.Impl Carquet.Impl.CSem Carquet.Impl.Simd Carquet.Proofs.CFun2

/-! ### unpack_bools -/

/-- flag `i`: `(input[i / 8] >> (i % 8)) & 1` -/
def ubAt (bytes : List UInt8) (i : Nat) : UInt8 := ((bytes.getD (i / 8) 0) >>> UInt8.ofNat (i % 8)) &&& 1

theorem unpack_loop (bytes : List UInt8) :
    ∀ (rest done : List UInt8) (fuel : Nat), rest.length < fuel → done.length + rest.length < 2 ^ 34 →
      done.length + rest.length ≤ 8 * bytes.length →
      Gen.CFun.scalar_unpack_bools_loop1 fuel bytes (done ++ rest) (BitVec.ofNat 64 (done.length + rest.length))
          (BitVec.ofNat 64 done.length) = done ++ (List.range' done.length rest.length).map (ubAt bytes) ∧
      Gen.CFun.scalar_unpack_bools_loop1_defined fuel bytes (done ++ rest) (BitVec.ofNat 64 (done.length + rest.length))
          (BitVec.ofNat 64 done.length) = true := by
  intro rest
  induction rest with
  | nil =>
    intro done fuel hf hl hb
    obtain ⟨f, rfl⟩ : ∃ f, fuel = f + 1 := ⟨fuel - 1, by simp at hf; omega⟩
    simp only [List.length_nil, Nat.add_zero] at hl
    have hge : BitVec.slt (BitVec.ofNat 64 done.length) (BitVec.ofNat 64 done.length) = false := by
      rw [i64_slt _ _ (by omega) (by omega)]; simp
    simp [Gen.CFun.scalar_unpack_bools_loop1, Gen.CFun.scalar_unpack_bools_loop1_defined, hge]
  | cons x xs ih =>
    intro done fuel hf hl hb
    obtain ⟨f, rfl⟩ : ∃ f, fuel = f + 1 := ⟨fuel - 1, by simp at hf; omega⟩
    simp only [List.length_cons] at hf hl hb
    have hk : done.length < 2 ^ 63 := by omega
    have hlt : BitVec.slt (BitVec.ofNat 64 done.length) (BitVec.ofNat 64 (done.length + (xs.length + 1))) = true := by
      rw [i64_slt _ _ (by omega) (by omega)]; simp
    have h := ih (done ++ [ubAt bytes done.length]) f (by omega) (by simp; omega) (by simp; omega)
    simp only [List.length_append, List.length_cons, List.length_nil, List.append_assoc, List.cons_append, List.nil_append,
      Nat.zero_add] at h
    rw [show done.length + 1 + xs.length = done.length + (xs.length + 1) by omega] at h
    have hd8 : done.length / 8 < bytes.length := by omega
    have hm8 : done.length % 8 < 8 := Nat.mod_lt _ (by omega)
    have hval : BitVec.setWidth 8 ((BitVec.sshiftRight (BitVec.setWidth 32 (rd8 bytes (done.length / 8))) (done.length % 8)) &&& 1#32) =
        (ubAt bytes done.length).toBitVec := by
      have := shr_and_one (rd8 bytes (done.length / 8)) ⟨done.length % 8, hm8⟩
      simpa [ubAt, rd8] using this
    simp only [Gen.CFun.scalar_unpack_bools_loop1, Gen.CFun.scalar_unpack_bools_loop1_defined, List.length_cons, hlt, if_true,
      i64_toIntNat _ hk, wr8_at, inb_at, i64_msb _ hk, i64_add_one, i64_sAddOk_one _ (show done.length + 1 < 2 ^ 63 by omega),
      i64_sdiv _ 8 hk (by omega), i64_srem _ 8 hk (by omega), trunc32,
      i32_toIntNat _ (show done.length / 8 < 2 ^ 31 by omega), msb_ofNat_small _ (show done.length / 8 < 2 ^ 31 by omega),
      ofNat_toNat_small _ (show done.length % 8 < 2 ^ 31 by omega), shCountOk32 _ (show done.length % 8 < 32 by omega),
      inb_of_lt _ _ hd8, hval, List.range'_succ, List.map_cons]
    exact ⟨by simpa using h.1, by simpa using h.2⟩

/-- beyond the input: the read of `input[8 * |input| / 8]` is outside, whatever happened before -/
theorem unpack_undefined (bytes : List UInt8) (n : Nat) (hn : 8 * bytes.length < n) (hn2 : n < 2 ^ 34) :
    ∀ (d fuel : Nat) (o : List UInt8) (k : Nat), k + d = 8 * bytes.length →
      Gen.CFun.scalar_unpack_bools_loop1_defined fuel bytes o (BitVec.ofNat 64 n) (BitVec.ofNat 64 k) = false := by
  intro d
  induction d with
  | zero =>
    intro fuel o k hk
    cases fuel with
    | zero => simp [Gen.CFun.scalar_unpack_bools_loop1_defined]
    | succ f =>
      have hk63 : k < 2 ^ 63 := by omega
      have hlt : BitVec.slt (BitVec.ofNat 64 k) (BitVec.ofNat 64 n) = true := by
        rw [i64_slt _ _ (by omega) (by omega)]; simp; omega
      have hd8 : bytes.length ≤ k / 8 := by omega
      simp only [Gen.CFun.scalar_unpack_bools_loop1_defined, hlt, if_true,
        i64_sdiv _ 8 hk63 (by omega), trunc32, i32_toIntNat _ (show k / 8 < 2 ^ 31 by omega), inb_false_of_ge _ _ hd8]
      simp
  | succ d ih =>
    intro fuel o k hk
    cases fuel with
    | zero => simp [Gen.CFun.scalar_unpack_bools_loop1_defined]
    | succ f =>
      have hlt : BitVec.slt (BitVec.ofNat 64 k) (BitVec.ofNat 64 n) = true := by
        rw [i64_slt _ _ (by omega) (by omega)]; simp; omega
      simp only [Gen.CFun.scalar_unpack_bools_loop1_defined, hlt, if_true, i64_add_one, ih f _ (k + 1) (by omega)]
      simp

theorem scalarUnpackBools_some (bytes : List UInt8) (n : Nat) (h : n ≤ 8 * bytes.length) :
    scalarUnpackBools bytes n = some ((List.range n).map (ubAt bytes)) := by
  unfold scalarUnpackBools
  apply SimdScalar.mapM_some
  intro i hi
  have hi' : i < n := by simpa using hi
  have : i / 8 < bytes.length := by omega
  simp [ubAt, List.getD, List.getElem?_eq_getElem this]

theorem scalarUnpackBools_none (bytes : List UInt8) (n : Nat) (h : 8 * bytes.length < n) : scalarUnpackBools bytes n = none := by
  rw [SimdScalar.scalar_unpack]; simp [Spec.Kernels.unpackBools]; omega

/-- `scalar_unpack_bools(input, output, count)` with `count` output slots, fewer than 2^34 flags -/
theorem scalar_unpack_bools_eq (bytes out : List UInt8) (h : out.length < 2 ^ 34) :
    (∀ r, scalarUnpackBools bytes out.length = some r →
      Gen.CFun.scalar_unpack_bools bytes out (BitVec.ofNat 64 out.length) = r) ∧
    Gen.CFun.scalar_unpack_bools_defined bytes out (BitVec.ofNat 64 out.length) = (scalarUnpackBools bytes out.length).isSome := by
  have h63 : out.length < 2 ^ 63 := by omega
  by_cases hb : out.length ≤ 8 * bytes.length
  · have := unpack_loop bytes out [] (out.length + 1) (by omega) (by simpa using h) (by simpa using hb)
    rw [scalarUnpackBools_some bytes _ hb]
    simp only [Gen.CFun.scalar_unpack_bools, Gen.CFun.scalar_unpack_bools_defined, i64_toIntNat _ h63]
    simp only [List.nil_append, List.length_nil, Nat.zero_add] at this
    refine ⟨fun r hr => ?_, by simpa using this.2⟩
    rw [← Option.some.inj hr, show (0#64 : BitVec 64) = BitVec.ofNat 64 0 from rfl, this.1, List.range_eq_range']
  · rw [scalarUnpackBools_none bytes _ (by omega)]
    refine ⟨fun r hr => by simp at hr, ?_⟩
    simp only [Gen.CFun.scalar_unpack_bools_defined, Option.isSome_none]
    exact unpack_undefined bytes out.length (by omega) h (8 * bytes.length) _ out 0 (by omega)

open Carquet.Spec.Kernels (packBits packByte)

/-! ### pack_bools -/

/-- the inner loop: `if (flag) byte |= 1 << j` for successive `j` -/
def orBits : List Bool → Nat → BitVec 8 → BitVec 8
  | [], _, acc => acc
  | b :: bs, j, acc => orBits bs (j + 1) (if b then acc ||| (1#8 <<< j) else acc)

theorem or_bit_int : ∀ (b : BitVec 8) (j : Fin 8),
    BitVec.setWidth 8 (BitVec.setWidth 32 b ||| (1#32 <<< j.val)) = b ||| (1#8 <<< j.val) := by decide +kernel

theorem sShlOk_one : ∀ j : Fin 8, sShlOk 1#32 j.val = true := by decide

theorem orBits_packByte : ∀ bits : List Bool, bits.length ≤ 8 → orBits bits 0 0#8 = (packByte bits).toBitVec
  | [], _ => by decide
  | [a], _ => by revert a; decide
  | [a, b], _ => by revert a b; decide
  | [a, b, c], _ => by revert a b c; decide
  | [a, b, c, d], _ => by revert a b c d; decide
  | [a, b, c, d, e], _ => by revert a b c d e; decide
  | [a, b, c, d, e, f], _ => by revert a b c d e f; decide
  | [a, b, c, d, e, f, g], _ => by revert a b c d e f g; decide
  | [a, b, c, d, e, f, g, h], _ => by revert a b c d e f g h; decide
  | _ :: _ :: _ :: _ :: _ :: _ :: _ :: _ :: _ :: _, h => by simp at h

theorem packBits_step : ∀ l : List Bool, l ≠ [] → packBits l = packByte (l.take 8) :: packBits (l.drop 8)
  | [], h => absurd rfl h
  | [_], _ => rfl
  | [_, _], _ => rfl
  | [_, _, _], _ => rfl
  | [_, _, _, _], _ => rfl
  | [_, _, _, _, _], _ => rfl
  | [_, _, _, _, _, _], _ => rfl
  | [_, _, _, _, _, _, _], _ => rfl
  | _ :: _ :: _ :: _ :: _ :: _ :: _ :: _ :: _, _ => by simp [packBits]

theorem pack_inner (xs out : List UInt8) (i : Nat) (hi : i + 8 < 2 ^ 63) (hn : xs.length < 2 ^ 63) :
    ∀ (d j : Nat) (byte : BitVec 8) (fuel : Nat), j + d = 8 → d < fuel →
      Gen.CFun.scalar_pack_bools_loop2 fuel xs out (BitVec.ofNat 64 xs.length) (BitVec.ofNat 64 i) byte (BitVec.ofNat 64 j) =
        (orBits (((xs.drop (i + j)).take d).map (· != 0)) j byte,
         BitVec.ofNat 64 (j + min d (xs.length - (i + j)))) ∧
      Gen.CFun.scalar_pack_bools_loop2_defined fuel xs out (BitVec.ofNat 64 xs.length) (BitVec.ofNat 64 i) byte
        (BitVec.ofNat 64 j) = true := by
  intro d
  induction d with
  | zero =>
    intro j byte fuel hj hf
    obtain ⟨f, rfl⟩ : ∃ f, fuel = f + 1 := ⟨fuel - 1, by omega⟩
    have hj8 : j = 8 := by omega
    subst hj8
    simp [Gen.CFun.scalar_pack_bools_loop2, Gen.CFun.scalar_pack_bools_loop2_defined, orBits,
      show BitVec.slt (8#64) (8#64) = false by decide]
  | succ d ih =>
    intro j byte fuel hj hf
    obtain ⟨f, rfl⟩ : ∃ f, fuel = f + 1 := ⟨fuel - 1, by omega⟩
    have hj8 : BitVec.slt (BitVec.ofNat 64 j) 8#64 = true := by
      rw [show (8#64 : BitVec 64) = BitVec.ofNat 64 8 from rfl, i64_slt _ _ (by omega) (by omega)]; simp; omega
    have hadd : sAddOk (BitVec.ofNat 64 i) (BitVec.ofNat 64 j) = true := i64_sAddOk _ _ (by omega)
    by_cases hin : i + j < xs.length
    · have hlt : BitVec.slt (BitVec.ofNat 64 (i + j)) (BitVec.ofNat 64 xs.length) = true := by
        rw [i64_slt _ _ (by omega) hn]; simp [hin]
      have hdrop : (xs.drop (i + j)).take (d + 1) = xs[i + j] :: (xs.drop (i + j + 1)).take d := by
        rw [List.drop_eq_getElem_cons hin, List.take_succ_cons]
      have hor : BitVec.setWidth 8 (BitVec.setWidth 32 byte ||| (1#32 <<< j)) = byte ||| (1#8 <<< j) :=
        or_bit_int byte ⟨j, by omega⟩
      have hnext := ih (j + 1) (if (xs[i + j] != 0) = true then byte ||| (1#8 <<< j) else byte) f (by omega) (by omega)
      simp only [Gen.CFun.scalar_pack_bools_loop2, Gen.CFun.scalar_pack_bools_loop2_defined, Gen.CFun.scalar_pack_bools_v1,
        hj8, i64_add, hlt, Bool.and_self, if_true, hadd, i64_toIntNat _ (show i + j < 2 ^ 63 by omega),
        i64_msb _ (show i + j < 2 ^ 63 by omega), inb_of_lt _ _ hin, rd8_of_lt _ _ hin, i64_toNat _ (show j < 2 ^ 63 by omega),
        i64_sAddOk_one _ (show j + 1 < 2 ^ 63 by omega), hdrop, List.map_cons, orBits, hor]
      have hb : (xs[i + j].toBitVec != 0#8) = (xs[i + j] != 0) := by
        rw [Bool.eq_iff_iff]; simp [← UInt8.toBitVec_inj]
      have hsc : shCountOk true 32 (BitVec.ofNat 64 j) = true := by
        simp only [shCountOk, i64_msb _ (show j < 2 ^ 63 by omega), i64_toNat _ (show j < 2 ^ 63 by omega)]; simp; omega
      have hshl : sShlOk 1#32 j = true := sShlOk_one ⟨j, by omega⟩
      rw [hb, hsc, hshl]
      rw [show i + (j + 1) = i + j + 1 by omega] at hnext
      refine ⟨?_, by simpa using hnext.2⟩
      rw [hnext.1]; congr 2; omega
    · have hlt : BitVec.slt (BitVec.ofNat 64 (i + j)) (BitVec.ofNat 64 xs.length) = false := by
        rw [i64_slt _ _ (by omega) hn]; simp; omega
      have hdrop : xs.drop (i + j) = [] := by simp; omega
      simp only [Gen.CFun.scalar_pack_bools_loop2, Gen.CFun.scalar_pack_bools_loop2_defined, hj8, i64_add, hlt, hadd, hdrop]
      have hmin : min (d + 1) (xs.length - (i + j)) = 0 := by omega
      simp [orBits, hmin]

theorem pack_outer (xs : List UInt8) (hn : xs.length + 8 < 2 ^ 63) :
    ∀ (rest done : List UInt8) (fuel : Nat), rest.length < fuel → done.length + rest.length = (xs.length + 7) / 8 →
      Gen.CFun.scalar_pack_bools_loop1 fuel xs (done ++ rest) (BitVec.ofNat 64 xs.length) (BitVec.ofNat 64 (8 * done.length)) =
        done ++ packBits ((xs.drop (8 * done.length)).map (· != 0)) ∧
      Gen.CFun.scalar_pack_bools_loop1_defined fuel xs (done ++ rest) (BitVec.ofNat 64 xs.length)
        (BitVec.ofNat 64 (8 * done.length)) = true := by
  intro rest
  induction rest with
  | nil =>
    intro done fuel hf hl
    obtain ⟨f, rfl⟩ : ∃ f, fuel = f + 1 := ⟨fuel - 1, by simp at hf; omega⟩
    simp only [List.length_nil, Nat.add_zero] at hl
    have hge : BitVec.slt (BitVec.ofNat 64 (8 * done.length)) (BitVec.ofNat 64 xs.length) = false := by
      rw [i64_slt _ _ (by omega) (by omega)]; simp; omega
    have hdrop : xs.drop (8 * done.length) = [] := by simp; omega
    simp [Gen.CFun.scalar_pack_bools_loop1, Gen.CFun.scalar_pack_bools_loop1_defined, hge, hdrop, packBits]
  | cons y ys ih =>
    intro done fuel hf hl
    obtain ⟨f, rfl⟩ : ∃ f, fuel = f + 1 := ⟨fuel - 1, by simp at hf; omega⟩
    simp only [List.length_cons] at hf hl
    have hi : 8 * done.length < xs.length := by omega
    have hlt : BitVec.slt (BitVec.ofNat 64 (8 * done.length)) (BitVec.ofNat 64 xs.length) = true := by
      rw [i64_slt _ _ (by omega) (by omega)]; simp [hi]
    have hin := pack_inner xs (done ++ y :: ys) (8 * done.length) (by omega) (by omega) 8 0 0#8 9 (by omega) (by omega)
    simp only [Nat.add_zero] at hin
    have hne : (xs.drop (8 * done.length)).map (· != 0) ≠ [] := by
      intro h; have := congrArg List.length h; simp at this; omega
    have hbyte : UInt8.ofBitVec (orBits (((xs.drop (8 * done.length)).take 8).map (· != 0)) 0 0#8) =
        packByte (((xs.drop (8 * done.length)).map (· != 0)).take 8) := by
      rw [orBits_packByte _ (by simp; omega), List.map_take]
    have h := ih (done ++ [packByte (((xs.drop (8 * done.length)).map (· != 0)).take 8)]) f (by omega) (by simp; omega)
    simp only [List.length_append, List.length_cons, List.length_nil, List.append_assoc, List.cons_append, List.nil_append,
      Nat.zero_add, Nat.mul_add, Nat.mul_one] at h
    simp only [Gen.CFun.scalar_pack_bools_loop1, Gen.CFun.scalar_pack_bools_loop1_defined, hlt, if_true, hin.1, hin.2,
      i64_sdiv _ 8 (show 8 * done.length < 2 ^ 63 by omega) (by omega), Nat.mul_div_cancel_left _ (show 0 < 8 by omega),
      i64_toIntNat _ (show done.length < 2 ^ 63 by omega), i64_msb _ (show done.length < 2 ^ 63 by omega), wr8_at, inb_at, hbyte,
      i64_add, i64_sAddOk _ 8 (show 8 * done.length + 8 < 2 ^ 63 by omega)]
    refine ⟨?_, by simpa using h.2⟩
    rw [h.1, packBits_step _ hne, ← List.map_drop, List.drop_drop]

/-- `scalar_pack_bools(input, output, count)` with `(count + 7) / 8` output bytes -/
theorem scalar_pack_bools_eq (xs out : List UInt8) (ho : out.length = (xs.length + 7) / 8) (h : xs.length + 8 < 2 ^ 63) :
    Gen.CFun.scalar_pack_bools xs out (BitVec.ofNat 64 xs.length) = scalarPackBools xs ∧
    Gen.CFun.scalar_pack_bools_defined xs out (BitVec.ofNat 64 xs.length) = true := by
  have := pack_outer xs h out [] (xs.length / 8 + 2) (by omega) (by simpa using ho)
  simpa [Gen.CFun.scalar_pack_bools, Gen.CFun.scalar_pack_bools_defined, scalarPackBools, packScalar,
    i64_toIntNat _ (show xs.length < 2 ^ 63 by omega)] using this

end Carquet.Proofs.CFunB
