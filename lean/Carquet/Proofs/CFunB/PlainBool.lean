import Carquet.Proofs.CFunB.Enc
import Carquet.Proofs.SimdBools
/-
`carquet_decode_plain_boolean` (src/encoding/plain.c) as translated from the current C source: the argument checks, the loop over
whole input bytes (eight unrolled stores `output[i++] = (byte >> k) & 1`) and the loop over the remaining bits of one more byte,
against Impl.Plain.decodeBoolean / boolLoop.
-/
namespace Carquet.Proofs.CFunB
open Carquet Carquet.Impl Carquet.Impl.CSem Carquet.Proofs.CFun2

/-- flag `k` of a byte as the C code computes it (in `int`, stored into a `uint8_t`) -/
theorem flag_const : ∀ (b : BitVec 8),
    [BitVec.setWidth 8 ((BitVec.sshiftRight (BitVec.setWidth 32 b) 0) &&& 1#32),
     BitVec.setWidth 8 ((BitVec.sshiftRight (BitVec.setWidth 32 b) 1) &&& 1#32),
     BitVec.setWidth 8 ((BitVec.sshiftRight (BitVec.setWidth 32 b) 2) &&& 1#32),
     BitVec.setWidth 8 ((BitVec.sshiftRight (BitVec.setWidth 32 b) 3) &&& 1#32),
     BitVec.setWidth 8 ((BitVec.sshiftRight (BitVec.setWidth 32 b) 4) &&& 1#32),
     BitVec.setWidth 8 ((BitVec.sshiftRight (BitVec.setWidth 32 b) 5) &&& 1#32),
     BitVec.setWidth 8 ((BitVec.sshiftRight (BitVec.setWidth 32 b) 6) &&& 1#32),
     BitVec.setWidth 8 ((BitVec.sshiftRight (BitVec.setWidth 32 b) 7) &&& 1#32)] =
    (Plain.unpackByte (UInt8.ofBitVec b)).map (·.toBitVec) := by decide +kernel

/-- the remaining-bits loop: `output[i++] = (byte >> bit) & 1; bit++` -/
theorem bool_tail (input : List UInt8) (isz bn bidx : BitVec 64) (x : UInt8) (n : Nat) (hn : n < 2 ^ 62) :
    ∀ (d t : Nat) (done rest : List UInt8) (fuel : Nat), rest.length = d → done.length + d = n → t + d ≤ 8 → d < fuel →
      Gen.CFun.carquet_decode_plain_boolean_loop2 fuel input isz (done ++ rest) (BitVec.ofNat 64 n) bn (BitVec.ofNat 64 done.length)
          bidx x.toBitVec (BitVec.ofNat 32 t) =
        (bn, done ++ ((Plain.unpackByte x).drop t).take d) ∧
      Gen.CFun.carquet_decode_plain_boolean_loop2_defined fuel input isz (done ++ rest) (BitVec.ofNat 64 n) bn
          (BitVec.ofNat 64 done.length) bidx x.toBitVec (BitVec.ofNat 32 t) = true := by
  intro d
  induction d with
  | zero =>
    intro t done rest fuel hr hd ht hf
    obtain ⟨f, rfl⟩ : ∃ f, fuel = f + 1 := ⟨fuel - 1, by omega⟩
    have hr0 : rest = [] := by simpa using hr
    subst hr0
    have hge : BitVec.slt (BitVec.ofNat 64 done.length) (BitVec.ofNat 64 n) = false := by
      rw [i64_slt _ _ (by omega) (by omega)]; simp; omega
    simp [Gen.CFun.carquet_decode_plain_boolean_loop2, Gen.CFun.carquet_decode_plain_boolean_loop2_defined, hge]
  | succ d ih =>
    intro t done rest fuel hr hd ht hf
    obtain ⟨f, rfl⟩ : ∃ f, fuel = f + 1 := ⟨fuel - 1, by omega⟩
    obtain ⟨y, ys, rfl⟩ := exists_cons rest (by omega)
    have hlt : BitVec.slt (BitVec.ofNat 64 done.length) (BitVec.ofNat 64 n) = true := by
      rw [i64_slt _ _ (by omega) (by omega)]; simp; omega
    have ht8 : t < 8 := by omega
    have hflag : UInt8.ofBitVec (BitVec.setWidth 8 ((BitVec.sshiftRight (BitVec.setWidth 32 x.toBitVec) t) &&& 1#32)) =
        (x >>> UInt8.ofNat t) &&& 1 := by
      have := shr_and_one x.toBitVec ⟨t, ht8⟩
      apply UInt8.eq_of_toBitVec_eq
      simpa using this
    have hun : ((Plain.unpackByte x).drop t).take (d + 1) = ((x >>> UInt8.ofNat t) &&& 1) :: ((Plain.unpackByte x).drop (t + 1)).take d := by
      have : ∀ (t : Fin 8) (x : UInt8), (Plain.unpackByte x).drop t.val =
          ((x >>> UInt8.ofNat t.val) &&& 1) :: (Plain.unpackByte x).drop (t.val + 1) := by
        intro t
        apply SimdBools.forall_uint8
        revert t
        decide +kernel
      have h2 := this ⟨t, ht8⟩ x
      simp only at h2
      rw [h2, List.take_succ_cons]
    have hnext := ih (t + 1) (done ++ [(x >>> UInt8.ofNat t) &&& 1]) ys f (by simpa using hr) (by simp; omega) (by omega) (by omega)
    simp only [List.length_append, List.length_singleton, List.append_assoc, List.singleton_append] at hnext
    simp only [Gen.CFun.carquet_decode_plain_boolean_loop2, Gen.CFun.carquet_decode_plain_boolean_loop2_defined, hlt, if_true,
      i64_toIntNat _ (show done.length < 2 ^ 63 by omega), i64_msb _ (show done.length < 2 ^ 63 by omega), wr8_at, inb_at,
      ofNat_toNat_small t (by omega), hflag, i64_add_one, i64_sAddOk_one _ (show done.length + 1 < 2 ^ 63 by omega),
      shCountOk32 t (by omega), ofNat_add_one, sAddOk_small t (by omega), hun, Bool.true_and, Bool.not_false]
    exact ⟨by rw [hnext.1], hnext.2⟩

theorem flagk : ∀ (b : BitVec 8),
    UInt8.ofBitVec (BitVec.setWidth 8 ((BitVec.sshiftRight (BitVec.setWidth 32 b) 0) &&& 1#32)) = (UInt8.ofBitVec b >>> 0) &&& 1 ∧
    UInt8.ofBitVec (BitVec.setWidth 8 ((BitVec.sshiftRight (BitVec.setWidth 32 b) 1) &&& 1#32)) = (UInt8.ofBitVec b >>> 1) &&& 1 ∧
    UInt8.ofBitVec (BitVec.setWidth 8 ((BitVec.sshiftRight (BitVec.setWidth 32 b) 2) &&& 1#32)) = (UInt8.ofBitVec b >>> 2) &&& 1 ∧
    UInt8.ofBitVec (BitVec.setWidth 8 ((BitVec.sshiftRight (BitVec.setWidth 32 b) 3) &&& 1#32)) = (UInt8.ofBitVec b >>> 3) &&& 1 ∧
    UInt8.ofBitVec (BitVec.setWidth 8 ((BitVec.sshiftRight (BitVec.setWidth 32 b) 4) &&& 1#32)) = (UInt8.ofBitVec b >>> 4) &&& 1 ∧
    UInt8.ofBitVec (BitVec.setWidth 8 ((BitVec.sshiftRight (BitVec.setWidth 32 b) 5) &&& 1#32)) = (UInt8.ofBitVec b >>> 5) &&& 1 ∧
    UInt8.ofBitVec (BitVec.setWidth 8 ((BitVec.sshiftRight (BitVec.setWidth 32 b) 6) &&& 1#32)) = (UInt8.ofBitVec b >>> 6) &&& 1 ∧
    UInt8.ofBitVec (BitVec.setWidth 8 ((BitVec.sshiftRight (BitVec.setWidth 32 b) 7) &&& 1#32)) = (UInt8.ofBitVec b >>> 7) &&& 1 := by
  decide +kernel

/-- the loop over whole bytes followed by the remaining bits -/
theorem bool_full (input : List UInt8) (isz bn : BitVec 64) (n : Nat) (hn : n < 2 ^ 62) (hin : (n + 7) / 8 ≤ input.length) :
    ∀ (m qd : Nat) (done rest : List UInt8) (fuel : Nat), qd + m = n / 8 → done.length = 8 * qd → done.length + rest.length = n →
      m < fuel →
      ∃ L, Plain.boolLoop (input.drop qd) (n - 8 * qd) = some L ∧
        Gen.CFun.carquet_decode_plain_boolean_loop1 fuel input isz (done ++ rest) (BitVec.ofNat 64 n) bn (BitVec.ofNat 64 (8 * qd))
          (BitVec.ofNat 64 qd) = (bn, done ++ L) ∧
        Gen.CFun.carquet_decode_plain_boolean_loop1_defined fuel input isz (done ++ rest) (BitVec.ofNat 64 n) bn
          (BitVec.ofNat 64 (8 * qd)) (BitVec.ofNat 64 qd) = true := by
  intro m
  induction m with
  | zero =>
    intro qd done rest fuel hq hd hl hf
    obtain ⟨f, rfl⟩ : ∃ f, fuel = f + 1 := ⟨fuel - 1, by omega⟩
    have hsle : BitVec.sle (BitVec.ofNat 64 (8 * qd) + 8#64) (BitVec.ofNat 64 n) = false := by
      rw [show (8#64 : BitVec 64) = BitVec.ofNat 64 8 from rfl, i64_add, BitVec.sle_eq_decide, i64_toInt _ (by omega), i64_toInt _ (by omega)]
      simp; omega
    have hs8 : sAddOk (BitVec.ofNat 64 (8 * qd)) 8#64 = true := i64_sAddOk _ 8 (by omega)
    by_cases htail : 8 * qd < n
    · have hlt : BitVec.slt (BitVec.ofNat 64 (8 * qd)) (BitVec.ofNat 64 n) = true := by
        rw [i64_slt _ _ (by omega) (by omega)]; simp [htail]
      have hqd : qd < input.length := by omega
      have ht := bool_tail input isz bn (BitVec.ofNat 64 qd + 1#64) input[qd] n hn (n - 8 * qd) 0 done rest 9 (by omega) (by omega)
        (by omega) (by omega)
      rw [hd] at ht
      refine ⟨((Plain.unpackByte input[qd]).drop 0).take (n - 8 * qd), ?_, ?_, ?_⟩
      · rw [List.drop_eq_getElem_cons hqd, Plain.boolLoop]
        have h1 : ¬ (n - 8 * qd = 0) := by omega
        have h2 : ¬ (8 ≤ n - 8 * qd) := by omega
        simp [h1, h2]
      · simp only [Gen.CFun.carquet_decode_plain_boolean_loop1, hsle, Bool.false_eq_true, if_false, hlt, if_true,
          u64_toNat _ (show qd < 2 ^ 64 by omega), rd8_of_lt _ _ hqd]
        exact ht.1
      · simp only [Gen.CFun.carquet_decode_plain_boolean_loop1_defined, hs8, hsle, Bool.false_eq_true, if_false, hlt, if_true,
          u64_toNat _ (show qd < 2 ^ 64 by omega), rd8_of_lt _ _ hqd, inb_of_lt _ _ hqd, Bool.true_and]
        exact ht.2
    · have hlt : BitVec.slt (BitVec.ofNat 64 (8 * qd)) (BitVec.ofNat 64 n) = false := by
        rw [i64_slt _ _ (by omega) (by omega)]; simp; omega
      have hr : rest = [] := by
        cases rest with
        | nil => rfl
        | cons y ys => simp at hl; omega
      subst hr
      refine ⟨[], ?_, ?_, ?_⟩
      · rw [show n - 8 * qd = 0 by omega]; unfold Plain.boolLoop; simp
      · simp [Gen.CFun.carquet_decode_plain_boolean_loop1, hsle, hlt]
      · simp [Gen.CFun.carquet_decode_plain_boolean_loop1_defined, hs8, hsle, hlt]
  | succ m ih =>
    intro qd done rest fuel hq hd hl hf
    obtain ⟨f, rfl⟩ : ∃ f, fuel = f + 1 := ⟨fuel - 1, by omega⟩
    have h8 : 8 * qd + 8 ≤ n := by omega
    have hqd : qd < input.length := by omega
    have hsle : BitVec.sle (BitVec.ofNat 64 (8 * qd) + 8#64) (BitVec.ofNat 64 n) = true := by
      rw [show (8#64 : BitVec 64) = BitVec.ofNat 64 8 from rfl, i64_add, BitVec.sle_eq_decide, i64_toInt _ (by omega), i64_toInt _ (by omega)]
      simp; omega
    have hs8 : sAddOk (BitVec.ofNat 64 (8 * qd)) 8#64 = true := i64_sAddOk _ 8 (by omega)
    obtain ⟨r0, t0, rfl⟩ := exists_cons rest (by omega)
    obtain ⟨r1, t1, rfl⟩ := exists_cons t0 (by simp at hl; omega)
    obtain ⟨r2, t2, rfl⟩ := exists_cons t1 (by simp at hl; omega)
    obtain ⟨r3, t3, rfl⟩ := exists_cons t2 (by simp at hl; omega)
    obtain ⟨r4, t4, rfl⟩ := exists_cons t3 (by simp at hl; omega)
    obtain ⟨r5, t5, rfl⟩ := exists_cons t4 (by simp at hl; omega)
    obtain ⟨r6, t6, rfl⟩ := exists_cons t5 (by simp at hl; omega)
    obtain ⟨r7, t7, rfl⟩ := exists_cons t6 (by simp at hl; omega)
    obtain ⟨L, hL, hv, hdf⟩ := ih (qd + 1) (done ++ Plain.unpackByte input[qd]) t7 f (by omega) (by simp [Plain.unpackByte]; omega)
      (by simp [Plain.unpackByte] at hl ⊢; omega) (by omega)
    refine ⟨Plain.unpackByte input[qd] ++ L, ?_, ?_, ?_⟩
    · rw [List.drop_eq_getElem_cons hqd, Plain.boolLoop]
      have h1 : ¬ (n - 8 * qd = 0) := by omega
      have h2 : 8 ≤ n - 8 * qd := by omega
      rw [show n - 8 * qd - 8 = n - 8 * (qd + 1) by omega]
      simp [h1, h2, hL]
    all_goals
      have e8 : 8 * (qd + 1) = done.length + 8 := by omega
      have hfl := flagk input[qd].toBitVec
      have hx : UInt8.ofBitVec input[qd].toBitVec = input[qd] := rfl
      rw [hx] at hfl
      have hlen : (done ++ Plain.unpackByte input[qd]).length = done.length + 8 := by simp [Plain.unpackByte]
      rw [e8] at hv hdf
    · simp only [Gen.CFun.carquet_decode_plain_boolean_loop1, Gen.CFun.carquet_decode_plain_boolean_v1, hsle, if_true, i64_add_one,
        i64_toIntNat _ (show 8 * qd < 2 ^ 63 by omega), i64_toIntNat _ (show 8 * qd + 1 < 2 ^ 63 by omega),
        i64_toIntNat _ (show 8 * qd + 1 + 1 < 2 ^ 63 by omega), i64_toIntNat _ (show 8 * qd + 1 + 1 + 1 < 2 ^ 63 by omega),
        i64_toIntNat _ (show 8 * qd + 1 + 1 + 1 + 1 < 2 ^ 63 by omega),
        i64_toIntNat _ (show 8 * qd + 1 + 1 + 1 + 1 + 1 < 2 ^ 63 by omega),
        i64_toIntNat _ (show 8 * qd + 1 + 1 + 1 + 1 + 1 + 1 < 2 ^ 63 by omega),
        i64_toIntNat _ (show 8 * qd + 1 + 1 + 1 + 1 + 1 + 1 + 1 < 2 ^ 63 by omega),
        u64_toNat _ (show qd < 2 ^ 64 by omega), rd8_of_lt _ _ hqd]
      rw [← hd]
      simp only [Nat.add_assoc, Nat.reduceAdd, wr8_app0, wr8_app, wr8_zero, wr8_succ, hfl.1, hfl.2.1, hfl.2.2.1, hfl.2.2.2.1,
        hfl.2.2.2.2.1, hfl.2.2.2.2.2.1, hfl.2.2.2.2.2.2.1, hfl.2.2.2.2.2.2.2]
      have := hv
      simp only [Plain.unpackByte, List.append_assoc, List.cons_append, List.nil_append] at this ⊢
      exact this
    · simp only [Gen.CFun.carquet_decode_plain_boolean_loop1_defined, Gen.CFun.carquet_decode_plain_boolean_v1, hs8, hsle, if_true,
        i64_add_one, inb_wr8,
        i64_toIntNat _ (show 8 * qd < 2 ^ 63 by omega), i64_toIntNat _ (show 8 * qd + 1 < 2 ^ 63 by omega),
        i64_toIntNat _ (show 8 * qd + 1 + 1 < 2 ^ 63 by omega), i64_toIntNat _ (show 8 * qd + 1 + 1 + 1 < 2 ^ 63 by omega),
        i64_toIntNat _ (show 8 * qd + 1 + 1 + 1 + 1 < 2 ^ 63 by omega),
        i64_toIntNat _ (show 8 * qd + 1 + 1 + 1 + 1 + 1 < 2 ^ 63 by omega),
        i64_toIntNat _ (show 8 * qd + 1 + 1 + 1 + 1 + 1 + 1 < 2 ^ 63 by omega),
        i64_toIntNat _ (show 8 * qd + 1 + 1 + 1 + 1 + 1 + 1 + 1 < 2 ^ 63 by omega),
        i64_msb _ (show 8 * qd < 2 ^ 63 by omega), i64_msb _ (show 8 * qd + 1 < 2 ^ 63 by omega),
        i64_msb _ (show 8 * qd + 1 + 1 < 2 ^ 63 by omega), i64_msb _ (show 8 * qd + 1 + 1 + 1 < 2 ^ 63 by omega),
        i64_msb _ (show 8 * qd + 1 + 1 + 1 + 1 < 2 ^ 63 by omega),
        i64_msb _ (show 8 * qd + 1 + 1 + 1 + 1 + 1 < 2 ^ 63 by omega),
        i64_msb _ (show 8 * qd + 1 + 1 + 1 + 1 + 1 + 1 < 2 ^ 63 by omega),
        i64_msb _ (show 8 * qd + 1 + 1 + 1 + 1 + 1 + 1 + 1 < 2 ^ 63 by omega),
        i64_sAddOk_one _ (show 8 * qd + 1 < 2 ^ 63 by omega), i64_sAddOk_one _ (show 8 * qd + 1 + 1 < 2 ^ 63 by omega),
        i64_sAddOk_one _ (show 8 * qd + 1 + 1 + 1 < 2 ^ 63 by omega),
        i64_sAddOk_one _ (show 8 * qd + 1 + 1 + 1 + 1 < 2 ^ 63 by omega),
        i64_sAddOk_one _ (show 8 * qd + 1 + 1 + 1 + 1 + 1 < 2 ^ 63 by omega),
        i64_sAddOk_one _ (show 8 * qd + 1 + 1 + 1 + 1 + 1 + 1 < 2 ^ 63 by omega),
        i64_sAddOk_one _ (show 8 * qd + 1 + 1 + 1 + 1 + 1 + 1 + 1 < 2 ^ 63 by omega),
        i64_sAddOk_one _ (show 8 * qd + 1 + 1 + 1 + 1 + 1 + 1 + 1 + 1 < 2 ^ 63 by omega),
        u64_toNat _ (show qd < 2 ^ 64 by omega), rd8_of_lt _ _ hqd, inb_of_lt _ _ hqd]
      rw [← hd]
      simp only [Nat.add_assoc, Nat.reduceAdd, wr8_app0, wr8_app, wr8_zero, wr8_succ, inb_app0, inb_app, hfl.1, hfl.2.1, hfl.2.2.1,
        hfl.2.2.2.1, hfl.2.2.2.2.1, hfl.2.2.2.2.2.1, hfl.2.2.2.2.2.2.1, hfl.2.2.2.2.2.2.2, List.length_cons]
      have := hdf
      simp only [Plain.unpackByte, List.append_assoc, List.cons_append, List.nil_append] at this
      simpa using this

/-- `carquet_decode_plain_boolean(input, input_size, output, count)`, `input_size` = the length of the input, `count` output
slots: the model's flags and byte count, or -1 when the input is shorter than `(count + 7) / 8` bytes; in both cases no access
outside the arrays -/
theorem decode_plain_boolean_eq (input output : List UInt8) (hn : output.length < 2 ^ 62) (hin : input.length < 2 ^ 64) :
    (∀ vals consumed, Plain.decodeBoolean input (output.length : Int) = .ok vals consumed →
      Gen.CFun.carquet_decode_plain_boolean input (BitVec.ofNat 64 input.length) output (BitVec.ofNat 64 output.length) =
        (BitVec.ofNat 64 consumed, vals)) ∧
    (Plain.decodeBoolean input (output.length : Int) = .err →
      Gen.CFun.carquet_decode_plain_boolean input (BitVec.ofNat 64 input.length) output (BitVec.ofNat 64 output.length) =
        (BitVec.allOnes 64, output)) ∧
    Plain.decodeBoolean input (output.length : Int) ≠ .oob ∧
    Gen.CFun.carquet_decode_plain_boolean_defined input (BitVec.ofNat 64 input.length) output (BitVec.ofNat 64 output.length) = true := by
  have hslt : BitVec.slt (BitVec.ofNat 64 output.length) 0#64 = false := by
    rw [show (0#64 : BitVec 64) = BitVec.ofNat 64 0 from rfl, i64_slt _ _ (by omega) (by omega)]; simp
  have hbn : (BitVec.ofNat 64 output.length + 7#64) / 8#64 = BitVec.ofNat 64 ((output.length + 7) / 8) := by
    rw [show (7#64 : BitVec 64) = BitVec.ofNat 64 7 from rfl, i64_add]
    apply BitVec.eq_of_toNat_eq
    simp only [BitVec.toNat_udiv, BitVec.toNat_ofNat]
    rw [Nat.mod_eq_of_lt (show output.length + 7 < 2 ^ 64 by omega), show (8 : Nat) % 2 ^ 64 = 8 from rfl,
      Nat.mod_eq_of_lt (show (output.length + 7) / 8 < 2 ^ 64 by omega)]
  have hcmp : decide (BitVec.ofNat 64 input.length < BitVec.ofNat 64 ((output.length + 7) / 8)) =
      decide (input.length < (output.length + 7) / 8) := u64_lt _ _ hin (by omega)
  have hneg : ¬ ((output.length : Int) < 0) := by omega
  unfold Plain.decodeBoolean
  simp only [hneg, if_false, Int.toNat_natCast]
  by_cases hshort : input.length < (output.length + 7) / 8
  · simp only [hshort, if_true]
    refine ⟨fun _ _ h => by simp at h, fun _ => ?_, by simp, ?_⟩
    · simp only [Gen.CFun.carquet_decode_plain_boolean, Bool.or_self, hslt, Bool.false_eq_true, if_false, hbn, hcmp,
        hshort, decide_true, if_true]
      rfl
    · simp only [Gen.CFun.carquet_decode_plain_boolean_defined, Bool.or_self, hslt, Bool.false_eq_true, if_false,
        hbn, hcmp, hshort, decide_true, if_true]
  · simp only [hshort, if_false]
    obtain ⟨L, hL, hv, hdf⟩ := bool_full input (BitVec.ofNat 64 input.length) (BitVec.ofNat 64 ((output.length + 7) / 8))
      output.length hn (by omega) (output.length / 8) 0 [] output (output.length / 8 + 1) (by omega) (by simp) (by simp) (by omega)
    simp only [List.drop_zero, Nat.mul_zero, Nat.sub_zero, List.nil_append] at hL hv hdf
    rw [hL]
    refine ⟨fun vals consumed h => ?_, fun h => by simp at h, by simp, ?_⟩
    · simp only [Plain.Res.ok.injEq] at h
      obtain ⟨rfl, rfl⟩ := h
      simp only [Gen.CFun.carquet_decode_plain_boolean, Bool.or_self, hslt, Bool.false_eq_true, if_false, hbn, hcmp,
        hshort, decide_false, i64_toIntNat _ (show output.length < 2 ^ 63 by omega)]
      exact hv
    · simp only [Gen.CFun.carquet_decode_plain_boolean_defined, Bool.or_self, hslt, Bool.false_eq_true, if_false,
        hbn, hcmp, hshort, decide_false, i64_toIntNat _ (show output.length < 2 ^ 63 by omega)]
      exact hdf

end Carquet.Proofs.CFunB
