import Carquet.Proofs.CFunB.Basic
import Carquet.Gen.CFun
import Carquet.Impl.SimdMore
import Carquet.Proofs.SimdScalar
/-
BYTE_STREAM_SPLIT: the four scalar transposition loops of src/simd/dispatch.c (`scalar_byte_split_encode/decode_float/_double`,
the value array seen as bytes through the `(const uint8_t*)values` cast) as translated from the current C source.
Pointwise characterisation: after the call, `output[b * count + i] = src[i * k + b]` (encode), `dst[i * k + b] =
data[b * count + i]` (decode) for every `b < k`, `i < count`; nothing else is written; no access outside the arrays.
-/
namespace Carquet.Proofs.CFunB
open Carquet Carquet.Impl Carquet.Impl.CSem Carquet.Impl.Simd Carquet.Proofs.CFun2

theorem mul_add_inj (a a' r r' m : Nat) (hr : r < m) (hr' : r' < m) (h : a * m + r = a' * m + r') : a = a' ∧ r = r' := by
  have h1 : (a * m + r) / m = a := by
    rw [Nat.mul_comm, Nat.mul_add_div (by omega), Nat.div_eq_of_lt hr]; simp
  have h2 : (a' * m + r') / m = a' := by
    rw [Nat.mul_comm, Nat.mul_add_div (by omega), Nat.div_eq_of_lt hr']; simp
  have ha : a = a' := by rw [← h1, ← h2, h]
  subst ha
  exact ⟨rfl, by omega⟩

theorem mul_add_lt (a r m k : Nat) (hr : r < m) (ha : a < k) : a * m + r < k * m := by
  calc a * m + r < a * m + m := by omega
    _ = (a + 1) * m := by rw [Nat.add_mul]; omega
    _ ≤ k * m := Nat.mul_le_mul_right _ (by omega)

theorem sext64 (b : Nat) (h : b < 2 ^ 31) : BitVec.signExtend 64 (BitVec.ofNat 32 b) = BitVec.ofNat 64 b := by
  apply BitVec.eq_of_toInt_eq
  rw [BitVec.toInt_signExtend_of_le (by omega), ofNat_toInt_small b h, i64_toInt b (by omega)]

theorem getD_wr8 (a : List UInt8) (p q : Nat) (v : BitVec 8) (hp : p < a.length) :
    (wr8 a p v).getD q 0 = if q = p then UInt8.ofBitVec v else a.getD q 0 := by
  simp only [wr8, List.getD, List.getElem?_set]
  by_cases h : p = q
  · subst h; simp [hp]
  · simp [h, Ne.symm h]

/-- state of a transposition loop nest after `i` whole values and `b` bytes of value `i`: every position `wp b' i'` written
so far holds `src[rp b' i']`; the length is unchanged.  (`wp`, `rp`: write and read position of byte `b` of value `i`.) -/
def TrInv (wp rp : Nat → Nat → Nat) (k n : Nat) (src : List UInt8) (i b : Nat) (out : List UInt8) : Prop :=
  out.length = k * n ∧
  ∀ b' i', b' < k → i' < n → (i' < i ∨ (i' = i ∧ b' < b)) → out.getD (wp b' i') 0 = src.getD (rp b' i') 0

theorem TrInv_step (wp rp : Nat → Nat → Nat) (k n : Nat) (src out : List UInt8) (i b : Nat) (hi : i < n) (hb : b < k)
    (hinj : ∀ b' i', b' < k → i' < n → wp b' i' = wp b i → b' = b ∧ i' = i) (hlt : wp b i < k * n)
    (h : TrInv wp rp k n src i b out) :
    TrInv wp rp k n src i (b + 1) (wr8 out (wp b i) (rd8 src (rp b i))) := by
  refine ⟨by simp [wr8, h.1], ?_⟩
  intro b' i' hb' hi' hc
  rw [getD_wr8 _ _ _ _ (by rw [h.1]; exact hlt)]
  by_cases he : wp b' i' = wp b i
  · obtain ⟨e1, e2⟩ := hinj b' i' hb' hi' he
    subst e1; subst e2
    simp [rd8]
  · rw [if_neg he]
    apply h.2 b' i' hb' hi'
    rcases hc with hc | ⟨e, hc⟩
    · exact Or.inl hc
    · subst e
      by_cases hbb : b' = b
      · subst hbb; exact absurd rfl he
      · exact Or.inr ⟨rfl, by omega⟩

theorem TrInv_next (wp rp : Nat → Nat → Nat) (k n : Nat) (src out : List UInt8) (i : Nat) (h : TrInv wp rp k n src i k out) :
    TrInv wp rp k n src (i + 1) 0 out := by
  refine ⟨h.1, ?_⟩
  intro b' i' hb' hi' hc
  apply h.2 b' i' hb' hi'
  rcases hc with hc | ⟨_, hc⟩
  · by_cases he : i' = i
    · exact Or.inr ⟨he, hb'⟩
    · exact Or.inl (by omega)
  · omega

theorem TrInv_init (wp rp : Nat → Nat → Nat) (k n : Nat) (src out : List UInt8) (h : out.length = k * n) :
    TrInv wp rp k n src 0 0 out := ⟨h, fun _ _ _ _ hc => by omega⟩

/-- stream-major position `b * n + i` -/
abbrev posS (n : Nat) (b i : Nat) : Nat := b * n + i
/-- value-major position `i * k + b` -/
abbrev posV (k : Nat) (b i : Nat) : Nat := i * k + b

theorem posS_inj (k n b i : Nat) (hi : i < n) : ∀ b' i', b' < k → i' < n → posS n b' i' = posS n b i → b' = b ∧ i' = i :=
  fun b' i' _ hi' h => mul_add_inj b' b i' i n hi' hi h

theorem posV_inj (k n b i : Nat) (hb : b < k) : ∀ b' i', b' < k → i' < n → posV k b' i' = posV k b i → b' = b ∧ i' = i :=
  fun b' i' hb' _ h => (mul_add_inj i' i b' b k hb' hb h).symm

set_option hygiene false in
/-- inner loop (`for (int b = 0; b < k; b++)`) of one of the four functions -/
local macro "tr_inner" l:ident ld:ident k:num wp:term ", " rp:term ", " hinj:term : tactic => `(tactic| (
  intro d
  induction d with
  | zero =>
    intro b out fuel hb hf hinv
    obtain ⟨f, rfl⟩ : ∃ f, fuel = f + 1 := ⟨fuel - 1, by omega⟩
    have : b = $k := by omega
    subst this
    simpa [$l:ident, $ld:ident, show BitVec.slt (BitVec.ofNat 32 $k) (BitVec.ofNat 32 $k) = false by decide] using hinv
  | succ d ih =>
    intro b out fuel hb hf hinv
    obtain ⟨f, rfl⟩ : ∃ f, fuel = f + 1 := ⟨fuel - 1, by omega⟩
    have hbk : b < $k := by omega
    have hlt : BitVec.slt (BitVec.ofNat 32 b) (BitVec.ofNat 32 $k) = true := by
      rw [slt_ofNat _ _ (by omega) (by omega)]; simp [hbk]
    have hbn : b * n + i < $k * n := mul_add_lt b i n $k hi hbk
    have hik : i * $k + b < $k * n := by rw [Nat.mul_comm $k n]; exact mul_add_lt i b $k n hbk hi
    have hnext := ih (b + 1) (wr8 out ($wp b i) (rd8 src ($rp b i))) f (by omega) (by omega)
      (TrInv_step $wp $rp $k n src out i b hi hbk $hinj (by first | exact hbn | exact hik) hinv)
    simp only [$l:ident, $ld:ident, hlt, if_true,
      sext64 b (by omega), i64_mul, i64_add, i64_toIntNat _ (show b * n + i < 2 ^ 63 by omega),
      i64_toIntNat _ (show i * $k + b < 2 ^ 63 by omega), i64_msb _ (show b * n + i < 2 ^ 63 by omega),
      i64_msb _ (show i * $k + b < 2 ^ 63 by omega),
      i64_sMulOk b n (by omega) (by omega) (by omega), i64_sMulOk i $k (by omega) (by omega) (by omega),
      i64_sAddOk (b * n) i (by omega), i64_sAddOk (i * $k) b (by omega), ofNat_add_one, sAddOk_small b (by omega),
      inb_of_lt src _ (show $rp b i < src.length by first | (rw [hs]; exact hbn) | (rw [hs]; exact hik)),
      inb_of_lt out _ (show $wp b i < out.length by first | (rw [hinv.1]; exact hbn) | (rw [hinv.1]; exact hik))]
    exact ⟨hnext.1, by simpa using hnext.2⟩))

set_option hygiene false in
/-- outer loop (`for (int64_t i = 0; i < count; i++)`) -/
local macro "tr_outer" l:ident ld:ident inner:ident k:num wp:term ", " rp:term : tactic => `(tactic| (
  intro d
  induction d with
  | zero =>
    intro i out fuel hi hf hinv
    obtain ⟨f, rfl⟩ : ∃ f, fuel = f + 1 := ⟨fuel - 1, by omega⟩
    have : i = n := by omega
    subst this
    have hge : BitVec.slt (BitVec.ofNat 64 i) (BitVec.ofNat 64 i) = false := by
      rw [i64_slt _ _ (by omega) (by omega)]; simp
    simpa [$l:ident, $ld:ident, hge] using hinv
  | succ d ih =>
    intro i out fuel hi hf hinv
    obtain ⟨f, rfl⟩ : ∃ f, fuel = f + 1 := ⟨fuel - 1, by omega⟩
    have hlt : BitVec.slt (BitVec.ofNat 64 i) (BitVec.ofNat 64 n) = true := by
      rw [i64_slt _ _ (by omega) (by omega)]; simp; omega
    have hin := $inner src n hs hn i (by omega) $k 0 out ($k + 1) (by omega) (by omega) hinv
    have hnext := ih (i + 1) _ f (by omega) (by omega) (TrInv_next $wp $rp $k n src _ i hin.1)
    simp only [$l:ident, $ld:ident, hlt, if_true] at hin ⊢
    simp only [hin.2, i64_add_one, i64_sAddOk_one _ (show i + 1 < 2 ^ 63 by omega), Bool.true_and]
    exact ⟨hnext.1, hnext.2⟩))

theorem enc_float_inner (src : List UInt8) (n : Nat) (hs : src.length = 4 * n) (hn : 4 * n + 8 < 2 ^ 63) (i : Nat) (hi : i < n) :
    ∀ (d b : Nat) (out : List UInt8) (fuel : Nat), b + d = 4 → d < fuel → TrInv (posS n) (posV 4) 4 n src i b out →
      TrInv (posS n) (posV 4) 4 n src i 4 (Gen.CFun.scalar_byte_split_encode_float_loop2 fuel src (BitVec.ofNat 64 n) out
        (BitVec.ofNat 64 i) (BitVec.ofNat 32 b)).1 ∧
      Gen.CFun.scalar_byte_split_encode_float_loop2_defined fuel src (BitVec.ofNat 64 n) out (BitVec.ofNat 64 i)
        (BitVec.ofNat 32 b) = true := by
  tr_inner Gen.CFun.scalar_byte_split_encode_float_loop2 Gen.CFun.scalar_byte_split_encode_float_loop2_defined 4
    (posS n), (posV 4), (posS_inj 4 n b i hi)

theorem enc_float_outer (src : List UInt8) (n : Nat) (hs : src.length = 4 * n) (hn : 4 * n + 8 < 2 ^ 63) :
    ∀ (d i : Nat) (out : List UInt8) (fuel : Nat), i + d = n → d < fuel → TrInv (posS n) (posV 4) 4 n src i 0 out →
      TrInv (posS n) (posV 4) 4 n src n 0 (Gen.CFun.scalar_byte_split_encode_float_loop1 fuel src (BitVec.ofNat 64 n) out
        (BitVec.ofNat 64 i)) ∧
      Gen.CFun.scalar_byte_split_encode_float_loop1_defined fuel src (BitVec.ofNat 64 n) out (BitVec.ofNat 64 i) = true := by
  tr_outer Gen.CFun.scalar_byte_split_encode_float_loop1 Gen.CFun.scalar_byte_split_encode_float_loop1_defined enc_float_inner 4
    (posS n), (posV 4)

theorem enc_double_inner (src : List UInt8) (n : Nat) (hs : src.length = 8 * n) (hn : 8 * n + 8 < 2 ^ 63) (i : Nat) (hi : i < n) :
    ∀ (d b : Nat) (out : List UInt8) (fuel : Nat), b + d = 8 → d < fuel → TrInv (posS n) (posV 8) 8 n src i b out →
      TrInv (posS n) (posV 8) 8 n src i 8 (Gen.CFun.scalar_byte_split_encode_double_loop2 fuel src (BitVec.ofNat 64 n) out
        (BitVec.ofNat 64 i) (BitVec.ofNat 32 b)).1 ∧
      Gen.CFun.scalar_byte_split_encode_double_loop2_defined fuel src (BitVec.ofNat 64 n) out (BitVec.ofNat 64 i)
        (BitVec.ofNat 32 b) = true := by
  tr_inner Gen.CFun.scalar_byte_split_encode_double_loop2 Gen.CFun.scalar_byte_split_encode_double_loop2_defined 8
    (posS n), (posV 8), (posS_inj 8 n b i hi)

theorem enc_double_outer (src : List UInt8) (n : Nat) (hs : src.length = 8 * n) (hn : 8 * n + 8 < 2 ^ 63) :
    ∀ (d i : Nat) (out : List UInt8) (fuel : Nat), i + d = n → d < fuel → TrInv (posS n) (posV 8) 8 n src i 0 out →
      TrInv (posS n) (posV 8) 8 n src n 0 (Gen.CFun.scalar_byte_split_encode_double_loop1 fuel src (BitVec.ofNat 64 n) out
        (BitVec.ofNat 64 i)) ∧
      Gen.CFun.scalar_byte_split_encode_double_loop1_defined fuel src (BitVec.ofNat 64 n) out (BitVec.ofNat 64 i) = true := by
  tr_outer Gen.CFun.scalar_byte_split_encode_double_loop1 Gen.CFun.scalar_byte_split_encode_double_loop1_defined enc_double_inner 8
    (posS n), (posV 8)

theorem dec_float_inner (src : List UInt8) (n : Nat) (hs : src.length = 4 * n) (hn : 4 * n + 8 < 2 ^ 63) (i : Nat) (hi : i < n) :
    ∀ (d b : Nat) (out : List UInt8) (fuel : Nat), b + d = 4 → d < fuel → TrInv (posV 4) (posS n) 4 n src i b out →
      TrInv (posV 4) (posS n) 4 n src i 4 (Gen.CFun.scalar_byte_split_decode_float_loop2 fuel src (BitVec.ofNat 64 n) out
        (BitVec.ofNat 64 i) (BitVec.ofNat 32 b)).1 ∧
      Gen.CFun.scalar_byte_split_decode_float_loop2_defined fuel src (BitVec.ofNat 64 n) out (BitVec.ofNat 64 i)
        (BitVec.ofNat 32 b) = true := by
  tr_inner Gen.CFun.scalar_byte_split_decode_float_loop2 Gen.CFun.scalar_byte_split_decode_float_loop2_defined 4
    (posV 4), (posS n), (posV_inj 4 n b i hbk)

theorem dec_float_outer (src : List UInt8) (n : Nat) (hs : src.length = 4 * n) (hn : 4 * n + 8 < 2 ^ 63) :
    ∀ (d i : Nat) (out : List UInt8) (fuel : Nat), i + d = n → d < fuel → TrInv (posV 4) (posS n) 4 n src i 0 out →
      TrInv (posV 4) (posS n) 4 n src n 0 (Gen.CFun.scalar_byte_split_decode_float_loop1 fuel src (BitVec.ofNat 64 n) out
        (BitVec.ofNat 64 i)) ∧
      Gen.CFun.scalar_byte_split_decode_float_loop1_defined fuel src (BitVec.ofNat 64 n) out (BitVec.ofNat 64 i) = true := by
  tr_outer Gen.CFun.scalar_byte_split_decode_float_loop1 Gen.CFun.scalar_byte_split_decode_float_loop1_defined dec_float_inner 4
    (posV 4), (posS n)

theorem dec_double_inner (src : List UInt8) (n : Nat) (hs : src.length = 8 * n) (hn : 8 * n + 8 < 2 ^ 63) (i : Nat) (hi : i < n) :
    ∀ (d b : Nat) (out : List UInt8) (fuel : Nat), b + d = 8 → d < fuel → TrInv (posV 8) (posS n) 8 n src i b out →
      TrInv (posV 8) (posS n) 8 n src i 8 (Gen.CFun.scalar_byte_split_decode_double_loop2 fuel src (BitVec.ofNat 64 n) out
        (BitVec.ofNat 64 i) (BitVec.ofNat 32 b)).1 ∧
      Gen.CFun.scalar_byte_split_decode_double_loop2_defined fuel src (BitVec.ofNat 64 n) out (BitVec.ofNat 64 i)
        (BitVec.ofNat 32 b) = true := by
  tr_inner Gen.CFun.scalar_byte_split_decode_double_loop2 Gen.CFun.scalar_byte_split_decode_double_loop2_defined 8
    (posV 8), (posS n), (posV_inj 8 n b i hbk)

theorem dec_double_outer (src : List UInt8) (n : Nat) (hs : src.length = 8 * n) (hn : 8 * n + 8 < 2 ^ 63) :
    ∀ (d i : Nat) (out : List UInt8) (fuel : Nat), i + d = n → d < fuel → TrInv (posV 8) (posS n) 8 n src i 0 out →
      TrInv (posV 8) (posS n) 8 n src n 0 (Gen.CFun.scalar_byte_split_decode_double_loop1 fuel src (BitVec.ofNat 64 n) out
        (BitVec.ofNat 64 i)) ∧
      Gen.CFun.scalar_byte_split_decode_double_loop1_defined fuel src (BitVec.ofNat 64 n) out (BitVec.ofNat 64 i) = true := by
  tr_outer Gen.CFun.scalar_byte_split_decode_double_loop1 Gen.CFun.scalar_byte_split_decode_double_loop1_defined dec_double_inner 8
    (posV 8), (posS n)

/-! ### from the pointwise characterisation to the models -/

theorem flatMap_range_length {α : Type} (f : Nat → List α) (n : Nat) (hf : ∀ b, (f b).length = n) :
    ∀ k, ((List.range k).flatMap f).length = k * n := by
  intro k
  induction k with
  | zero => simp
  | succ k ih => rw [List.range_succ, List.flatMap_append, List.length_append, ih]; simp [hf, Nat.add_mul]

theorem flatMap_range_getElem? {α : Type} (f : Nat → List α) (n : Nat) (hf : ∀ b, (f b).length = n) :
    ∀ k b i, b < k → i < n → ((List.range k).flatMap f)[b * n + i]? = (f b)[i]? := by
  intro k
  induction k with
  | zero => intro b i hb; omega
  | succ k ih =>
    intro b i hb hi
    have hlen := flatMap_range_length f n hf k
    rw [List.range_succ, List.flatMap_append]
    by_cases hbk : b < k
    · rw [List.getElem?_append_left (by rw [hlen]; exact mul_add_lt b i n k hi hbk)]
      exact ih b i hbk hi
    · have : b = k := by omega
      subst this
      rw [List.getElem?_append_right (by rw [hlen]; omega), hlen]
      simp

theorem flatMap_getElem? {α β : Type} (g : α → List β) (k : Nat) (hg : ∀ v, (g v).length = k) :
    ∀ (vals : List α) (i b : Nat) (hi : i < vals.length), b < k → (vals.flatMap g)[i * k + b]? = (g vals[i])[b]? := by
  intro vals
  induction vals with
  | nil => intro i b hi; simp at hi
  | cons v vs ih =>
    intro i b hi hb
    rw [List.flatMap_cons]
    cases i with
    | zero => simp; rw [List.getElem?_append_left (by rw [hg]; exact hb)]
    | succ i =>
      rw [List.getElem?_append_right (by rw [hg]; rw [Nat.add_mul]; omega), hg]
      have : (i + 1) * k + b - k = i * k + b := by rw [Nat.add_mul]; omega
      rw [this]
      simpa using ih i b (by simpa using hi) hb

theorem ext_pointwise (k n : Nat) (a b : List UInt8) (ha : a.length = k * n) (hb : b.length = k * n)
    (h : ∀ b', b' < k → ∀ i', i' < n → a.getD (b' * n + i') 0 = b.getD (b' * n + i') 0) : a = b := by
  apply List.ext_getElem (by rw [ha, hb])
  intro p h1 h2
  have hn : 0 < n := by
    rcases Nat.eq_zero_or_pos n with h0 | h0
    · subst h0; simp at ha; rw [ha] at h1; omega
    · exact h0
  have hp : p < k * n := by rw [← ha]; exact h1
  have hdiv : p / n < k := by
    rw [Nat.div_lt_iff_lt_mul hn]; exact hp
  have := h (p / n) hdiv (p % n) (Nat.mod_lt _ hn)
  rw [Nat.mul_comm, Nat.div_add_mod] at this
  simpa [List.getD, List.getElem?_eq_getElem h1, List.getElem?_eq_getElem h2] using this

theorem bytesLE_length (k : Nat) (v : BitVec (8 * k)) : (bytesLE k v).length = k := by simp [bytesLE]

/-- the model's encoder: stream-major position `b * n + i` holds byte `b` of value `i` -/
theorem bssEncode_getD (k : Nat) (vals : List (BitVec (8 * k))) (b i : Nat) (hb : b < k) (hi : i < vals.length) :
    (Spec.Kernels.bssEncode vals).getD (b * vals.length + i) 0 = Spec.Kernels.byteOf vals[i] b := by
  unfold Spec.Kernels.bssEncode
  simp only [List.getD]
  rw [flatMap_range_getElem? _ vals.length (by simp) k b i hb hi]
  simp [List.getElem?_map, List.getElem?_eq_getElem hi]

theorem bytesOf_getD (k : Nat) (vals : List (BitVec (8 * k))) (b i : Nat) (hb : b < k) (hi : i < vals.length) :
    (vals.flatMap (bytesLE k)).getD (i * k + b) 0 = Spec.Kernels.byteOf vals[i] b := by
  simp only [List.getD]
  rw [flatMap_getElem? _ k (bytesLE_length k) vals i b hi hb]
  simp [bytesLE, List.getElem?_map, List.getElem?_range hb]

theorem bssEncode_length (k : Nat) (vals : List (BitVec (8 * k))) : (Spec.Kernels.bssEncode vals).length = k * vals.length :=
  flatMap_range_length _ vals.length (by simp) k

theorem bytesOf_length (k : Nat) (vals : List (BitVec (8 * k))) : (vals.flatMap (bytesLE k)).length = k * vals.length := by
  induction vals with
  | nil => simp
  | cons v vs ih => simp [List.flatMap_cons, ih, bytesLE_length, Nat.mul_add]; omega

theorem bytesLE32_eq (v : BitVec 32) : bytesLE32 v = bytesLE 4 v := by
  simp [bytesLE32, bytesLE, List.range, List.range.loop]

/-- `scalar_byte_split_encode_float(values, count, output)`: `values` = the `count` floats as bytes in memory -/
theorem scalar_bss_encode_float_eq (vals : List (BitVec 32)) (out : List UInt8) (ho : out.length = 4 * vals.length)
    (hn : 4 * vals.length + 8 < 2 ^ 63) :
    Gen.CFun.scalar_byte_split_encode_float (vals.flatMap bytesLE32) (BitVec.ofNat 64 vals.length) out =
      scalarBssEncodeFloat vals ∧
    Gen.CFun.scalar_byte_split_encode_float_defined (vals.flatMap bytesLE32) (BitVec.ofNat 64 vals.length) out = true := by
  have hsrc : vals.flatMap bytesLE32 = vals.flatMap (bytesLE 4) := by congr 1
  have hs : (vals.flatMap bytesLE32).length = 4 * vals.length := by rw [hsrc]; exact bytesOf_length 4 vals
  have h := enc_float_outer _ vals.length hs hn vals.length 0 out (vals.length + 1) (by omega) (by omega)
    (TrInv_init _ _ 4 _ _ out ho)
  simp only [Gen.CFun.scalar_byte_split_encode_float, Gen.CFun.scalar_byte_split_encode_float_defined,
    i64_toIntNat _ (show vals.length < 2 ^ 63 by omega)]
  refine ⟨?_, h.2⟩
  rw [SimdScalar.scalar_bss_enc_float]
  apply ext_pointwise 4 vals.length _ _ h.1.1 (bssEncode_length 4 vals)
  intro b hb i hi
  rw [h.1.2 b i hb hi (Or.inl hi), hsrc]
  show _ = (Spec.Kernels.bssEncode (k := 4) vals).getD (b * vals.length + i) 0
  rw [bssEncode_getD 4 vals b i hb hi]
  exact bytesOf_getD 4 vals b i hb hi

theorem scalar_bss_encode_double_eq (vals : List (BitVec 64)) (out : List UInt8) (ho : out.length = 8 * vals.length)
    (hn : 8 * vals.length + 8 < 2 ^ 63) :
    Gen.CFun.scalar_byte_split_encode_double (vals.flatMap (bytesLE 8)) (BitVec.ofNat 64 vals.length) out =
      scalarBssEncodeDouble vals ∧
    Gen.CFun.scalar_byte_split_encode_double_defined (vals.flatMap (bytesLE 8)) (BitVec.ofNat 64 vals.length) out = true := by
  have hs : (vals.flatMap (bytesLE 8)).length = 8 * vals.length := bytesOf_length 8 vals
  have h := enc_double_outer _ vals.length hs hn vals.length 0 out (vals.length + 1) (by omega) (by omega)
    (TrInv_init _ _ 8 _ _ out ho)
  simp only [Gen.CFun.scalar_byte_split_encode_double, Gen.CFun.scalar_byte_split_encode_double_defined,
    i64_toIntNat _ (show vals.length < 2 ^ 63 by omega)]
  refine ⟨?_, h.2⟩
  rw [SimdScalar.scalar_bss_enc_double]
  apply ext_pointwise 8 vals.length _ _ h.1.1 (bssEncode_length 8 vals)
  intro b hb i hi
  rw [h.1.2 b i hb hi (Or.inl hi)]
  show _ = (Spec.Kernels.bssEncode (k := 8) vals).getD (b * vals.length + i) 0
  rw [bssEncode_getD 8 vals b i hb hi]
  exact bytesOf_getD 8 vals b i hb hi

/-- the `n` little-endian `k`-byte values an array of bytes holds (how the C caller reads `float* values`) -/
def valuesOf (k n : Nat) (bytes : List UInt8) : List (BitVec (8 * k)) :=
  (List.range n).map fun i => Spec.Kernels.leValue k ((List.range k).map fun b => bytes.getD (i * k + b) 0)

theorem valuesOf_of_inv (k n : Nat) (data out : List UInt8) (hd : data.length = k * n)
    (h : TrInv (posV k) (posS n) k n data n 0 out) : scalarBssDecode k n data = some (valuesOf k n out) := by
  rw [SimdScalar.scalar_bss_dec k n data hd, Spec.Kernels.bssDecode, if_pos hd]
  congr 1
  apply List.map_congr_left
  intro i hi
  congr 1
  apply List.map_congr_left
  intro b hb
  exact (h.2 b i (by simpa using hb) (by simpa using hi) (Or.inl (by simpa using hi))).symm

/-- `scalar_byte_split_decode_float(data, count, values)` on exactly `4 * count` input bytes -/
theorem scalar_bss_decode_float_eq (data out : List UInt8) (n : Nat) (hd : data.length = 4 * n) (ho : out.length = 4 * n)
    (hn : 4 * n + 8 < 2 ^ 63) :
    scalarBssDecodeFloat n data = some (valuesOf 4 n (Gen.CFun.scalar_byte_split_decode_float data (BitVec.ofNat 64 n) out)) ∧
    Gen.CFun.scalar_byte_split_decode_float_defined data (BitVec.ofNat 64 n) out = true := by
  have h := dec_float_outer data n hd hn n 0 out (n + 1) (by omega) (by omega) (TrInv_init _ _ 4 _ _ out ho)
  simp only [Gen.CFun.scalar_byte_split_decode_float, Gen.CFun.scalar_byte_split_decode_float_defined,
    i64_toIntNat _ (show n < 2 ^ 63 by omega)]
  exact ⟨valuesOf_of_inv 4 n data _ hd h.1, h.2⟩

theorem scalar_bss_decode_double_eq (data out : List UInt8) (n : Nat) (hd : data.length = 8 * n) (ho : out.length = 8 * n)
    (hn : 8 * n + 8 < 2 ^ 63) :
    scalarBssDecodeDouble n data = some (valuesOf 8 n (Gen.CFun.scalar_byte_split_decode_double data (BitVec.ofNat 64 n) out)) ∧
    Gen.CFun.scalar_byte_split_decode_double_defined data (BitVec.ofNat 64 n) out = true := by
  have h := dec_double_outer data n hd hn n 0 out (n + 1) (by omega) (by omega) (TrInv_init _ _ 8 _ _ out ho)
  simp only [Gen.CFun.scalar_byte_split_decode_double, Gen.CFun.scalar_byte_split_decode_double_defined,
    i64_toIntNat _ (show n < 2 ^ 63 by omega)]
  exact ⟨valuesOf_of_inv 8 n data _ hd h.1, h.2⟩

end Carquet.Proofs.CFunB
