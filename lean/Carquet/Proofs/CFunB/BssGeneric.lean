import Carquet.Proofs.CFunB.Bss
import Carquet.Impl.Bss
import Carquet.Proofs.Bss
/-
`carquet_byte_stream_split_encode` / `_decode` (src/encoding/byte_stream_split.c: the generic FIXED_LEN_BYTE_ARRAY loops,
with their argument checks) as translated from the current C source, against Impl.Bss.encode / decode.
-/
namespace Carquet.Proofs.CFunB
open Carquet Carquet.Impl Carquet.Impl.CSem Carquet.Proofs.CFun2

theorem i32_slt (a b : Nat) (ha : a < 2 ^ 31) (hb : b < 2 ^ 31) :
    BitVec.slt (BitVec.ofNat 32 a) (BitVec.ofNat 32 b) = decide (a < b) := slt_ofNat a b ha hb

/-! ### encode: `for (b < type_length) for (i < count) output[b * count + i] = values[i * type_length + b]` -/

/-- write / read position of the encoder, inner index first -/
abbrev encW (n : Nat) (i b : Nat) : Nat := b * n + i
abbrev encR (k : Nat) (i b : Nat) : Nat := i * k + b

theorem bss_enc_inner (src : List UInt8) (n k : Nat) (hs : src.length = n * k) (hn : n * k + k + n < 2 ^ 63) (hk : k < 2 ^ 31)
    (b : Nat) (hb : b < k) (cap bw req : BitVec 64) :
    ∀ (d i : Nat) (out : List UInt8) (fuel : Nat), i + d = n → d < fuel → TrInv (encW n) (encR k) n k src b i out →
      TrInv (encW n) (encR k) n k src b n (Gen.CFun.carquet_byte_stream_split_encode_loop2 fuel src (BitVec.ofNat 64 n)
        (BitVec.ofNat 32 k) out cap bw req (BitVec.ofNat 32 b) (BitVec.ofNat 64 i)).1 ∧
      Gen.CFun.carquet_byte_stream_split_encode_loop2_defined fuel src (BitVec.ofNat 64 n) (BitVec.ofNat 32 k) out cap bw req
        (BitVec.ofNat 32 b) (BitVec.ofNat 64 i) = true := by
  intro d
  induction d with
  | zero =>
    intro i out fuel hi hf hinv
    obtain ⟨f, rfl⟩ : ∃ f, fuel = f + 1 := ⟨fuel - 1, by omega⟩
    have : i = n := by omega
    subst this
    have hge : BitVec.slt (BitVec.ofNat 64 i) (BitVec.ofNat 64 i) = false := by
      rw [i64_slt _ _ (by omega) (by omega)]; simp
    simpa [Gen.CFun.carquet_byte_stream_split_encode_loop2, Gen.CFun.carquet_byte_stream_split_encode_loop2_defined, hge] using hinv
  | succ d ih =>
    intro i out fuel hi hf hinv
    obtain ⟨f, rfl⟩ : ∃ f, fuel = f + 1 := ⟨fuel - 1, by omega⟩
    have hin : i < n := by omega
    have hlt : BitVec.slt (BitVec.ofNat 64 i) (BitVec.ofNat 64 n) = true := by
      rw [i64_slt _ _ (by omega) (by omega)]; simp [hin]
    have hw : b * n + i < n * k := by rw [Nat.mul_comm n k]; exact mul_add_lt b i n k hin hb
    have hr : i * k + b < n * k := mul_add_lt i b k n hb hin
    have hnext := ih (i + 1) (wr8 out (encW n i b) (rd8 src (encR k i b))) f (by omega) (by omega)
      (TrInv_step (encW n) (encR k) n k src out b i hb hin
        (fun i' b' hi' _ h => mul_add_inj b' b i' i n hi' hin h |>.symm) hw hinv)
    simp only [Gen.CFun.carquet_byte_stream_split_encode_loop2, Gen.CFun.carquet_byte_stream_split_encode_loop2_defined, hlt, if_true,
      sext64 b (by omega), sext64 k hk, i64_mul, i64_add, i64_toIntNat _ (show b * n + i < 2 ^ 63 by omega),
      i64_toIntNat _ (show i * k + b < 2 ^ 63 by omega), i64_msb _ (show b * n + i < 2 ^ 63 by omega),
      i64_msb _ (show i * k + b < 2 ^ 63 by omega),
      i64_sMulOk b n (by omega) (by omega) (by omega), i64_sMulOk i k (by omega) (by omega) (by omega),
      i64_sAddOk (b * n) i (by omega), i64_sAddOk (i * k) b (by omega), i64_sAddOk_one i (by omega),
      inb_of_lt src _ (show i * k + b < src.length by rw [hs]; exact hr),
      inb_of_lt out _ (show b * n + i < out.length by rw [hinv.1]; exact hw)]
    exact ⟨hnext.1, by simpa using hnext.2⟩

theorem bss_enc_outer (src : List UInt8) (n k : Nat) (hs : src.length = n * k) (hn : n * k + k + n < 2 ^ 63) (hk : k < 2 ^ 30)
    (cap bw req : BitVec 64) :
    ∀ (d b : Nat) (out : List UInt8) (fuel : Nat), b + d = k → d < fuel → TrInv (encW n) (encR k) n k src b 0 out →
      (Gen.CFun.carquet_byte_stream_split_encode_loop1 fuel src (BitVec.ofNat 64 n) (BitVec.ofNat 32 k) out cap bw req
        (BitVec.ofNat 32 b)).1 = 0#32 ∧
      TrInv (encW n) (encR k) n k src k 0 (Gen.CFun.carquet_byte_stream_split_encode_loop1 fuel src (BitVec.ofNat 64 n)
        (BitVec.ofNat 32 k) out cap bw req (BitVec.ofNat 32 b)).2.1 ∧
      (Gen.CFun.carquet_byte_stream_split_encode_loop1 fuel src (BitVec.ofNat 64 n) (BitVec.ofNat 32 k) out cap bw req
        (BitVec.ofNat 32 b)).2.2 = req ∧
      Gen.CFun.carquet_byte_stream_split_encode_loop1_defined fuel src (BitVec.ofNat 64 n) (BitVec.ofNat 32 k) out cap bw req
        (BitVec.ofNat 32 b) = true := by
  intro d
  induction d with
  | zero =>
    intro b out fuel hb hf hinv
    obtain ⟨f, rfl⟩ : ∃ f, fuel = f + 1 := ⟨fuel - 1, by omega⟩
    have : b = k := by omega
    subst this
    have hge : BitVec.slt (BitVec.ofNat 32 b) (BitVec.ofNat 32 b) = false := by
      rw [i32_slt _ _ (by omega) (by omega)]; simp
    simpa [Gen.CFun.carquet_byte_stream_split_encode_loop1, Gen.CFun.carquet_byte_stream_split_encode_loop1_defined, hge] using hinv
  | succ d ih =>
    intro b out fuel hb hf hinv
    obtain ⟨f, rfl⟩ : ∃ f, fuel = f + 1 := ⟨fuel - 1, by omega⟩
    have hlt : BitVec.slt (BitVec.ofNat 32 b) (BitVec.ofNat 32 k) = true := by
      rw [i32_slt _ _ (by omega) (by omega)]; simp; omega
    have hin := bss_enc_inner src n k hs hn (by omega) b (by omega) cap bw req n 0 out (n + 1) (by omega) (by omega) hinv
    have hnext := ih (b + 1) _ f (by omega) (by omega) (TrInv_next (encW n) (encR k) n k src _ b hin.1)
    simp only [Gen.CFun.carquet_byte_stream_split_encode_loop1, Gen.CFun.carquet_byte_stream_split_encode_loop1_defined, hlt, if_true,
      i64_toIntNat n (by omega)] at hin ⊢
    simp only [hin.2, ofNat_add_one, sAddOk_small b (by omega), Bool.true_and]
    exact hnext

/-- what `scatterSeq` yields when every read is inside `values`: stream-major position `b * n + i` holds `values[i * k + b]` -/
theorem scatterSeq_pointwise (k n : Nat) (values : List UInt8) (hs : values.length = n * k) :
    ∃ L, Bss.scatterSeq k values n = some L ∧ L.length = k * n ∧
      ∀ b, b < k → ∀ i, i < n → L.getD (b * n + i) 0 = values.getD (i * k + b) 0 := by
  refine ⟨((List.range k).map fun b => (List.range n).map fun i => values.getD (i * k + b) 0).flatten, ?_, ?_, ?_⟩
  · unfold Bss.scatterSeq
    have hrow : ∀ b ∈ List.range k, Bss.mapOpt (fun i => values[i * k + b]?) (List.range n) =
        some ((List.range n).map fun i => values.getD (i * k + b) 0) := by
      intro b hb
      apply Bss.mapOpt_eq_some_map
      intro i hi
      have : i * k + b < values.length := by
        rw [hs]; exact mul_add_lt i b k n (by simpa using hb) (by simpa using hi)
      simp [List.getD, List.getElem?_eq_getElem this]
    rw [Bss.mapOpt_eq_some_map (List.range k) hrow]
  · rw [← List.flatMap_def]; exact flatMap_range_length _ n (by simp) k
  · intro b hb i hi
    rw [← List.flatMap_def]
    simp only [List.getD]
    rw [flatMap_range_getElem? _ n (by simp) k b i hb hi]
    simp [List.getElem?_map, List.getElem?_range hi]

/-- `carquet_byte_stream_split_encode(values, count, type_length, output, capacity, &written)`, success path: `count` values of
`type_length` bytes, an output of exactly that many bytes -/
theorem bss_encode_ok (values out : List UInt8) (n k : Nat) (cap : Nat) (bw : BitVec 64) (hk0 : 0 < k) (hk : k < 2 ^ 30)
    (hs : values.length = n * k) (ho : out.length = n * k) (hn : n * k + k + n < 2 ^ 63) (hcap : n * k ≤ cap) (hc : cap < 2 ^ 64) :
    (∃ L, Bss.encode values (n : Int) (k : Int) cap = .ok L ∧
      Gen.CFun.carquet_byte_stream_split_encode values (BitVec.ofNat 64 n) (BitVec.ofNat 32 k) out (BitVec.ofNat 64 cap) bw =
        (0#32, L, BitVec.ofNat 64 L.length)) ∧
    Gen.CFun.carquet_byte_stream_split_encode_defined values (BitVec.ofNat 64 n) (BitVec.ofNat 32 k) out (BitVec.ofNat 64 cap) bw
      = true := by
  obtain ⟨L, hL, hLlen, hLp⟩ := scatterSeq_pointwise k n values hs
  have hsle : BitVec.sle (BitVec.ofNat 32 k) 0#32 = false := by
    rw [BitVec.sle_eq_decide, ofNat_toInt_small k (by omega)]; simp; omega
  have hreq : BitVec.ofNat 64 n * BitVec.signExtend 64 (BitVec.ofNat 32 k) = BitVec.ofNat 64 (n * k) := by
    rw [sext64 k (by omega), i64_mul]
  have hcapb : decide (BitVec.ofNat 64 cap < BitVec.ofNat 64 (n * k)) = false := by
    rw [u64_lt _ _ hc (by omega)]; simp; omega
  have h := bss_enc_outer values n k hs hn hk (BitVec.ofNat 64 cap) bw (BitVec.ofNat 64 (n * k)) k 0 out (k + 1) (by omega) (by omega)
    (TrInv_init _ _ n k values out ho)
  have hres : (Gen.CFun.carquet_byte_stream_split_encode_loop1 (k + 1) values (BitVec.ofNat 64 n) (BitVec.ofNat 32 k) out
      (BitVec.ofNat 64 cap) bw (BitVec.ofNat 64 (n * k)) (BitVec.ofNat 32 0)).2.1 = L := by
    apply ext_pointwise k n _ _ (by rw [h.2.1.1, Nat.mul_comm]) hLlen
    intro b hb i hi
    rw [hLp b hb i hi]
    exact h.2.1.2 i b hi hb (Or.inl hb)
  refine ⟨⟨L, ?_, ?_⟩, ?_⟩
  · unfold Bss.encode
    have h1 : ¬ ((k : Int) ≤ 0) := by omega
    have h2 : ¬ cap < Bss.requiredSize (n : Int) (k : Int).toNat := by
      simp only [Bss.requiredSize, Bss.sizeT, Int.toNat_natCast]
      have : ((n : Int) % 2 ^ 64).toNat = n := by
        have hn' : n < 2 ^ 64 := by omega
        omega
      rw [this, Nat.mod_eq_of_lt (by omega)]; omega
    simp only [Int.toNat_natCast] at h2
    simp only [h1, if_false, h2, Int.toNat_natCast, hL]
  · simp only [Gen.CFun.carquet_byte_stream_split_encode, Bool.or_self, hsle, Bool.false_eq_true, if_false, hreq,
      hcapb, ofNat_toInt_small k (by omega), Int.toNat_natCast]
    rw [show (0#32 : BitVec 32) = BitVec.ofNat 32 0 from rfl]
    apply Prod.ext h.1
    apply Prod.ext hres
    simp only [h.2.2.1, hLlen, Nat.mul_comm]
  · simp only [Gen.CFun.carquet_byte_stream_split_encode_defined, Bool.or_self, hsle, Bool.false_eq_true, if_false, hreq,
      hcapb, ofNat_toInt_small k (by omega), Int.toNat_natCast]
    exact h.2.2.2

/-- `type_length <= 0` is refused before anything is read -/
theorem bss_encode_invalid (values out : List UInt8) (count cap bw : BitVec 64) (tl : BitVec 32) (h : tl.toInt ≤ 0) :
    Gen.CFun.carquet_byte_stream_split_encode values count tl out cap bw = (1#32, out, bw) ∧
    Gen.CFun.carquet_byte_stream_split_encode_defined values count tl out cap bw = true ∧
    Bss.encode values count.toInt tl.toInt cap.toNat = .error .invalidArgument := by
  have hsle : BitVec.sle tl 0#32 = true := by rw [BitVec.sle_eq_decide]; simpa using h
  simp [Gen.CFun.carquet_byte_stream_split_encode, Gen.CFun.carquet_byte_stream_split_encode_defined, hsle, Bss.encode, h]

/-- an output capacity below `count * type_length` is refused -/
theorem bss_encode_small (values out : List UInt8) (n k cap : Nat) (bw : BitVec 64) (hk0 : 0 < k) (hk : k < 2 ^ 30)
    (hn : n * k < 2 ^ 63) (hn2 : n < 2 ^ 63) (hcap : cap < n * k) :
    Gen.CFun.carquet_byte_stream_split_encode values (BitVec.ofNat 64 n) (BitVec.ofNat 32 k) out (BitVec.ofNat 64 cap) bw =
      (41#32, out, bw) ∧
    Gen.CFun.carquet_byte_stream_split_encode_defined values (BitVec.ofNat 64 n) (BitVec.ofNat 32 k) out (BitVec.ofNat 64 cap) bw
      = true ∧
    Bss.encode values (n : Int) (k : Int) cap = .error .encode := by
  have hsle : BitVec.sle (BitVec.ofNat 32 k) 0#32 = false := by
    rw [BitVec.sle_eq_decide, ofNat_toInt_small k (by omega)]; simp; omega
  have hreq : BitVec.ofNat 64 n * BitVec.signExtend 64 (BitVec.ofNat 32 k) = BitVec.ofNat 64 (n * k) := by
    rw [sext64 k (by omega), i64_mul]
  have hcapb : decide (BitVec.ofNat 64 cap < BitVec.ofNat 64 (n * k)) = true := by
    rw [u64_lt _ _ (by omega) (by omega)]; simp [hcap]
  refine ⟨?_, ?_, ?_⟩
  · simp only [Gen.CFun.carquet_byte_stream_split_encode, Bool.or_self, hsle, Bool.false_eq_true, if_false, hreq, hcapb, if_true]
  · simp only [Gen.CFun.carquet_byte_stream_split_encode_defined, Bool.or_self, hsle, Bool.false_eq_true, if_false, hreq, hcapb,
      if_true]
  · unfold Bss.encode
    have h1 : ¬ ((k : Int) ≤ 0) := by omega
    have h2 : cap < Bss.requiredSize (n : Int) k := by
      simp only [Bss.requiredSize, Bss.sizeT]
      have : ((n : Int) % 2 ^ 64).toNat = n := by omega
      rw [this, Nat.mod_eq_of_lt (by omega)]; exact hcap
    simp only [h1, if_false, Int.toNat_natCast, h2, if_true]

/-! ### decode: `for (i < count) for (b < type_length) values[i * type_length + b] = data[b * count + i]` -/

theorem bss_dec_inner (src : List UInt8) (n k : Nat) (hs : k * n ≤ src.length) (hn : k * n + k + n < 2 ^ 63) (hk : k < 2 ^ 30)
    (i : Nat) (hi : i < n) (dsz req : BitVec 64) :
    ∀ (d b : Nat) (out : List UInt8) (fuel : Nat), b + d = k → d < fuel → TrInv (posV k) (posS n) k n src i b out →
      TrInv (posV k) (posS n) k n src i k (Gen.CFun.carquet_byte_stream_split_decode_loop2 fuel src dsz (BitVec.ofNat 32 k) out
        (BitVec.ofNat 64 n) req (BitVec.ofNat 64 i) (BitVec.ofNat 32 b)).1 ∧
      Gen.CFun.carquet_byte_stream_split_decode_loop2_defined fuel src dsz (BitVec.ofNat 32 k) out (BitVec.ofNat 64 n) req
        (BitVec.ofNat 64 i) (BitVec.ofNat 32 b) = true := by
  intro d
  induction d with
  | zero =>
    intro b out fuel hb hf hinv
    obtain ⟨f, rfl⟩ : ∃ f, fuel = f + 1 := ⟨fuel - 1, by omega⟩
    have : b = k := by omega
    subst this
    have hge : BitVec.slt (BitVec.ofNat 32 b) (BitVec.ofNat 32 b) = false := by
      rw [i32_slt _ _ (by omega) (by omega)]; simp
    simpa [Gen.CFun.carquet_byte_stream_split_decode_loop2, Gen.CFun.carquet_byte_stream_split_decode_loop2_defined, hge] using hinv
  | succ d ih =>
    intro b out fuel hb hf hinv
    obtain ⟨f, rfl⟩ : ∃ f, fuel = f + 1 := ⟨fuel - 1, by omega⟩
    have hbk : b < k := by omega
    have hlt : BitVec.slt (BitVec.ofNat 32 b) (BitVec.ofNat 32 k) = true := by
      rw [i32_slt _ _ (by omega) (by omega)]; simp [hbk]
    have hbn : b * n + i < k * n := mul_add_lt b i n k hi hbk
    have hik : i * k + b < k * n := by rw [Nat.mul_comm k n]; exact mul_add_lt i b k n hbk hi
    have hnext := ih (b + 1) (wr8 out (posV k b i) (rd8 src (posS n b i))) f (by omega) (by omega)
      (TrInv_step (posV k) (posS n) k n src out i b hi hbk (posV_inj k n b i hbk) hik hinv)
    simp only [Gen.CFun.carquet_byte_stream_split_decode_loop2, Gen.CFun.carquet_byte_stream_split_decode_loop2_defined, hlt, if_true,
      sext64 b (by omega), sext64 k (by omega), i64_mul, i64_add, i64_toIntNat _ (show b * n + i < 2 ^ 63 by omega),
      i64_toIntNat _ (show i * k + b < 2 ^ 63 by omega), i64_msb _ (show b * n + i < 2 ^ 63 by omega),
      i64_msb _ (show i * k + b < 2 ^ 63 by omega),
      i64_sMulOk b n (by omega) (by omega) (by omega), i64_sMulOk i k (by omega) (by omega) (by omega),
      i64_sAddOk (b * n) i (by omega), i64_sAddOk (i * k) b (by omega), ofNat_add_one, sAddOk_small b (by omega),
      inb_of_lt src _ (show posS n b i < src.length from Nat.lt_of_lt_of_le hbn hs),
      inb_of_lt out _ (show posV k b i < out.length by rw [hinv.1]; exact hik)]
    exact ⟨hnext.1, by simpa using hnext.2⟩

theorem bss_dec_outer (src : List UInt8) (n k : Nat) (hs : k * n ≤ src.length) (hn : k * n + k + n < 2 ^ 63) (hk : k < 2 ^ 30)
    (dsz req : BitVec 64) :
    ∀ (d i : Nat) (out : List UInt8) (fuel : Nat), i + d = n → d < fuel → TrInv (posV k) (posS n) k n src i 0 out →
      (Gen.CFun.carquet_byte_stream_split_decode_loop1 fuel src dsz (BitVec.ofNat 32 k) out (BitVec.ofNat 64 n) req
        (BitVec.ofNat 64 i)).1 = 0#32 ∧
      TrInv (posV k) (posS n) k n src n 0 (Gen.CFun.carquet_byte_stream_split_decode_loop1 fuel src dsz (BitVec.ofNat 32 k) out
        (BitVec.ofNat 64 n) req (BitVec.ofNat 64 i)).2 ∧
      Gen.CFun.carquet_byte_stream_split_decode_loop1_defined fuel src dsz (BitVec.ofNat 32 k) out (BitVec.ofNat 64 n) req
        (BitVec.ofNat 64 i) = true := by
  intro d
  induction d with
  | zero =>
    intro i out fuel hi hf hinv
    obtain ⟨f, rfl⟩ : ∃ f, fuel = f + 1 := ⟨fuel - 1, by omega⟩
    have : i = n := by omega
    subst this
    have hge : BitVec.slt (BitVec.ofNat 64 i) (BitVec.ofNat 64 i) = false := by
      rw [i64_slt _ _ (by omega) (by omega)]; simp
    simpa [Gen.CFun.carquet_byte_stream_split_decode_loop1, Gen.CFun.carquet_byte_stream_split_decode_loop1_defined, hge] using hinv
  | succ d ih =>
    intro i out fuel hi hf hinv
    obtain ⟨f, rfl⟩ : ∃ f, fuel = f + 1 := ⟨fuel - 1, by omega⟩
    have hlt : BitVec.slt (BitVec.ofNat 64 i) (BitVec.ofNat 64 n) = true := by
      rw [i64_slt _ _ (by omega) (by omega)]; simp; omega
    have hin := bss_dec_inner src n k hs hn hk i (by omega) dsz req k 0 out (k + 1) (by omega) (by omega) hinv
    have hnext := ih (i + 1) _ f (by omega) (by omega) (TrInv_next (posV k) (posS n) k n src _ i hin.1)
    simp only [Gen.CFun.carquet_byte_stream_split_decode_loop1, Gen.CFun.carquet_byte_stream_split_decode_loop1_defined, hlt, if_true,
      ofNat_toInt_small k (by omega), Int.toNat_natCast] at hin ⊢
    simp only [hin.2, i64_add_one, i64_sAddOk_one i (by omega), Bool.true_and]
    exact hnext

theorem gather_pointwise (k n : Nat) (data : List UInt8) (hs : k * n ≤ data.length) :
    ∃ L, Bss.gather k data n = some L ∧ L.length = n * k ∧
      ∀ i, i < n → ∀ b, b < k → L.getD (i * k + b) 0 = data.getD (b * n + i) 0 := by
  refine ⟨((List.range n).map fun i => (List.range k).map fun b => data.getD (b * n + i) 0).flatten, ?_, ?_, ?_⟩
  · unfold Bss.gather
    have hrow : ∀ i ∈ List.range n, Bss.mapOpt (fun b => data[b * n + i]?) (List.range k) =
        some ((List.range k).map fun b => data.getD (b * n + i) 0) := by
      intro i hi
      apply Bss.mapOpt_eq_some_map
      intro b hb
      have : b * n + i < data.length :=
        Nat.lt_of_lt_of_le (mul_add_lt b i n k (by simpa using hi) (by simpa using hb)) hs
      simp [List.getD, List.getElem?_eq_getElem this]
    rw [Bss.mapOpt_eq_some_map (List.range n) hrow]
  · rw [← List.flatMap_def]; exact flatMap_range_length _ k (by simp) n
  · intro i hi b hb
    rw [← List.flatMap_def]
    simp only [List.getD]
    rw [flatMap_range_getElem? _ k (by simp) n i b hi hb]
    simp [List.getElem?_map, List.getElem?_range hb]

/-- `carquet_byte_stream_split_decode(data, data_size, type_length, values, count)`, success path -/
theorem bss_decode_ok (data out : List UInt8) (n k : Nat) (hk0 : 0 < k) (hk : k < 2 ^ 30)
    (hs : k * n ≤ data.length) (hd : data.length < 2 ^ 64) (ho : out.length = k * n) (hn : k * n + k + n < 2 ^ 63) :
    (∃ L, Bss.decode data (k : Int) (n : Int) = .ok L ∧
      Gen.CFun.carquet_byte_stream_split_decode data (BitVec.ofNat 64 data.length) (BitVec.ofNat 32 k) out (BitVec.ofNat 64 n) =
        (0#32, L)) ∧
    Gen.CFun.carquet_byte_stream_split_decode_defined data (BitVec.ofNat 64 data.length) (BitVec.ofNat 32 k) out
      (BitVec.ofNat 64 n) = true := by
  obtain ⟨L, hL, hLlen, hLp⟩ := gather_pointwise k n data hs
  have hsle : BitVec.sle (BitVec.ofNat 32 k) 0#32 = false := by
    rw [BitVec.sle_eq_decide, ofNat_toInt_small k (by omega)]; simp; omega
  have hreq : BitVec.ofNat 64 n * BitVec.signExtend 64 (BitVec.ofNat 32 k) = BitVec.ofNat 64 (n * k) := by
    rw [sext64 k (by omega), i64_mul]
  have hnk : n * k = k * n := Nat.mul_comm n k
  have hszb : decide (BitVec.ofNat 64 data.length < BitVec.ofNat 64 (n * k)) = false := by
    rw [u64_lt _ _ (by omega) (by omega)]; simp; omega
  have h := bss_dec_outer data n k hs hn hk (BitVec.ofNat 64 data.length) (BitVec.ofNat 64 (n * k)) n 0 out (n + 1) (by omega)
    (by omega) (TrInv_init _ _ k n data out ho)
  have hres : (Gen.CFun.carquet_byte_stream_split_decode_loop1 (n + 1) data (BitVec.ofNat 64 data.length) (BitVec.ofNat 32 k) out
      (BitVec.ofNat 64 n) (BitVec.ofNat 64 (n * k)) (BitVec.ofNat 64 0)).2 = L := by
    apply ext_pointwise n k _ _ (by rw [h.2.1.1, Nat.mul_comm]) hLlen
    intro i hi b hb
    rw [hLp i hi b hb]
    exact h.2.1.2 b i hb hi (Or.inl hi)
  refine ⟨⟨L, ?_, ?_⟩, ?_⟩
  · unfold Bss.decode
    have h1 : ¬ ((k : Int) ≤ 0) := by omega
    have h2 : ¬ data.length < Bss.requiredSize (n : Int) k := by
      simp only [Bss.requiredSize, Bss.sizeT]
      have : ((n : Int) % 2 ^ 64).toNat = n := by omega
      rw [this, Nat.mod_eq_of_lt (by omega)]; omega
    simp only [h1, if_false, Int.toNat_natCast, h2, hL]
  · simp only [Gen.CFun.carquet_byte_stream_split_decode, Bool.or_self, hsle, Bool.false_eq_true, if_false, hreq, hszb,
      i64_toIntNat n (by omega)]
    rw [show (0#64 : BitVec 64) = BitVec.ofNat 64 0 from rfl]
    exact Prod.ext h.1 hres
  · simp only [Gen.CFun.carquet_byte_stream_split_decode_defined, Bool.or_self, hsle, Bool.false_eq_true, if_false, hreq, hszb,
      i64_toIntNat n (by omega)]
    exact h.2.2

/-- an input shorter than `count * type_length` bytes is refused: no read outside the input under the function's own check
(C08's obligation for this decoder) -/
theorem bss_decode_short (data out : List UInt8) (n k : Nat) (hk0 : 0 < k) (hk : k < 2 ^ 30) (hn : n * k < 2 ^ 63)
    (hn2 : n < 2 ^ 63) (hs : data.length < n * k) :
    Gen.CFun.carquet_byte_stream_split_decode data (BitVec.ofNat 64 data.length) (BitVec.ofNat 32 k) out (BitVec.ofNat 64 n) =
      (40#32, out) ∧
    Gen.CFun.carquet_byte_stream_split_decode_defined data (BitVec.ofNat 64 data.length) (BitVec.ofNat 32 k) out
      (BitVec.ofNat 64 n) = true ∧
    Bss.decode data (k : Int) (n : Int) = .error .decode := by
  have hsle : BitVec.sle (BitVec.ofNat 32 k) 0#32 = false := by
    rw [BitVec.sle_eq_decide, ofNat_toInt_small k (by omega)]; simp; omega
  have hreq : BitVec.ofNat 64 n * BitVec.signExtend 64 (BitVec.ofNat 32 k) = BitVec.ofNat 64 (n * k) := by
    rw [sext64 k (by omega), i64_mul]
  have hszb : decide (BitVec.ofNat 64 data.length < BitVec.ofNat 64 (n * k)) = true := by
    rw [u64_lt _ _ (by omega) (by omega)]; simp [hs]
  refine ⟨?_, ?_, ?_⟩
  · simp only [Gen.CFun.carquet_byte_stream_split_decode, Bool.or_self, hsle, Bool.false_eq_true, if_false, hreq, hszb, if_true]
  · simp only [Gen.CFun.carquet_byte_stream_split_decode_defined, Bool.or_self, hsle, Bool.false_eq_true, if_false, hreq, hszb,
      if_true]
  · unfold Bss.decode
    have h1 : ¬ ((k : Int) ≤ 0) := by omega
    have h2 : data.length < Bss.requiredSize (n : Int) k := by
      simp only [Bss.requiredSize, Bss.sizeT]
      have : ((n : Int) % 2 ^ 64).toNat = n := by omega
      rw [this, Nat.mod_eq_of_lt (by omega)]; exact hs
    simp only [h1, if_false, Int.toNat_natCast, h2, if_true]

end Carquet.Proofs.CFunB
