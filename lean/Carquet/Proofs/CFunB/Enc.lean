import Carquet.Proofs.CFunB.Snappy
import Carquet.Proofs.CFunB.Match
import Carquet.Impl.Dictionary
import Carquet.Impl.Delta
import Carquet.Impl.DeltaStrings
import Carquet.Impl.Plain
import Carquet.Impl.Lz4
import Carquet.Proofs.CFun2.Loads
/-
Small array loops of the encodings and codecs as translated from the current C source: `dict_hash` (dictionary.c),
`write_uleb128` (delta.c), `common_prefix_length` (delta_strings.c), `carquet_decode_plain_fixed_byte_array` (plain.c),
`snappy_read32` / `lz4_read32`.
-/
namespace Carquet.Proofs.CFunB
open Carquet Carquet.Impl Carquet.Impl.CSem Carquet.Proofs.CFun2

/-! ### dict_hash (FNV-1a) -/

def fnvStep (h : UInt32) (b : UInt8) : UInt32 := (h ^^^ b.toUInt32) * UInt32.ofNat Gen.dictHashPrime

theorem fnvStep_bv (h : UInt32) (b : UInt8) :
    (fnvStep h b).toBitVec = (h.toBitVec ^^^ BitVec.setWidth 32 b.toBitVec) * 16777619#32 := by
  simp [fnvStep, Gen.dictHashPrime]

theorem dict_hash_loop :
    ∀ (rest done : List UInt8) (h : UInt32) (fuel : Nat), rest.length < fuel → done.length + rest.length < 2 ^ 64 →
      Gen.CFun.dict_hash_loop1 fuel (done ++ rest) (BitVec.ofNat 64 (done.length + rest.length)) h.toBitVec
          (BitVec.ofNat 64 done.length) = (rest.foldl fnvStep h).toBitVec ∧
      Gen.CFun.dict_hash_loop1_defined fuel (done ++ rest) (BitVec.ofNat 64 (done.length + rest.length)) h.toBitVec
          (BitVec.ofNat 64 done.length) = true := by
  intro rest
  induction rest with
  | nil =>
    intro done h fuel hf hl
    obtain ⟨f, rfl⟩ : ∃ f, fuel = f + 1 := ⟨fuel - 1, by simp at hf; omega⟩
    simp [Gen.CFun.dict_hash_loop1, Gen.CFun.dict_hash_loop1_defined]
  | cons x xs ih =>
    intro done h fuel hf hl
    obtain ⟨f, rfl⟩ : ∃ f, fuel = f + 1 := ⟨fuel - 1, by simp at hf; omega⟩
    simp only [List.length_cons] at hf hl
    have hlt : decide (BitVec.ofNat 64 done.length < BitVec.ofNat 64 (done.length + (xs.length + 1))) = true := by
      rw [u64_lt _ _ (by omega) hl]; simp
    have hnext := ih (done ++ [x]) (fnvStep h x) f (by omega) (by simp; omega)
    simp only [List.length_append, List.length_cons, List.length_nil, List.append_assoc, List.cons_append, List.nil_append,
      Nat.zero_add] at hnext
    rw [show done.length + 1 + xs.length = done.length + (xs.length + 1) by omega, fnvStep_bv] at hnext
    simp only [Gen.CFun.dict_hash_loop1, Gen.CFun.dict_hash_loop1_defined, Gen.CFun.dict_hash_v1, List.length_cons, hlt, if_true,
      u64_toNat _ (show done.length < 2 ^ 64 by omega), rd8_at, inb_at, i64_add_one, List.foldl_cons, Bool.true_and]
    exact hnext

theorem dict_hash_eq (data : List UInt8) (h : data.length < 2 ^ 64) :
    Gen.CFun.dict_hash data (BitVec.ofNat 64 data.length) = (Dictionary.dictHash data).toBitVec ∧
    Gen.CFun.dict_hash_defined data (BitVec.ofNat 64 data.length) = true := by
  have := dict_hash_loop data [] (UInt32.ofNat Gen.dictHashOffset) (data.length + 1) (by omega) (by simpa using h)
  have h0 : (UInt32.ofNat Gen.dictHashOffset).toBitVec = 2166136261#32 := rfl
  simp only [List.nil_append, List.length_nil, Nat.zero_add, h0] at this
  have hm : Dictionary.dictHash data = data.foldl fnvStep (UInt32.ofNat Gen.dictHashOffset) := rfl
  rw [hm]
  simpa [Gen.CFun.dict_hash, Gen.CFun.dict_hash_defined, u64_toNat _ h] using this

/-! ### write_uleb128 -/

theorem or128_64 (x : BitVec 64) : UInt8.ofBitVec (BitVec.setWidth 8 (x ||| 128#64)) = UInt8.ofNat (x.toNat ||| 0x80) := by
  rw [byte_of_trunc, BitVec.toNat_or]; rfl

theorem write_uleb_loop :
    ∀ (k : Nat) (v : BitVec 64) (pre rest : List UInt8) (fuel : Nat), v.toNat < 2 ^ (7 * (k + 1)) → k < fuel →
      pre.length + k + 1 < 2 ^ 64 → (Delta.writeUlebLoop k v).length ≤ rest.length →
      Gen.CFun.write_uleb128_loop1 fuel (pre ++ rest) v (BitVec.ofNat 64 pre.length) =
        (BitVec.ofNat 64 (pre.length + (Delta.writeUlebLoop k v).length),
         pre ++ Delta.writeUlebLoop k v ++ rest.drop (Delta.writeUlebLoop k v).length) ∧
      Gen.CFun.write_uleb128_loop1_defined fuel (pre ++ rest) v (BitVec.ofNat 64 pre.length) = true := by
  intro k
  induction k with
  | zero =>
    intro v pre rest fuel hv hf hp hl
    obtain ⟨f, rfl⟩ : ∃ f, fuel = f + 1 := ⟨fuel - 1, by omega⟩
    obtain ⟨r0, rest', rfl⟩ := exists_cons rest (by simp [Delta.writeUlebLoop] at hl; omega)
    have hc : decide (128#64 ≤ v) = false := by
      simp only [decide_eq_false_iff_not, BitVec.le_def, show (128#64 : BitVec 64).toNat = 128 from rfl]; omega
    simp only [Gen.CFun.write_uleb128_loop1, Gen.CFun.write_uleb128_loop1_defined, hc, Bool.false_eq_true, if_false,
      u64_toNat _ (show pre.length < 2 ^ 64 by omega), wr8_at, inb_at, byte_of_trunc, Delta.writeUlebLoop, List.length_singleton,
      i64_add_one]
    simp
  | succ k ih =>
    intro v pre rest fuel hv hf hp hl
    obtain ⟨f, rfl⟩ : ∃ f, fuel = f + 1 := ⟨fuel - 1, by omega⟩
    obtain ⟨r0, rest', rfl⟩ := exists_cons rest (by rw [Delta.writeUlebLoop] at hl; split at hl <;> simp at hl <;> omega)
    by_cases h128 : 0x80 ≤ v.toNat
    · have hc : decide (128#64 ≤ v) = true := by
        simp only [decide_eq_true_eq, BitVec.le_def, show (128#64 : BitVec 64).toNat = 128 from rfl]; exact h128
      have hv7 : (v >>> 7).toNat < 2 ^ (7 * (k + 1)) := by
        simp only [BitVec.toNat_ushiftRight, Nat.shiftRight_eq_div_pow]
        have : 2 ^ (7 * (k + 1 + 1)) = 2 ^ (7 * (k + 1)) * 2 ^ 7 := by
          rw [show 7 * (k + 1 + 1) = 7 * (k + 1) + 7 by omega, Nat.pow_add]
        rw [Nat.div_lt_iff_lt_mul (by omega)]; omega
      rw [Delta.writeUlebLoop, if_pos h128] at hl ⊢
      simp only [List.length_cons] at hl
      have hnext := ih (v >>> 7) (pre ++ [UInt8.ofNat (v.toNat ||| 0x80)]) rest' f hv7 (by omega) (by simp; omega) (by omega)
      simp only [List.length_append, List.length_singleton, List.append_assoc, List.singleton_append] at hnext
      simp only [Gen.CFun.write_uleb128_loop1, Gen.CFun.write_uleb128_loop1_defined, hc, if_true,
        u64_toNat _ (show pre.length < 2 ^ 64 by omega), wr8_at, inb_at, or128_64, i64_add_one, List.length_cons,
        List.drop_succ_cons, Bool.true_and]
      refine ⟨?_, hnext.2⟩
      rw [hnext.1]
      simp [Nat.add_assoc, Nat.add_comm 1]
    · have hc : decide (128#64 ≤ v) = false := by
        simp only [decide_eq_false_iff_not, BitVec.le_def, show (128#64 : BitVec 64).toNat = 128 from rfl]; exact h128
      rw [Delta.writeUlebLoop, if_neg h128] at hl ⊢
      simp only [Gen.CFun.write_uleb128_loop1, Gen.CFun.write_uleb128_loop1_defined, hc, Bool.false_eq_true, if_false,
        u64_toNat _ (show pre.length < 2 ^ 64 by omega), wr8_at, inb_at, byte_of_trunc, List.length_singleton, i64_add_one]
      simp

/-- `write_uleb128(data, value)` on a buffer that has room for the encoding (at most 10 bytes) -/
theorem write_uleb128_eq (data : List UInt8) (v : BitVec 64) (h : (Delta.writeUleb128 v).length ≤ data.length) :
    Gen.CFun.write_uleb128 data v =
      (BitVec.ofNat 64 (Delta.writeUleb128 v).length, Delta.writeUleb128 v ++ data.drop (Delta.writeUleb128 v).length) ∧
    Gen.CFun.write_uleb128_defined data v = true := by
  have hf : Delta.writeUlebLoop 10 v = Delta.writeUlebLoop 9 v := by
    -- the tenth iteration cannot continue: after nine shifts by 7 a 64-bit value is below 2
    have key : ∀ (k : Nat) (w : BitVec 64), w.toNat < 2 ^ (7 * (k + 1)) → Delta.writeUlebLoop (k + 1) w = Delta.writeUlebLoop k w := by
      intro k
      induction k with
      | zero => intro w hw; simp [Delta.writeUlebLoop]; omega
      | succ k ih =>
        intro w hw
        have : (w >>> 7).toNat < 2 ^ (7 * (k + 1)) := by
          simp only [BitVec.toNat_ushiftRight, Nat.shiftRight_eq_div_pow]
          have : 2 ^ (7 * (k + 1 + 1)) = 2 ^ (7 * (k + 1)) * 2 ^ 7 := by
            rw [show 7 * (k + 1 + 1) = 7 * (k + 1) + 7 by omega, Nat.pow_add]
          rw [Nat.div_lt_iff_lt_mul (by omega)]; omega
        conv => lhs; rw [Delta.writeUlebLoop]
        conv => rhs; rw [Delta.writeUlebLoop]
        rw [ih _ this]
    exact key 9 v (by have := v.isLt; omega)
  unfold Delta.writeUleb128 at h ⊢
  rw [hf] at h ⊢
  have := write_uleb_loop 9 v [] data 11 (by have := v.isLt; omega) (by omega) (by simp) h
  simpa [Gen.CFun.write_uleb128, Gen.CFun.write_uleb128_defined] using this

/-! ### common_prefix_length -/

theorem u32_toNat (k : Nat) (h : k < 2 ^ 32) : (BitVec.ofNat 32 k).toNat = k := by simp [BitVec.toNat_ofNat]; omega
theorem u32_lt (a b : Nat) (ha : a < 2 ^ 32) (hb : b < 2 ^ 32) :
    decide (BitVec.ofNat 32 a < BitVec.ofNat 32 b) = decide (a < b) := by
  simp [BitVec.lt_def, u32_toNat a ha, u32_toNat b hb]
theorem i32_sAddOk_one (k : Nat) (h : k + 1 < 2 ^ 31) : sAddOk (BitVec.ofNat 32 k) 1#32 = true := by
  simp only [sAddOk, BitVec.saddOverflow, ofNat_toInt_small k (by omega)]
  simp; omega
theorem u32_add_one (k : Nat) : BitVec.ofNat 32 k + 1#32 = BitVec.ofNat 32 (k + 1) := ofNat_add_one k

theorem common_prefix_loop (a b : List UInt8) (alen blen : BitVec 32) (m : Nat) (hm : m ≤ a.length) (hm2 : m ≤ b.length)
    (hm3 : m < 2 ^ 31) :
    ∀ (d k fuel : Nat), k + d = m → d < fuel →
      Gen.CFun.common_prefix_length_loop1 fuel a b alen blen (BitVec.ofNat 32 m) (BitVec.ofNat 32 k) (BitVec.ofNat 32 k) =
        BitVec.ofNat 32 (k + DeltaStrings.commonPrefixLength ((a.take m).drop k) ((b.take m).drop k)) ∧
      Gen.CFun.common_prefix_length_loop1_defined fuel a b alen blen (BitVec.ofNat 32 m) (BitVec.ofNat 32 k) (BitVec.ofNat 32 k)
        = true := by
  intro d
  induction d with
  | zero =>
    intro k fuel hk hf
    obtain ⟨f, rfl⟩ : ∃ f, fuel = f + 1 := ⟨fuel - 1, by omega⟩
    have hlt : decide (BitVec.ofNat 32 k < BitVec.ofNat 32 m) = false := by
      rw [u32_lt _ _ (by omega) (by omega)]; simp; omega
    have hdrop : (a.take m).drop k = [] := by simp; omega
    simp only [Gen.CFun.common_prefix_length_loop1, Gen.CFun.common_prefix_length_loop1_defined, Gen.CFun.common_prefix_length_k1,
      Gen.CFun.common_prefix_length_k1_defined, hlt, hdrop, DeltaStrings.commonPrefixLength, Bool.false_eq_true, if_false]
    simp
  | succ d ih =>
    intro k fuel hk hf
    obtain ⟨f, rfl⟩ : ∃ f, fuel = f + 1 := ⟨fuel - 1, by omega⟩
    have hkm : k < m := by omega
    have hlt : decide (BitVec.ofNat 32 k < BitVec.ofNat 32 m) = true := by
      rw [u32_lt _ _ (by omega) (by omega)]; simp [hkm]
    have hka : k < a.length := by omega
    have hkb : k < b.length := by omega
    have hda : (a.take m).drop k = a[k] :: (a.take m).drop (k + 1) := by
      rw [List.drop_eq_getElem_cons (by simp; omega)]; simp
    have hdb : (b.take m).drop k = b[k] :: (b.take m).drop (k + 1) := by
      rw [List.drop_eq_getElem_cons (by simp; omega)]; simp
    have hnext := ih (k + 1) f (by omega) (by omega)
    have hne : ((BitVec.setWidth 32 a[k].toBitVec) != (BitVec.setWidth 32 b[k].toBitVec)) = !(a[k] == b[k]) := by
      rw [bne, zext_beq]; congr 1
      rw [Bool.eq_iff_iff]; simp [← UInt8.toBitVec_inj]
    simp only [Gen.CFun.common_prefix_length_loop1, Gen.CFun.common_prefix_length_loop1_defined,
      Gen.CFun.common_prefix_length_k1, Gen.CFun.common_prefix_length_k1_defined, hlt, if_true,
      u32_toNat _ (show k < 2 ^ 32 by omega), rd8_of_lt _ _ hka, rd8_of_lt _ _ hkb, inb_of_lt _ _ hka, inb_of_lt _ _ hkb, hne,
      u32_add_one, i32_sAddOk_one k (by omega), hda, hdb, DeltaStrings.commonPrefixLength, Bool.true_and]
    by_cases he : a[k] = b[k]
    · simp only [he, beq_self_eq_true, Bool.not_true, Bool.false_eq_true, if_false, if_true]
      refine ⟨?_, hnext.2⟩
      rw [hnext.1]; congr 1; omega
    · have h1 : (a[k] == b[k]) = false := by simpa using he
      simp [h1, he]

/-- `common_prefix_length(a, a_len, b, b_len)` with the lengths of the two strings -/
theorem common_prefix_length_eq (a b : List UInt8) (ha : a.length < 2 ^ 31) (hb : b.length < 2 ^ 31) :
    Gen.CFun.common_prefix_length a (BitVec.ofNat 32 a.length) b (BitVec.ofNat 32 b.length) =
      BitVec.ofNat 32 (DeltaStrings.commonPrefixLength a b) ∧
    Gen.CFun.common_prefix_length_defined a (BitVec.ofNat 32 a.length) b (BitVec.ofNat 32 b.length) = true := by
  have hmin : (if decide (BitVec.ofNat 32 a.length < BitVec.ofNat 32 b.length) = true then BitVec.ofNat 32 a.length
      else BitVec.ofNat 32 b.length) = BitVec.ofNat 32 (min a.length b.length) := by
    rw [u32_lt _ _ (by omega) (by omega)]
    by_cases h : a.length < b.length
    · simp [h]; congr 1; omega
    · simp [h]; congr 1; omega
  have hpre : ∀ (x y : List UInt8), DeltaStrings.commonPrefixLength (x.take (min x.length y.length)) (y.take (min x.length y.length)) =
      DeltaStrings.commonPrefixLength x y := by
    intro x
    induction x with
    | nil => intro y; simp [DeltaStrings.commonPrefixLength]
    | cons p ps ih =>
      intro y
      cases y with
      | nil => simp [DeltaStrings.commonPrefixLength]
      | cons q qs =>
        simp only [List.length_cons, Nat.add_min_add_right, List.take_succ_cons, DeltaStrings.commonPrefixLength, ih qs]
  have := common_prefix_loop a b (BitVec.ofNat 32 a.length) (BitVec.ofNat 32 b.length) (min a.length b.length) (by omega) (by omega)
    (by omega) (min a.length b.length) 0 (a.length + 1) (by omega) (by omega)
  simp only [List.drop_zero, Nat.zero_add, hpre] at this
  simp only [Gen.CFun.common_prefix_length, Gen.CFun.common_prefix_length_defined, hmin,
    u32_toNat _ (show a.length < 2 ^ 32 by omega)]
  exact this

/-! ### carquet_decode_plain_fixed_byte_array -/

theorem toInt_toNat_nonneg {w : Nat} (x : BitVec w) (h : 0 ≤ x.toInt) : x.toInt.toNat = x.toNat := by
  have := BitVec.toInt_eq_toNat_cond x
  split at this
  · rw [this]; simp
  · have hlt := x.isLt
    rw [this] at h
    omega

theorem sext64_pos (fl : BitVec 32) (h : 0 < fl.toInt) : (BitVec.signExtend 64 fl).toNat = fl.toInt.toNat := by
  have h1 : (BitVec.signExtend 64 fl).toInt = fl.toInt := BitVec.toInt_signExtend_of_le (by omega)
  have h2 := toInt_toNat_nonneg (BitVec.signExtend 64 fl) (by rw [h1]; omega)
  rw [← h2, h1]

/-- the whole function: refusals (`count < 0`, `fixed_len <= 0`, input shorter than `count * fixed_len`) and the copy; on
success nothing is read outside `input[0 .. input_size)` (C08's obligation) and exactly the model's bytes are stored -/
theorem decode_plain_flba_eq (input output : List UInt8) (count : BitVec 64) (fl : BitVec 32) (hin : input.length < 2 ^ 64) :
    (∀ vals consumed, Plain.decodeFlba input count.toInt fl.toInt = .ok vals consumed → consumed ≤ output.length →
      Gen.CFun.carquet_decode_plain_fixed_byte_array input (BitVec.ofNat 64 input.length) output count fl =
        (BitVec.ofNat 64 consumed, vals ++ output.drop consumed) ∧
      Gen.CFun.carquet_decode_plain_fixed_byte_array_defined input (BitVec.ofNat 64 input.length) output count fl = true) ∧
    (Plain.decodeFlba input count.toInt fl.toInt = .err →
      Gen.CFun.carquet_decode_plain_fixed_byte_array input (BitVec.ofNat 64 input.length) output count fl =
        (BitVec.allOnes 64, output) ∧
      Gen.CFun.carquet_decode_plain_fixed_byte_array_defined input (BitVec.ofNat 64 input.length) output count fl = true) := by
  have hslt : BitVec.slt count 0#64 = decide (count.toInt < 0) := by rw [BitVec.slt_eq_decide]; rfl
  have hsle : BitVec.sle fl 0#32 = decide (fl.toInt ≤ 0) := by rw [BitVec.sle_eq_decide]; rfl
  unfold Plain.decodeFlba
  by_cases hbad : count.toInt < 0 ∨ fl.toInt ≤ 0
  · have hb : (BitVec.slt count 0#64 || BitVec.sle fl 0#32) = true := by
      rw [hslt, hsle]; simpa using hbad
    rw [if_pos hbad]
    refine ⟨fun _ _ h => by simp at h, fun _ => ?_⟩
    simp only [Gen.CFun.carquet_decode_plain_fixed_byte_array, Gen.CFun.carquet_decode_plain_fixed_byte_array_defined, Bool.or_self,
      Bool.false_or, hb, if_true]
    exact ⟨rfl, trivial⟩
  · have hb : (BitVec.slt count 0#64 || BitVec.sle fl 0#32) = false := by
      rw [hslt, hsle]; simp only [Bool.or_eq_false_iff, decide_eq_false_iff_not]; omega
    rw [if_neg hbad]
    have hc0 : 0 ≤ count.toInt := by omega
    have hf0 : 0 < fl.toInt := by omega
    have hsz : (count * BitVec.signExtend 64 fl).toNat = Plain.sizeMul count.toInt.toNat fl.toInt.toNat := by
      simp only [BitVec.toNat_mul, Plain.sizeMul, sext64_pos fl hf0, toInt_toNat_nonneg count hc0]
    have hcmp : decide (BitVec.ofNat 64 input.length < count * BitVec.signExtend 64 fl) =
        decide (input.length < Plain.sizeMul count.toInt.toNat fl.toInt.toNat) := by
      simp only [BitVec.lt_def, u64_toNat _ hin, hsz]
    by_cases hshort : input.length < Plain.sizeMul count.toInt.toNat fl.toInt.toNat
    · rw [if_pos hshort]
      refine ⟨fun _ _ h => by simp at h, fun _ => ?_⟩
      simp only [Gen.CFun.carquet_decode_plain_fixed_byte_array, Gen.CFun.carquet_decode_plain_fixed_byte_array_defined, Bool.or_self,
        Bool.false_or, hb, Bool.false_eq_true, if_false, hcmp, hshort, decide_true, if_true]
      exact ⟨rfl, trivial⟩
    · rw [if_neg hshort]
      refine ⟨fun vals consumed h ho => ?_, fun h => by simp at h⟩
      simp only [Plain.Res.ok.injEq] at h
      obtain ⟨rfl, rfl⟩ := h
      have hinb1 : inb output 0 (Plain.sizeMul count.toInt.toNat fl.toInt.toNat) = true := by simp [inb]; exact ho
      have hinb2 : inb input 0 (Plain.sizeMul count.toInt.toNat fl.toInt.toNat) = true := by simp [inb]; omega
      simp only [Gen.CFun.carquet_decode_plain_fixed_byte_array, Gen.CFun.carquet_decode_plain_fixed_byte_array_defined, Bool.or_self,
        Bool.false_or, hb, Bool.false_eq_true, if_false, hcmp, hshort, decide_false, hsz, hinb1, hinb2, Bool.and_self]
      refine ⟨?_, trivial⟩
      apply Prod.ext
      · apply BitVec.eq_of_toNat_eq
        rw [hsz, u64_toNat _ (by simp [Plain.sizeMul]; omega)]
      · simp [blit]

/-! ### snappy_read32 / lz4_read32 -/

theorem read32_nat (p : List UInt8) (h : 4 ≤ p.length) :
    (ld32le p 0).toNat = p[0].toNat + 256 * p[1].toNat + 65536 * p[2].toNat + 16777216 * p[3].toNat := by
  rw [ld32le_toNat]
  simp only [List.getD, Nat.zero_add, List.getElem?_eq_getElem (show 0 < p.length by omega),
    List.getElem?_eq_getElem (show 1 < p.length by omega), List.getElem?_eq_getElem (show 2 < p.length by omega),
    List.getElem?_eq_getElem (show 3 < p.length by omega), Option.getD_some]
  omega

theorem snappy_read32_eq (p : List UInt8) (h : 4 ≤ p.length) :
    (Gen.CFun.snappy_read32 p).toNat = Snappy.read32 p.toArray 0 (by simp; omega) ∧ Gen.CFun.snappy_read32_defined p = true := by
  refine ⟨?_, by simp [Gen.CFun.snappy_read32_defined, inb]; omega⟩
  simp only [Gen.CFun.snappy_read32, read32_nat p h, Snappy.read32]
  simp

theorem lz4_read32_eq (p : List UInt8) (h : 4 ≤ p.length) :
    (Gen.CFun.lz4_read32 p).toNat = Lz4.read32 p.toArray 0 ∧ Gen.CFun.lz4_read32_defined p = true := by
  refine ⟨?_, by simp [Gen.CFun.lz4_read32_defined, inb]; omega⟩
  simp only [Gen.CFun.lz4_read32, read32_nat p h, Lz4.read32, Lz4.byteAt]
  simp [Array.getD, show 0 < p.length by omega, show 1 < p.length by omega, show 2 < p.length by omega, show 3 < p.length by omega]

end Carquet.Proofs.CFunB
