import Carquet.Proofs.CFunB.Enc
/-
`lz4_count(p, match, limit)` (src/compression/lz4.c: 8 bytes at a time through two `memcpy`s into `uint64_t`, the first differing
byte found by a byte loop, then byte by byte up to `limit`) as translated from the current C source, against Impl.Lz4.count.
`match` is the start of the buffer, `p` and `limit` are offsets into it.
-/
namespace Carquet.Proofs.CFunB
open Carquet Carquet.Impl Carquet.Impl.CSem Carquet.Proofs.CFun2

theorem byteAt_list (buf : List UInt8) (i : Nat) : Lz4.byteAt buf.toArray i = buf.getD i 0 := by
  simp [Lz4.byteAt, List.getD]

/-- two 8-byte little-endian loads are equal iff the eight bytes are -/
theorem ld64_eq_iff (buf : List UInt8) (p m : Nat) :
    (ld64le buf p == ld64le buf m) = Lz4.eq8 buf.toArray p m := by
  have hb : ∀ i, (buf.getD i 0).toNat < 256 := fun i => byte_lt' _
  have hp := ld64le_toNat buf p
  have hm := ld64le_toNat buf m
  rw [Bool.eq_iff_iff]
  simp only [beq_iff_eq, Lz4.eq8, byteAt_list, Bool.and_eq_true]
  constructor
  · intro h
    have h2 : (ld64le buf p).toNat = (ld64le buf m).toNat := by rw [h]
    rw [hp, hm] at h2
    have h0 := hb p; have h1 := hb (p + 1); have h2' := hb (p + 2); have h3 := hb (p + 3)
    have h4 := hb (p + 4); have h5 := hb (p + 5); have h6 := hb (p + 6); have h7 := hb (p + 7)
    have g0 := hb m; have g1 := hb (m + 1); have g2 := hb (m + 2); have g3 := hb (m + 3)
    have g4 := hb (m + 4); have g5 := hb (m + 5); have g6 := hb (m + 6); have g7 := hb (m + 7)
    refine ⟨⟨⟨⟨⟨⟨⟨?_, ?_⟩, ?_⟩, ?_⟩, ?_⟩, ?_⟩, ?_⟩, ?_⟩ <;> (apply UInt8.toNat_inj.mp; omega)
  · intro ⟨⟨⟨⟨⟨⟨⟨e0, e1⟩, e2⟩, e3⟩, e4⟩, e5⟩, e6⟩, e7⟩
    apply BitVec.eq_of_toNat_eq
    rw [hp, hm, e0, e1, e2, e3, e4, e5, e6, e7]

theorem ofInt_sub (p start : Nat) (h : start ≤ p) : BitVec.ofInt 64 (Int.ofNat p - Int.ofNat start) = BitVec.ofNat 64 (p - start) := by
  have : Int.ofNat p - Int.ofNat start = ((p - start : Nat) : Int) := by simp; omega
  rw [this]; rfl

theorem byte_beq (buf : List UInt8) (p m : Nat) :
    (BitVec.setWidth 32 (rd8 buf p) == BitVec.setWidth 32 (rd8 buf m)) = decide (Lz4.byteAt buf.toArray p = Lz4.byteAt buf.toArray m) := by
  rw [zext_beq, byteAt_list, byteAt_list, rd8_eq, rd8_eq, Bool.eq_iff_iff]
  simp [← UInt8.toBitVec_inj]

/-- the byte loop up to `limit` (loop #3) -/
theorem lz4_tail (buf : List UInt8) (limit start : Nat) (hl : limit ≤ buf.length) :
    ∀ (d p m fuel : Nat), p + d = limit → m ≤ p → start ≤ p → d < fuel →
      Gen.CFun.lz4_count_loop3 fuel buf m limit p start =
        BitVec.ofNat 64 (Lz4.countTail buf.toArray limit d p m (p - start)) ∧
      Gen.CFun.lz4_count_loop3_defined fuel buf m limit p start = true := by
  intro d
  induction d with
  | zero =>
    intro p m fuel hp hm hs hf
    obtain ⟨f, rfl⟩ : ∃ f, fuel = f + 1 := ⟨fuel - 1, by omega⟩
    have : ¬ p < limit := by omega
    simp only [Gen.CFun.lz4_count_loop3, Gen.CFun.lz4_count_loop3_defined, this, decide_false, Bool.false_and, Bool.false_eq_true,
      if_false, Lz4.countTail, ofInt_sub p start hs]
    simp
  | succ d ih =>
    intro p m fuel hp hm hs hf
    obtain ⟨f, rfl⟩ : ∃ f, fuel = f + 1 := ⟨fuel - 1, by omega⟩
    have hpl : p < limit := by omega
    have hnext := ih (p + 1) (m + 1) f (by omega) (by omega) (by omega) (by omega)
    rw [show p + 1 - start = p - start + 1 by omega] at hnext
    simp only [Gen.CFun.lz4_count_loop3, Gen.CFun.lz4_count_loop3_defined, hpl, decide_true, Bool.true_and, Bool.not_true,
      Bool.false_or, byte_beq buf p m, inb_of_lt buf p (by omega), inb_of_lt buf m (by omega), Lz4.countTail,
      true_and, ofInt_sub p start hs]
    by_cases he : Lz4.byteAt buf.toArray p = Lz4.byteAt buf.toArray m
    · simp only [he, decide_true, if_true]
      exact hnext
    · simp [he]

/-- the byte loop that finds the first differing byte after two 8-byte words differed (nested loop #2) -/
theorem lz4_first_diff (buf : List UInt8) (limit start : Nat) (a b : BitVec 64) :
    ∀ (k p m fuel : Nat), ¬ (∀ j, j < k → Lz4.byteAt buf.toArray (p + j) = Lz4.byteAt buf.toArray (m + j)) → p + k ≤ buf.length →
      m ≤ p → k < fuel → ∀ acc,
      Gen.CFun.lz4_count_loop2 fuel buf m limit p start a b =
        (m + (Lz4.firstDiff buf.toArray k p m acc - acc), p + (Lz4.firstDiff buf.toArray k p m acc - acc)) ∧
      Gen.CFun.lz4_count_loop2_defined fuel buf m limit p start a b = true ∧ acc ≤ Lz4.firstDiff buf.toArray k p m acc := by
  intro k
  induction k with
  | zero => intro p m fuel h; exact absurd (fun j hj => absurd hj (by omega)) h
  | succ k ih =>
    intro p m fuel hne hlen hm hf acc
    obtain ⟨f, rfl⟩ : ∃ f, fuel = f + 1 := ⟨fuel - 1, by omega⟩
    simp only [Gen.CFun.lz4_count_loop2, Gen.CFun.lz4_count_loop2_defined, byte_beq buf p m,
      inb_of_lt buf p (by omega), inb_of_lt buf m (by omega), Lz4.firstDiff, Bool.true_and]
    by_cases he : Lz4.byteAt buf.toArray p = Lz4.byteAt buf.toArray m
    · have hne' : ¬ (∀ j, j < k → Lz4.byteAt buf.toArray (p + 1 + j) = Lz4.byteAt buf.toArray (m + 1 + j)) := by
        intro hall
        apply hne
        intro j hj
        cases j with
        | zero => simpa using he
        | succ j =>
          have := hall j (by omega)
          rw [show p + 1 + j = p + (j + 1) by omega, show m + 1 + j = m + (j + 1) by omega] at this
          exact this
      have hnext := ih (p + 1) (m + 1) f hne' (by omega) (by omega) (by omega) (acc + 1)
      simp only [he, decide_true, if_true]
      refine ⟨?_, hnext.2.1, by omega⟩
      rw [hnext.1]
      have := hnext.2.2
      apply Prod.ext <;> simp <;> omega
    · simp [he]

theorem eq8_false_exists (buf : List UInt8) (p m : Nat) (h : Lz4.eq8 buf.toArray p m = false) :
    ¬ (∀ j, j < 8 → Lz4.byteAt buf.toArray (p + j) = Lz4.byteAt buf.toArray (m + j)) := by
  intro hall
  have : Lz4.eq8 buf.toArray p m = true := by
    simp only [Lz4.eq8, Bool.and_eq_true, beq_iff_eq]
    exact ⟨⟨⟨⟨⟨⟨⟨hall 0 (by omega), hall 1 (by omega)⟩, hall 2 (by omega)⟩, hall 3 (by omega)⟩, hall 4 (by omega)⟩,
      hall 5 (by omega)⟩, hall 6 (by omega)⟩, hall 7 (by omega)⟩
  rw [this] at h; exact Bool.noConfusion h

theorem firstDiff_acc (arr : Lz4.Bytes) : ∀ (k p m acc : Nat), Lz4.firstDiff arr k p m acc = acc + Lz4.firstDiff arr k p m 0 := by
  intro k
  induction k with
  | zero => intro p m acc; simp [Lz4.firstDiff]
  | succ k ih =>
    intro p m acc
    simp only [Lz4.firstDiff]
    split
    · rw [ih _ _ (acc + 1), ih _ _ (0 + 1)]; omega
    · simp

/-- the 8-bytes-at-a-time loop (#1) with what follows it -/
theorem lz4_fast (buf : List UInt8) (limit start : Nat) (hl : limit ≤ buf.length) (h7 : 7 ≤ limit) :
    ∀ (n p m fM fC : Nat), limit - p = n → p ≤ limit → m ≤ p → start ≤ p → n / 8 < fM → n / 8 < fC →
      Gen.CFun.lz4_count_loop1 fC buf m limit p start =
        BitVec.ofNat 64 (Lz4.countFast buf.toArray limit fM p m (p - start)) ∧
      Gen.CFun.lz4_count_loop1_defined fC buf m limit p start = true := by
  intro n
  induction n using Nat.strongRecOn with
  | _ n ih =>
    intro p m fM fC hn hpl hm hs hfM hfC
    obtain ⟨fc, rfl⟩ : ∃ f, fC = f + 1 := ⟨fC - 1, by omega⟩
    obtain ⟨fm, rfl⟩ : ∃ f, fM = f + 1 := ⟨fM - 1, by omega⟩
    have h7' : decide (7 ≤ limit) = true := by simpa using h7
    by_cases hfast : p + 7 < limit
    · have hc : decide (p < limit - 7) = true := by simp; omega
      have hin1 : inb buf p 8 = true := by simp [inb]; omega
      have hin2 : inb buf m 8 = true := by simp [inb]; omega
      have hne : (ld64le buf p != ld64le buf m) = !Lz4.eq8 buf.toArray p m := by rw [bne, ld64_eq_iff]
      simp only [Gen.CFun.lz4_count_loop1, Gen.CFun.lz4_count_loop1_defined, h7', hc, if_true, hin1, hin2, hne, Bool.true_and,
        Lz4.countFast, hfast]
      cases he : Lz4.eq8 buf.toArray p m with
      | true =>
        have hnext := ih (limit - (p + 8)) (by omega) (p + 8) (m + 8) fm fc rfl (by omega) (by omega) (by omega) (by omega) (by omega)
        rw [show p + 8 - start = p - start + 8 by omega] at hnext
        simp only [Bool.not_true, Bool.false_eq_true, if_false, if_true]
        exact hnext
      | false =>
        have hfd := lz4_first_diff buf limit start (ld64le buf p) (ld64le buf m) 8 p m 9 (eq8_false_exists buf p m he) (by omega) hm
          (by omega) (p - start)
        simp only [Bool.not_false, if_true, Bool.false_eq_true, if_false, hfd.1, hfd.2.1, and_true]
        rw [ofInt_sub _ start (by omega)]
        congr 1
        have := hfd.2.2
        omega
    · have hc : decide (p < limit - 7) = false := by simp; omega
      have ht := lz4_tail buf limit start hl (limit - p) p m (limit + 1) (by omega) hm hs (by omega)
      simp only [Gen.CFun.lz4_count_loop1, Gen.CFun.lz4_count_loop1_defined, h7', hc, Bool.false_eq_true, if_false, Lz4.countFast,
        hfast, Bool.true_and]
      exact ht

/-- `lz4_count(p, match, limit)` with `match` the start of the buffer, `p = match + off`, `limit` inside the buffer and at least
7 bytes from its start -/
theorem lz4_count_eq (buf : List UInt8) (off limit : Nat) (ho : off ≤ limit) (hl : limit ≤ buf.length) (h7 : 7 ≤ limit) :
    Gen.CFun.lz4_count off buf limit = BitVec.ofNat 64 (Lz4.count buf.toArray off 0 limit) ∧
    Gen.CFun.lz4_count_defined off buf limit = true := by
  have := lz4_fast buf limit off hl h7 (limit - off) off 0 (limit - off + 1) (limit / 8 + 1) rfl ho (by omega) (by omega)
    (by omega) (by omega)
  simpa [Gen.CFun.lz4_count, Gen.CFun.lz4_count_defined, Lz4.count] using this

end Carquet.Proofs.CFunB
