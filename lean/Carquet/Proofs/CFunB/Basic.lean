import Carquet.Impl.CSem
import Carquet.Proofs.CFun2.Mem
import Carquet.Proofs.CFun2.Ints
/-
Helper lemmas for the `cfunb` link theorems (Properties/Cnn/CFunB.lean): 64-bit signed loop counters (`int64_t i`),
32-bit ones (`int b`), reading / writing the element right after an already processed prefix `done ++ x :: rest`.
-/
namespace Carquet.Proofs.CFunB
open Carquet Carquet.Impl.CSem Carquet.Proofs.CFun2

/-! ### `int64_t` counters that stay below 2^63 -/

theorem i64_toNat (k : Nat) (h : k < 2 ^ 63) : (BitVec.ofNat 64 k).toNat = k := by
  simp [BitVec.toNat_ofNat]; omega

theorem i64_toInt (k : Nat) (h : k < 2 ^ 63) : (BitVec.ofNat 64 k).toInt = (k : Int) := by
  rw [BitVec.toInt_eq_toNat_of_lt] <;> simp [BitVec.toNat_ofNat] <;> omega

theorem i64_toIntNat (k : Nat) (h : k < 2 ^ 63) : (BitVec.ofNat 64 k).toInt.toNat = k := by
  rw [i64_toInt k h]; simp

theorem i64_msb (k : Nat) (h : k < 2 ^ 63) : (BitVec.ofNat 64 k).msb = false := by
  rw [BitVec.msb_eq_decide]; simp [BitVec.toNat_ofNat]; omega

theorem i64_slt (a b : Nat) (ha : a < 2 ^ 63) (hb : b < 2 ^ 63) :
    BitVec.slt (BitVec.ofNat 64 a) (BitVec.ofNat 64 b) = decide (a < b) := by
  rw [BitVec.slt_eq_decide, i64_toInt a ha, i64_toInt b hb]; simp

theorem i64_add (a b : Nat) : BitVec.ofNat 64 a + BitVec.ofNat 64 b = BitVec.ofNat 64 (a + b) := by
  apply BitVec.eq_of_toNat_eq; simp [BitVec.toNat_add, BitVec.toNat_ofNat]

theorem i64_add_one (k : Nat) : BitVec.ofNat 64 k + 1#64 = BitVec.ofNat 64 (k + 1) := i64_add k 1

theorem i64_sAddOk (a b : Nat) (h : a + b < 2 ^ 63) : sAddOk (BitVec.ofNat 64 a) (BitVec.ofNat 64 b) = true := by
  simp only [sAddOk, BitVec.saddOverflow, i64_toInt a (by omega), i64_toInt b (by omega)]
  simp; omega

theorem i64_sAddOk_one (k : Nat) (h : k + 1 < 2 ^ 63) : sAddOk (BitVec.ofNat 64 k) 1#64 = true := i64_sAddOk k 1 h

theorem i64_mul (a b : Nat) : BitVec.ofNat 64 a * BitVec.ofNat 64 b = BitVec.ofNat 64 (a * b) := by
  apply BitVec.eq_of_toNat_eq; simp [BitVec.toNat_mul, BitVec.toNat_ofNat, Nat.mul_mod]

theorem i64_sMulOk (a b : Nat) (h : a * b < 2 ^ 63) (ha : a < 2 ^ 63) (hb : b < 2 ^ 63) :
    sMulOk (BitVec.ofNat 64 a) (BitVec.ofNat 64 b) = true := by
  simp only [sMulOk, BitVec.smulOverflow, i64_toInt a ha, i64_toInt b hb]
  have : ((a : Int) * (b : Int)) = ((a * b : Nat) : Int) := by simp
  rw [this]; simp; omega

theorem i64_eq_zero (k : Nat) (h : k < 2 ^ 63) : (BitVec.ofNat 64 k == 0#64) = decide (k = 0) := by
  rw [Bool.eq_iff_iff]; simp only [beq_iff_eq, decide_eq_true_eq]
  constructor
  · intro e; have := congrArg BitVec.toNat e; simpa [i64_toNat k h] using this
  · intro e; rw [e]

/-! ### the element after a processed prefix -/

theorem rd_at {w : Nat} (done : List (BitVec w)) (x : BitVec w) (rest : List (BitVec w)) :
    rd (done ++ x :: rest) done.length = x := by simp [rd, List.getD]

theorem rd8_at (done : List UInt8) (x : UInt8) (rest : List UInt8) :
    rd8 (done ++ x :: rest) done.length = x.toBitVec := by simp [rd8, List.getD]

theorem wr_at {w : Nat} (done : List (BitVec w)) (x v : BitVec w) (rest : List (BitVec w)) :
    wr (done ++ x :: rest) done.length v = done ++ v :: rest := by simp [wr]

theorem wr8_at (done : List UInt8) (x : UInt8) (v : BitVec 8) (rest : List UInt8) :
    wr8 (done ++ x :: rest) done.length v = done ++ UInt8.ofBitVec v :: rest := by simp [wr8]

theorem inb_at {α : Type} (done : List α) (x : α) (rest : List α) : inb (done ++ x :: rest) done.length 1 = true := by
  simp [inb]

theorem wr_at' {w : Nat} (done : List (BitVec w)) (x v : BitVec w) (rest : List (BitVec w)) (k : Nat) (h : k = done.length) :
    wr (done ++ x :: rest) k v = done ++ v :: rest := by subst h; exact wr_at ..

theorem wr8_at' (done : List UInt8) (x : UInt8) (v : BitVec 8) (rest : List UInt8) (k : Nat) (h : k = done.length) :
    wr8 (done ++ x :: rest) k v = done ++ UInt8.ofBitVec v :: rest := by subst h; exact wr8_at ..

theorem inb_at' {α : Type} (done : List α) (x : α) (rest : List α) (k : Nat) (h : k = done.length) :
    inb (done ++ x :: rest) k 1 = true := by subst h; exact inb_at ..

theorem rd_at' {w : Nat} (done : List (BitVec w)) (x : BitVec w) (rest : List (BitVec w)) (k : Nat) (h : k = done.length) :
    rd (done ++ x :: rest) k = x := by subst h; exact rd_at ..

theorem rd8_at' (done : List UInt8) (x : UInt8) (rest : List UInt8) (k : Nat) (h : k = done.length) :
    rd8 (done ++ x :: rest) k = x.toBitVec := by subst h; exact rd8_at ..

theorem inb_of_lt {α : Type} (a : List α) (i : Nat) (h : i < a.length) : inb a i 1 = true := by
  simp [inb]; omega

theorem inb_false_of_ge {α : Type} (a : List α) (i : Nat) (h : a.length ≤ i) : inb a i 1 = false := by
  simp [inb]; omega

theorem rd8_of_lt (a : List UInt8) (i : Nat) (h : i < a.length) : rd8 a i = a[i].toBitVec := by
  simp [rd8, List.getD, List.getElem?_eq_getElem h]

theorem rd_of_lt {w : Nat} (a : List (BitVec w)) (i : Nat) (h : i < a.length) : rd a i = a[i] := by
  simp [rd, List.getD, List.getElem?_eq_getElem h]

/-! ### `int16_t` operands promoted to `int` -/

theorem sext_beq (a b : BitVec 16) : (BitVec.signExtend 32 a == BitVec.signExtend 32 b) = (a == b) := by
  rw [Bool.eq_iff_iff]; simp only [beq_iff_eq]
  constructor
  · intro h
    have := congrArg BitVec.toInt h
    rw [BitVec.toInt_signExtend_of_le (by omega), BitVec.toInt_signExtend_of_le (by omega)] at this
    exact BitVec.eq_of_toInt_eq this
  · intro h; rw [h]

theorem sext_slt (a b : BitVec 16) : BitVec.slt (BitVec.signExtend 32 a) (BitVec.signExtend 32 b) = a.slt b := by
  simp only [BitVec.slt_eq_decide, BitVec.toInt_signExtend_of_le (show 16 ≤ 32 by omega)]

/-- `(byte >> s) & 1` computed in `int` and stored into a `uint8_t` -/
theorem shr_and_one : ∀ (b : BitVec 8) (s : Fin 8),
    BitVec.setWidth 8 ((BitVec.sshiftRight (BitVec.setWidth 32 b) s.val) &&& 1#32) =
      ((UInt8.ofBitVec b >>> UInt8.ofNat s.val) &&& 1).toBitVec := by decide +kernel

/-! ### `size_t` counters -/

theorem u64_toNat (k : Nat) (h : k < 2 ^ 64) : (BitVec.ofNat 64 k).toNat = k := by
  simp [BitVec.toNat_ofNat]; omega

theorem u64_lt (a b : Nat) (ha : a < 2 ^ 64) (hb : b < 2 ^ 64) :
    decide (BitVec.ofNat 64 a < BitVec.ofNat 64 b) = decide (a < b) := by
  simp [BitVec.lt_def, u64_toNat a ha, u64_toNat b hb]

theorem u64_le (a b : Nat) (ha : a < 2 ^ 64) (hb : b < 2 ^ 64) :
    decide (BitVec.ofNat 64 a ≤ BitVec.ofNat 64 b) = decide (a ≤ b) := by
  simp [BitVec.le_def, u64_toNat a ha, u64_toNat b hb]

theorem u64_sub (a b : Nat) (h : b ≤ a) (ha : a < 2 ^ 64) : BitVec.ofNat 64 a - BitVec.ofNat 64 b = BitVec.ofNat 64 (a - b) := by
  apply BitVec.eq_of_toNat_eq
  simp only [BitVec.toNat_sub, BitVec.toNat_ofNat]
  rw [Nat.mod_eq_of_lt (show b < 2 ^ 64 by omega), Nat.mod_eq_of_lt ha, Nat.mod_eq_of_lt (show a - b < 2 ^ 64 by omega)]
  omega

/-! ### `i / 8`, `i % 8`, `(int)` truncation -/

theorem i64_sdiv (k d : Nat) (hk : k < 2 ^ 63) (hd : d < 2 ^ 63) :
    BitVec.sdiv (BitVec.ofNat 64 k) (BitVec.ofNat 64 d) = BitVec.ofNat 64 (k / d) := by
  rw [BitVec.sdiv_eq, i64_msb k hk, i64_msb d hd]
  apply BitVec.eq_of_toNat_eq
  have : k / d < 2 ^ 63 := Nat.lt_of_le_of_lt (Nat.div_le_self _ _) hk
  simp only [BitVec.udiv_eq, BitVec.toNat_udiv, i64_toNat k hk, i64_toNat d hd, i64_toNat _ this]

theorem i64_srem (k d : Nat) (hk : k < 2 ^ 63) (hd : d < 2 ^ 63) :
    BitVec.srem (BitVec.ofNat 64 k) (BitVec.ofNat 64 d) = BitVec.ofNat 64 (k % d) := by
  rw [BitVec.srem_eq, i64_msb k hk, i64_msb d hd]
  apply BitVec.eq_of_toNat_eq
  have : k % d < 2 ^ 63 := Nat.lt_of_le_of_lt (Nat.mod_le _ _) hk
  simp only [BitVec.toNat_umod, i64_toNat k hk, i64_toNat d hd, i64_toNat _ this]

theorem trunc32 (m : Nat) : BitVec.setWidth 32 (BitVec.ofNat 64 m) = BitVec.ofNat 32 m := by
  apply BitVec.eq_of_toNat_eq
  simp only [BitVec.toNat_setWidth, BitVec.toNat_ofNat]
  omega

theorem i32_toIntNat (k : Nat) (h : k < 2 ^ 31) : (BitVec.ofNat 32 k).toInt.toNat = k := by
  rw [ofNat_toInt_small k h]; simp

theorem shCountOk32 (s : Nat) (h : s < 32) : shCountOk true 32 (BitVec.ofNat 32 s) = true := by
  simp only [shCountOk, msb_ofNat_small s (by omega), ofNat_toNat_small s (by omega)]
  simp; omega
end Carquet.Proofs.CFunB
