import Carquet.Impl.Varint
import Carquet.Spec.Varint
/-
carquet's zigzag bit tricks (Impl/Varint.lean, on `BitVec`) in arithmetic form, their round trip
and their agreement with `Spec.Varint.zigzag`.
-/
namespace Carquet.Proofs.Zigzag
open Carquet.Impl.Varint Carquet.Spec

theorem enc32_toNat (v : BitVec 32) :
    (zigzagEncode32 v).toNat = if v.toNat < 2 ^ 31 then 2 * v.toNat else 2 ^ 33 - 1 - 2 * v.toNat := by
  unfold zigzagEncode32
  have hv := v.isLt
  by_cases h : v.toNat < 2 ^ 31
  · have hm : v.msb = false := by rw [BitVec.msb_eq_decide]; simp; omega
    have hz : v >>> 31 = 0#32 := by
      apply BitVec.eq_of_toNat_eq
      rw [BitVec.toNat_ushiftRight, Nat.shiftRight_eq_div_pow]
      simp; omega
    rw [BitVec.sshiftRight_eq_of_msb_false hm, hz, BitVec.xor_zero, BitVec.toNat_shiftLeft, if_pos h,
      Nat.shiftLeft_eq]
    omega
  · have hm : v.msb = true := by rw [BitVec.msb_eq_decide]; simp; omega
    have hz : ~~~v >>> 31 = 0#32 := by
      apply BitVec.eq_of_toNat_eq
      rw [BitVec.toNat_ushiftRight, Nat.shiftRight_eq_div_pow, BitVec.toNat_not]
      simp; omega
    have ha : ~~~(0#32) = BitVec.allOnes 32 := by decide
    rw [BitVec.sshiftRight_eq_of_msb_true hm, hz, ha, BitVec.xor_allOnes, BitVec.toNat_not,
      BitVec.toNat_shiftLeft, if_neg h, Nat.shiftLeft_eq]
    omega

theorem dec32_toNat (x : BitVec 32) :
    (zigzagDecode32 x).toNat = if x.toNat % 2 = 0 then x.toNat / 2 else 2 ^ 32 - 1 - x.toNat / 2 := by
  unfold zigzagDecode32
  have hx := x.isLt
  by_cases h : x.toNat % 2 = 0
  · have h1 : x &&& 1#32 = 0#32 := by
      apply BitVec.eq_of_toNat_eq
      rw [BitVec.toNat_and]
      simp [Nat.and_one_is_mod, h]
    rw [h1, BitVec.neg_zero, BitVec.xor_zero, BitVec.toNat_ushiftRight, if_pos h, Nat.shiftRight_eq_div_pow]
  · have h1 : x &&& 1#32 = 1#32 := by
      apply BitVec.eq_of_toNat_eq
      rw [BitVec.toNat_and]
      simp [Nat.and_one_is_mod]; omega
    have h2 : -(1#32) = BitVec.allOnes 32 := by decide
    rw [h1, h2, BitVec.xor_allOnes, BitVec.toNat_not, BitVec.toNat_ushiftRight, if_neg h,
      Nat.shiftRight_eq_div_pow]

theorem roundtrip32 (v : BitVec 32) : zigzagDecode32 (zigzagEncode32 v) = v := by
  apply BitVec.eq_of_toNat_eq
  rw [dec32_toNat, enc32_toNat]
  have hv := v.isLt
  by_cases h : v.toNat < 2 ^ 31
  · rw [if_pos h, if_pos (by omega)]; omega
  · rw [if_neg h, if_neg (by omega)]; omega

theorem roundtrip32' (x : BitVec 32) : zigzagEncode32 (zigzagDecode32 x) = x := by
  apply BitVec.eq_of_toNat_eq
  rw [enc32_toNat, dec32_toNat]
  have hx := x.isLt
  by_cases h : x.toNat % 2 = 0
  · rw [if_pos h, if_pos (by omega)]; omega
  · rw [if_neg h, if_neg (by omega)]; omega

theorem enc32_eq_spec (v : BitVec 32) : (zigzagEncode32 v).toNat = Varint.zigzag v.toInt := by
  rw [enc32_toNat, BitVec.toInt_eq_toNat_cond]
  have hv := v.isLt
  unfold Varint.zigzag
  by_cases h : v.toNat < 2 ^ 31
  · rw [if_pos h, if_pos (by omega), if_pos (by omega)]; omega
  · rw [if_neg h, if_neg (by omega), if_neg (by omega)]; omega

theorem enc64_toNat (v : BitVec 64) :
    (zigzagEncode64 v).toNat = if v.toNat < 2 ^ 63 then 2 * v.toNat else 2 ^ 65 - 1 - 2 * v.toNat := by
  unfold zigzagEncode64
  have hv := v.isLt
  by_cases h : v.toNat < 2 ^ 63
  · have hm : v.msb = false := by rw [BitVec.msb_eq_decide]; simp; omega
    have hz : v >>> 63 = 0#64 := by
      apply BitVec.eq_of_toNat_eq
      rw [BitVec.toNat_ushiftRight, Nat.shiftRight_eq_div_pow]
      simp; omega
    rw [BitVec.sshiftRight_eq_of_msb_false hm, hz, BitVec.xor_zero, BitVec.toNat_shiftLeft, if_pos h,
      Nat.shiftLeft_eq]
    omega
  · have hm : v.msb = true := by rw [BitVec.msb_eq_decide]; simp; omega
    have hz : ~~~v >>> 63 = 0#64 := by
      apply BitVec.eq_of_toNat_eq
      rw [BitVec.toNat_ushiftRight, Nat.shiftRight_eq_div_pow, BitVec.toNat_not]
      simp; omega
    have ha : ~~~(0#64) = BitVec.allOnes 64 := by decide
    rw [BitVec.sshiftRight_eq_of_msb_true hm, hz, ha, BitVec.xor_allOnes, BitVec.toNat_not,
      BitVec.toNat_shiftLeft, if_neg h, Nat.shiftLeft_eq]
    omega

theorem dec64_toNat (x : BitVec 64) :
    (zigzagDecode64 x).toNat = if x.toNat % 2 = 0 then x.toNat / 2 else 2 ^ 64 - 1 - x.toNat / 2 := by
  unfold zigzagDecode64
  have hx := x.isLt
  by_cases h : x.toNat % 2 = 0
  · have h1 : x &&& 1#64 = 0#64 := by
      apply BitVec.eq_of_toNat_eq
      rw [BitVec.toNat_and]
      simp [Nat.and_one_is_mod, h]
    rw [h1, BitVec.neg_zero, BitVec.xor_zero, BitVec.toNat_ushiftRight, if_pos h, Nat.shiftRight_eq_div_pow]
  · have h1 : x &&& 1#64 = 1#64 := by
      apply BitVec.eq_of_toNat_eq
      rw [BitVec.toNat_and]
      simp [Nat.and_one_is_mod]; omega
    have h2 : -(1#64) = BitVec.allOnes 64 := by decide
    rw [h1, h2, BitVec.xor_allOnes, BitVec.toNat_not, BitVec.toNat_ushiftRight, if_neg h,
      Nat.shiftRight_eq_div_pow]

theorem roundtrip64 (v : BitVec 64) : zigzagDecode64 (zigzagEncode64 v) = v := by
  apply BitVec.eq_of_toNat_eq
  rw [dec64_toNat, enc64_toNat]
  have hv := v.isLt
  by_cases h : v.toNat < 2 ^ 63
  · rw [if_pos h, if_pos (by omega)]; omega
  · rw [if_neg h, if_neg (by omega)]; omega

theorem enc64_eq_spec (v : BitVec 64) : (zigzagEncode64 v).toNat = Varint.zigzag v.toInt := by
  rw [enc64_toNat, BitVec.toInt_eq_toNat_cond]
  have hv := v.isLt
  unfold Varint.zigzag
  by_cases h : v.toNat < 2 ^ 63
  · rw [if_pos h, if_pos (by omega), if_pos (by omega)]; omega
  · rw [if_neg h, if_neg (by omega), if_neg (by omega)]; omega

end Carquet.Proofs.Zigzag
