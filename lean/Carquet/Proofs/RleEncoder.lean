import Carquet.Proofs.RleGrammar
/-
The (repaired) encoder of Impl/Rle.lean emits a stream of the Spec grammar.

Invariant: the bytes emitted so far are complete runs denoting `xs`, and
`xs ++ e.buf ++ replicate e.rep e.prev` is the sequence of values put so far.  `flush` turns
what is pending into runs and adds at most seven zero values of padding in the last group.
-/
namespace Carquet.Proofs.RleEncoder
open Carquet.Impl Carquet.Impl.Rle Carquet.Spec Carquet.Spec.RleHybrid
open Carquet.Proofs.NatBits Carquet.Proofs.BitpackImpl Carquet.Proofs.BitPackSpec Carquet.Proofs.RleGrammar

/-- part of the invariant that does not involve the current run -/
structure Core (w : Nat) (e : Enc) (xs : List Nat) : Prop where
  width : e.width = w
  total : e.total = e.buf.length
  lt8 : e.buf.length < 8
  bufLt : ∀ v ∈ e.buf, v < 2 ^ w
  runs : Runs w e.out xs

theorem isHeader_write {h : Nat} (hh : h < 2 ^ 32) : IsHeader (Varint.writeVarint32 h) h := by
  rw [VarintImpl.writeVarint32_eq hh]
  refine ⟨Spec.Varint.decode_encode h, ?_, hh⟩
  exact Spec.Varint.encode_length_le 4 h (Nat.lt_of_lt_of_le hh (by decide))

theorem valueLE_eq (w v : Nat) : valueLE w v = RleHybrid.leBytes (RleHybrid.valueBytes w) v := by
  unfold valueLE
  rw [valueBytes_eq]
  generalize Rle.valueBytes w = n
  induction n generalizing v with
  | zero => rfl
  | succ n ih =>
    rw [List.range_succ_eq_map, List.map_cons, List.map_map, RleHybrid.leBytes, ← ih]
    congr 1
    · simp [ofNat_mod]
    · apply List.map_congr_left
      intro i _
      simp only [Function.comp]
      congr 1
      rw [shr_eq, shr_eq, Nat.div_div_eq_div_mul, show (i + 1) * 8 = 8 + i * 8 by omega, Nat.pow_add]

/-- one group of eight values below `2^w`, as carquet packs it, is a one-group run -/
theorem group_runs {w : Nat} (hw : w ≤ 32) (g8 : List Nat) (hlen : g8.length = 8) (hlt : ∀ v ∈ g8, v < 2 ^ w) :
    Runs w (Varint.writeVarint32 3 ++ (Bitpack.pack8 w g8).take w) g8 := by
  have hpk : Bitpack.pack8 w g8 = BitPack.pack w g8 := impl_pack8_eq_spec hw g8 hlen
  have hl : (BitPack.pack w g8).length = w := by rw [pack_eq, leBytes_length, hlen]; omega
  have htake : (Bitpack.pack8 w g8).take w = BitPack.pack w g8 := by
    rw [hpk]; exact List.take_of_length_le (by omega)
  have hu : BitPack.unpack w (BitPack.pack w g8) (8 * 1) = some g8 := by
    have := unpack_pack w g8 hlt
    rw [hlen] at this; exact this
  have := Runs.packed (Varint.writeVarint32 3) 1 (BitPack.pack w g8) g8 [] []
    (isHeader_write (by decide)) (by rw [hl]; omega) hu Runs.nil
  rw [htake]
  simpa using this

/-- `flush_bitpack` on a non-empty group buffer: one run, zero padded -/
theorem flushBitpack_spec {w : Nat} (hw : w ≤ 32) (e : Enc) (hwd : e.width = w) (hpos : 0 < e.buf.length)
    (hle : e.buf.length ≤ 8) (htot : e.total = e.buf.length) (hlt : ∀ v ∈ e.buf, v < 2 ^ w) :
    ∃ G, flushBitpack e = { e with out := e.out ++ G, buf := [], total := 0 } ∧
      Runs w G (e.buf ++ List.replicate (8 - e.buf.length) 0) := by
  have hg : (e.total + 7) / 8 = 1 := by omega
  have hne : ¬ e.buf.length = 0 := by omega
  refine ⟨Varint.writeVarint32 3 ++ (Bitpack.pack8 w (e.buf ++ List.replicate (8 - e.buf.length) 0)).take w, ?_, ?_⟩
  · unfold flushBitpack
    rw [if_neg hne, hg, hwd]
    have : ((1 <<< 1 ||| 1) % 2 ^ 32) = 3 := by decide
    rw [this]
    simp [groupsBytes, List.append_assoc]
  · apply group_runs hw
    · simp; omega
    · intro v hv
      rcases List.mem_append.mp hv with h | h
      · exact hlt v h
      · rw [List.eq_of_mem_replicate h]; exact Nat.two_pow_pos w

/-- the `while` of `flush_rle` -/
theorem flushRleLoop_spec {w : Nat} : ∀ (f : Nat) (e : Enc), e.width = w → e.prev < 2 ^ w →
    e.rep ≤ f * maxRun →
    ∃ R, flushRleLoop f e = { e with out := e.out ++ R, rep := 0 } ∧
      Runs w R (List.replicate e.rep e.prev) := by
  intro f
  induction f with
  | zero =>
    intro e _ _ h
    have h0 : e.rep = 0 := by omega
    refine ⟨[], ?_, by rw [h0]; exact Runs.nil⟩
    simp only [flushRleLoop, List.append_nil]
    cases e; simp_all
  | succ f ih =>
    intro e hwd hv h
    simp only [flushRleLoop]
    by_cases h0 : e.rep > 0
    · rw [if_pos h0]
      have hrun : min e.rep maxRun ≤ maxRun := Nat.min_le_right _ _
      have hrun1 : min e.rep maxRun ≤ e.rep := Nat.min_le_left _ _
      obtain ⟨R, hR, hruns⟩ := ih { e with out := e.out ++ rleRunBytes e.width e.prev (min e.rep maxRun), rep := e.rep - min e.rep maxRun } hwd hv (by
            show e.rep - min e.rep maxRun ≤ f * maxRun
            rw [Nat.add_mul] at h
            by_cases hc : e.rep ≤ maxRun
            · rw [Nat.min_eq_left hc]; omega
            · rw [Nat.min_eq_right (by omega)]; omega)
      refine ⟨rleRunBytes e.width e.prev (min e.rep maxRun) ++ R, ?_, ?_⟩
      · rw [hR]; simp [List.append_assoc]
      · have hh : IsHeader (Varint.writeVarint32 ((min e.rep maxRun <<< 1) % 2 ^ 32)) (2 * min e.rep maxRun) := by
          have hlt : 2 * min e.rep maxRun < 2 ^ 32 := by
            have hm : maxRun = 2147483647 := rfl
            rw [hm] at hrun ⊢; omega
          have e1 : (min e.rep maxRun <<< 1) % 2 ^ 32 = 2 * min e.rep maxRun := by
            rw [shl_eq, Nat.pow_one, Nat.mul_comm, Nat.mod_eq_of_lt hlt]
          rw [e1]; exact isHeader_write hlt
        have := Runs.rle _ (min e.rep maxRun) e.prev R _ hh hv hruns
        unfold rleRunBytes
        rw [hwd, valueLE_eq]
        have hsplit : List.replicate e.rep e.prev =
            List.replicate (min e.rep maxRun) e.prev ++ List.replicate (e.rep - min e.rep maxRun) e.prev := by
          rw [List.replicate_append_replicate]; congr 1; omega
        rw [hsplit]
        exact this
    · rw [if_neg h0]
      have h0' : e.rep = 0 := by omega
      refine ⟨[], ?_, by rw [h0']; exact Runs.nil⟩
      cases e; simp_all

theorem flushRle_spec {w : Nat} (e : Enc) (hwd : e.width = w) (hv : e.prev < 2 ^ w) :
    ∃ R, flushRle e = { e with out := e.out ++ R, rep := 0 } ∧ Runs w R (List.replicate e.rep e.prev) := by
  apply flushRleLoop_spec _ e hwd hv
  have : 0 < maxRun := by decide
  rw [Nat.add_mul, Nat.one_mul]
  have := Nat.div_add_mod e.rep maxRun
  have := Nat.mod_lt e.rep (show maxRun > 0 by decide)
  rw [Nat.mul_comm]; omega

/-- one step of "push `prev_value`": the runs and the buffer together gain one value -/
theorem push1_spec {w : Nat} (hw : w ≤ 32) (e : Enc) (xs : List Nat) (hc : Core w e xs) (hv : e.prev < 2 ^ w) :
    ∃ xs', Core w (push1 e) xs' ∧ xs' ++ (push1 e).buf = xs ++ e.buf ++ [e.prev] ∧
      (push1 e).prev = e.prev ∧ (push1 e).rep = e.rep ∧ (push1 e).hasPrev = e.hasPrev := by
  unfold push1
  by_cases h8 : (e.buf ++ [e.prev]).length = 8
  · rw [if_pos h8]
    have hlt : ∀ v ∈ e.buf ++ [e.prev], v < 2 ^ w := by
      intro v hv'
      rcases List.mem_append.mp hv' with h | h
      · exact hc.bufLt v h
      · rw [List.mem_singleton.mp h]; exact hv
    obtain ⟨G, hG, hruns⟩ := flushBitpack_spec hw { e with buf := e.buf ++ [e.prev], total := e.total + 1 }
      hc.width (by rw [h8]; decide) (by rw [h8]; exact Nat.le_refl _)
      (by show e.total + 1 = (e.buf ++ [e.prev]).length; rw [hc.total]; simp) hlt
    rw [hG]
    have h80 : 8 - (e.buf ++ [e.prev]).length = 0 := by omega
    simp only [h80, List.replicate_zero, List.append_nil] at hruns
    refine ⟨xs ++ (e.buf ++ [e.prev]), ⟨hc.width, rfl, by simp, fun v h => by simp at h, ?_⟩, ?_, rfl, rfl, rfl⟩
    · exact runs_append hc.runs hruns
    · simp [List.append_assoc]
  · rw [if_neg h8]
    have hl := hc.lt8
    refine ⟨xs, ⟨hc.width, ?_, ?_, ?_, hc.runs⟩, ?_, rfl, rfl, rfl⟩
    · show e.total + 1 = (e.buf ++ [e.prev]).length
      rw [hc.total]; simp
    · show (e.buf ++ [e.prev]).length < 8
      simp only [List.length_append, List.length_singleton] at h8 ⊢; omega
    · intro v hv'
      rcases List.mem_append.mp hv' with h | h
      · exact hc.bufLt v h
      · rw [List.mem_singleton.mp h]; exact hv
    · simp [List.append_assoc]

theorem pushRun_spec {w : Nat} (hw : w ≤ 32) : ∀ (n : Nat) (e : Enc) (xs : List Nat), Core w e xs →
    e.prev < 2 ^ w →
    ∃ xs', Core w (pushRun n e) xs' ∧ xs' ++ (pushRun n e).buf = xs ++ e.buf ++ List.replicate n e.prev ∧
      (pushRun n e).prev = e.prev ∧ (pushRun n e).rep = e.rep ∧ (pushRun n e).hasPrev = e.hasPrev := by
  intro n
  induction n with
  | zero => intro e xs hc _; exact ⟨xs, hc, by simp [pushRun], rfl, rfl, rfl⟩
  | succ n ih =>
    intro e xs hc hv
    obtain ⟨xs1, c1, e1, p1, r1, q1⟩ := push1_spec hw e xs hc hv
    obtain ⟨xs2, c2, e2, p2, r2, q2⟩ := ih (push1 e) xs1 c1 (by rw [p1]; exact hv)
    refine ⟨xs2, c2, ?_, by rw [pushRun, p2, p1], by rw [pushRun, r2, r1], by rw [pushRun, q2, q1]⟩
    simp only [pushRun]
    rw [e2, e1, p1, List.replicate_succ]
    simp [List.append_assoc]

/-- `complete_bitpack_group` (F1): the pending group is completed with values of the run -/
theorem completeGroup_spec {w : Nat} (hw : w ≤ 32) (e : Enc) (xs : List Nat) (hc : Core w e xs)
    (hv : e.prev < 2 ^ w) (h8 : 8 ≤ e.rep) :
    ∃ xs', Core w (completeGroup e) xs' ∧ (completeGroup e).buf = [] ∧
      xs' ++ List.replicate (completeGroup e).rep e.prev = xs ++ e.buf ++ List.replicate e.rep e.prev ∧
      (completeGroup e).prev = e.prev ∧ (completeGroup e).hasPrev = e.hasPrev ∧ 0 < (completeGroup e).rep := by
  unfold completeGroup
  by_cases h0 : e.buf.length = 0
  · rw [if_pos h0]
    have : e.buf = [] := List.eq_nil_of_length_eq_zero h0
    exact ⟨xs, hc, this, by simp [this], rfl, rfl, by omega⟩
  · rw [if_neg h0]
    have hl := hc.lt8
    have hlen : (e.buf ++ List.replicate (8 - e.buf.length) e.prev).length = 8 := by simp; omega
    have hlt : ∀ v ∈ e.buf ++ List.replicate (8 - e.buf.length) e.prev, v < 2 ^ w := by
      intro v hv'
      rcases List.mem_append.mp hv' with h | h
      · exact hc.bufLt v h
      · rw [List.eq_of_mem_replicate h]; exact hv
    obtain ⟨G, hG, hruns⟩ := flushBitpack_spec hw
      { e with buf := e.buf ++ List.replicate (8 - e.buf.length) e.prev, total := e.total + (8 - e.buf.length), rep := e.rep - (8 - e.buf.length) }
      hc.width (by rw [hlen]; decide) (by rw [hlen]; exact Nat.le_refl _)
      (by show e.total + (8 - e.buf.length) = (e.buf ++ List.replicate (8 - e.buf.length) e.prev).length
          rw [hlen, hc.total]; omega) hlt
    rw [hG]
    have h80 : 8 - (e.buf ++ List.replicate (8 - e.buf.length) e.prev).length = 0 := by omega
    simp only [h80, List.replicate_zero, List.append_nil] at hruns
    refine ⟨xs ++ (e.buf ++ List.replicate (8 - e.buf.length) e.prev),
      ⟨hc.width, rfl, by simp, fun v h => by simp at h, runs_append hc.runs hruns⟩, rfl, ?_, rfl, rfl, ?_⟩
    · show xs ++ (e.buf ++ List.replicate (8 - e.buf.length) e.prev) ++
          List.replicate (e.rep - (8 - e.buf.length)) e.prev = xs ++ e.buf ++ List.replicate e.rep e.prev
      have : e.rep = (8 - e.buf.length) + (e.rep - (8 - e.buf.length)) := by omega
      conv => rhs; rw [this, ← List.replicate_append_replicate]
      simp [List.append_assoc]
    · show 0 < e.rep - (8 - e.buf.length)
      omega

/-- the end of a run (`put` with a new value, without installing it): everything seen so far
is in the runs and the group buffer -/
theorem endRun_spec {w : Nat} (hw : w ≤ 32) (e : Enc) (xs : List Nat) (hc : Core w e xs) (hv : e.prev < 2 ^ w) :
    ∃ xs', Core w (endRun e) xs' ∧ xs' ++ (endRun e).buf = xs ++ e.buf ++ List.replicate e.rep e.prev ∧
      (endRun e).hasPrev = e.hasPrev := by
  unfold endRun
  by_cases h8 : e.rep ≥ 8
  · rw [if_pos h8]
    obtain ⟨xs1, c1, b1, e1, p1, q1, _⟩ := completeGroup_spec hw e xs hc hv h8
    obtain ⟨R, hR, hruns⟩ := flushRle_spec (completeGroup e) c1.width (by rw [p1]; exact hv)
    rw [hR]
    refine ⟨xs1 ++ List.replicate (completeGroup e).rep e.prev,
      ⟨c1.width, c1.total, c1.lt8, c1.bufLt, ?_⟩, ?_, q1⟩
    · rw [p1] at hruns; exact runs_append c1.runs hruns
    · show xs1 ++ List.replicate (completeGroup e).rep e.prev ++ (completeGroup e).buf = _
      rw [b1, List.append_nil, e1]
  · rw [if_neg h8]
    obtain ⟨xs1, c1, e1, p1, r1, q1⟩ := pushRun_spec hw e.rep e xs hc hv
    exact ⟨xs1, ⟨c1.width, c1.total, c1.lt8, c1.bufLt, c1.runs⟩, e1, q1⟩

/-- the invariant of the encoder after the values `seen` have been put -/
structure Inv (w : Nat) (e : Enc) (seen : List Nat) : Prop where
  core : ∃ xs, Core w e xs ∧ xs ++ e.buf ++ List.replicate e.rep e.prev = seen
  prevLt : e.hasPrev = true → e.prev < 2 ^ w ∧ 0 < e.rep
  noPrev : e.hasPrev = false → e.rep = 0 ∧ e.buf = []

theorem inv_init (w : Nat) : Inv w (Enc.init w) [] :=
  ⟨⟨[], ⟨rfl, rfl, by simp [Enc.init], fun v h => by simp [Enc.init] at h, Runs.nil⟩, by simp [Enc.init]⟩,
   fun h => by simp [Enc.init] at h, fun _ => ⟨rfl, rfl⟩⟩

theorem inv_put {w : Nat} (hw : w ≤ 32) (e : Enc) (seen : List Nat) (v : Nat) (hi : Inv w e seen)
    (hv : v < 2 ^ w) : Inv w (put e v) (seen ++ [v]) := by
  obtain ⟨⟨xs, hc, hseen⟩, hp, hn⟩ := hi
  unfold put
  by_cases h1 : e.hasPrev = false
  · rw [if_pos h1]
    obtain ⟨r0, b0⟩ := hn h1
    refine ⟨⟨xs, ⟨hc.width, hc.total, hc.lt8, hc.bufLt, hc.runs⟩, ?_⟩, fun _ => ⟨hv, by simp⟩,
      fun h => by simp at h⟩
    rw [← hseen, r0, b0]; simp
  · rw [if_neg h1]
    have h1' : e.hasPrev = true := by simpa using h1
    obtain ⟨hpl, hrep⟩ := hp h1'
    by_cases h2 : v = e.prev
    · rw [if_pos h2]
      refine ⟨⟨xs, ⟨hc.width, hc.total, hc.lt8, hc.bufLt, hc.runs⟩, ?_⟩, fun _ => ⟨hpl, by simp⟩,
        fun h => by simp [h1'] at h⟩
      rw [← hseen, h2]
      simp [List.replicate_succ', List.append_assoc]
    · rw [if_neg h2]
      obtain ⟨xs1, c1, e1, q1⟩ := endRun_spec hw e xs hc hpl
      refine ⟨⟨xs1, ⟨c1.width, c1.total, c1.lt8, c1.bufLt, c1.runs⟩, ?_⟩, fun _ => ⟨hv, by simp⟩,
        fun h => by simp [q1, h1'] at h⟩
      show xs1 ++ (endRun e).buf ++ List.replicate 1 v = seen ++ [v]
      rw [e1, hseen]; rfl

theorem inv_foldl {w : Nat} (hw : w ≤ 32) (vals : List Nat) : ∀ (e : Enc) (seen : List Nat), Inv w e seen →
    (∀ v ∈ vals, v < 2 ^ w) → Inv w (vals.foldl put e) (seen ++ vals) := by
  induction vals with
  | nil => intro e seen h _; simpa using h
  | cons v vs ih =>
    intro e seen h hv
    have := ih (put e v) (seen ++ [v]) (inv_put hw e seen v h (hv v (List.mem_cons_self)))
      (fun x hx => hv x (List.mem_cons_of_mem _ hx))
    simpa [List.append_assoc] using this

/-- `flush`: the output is a complete stream of the values put, plus at most 7 zeros of padding -/
theorem flush_spec {w : Nat} (hw : w ≤ 32) (e : Enc) (seen : List Nat) (hi : Inv w e seen) :
    ∃ pad, Runs w (flush e).out (seen ++ pad) ∧ pad.length < 8 ∧ ∀ p ∈ pad, p = 0 := by
  obtain ⟨⟨xs, hc, hseen⟩, hp, hn⟩ := hi
  unfold flush
  by_cases h8 : e.rep ≥ 8
  · rw [if_pos h8]
    have h1 : e.hasPrev = true := by
      by_cases h : e.hasPrev = true
      · exact h
      · have := (hn (by simpa using h)).1; omega
    obtain ⟨hpl, _⟩ := hp h1
    obtain ⟨xs1, c1, b1, e1, p1, q1, _⟩ := completeGroup_spec hw e xs hc hpl h8
    obtain ⟨R, hR, hruns⟩ := flushRle_spec (completeGroup e) c1.width (by rw [p1]; exact hpl)
    rw [hR]
    refine ⟨[], ?_, by decide, fun p h => by simp at h⟩
    rw [List.append_nil, ← hseen, ← e1]
    rw [p1] at hruns
    exact runs_append c1.runs hruns
  · rw [if_neg h8]
    by_cases h0 : e.rep > 0
    · rw [if_pos h0]
      have h1 : e.hasPrev = true := by
        by_cases h : e.hasPrev = true
        · exact h
        · have := (hn (by simpa using h)).1; omega
      obtain ⟨hpl, _⟩ := hp h1
      obtain ⟨xs1, c1, e1, p1, r1, q1⟩ := pushRun_spec hw e.rep e xs hc hpl
      by_cases hb : ({ pushRun e.rep e with rep := 0 } : Enc).buf.length > 0
      · rw [if_pos hb]
        obtain ⟨G, hG, hruns⟩ := flushBitpack_spec hw { pushRun e.rep e with rep := 0 } c1.width hb
          (Nat.le_of_lt c1.lt8) c1.total c1.bufLt
        rw [hG]
        refine ⟨List.replicate (8 - (pushRun e.rep e).buf.length) 0, ?_, ?_, ?_⟩
        · have := runs_append c1.runs hruns
          rw [← hseen, ← e1]
          simpa [List.append_assoc] using this
        · have : 0 < (pushRun e.rep e).buf.length := hb
          simp; omega
        · intro p hp'; exact List.eq_of_mem_replicate hp'
      · rw [if_neg hb]
        have hb0 : (pushRun e.rep e).buf = [] := List.eq_nil_of_length_eq_zero (by
          have : ¬ (pushRun e.rep e).buf.length > 0 := hb
          omega)
        refine ⟨[], ?_, by decide, fun p h => by simp at h⟩
        rw [List.append_nil, ← hseen, ← e1, hb0, List.append_nil]
        exact c1.runs
    · rw [if_neg h0]
      have hr0 : e.rep = 0 := by omega
      have hbuf : e.buf = [] := by
        by_cases h : e.hasPrev = true
        · have := (hp h).2; omega
        · exact (hn (by simpa using h)).2
      refine ⟨[], ?_, by decide, fun p h => by simp at h⟩
      rw [List.append_nil, ← hseen, hr0, hbuf]
      simpa using hc.runs

/-- **The bytes carquet's encoder emits for a sequence form a legal stream of that sequence.** -/
theorem encode_runs {w : Nat} (hw : w ≤ 32) (vals : List Nat) (hv : ∀ v ∈ vals, v < 2 ^ w) :
    ∃ pad, Runs w (encode w vals) (vals ++ pad) ∧ pad.length < 8 ∧ ∀ p ∈ pad, p = 0 := by
  have := inv_foldl hw vals (Enc.init w) [] (inv_init w) hv
  rw [List.nil_append] at this
  exact flush_spec hw _ _ this

end Carquet.Proofs.RleEncoder
