import Carquet.Impl.Simd
import Carquet.Proofs.SimdBlocked
import Carquet.Proofs.SimdPrefix
/-
C15 helper lemmas: boolean unpack / pack block steps.
-/
namespace Carquet.Proofs.SimdBools
open Carquet Carquet.Impl.Simd Carquet.Proofs.SimdBlocked Carquet.Proofs.SimdPrefix

/-- a property of bytes checked on all 256 of them -/
theorem forall_uint8 (P : UInt8 → Prop) (h : ∀ n : Fin 256, P (UInt8.ofNat n.val)) : ∀ x, P x := by
  intro x
  have := h ⟨x.toNat, UInt8.toNat_lt x⟩
  simpa using this

/-- and-with-bit-mask then `min(·, 1)` of one byte replicated over eight lanes -/
def expand (x : UInt8) : List UInt8 := minEpu8 (andBytes (List.replicate 8 x) bitMaskBytes) (set1 8 1)

theorem expand_eq : ∀ x, expand x = Spec.Kernels.bitsOfByte x :=
  forall_uint8 _ (by decide +kernel)

theorem sse_unpack_block (b : List UInt8) (h : b.length = 2) : sseUnpackBlk b = unpackScalar b := by
  obtain ⟨p0, p1, rfl⟩ := list_len2 b h
  have : sseUnpackBlk [p0, p1] = expand p0 ++ expand p1 := rfl
  rw [this, expand_eq, expand_eq]; rfl

theorem avx2_unpack_block (b : List UInt8) (h : b.length = 4) : avx2UnpackBlk b = unpackScalar b := by
  obtain ⟨p0, p1, p2, p3, rfl⟩ := list_len4 b h
  have : avx2UnpackBlk [p0, p1, p2, p3] = expand p0 ++ expand p1 ++ expand p2 ++ expand p3 := rfl
  rw [this, expand_eq, expand_eq, expand_eq, expand_eq]; simp [unpackScalar]

theorem avx512_unpack_all (b : List UInt8) : avx512UnpackBlk b = unpackScalar b := by
  unfold avx512UnpackBlk unpackScalar maskOfBytes Spec.Kernels.bitsOfByte
  induction b with
  | nil => rfl
  | cons x xs ih =>
    simp only [List.flatMap_cons, List.map_append, List.map_map]
    rw [ih]; rfl

theorem avx512_unpack_block (b : List UInt8) (_h : b.length = 8) : avx512UnpackBlk b = unpackScalar b :=
  avx512_unpack_all b

theorem unpackScalar_append (a r : List UInt8) : unpackScalar (a ++ r) = unpackScalar a ++ unpackScalar r := by
  simp [unpackScalar]

theorem unpackScalar_length (a : List UInt8) : (unpackScalar a).length = 8 * a.length := by
  induction a with
  | nil => rfl
  | cons x xs ih =>
    have : (Spec.Kernels.bitsOfByte x).length = 8 := by simp [Spec.Kernels.bitsOfByte]
    simp only [unpackScalar, List.flatMap_cons, List.length_append, List.length_cons] at *
    omega

/-- `carquet_<isa>_unpack_bools` equals the scalar definition for every count, given the block lemma -/
theorem unpack_eq (W cin : Nat) (hW : W = 8 * cin) (hc : 0 < cin) (blk : List UInt8 → List UInt8)
    (hblk : ∀ b, b.length = cin → blk b = unpackScalar b)
    (bytes : List UInt8) (count : Nat) (h : count ≤ 8 * bytes.length) :
    some (unpackBools W blk bytes count) = Spec.Kernels.unpackBools bytes count := by
  have hcin : W / 8 = cin := by omega
  have hWpos : 0 < W := by omega
  have hk : W * (count / W) ≤ count := Nat.mul_div_le _ _
  have hmk : W * (count / W) = 8 * (cin * (count / W)) := by rw [hW, Nat.mul_assoc]
  have hle : cin * (count / W) ≤ bytes.length := by omega
  have hmod : count % W = count - W * (count / W) := by
    have := Nat.div_add_mod count W; omega
  unfold unpackBools Spec.Kernels.unpackBools
  rw [if_pos h, hcin,
    mapBlocks_take cin blk unpackScalar hblk (fun a r _ => unpackScalar_append a r) rfl _ bytes hle]
  congr 1
  have hlen : (unpackScalar (bytes.take (cin * (count / W)))).length = W * (count / W) := by
    rw [unpackScalar_length, List.length_take, Nat.min_eq_left hle, hmk]
  have split : bytes.flatMap Spec.Kernels.bitsOfByte =
      unpackScalar (bytes.take (cin * (count / W))) ++ unpackScalar (bytes.drop (cin * (count / W))) := by
    rw [← unpackScalar_append, List.take_append_drop]; rfl
  generalize hA : unpackScalar (bytes.take (cin * (count / W))) = A at *
  generalize hB : unpackScalar (bytes.drop (cin * (count / W))) = B at *
  rw [split, List.take_append, List.take_of_length_le (l := A) (by omega), hlen, hmod]

/-! ### pack -/

open Spec.Kernels in
/-- one unfolding of `packBits`, uniform in the length -/
theorem packBits_unfold : ∀ l : List Bool, l ≠ [] → packBits l = packByte (l.take 8) :: packBits (l.drop 8)
  | a :: b :: c :: d :: e :: f :: g :: h :: rest, _ => by simp [packBits]
  | [], h => absurd rfl h
  | [a], _ => by simp [packBits]
  | [a, b], _ => by simp [packBits]
  | [a, b, c], _ => by simp [packBits]
  | [a, b, c, d], _ => by simp [packBits]
  | [a, b, c, d, e], _ => by simp [packBits]
  | [a, b, c, d, e, f], _ => by simp [packBits]
  | [a, b, c, d, e, f, g], _ => by simp [packBits]

open Spec.Kernels in
theorem packBits_append (a : List Bool) : ∀ n, a.length = 8 * n → ∀ r, packBits (a ++ r) = packBits a ++ packBits r := by
  intro n
  induction n generalizing a with
  | zero => intro h r; have : a = [] := List.eq_nil_of_length_eq_zero (by omega); subst this; simp [packBits]
  | succ n ih =>
    intro h r
    have hne : a ≠ [] := by intro e; subst e; simp at h
    have hne' : a ++ r ≠ [] := by simp [hne]
    have ht : (a ++ r).take 8 = a.take 8 := by
      rw [List.take_append_of_le_length (by omega)]
    have hd : (a ++ r).drop 8 = a.drop 8 ++ r := by
      rw [List.drop_append_of_le_length (by omega)]
    rw [packBits_unfold _ hne', packBits_unfold _ hne, ht, hd, ih (a.drop 8) (by rw [List.length_drop]; omega)]
    rfl

theorem packScalar_append (a r : List UInt8) (n : Nat) (h : a.length = 8 * n) :
    packScalar (a ++ r) = packScalar a ++ packScalar r := by
  unfold packScalar
  rw [List.map_append, packBits_append _ n (by simpa using h)]

/-- a byte of the documented domain as the flag it stands for -/
def boolByte (b : Bool) : UInt8 := if b then 1 else 0

theorem dom_as_bools (b : List UInt8) (hd : ∀ x ∈ b, x = 0 ∨ x = 1) : b = (b.map (· != 0)).map boolByte := by
  induction b with
  | nil => rfl
  | cons x xs ih =>
    have hx := hd x (by simp)
    have := ih (fun y hy => hd y (by simp [hy]))
    rcases hx with rfl | rfl <;> simp [boolByte] <;> simpa using this

set_option maxRecDepth 4000 in
theorem sse_pack_enum : ∀ b0 b1 b2 b3 b4 b5 b6 b7 : Bool,
    ssePackBlk ([b0, b1, b2, b3, b4, b5, b6, b7].map boolByte) = Spec.Kernels.packBits [b0, b1, b2, b3, b4, b5, b6, b7] := by
  decide +kernel

set_option maxRecDepth 4000 in
theorem avx2_pack_enum : ∀ b0 b1 b2 b3 b4 b5 b6 b7 : Bool,
    avx2PackBlk ([b0, b1, b2, b3, b4, b5, b6, b7].map boolByte) = Spec.Kernels.packBits [b0, b1, b2, b3, b4, b5, b6, b7] := by
  decide +kernel

theorem bools_roundtrip (cs : List Bool) : (cs.map boolByte).map (· != 0) = cs := by
  induction cs with
  | nil => rfl
  | cons c cs ih => cases c <;> simp [boolByte] <;> simpa using ih

theorem sse_pack_block (b : List UInt8) (h : b.length = 8) (hd : ∀ x ∈ b, x = 0 ∨ x = 1) :
    ssePackBlk b = packScalar b := by
  obtain ⟨c0, c1, c2, c3, c4, c5, c6, c7, hc⟩ := list_len8 (b.map (· != 0)) (by simpa using h)
  have e : b = [c0, c1, c2, c3, c4, c5, c6, c7].map boolByte := by rw [← hc]; exact dom_as_bools b hd
  rw [e]
  unfold packScalar
  rw [bools_roundtrip]
  exact sse_pack_enum c0 c1 c2 c3 c4 c5 c6 c7

theorem avx2_pack_block (b : List UInt8) (h : b.length = 8) (hd : ∀ x ∈ b, x = 0 ∨ x = 1) :
    avx2PackBlk b = packScalar b := by
  obtain ⟨c0, c1, c2, c3, c4, c5, c6, c7, hc⟩ := list_len8 (b.map (· != 0)) (by simpa using h)
  have e : b = [c0, c1, c2, c3, c4, c5, c6, c7].map boolByte := by rw [← hc]; exact dom_as_bools b hd
  rw [e]
  unfold packScalar
  rw [bools_roundtrip]
  exact avx2_pack_enum c0 c1 c2 c3 c4 c5 c6 c7

theorem testEpi8Mask_self (b : List UInt8) : testEpi8Mask b b = b.map (· != 0) := by
  unfold testEpi8Mask
  induction b with
  | nil => rfl
  | cons x xs _ => simp

/-- all inputs, not only 0/1: `_mm512_test_epi8_mask` tests for non-zero like the scalar loop -/
theorem avx512_pack_block (b : List UInt8) (_h : b.length = 64) : avx512PackBlk b = packScalar b := by
  unfold avx512PackBlk bytesOfMask packScalar
  rw [testEpi8Mask_self]

open Spec.Kernels in
theorem packByte_false (s : List Bool) : ∀ j, packByte (s ++ List.replicate j false) = packByte s := by
  induction s with
  | nil =>
    intro j
    induction j with
    | zero => rfl
    | succ j ih => simp only [List.nil_append] at ih; simp [List.replicate_succ, packByte, ih]
  | cons x xs ih => intro j; simp only [List.cons_append, packByte, ih]

open Spec.Kernels in
/-- zero padding beyond the last flag does not change the bytes that hold flags -/
theorem packBits_padded : ∀ n (bits : List Bool), bits.length = n → ∀ m,
    (packBits (bits ++ List.replicate m false)).take ((bits.length + 7) / 8) = packBits bits := by
  intro n
  induction n using Nat.strongRecOn with
  | _ n ih =>
    intro bits hn m
    by_cases hb : bits = []
    · subst hb; simp [packBits]
    · have hpos : 0 < bits.length := List.length_pos_iff.mpr hb
      have hne' : bits ++ List.replicate m false ≠ [] := by simp [hb]
      rw [packBits_unfold _ hne', packBits_unfold _ hb]
      have hceil : (bits.length + 7) / 8 = ((bits.drop 8).length + 7) / 8 + 1 := by
        rw [List.length_drop]; omega
      rw [hceil, List.take_succ_cons]
      have ht : (bits ++ List.replicate m false).take 8 =
          bits.take 8 ++ List.replicate (min (8 - bits.length) m) false := by
        rw [List.take_append, List.take_replicate]
      have hdrop : (bits ++ List.replicate m false).drop 8 =
          bits.drop 8 ++ List.replicate (m - (8 - bits.length)) false := by
        rw [List.drop_append, List.drop_replicate]
      rw [ht, hdrop, packByte_false]
      congr 1
      exact ih (bits.drop 8).length (by rw [List.length_drop]; omega) (bits.drop 8) rfl _

theorem avx512_pack_tail (t : List UInt8) (_h : t.length < 64) : avx512PackTail t = packScalar t := by
  unfold avx512PackTail
  by_cases h0 : t.length = 0
  · have : t = [] := List.eq_nil_of_length_eq_zero h0
    subst this; simp [packScalar, Spec.Kernels.packBits]
  · rw [if_neg h0]
    unfold bytesOfMask packScalar
    rw [testEpi8Mask_self, List.map_append]
    have : (List.replicate (64 - t.length) (0 : UInt8)).map (· != 0) = List.replicate (64 - t.length) false := by
      simp
    rw [this]
    have := packBits_padded (t.map (· != 0)).length (t.map (· != 0)) rfl (64 - t.length)
    simpa using this

end Carquet.Proofs.SimdBools
