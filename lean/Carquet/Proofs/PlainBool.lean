import Carquet.Spec.Plain
import Carquet.Impl.Plain
/-
Helper lemmas for PLAIN booleans: the byte-wise OR loop is the Spec's LSB-first packing, the
unpacking loops are the Spec's bit extraction, and the Spec's own round trip.
-/
namespace Carquet.Proofs.Plain
open Carquet.Impl.Plain
open Carquet.Spec.Plain (bitsVal byteBits encodeBool decodeBool)

/-- The byte the C decoder stores for a boolean. -/
def toU8 (b : Bool) : UInt8 := if b then 1 else 0

/-! ### facts about single bytes, by enumeration -/

theorem orBits8 : ∀ b0 b1 b2 b3 b4 b5 b6 b7 : Bool,
    orBits [b0, b1, b2, b3, b4, b5, b6, b7] 0 0 = UInt8.ofNat (bitsVal [b0, b1, b2, b3, b4, b5, b6, b7]) := by
  decide

theorem byteBits8 : ∀ b0 b1 b2 b3 b4 b5 b6 b7 : Bool,
    byteBits (UInt8.ofNat (bitsVal [b0, b1, b2, b3, b4, b5, b6, b7])) = [b0, b1, b2, b3, b4, b5, b6, b7] := by
  decide

theorem unpackByte_ofNat : ∀ n, n < 256 →
    unpackByte (UInt8.ofNat n) = (byteBits (UInt8.ofNat n)).map toU8 := by
  decide +kernel

theorem unpackByte_eq (b : UInt8) : unpackByte b = (byteBits b).map toU8 := by
  have h := unpackByte_ofNat b.toNat b.toNat_lt
  rwa [UInt8.ofNat_toNat] at h

theorem byteBits_length (b : UInt8) : (byteBits b).length = 8 := rfl

/-! ### encoder: Impl = Spec -/

theorem packBools_eq_spec : ∀ bs : List Bool, packBools bs = encodeBool bs
  | b0 :: b1 :: b2 :: b3 :: b4 :: b5 :: b6 :: b7 :: rest => by
    rw [packBools, encodeBool, packBools_eq_spec rest, orBits8]
  | [] => rfl
  | [a] => by revert a; decide
  | [a, b] => by revert a b; decide
  | [a, b, c] => by revert a b c; decide
  | [a, b, c, d] => by revert a b c d; decide
  | [a, b, c, d, e] => by revert a b c d e; decide
  | [a, b, c, d, e, f] => by revert a b c d e f; decide
  | [a, b, c, d, e, f, g] => by revert a b c d e f g; decide

theorem encodeBool_length : ∀ bs : List Bool, (encodeBool bs).length = (bs.length + 7) / 8
  | b0 :: b1 :: b2 :: b3 :: b4 :: b5 :: b6 :: b7 :: rest => by
    rw [encodeBool, List.length_cons, encodeBool_length rest]
    simp only [List.length_cons]; omega
  | [] => rfl
  | [_] => by simp [encodeBool]
  | [_, _] => by simp [encodeBool]
  | [_, _, _] => by simp [encodeBool]
  | [_, _, _, _] => by simp [encodeBool]
  | [_, _, _, _, _] => by simp [encodeBool]
  | [_, _, _, _, _, _] => by simp [encodeBool]
  | [_, _, _, _, _, _, _] => by simp [encodeBool]

/-! ### the Spec's own round trip, and the padding -/

/-- All bits of the encoded bytes: the values, then `false` up to the next multiple of 8. -/
theorem bits_encodeBool : ∀ bs : List Bool,
    (encodeBool bs).flatMap byteBits = bs ++ List.replicate ((8 - bs.length % 8) % 8) false
  | b0 :: b1 :: b2 :: b3 :: b4 :: b5 :: b6 :: b7 :: rest => by
    rw [encodeBool, List.flatMap_cons, byteBits8, bits_encodeBool rest]
    have : (b0 :: b1 :: b2 :: b3 :: b4 :: b5 :: b6 :: b7 :: rest).length % 8 = rest.length % 8 := by
      simp only [List.length_cons]; omega
    rw [this]; rfl
  | [] => rfl
  | [a] => by revert a; decide
  | [a, b] => by revert a b; decide
  | [a, b, c] => by revert a b c; decide
  | [a, b, c, d] => by revert a b c d; decide
  | [a, b, c, d, e] => by revert a b c d e; decide
  | [a, b, c, d, e, f] => by revert a b c d e f; decide
  | [a, b, c, d, e, f, g] => by revert a b c d e f g; decide

theorem spec_decodeBool_encode (bs : List Bool) (extra : List UInt8) :
    decodeBool (encodeBool bs ++ extra) bs.length = some bs := by
  have hl := encodeBool_length bs
  unfold decodeBool
  rw [if_neg (by simp only [List.length_append, hl]; omega)]
  rw [List.flatMap_append, bits_encodeBool, List.append_assoc, List.take_left]

/-! ### decoder: Impl = Spec on every input -/

theorem boolLoop_eq : ∀ (input : List UInt8) (n : Nat), n ≤ input.length * 8 →
    boolLoop input n = some (((input.flatMap byteBits).take n).map toU8)
  | [], n, h => by
    have : n = 0 := by simpa using h
    subst this; simp [boolLoop]
  | b :: rest, n, h => by
    rw [boolLoop]
    by_cases h0 : n = 0
    · subst h0; simp
    · rw [if_neg h0]
      by_cases h8 : 8 ≤ n
      · have hr : n - 8 ≤ rest.length * 8 := by simp only [List.length_cons] at h; omega
        simp only [h8, if_true, boolLoop_eq rest (n - 8) hr]
        rw [List.flatMap_cons, List.take_append, byteBits_length,
          List.take_of_length_le (l := byteBits b) (i := n) (by rw [byteBits_length]; omega),
          List.map_append, unpackByte_eq]
      · simp only [h8, if_false]
        rw [List.flatMap_cons, List.take_append_of_le_length (by rw [byteBits_length]; omega),
          List.map_take, unpackByte_eq]

theorem decodeBoolean_eq_spec (input : List UInt8) (n : Nat) :
    decodeBoolean input (n : Int) =
      match decodeBool input n with
      | none => .err
      | some bits => .ok (bits.map toU8) ((n + 7) / 8) := by
  simp only [decodeBoolean, decodeBool, Int.toNat_natCast]
  rw [if_neg (by omega)]
  by_cases h : input.length < (n + 7) / 8
  · rw [if_pos h, if_pos (by omega)]
  · rw [if_neg h, if_neg (by omega), boolLoop_eq input n (by omega)]

end Carquet.Proofs.Plain
