import Carquet.Proofs.RleGrammar
/-
`carquet_bitpack_32` / `carquet_bitunpack_32` (groups of 8 plus a tail) in closed form, their
equality with Spec/BitPack.lean and their round trip.
-/
namespace Carquet.Proofs.BitpackTails
open Carquet.Impl.Bitpack Carquet.Spec
open Carquet.Proofs.NatBits Carquet.Proofs.BitpackImpl Carquet.Proofs.BitPackSpec Carquet.Proofs.RleGrammar

theorem leBytes_append (a b x y : Nat) (hx : x < 2 ^ (8 * a)) :
    leBytes a x ++ leBytes b y = leBytes (a + b) (x + 2 ^ (8 * a) * y) := by
  induction a generalizing x with
  | zero =>
    have : x = 0 := by simpa using hx
    subst this; simp [leBytes]
  | succ a ih =>
    have e : 8 * (a + 1) = 8 + 8 * a := by omega
    have h8 : (2:Nat) ^ 8 = 256 := by decide
    rw [e, Nat.pow_add, h8] at hx
    rw [show a + 1 + b = (a + b) + 1 by omega]
    simp only [leBytes, List.cons_append]
    rw [e, Nat.pow_add, h8]
    have h1 : (x + 256 * 2 ^ (8 * a) * y) % 256 = x % 256 := by
      rw [Nat.mul_assoc, Nat.add_mul_mod_self_left]
    have h2 : (x + 256 * 2 ^ (8 * a) * y) / 256 = x / 256 + 2 ^ (8 * a) * y := by
      rw [Nat.mul_assoc, Nat.add_mul_div_left _ _ (by decide : 0 < 256)]
    rw [h1, h2, ih (x / 256) (by omega)]

theorem concat_append (w : Nat) (l1 l2 : List Nat) :
    concat w (l1 ++ l2) = concat w l1 + 2 ^ (w * l1.length) * concat w l2 := by
  induction l1 with
  | nil => simp [concat]
  | cons v vs ih =>
    simp only [List.cons_append, concat, ih, List.length_cons]
    rw [show w * (vs.length + 1) = w + w * vs.length by rw [Nat.mul_add]; omega, Nat.pow_add,
      Nat.mul_add, Nat.mul_assoc]
    omega

theorem concat_zeros (w k : Nat) : concat w (List.replicate k 0) = 0 := by
  induction k with
  | zero => rfl
  | succ k ih => simp [List.replicate_succ, concat, ih]

/-- the loop over full groups of `carquet_bitpack_32` -/
theorem packGroups_eq {w : Nat} (hw : w ≤ 32) : ∀ (g : Nat) (vals : List Nat), 8 * g ≤ vals.length →
    packGroups w g vals = leBytes (g * w) (concat w (vals.take (8 * g))) := by
  intro g
  induction g with
  | zero => intro vals _; simp [packGroups, leBytes]
  | succ g ih =>
    intro vals h
    simp only [packGroups]
    have h8 : (vals.take 8).length = 8 := by rw [List.length_take]; omega
    rw [pack8_eq hw _ h8, ih (vals.drop 8) (by rw [List.length_drop]; omega)]
    have hc := concat_lt w (vals.take 8)
    rw [h8, Nat.mul_comm w 8] at hc
    rw [leBytes_append _ _ _ _ hc, show w + g * w = (g + 1) * w by rw [Nat.add_mul]; omega]
    congr 1
    have : vals.take (8 * (g + 1)) = vals.take 8 ++ (vals.drop 8).take (8 * g) := by
      rw [show 8 * (g + 1) = 8 + 8 * g by omega, List.take_add]
    rw [this, concat_append, h8, Nat.mul_comm w 8]

theorem packedSize_le (r w : Nat) (h : r < 8) : packedSize r w ≤ w := by
  unfold packedSize
  have : r * w ≤ 7 * w := Nat.mul_le_mul_right w (by omega)
  omega

/-- **`carquet_bitpack_32` writes the Spec packing.** -/
theorem impl_pack_eq_spec {w : Nat} (hw : w ≤ 32) (vals : List Nat) :
    pack w vals = BitPack.pack w vals := by
  rw [pack_eq]
  unfold pack
  by_cases h0 : w = 0 ∨ vals.length = 0
  · rw [if_pos h0]
    rcases h0 with h | h
    · subst h; simp [leBytes]
    · rw [h]; simp [leBytes]
  · rw [if_neg h0]
    have hsplit : vals = vals.take (8 * (vals.length / 8)) ++ vals.drop (8 * (vals.length / 8)) :=
      (List.take_append_drop _ _).symm
    by_cases hr : vals.length % 8 = 0
    · rw [if_pos hr, packGroups_eq hw _ _ (by omega)]
      have hfull : vals.take (8 * (vals.length / 8)) = vals := List.take_of_length_le (by omega)
      rw [hfull]
      congr 1
      have : vals.length = 8 * (vals.length / 8) := by omega
      generalize vals.length / 8 = g at this
      rw [this, Nat.mul_assoc, Nat.mul_comm g w]
      generalize w * g = x
      omega
    · rw [if_neg hr, packGroups_eq hw _ _ (by omega)]
      have htl : (vals.drop (vals.length / 8 * 8)).length = vals.length % 8 := by
        rw [List.length_drop]; omega
      have h8 : (vals.drop (vals.length / 8 * 8) ++ List.replicate (8 - vals.length % 8) 0).length = 8 := by
        rw [List.length_append, htl, List.length_replicate]; omega
      rw [pack8_eq hw _ h8, leBytes_take _ _ _ (packedSize_le _ _ (Nat.mod_lt _ (by decide)))]
      rw [concat_append, concat_zeros, Nat.mul_zero, Nat.add_zero]
      have hc := concat_lt w (vals.take (8 * (vals.length / 8)))
      have hl : (vals.take (8 * (vals.length / 8))).length = 8 * (vals.length / 8) := by
        rw [List.length_take]; omega
      rw [hl] at hc
      have hc' : concat w (vals.take (8 * (vals.length / 8))) < 2 ^ (8 * (vals.length / 8 * w)) := by
        rw [show 8 * (vals.length / 8 * w) = w * (8 * (vals.length / 8)) by
          rw [Nat.mul_comm w, Nat.mul_assoc]]
        exact hc
      rw [leBytes_append _ _ _ _ hc']
      have hcat : concat w vals = concat w (vals.take (8 * (vals.length / 8))) +
          2 ^ (8 * (vals.length / 8 * w)) * concat w (vals.drop (vals.length / 8 * 8)) := by
        conv => lhs; rw [hsplit]
        rw [concat_append, hl, Nat.mul_comm (vals.length / 8) 8]
        congr 3
        rw [Nat.mul_comm w, Nat.mul_assoc]
      rw [← hcat]
      congr 1
      unfold packedSize
      have e : vals.length * w = 8 * (vals.length / 8 * w) + vals.length % 8 * w := by
        rw [← Nat.mul_assoc, ← Nat.add_mul, Nat.div_add_mod]
      rw [e]
      omega

/-- the fields of a packed sequence are its values -/
theorem fields_of_packed (w L : Nat) (vals : List Nat) (hv : ∀ v ∈ vals, v < 2 ^ w)
    (hL : vals.length * w ≤ 8 * L) :
    (List.range vals.length).map (nth w (leNat (leBytes L (concat w vals)))) = vals := by
  apply List.ext_getElem
  · simp
  · intro i h1 h2
    simp only [List.getElem_map, List.getElem_range]
    have hi : i < vals.length := by simpa using h1
    rw [leNat_leBytes, nth_mod, nth_concat w vals i hi, Nat.mod_eq_of_lt (hv _ (List.getElem_mem hi))]
    have : w * i + w ≤ w * vals.length := by
      rw [show w * i + w = w * (i + 1) by rw [Nat.mul_add]; omega]
      exact Nat.mul_le_mul_left w hi
    rw [Nat.mul_comm vals.length w] at hL
    omega

theorem leNat_zeros (k : Nat) : leNat (List.replicate k 0) = 0 := by
  induction k with
  | zero => rfl
  | succ k ih => simp [List.replicate_succ, leNat, ih]

/-- `carquet_bitunpack_32` in closed form: the first `n` fields of the input -/
theorem unpack_values {w : Nat} (hw : w ≤ 32) (h0 : w ≠ 0) (inp : List UInt8) (n : Nat) :
    (unpack w inp n).1 = (List.range n).map (nth w (leNat inp)) := by
  unfold unpack
  rw [if_neg h0]
  by_cases hr : n % 8 = 0
  · rw [if_pos hr]
    simp only
    rw [unpackGroups_eq' hw]
    congr 2; omega
  · rw [if_neg hr]
    simp only
    rw [unpackGroups_eq' hw, unpack8_eq hw]
    have hn : n = 8 * (n / 8) + n % 8 := by omega
    conv => rhs; rw [hn, List.range_add, List.map_append, List.map_map]
    congr 1
    rw [← List.map_take, List.take_range, Nat.min_eq_left (by omega)]
    apply List.map_congr_left
    intro i hi
    have hir : i < n % 8 := by simpa using hi
    have hps := packedSize_le (n % 8) w (Nat.mod_lt _ (by decide))
    simp only [Function.comp]
    rw [leNat_take, leNat_append, leNat_zeros, Nat.mul_zero, Nat.add_zero, leNat_take, leNat_drop]
    have hwin : w * i + w ≤ 8 * packedSize (n % 8) w := by
      unfold packedSize
      have : w * i + w ≤ w * (n % 8) := by
        rw [show w * i + w = w * (i + 1) by rw [Nat.mul_add]; omega]
        exact Nat.mul_le_mul_left w hir
      rw [Nat.mul_comm (n % 8) w]
      omega
    rw [nth_mod _ _ _ _ (by omega), nth_mod _ _ _ _ hwin]
    simp only [nth, shr_shr]
    congr 2
    rw [Nat.mul_add, ← Nat.mul_assoc 8, Nat.mul_comm (8 * (n / 8)) w]

theorem unpack_consumed {w : Nat} (h0 : w ≠ 0) (inp : List UInt8) (n : Nat) :
    (unpack w inp n).2 = packedSize n w := by
  unfold unpack packedSize
  rw [if_neg h0]
  have e : n * w = 8 * (n / 8 * w) + n % 8 * w := by
    rw [← Nat.mul_assoc, ← Nat.add_mul, Nat.div_add_mod]
  by_cases hr : n % 8 = 0
  · rw [if_pos hr]; simp only; rw [e, hr]; omega
  · rw [if_neg hr]; simp only; rw [e]; omega

/-- **`carquet_bitunpack_32` reads the Spec unpacking** of an input that holds `n` values -/
theorem impl_unpack_eq_spec {w : Nat} (hw : w ≤ 32) (inp : List UInt8) (n : Nat) (hlen : n * w ≤ 8 * inp.length) :
    BitPack.unpack w inp n = some (unpack w inp n).1 := by
  rw [unpack_eq w n inp hlen]
  by_cases h0 : w = 0
  · subst h0
    simp only [unpack, if_true]
    congr 1
    apply List.ext_getElem
    · simp
    · intro i h1 h2; simp [nth, Nat.mod_one]
  · rw [unpack_values hw h0]

/-- **Round trip of `carquet_bitpack_32` / `carquet_bitunpack_32`, tails included** -/
theorem unpack_pack {w : Nat} (hw : w ≤ 32) (vals : List Nat) (hv : ∀ v ∈ vals, v < 2 ^ w) :
    unpack w (pack w vals) vals.length = (vals, (pack w vals).length) := by
  by_cases h0 : w = 0
  · subst h0
    have hz : vals = List.replicate vals.length 0 := by
      apply List.ext_getElem
      · simp
      · intro i h1 h2
        have := hv _ (List.getElem_mem h1)
        simp only [Nat.pow_zero, Nat.lt_one_iff] at this
        simp [this]
    simp only [unpack, pack, if_true, true_or, List.length_nil]
    rw [← hz]
  · have h1 : (unpack w (pack w vals) vals.length).1 = vals := by
      rw [unpack_values hw h0, impl_pack_eq_spec hw, pack_eq]
      exact fields_of_packed w _ vals hv (by omega)
    have h2 : (unpack w (pack w vals) vals.length).2 = (pack w vals).length := by
      rw [unpack_consumed h0, impl_pack_eq_spec hw, pack_eq, leBytes_length]; rfl
    exact Prod.ext h1 h2

end Carquet.Proofs.BitpackTails
