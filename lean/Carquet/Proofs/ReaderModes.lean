import Carquet.Proofs.ReaderBounds
import Carquet.Proofs.ReaderPlain
/-
The fread path and the mapped (mmap / buffer) paths of the reader agree: on the footer for files
that start with the magic, on every page that lies within the file (helper lemmas for C03).
-/
namespace Carquet.Proofs.ReaderModes
open Carquet.Impl Carquet.Impl.Reader
open Carquet.Proofs.ReaderBounds Carquet.Proofs.ReaderPlain

/-! ### footer -/

theorem openFread_eq_openMapped (b : Reader.Bytes) (h : b.take 4 = magic) : (openFread b).1 = (openMapped b).1 := by
  unfold openFread openMapped
  by_cases h12 : b.length < 12
  · simp [h12]
  · simp only [h12, if_false, h, ne_eq, not_true_eq_false]
    by_cases hm : slice b (b.length - 4) 4 = magic
    · simp only [hm, not_true_eq_false, if_false]
      by_cases hf : footerLen b > b.length - 8
      · simp [hf]
      · simp [hf]
    · simp [hm]

theorem magic_length_pos (b : Reader.Bytes) (h : b.take 4 = magic) : b.length ≠ 0 := by
  intro h0
  have : b = [] := List.eq_nil_of_length_eq_zero h0
  subst this
  simp [magic] at h

theorem openFile_modes (b : Reader.Bytes) (h : b.take 4 = magic) :
    openFile .fread b = openFile .mmap b ∧ openFile .mmap b = openFile .buffer b := by
  have hne := magic_length_pos b h
  refine ⟨?_, ?_⟩
  · show (openFread b).1 = (if b.length = 0 then openFread b else openMapped b).1
    rw [if_neg hne]; exact openFread_eq_openMapped b h
  · show (if b.length = 0 then openFread b else openMapped b).1 =
         (if b.length = 0 then (Except.error Err.invalidArgument, []) else openMapped b).1
    rw [if_neg hne, if_neg hne]

/-! ### pages -/

/-- the success part of a result -/
def okOf {α : Type} (r : Except Err α) : Option α :=
  match r with
  | .ok a => some a
  | .error _ => none

theorem andThen_result {α β : Type} (l : Load α) (k : α → Load β) :
    (l.andThen k).result = match l.result with | .error e => .error e | .ok a => (k a).result := by
  unfold Load.andThen; split <;> simp_all

/-! #### page headers (after F53 the modes read them from different windows) -/

/-- reading the page header at `off` from everything the file has behind `off` -/
def refHeader (b : Reader.Bytes) (off : Int) : Option (ThriftParquetReq.PageHdr × Nat) :=
  if 0 ≤ off ∧ off.toNat + 8 ≤ b.length then okOf (parseWindow (slice b off.toNat (b.length - off.toNat))) else none

/-- The header at `off` parses the same from every window the fread path can use: whatever parses
from the first `W ≥ 256` bytes behind `off` parses, with the same result, from all the bytes behind
`off`; and the file has
at most 2^24 bytes behind `off` (the largest window the fread path tries).  For a header that is a
well-formed Thrift struct this is the parser's prefix property (the Thrift component proves it for
the structs the writer emits: `Reads` quantifies over any remainder); for arbitrary bytes it is
not proved here. -/
def HeaderStable (b : Reader.Bytes) (off : Int) : Prop :=
  b.length - off.toNat ≤ headerWindowMax ∧
  ∀ W r, 256 ≤ W → ThriftParquetReq.parsePageHeaderC (slice b off.toNat W) = .ok r →
    ThriftParquetReq.parsePageHeaderC (slice b off.toNat (b.length - off.toNat)) = .ok r

/-- the mapped paths read all headers from everything behind the offset; the fread path needs stability -/
def HdrOk (mode : Mode) (b : Reader.Bytes) (off : Int) : Prop := mode.mapped = true ∨ HeaderStable b off

theorem slice_all (b : Reader.Bytes) (off W : Nat) (h : b.length - off ≤ W) : slice b off W = slice b off (b.length - off) := by
  unfold slice
  rw [List.take_of_length_le (by simp; omega), List.take_of_length_le (by simp)]

/-- a decidable sufficient condition for `HeaderStable`: every window shorter than what the file
has behind `off` either fails to parse or parses to what everything behind `off` parses to -/
def stableCheck (b : Reader.Bytes) (off : Nat) : Bool :=
  decide (b.length - off ≤ headerWindowMax) &&
  (List.range (b.length - off)).all (fun W => decide (W < 256) ||
    match ThriftParquetReq.parsePageHeaderC (slice b off W) with
    | .ok r => decide (ThriftParquetReq.parsePageHeaderC (slice b off (b.length - off)) = .ok r)
    | .error _ => true)

theorem headerStable_of_check (b : Reader.Bytes) (off : Int) (h : stableCheck b off.toNat = true) : HeaderStable b off := by
  unfold stableCheck at h
  simp only [Bool.and_eq_true, decide_eq_true_eq, List.all_eq_true, List.mem_range, Bool.or_eq_true] at h
  refine ⟨h.1, ?_⟩
  intro W r h256 hr
  by_cases hW : b.length - off.toNat ≤ W
  · rw [← slice_all b off.toNat W hW]; exact hr
  · rcases h.2 W (by omega) with h1 | h1
    · omega
    · rw [hr] at h1
      simpa using h1

theorem okOf_parseWindow (w : Reader.Bytes) :
    okOf (parseWindow w) = okOf ((ThriftParquetReq.parsePageHeaderC w).mapError Err.thrift) := by
  unfold parseWindow
  cases ThriftParquetReq.parsePageHeaderC w <;> rfl

theorem freadHeaderLoop_ref (b : Reader.Bytes) (off : Nat) (hst : HeaderStable b (off : Int)) :
    ∀ (fuel window : Nat), 256 ≤ window → window ≤ headerWindowMax → headerWindowMax < window * 2 ^ fuel →
      (∃ k, window = 2 ^ k) →
      okOf (freadHeaderLoop b off fuel window).result =
        if off + 8 ≤ b.length then okOf (parseWindow (slice b off (b.length - off))) else none := by
  have hst1 : b.length - off ≤ headerWindowMax := by simpa using hst.1
  have hst2 : ∀ W r, 256 ≤ W → ThriftParquetReq.parsePageHeaderC (slice b off W) = .ok r →
      ThriftParquetReq.parsePageHeaderC (slice b off (b.length - off)) = .ok r := by
    intro W r hW h; simpa using hst.2 W r hW (by simpa using h)
  intro fuel
  induction fuel with
  | zero => intro window _ h2 h3 _; simp at h3; omega
  | succ fuel ih =>
    intro window h1 h2 h3 hk
    have hl := slice_length b off window
    unfold freadHeaderLoop
    split
    · rename_i h8
      rw [if_neg (by omega)]; rfl
    · rename_i h8
      have h8' : off + 8 ≤ b.length := by omega
      rw [if_pos h8']
      split
      · rename_i r hr
        have := hst2 window r h1 hr
        simp only [okOf, parseWindow, this]
      · rename_i e he
        split
        · rename_i hstop
          have hfull : slice b off window = slice b off (b.length - off) := by
            apply slice_all
            rcases hstop with h | h
            · omega
            · omega
          rw [hfull] at he
          simp only [okOf, parseWindow, he]
        · rename_i hgo
          obtain ⟨k, hk⟩ := hk
          have hlt : window < headerWindowMax := by omega
          have hk24 : k < 24 := by
            rw [hk] at hlt
            have : (2 : Nat) ^ k < 2 ^ 24 := hlt
            exact (Nat.pow_lt_pow_iff_right (by decide)).mp this
          have hle : 2 * window ≤ headerWindowMax := by
            have h1 : 2 * window = 2 ^ (k + 1) := by rw [hk, Nat.pow_succ]; omega
            have h2 : (2 : Nat) ^ (k + 1) ≤ 2 ^ 24 := Nat.pow_le_pow_right (by decide) (by omega)
            rw [h1]; exact h2
          have hfu : headerWindowMax < 2 * window * 2 ^ fuel := by
            have : window * 2 ^ (fuel + 1) = 2 * window * 2 ^ fuel := by rw [Nat.pow_succ]; ac_rfl
            rw [← this]; exact h3
          have := ih (2 * window) (by omega) hle hfu ⟨k + 1, by rw [hk, Nat.pow_succ]; omega⟩
          rw [if_pos h8'] at this
          exact this

theorem loadHeader_ref (mode : Mode) (b : Reader.Bytes) (off : Int) (h : HdrOk mode b off) :
    okOf (loadHeader mode b off).result = refHeader b off := by
  unfold loadHeader refHeader
  split
  · -- mapped
    split
    · rename_i hbad
      rw [if_neg (by omega)]; rfl
    · rename_i hin
      split
      · rename_i h8
        rw [if_neg (by omega)]; rfl
      · rename_i h8
        rw [if_pos (by omega)]
  · rename_i hm
    have hst : HeaderStable b off := by
      rcases h with h | h
      · exact absurd h hm
      · exact h
    split
    · rename_i hneg
      rw [if_neg (by omega)]; rfl
    · rename_i hnn
      have hoff : ((off.toNat : Nat) : Int) = off := Int.toNat_of_nonneg (by omega)
      have := freadHeaderLoop_ref b off.toNat (by rw [hoff]; exact hst) 18 256 (by decide) (by decide) (by decide) ⟨8, by decide⟩
      rw [this]
      by_cases h8 : off.toNat + 8 ≤ b.length
      · rw [if_pos h8, if_pos ⟨by omega, h8⟩]
      · rw [if_neg h8, if_neg (by omega)]

/-- the page at `off` lies within the file: if a header parses there, header and body end inside the file -/
def PageWithin (b : Reader.Bytes) (off : Int) : Prop :=
  ∀ r, refHeader b off = some r → 0 ≤ r.1.compressed → off.toNat + r.2 + r.1.compressed.toNat ≤ b.length

theorem bodyBytes_within (mode : Mode) (b : Reader.Bytes) (off hs comp : Nat) (h : off + hs + comp ≤ b.length) :
    (bodyBytes mode b off hs comp).1 = .ok (slice b (off + hs) comp) := by
  unfold bodyBytes
  split
  · rw [if_pos (by omega)]
  · have := slice_length b (off + hs) comp
    rw [if_neg (by omega)]

theorem okOf_eq_some {α : Type} {r : Except Err α} {a : α} (h : okOf r = some a) : r = .ok a := by
  cases r with
  | error e => cases h
  | ok x => simp only [okOf, Option.some.injEq] at h; rw [h]

theorem okOf_eq_none {α : Type} {r : Except Err α} (h : okOf r = none) : ∃ e, r = .error e := by
  cases r with
  | error e => exact ⟨e, rfl⟩
  | ok x => cases h

/-- what the caller gets from a loaded page, apart from the ownership flag -/
def proj (p : PageLoaded) : Decoded × Nat × Nat := (p.page, p.headerSize, p.compressedSize)

/-- the standard (copying) path after the CRC test, as a function of the stored body -/
def stdPath (fx : Fixes) (L : Libs) (c : Col) (dict : Option Dict) (hr : ThriftParquetReq.PageHdr × Nat) (body : Reader.Bytes) :
    Option (Decoded × Nat × Nat) :=
  match pageData L c.cm.codec body hr.1.uncompressed.toNat with
  | .error _ => none
  | .ok pd =>
    match readDataPageV1 fx c dict pd hr.1.word0.toNat hr.1.word4 with
    | .error _ => none
    | .ok d => some (d, hr.2, hr.1.compressed.toNat)

/-- the rest of a data page load once its header is found, without any notion of mode -/
def refFinish (fx : Fixes) (L : Libs) (verify : Bool) (b : Reader.Bytes) (c : Col) (st : PState)
    (hr : ThriftParquetReq.PageHdr × Nat) : Option (Decoded × Nat × Nat) :=
  if hr.1.type = 3 then none
  else if hr.1.type ≠ 0 then none
  else if (!sizesValid hr.1 || decide (hr.1.word0 < 0) || decide (hr.1.word0 > st.valuesRemaining)) = true then none
  else if crcBad verify hr.1.crc (slice b ((st.dataStart + st.currentPage).toNat + hr.2) hr.1.compressed.toNat) = true then none
  else if hr.1.word0 = 0 then some (⟨[], [], []⟩, hr.2, hr.1.compressed.toNat)     -- F63: a page without values
  else stdPath fx L c st.dict hr (slice b ((st.dataStart + st.currentPage).toNat + hr.2) hr.1.compressed.toNat)

/-- zero-copy view = copy: when the view branch is taken (repaired code), what it hands out is
what the standard path decodes from the same body -/
theorem view_eq_std (fx : Fixes) (hv : fx.viewBound = true) (L : Libs) (mode : Mode) (b : Reader.Bytes) (c : Col)
    (dict : Option Dict) (hr : ThriftParquetReq.PageHdr × Nat) (bodyOff : Nat)
    (hcol : ColValid c) (hsz : b.length < 2 ^ 64)
    (hin : bodyOff + hr.1.compressed.toNat ≤ b.length)
    (ht : takesView fx mode c hr.1 = true) :
    ∃ d, (viewPage b c bodyOff hr.1.word0.toNat).result = .ok d ∧
      stdPath fx L c dict hr (slice b bodyOff hr.1.compressed.toNat) = some (d, hr.2, hr.1.compressed.toNat) := by
  have hb := takesView_bound fx hv mode c hr.1 ht
  unfold takesView at ht
  simp only [hv, Bool.not_true, Bool.false_or, Bool.and_eq_true, decide_eq_true_eq, zeroCopyEligible,
    Bool.not_eq_true', Bool.or_eq_false_iff, decide_eq_false_iff_not] at ht
  obtain ⟨⟨⟨_, ⟨⟨hcodec, henc⟩, hfw⟩⟩, hnd, hnr⟩, _⟩ := ht
  have hd0 : c.maxDef = 0 := by omega
  have hr0 : c.maxRep = 0 := by omega
  have hlenb : (slice b bodyOff hr.1.compressed.toNat).length = hr.1.compressed.toNat := by
    rw [slice_length]; omega
  have hlenv : (slice b bodyOff (hr.1.word0.toNat * valueSize c.ptype c.typeLength)).length =
      hr.1.word0.toNat * valueSize c.ptype c.typeLength := by
    rw [slice_length]; omega
  have htake : slice b bodyOff (hr.1.word0.toNat * valueSize c.ptype c.typeLength) =
      (slice b bodyOff hr.1.compressed.toNat).take (hr.1.word0.toNat * valueSize c.ptype c.typeLength) := by
    unfold slice; rw [List.take_take]; congr 1; omega
  refine ⟨⟨List.replicate hr.1.word0.toNat 0, List.replicate hr.1.word0.toNat 0,
      chunks (valueSize c.ptype c.typeLength) hr.1.word0.toNat (slice b bodyOff hr.1.compressed.toNat)⟩, ?_, ?_⟩
  · unfold viewPage
    simp only [hlenv, ne_eq, not_true_eq_false, if_false]
    rw [htake, chunks_take]
  · unfold stdPath
    rw [hcodec, pageData_codec0]
    simp only
    have hp := plainValues_fixed c.ptype c.typeLength (slice b bodyOff hr.1.compressed.toNat) hr.1.word0.toNat hfw hcol
      (by rw [hlenb]; exact hb.1) (by rw [hlenb]; omega)
    simp only [readDataPageV1, repLevels, defLevels, hd0, hr0, Nat.lt_irrefl, if_false, nonNullCount,
      List.length_replicate, decodeValues, henc, if_true, hp]

theorem takesView_fread (fx : Fixes) (c : Col) (h : ThriftParquetReq.PageHdr) : takesView fx .fread c h = false := by
  simp [takesView, Mode.mapped]

/-- each mode's `finishDataPage` is the mode-free one, for a page that lies within the file -/
theorem finishDataPage_ref (fx : Fixes) (hv : fx.viewBound = true) (L : Libs) (verify : Bool) (mode : Mode) (b : Reader.Bytes)
    (c : Col) (st : PState) (hr : ThriftParquetReq.PageHdr × Nat) (hcol : ColValid c) (hsz : b.length < 2 ^ 64)
    (hin : 0 ≤ hr.1.compressed → (st.dataStart + st.currentPage).toNat + hr.2 + hr.1.compressed.toNat ≤ b.length) :
    (okOf (finishDataPage fx L verify mode b c st hr).result).map proj = refFinish fx L verify b c st hr := by
  unfold finishDataPage refFinish
  by_cases h3 : hr.1.type = 3
  · rw [if_pos h3, if_pos h3]; rfl
  · rw [if_neg h3, if_neg h3]
    by_cases ht : hr.1.type ≠ 0
    · rw [if_pos ht, if_pos ht]; rfl
    · rw [if_neg ht, if_neg ht]
      by_cases hs : (!sizesValid hr.1 || decide (hr.1.word0 < 0) || decide (hr.1.word0 > st.valuesRemaining)) = true
      · rw [if_pos hs, if_pos hs]; rfl
      · rw [if_neg hs, if_neg hs]
        have hcomp : 0 ≤ hr.1.compressed := by
          simp only [sizesValid, Bool.or_eq_true, Bool.not_eq_true', Bool.and_eq_false_iff, decide_eq_false_iff_not,
            decide_eq_true_eq, not_or] at hs
          omega
        have hin' := hin hcomp
        rw [andThen_result, Load.ofPair, bodyBytes_within mode b _ _ _ hin']
        simp only
        by_cases hcrc : crcBad verify hr.1.crc
            (slice b ((st.dataStart + st.currentPage).toNat + hr.2) hr.1.compressed.toNat) = true
        · rw [if_pos hcrc, if_pos hcrc]; rfl
        · rw [if_neg hcrc, if_neg hcrc]
          by_cases hemp : hr.1.word0 = 0
          · rw [if_pos hemp, if_pos hemp]; rfl
          rw [if_neg hemp, if_neg hemp]
          by_cases hview : takesView fx mode c hr.1 = true
          · rw [if_pos hview]
            obtain ⟨d, hd1, hd2⟩ := view_eq_std fx hv L mode b c st.dict hr _ hcol hsz (by omega) hview
            rw [andThen_result, hd1, hd2]; rfl
          · rw [if_neg hview]
            unfold stdPath
            cases pageData L c.cm.codec (slice b ((st.dataStart + st.currentPage).toNat + hr.2) hr.1.compressed.toNat)
                hr.1.uncompressed.toNat with
            | error e => rfl
            | ok pd =>
              simp only
              cases readDataPageV1 fx c st.dict pd hr.1.word0.toNat hr.1.word4 with
              | error e => rfl
              | ok d => rfl

/-! ### dictionary page and the whole `load_next_page` -/

def refDict (fx : Fixes) (L : Libs) (verify : Bool) (b : Reader.Bytes) (c : Col) (off : Int) : Option DictLoaded :=
  match refHeader b off with
  | none => none
  | some hr =>
    if hr.1.type ≠ 2 then none
    else if (!sizesValid hr.1 || decide (hr.1.word0 < 0)) = true then none
    else if crcBad verify hr.1.crc (slice b (off.toNat + hr.2) hr.1.compressed.toNat) = true then none
    else
      match pageData L c.cm.codec (slice b (off.toNat + hr.2) hr.1.compressed.toNat) hr.1.uncompressed.toNat with
      | .error _ => none
      | .ok pd =>
        match (readDictionaryPage fx c pd hr.1.word0).1 with
        | .error _ => none
        | .ok d => some ⟨d, off + hr.2 + hr.1.compressed⟩

theorem loadDictionary_ref (fx : Fixes) (L : Libs) (verify : Bool) (mode : Mode) (b : Reader.Bytes) (c : Col) (off : Int)
    (hh : HdrOk mode b off) (hw : PageWithin b off) :
    okOf (loadDictionary fx L verify mode b c off).result = refDict fx L verify b c off := by
  have hhdr := loadHeader_ref mode b off hh
  unfold refDict
  cases href : refHeader b off with
  | none =>
    rw [href] at hhdr
    obtain ⟨e', he'⟩ := okOf_eq_none hhdr
    unfold loadDictionary; rw [andThen_result, he']; rfl
  | some hr =>
    rw [href] at hhdr
    have hok := okOf_eq_some hhdr
    have hoff : 0 ≤ off := by
      unfold refHeader at href
      split at href
      · rename_i hc; exact hc.1
      · cases href
    unfold loadDictionary; rw [andThen_result, hok]
    simp only
    by_cases ht : hr.1.type ≠ 2
    · rw [if_pos ht, if_pos ht]; rfl
    · rw [if_neg ht, if_neg ht]
      by_cases hs : (!sizesValid hr.1 || decide (hr.1.word0 < 0)) = true
      · rw [if_pos hs, if_pos hs]; rfl
      · rw [if_neg hs, if_neg hs]
        have hcomp : 0 ≤ hr.1.compressed := by
          simp only [sizesValid, Bool.or_eq_true, Bool.not_eq_true', Bool.and_eq_false_iff, decide_eq_false_iff_not,
            decide_eq_true_eq, not_or] at hs
          omega
        have hin := hw hr href hcomp
        rw [andThen_result, Load.ofPair, bodyBytes_within mode b _ _ _ hin]
        simp only
        by_cases hcrc : crcBad verify hr.1.crc (slice b (off.toNat + hr.2) hr.1.compressed.toNat) = true
        · rw [if_pos hcrc, if_pos hcrc]; rfl
        · rw [if_neg hcrc, if_neg hcrc]
          cases pageData L c.cm.codec (slice b (off.toNat + hr.2) hr.1.compressed.toNat) hr.1.uncompressed.toNat with
          | error e => rfl
          | ok pd =>
            simp only
            cases (readDictionaryPage fx c pd hr.1.word0).1 with
            | error e => rfl
            | ok d => rfl

/-- the state the data page is looked for in, without any notion of mode -/
def refDictStep (fx : Fixes) (L : Libs) (verify : Bool) (b : Reader.Bytes) (c : Col) (st : PState) : Option PState :=
  match c.cm.dictionaryPageOffset with
  | none => some st
  | some doff =>
    if st.dict.isSome then some st
    else (refDict fx L verify b c doff).map (fun dl => { st with dict := some dl.dict, dataStart := dl.dataStart })

theorem dictStep_ref (fx : Fixes) (L : Libs) (verify : Bool) (mode : Mode) (b : Reader.Bytes) (c : Col) (st : PState)
    (hw : ∀ doff, c.cm.dictionaryPageOffset = some doff → HdrOk mode b doff ∧ PageWithin b doff) :
    okOf (dictStep fx L verify mode b c st).result = refDictStep fx L verify b c st := by
  unfold dictStep refDictStep
  cases hd : c.cm.dictionaryPageOffset with
  | none => rfl
  | some doff =>
    simp only
    by_cases hs : st.dict.isSome = true
    · rw [if_pos hs, if_pos hs]; rfl
    · rw [if_neg hs, if_neg hs, andThen_result, ← loadDictionary_ref fx L verify mode b c doff (hw doff hd).1 (hw doff hd).2]
      cases (loadDictionary fx L verify mode b c doff).result with
      | error e => rfl
      | ok dl => rfl

/-- `prepStage` without any notion of mode -/
def refPrep (fx : Fixes) (L : Libs) (verify : Bool) (b : Reader.Bytes) (c : Col) (st : PState) :
    Option (PState × (ThriftParquetReq.PageHdr × Nat)) :=
  match refHeader b (st.dataStart + st.currentPage) with
  | none => none
  | some hr =>
    if inlineDictDue st hr.1 then
      match refDict fx L verify b c (st.dataStart + st.currentPage) with
      | none => none
      | some dl =>
        match refHeader b dl.dataStart with
        | none => none
        | some hr2 => some ({ st with dict := some dl.dict, dataStart := dl.dataStart }, hr2)
    else some (st, hr)

/-- what `prepStage` needs of the file in state `st`: stable headers (fread path) and pages within
the file at the data page offset and, when an inline dictionary is loaded there, behind it -/
def PrepOk (fx : Fixes) (L : Libs) (verify : Bool) (mode : Mode) (b : Reader.Bytes) (c : Col) (st : PState) : Prop :=
  HdrOk mode b (st.dataStart + st.currentPage) ∧ PageWithin b (st.dataStart + st.currentPage) ∧
  ∀ dl, refDict fx L verify b c (st.dataStart + st.currentPage) = some dl → HdrOk mode b dl.dataStart

theorem prepStage_ref (fx : Fixes) (L : Libs) (verify : Bool) (mode : Mode) (b : Reader.Bytes) (c : Col) (st : PState)
    (hp : PrepOk fx L verify mode b c st) :
    okOf (prepStage fx L verify mode b c st).result = refPrep fx L verify b c st := by
  have hhdr := loadHeader_ref mode b (st.dataStart + st.currentPage) hp.1
  unfold refPrep prepStage
  rw [andThen_result]
  cases href : refHeader b (st.dataStart + st.currentPage) with
  | none =>
    rw [href] at hhdr
    obtain ⟨e', he'⟩ := okOf_eq_none hhdr
    rw [he']; rfl
  | some hr =>
    rw [href] at hhdr
    rw [okOf_eq_some hhdr]
    simp only
    by_cases hdue : inlineDictDue st hr.1 = true
    · rw [if_pos hdue, if_pos hdue, andThen_result]
      have hd := loadDictionary_ref fx L verify mode b c (st.dataStart + st.currentPage) hp.1 hp.2.1
      cases hdl : refDict fx L verify b c (st.dataStart + st.currentPage) with
      | none =>
        rw [hdl] at hd
        obtain ⟨e', he'⟩ := okOf_eq_none hd
        rw [he']; rfl
      | some dl =>
        rw [hdl] at hd
        rw [okOf_eq_some hd]
        simp only
        rw [andThen_result]
        have hh2 := loadHeader_ref mode b dl.dataStart (hp.2.2 dl hdl)
        cases href2 : refHeader b dl.dataStart with
        | none =>
          rw [href2] at hh2
          obtain ⟨e', he'⟩ := okOf_eq_none hh2
          rw [he']; rfl
        | some hr2 =>
          rw [href2] at hh2
          rw [okOf_eq_some hh2]; rfl
    · rw [if_neg hdue, if_neg hdue]; rfl

/-- `load_next_page` without any notion of mode -/
def refPage (fx : Fixes) (L : Libs) (verify : Bool) (b : Reader.Bytes) (c : Col) (st : PState) : Option (Decoded × Nat × Nat) :=
  (refDictStep fx L verify b c st).bind (fun st1 =>
    (refPrep fx L verify b c st1).bind (fun sh => refFinish fx L verify b c sh.1 sh.2))

/-- The pages a load in state `st` touches lie within the file, and (for the fread path) their
headers parse the same from every window. -/
structure LoadWithin (fx : Fixes) (L : Libs) (verify : Bool) (mode : Mode) (b : Reader.Bytes) (c : Col) (st : PState) : Prop where
  dict : ∀ doff, c.cm.dictionaryPageOffset = some doff → HdrOk mode b doff ∧ PageWithin b doff
  prep : ∀ st1, refDictStep fx L verify b c st = some st1 → PrepOk fx L verify mode b c st1
  data : ∀ st1 sh, refDictStep fx L verify b c st = some st1 → refPrep fx L verify b c st1 = some sh →
    0 ≤ sh.2.1.compressed → (sh.1.dataStart + sh.1.currentPage).toNat + sh.2.2 + sh.2.1.compressed.toNat ≤ b.length

theorem loadPage_ref (fx : Fixes) (hv : fx.viewBound = true) (L : Libs) (verify : Bool) (mode : Mode) (b : Reader.Bytes)
    (c : Col) (st : PState) (hcol : ColValid c) (hsz : b.length < 2 ^ 64) (hw : LoadWithin fx L verify mode b c st) :
    (okOf (loadPage fx L verify mode b c st).result).map proj = refPage fx L verify b c st := by
  unfold loadPage refPage
  rw [andThen_result]
  have hd := dictStep_ref fx L verify mode b c st hw.dict
  cases hres : (dictStep fx L verify mode b c st).result with
  | error e =>
    rw [hres] at hd
    rw [← hd]; rfl
  | ok st1 =>
    rw [hres] at hd
    rw [← hd]
    simp only [okOf, Option.bind]
    unfold loadDataPage
    rw [andThen_result]
    have hp := prepStage_ref fx L verify mode b c st1 (hw.prep st1 hd.symm)
    cases hpre : (prepStage fx L verify mode b c st1).result with
    | error e =>
      rw [hpre] at hp
      rw [← hp]; rfl
    | ok sh =>
      rw [hpre] at hp
      rw [← hp]
      simp only [okOf]
      exact finishDataPage_ref fx hv L verify mode b c sh.1 sh.2 hcol hsz (hw.data st1 sh hd.symm hp.symm)

end Carquet.Proofs.ReaderModes
