import Carquet.Proofs.WriterTable
/-
Further invariants of the writer's control model, needed to compose the writer theorems
(`C05_written_table`) with the independent reader (`Spec.File.read`):

* a *generic page invariant*: any predicate `P c page` on page builders that holds of the empty
  builder and is preserved by `addValues` for batches satisfying `Q c batch` holds of the content
  (`PageRec.src`) of every page record of the run, paired with its column;
* the chunk metadata carry the column's physical type, its name as path, and the writer's codec;
* a row group's `num_rows` is the number of rows column 0 received.

All generic in `Deps`, none depends on the statuses the calls returned.
-/
namespace Carquet.Proofs.SpecWriter
open Carquet.Impl.Writer Carquet.Proofs.Writer Carquet.Proofs.WriterLayout Carquet.Proofs.WriterPages
open Carquet.Proofs.WriterTable

/-- a page-builder predicate and the batch condition that preserves it -/
structure PagePred (D : Deps) where
  P : Col → Page → Prop
  Q : Col → Batch → Prop
  empty : ∀ c, P c {}
  add : ∀ c p b, P c p → Q c b → P c (addValues D c p b)
  /-- a builder without entries holds no repetition levels -/
  repsWF : ∀ c p, P c p → p.numValues = 0 → p.reps = []

variable {D : Deps}

def ColP (pp : PagePred D) (c : Col) (cw : ColW) : Prop := (∀ r ∈ cw.pages, pp.P c r.src) ∧ pp.P c cw.page

def ColsP (pp : PagePred D) : List Col → List ColW → Prop
  | [], [] => True
  | c :: cs, cw :: cws => ColP pp c cw ∧ ColsP pp cs cws
  | _, _ => False

/-- zip-style: every page record of a finished row group satisfies `P` for its column -/
def GroupP (pp : PagePred D) : List Col → List (List PageRec) → Prop
  | [], [] => True
  | c :: cs, p :: ps => (∀ r ∈ p, pp.P c r.src) ∧ GroupP pp cs ps
  | _, _ => False

/-- zip-style: the chunk metadata of a row group belong to the columns -/
def ChunksFor (codec : Nat) : List Col → List ChunkMeta → Prop
  | [], [] => True
  | c :: cs, m :: ms => (m.ptype = c.ptype ∧ m.path = c.name ∧ m.codec = codec) ∧ ChunksFor codec cs ms
  | _, _ => False

/-- rows a column writer has received in the open row group -/
def colRows (cw : ColW) : Nat := (cw.pages.map (·.src.numValues)).sum + cw.page.numValues

/-- level entries of the first column of a finished row group (0 for a schema without columns) -/
def firstRows (g : List (List PageRec)) : Nat := (g.map (fun p => (pagesData p).rows)).headD 0

/-- rows (records) a column writer has received in the open row group: its entries, or — REPEATED —
its entries with repetition level 0 -/
def colRecs (c : Col) (cw : ColW) : Nat := (colData cw).recs c.maxRep

/-- zip-style: `num_rows` of every row group is the row count of its first column (`firstRecs`: the
entries with repetition level 0 when that column is REPEATED) -/
def RowsZip (cols : List Col) : List RgMeta → List (List (List PageRec)) → Prop
  | [], [] => True
  | g :: gs, p :: ps => g.numRows = firstRecs cols (p.map pagesData) ∧ RowsZip cols gs ps
  | _, _ => False

theorem rowsZip_append (cols : List Col) : ∀ (gs : List RgMeta) (ps : List (List (List PageRec))) (g : RgMeta) (p : List (List PageRec)),
    RowsZip cols gs ps → g.numRows = firstRecs cols (p.map pagesData) → RowsZip cols (gs ++ [g]) (ps ++ [p]) := by
  intro gs
  induction gs with
  | nil =>
    intro ps g p h hp
    cases ps with
    | nil => exact ⟨hp, trivial⟩
    | cons a as => exact absurd h (by simp [RowsZip])
  | cons a as ih =>
    intro ps g p h hp
    cases ps with
    | nil => exact absurd h (by simp [RowsZip])
    | cons b bs => exact ⟨h.1, ih bs g p h.2 hp⟩

/-! ### rows of a column's content -/

theorem recs_append (m : Nat) (a b : ColData) : (a.append b).recs m = a.recs m + b.recs m := by
  unfold ColData.recs ColData.append
  by_cases h : m = 0 <;> simp [h, List.filter_append]

theorem recs_empty (m : Nat) : ({} : ColData).recs m = 0 := by
  unfold ColData.recs; split <;> rfl

/-- the rows `carquet_writer_write_batch` adds for a batch of column 0 are the rows of what the
batch contributes -/
theorem batchData_recs (c : Col) (b : Batch) : (batchData c b).recs c.maxRep = batchRows c b := by
  unfold ColData.recs batchData batchRows
  by_cases h : c.maxRep = 0
  · cases b.reps <;> simp [h]
  · have h' : c.maxRep > 0 := by omega
    cases b.reps <;> simp [h, h']

theorem colRecs_empty (c : Col) : colRecs c {} = 0 := by
  simp [colRecs, colData, pagesData, pageData, ColData.append, ColData.recs]

/-! ### column level -/

theorem colP_empty (pp : PagePred D) (c : Col) : ColP pp c {} :=
  ⟨fun r hr => by simp at hr, pp.empty c⟩

theorem flushPage_colP (pp : PagePred D) (codec : Nat) (c : Col) (cw cw' : ColW) (h : ColP pp c cw)
    (hf : flushPage D codec c cw = some cw') :
    ColP pp c cw' ∧ colRows cw' = colRows cw ∧ (pagesData cw'.pages).rows = colRows cw ∧
    colRecs c cw' = colRecs c cw ∧ (pagesData cw'.pages).recs c.maxRep = colRecs c cw := by
  unfold flushPage at hf
  by_cases h0 : cw.page.numValues = 0
  · simp only [h0, if_true, Option.some.injEq] at hf
    subst hf
    refine ⟨h, rfl, by simp [colRows, pagesData, h0], rfl, ?_⟩
    have hr := pp.repsWF c cw.page h.2 h0
    simp only [colRecs, colData, recs_append]
    have : (pageData cw.page).recs c.maxRep = 0 := by
      unfold ColData.recs pageData; split <;> simp [h0, hr]
    omega
  · simp only [h0, if_false] at hf
    cases hfp : finalizePage D codec c cw.page with
    | none => simp [hfp] at hf
    | some p =>
      obtain ⟨bytes, unc⟩ := p
      simp only [hfp, Option.some.injEq] at hf
      subst hf
      refine ⟨⟨?_, pp.empty c⟩, ?_, ?_, ?_, ?_⟩
      · intro r hr
        rcases List.mem_append.mp hr with hr | hr
        · exact h.1 r hr
        · have : r = pageRecOf D codec c cw.page := by simpa using hr
          subst this; exact h.2
      · simp [colRows, pageRecOf]
      · simp [colRows, pagesData, pageRecOf]
      · simp only [colRecs, colData, pagesData_append, recs_append, pageRecOf]
        have : (pageData ({} : Page)).recs c.maxRep = 0 := by
          unfold ColData.recs pageData; split <;> simp
        omega
      · simp only [colRecs, colData, pagesData_append, recs_append, pageRecOf]

theorem colWriteBatch_colP (pp : PagePred D) (codec target : Nat) (c : Col) (cw cw' : ColW) (b : Batch)
    (h : ColP pp c cw) (hq : pp.Q c b) (hf : colWriteBatch D codec target c cw b = some cw') :
    ColP pp c cw' ∧ colRows cw' = colRows cw + b.nrows ∧ colRecs c cw' = colRecs c cw + batchRows c b := by
  have hadd : ColP pp c { cw with page := addValues D c cw.page b, totalValues := cw.totalValues + b.nrows } :=
    ⟨h.1, pp.add c cw.page b h.2 hq⟩
  have hrows : colRows { cw with page := addValues D c cw.page b, totalValues := cw.totalValues + b.nrows } =
      colRows cw + b.nrows := by
    simp [colRows, addValues]; omega
  have hrecs : colRecs c { cw with page := addValues D c cw.page b, totalValues := cw.totalValues + b.nrows } =
      colRecs c cw + batchRows c b := by
    simp only [colRecs, colData, addValues_data, recs_append, batchData_recs]
    omega
  unfold colWriteBatch at hf
  by_cases ht : target ≤ estimatedSize D c (addValues D c cw.page b)
  · simp only [ht, if_true] at hf
    obtain ⟨a1, a2, _, a4, _⟩ := flushPage_colP pp codec c _ _ hadd hf
    exact ⟨a1, a2.trans hrows, a4.trans hrecs⟩
  · simp only [ht, if_false, Option.some.injEq] at hf
    subst hf; exact ⟨hadd, hrows, hrecs⟩

theorem colsP_fresh (pp : PagePred D) : ∀ cols : List Col, ColsP pp cols (cols.map (fun _ => ({} : ColW))) := by
  intro cols
  induction cols with
  | nil => trivial
  | cons c cs ih => exact ⟨colP_empty pp c, ih⟩

theorem colsP_set (pp : PagePred D) : ∀ (cols : List Col) (cws : List ColW) (i : Nat) (c : Col) (cw' : ColW),
    ColsP pp cols cws → cols[i]? = some c → ColP pp c cw' → ColsP pp cols (cws.set i cw') := by
  intro cols
  induction cols with
  | nil => intro cws i c cw' _ hc _; simp at hc
  | cons a as ih =>
    intro cws i c cw' h hc hcw
    cases cws with
    | nil => exact absurd h (by simp [ColsP])
    | cons x xs =>
      cases i with
      | zero =>
        simp only [List.getElem?_cons_zero, Option.some.injEq] at hc
        subst hc
        exact ⟨hcw, h.2⟩
      | succ n =>
        simp only [List.getElem?_cons_succ] at hc
        exact ⟨h.1, ih xs n c cw' h.2 hc hcw⟩

theorem colsP_get (pp : PagePred D) : ∀ (cols : List Col) (cws : List ColW) (i : Nat) (c : Col) (cw : ColW),
    ColsP pp cols cws → cols[i]? = some c → cws[i]? = some cw → ColP pp c cw := by
  intro cols
  induction cols with
  | nil => intro cws i c cw _ hc _; simp at hc
  | cons a as ih =>
    intro cws i c cw h hc hcw
    cases cws with
    | nil => exact absurd h (by simp [ColsP])
    | cons x xs =>
      cases i with
      | zero =>
        simp only [List.getElem?_cons_zero, Option.some.injEq] at hc hcw
        subst hc; subst hcw
        exact h.1
      | succ n =>
        simp only [List.getElem?_cons_succ] at hc hcw
        exact ih xs n c cw h.2 hc hcw

theorem finalizeCols_colsP (pp : PagePred D) (w : W) : ∀ (cols : List Col) (cws : List ColW) (off : Nat)
    (r : Bytes × List ChunkMeta), ColsP pp cols cws →
    finalizeCols D w cols cws off = some r →
    GroupP pp cols (finalizeColsPages D w cols cws) ∧ ChunksFor w.codec cols r.2 ∧
    (finalizeColsPages D w cols cws).map (fun p => (pagesData p).rows) = cws.map colRows ∧
    List.zipWith (fun (c : Col) (d : ColData) => d.recs c.maxRep) cols ((finalizeColsPages D w cols cws).map pagesData) =
      List.zipWith colRecs cols cws := by
  intro cols
  induction cols with
  | nil =>
    intro cws off r h hf
    cases cws with
    | nil =>
      simp only [finalizeCols, Option.some.injEq] at hf
      subst hf
      simp [finalizeColsPages, GroupP, ChunksFor]
    | cons x xs => exact absurd h (by simp [ColsP])
  | cons c cs ih =>
    intro cws off r h hf
    cases cws with
    | nil => exact absurd h (by simp [ColsP])
    | cons cw cws =>
      simp only [finalizeCols] at hf
      cases hfl : flushPage D w.codec c cw with
      | none => simp [hfl] at hf
      | some cw' =>
        simp only [hfl] at hf
        cases hr : finalizeCols D w cs cws (off + cw'.buffer.length) with
        | none => simp [hr] at hf
        | some p =>
          obtain ⟨i1, i2, i3, i4⟩ := ih cws _ p h.2 hr
          obtain ⟨a1, a2, a3, _, a5⟩ := flushPage_colP pp w.codec c cw cw' h.1 hfl
          simp only [hr, Option.some.injEq] at hf
          subst hf
          simp only [finalizeColsPages, hfl]
          refine ⟨⟨a1.1, i1⟩, ⟨⟨by simp [chunkOf], by simp [chunkOf], by simp [chunkOf]⟩, i2⟩, ?_, ?_⟩
          · simp [a3, i3]
          · simp only [List.map_cons, List.zipWith_cons_cons, a5, i4]

/-! ### writer states -/

/-- the combined invariant -/
def XInv (pp : PagePred D) (w : W) : Prop :=
  (∀ g ∈ w.pagesDone, GroupP pp w.cols g) ∧
  (∀ cws, w.rg = some cws → ColsP pp w.cols cws ∧ w.rgRows = (List.zipWith colRecs w.cols cws).headD 0) ∧
  (∀ g ∈ w.rowGroups, ChunksFor w.codec w.cols g.chunks) ∧
  (RowsZip w.cols w.rowGroups w.pagesDone ∧ ∀ (i : Nat) (g : RgMeta), w.rowGroups[i]? = some g → g.ordinal = i)

theorem xinv_init (pp : PagePred D) (cols : List Col) (codec pageSize : Nat) (createdBy : String) :
    XInv pp { cols := cols, codec := codec, pageSize := pageSize, createdBy := createdBy } :=
  ⟨fun g hg => by simp at hg, fun cws h => by simp at h, fun g hg => by simp at hg, trivial, fun i g h => by simp at h⟩

theorem ensureHeader_x (w : W) :
    (ensureHeader w).cols = w.cols ∧ (ensureHeader w).codec = w.codec ∧ (ensureHeader w).rg = w.rg ∧
    (ensureHeader w).pagesDone = w.pagesDone ∧ (ensureHeader w).rowGroups = w.rowGroups ∧
    (ensureHeader w).rgRows = w.rgRows := by
  unfold ensureHeader; by_cases h : w.headerWritten = true <;> simp [h]

theorem xinv_ensureHeader (pp : PagePred D) (w : W) (h : XInv pp w) : XInv pp (ensureHeader w) := by
  obtain ⟨e1, e2, e3, e4, e5, e6⟩ := ensureHeader_x w
  unfold XInv
  rw [e1, e2, e3, e4, e5, e6]
  exact h

theorem headD_map_replicate_colRows (cols : List Col) :
    ((cols.map (fun _ => ({} : ColW))).map colRows).headD 0 = 0 := by
  cases cols <;> simp [colRows]

theorem headD_zip_fresh_colRecs (cols : List Col) :
    (List.zipWith colRecs cols (cols.map (fun _ => ({} : ColW)))).headD 0 = 0 := by
  cases cols <;> simp [colRecs_empty]

theorem xinv_ensureRowGroup (pp : PagePred D) (w : W) (h : XInv pp w) : XInv pp (ensureRowGroup w) := by
  unfold ensureRowGroup
  cases hr : w.rg with
  | some cws => simpa [hr] using h
  | none =>
    obtain ⟨h1, _, h3, h4⟩ := h
    refine ⟨h1, ?_, h3, h4⟩
    intro cws hc
    simp only [Option.some.injEq] at hc
    subst hc
    exact ⟨colsP_fresh pp w.cols, (headD_zip_fresh_colRecs w.cols).symm⟩

theorem headD_set_colRows : ∀ (cws : List ColW) (i : Nat) (cw cw' : ColW) (n : Nat),
    cws[i]? = some cw → colRows cw' = colRows cw + n →
    ((cws.set i cw').map colRows).headD 0 = (cws.map colRows).headD 0 + (if i = 0 then n else 0) := by
  intro cws i cw cw' n hc hr
  cases cws with
  | nil => simp at hc
  | cons x xs =>
    cases i with
    | zero =>
      simp only [List.getElem?_cons_zero, Option.some.injEq] at hc
      subst hc
      simp [hr]
    | succ k => simp

theorem headD_set_colRecs : ∀ (cols : List Col) (cws : List ColW) (i : Nat) (c : Col) (cw cw' : ColW) (n : Nat),
    cols[i]? = some c → cws[i]? = some cw → colRecs c cw' = colRecs c cw + n →
    (List.zipWith colRecs cols (cws.set i cw')).headD 0 =
      (List.zipWith colRecs cols cws).headD 0 + (if i = 0 then n else 0) := by
  intro cols cws i c cw cw' n hcol hc hr
  cases cols with
  | nil => simp at hcol
  | cons a as =>
    cases cws with
    | nil => simp at hc
    | cons x xs =>
      cases i with
      | zero =>
        simp only [List.getElem?_cons_zero, Option.some.injEq] at hc hcol
        subst hc; subst hcol
        simp [hr]
      | succ k => simp

theorem xinv_writeBatch (pp : PagePred D) (w : W) (b : Batch) (h : XInv pp w)
    (hq : ∀ c, w.cols[b.col]? = some c → pp.Q c b) : XInv pp (writeBatch D w b).1 := by
  have hE := xinv_ensureHeader pp w h
  have hR := xinv_ensureRowGroup pp _ hE
  have hfields : (ensureRowGroup (ensureHeader w)).cols = w.cols ∧ (ensureRowGroup (ensureHeader w)).codec = w.codec := by
    obtain ⟨e1, e2, _⟩ := ensureHeader_x w
    unfold ensureRowGroup; cases (ensureHeader w).rg <;> simp [e1, e2]
  unfold writeBatch
  cases hc : w.cols[b.col]? with
  | none => exact h
  | some c =>
    simp only
    cases hrg : (ensureRowGroup (ensureHeader w)).rg with
    | none => exact h
    | some cws =>
      simp only
      cases hcw : cws[b.col]? with
      | none => exact h
      | some cw =>
        simp only
        cases hcb : colWriteBatch D w.codec (targetPageSize w) c cw b with
        | none => exact hR
        | some cw' =>
          obtain ⟨r1, r2, r3, r4⟩ := hR
          obtain ⟨s1, s2⟩ := r2 cws hrg
          rw [hfields.1] at s1
          have hcp := colsP_get pp w.cols cws b.col c cw s1 hc hcw
          obtain ⟨k1, _, k3⟩ := colWriteBatch_colP pp w.codec _ c cw cw' b hcp (hq c hc) hcb
          refine ⟨r1, ?_, r3, r4⟩
          intro cws' hc'
          simp only [Option.some.injEq] at hc'
          subst hc'
          refine ⟨?_, ?_⟩
          · show ColsP pp (ensureRowGroup (ensureHeader w)).cols _
            rw [hfields.1]
            exact colsP_set pp w.cols cws b.col c cw' s1 hc k1
          · show (ensureRowGroup (ensureHeader w)).rgRows + _ = (List.zipWith colRecs (ensureRowGroup (ensureHeader w)).cols _).headD 0
            rw [s2, hfields.1]
            exact (headD_set_colRecs w.cols cws b.col c cw cw' (batchRows c b) hc hcw k3).symm

theorem xinv_flushRowGroup (pp : PagePred D) (w : W) (h : XInv pp w) : XInv pp (flushRowGroup D w).1 := by
  unfold flushRowGroup
  cases hr : w.rg with
  | none => exact h
  | some cws =>
    simp only
    cases hf : finalizeCols D w w.cols cws w.fileOffset with
    | none => exact h
    | some p =>
      obtain ⟨h1, h2, h3, h4⟩ := h
      obtain ⟨s1, s2⟩ := h2 cws hr
      obtain ⟨d1, d2, _, d4⟩ := finalizeCols_colsP pp w w.cols cws _ p s1 hf
      obtain ⟨bytes, metas⟩ := p
      simp only
      refine ⟨?_, fun cws' hc => by simp at hc, ?_, ?_⟩
      · intro g hg
        rcases List.mem_append.mp hg with hg | hg
        · exact h1 g hg
        · have : g = finalizeColsPages D w w.cols cws := by simpa using hg
          subst this; exact d1
      · intro g hg
        rcases List.mem_append.mp hg with hg | hg
        · exact h3 g hg
        · have hg' : g = { numRows := w.rgRows, totalByteSize := chunksUncompressed metas, fileOffset := w.fileOffset,
                             totalCompressed := bytes.length, ordinal := w.rowGroups.length, chunks := metas } := by
            simpa using hg
          subst hg'; exact d2
      · refine ⟨?_, ?_⟩
        · apply rowsZip_append _ _ _ _ _ h4.1
          show w.rgRows = firstRecs _ _
          rw [s2, firstRecs, d4]
        · intro i g hg
          by_cases hi : i < w.rowGroups.length
          · rw [List.getElem?_append_left hi] at hg
            exact h4.2 i g hg
          · have hge : w.rowGroups.length ≤ i := by omega
            rw [List.getElem?_append_right hge] at hg
            cases hk : i - w.rowGroups.length with
            | zero =>
              simp only [hk, List.getElem?_cons_zero, Option.some.injEq] at hg
              subst hg
              simp only; omega
            | succ k => simp [hk] at hg

theorem xinv_step (pp : PagePred D) (w : W) (op : Op) (h : XInv pp w)
    (hq : ∀ b, op = .batch b → ∀ c, w.cols[b.col]? = some c → pp.Q c b) : XInv pp (step D w op).1 := by
  cases op with
  | batch b => exact xinv_writeBatch pp w b h (hq b rfl)
  | newRowGroup => exact xinv_flushRowGroup pp _ (xinv_ensureHeader pp w h)

theorem xinv_stateAfter (pp : PagePred D) : ∀ (ops : List Op) (w : W), XInv pp w →
    (∀ b, Op.batch b ∈ ops → ∀ c, w.cols[b.col]? = some c → pp.Q c b) → XInv pp (stateAfter D w ops) := by
  intro ops
  induction ops with
  | nil => intro w h _; exact h
  | cons op ops ih =>
    intro w h hq
    have hs := xinv_step pp w op h (fun b hb c hc => hq b (by simp [hb]) c hc)
    refine ih _ hs (fun b hb c hc => hq b (List.mem_cons_of_mem _ hb) c ?_)
    rw [← (step_cols D w op).1]; exact hc

theorem xinv_closing (pp : PagePred D) (w : W) (h : XInv pp w) : XInv pp (closing D w) :=
  xinv_flushRowGroup pp _ (xinv_ensureHeader pp w h)

end Carquet.Proofs.SpecWriter
