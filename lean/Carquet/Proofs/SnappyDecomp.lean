import Carquet.Spec.Snappy
import Carquet.Impl.Snappy
import Carquet.Proofs.SnappySpec
/-
The repaired decompressor model against the Spec: preamble reader = Spec reader; every successful
step is a grammar element; every failure is INVALID_COMPRESSED_DATA (never a model-only out-of-bounds
outcome); every grammar element is accepted.
-/
namespace Carquet.Proofs.Snappy
open Carquet
open Carquet.Impl.Snappy


theorem drop_cons_of_lt {bs : List UInt8} {i : Nat} (h : i < bs.length) :
    bs.drop i = bs[i] :: bs.drop (i + 1) := by
  simp

/-- what the repaired reader computes from a state, in terms of the Spec's varint -/
def VarintAgree (k shift : Nat) : Prop :=
  ∀ (bs : List UInt8) (p value : Nat), value < 2 ^ shift →
    readVarintLoop Fixes.all bs.toArray k p shift value =
      match Spec.Snappy.readVarint k (bs.drop p) with
      | some (m, r) =>
        if value + 2 ^ shift * m < 2 ^ 32 then some (value + 2 ^ shift * m, bs.length - r.length) else none
      | none => none

theorem varintAgree_1 : VarintAgree 1 28 := by
  intro bs p value hv
  simp only [readVarintLoop, List.size_toArray, show Fixes.all.f25b = true from rfl]
  by_cases hp : p < bs.length
  · rw [drop_cons_of_lt hp]
    simp only [hp, dite_true, List.getElem_toArray, Spec.Snappy.readVarint]
    by_cases hb : bs[p].toNat < 128
    · by_cases h15 : bs[p].toNat > 15
      · have : ¬ (value + 2 ^ 28 * bs[p].toNat < 2 ^ 32) := by omega
        simp [h15, hb, this]
      · have : (value + 2 ^ 28 * bs[p].toNat < 2 ^ 32) := by omega
        simp [h15, hb, this]
        omega
    · by_cases h15 : bs[p].toNat > 15
      · simp [h15, hb]
      · omega
  · have : bs.drop p = [] := by simp; omega
    simp [hp, this, Spec.Snappy.readVarint]

theorem varintAgree_step (shift : Nat) (hs : shift = 21 ∨ shift = 14 ∨ shift = 7 ∨ shift = 0) (k : Nat)
    (ih : VarintAgree k (shift + 7)) : VarintAgree (k + 1) shift := by
  intro bs p value hv
  simp only [readVarintLoop, List.size_toArray, show Fixes.all.f25b = true from rfl]
  by_cases hp : p < bs.length
  · rw [drop_cons_of_lt hp]
    simp only [hp, dite_true, List.getElem_toArray, Spec.Snappy.readVarint]
    have h28 : (shift == 28) = false := by rcases hs with rfl | rfl | rfl | rfl <;> rfl
    simp only [h28, Bool.and_false, Bool.false_and, Bool.false_eq_true, if_false]
    by_cases hb : bs[p].toNat < 128
    · simp only [hb, if_true]
      have hlt : value + 2 ^ shift * bs[p].toNat < 2 ^ 32 := by
        rcases hs with rfl | rfl | rfl | rfl <;> omega
      have heq : (value + bs[p].toNat % 128 * 2 ^ shift % 2 ^ 32) % 2 ^ 32 = value + 2 ^ shift * bs[p].toNat := by
        rcases hs with rfl | rfl | rfl | rfl <;> omega
      simp only [hlt, if_true, heq, List.length_drop]
      congr 2
      omega
    · have hge : ¬ (shift + 7 ≥ 32) := by rcases hs with rfl | rfl | rfl | rfl <;> omega
      simp only [hb, if_false, hge]
      have hb8 := UInt8.toNat_lt bs[p]
      have hv' : (value + bs[p].toNat % 128 * 2 ^ shift % 2 ^ 32) % 2 ^ 32 < 2 ^ (shift + 7) := by
        rcases hs with rfl | rfl | rfl | rfl <;> omega
      rw [ih bs (p + 1) _ hv']
      cases hr : Spec.Snappy.readVarint k (List.drop (p + 1) bs) with
      | none => rfl
      | some mr =>
        obtain ⟨m, r⟩ := mr
        simp only
        have heq : (value + bs[p].toNat % 128 * 2 ^ shift % 2 ^ 32) % 2 ^ 32 + 2 ^ (shift + 7) * m =
            value + 2 ^ shift * (bs[p].toNat - 128 + 128 * m) := by
          rcases hs with rfl | rfl | rfl | rfl <;> omega
        rw [heq]
  · have : bs.drop p = [] := by simp; omega
    simp [hp, this, Spec.Snappy.readVarint]

theorem varintAgree_5 : VarintAgree 5 0 :=
  varintAgree_step 0 (by simp) 4 <| varintAgree_step 7 (by simp) 3 <| varintAgree_step 14 (by simp) 2 <|
    varintAgree_step 21 (by simp) 1 varintAgree_1

/-- The repaired preamble reader is the Spec's. -/
theorem readVarint_eq (bs : List UInt8) :
    readVarint Fixes.all bs.toArray =
      match Spec.Snappy.readPreamble bs with
      | some (n, r) => some (n, bs.length - r.length)
      | none => none := by
  have := varintAgree_5 bs 0 0 (by decide)
  simp only [List.drop_zero, Nat.zero_add, Nat.pow_zero, Nat.one_mul] at this
  simp only [readVarint, this, Spec.Snappy.readPreamble]
  cases Spec.Snappy.readVarint 5 bs with
  | none => rfl
  | some mr => obtain ⟨m, r⟩ := mr; simp only; split <;> rfl


theorem rd_eq (bs : List UInt8) (i : Nat) (h : i < bs.length) : rd bs.toArray i = .ok bs[i] := by
  simp [rd, h]

theorem leRead_eq (bs : List UInt8) : ∀ (k ip : Nat), ip + k ≤ bs.length →
    leRead bs.toArray ip k = .ok (Spec.Snappy.leVal ((bs.drop ip).take k)) := by
  intro k
  induction k with
  | zero => intro ip _; simp [leRead, Spec.Snappy.leVal]
  | succ k ih =>
    intro ip h
    have hlt : ip < bs.length := by omega
    simp only [leRead, rd_eq bs ip hlt, ih (ip + 1) (by omega)]
    rw [List.drop_eq_getElem_cons hlt, List.take_succ_cons]
    simp only [Spec.Snappy.leVal]

theorem copyLoop_eq (cap off : Nat) : ∀ (n : Nat) (out : Array UInt8),
    0 < off → off ≤ out.size → out.size + n ≤ cap →
    ∃ out', copyLoop cap off n out = .ok out' ∧
      Spec.Snappy.copyOverlap off n out.toList = some out'.toList ∧ out'.size = out.size + n := by
  intro n
  induction n with
  | zero => intro out _ _ _; exact ⟨out, by simp [copyLoop, Spec.Snappy.copyOverlap]⟩
  | succ n ih =>
    intro out h0 h1 h2
    have hlt : out.size - off < out.size := by omega
    obtain ⟨out', e1, e2, e3⟩ := ih (out.push out[out.size - off]) h0 (by simp; omega) (by simp; omega)
    refine ⟨out', ?_, ?_, ?_⟩
    · have hw : out.size < cap := by omega
      simp only [copyLoop, rdDst, hlt, dite_true, wr, hw, if_true]
      exact e1
    · simp only [Spec.Snappy.copyOverlap, Array.length_toList, Array.getElem?_toList]
      simp only [Array.getElem?_eq_getElem hlt, h0, if_true]
      simpa using e2
    · simp at e3; omega

theorem literalCopy_eq (bs : List UInt8) (olen cap ip len : Nat) (out : Array UInt8) (hc : olen ≤ cap) :
    literalCopy bs.toArray olen cap ip len out =
      if ip + len > bs.length ∨ out.size + len > olen then .error .invalidData
      else .ok (ip + len, out ++ ((bs.drop ip).take len).toArray) := by
  simp only [literalCopy, List.size_toArray]
  split
  · rfl
  · rename_i h
    have h1 : ip + len ≤ bs.length := by omega
    simp only [rdRange, List.size_toArray, h1, if_true, wrRange]
    have h2 : out.size + (bs.toArray.extract ip (ip + len)).size ≤ cap := by
      simp; omega
    simp only [h2, if_true]
    congr 3
    apply Array.ext'
    simp [List.take_drop]

open Spec.Snappy in
/-- outcome of one step in grammar terms -/
def StepGood (bs : List UInt8) (olen ip : Nat) (out : Array UInt8)
    (r : Except Impl.Snappy.Err (Nat × Array UInt8)) : Prop :=
  match r with
  | .error e => e = .invalidData
  | .ok (ip', out') =>
    ∃ e, bs.drop ip = e ++ bs.drop ip' ∧ Element e out.toList out'.toList ∧
      ip < ip' ∧ ip' ≤ bs.length ∧ out'.size ≤ olen

theorem drop_split (bs : List UInt8) (i len : Nat) (_h : i + len ≤ bs.length) :
    bs.drop i = (bs.drop i).take len ++ bs.drop (i + len) := by
  rw [← List.drop_drop, List.take_append_drop]

def CopyGood (olen off len ip : Nat) (out : Array UInt8)
    (r : Except Impl.Snappy.Err (Nat × Array UInt8)) : Prop :=
  match r with
  | .error e => e = .invalidData
  | .ok (ip', out') => ip' = ip ∧ 0 < off ∧ off ≤ out.size ∧ out'.size ≤ olen ∧ out'.size = out.size + len ∧
      Spec.Snappy.copyOverlap off len out.toList = some out'.toList

theorem copyStep_sound {olen cap off len ip : Nat} {out : Array UInt8} (hc : olen ≤ cap) :
    CopyGood olen off len ip out (copyStep olen cap off len ip out) := by
  simp only [copyStep]
  split
  · simp [CopyGood]
  · split
    · simp [CopyGood]
    · rename_i h1 h2
      obtain ⟨out', e1, e2, e3⟩ := copyLoop_eq cap off len out (by omega) (by omega) (by omega)
      simp only [e1, CopyGood]
      exact ⟨trivial, by omega, by omega, by omega, e3, e2⟩

theorem literalStep_sound (bs : List UInt8) {olen cap ip : Nat} (tag : UInt8) {out : Array UInt8}
    (hc : olen ≤ cap) (hip : ip < bs.length) (htag : bs[ip] = tag) (h0 : tag.toNat % 4 = 0) :
    StepGood bs olen ip out (literalStep bs.toArray olen cap tag.toNat (ip + 1) out) := by
  have hd : bs.drop ip = tag :: bs.drop (ip + 1) := by rw [← htag]; exact List.drop_eq_getElem_cons hip
  simp only [literalStep, List.size_toArray, show tag.toNat / 4 + 1 - 60 = tag.toNat / 4 - 59 from by omega]
  split
  · rename_i hlong
    split
    · simp [StepGood]
    · rename_i hk
      simp only [leRead_eq bs _ _ (by omega : ip + 1 + (tag.toNat / 4 - 59) ≤ bs.length), literalCopy_eq bs _ _ _ _ _ hc]
      split
      · simp [StepGood]
      · rename_i hg
        simp only [StepGood]
        refine ⟨tag :: ((bs.drop (ip + 1)).take (tag.toNat / 4 - 59) ++
          (bs.drop (ip + 1 + (tag.toNat / 4 - 59))).take
            (1 + Spec.Snappy.leVal ((bs.drop (ip + 1)).take (tag.toNat / 4 - 59)))), ?_, ?_, ?_, ?_, ?_⟩
        · rw [hd, List.cons_append, List.append_assoc]
          congr 1
          rw [← drop_split bs _ _ (by omega), ← drop_split bs _ _ (by omega)]
        · have := Spec.Snappy.Element.litLong tag ((bs.drop (ip + 1)).take (tag.toNat / 4 - 59))
            ((bs.drop (ip + 1 + (tag.toNat / 4 - 59))).take
              (1 + Spec.Snappy.leVal ((bs.drop (ip + 1)).take (tag.toNat / 4 - 59)))) out.toList
            h0 (by omega) (by simp; omega) (by simp; omega)
          simpa using this
        · omega
        · omega
        · simp; omega
  · rename_i hshort
    simp only [literalCopy_eq bs _ _ _ _ _ hc]
    split
    · simp [StepGood]
    · rename_i hg
      simp only [StepGood]
      refine ⟨tag :: (bs.drop (ip + 1)).take (tag.toNat / 4 + 1), ?_, ?_, ?_, ?_, ?_⟩
      · rw [hd, List.cons_append]
        congr 1
        exact drop_split bs _ _ (by omega)
      · have := Spec.Snappy.Element.litShort tag ((bs.drop (ip + 1)).take (tag.toNat / 4 + 1)) out.toList
          h0 (by omega) (by simp; omega)
        simpa using this
      · omega
      · omega
      · simp; omega

theorem copy1Step_sound (bs : List UInt8) {olen cap ip : Nat} (tag : UInt8) {out : Array UInt8}
    (hc : olen ≤ cap) (hip : ip < bs.length) (htag : bs[ip] = tag) (h0 : tag.toNat % 4 = 1) :
    StepGood bs olen ip out (copy1Step Fixes.all bs.toArray olen cap tag.toNat (ip + 1) out) := by
  have hd : bs.drop ip = tag :: bs.drop (ip + 1) := by rw [← htag]; exact List.drop_eq_getElem_cons hip
  simp only [copy1Step, List.size_toArray, show Fixes.all.f6 = true from rfl, Bool.true_and, decide_eq_true_eq]
  split
  · simp [StepGood]
  · rename_i h1
    have hlt : ip + 1 < bs.length := by omega
    simp only [rd_eq bs _ hlt]
    have hs := copyStep_sound (off := tag.toNat / 32 * 256 + bs[ip + 1].toNat) (len := tag.toNat / 4 % 8 + 4)
      (ip := ip + 1 + 1) (out := out) hc
    revert hs
    cases copyStep olen cap (tag.toNat / 32 * 256 + bs[ip + 1].toNat) (tag.toNat / 4 % 8 + 4) (ip + 1 + 1) out with
    | error e => simp [CopyGood, StepGood]
    | ok r =>
      obtain ⟨ip', out'⟩ := r
      simp only [CopyGood, StepGood]
      rintro ⟨rfl, g1, g2, g3, g4, g5⟩
      refine ⟨[tag, bs[ip + 1]], ?_, ?_, by omega, by omega, g3⟩
      · rw [hd, List.drop_eq_getElem_cons hlt]; rfl
      · exact Spec.Snappy.Element.copy1 tag bs[ip + 1] out.toList out'.toList h0 g1 (by simpa using g2) g5

theorem copy2Step_sound (bs : List UInt8) {olen cap ip : Nat} (tag : UInt8) {out : Array UInt8}
    (hc : olen ≤ cap) (hip : ip < bs.length) (htag : bs[ip] = tag) (h0 : tag.toNat % 4 = 2) :
    StepGood bs olen ip out (copy2Step bs.toArray olen cap tag.toNat (ip + 1) out) := by
  have hd : bs.drop ip = tag :: bs.drop (ip + 1) := by rw [← htag]; exact List.drop_eq_getElem_cons hip
  simp only [copy2Step, List.size_toArray]
  split
  · simp [StepGood]
  · rename_i h1
    have hlt1 : ip + 1 < bs.length := by omega
    have hlt2 : ip + 1 + 1 < bs.length := by omega
    simp only [rd_eq bs _ hlt1, rd_eq bs _ hlt2]
    have hs := copyStep_sound (off := bs[ip + 1].toNat + 256 * bs[ip + 1 + 1].toNat) (len := tag.toNat / 4 % 64 + 1)
      (ip := ip + 1 + 2) (out := out) hc
    revert hs
    cases copyStep olen cap (bs[ip + 1].toNat + 256 * bs[ip + 1 + 1].toNat) (tag.toNat / 4 % 64 + 1) (ip + 1 + 2) out with
    | error e => simp [CopyGood, StepGood]
    | ok r =>
      obtain ⟨ip', out'⟩ := r
      simp only [CopyGood, StepGood]
      rintro ⟨rfl, g1, g2, g3, g4, g5⟩
      have ht := UInt8.toNat_lt tag
      have hl : tag.toNat / 4 % 64 + 1 = tag.toNat / 4 + 1 := by omega
      refine ⟨[tag, bs[ip + 1], bs[ip + 1 + 1]], ?_, ?_, by omega, by omega, g3⟩
      · rw [hd, List.drop_eq_getElem_cons hlt1, List.drop_eq_getElem_cons hlt2]; rfl
      · refine Spec.Snappy.Element.copy2 tag bs[ip + 1] bs[ip + 1 + 1] out.toList out'.toList h0 ?_ ?_ ?_
        · simpa [Spec.Snappy.leVal] using g1
        · simpa [Spec.Snappy.leVal] using g2
        · rw [← hl]; simpa [Spec.Snappy.leVal] using g5

theorem copy4Step_sound (bs : List UInt8) {olen cap ip : Nat} (tag : UInt8) {out : Array UInt8}
    (hc : olen ≤ cap) (hip : ip < bs.length) (htag : bs[ip] = tag) (h0 : tag.toNat % 4 = 3) :
    StepGood bs olen ip out (copy4Step bs.toArray olen cap tag.toNat (ip + 1) out) := by
  have hd : bs.drop ip = tag :: bs.drop (ip + 1) := by rw [← htag]; exact List.drop_eq_getElem_cons hip
  simp only [copy4Step, List.size_toArray]
  split
  · simp [StepGood]
  · rename_i h1
    have hlt1 : ip + 1 < bs.length := by omega
    have hlt2 : ip + 1 + 1 < bs.length := by omega
    have hlt3 : ip + 1 + 2 < bs.length := by omega
    have hlt4 : ip + 1 + 3 < bs.length := by omega
    simp only [rd_eq bs _ hlt1, rd_eq bs _ hlt2, rd_eq bs _ hlt3, rd_eq bs _ hlt4]
    have hs := copyStep_sound (off := bs[ip + 1].toNat + 256 * bs[ip + 1 + 1].toNat + 65536 * bs[ip + 1 + 2].toNat
        + 16777216 * bs[ip + 1 + 3].toNat) (len := tag.toNat / 4 % 64 + 1)
      (ip := ip + 1 + 4) (out := out) hc
    revert hs
    cases copyStep olen cap (bs[ip + 1].toNat + 256 * bs[ip + 1 + 1].toNat + 65536 * bs[ip + 1 + 2].toNat
        + 16777216 * bs[ip + 1 + 3].toNat) (tag.toNat / 4 % 64 + 1) (ip + 1 + 4) out with
    | error e => simp [CopyGood, StepGood]
    | ok r =>
      obtain ⟨ip', out'⟩ := r
      simp only [CopyGood, StepGood]
      rintro ⟨rfl, g1, g2, g3, g4, g5⟩
      have ht := UInt8.toNat_lt tag
      have hl : tag.toNat / 4 % 64 + 1 = tag.toNat / 4 + 1 := by omega
      have hv : Spec.Snappy.leVal [bs[ip + 1], bs[ip + 1 + 1], bs[ip + 1 + 2], bs[ip + 1 + 3]] =
          bs[ip + 1].toNat + 256 * bs[ip + 1 + 1].toNat + 65536 * bs[ip + 1 + 2].toNat
            + 16777216 * bs[ip + 1 + 3].toNat := by
        simp only [Spec.Snappy.leVal]; omega
      refine ⟨[tag, bs[ip + 1], bs[ip + 1 + 1], bs[ip + 1 + 2], bs[ip + 1 + 3]], ?_, ?_, by omega, by omega, g3⟩
      · rw [hd, List.drop_eq_getElem_cons hlt1, List.drop_eq_getElem_cons hlt2, List.drop_eq_getElem_cons hlt3,
          List.drop_eq_getElem_cons hlt4]; rfl
      · refine Spec.Snappy.Element.copy4 tag _ _ _ _ out.toList out'.toList h0 ?_ ?_ ?_
        · rw [hv]; exact g1
        · rw [hv]; simpa using g2
        · rw [hv, ← hl]; exact g5

theorem step_sound (bs : List UInt8) {olen cap ip : Nat} {out : Array UInt8}
    (hc : olen ≤ cap) (hip : ip < bs.length) :
    StepGood bs olen ip out (step Fixes.all bs.toArray olen cap bs[ip] (ip + 1) out) := by
  simp only [step]
  split
  · exact literalStep_sound bs _ hc hip rfl (by assumption)
  · split
    · exact copy1Step_sound bs _ hc hip rfl (by assumption)
    · split
      · exact copy2Step_sound bs _ hc hip rfl (by assumption)
      · exact copy4Step_sound bs _ hc hip rfl (by omega)

open Spec.Snappy in
def LoopGood (bs : List UInt8) (olen ip : Nat) (out : Array UInt8)
    (r : Except Impl.Snappy.Err (Nat × Array UInt8)) : Prop :=
  match r with
  | .error e => e = .invalidData
  | .ok (ip', out') =>
    ∃ body, bs.drop ip = body ++ bs.drop ip' ∧ Elems body out.toList out'.toList ∧
      ip' ≤ bs.length ∧ out'.size ≤ olen ∧ ¬ (ip' < bs.length ∧ out'.size < olen)

theorem loop_sound (bs : List UInt8) {olen cap : Nat} (hc : olen ≤ cap) :
    ∀ (fuel ip : Nat) (out : Array UInt8), ip ≤ bs.length → out.size ≤ olen → bs.length + 1 ≤ fuel + ip →
      LoopGood bs olen ip out (loop Fixes.all bs.toArray olen cap fuel ip out) := by
  intro fuel
  induction fuel with
  | zero => intro ip out h1 _ h3; omega
  | succ fuel ih =>
    intro ip out h1 h2 h3
    simp only [loop, List.size_toArray]
    split
    · rename_i hcond
      have hs := step_sound bs (olen := olen) (cap := cap) (ip := ip) (out := out) hc hcond.1
      simp only [List.getElem_toArray]
      revert hs
      cases step Fixes.all bs.toArray olen cap bs[ip] (ip + 1) out with
      | error e => simp [StepGood, LoopGood]
      | ok r =>
        obtain ⟨ip1, out1⟩ := r
        simp only [StepGood]
        rintro ⟨e, g1, g2, g3, g4, g5⟩
        have hl := ih ip1 out1 g4 g5 (by omega)
        revert hl
        cases loop Fixes.all bs.toArray olen cap fuel ip1 out1 with
        | error e => simp [LoopGood]
        | ok r =>
          obtain ⟨ip2, out2⟩ := r
          simp only [LoopGood]
          rintro ⟨body, k1, k2, k3, k4, k5⟩
          refine ⟨e ++ body, ?_, Spec.Snappy.Elems.cons g2 k2, k3, k4, k5⟩
          rw [g1, k1, List.append_assoc]
    · rename_i hcond
      simp only [LoopGood]
      exact ⟨[], by simp, Spec.Snappy.Elems.nil _, h1, h2, hcond⟩

/-- what the repaired decompressor may return -/
def DecGood (bs : List UInt8) (cap : Nat) (r : Except Impl.Snappy.Err (Array UInt8)) : Prop :=
  match r with
  | .error e => e = .invalidData
  | .ok out => Spec.Snappy.Stream bs out.toList ∧ out.size ≤ cap

/-- soundness of the repaired decompressor: whatever it accepts is a valid stream for the bytes it
returns, the length fits, and every failure is the status INVALID_COMPRESSED_DATA (no model-only outcome) -/
theorem decompressWith_sound (bs : List UInt8) (cap : Nat) :
    DecGood bs cap (decompressWith Fixes.all bs.toArray cap) := by
  simp only [decompressWith, readVarint_eq, Spec.Snappy.readPreamble]
  cases hv : Spec.Snappy.readVarint 5 bs with
  | none => simp [DecGood]
  | some nr =>
    obtain ⟨n, r⟩ := nr
    simp only
    by_cases hn : n < 2 ^ 32
    · simp only [hn, if_true]
      by_cases hcap : n > cap
      · simp [hcap, DecGood]
      · simp only [hcap, if_false]
        obtain ⟨pre, rfl, hvar, hpl⟩ := varint_of_readVarint 5 bs n r hv
        have hl := loop_sound (pre ++ r) (olen := n) (cap := cap) (by omega)
          ((pre ++ r).length + 1) ((pre ++ r).length - r.length) #[] (by omega) (by simp) (by omega)
        simp only [List.size_toArray]
        revert hl
        cases loop Fixes.all (pre ++ r).toArray n cap ((pre ++ r).length + 1) ((pre ++ r).length - r.length) #[] with
        | error e => simp [LoopGood, DecGood]
        | ok res =>
          obtain ⟨ip', out'⟩ := res
          simp only [LoopGood, show Fixes.all.f25 = true from rfl, true_and]
          rintro ⟨body, k1, k2, k3, k4, k5⟩
          have hlen : (pre ++ r).length = pre.length + r.length := List.length_append
          by_cases hfin : out'.size ≠ n ∨ ip' ≠ (pre ++ r).length
          · rw [if_pos hfin]; simp [DecGood]
          · rw [if_neg hfin]
            simp only [DecGood]
            have hdrop : (pre ++ r).drop ((pre ++ r).length - r.length) = r := by
              simp
            have h1 : out'.size = n := by omega
            have h2 : ip' = (pre ++ r).length := by omega
            rw [hdrop, h2, List.drop_length, List.append_nil] at k1
            subst k1
            exact ⟨Spec.Snappy.Stream.mk hvar hpl hn k2 (by simpa using h1), by omega⟩
    · simp [hn, DecGood]


theorem drop_eq_cons {bs : List UInt8} {i : Nat} {b : UInt8} {r : List UInt8} (h : bs.drop i = b :: r) :
    ∃ hi : i < bs.length, bs[i] = b ∧ bs.drop (i + 1) = r := by
  have hi : i < bs.length := by
    apply Classical.byContradiction
    intro hn
    have hle : bs.length ≤ i := by omega
    rw [List.drop_eq_nil_of_le hle] at h
    cases h
  rw [List.drop_eq_getElem_cons hi] at h
  injection h with h1 h2
  exact ⟨hi, h1, h2⟩

theorem drop_eq_append {bs : List UInt8} {i : Nat} {x r : List UInt8} (h : bs.drop i = x ++ r)
    (hx : 0 < x.length) :
    i + x.length ≤ bs.length ∧ (bs.drop i).take x.length = x ∧ bs.drop (i + x.length) = r := by
  have hl : (bs.drop i).length = x.length + r.length := by rw [h]; simp
  simp only [List.length_drop] at hl
  refine ⟨by omega, by rw [h]; simp, ?_⟩
  rw [← List.drop_drop, h]; simp

theorem copyStep_complete {olen cap off len ip : Nat} {o o' : List UInt8} (hc : olen ≤ cap)
    (h0 : 0 < off) (h1 : off ≤ o.length) (h2 : Spec.Snappy.copyOverlap off len o = some o')
    (h3 : o'.length ≤ olen) :
    copyStep olen cap off len ip o.toArray = .ok (ip, o'.toArray) := by
  have hlen := copyOverlap_length h2
  obtain ⟨out', e1, e2, _⟩ := copyLoop_eq cap off len o.toArray h0 (by simpa using h1) (by simp; omega)
  simp only [h2, Option.some.injEq] at e2
  have : ¬ (off = 0 ∨ off > o.length) := by omega
  have h4 : ¬ (o.length + len > olen) := by omega
  simp only [copyStep, List.size_toArray, this, h4, if_false, e1]
  rw [e2]

theorem step_complete {bs e rest o o' : List UInt8} {olen cap ip : Nat} (he : Spec.Snappy.Element e o o')
    (hd : bs.drop ip = e ++ rest) (ho : o'.length ≤ olen) (hc : olen ≤ cap) :
    ∃ hip : ip < bs.length,
      step Fixes.all bs.toArray olen cap bs[ip] (ip + 1) o.toArray = .ok (ip + e.length, o'.toArray) := by
  cases he with
  | litShort tag data o h0 h1 h2 =>
    rw [List.cons_append] at hd
    obtain ⟨hip, ht, hd1⟩ := drop_eq_cons hd
    obtain ⟨g1, g2, g3⟩ := drop_eq_append hd1 (by omega)
    refine ⟨hip, ?_⟩
    have hns : ¬ (tag.toNat / 4 + 1 > 60) := by omega
    simp only [step, ht, h0, if_true, literalStep, hns, if_false, literalCopy_eq bs _ _ _ _ _ hc]
    simp only [List.length_append] at ho
    simp only [List.size_toArray]
    rw [if_neg (by omega)]
    rw [← h2, g2]
    congr 2
    · simp only [List.length_cons]; omega
    · simp
  | litLong tag ext data o h0 h1 h2 h3 =>
    rw [List.cons_append, List.append_assoc] at hd
    obtain ⟨hip, ht, hd1⟩ := drop_eq_cons hd
    obtain ⟨g1, g2, g3⟩ := drop_eq_append hd1 (by omega)
    obtain ⟨k1, k2, k3⟩ := drop_eq_append g3 (by omega)
    refine ⟨hip, ?_⟩
    have hl : tag.toNat / 4 + 1 > 60 := by omega
    have hk : tag.toNat / 4 + 1 - 60 = ext.length := by omega
    simp only [List.length_append] at ho
    have hn1 : ¬ (ip + 1 + ext.length > bs.length) := by omega
    simp only [step, ht, h0, if_true, literalStep, hl, hk, List.size_toArray, hn1, if_false,
      leRead_eq bs _ _ g1, g2, literalCopy_eq bs _ _ _ _ _ hc]
    rw [if_neg (by omega)]
    rw [show 1 + Spec.Snappy.leVal ext = data.length by omega, k2]
    congr 2
    · simp only [List.length_cons, List.length_append]; omega
    · simp
  | copy1 tag b o o' h0 h1 h2 h3 =>
    obtain ⟨hip, ht, hd1⟩ := drop_eq_cons hd
    obtain ⟨hip1, hb, hd2⟩ := drop_eq_cons hd1
    refine ⟨hip, ?_⟩
    have hn1 : ¬ (ip + 1 + 1 > bs.length) := by omega
    simp only [step, ht, h0, if_true, if_false, copy1Step, List.size_toArray, show Fixes.all.f6 = true from rfl,
      Bool.true_and, decide_eq_true_eq, hn1, rd_eq bs _ hip1, hb]
    exact copyStep_complete hc h1 h2 h3 ho
  | copy2 tag b0 b1 o o' h0 h1 h2 h3 =>
    obtain ⟨hip, ht, hd1⟩ := drop_eq_cons hd
    obtain ⟨hip1, hb0, hd2⟩ := drop_eq_cons hd1
    obtain ⟨hip2, hb1, hd3⟩ := drop_eq_cons hd2
    refine ⟨hip, ?_⟩
    have hn2 : ¬ (ip + 1 + 2 > bs.length) := by omega
    have htl := UInt8.toNat_lt tag
    have hl : tag.toNat / 4 % 64 + 1 = tag.toNat / 4 + 1 := by omega
    simp only [step, ht, h0, if_true, if_false, copy2Step, List.size_toArray, hn2,
      rd_eq bs _ hip1, rd_eq bs _ hip2, hb0, hb1, hl]
    simp only [Spec.Snappy.leVal, Nat.mul_zero, Nat.add_zero] at h1 h2 h3
    exact copyStep_complete hc h1 h2 h3 ho
  | copy4 tag b0 b1 b2 b3 o o' h0 h1 h2 h3 =>
    obtain ⟨hip, ht, hd1⟩ := drop_eq_cons hd
    obtain ⟨hip1, hb0, hd2⟩ := drop_eq_cons hd1
    obtain ⟨hip2, hb1, hd3⟩ := drop_eq_cons hd2
    obtain ⟨hip3, hb2, hd4⟩ := drop_eq_cons hd3
    obtain ⟨hip4, hb3, hd5⟩ := drop_eq_cons hd4
    refine ⟨hip, ?_⟩
    have hn0 : ¬ (tag.toNat % 4 = 0) := by omega
    have hn1 : ¬ (tag.toNat % 4 = 1) := by omega
    have hn2 : ¬ (tag.toNat % 4 = 2) := by omega
    have hn3 : ¬ (ip + 1 + 4 > bs.length) := by omega
    have htl := UInt8.toNat_lt tag
    have hl : tag.toNat / 4 % 64 + 1 = tag.toNat / 4 + 1 := by omega
    simp only [step, ht, hn0, hn1, hn2, if_false, copy4Step, List.size_toArray, hn3,
      rd_eq bs _ hip1, rd_eq bs _ hip2, rd_eq bs _ hip3, rd_eq bs _ hip4, hb0, hb1, hb2, hb3, hl]
    have hv : Spec.Snappy.leVal [b0, b1, b2, b3] =
        b0.toNat + 256 * b1.toNat + 65536 * b2.toNat + 16777216 * b3.toNat := by
      simp only [Spec.Snappy.leVal]; omega
    rw [hv] at h1 h2 h3
    exact copyStep_complete hc h1 h2 h3 ho

theorem element_grows {e o o' : List UInt8} (h : Spec.Snappy.Element e o o') :
    0 < e.length ∧ o.length < o'.length := by
  cases h with
  | litShort tag data o h0 h1 h2 => simp; omega
  | litLong tag ext data o h0 h1 h2 h3 => simp; omega
  | copy1 tag b o o' h0 h1 h2 h3 => have := copyOverlap_length h3; simp; omega
  | copy2 tag b0 b1 o o' h0 h1 h2 h3 => have := copyOverlap_length h3; simp; omega
  | copy4 tag b0 b1 b2 b3 o o' h0 h1 h2 h3 => have := copyOverlap_length h3; simp; omega

theorem elems_mono {bs o o' : List UInt8} (h : Spec.Snappy.Elems bs o o') : o.length ≤ o'.length := by
  induction h with
  | nil o => exact Nat.le_refl _
  | cons he _ ih => have := (element_grows he).2; omega

theorem loop_complete (bs : List UInt8) {olen cap : Nat} (hc : olen ≤ cap) {body o o' : List UInt8}
    (h : Spec.Snappy.Elems body o o') :
    ∀ (fuel ip : Nat), bs.drop ip = body → o'.length = olen → body.length + 1 ≤ fuel →
      loop Fixes.all bs.toArray olen cap fuel ip o.toArray = .ok (ip + body.length, o'.toArray) := by
  induction h with
  | nil o =>
    intro fuel ip hd ho hf
    cases fuel with
    | zero => omega
    | succ fuel =>
      have : ¬ (ip < bs.length) := by
        intro hlt
        rw [List.drop_eq_getElem_cons hlt] at hd
        cases hd
      simp [loop, this]
  | @cons e rest o o1 o2 he hr ih =>
    intro fuel ip hd ho hf
    cases fuel with
    | zero => omega
    | succ fuel =>
      have hg := element_grows he
      have hm := elems_mono hr
      obtain ⟨hip, hs⟩ := step_complete (olen := olen) (cap := cap) he hd (by omega) hc
      obtain ⟨_, _, g3⟩ := drop_eq_append hd hg.1
      have hcond : ip < bs.toArray.size ∧ o.toArray.size < olen := by
        simp only [List.size_toArray]; omega
      simp only [loop, hcond, and_self, dite_true, List.getElem_toArray, hs]
      rw [ih fuel (ip + e.length) g3 ho (by simp only [List.length_append] at hf; omega)]
      simp [Nat.add_assoc]

/-- completeness of the repaired decompressor: every valid stream whose content fits is accepted
and yields the encoded bytes -/
theorem decompressWith_complete {bs out : List UInt8} (h : Spec.Snappy.Stream bs out) {cap : Nat}
    (hcap : out.length ≤ cap) : decompressWith Fixes.all bs.toArray cap = .ok out.toArray := by
  cases h with
  | @mk pre body out n hv hl hn he hlen =>
    have hp : Spec.Snappy.readPreamble (pre ++ body) = some (n, body) := by
      simp [Spec.Snappy.readPreamble, readVarint_of_varint hv 5 body hl, hn]
    have hnc : ¬ (n > cap) := by omega
    simp only [decompressWith, readVarint_eq, hp, hnc, if_false]
    have hd : (pre ++ body).drop ((pre ++ body).length - body.length) = body := by simp
    rw [show (#[] : Array UInt8) = ([] : List UInt8).toArray from rfl,
      loop_complete (pre ++ body) (by omega : n ≤ cap) he _ _ hd hlen (by simp)]
    simp only [List.size_toArray, show Fixes.all.f25 = true from rfl, true_and]
    rw [if_neg (by simp only [List.length_append]; omega)]
end Carquet.Proofs.Snappy
