import Carquet.Impl.Sink
/-
Helper lemmas for C18 (stream part): accounting of bytes through fwrite/fflush and
stickiness of the error indicator.
-/
namespace Carquet.Proofs.Sink
open Carquet.Impl.Sink

theorem fwrite_total (s : Stream) (d : Bytes) (o : Outcome) (h : o.isFail = false) :
    (fwrite s d o).1.delivered ++ (fwrite s d o).1.pending = s.delivered ++ s.pending ++ d := by
  cases o <;> simp_all [fwrite, Outcome.isFail, List.append_assoc, List.take_append_drop]

theorem fwrite_err (s : Stream) (d : Bytes) (o : Outcome) :
    (fwrite s d o).1.err = (s.err || o.isFail) := by
  cases o <;> simp [fwrite, Outcome.isFail]

theorem fwrite_ret (s : Stream) (d : Bytes) (o : Outcome) : (fwrite s d o).2 = !o.isFail := by
  cases o <;> simp [fwrite, Outcome.isFail]

theorem fflush_err (s : Stream) (o : Outcome) : (fflush s o).1.err = (s.err || o.isFail) := by
  cases o <;> simp [fflush, Outcome.isFail]

theorem fflush_ret (s : Stream) (o : Outcome) : (fflush s o).2 = !o.isFail := by
  cases o <;> simp [fflush, Outcome.isFail]

theorem fflush_ok (s : Stream) (o : Outcome) (h : (fflush s o).2 = true) :
    (fflush s o).1.delivered = s.delivered ++ s.pending ∧ (fflush s o).1.pending = [] := by
  cases o <;> simp_all [fflush]

/-- no failure among operations `i .. j-1` -/
def NoFail (o : Oracle) (i j : Nat) : Prop := ∀ k, i ≤ k → k < j → (o k).isFail = false

theorem writes_spec (o : Oracle) : ∀ (ds : List Bytes) (s : Stream) (i : Nat),
    i ≤ (writes o s i ds).2.2 ∧
    ((writes o s i ds).1.err = false →
      s.err = false ∧ (writes o s i ds).2.1 = .ok ∧ (writes o s i ds).2.2 = i + ds.length ∧
      NoFail o i (i + ds.length) ∧
      (writes o s i ds).1.delivered ++ (writes o s i ds).1.pending = s.delivered ++ s.pending ++ ds.flatten) ∧
    (s.err = true → (writes o s i ds).1.err = true) := by
  intro ds
  induction ds with
  | nil =>
    intro s i
    simp only [writes, NoFail, List.length_nil, List.flatten_nil, List.append_nil, Nat.add_zero, Nat.le_refl, true_and]
    refine ⟨fun h => ⟨h, fun k h1 h2 => by omega, trivial⟩, fun h => h⟩
  | cons d ds ih =>
    intro s i
    by_cases hf : (fwrite s d (o i)).2 = true
    · have hnf : (o i).isFail = false := by simpa [fwrite_ret] using hf
      obtain ⟨a, b, c⟩ := ih (fwrite s d (o i)).1 (i + 1)
      simp only [writes, hf, if_true]
      refine ⟨by omega, ?_, ?_⟩
      · intro he
        obtain ⟨e1, e2, e3, e4, e5⟩ := b he
        rw [fwrite_err] at e1
        refine ⟨by simpa using (Bool.or_eq_false_iff.mp e1).1, e2, by simp [e3]; omega, ?_, ?_⟩
        · intro k h1 h2
          by_cases hk : k = i
          · subst hk; exact hnf
          · exact e4 k (by omega) (by simp at h2 ⊢; omega)
        · rw [e5, fwrite_total _ _ _ hnf]; simp [List.append_assoc]
      · intro he
        exact c (by rw [fwrite_err]; simp [he])
    · have hff : (o i).isFail = true := by
        have := fwrite_ret s d (o i); rw [this] at hf; simpa using hf
      simp only [writes, hf]
      refine ⟨by simp, ?_, ?_⟩
      · intro he
        simp only [Bool.false_eq_true, if_false] at he
        rw [fwrite_err] at he
        simp [hff] at he
      · intro _; simp [fwrite_err, hff]


def tailOps (owns : Bool) : Nat := if owns then 2 else 1

theorem closeCall_ok (o : Oracle) (s : Stream) (i : Nat) (owns : Bool) (ws : List Bytes)
    (h : (closeCall o s i owns ws).2 = .ok) :
    s.err = false ∧ (closeCall o s i owns ws).1.pending = [] ∧
    (closeCall o s i owns ws).1.delivered = s.delivered ++ s.pending ++ ws.flatten ∧
    NoFail o i (i + ws.length + tailOps owns) := by
  obtain ⟨hle, hspec, _⟩ := writes_spec o ws s i
  unfold closeCall at h ⊢
  generalize hw : writes o s i ws = r at h hspec hle ⊢
  obtain ⟨s1, st, j⟩ := r
  cases st with
  | fileWrite => cases owns <;> simp at h
  | ok =>
    simp only at hspec hle h ⊢
    cases owns with
    | false =>
      simp only [Bool.false_eq_true, if_false] at h ⊢
      have hc : (fflush s1 (o j)).2 = true ∧ (fflush s1 (o j)).1.err = false := by
        by_cases hx : ((fflush s1 (o j)).2 && !(fflush s1 (o j)).1.err) = true
        · simpa using hx
        · simp [hx] at h
      have he1 : s1.err = false := by
        have := hc.2; rw [fflush_err] at this; exact (Bool.or_eq_false_iff.mp this).1
      obtain ⟨e1, _, e3, e4, e5⟩ := hspec he1
      obtain ⟨f1, f2⟩ := fflush_ok s1 (o j) hc.1
      have hnf : (o j).isFail = false := by
        have := hc.1; rw [fflush_ret] at this; simpa using this
      refine ⟨e1, f2, by rw [f1, e5], ?_⟩
      intro k h1 h2
      simp only [tailOps, Bool.false_eq_true, if_false] at h2
      by_cases hk : k < i + ws.length
      · exact e4 k h1 hk
      · have : k = j := by omega
        subst this; exact hnf
    | true =>
      simp only [if_true] at h ⊢
      have hc : (fflush s1 (o j)).2 = true ∧ (fflush s1 (o j)).1.err = false ∧
          (fclose (fflush s1 (o j)).1 (o (j + 1))).2 = true := by
        by_cases hx : ((fflush s1 (o j)).2 && !(fflush s1 (o j)).1.err &&
            (fclose (fflush s1 (o j)).1 (o (j + 1))).2) = true
        · simpa [Bool.and_eq_true, and_assoc] using hx
        · simp [hx] at h
      have he1 : s1.err = false := by
        have := hc.2.1; rw [fflush_err] at this; exact (Bool.or_eq_false_iff.mp this).1
      obtain ⟨e1, _, e3, e4, e5⟩ := hspec he1
      obtain ⟨f1, f2⟩ := fflush_ok s1 (o j) hc.1
      obtain ⟨g1, g2⟩ := fflush_ok (fflush s1 (o j)).1 (o (j + 1)) hc.2.2
      have hnf : (o j).isFail = false := by
        have := hc.1; rw [fflush_ret] at this; simpa using this
      have hnf2 : (o (j + 1)).isFail = false := by
        have := hc.2.2; unfold fclose at this; rw [fflush_ret] at this; simpa using this
      refine ⟨e1, g2, ?_, ?_⟩
      · show (fflush (fflush s1 (o j)).1 (o (j + 1))).1.delivered = _
        rw [g1, f1, f2, e5]; simp
      · intro k h1 h2
        simp only [tailOps, if_true] at h2
        by_cases hk : k < i + ws.length
        · exact e4 k h1 hk
        · by_cases hk2 : k = j
          · subst hk2; exact hnf
          · have : k = j + 1 := by omega
            subst this; exact hnf2

def totalOps (calls : List (List Bytes)) : Nat := (calls.map List.length).sum

theorem session_ok (o : Oracle) (owns : Bool) (cw : List Bytes) :
    ∀ (calls : List (List Bytes)) (s : Stream) (i : Nat),
    (session o owns cw s i calls).2.2 = .ok →
    s.err = false ∧
    (∀ st ∈ (session o owns cw s i calls).2.1, st = .ok) ∧
    (session o owns cw s i calls).1.pending = [] ∧
    (session o owns cw s i calls).1.delivered = s.delivered ++ s.pending ++ calls.flatten.flatten ++ cw.flatten ∧
    NoFail o i (i + totalOps calls + cw.length + tailOps owns) := by
  intro calls
  induction calls with
  | nil =>
    intro s i h
    obtain ⟨a, b, c, d⟩ := closeCall_ok o s i owns cw h
    refine ⟨a, by simp [session], b, by simpa [session] using c, by simpa [totalOps] using d⟩
  | cons call calls ih =>
    intro s i h
    obtain ⟨hle, hspec, hsticky⟩ := writes_spec o call s i
    simp only [session] at h ⊢
    obtain ⟨a, b, c, d, e⟩ := ih (writes o s i call).1 (writes o s i call).2.2 h
    obtain ⟨e1, e2, e3, e4, e5⟩ := hspec a
    refine ⟨e1, ?_, c, ?_, ?_⟩
    · intro st hst
      simp only [List.mem_cons] at hst
      rcases hst with rfl | hst
      · exact e2
      · exact b st hst
    · rw [d]
      have : (writes o s i call).1.delivered ++ (writes o s i call).1.pending = s.delivered ++ s.pending ++ call.flatten := e5
      simp only [List.flatten_cons, List.append_assoc] at this ⊢
      rw [← List.append_assoc (writes o s i call).1.delivered, this]
      simp [List.append_assoc]
    · intro k h1 h2
      by_cases hk : k < i + call.length
      · exact e4 k h1 hk
      · apply e k
        · rw [e3]; omega
        · rw [e3]; simp only [totalOps, List.map_cons, List.sum_cons] at h2 ⊢; omega

end Carquet.Proofs.Sink
