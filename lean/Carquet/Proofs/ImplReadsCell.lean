import Carquet.Proofs.ImplReadsChunk
/-
C06, implementation half — stage "one chunk, read completely": the chunk `writeChunk` lays out at
file offset `pos`, read through the column reader that `get_column` creates for it with ONE
`carquet_column_read_batch` of `num_values` entries (with or without level arrays), yields every entry:
definition level, repetition level, and the dense values of the entries that carry one.
-/
namespace Carquet.Proofs.ImplReads
open Carquet.Spec Carquet.Spec.File Carquet.Spec.Thrift
open Carquet.Impl
open Carquet.Impl.Reader hiding Bytes
open Carquet.Proofs.SpecFile (PageAdm DictAdm ChunkAdm writeChunk_adm chunkDesc)
open Carquet.Proofs.Cursor
open Carquet.Spec.Cursor (Row)

/-! ### rows of the decoded pages -/

theorem rows_of_parts (leaf : LeafInfo) : ∀ (parts : List (List Entry)),
    (∀ p ∈ parts, ∀ e ∈ p, wellFormedEntry leaf e = true) →
    (∀ p ∈ (parts.map decodedOfEntries).map (fun d => some (cursorPage d)),
        ∃ q, p = some q ∧ PageOk leaf.maxDef q) ∧
    (rowsOfPages leaf.maxDef ((parts.map decodedOfEntries).map (fun d => some (cursorPage d)))).map (·.defLevel) =
      parts.flatten.map (·.dl) ∧
    (rowsOfPages leaf.maxDef ((parts.map decodedOfEntries).map (fun d => some (cursorPage d)))).map (·.repLevel) =
      parts.flatten.map (·.rep) ∧
    (rowsOfPages leaf.maxDef ((parts.map decodedOfEntries).map (fun d => some (cursorPage d)))).filterMap (·.val) =
      parts.flatten.filterMap (·.val) ∧
    (rowsOfPages leaf.maxDef ((parts.map decodedOfEntries).map (fun d => some (cursorPage d)))).length = parts.flatten.length
  | [], _ => by simp [rowsOfPages]
  | p :: r, h => by
    have hwf := h p (by simp)
    obtain ⟨i1, i2, i3, i4, i5⟩ := rows_of_parts leaf r (fun x hx => h x (by simp [hx]))
    have hok := pageOk_entries leaf p hwf
    have hl : (cursorPage (decodedOfEntries p)).defs.length ≤ (cursorPage (decodedOfEntries p)).reps.length := by
      rw [hok.1]; exact Nat.le_refl _
    have hv : nn leaf.maxDef (cursorPage (decodedOfEntries p)).defs ≤ (cursorPage (decodedOfEntries p)).vals.length := by
      rw [hok.2.1]; exact Nat.le_refl _
    refine ⟨?_, ?_, ?_, ?_, ?_⟩
    · intro x hx
      simp only [List.map_cons, List.mem_cons] at hx
      rcases hx with rfl | hx
      · exact ⟨_, rfl, hok⟩
      · exact i1 x hx
    · simp only [List.map_cons, rowsOfPages, List.map_append, i2, List.flatten_cons]
      unfold rowsOfPage
      rw [map_def_pageRows _ _ _ _ hl]
      rfl
    · simp only [List.map_cons, rowsOfPages, List.map_append, i3, List.flatten_cons]
      unfold rowsOfPage
      rw [map_rep_pageRows _ _ _ _ hl]
      simp only [cursorPage, decodedOfEntries, List.length_map]
      rw [List.take_of_length_le (by simp)]
    · simp only [List.map_cons, rowsOfPages, List.filterMap_append, i4, List.flatten_cons]
      unfold rowsOfPage
      rw [filterMap_val_pageRows _ _ _ _ hl hv, ← hok.2.1, List.take_length]
      rfl
    · simp only [List.map_cons, rowsOfPages, List.length_append, i5, List.flatten_cons]
      unfold rowsOfPage
      rw [length_pageRows _ _ _ _ hl]
      simp [cursorPage, decodedOfEntries]

theorem fill_nil_zero {β : Type} : fill ([] : List β) 0 = [] := by simp [fill]

/-- **the column reader over the decoded pages**: one `read_batch` of all entries -/
theorem readBatch_parts (leaf : LeafInfo) (ch : ColumnReader.Chunk Bytes) (parts : List (List Entry))
    (hparts : ∀ p ∈ parts, ∀ e ∈ p, wellFormedEntry leaf e = true)
    (hpages : ch.pages = (parts.map decodedOfEntries).map (fun d => some (cursorPage d)))
    (hmd : ch.maxDef = leaf.maxDef) (hnv : ch.numValues = (parts.flatten.length : Int))
    (hsmall : parts.flatten.length < 2147483648) (wd wr : Bool) :
    ∃ rows, ResOk wd wr parts.flatten.length
        (ColumnReader.readBatch ColumnReader.Fixes.all (ColumnReader.getColumn ch) ch.numValues wd wr).2 rows ∧
      rows.map (·.defLevel) = parts.flatten.map (·.dl) ∧ rows.map (·.repLevel) = parts.flatten.map (·.rep) ∧
      rows.filterMap (·.val) = parts.flatten.filterMap (·.val) ∧ rows.length = parts.flatten.length ∧
      ∀ row ∈ rows, Row.WF leaf.maxDef row := by
  obtain ⟨h1, h2, h3, h4, h5⟩ := rows_of_parts leaf parts hparts
  have hrows : chunkRows ch = rowsOfPages leaf.maxDef ((parts.map decodedOfEntries).map (fun d => some (cursorPage d))) := by
    unfold chunkRows; rw [hpages, hmd]
  have hok : ChunkOk ch := by
    refine ⟨?_, ?_⟩
    · rw [hpages, hmd]; exact h1
    · rw [hrows, h5, hnv]
  have hinv := inv_getColumn ch hok
  have hpend := pending_getColumn ch
  have hwf : ∀ row ∈ chunkRows ch, Row.WF leaf.maxDef row := by
    have := pending_wf _ hinv
    rw [hpend] at this
    intro row hrow
    have := this row hrow
    rwa [show (ColumnReader.getColumn ch).chunk.maxDef = leaf.maxDef from hmd] at this
  refine ⟨chunkRows ch, ?_, by rw [hrows, h2], by rw [hrows, h3], by rw [hrows, h4], by rw [hrows, h5], hwf⟩
  rw [hnv]
  by_cases h0 : parts.flatten.length = 0
  · obtain ⟨r', hz, _⟩ := readBatch_zero (ColumnReader.getColumn ch) hinv wd wr
    have hr0 : chunkRows ch = [] := by
      apply List.eq_nil_of_length_eq_zero; rw [hrows, h5, h0]
    rw [h0]
    simp only [Int.natCast_zero] at hz ⊢
    rw [hz, hr0]
    refine ⟨rfl, ?_, ?_, ?_, rfl⟩
    · cases wd <;> simp [fill]
    · cases wr <;> simp [fill]
    · simp [fill]
  · obtain ⟨r', res, heq, _, _, _, hres⟩ := readBatch_ok (ColumnReader.getColumn ch) hinv parts.flatten.length (by omega) hsmall
      wd wr
    rw [hpend, List.take_of_length_le (by rw [hrows, h5]; exact Nat.le_refl _)] at hres
    rw [heq]
    exact hres

/-! ### the chunk -/

/-- the pages the iteration loads, in terms of the entries they stand for -/
theorem livePages_parts (ps : List (RPage × Decoded)) (parts : List (List Entry))
    (hmap : ps.map (·.2) = parts.map decodedOfEntries) :
    (livePages ps).map (fun q => some (cursorPage q.2)) =
      ((liveBy List.length parts).map decodedOfEntries).map (fun d => some (cursorPage d)) := by
  have h1 : (livePages ps).map (·.2) = liveBy (fun d : Decoded => d.defs.length) (ps.map (·.2)) :=
    (liveBy_map (fun q : RPage × Decoded => q.2.defs.length) (fun d : Decoded => d.defs.length) (·.2) (fun _ => rfl) ps).symm
  have h2 : liveBy (fun d : Decoded => d.defs.length) (parts.map decodedOfEntries) =
      (liveBy List.length parts).map decodedOfEntries :=
    liveBy_map List.length (fun d : Decoded => d.defs.length) decodedOfEntries (fun p => by simp [decodedOfEntries]) parts
  rw [← h2, ← hmap, ← h1, List.map_map]
  rfl

/-- what `C06_impl_reads_reference` asks of one chunk beyond admissibility: carquet's limits -/
structure ChunkClaim (mode : Mode) (leaf : LeafInfo) (cl : ChunkLayout) (es : Chunk) : Prop where
  adm : ChunkAdm cl
  depth : chunkExtrasDepthOk cl = true
  noBoolDict : cl.dict.isSome = true → leaf.ptype ≠ .boolean
  leafOk : LeafHyp leaf
  window : mode = .fread → chunkWindowOk leaf cl es = true

theorem pagesBytes_length_ge : ∀ (ps : List (RPage × Decoded)) (L : Libs) (verify : Bool) (mode : Mode) (c : Col) (dict : Option Dict),
    (∀ q ∈ ps, DataPageOk L verify mode c dict q.1 q.2) → ps.length ≤ (pagesBytes ps).length
  | [], _, _, _, _, _, _ => by simp
  | q :: r, L, verify, mode, c, dict, h => by
    have ih := pagesBytes_length_ge r L verify mode c dict (fun x hx => h x (by simp [hx]))
    have hq := h q (by simp)
    have hpos : 1 ≤ q.1.hb.length := by
      have := hq.parses.any []
      exact Carquet.Proofs.ReaderSteps.parsePageHeaderC_size _ _ this
    rw [pagesBytes_cons]
    simp only [RPage.bytes, List.length_append, List.length_cons]
    omega

/-- **one chunk, read completely**, in any mode, with or without level arrays -/
theorem chunk_read (L : Libs) (verify : Bool) (mode : Mode) (leaf : LeafInfo) (cl : ChunkLayout) (es : Chunk) (pos : Nat)
    (c : ChunkOut) (cm : ThriftParquet.ColumnMetaData)
    (hw : writeChunk leaf cl es pos = some c) (hclaim : ChunkClaim mode leaf cl es)
    (hcm1 : cm.codec = (cl.codec : Int)) (hcm2 : cm.numValues = (es.length : Int))
    (hcm3 : cm.dictionaryPageOffset =
      match cl.dict with
      | some d => if d.offsetPresent then some ((pos + cl.gapBefore.length : Nat) : Int) else none
      | none => none)
    (hcm4 : (∀ d, cl.dict = some d → d.offsetPresent = false) → cm.dataPageOffset = ((pos + cl.gapBefore.length : Nat) : Int))
    (pre post : Bytes) (hpre : pre.length = pos) (hpost : 8 ≤ post.length)
    (hlen : c.bytes.length < 2 ^ 31) (hus : chunkUsizeOk c.cmeta = true) (hes : es.length < 2 ^ 31)
    (hfile : (pre ++ c.bytes ++ post).length < 2 ^ 64)
    (hL : LibsDecode L c.oracle) (wd wr : Bool) :
    ∃ rows, ResOk wd wr es.length
        (ColumnReader.readBatch ColumnReader.Fixes.all
          (ColumnReader.getColumn (chunkOf Fixes.all L verify mode (pre ++ c.bytes ++ post) (colOfLeaf leaf cm)))
          (colOfLeaf leaf cm).cm.numValues wd wr).2 rows ∧
      rows.map (·.defLevel) = es.map (·.dl) ∧ rows.map (·.repLevel) = es.map (·.rep) ∧
      rows.filterMap (·.val) = es.filterMap (·.val) ∧ rows.length = es.length ∧
      ∀ row ∈ rows, Row.WF leaf.maxDef row := by
  have hcl := hclaim.adm
  obtain ⟨dp, pages, hdp, hpages, hwfc, hcodecs, hdictc, hbytes, hmeta, horacle, hend⟩ := writeChunk_adm hcl hw
  have hdok := Carquet.Proofs.SpecFile.chunkDesc_ok leaf cl es pos dp pages hcl
  have husz : dp.usize + pages.usize < 2 ^ 31 :=
    Carquet.Proofs.SpecFile.chunkUsizeOk_desc _ hdok (by rw [← hmeta]; exact hus)
  have hwf : ∀ e ∈ es, wellFormedEntry leaf e = true := by
    unfold wellFormedChunk at hwfc
    simp only [Bool.and_eq_true, List.all_eq_true] at hwfc
    exact hwfc.1
  rw [hbytes] at hlen hfile ⊢
  simp only [List.length_append] at hlen
  rw [horacle] at hL
  have hcolv := colValid_leaf leaf cm hclaim.leafOk.flba
  have hdepth := hclaim.depth
  unfold Carquet.Impl.Reader.Claim.chunkExtrasDepthOk at hdepth
  simp only [Bool.and_eq_true, List.all_eq_true] at hdepth
  obtain ⟨⟨⟨_, _⟩, hpd⟩, hdd⟩ := hdepth
  have hpl : ∀ pl ∈ cl.pages, PageAdm pl ∧ pl.comp.codec = cl.codec ∧ pageExtrasDepthOk pl = true :=
    fun pl hpl' => ⟨hcl.pages pl hpl', hcodecs pl hpl', hpd pl hpl'⟩
  -- the file around the chunk
  have hfile' : pre ++ (cl.gapBefore ++ dp.bytes ++ pages.bytes) ++ post = (pre ++ cl.gapBefore) ++ dp.bytes ++ pages.bytes ++ post := by
    simp [List.append_assoc]
  have hstartlen : (pre ++ cl.gapBefore).length = pos + cl.gapBefore.length := by simp [hpre]
  -- dictionary and data pages
  cases hdict : cl.dict with
  | none =>
    rw [hdict] at hdp hpages hcm3
    simp only [Option.some.injEq] at hdp
    subst hdp
    simp only [Option.map_none, List.length_nil, Nat.zero_add, List.nil_append, List.append_nil] at hpages hlen husz hL
    have hwin : mode = .fread → pagesWindowOk leaf none cl.pages es = true := by
      intro hm
      have := hclaim.window hm
      simp only [Carquet.Impl.Reader.Claim.chunkWindowOk, hdict, Bool.true_and, Option.map_none] at this
      exact this
    obtain ⟨ps, parts, hb, hparts, hmap, hpslen, hall⟩ := dataPages_ok L verify mode leaf cm cl.codec none hcm1 (DictHyp.none leaf)
      hclaim.leafOk cl.pages es pages hpl hpages hwf (by omega) (by omega) hes
      (hL.mono (fun e he => by simp [he])) hwin
    have hstart : ChunkStart L verify mode (colOfLeaf leaf cm) (pre ++ cl.gapBefore) none :=
      .plain (by simp [colOfLeaf, hcm3]) (by
        simp only [colOfLeaf, hstartlen]
        exact hcm4 (fun d hd => by rw [hdict] at hd; cases hd))
    have hcount : pagesCount ps = es.length := by
      unfold pagesCount
      have : ps.map (fun q => q.2.defs.length) = (ps.map (·.2)).map (fun d => d.defs.length) := by simp [List.map_map]
      rw [this, hmap, ← hparts]
      simp [decodedOfEntries, List.length_flatten, List.map_map, Function.comp_def]
    have hfuel := pagesBytes_length_ge ps L verify mode _ _ hall
    have hchunk := chunkPages_chunk L verify mode (colOfLeaf leaf cm) hcolv none ps (pre ++ cl.gapBefore) post hstart hall
      (by simp only [colOfLeaf, hcm2, hcount]) hpost
      (by simp only [dictBytes, List.append_nil, ← hb]; rw [hfile'] at hfile; simpa using hfile)
      ((pre ++ cl.gapBefore ++ dictBytes none ++ pagesBytes ps ++ post).length + 1)
      (by simp only [List.length_append]; omega)
    have hfeq : pre ++ (cl.gapBefore ++ [] ++ pages.bytes) ++ post = pre ++ cl.gapBefore ++ dictBytes none ++ pagesBytes ps ++ post := by
      simp [dictBytes, hb, List.append_assoc]
    have hpg : (chunkOf Fixes.all L verify mode (pre ++ (cl.gapBefore ++ [] ++ pages.bytes) ++ post) (colOfLeaf leaf cm)).pages =
        ((liveBy List.length parts).map decodedOfEntries).map (fun d => some (cursorPage d)) := by
      unfold chunkOf
      simp only
      rw [hfeq, hchunk, livePages_parts ps parts hmap, List.map_map]
    have hpartsOk : ∀ p ∈ liveBy List.length parts, ∀ e ∈ p, wellFormedEntry leaf e = true := by
      intro p hp e he
      exact hwf e (by rw [← hparts]; exact List.mem_flatten.mpr ⟨p, liveBy_mem _ _ _ hp, he⟩)
    have hparts' : (liveBy List.length parts).flatten = es := by rw [liveBy_flatten, hparts]
    have := readBatch_parts leaf (chunkOf Fixes.all L verify mode (pre ++ (cl.gapBefore ++ [] ++ pages.bytes) ++ post) (colOfLeaf leaf cm))
      (liveBy List.length parts) hpartsOk hpg rfl (by simp only [chunkOf, colOfLeaf, hcm2, hparts']) (by rw [hparts']; omega) wd wr
    rw [hparts'] at this
    exact this
  | some d =>
    rw [hdict] at hdp hpages hcm3
    simp only [Option.map_some] at hpages
    simp only at hdp
    obtain ⟨hdc, hvalid⟩ := hdictc d hdict
    have hdadm := hcl.dict d hdict
    have hnb := hclaim.noBoolDict (by rw [hdict]; rfl)
    have hdd' : dictExtrasDepthOk d = true := by rw [hdict] at hdd; exact hdd
    have hbody_le := Carquet.Proofs.SpecFile.writeDictPage_body_le hdadm hdp
    have hdicthyp : DictHyp leaf (some d.values) :=
      ⟨fun d' hd' => by cases hd'; exact hvalid, fun d' hd' => by cases hd'; exact ⟨by omega, hdadm.count⟩, fun _ => hnb⟩
    have hwinD : mode = .fread → pageWindowOk dp.bytes = true := by
      intro hm
      have := hclaim.window hm
      simp only [Carquet.Impl.Reader.Claim.chunkWindowOk, hdict, hdp, Bool.and_eq_true] at this
      exact this.1
    have hwinP : mode = .fread → pagesWindowOk leaf (some d.values) cl.pages es = true := by
      intro hm
      have := hclaim.window hm
      simp only [Carquet.Impl.Reader.Claim.chunkWindowOk, hdict, hdp, Bool.and_eq_true, Option.map_some] at this
      exact this.2
    obtain ⟨dpage, hdpb, hdpok⟩ := dictPage_ok L verify mode leaf cm cl.codec d dp hdadm hdc hcm1 hdd' hdp hvalid hnb hclaim.leafOk
      (by omega) (by omega) (hL.mono (fun e he => by simp [he])) hwinD
    obtain ⟨ps, parts, hb, hparts, hmap, hpslen, hall⟩ := dataPages_ok L verify mode leaf cm cl.codec (some d.values) hcm1 hdicthyp
      hclaim.leafOk cl.pages es pages hpl hpages hwf (by omega) (by omega) hes
      (hL.mono (fun e he => by simp [he])) hwinP
    have hstart : ChunkStart L verify mode (colOfLeaf leaf cm) (pre ++ cl.gapBefore) (some (dpage, dictOf leaf d.values)) := by
      cases hop : d.offsetPresent with
      | true =>
        refine .offset dpage _ hdpok ?_
        simp only [colOfLeaf, hcm3, hop, if_true, hstartlen]
      | false =>
        refine .inline dpage _ hdpok ?_ ?_
        · simp [colOfLeaf, hcm3, hop]
        · simp only [colOfLeaf, hstartlen]
          exact hcm4 (fun d' hd' => by rw [hdict] at hd'; cases hd'; exact hop)
    have hcount : pagesCount ps = es.length := by
      unfold pagesCount
      have : ps.map (fun q => q.2.defs.length) = (ps.map (·.2)).map (fun d => d.defs.length) := by simp [List.map_map]
      rw [this, hmap, ← hparts]
      simp [decodedOfEntries, List.length_flatten, List.map_map, Function.comp_def]
    have hfuel := pagesBytes_length_ge ps L verify mode _ _ hall
    have hfeq : pre ++ (cl.gapBefore ++ dp.bytes ++ pages.bytes) ++ post =
        pre ++ cl.gapBefore ++ dictBytes (some (dpage, dictOf leaf d.values)) ++ pagesBytes ps ++ post := by
      simp [dictBytes, hb, hdpb, List.append_assoc]
    have hchunk := chunkPages_chunk L verify mode (colOfLeaf leaf cm) hcolv (some (dpage, dictOf leaf d.values)) ps
      (pre ++ cl.gapBefore) post hstart hall
      (by simp only [colOfLeaf, hcm2, hcount]) hpost (by rw [← hfeq]; exact hfile)
      ((pre ++ cl.gapBefore ++ dictBytes (some (dpage, dictOf leaf d.values)) ++ pagesBytes ps ++ post).length + 1)
      (by simp only [List.length_append]; omega)
    have hpg : (chunkOf Fixes.all L verify mode (pre ++ (cl.gapBefore ++ dp.bytes ++ pages.bytes) ++ post) (colOfLeaf leaf cm)).pages =
        ((liveBy List.length parts).map decodedOfEntries).map (fun d => some (cursorPage d)) := by
      unfold chunkOf
      simp only
      rw [hfeq, hchunk, livePages_parts ps parts hmap, List.map_map]
    have hpartsOk : ∀ p ∈ liveBy List.length parts, ∀ e ∈ p, wellFormedEntry leaf e = true := by
      intro p hp e he
      exact hwf e (by rw [← hparts]; exact List.mem_flatten.mpr ⟨p, liveBy_mem _ _ _ hp, he⟩)
    have hparts' : (liveBy List.length parts).flatten = es := by rw [liveBy_flatten, hparts]
    have := readBatch_parts leaf (chunkOf Fixes.all L verify mode (pre ++ (cl.gapBefore ++ dp.bytes ++ pages.bytes) ++ post) (colOfLeaf leaf cm))
      (liveBy List.length parts) hpartsOk hpg rfl (by simp only [chunkOf, colOfLeaf, hcm2, hparts']) (by rw [hparts']; omega) wd wr
    rw [hparts'] at this
    exact this

end Carquet.Proofs.ImplReads
