import Carquet.Proofs.ImplReadsLoad
import Carquet.Proofs.ImplReadsValues
import Carquet.Proofs.ImplReadsCodec
import Carquet.Proofs.ImplReadsHeader
import Carquet.Proofs.SpecFileWholeFull
import Carquet.Proofs.RoundtripChunk
import Carquet.Proofs.Crc32Damage
import Carquet.Proofs.ImplReadsPrefix
/-
C06, implementation half — stage "one chunk": a column chunk as the reference writer lays it out
(`writeChunk`: gap, optional dictionary page, data pages) is, for carquet's reader model, a chunk whose
page iteration delivers the entries' levels and dense values page by page (`chunkPages_chunk` with the
stage lemmas for header, stored body and values), and ONE `carquet_column_read_batch` of `num_values`
entries on the column reader `get_column` creates returns them all.
-/
namespace Carquet.Proofs.ImplReads
open Carquet.Spec Carquet.Spec.File Carquet.Spec.Thrift
open Carquet.Impl
open Carquet.Impl.Reader hiding Bytes
open Carquet.Impl.ThriftParquetReq (PageHdr parsePageHeaderC)
open Carquet.Proofs.SpecFile (PageAdm DictAdm ChunkAdm dataPageHdrTV dictPageHdrTV writeDataPage_adm writeDictPage_adm
  writeChunk_adm)
open Carquet.Proofs.ReaderPlain (ColValid)

/-! ### the fread window, as a decidable check on the written page -/

theorem windowOk_sound (hb : Bytes) (h : windowOk hb = true) : WindowOk hb := by
  unfold Carquet.Impl.Reader.Claim.windowOk at h
  simp only [Bool.and_eq_true, decide_eq_true_eq, List.all_eq_true, List.mem_range, Bool.or_eq_true] at h
  refine ⟨h.1, ?_⟩
  intro k hk
  have hk16 : k < 16 := pow_window_lt hk h.1
  rcases h.2 k hk16 with h1 | h1
  · omega
  · cases hp : parsePageHeaderC (hb.take (256 * 2 ^ k)) with
    | error e => exact ⟨e, rfl⟩
    | ok r => rw [hp] at h1; cases h1

theorem pageWindow_sound (hb comp : Bytes) (hdr : ThriftParquetReq.PageHdr)
    (hany : ∀ rest, parsePageHeaderC (hb ++ rest) = .ok (hdr, hb.length)) (h : pageWindowOk (hb ++ comp) = true) :
    WindowOk hb := by
  unfold Carquet.Impl.Reader.Claim.pageWindowOk at h
  rw [hany comp] at h
  exact windowOk_of_any hb hdr (by simpa using h) hany

/-! ### the checksum -/

theorem crcBad_crcField (verify withCrc : Bool) (comp : Bytes) :
    crcBad verify (if withCrc then some (crcField comp) else none) comp = false := by
  cases withCrc with
  | false => rfl
  | true =>
    simp only [if_true]
    apply Carquet.Proofs.ReaderCrc.crcBad_clean
    rw [Carquet.Proofs.Crc32.impl_crc32_eq]
    unfold crcField
    have hlt := (Carquet.Spec.Crc32.crc32 comp).isLt
    split <;> omega

/-! ### one data page -/

theorem ptypeCode_flba (t : Order.PType) : (ptypeCode t : Int) = 7 → t = .flba := by
  cases t <;> simp [ptypeCode]

theorem colValid_leaf (leaf : LeafInfo) (cm : ThriftParquet.ColumnMetaData) (h : leaf.ptype = .flba → 0 < leaf.typeLength) :
    ColValid (colOfLeaf leaf cm) := by
  intro h7
  simp only [colOfLeaf] at h7 ⊢
  have := h (ptypeCode_flba _ h7)
  omega

/-- what the stage lemmas need of the dictionary a chunk carries -/
structure DictHyp (leaf : LeafInfo) (dict : Option (List Bytes)) : Prop where
  valid : ∀ d, dict = some d → ∀ v ∈ d, validValue leaf v = true
  size : ∀ d, dict = some d → (plainEncode leaf d).length < 2 ^ 31 ∧ d.length < 2 ^ 31
  noBool : dict.isSome = true → leaf.ptype ≠ .boolean

theorem DictHyp.none (leaf : LeafInfo) : DictHyp leaf none :=
  ⟨(fun _ h => by cases h), (fun _ h => by cases h), (fun h => by cases h)⟩

structure LeafHyp (leaf : LeafInfo) : Prop where
  flba : leaf.ptype = .flba → 0 < leaf.typeLength
  levels : leaf.maxDef < 32768 ∧ leaf.maxRep < 32768

/-- **one data page** of the reference writer is, for the loaders, a page that decodes to its entries -/
theorem dataPage_ok (L : Libs) (verify : Bool) (mode : Mode) (leaf : LeafInfo) (cm : ThriftParquet.ColumnMetaData) (codec : Nat)
    (dict : Option (List Bytes)) (pl : PageLayout) (es : List Entry) (a : Written)
    (hp : PageAdm pl) (hcodec : pl.comp.codec = codec) (hcm : cm.codec = (codec : Int))
    (hdepth : pageExtrasDepthOk pl = true) (hw : writeDataPage leaf dict pl es = some a)
    (hwf : ∀ e ∈ es, wellFormedEntry leaf e = true)
    (hlen : a.bytes.length < 2 ^ 31) (hus : a.usize < 2 ^ 31) (hes : es.length < 2 ^ 31)
    (hdict : DictHyp leaf dict) (hleaf : LeafHyp leaf) (hL : LibsDecode L a.oracle)
    (hwin : mode = .fread → pageWindowOk a.bytes = true) :
    ∃ p : RPage, a.bytes = p.bytes ∧
      DataPageOk L verify mode (colOfLeaf leaf cm) (dict.map (dictOf leaf)) p (decodedOfEntries es) := by
  obtain ⟨repB, defB, valB, comp, hr, hd, hv, hc, hbytes, horacle, husize⟩ := writeDataPage_adm hp hw
  have hge := Carquet.Proofs.SpecFile.v1Body_length_ge leaf es repB defB valB
    (fun h0 => by rw [h0] at hr; exact Carquet.Proofs.SpecFile.levelBytes_zero hr)
    (fun h0 => by rw [h0] at hd; exact Carquet.Proofs.SpecFile.levelBytes_zero hd)
  have hvals : ∀ v ∈ es.filterMap (·.val), validValue leaf v = true := by
    intro v hv
    obtain ⟨e, he, hev⟩ := List.mem_filterMap.mp hv
    have := hwf e he
    unfold wellFormedEntry at this
    rw [hev] at this
    simp only [Bool.and_eq_true] at this
    exact this.2.2
  have hbody : (v1Body leaf .v1 es repB defB valB).length < 2 ^ 31 := by omega
  have hcomp : comp.length < 2 ^ 31 := by
    rw [hbytes] at hlen; simp only [List.length_append] at hlen; omega
  have hdv : ∀ d, dict = some d → ∀ v ∈ d, v.length < 2 ^ 31 := fun d hd' =>
    Carquet.Proofs.SpecFile.value_length_lt leaf d (hdict.valid d hd') (hdict.size d hd').1
  have hvl := Carquet.Proofs.SpecFile.page_values_small leaf dict pl.values (es.filterMap (·.val)) valB hv hp.values hvals
    (by omega) hdv
  have hst := Carquet.Proofs.SpecFile.statsFor_ok leaf pl.stats (es.map (·.dl)) (es.filterMap (·.val)) hvl (by simp; omega)
  have hdwf := Carquet.Proofs.SpecFile.dataHdrTV_wf es.length (valueEncTag pl.values)
    (statsFor leaf pl.stats (es.map (·.dl)) (es.filterMap (·.val))) pl.statsExtra pl.memberExtra hes
    (Carquet.Proofs.SpecFile.valueEncTag_inI32 hp.values) hst hp.statsExtraWf hp.memberExtraWf
  have hpwf : (dataPageHdrTV leaf pl es (v1Body leaf .v1 es repB defB valB).length comp).wf = true := by
    unfold dataPageHdrTV
    exact Carquet.Proofs.SpecFile.pageHdrTV_wf 0 _ comp.length (if pl.crc then some (crcField comp) else none) 5 _
      pl.hdrExtra (by unfold inI32; omega) hbody hcomp (Carquet.Proofs.SpecFile.crc_inI32 pl.crc comp) (by unfold inI16; omega)
      hdwf hp.hdrExtraWf
  have hparse := parse_dataPageHdr leaf pl es (v1Body leaf .v1 es repB defB valB).length comp hp hdepth hpwf
  generalize hhb : encodeValF pl.form (dataPageHdrTV leaf pl es (v1Body leaf .v1 es repB defB valB).length comp) = hb at *
  refine ⟨⟨hb, comp, ⟨0, ((v1Body leaf .v1 es repB defB valB).length : Int), (comp.length : Int),
    (if pl.crc then some (crcField comp) else none), (es.length : Int), valueEncTag pl.values⟩⟩, hbytes, ?_⟩
  have hdl : (decodedOfEntries es).defs.length = es.length := by simp [decodedOfEntries]
  refine ⟨⟨hparse, rfl, by simp, ?_⟩, rfl, by simp [decodedOfEntries], crcBad_crcField verify pl.crc comp, ?_, ?_⟩
  · intro hm
    exact pageWindow_sound hb comp ⟨0, ((v1Body leaf .v1 es repB defB valB).length : Int), (comp.length : Int),
      (if pl.crc then some (crcField comp) else none), (es.length : Int), valueEncTag pl.values⟩ hparse
      (by rw [← hbytes]; exact hwin hm)
  · refine ⟨v1Body leaf .v1 es repB defB valB, ?_, ?_⟩
    · simp only [colOfLeaf, hcm, Int.toNat_natCast, ← hcodec]
      exact pageData_compressWith L pl.comp _ comp hc hp.comp (by rw [← horacle]; exact hL) hbody
    · rw [hdl]
      simp only
      exact readDataPageV1_written leaf cm dict pl.values es pl.repRuns pl.defRuns repB defB valB hr hd hv hp.values hwf
        hdict.valid
        (fun tag w runs he => hdict.noBool (by
          cases dict with
          | none => rw [he] at hv; simp [valueBytes] at hv
          | some d => rfl))
        hleaf.flba hleaf.levels hbody hdict.size
  · intro h0
    rw [hdl] at h0
    rw [List.eq_nil_of_length_eq_zero h0]; rfl

/-! ### the data pages of a chunk -/

theorem take_drop_parts {α : Type} (n : Nat) (es : List α) (parts : List (List α)) (h : parts.flatten = es.drop n) :
    (es.take n :: parts).flatten = es := by
  simp [h]

/-- **the data pages** the reference writer lays out back to back are, for the loaders, a list of pages
each decoding to its share of the entries (a page may hold none, F63) -/
theorem dataPages_ok (L : Libs) (verify : Bool) (mode : Mode) (leaf : LeafInfo) (cm : ThriftParquet.ColumnMetaData) (codec : Nat)
    (dict : Option (List Bytes)) (hcm : cm.codec = (codec : Int)) (hdict : DictHyp leaf dict) (hleaf : LeafHyp leaf) :
    ∀ (pls : List PageLayout) (es : List Entry) (w : Written),
      (∀ pl ∈ pls, PageAdm pl ∧ pl.comp.codec = codec ∧ pageExtrasDepthOk pl = true) →
      writeDataPages leaf dict pls es = some w →
      (∀ e ∈ es, wellFormedEntry leaf e = true) → w.bytes.length < 2 ^ 31 → w.usize < 2 ^ 31 → es.length < 2 ^ 31 →
      LibsDecode L w.oracle → (mode = .fread → pagesWindowOk leaf dict pls es = true) →
      ∃ (ps : List (RPage × Decoded)) (parts : List (List Entry)), w.bytes = pagesBytes ps ∧ parts.flatten = es ∧
        ps.map (·.2) = parts.map decodedOfEntries ∧ ps.length = pls.length ∧
        ∀ q ∈ ps, DataPageOk L verify mode (colOfLeaf leaf cm) (dict.map (dictOf leaf)) q.1 q.2
  | [], es, w, _, hw, _, _, _, _, _, _ => by
    simp only [writeDataPages] at hw
    split at hw
    · rename_i he
      cases hw
      exact ⟨[], [], rfl, by simp [he], rfl, rfl, fun q hq => by cases hq⟩
    · cases hw
  | pl :: r, es, w, hpl, hw, hwf, hlen, hus, hes, hL, hwin => by
    simp only [writeDataPages] at hw
    split at hw
    · cases hw
    · rename_i hcount
      cases h1 : writeDataPage leaf dict pl (es.take pl.count) with
      | none => simp [h1] at hw
      | some a =>
        cases h2 : writeDataPages leaf dict r (es.drop pl.count) with
        | none => simp [h1, h2] at hw
        | some b =>
          simp only [h1, h2, Option.some.injEq] at hw
          subst hw
          simp only [List.length_append] at hlen
          simp only at hus hL
          obtain ⟨hadm, hcodec, hdepth⟩ := hpl pl (by simp)
          have hwin1 : mode = .fread → pageWindowOk a.bytes = true := by
            intro hm
            have := hwin hm
            simp only [Carquet.Impl.Reader.Claim.pagesWindowOk, h1, Bool.and_eq_true] at this
            exact this.1
          have hwin2 : mode = .fread → pagesWindowOk leaf dict r (es.drop pl.count) = true := by
            intro hm
            have := hwin hm
            simp only [Carquet.Impl.Reader.Claim.pagesWindowOk, h1, Bool.and_eq_true] at this
            exact this.2
          obtain ⟨p, hpb, hpok⟩ := dataPage_ok L verify mode leaf cm codec dict pl (es.take pl.count) a hadm hcodec hcm hdepth h1
            (fun e he => hwf e (List.mem_of_mem_take he)) (by omega) (by omega) (by simp; omega) hdict hleaf
            (hL.mono (fun e he => by simp [he])) hwin1
          obtain ⟨ps, parts, hb, hparts, hmap, hlen', hall⟩ := dataPages_ok L verify mode leaf cm codec dict hcm hdict hleaf r
            (es.drop pl.count) b (fun x hx => hpl x (by simp [hx])) h2 (fun e he => hwf e (List.mem_of_mem_drop he))
            (by omega) (by omega) (by simp; omega) (hL.mono (fun e he => by simp [he])) hwin2
          refine ⟨(p, decodedOfEntries (es.take pl.count)) :: ps, es.take pl.count :: parts, ?_, ?_, ?_, ?_, ?_⟩
          · rw [pagesBytes_cons, ← hpb, ← hb]
          · exact take_drop_parts pl.count es parts hparts
          · simp [hmap]
          · simp [hlen']
          · intro q hq
            rcases List.mem_cons.mp hq with rfl | hq'
            · exact hpok
            · exact hall q hq'

/-! ### the dictionary page -/

theorem dictPage_ok (L : Libs) (verify : Bool) (mode : Mode) (leaf : LeafInfo) (cm : ThriftParquet.ColumnMetaData) (codec : Nat)
    (dl : DictLayout) (a : Written) (hd : DictAdm dl) (hcodec : dl.comp.codec = codec) (hcm : cm.codec = (codec : Int))
    (hdepth : dictExtrasDepthOk dl = true) (hw : writeDictPage leaf dl = some a)
    (hvalid : ∀ v ∈ dl.values, validValue leaf v = true) (hnb : leaf.ptype ≠ .boolean) (hleaf : LeafHyp leaf)
    (hlen : a.bytes.length < 2 ^ 31) (hus : a.usize < 2 ^ 31) (hL : LibsDecode L a.oracle)
    (hwin : mode = .fread → pageWindowOk a.bytes = true) :
    ∃ p : RPage, a.bytes = p.bytes ∧ DictPageOk L verify mode (colOfLeaf leaf cm) p (dictOf leaf dl.values) := by
  obtain ⟨comp, hc, hbytes, horacle, husize⟩ := writeDictPage_adm hd hw
  have hbody : (plainEncode leaf dl.values).length < 2 ^ 31 := by omega
  have hcomp : comp.length < 2 ^ 31 := by
    rw [hbytes] at hlen; simp only [List.length_append] at hlen; omega
  have henc : inI32 (dl.encoding : Int) := by
    unfold inI32; rcases hd.encoding with h | h <;> rw [h] <;> decide
  have hkwf := Carquet.Proofs.SpecFile.dictHdrTV_wf dl.values.length dl.encoding dl.sorted dl.memberExtra hd.count henc
    hd.memberExtraWf
  have hpwf : (dictPageHdrTV leaf dl comp).wf = true := by
    unfold dictPageHdrTV
    exact Carquet.Proofs.SpecFile.pageHdrTV_wf 2 _ comp.length (if dl.crc then some (crcField comp) else none) 7 _
      dl.hdrExtra (by unfold inI32; omega) hbody hcomp (Carquet.Proofs.SpecFile.crc_inI32 dl.crc comp) (by unfold inI16; omega)
      hkwf hd.hdrExtraWf
  have hparse := parse_dictPageHdr leaf dl comp hd hdepth hpwf
  generalize hhb : encodeValF dl.form (dictPageHdrTV leaf dl comp) = hb at *
  refine ⟨⟨hb, comp, ⟨2, ((plainEncode leaf dl.values).length : Int), (comp.length : Int),
    (if dl.crc then some (crcField comp) else none), (dl.values.length : Int), (dl.encoding : Int)⟩⟩, hbytes, ?_⟩
  refine ⟨⟨hparse, rfl, by simp, ?_⟩, rfl, by simp, crcBad_crcField verify dl.crc comp, ?_⟩
  · intro hm
    exact pageWindow_sound hb comp ⟨2, ((plainEncode leaf dl.values).length : Int), (comp.length : Int),
      (if dl.crc then some (crcField comp) else none), (dl.values.length : Int), (dl.encoding : Int)⟩ hparse
      (by rw [← hbytes]; exact hwin hm)
  · refine ⟨plainEncode leaf dl.values, ?_, ?_⟩
    · simp only [colOfLeaf, hcm, Int.toNat_natCast, ← hcodec]
      exact pageData_compressWith L dl.comp _ comp hc hd.comp (by rw [← horacle]; exact hL) hbody
    · exact readDictionaryPage_written leaf cm dl.values hvalid hnb hleaf.flba hbody hd.count

/-! ### the column reader over the decoded pages -/

open Carquet.Proofs.Cursor in
theorem vals_length_nn (leaf : LeafInfo) : ∀ (es : List Entry), (∀ e ∈ es, wellFormedEntry leaf e = true) →
    (es.filterMap (·.val)).length = nn leaf.maxDef (es.map (·.dl))
  | [], _ => by simp [nn]
  | e :: r, hwf => by
    have he := hwf e (by simp)
    have ih := vals_length_nn leaf r (fun x hx => hwf x (by simp [hx]))
    unfold wellFormedEntry at he
    simp only [List.filterMap_cons, List.map_cons, nn_cons]
    cases hv : e.val with
    | none =>
      rw [hv] at he
      simp only [Bool.and_eq_true, decide_eq_true_eq] at he
      have : ¬ e.dl = leaf.maxDef := by omega
      simp only [this, if_false, Nat.zero_add]
      exact ih
    | some v =>
      rw [hv] at he
      simp only [Bool.and_eq_true, decide_eq_true_eq, beq_iff_eq] at he
      simp only [he.2.1, if_true, List.length_cons]
      omega

open Carquet.Proofs.Cursor in
theorem pageOk_entries (leaf : LeafInfo) (es : List Entry) (hwf : ∀ e ∈ es, wellFormedEntry leaf e = true) :
    PageOk leaf.maxDef (cursorPage (decodedOfEntries es)) := by
  unfold PageOk cursorPage decodedOfEntries
  simp only
  refine ⟨by simp, vals_length_nn leaf es hwf, ?_⟩
  intro d hd
  simp only [List.mem_map] at hd
  obtain ⟨e, he, rfl⟩ := hd
  have := hwf e he
  unfold wellFormedEntry at this
  simp only [Bool.and_eq_true, decide_eq_true_eq] at this
  exact this.1.2

end Carquet.Proofs.ImplReads
