import Carquet.Proofs.RoundtripFile
import Carquet.Proofs.CursorFile
/-
C01, file level — the batch-at-a-time API (through C02): for the chunk of row group `i`, column `j`
of a completed run, EVERY history of `read k | skip k | has_next | remaining | re-create` calls on
the column reader `get_column` creates returns what the index cursor (Spec.Cursor) returns over the
rows of that column of the table the history denotes (`tableRows`).
-/
namespace Carquet.Proofs.Roundtrip
open Carquet.Impl Carquet.Impl.Reader
open Carquet.Impl.Writer (ChunkMeta RgMeta FooterData PageRec Op readerDefs readerReps tableRows rowsOfLevels rowsOfLevelsR)
open Carquet.Proofs.SpecWriter Carquet.Proofs.WriterTable
open Carquet.Proofs.ReaderPageRoundtrip Carquet.Proofs.ReaderChunkRoundtrip
open Carquet.Proofs.Cursor

theorem rowsOfLevels_eq (maxDef : Nat) : ∀ (ds : List Nat) (vs : List Writer.Val),
    rowsOfLevels maxDef ds vs = pageRows maxDef ds (List.replicate ds.length 0) vs
  | [], _ => by simp [rowsOfLevels, pageRows]
  | d :: ds, vs => by
    simp only [rowsOfLevels, List.length_cons, List.replicate_succ, pageRows]
    split
    · cases vs with
      | nil => simp only [rowsOfLevels_eq maxDef ds []]
      | cons v vs' => simp only [rowsOfLevels_eq maxDef ds vs']
    · simp only [rowsOfLevels_eq maxDef ds vs]

theorem rowsOfLevelsR_eq (maxDef : Nat) : ∀ (ds rs : List Nat) (vs : List Writer.Val),
    rowsOfLevelsR maxDef ds rs vs = pageRows maxDef ds rs vs
  | [], _, _ => by simp [rowsOfLevelsR, pageRows]
  | _ :: _, [], _ => by simp [rowsOfLevelsR, pageRows]
  | d :: ds, r :: rs, vs => by
    simp only [rowsOfLevelsR, pageRows]
    split
    · cases vs with
      | nil => simp only [rowsOfLevelsR_eq maxDef ds rs []]
      | cons v vs' => simp only [rowsOfLevelsR_eq maxDef ds rs vs']
    · simp only [rowsOfLevelsR_eq maxDef ds rs vs]

/-- repetition levels of the written rows: the page builders' levels, page after page (all zero for
a column that is not REPEATED) -/
theorem writtenRows_reps (c : Writer.Col) : ∀ (ps : List PageRec), (∀ r ∈ ps, RecShape c r) →
    (writtenRows c ps).map (·.repLevel) =
      (if c.maxRep > 0 then (ps.map (·.src.reps)).flatten
       else List.replicate (Carquet.Proofs.ReaderChunkRoundtrip.sumRows ps) 0) := by
  intro ps
  induction ps with
  | nil => intro _; simp [writtenRows, rowsOfPages, Carquet.Proofs.ReaderChunkRoundtrip.sumRows]
  | cons r rest ih =>
    intro h
    have hr := h r (by simp)
    have hp := cursorPage_okS c r hr
    have hrows := decodedOf_rowsS c r hr
    rw [writtenRows_cons, List.map_append, ih (fun x hx => h x (List.mem_cons_of_mem _ hx))]
    unfold rowsOfPage
    rw [map_rep_pageRows _ _ _ _ (by rw [hp.1]; exact Nat.le_refl _), ← hp.1, List.take_length]
    by_cases hm : c.maxRep > 0
    · simp only [cursorPage, decodedOf, if_pos hm, List.map_cons, List.flatten_cons]
    · simp only [cursorPage, decodedOf, if_neg hm, Carquet.Proofs.ReaderChunkRoundtrip.sumRows, List.map_cons,
        List.sum_cons, hr.rows]
      rw [List.replicate_append_replicate]

/-- the rows the writer's pages of a chunk stand for are the rows of the column's content -/
theorem writtenRows_eq_tableRows (c : Writer.Col) (ps : List PageRec) (hall : ∀ r ∈ ps, RecShape c r) :
    writtenRows c ps = tableRows c (pagesData ps) := by
  have hsum : Carquet.Proofs.ReaderChunkRoundtrip.sumRows ps = (pagesData ps).rows := by
    unfold Carquet.Proofs.ReaderChunkRoundtrip.sumRows pagesData
    simp only
    congr 1
    apply List.map_congr_left
    intro r hr
    exact (hall r hr).rows
  have hdefs := writtenRows_defsS c ps hall
  have hvals := writtenRows_valsS c ps hall
  have hreps := writtenRows_reps c ps hall
  have hlen := writtenRows_lengthS c ps hall
  have hwf1 : ∀ row ∈ writtenRows c ps, Carquet.Spec.Cursor.Row.WF c.maxDef row := by
    apply rowsOfPages_wf
    intro p hp
    obtain ⟨r, hr, rfl⟩ := List.mem_map.mp hp
    exact ⟨_, rfl, cursorPage_okS c r (hall r hr)⟩
  have hd : readerDefs c (pagesData ps) = (writtenRows c ps).map (·.defLevel) := by
    rw [hdefs, hsum]; rfl
  have hv : (pagesData ps).vals = (writtenRows c ps).filterMap (·.val) := by rw [hvals]; rfl
  have hdl : (readerDefs c (pagesData ps)).length = Carquet.Proofs.ReaderChunkRoundtrip.sumRows ps := by
    rw [hd, List.length_map, hlen]
  have hnn : nn c.maxDef (readerDefs c (pagesData ps)) = (pagesData ps).vals.length := by
    rw [hd, hv, length_filterMap_val c.maxDef _ hwf1]
  have hr : readerReps c (pagesData ps) = (writtenRows c ps).map (·.repLevel) := by
    rw [hreps, hsum]; rfl
  have hrl : (readerDefs c (pagesData ps)).length ≤ (readerReps c (pagesData ps)).length := by
    rw [hd, hr, List.length_map, List.length_map]; exact Nat.le_refl _
  have hrl' : (readerReps c (pagesData ps)).length = (readerDefs c (pagesData ps)).length := by
    rw [hd, hr, List.length_map, List.length_map]
  unfold tableRows
  rw [rowsOfLevelsR_eq]
  apply encode_faithful c.maxDef _ _ hwf1
  · apply pageRows_wf _ _ _ _ hrl (by rw [hnn]; exact Nat.le_refl _)
    intro d hdm
    rw [hd] at hdm
    obtain ⟨row, hrow, rfl⟩ := List.mem_map.mp hdm
    exact (hwf1 row hrow).1
  · rw [map_def_pageRows _ _ _ _ hrl, hd]
  · rw [map_rep_pageRows _ _ _ _ hrl, ← hrl', List.take_length, hr]
  · rw [filterMap_val_pageRows _ _ _ _ hrl (by rw [hnn]; exact Nat.le_refl _), hnn, List.take_length, hv]

/-- **any consumption pattern on one chunk of a written file** -/
theorem runCell (L : Libs) (verify : Bool) (mode : Mode) (codec : Nat) (o : FileReal.Oracle)
    (hst : StoredOk L o codec) (file : Reader.Bytes) (c : Writer.Col) (hc : ColOk c)
    (m : ChunkMeta) (ps : List PageRec) (hcell : Cell o codec file c m ps) (hfile : file.length < 2 ^ 64)
    (cops : List Carquet.Spec.Cursor.Op) (hops : ∀ op ∈ cops, OpOk op) :
    (ColumnReader.run ColumnReader.Fixes.all (chunkOf Fixes.all L verify mode file (colOf c (cmdOf m))) cops).2 =
      (Carquet.Spec.Cursor.run (tableRows c (pagesData ps)) cops).2.map encodeOut := by
  obtain ⟨pre, post, hsplit, hpre, hpost⟩ := hcell.split
  have hall : ∀ r ∈ ps, RecOkL L c codec r := fun r hr => recOkL_of_facts hst hc (hcell.facts r hr)
  have hshape : ∀ r ∈ ps, RecShape c r := fun r hr => (hall r hr).toRecShape
  rw [pagesBytes_oracle] at hsplit
  obtain ⟨n1, _, _, n4, _⟩ := hcell.pages
  have hcm1 : (cmdOf m).codec = (codec : Int) := by simp [cmdOf, n4]
  have hcm3 : (cmdOf m).dataPageOffset = (pre.length : Int) := by simp [cmdOf, hpre]
  have hcm4 : (cmdOf m).numValues = (Carquet.Proofs.ReaderChunkRoundtrip.sumRows ps : Int) := by
    simp [cmdOf, n1]; rfl
  rw [hsplit] at hfile ⊢
  have hcw := chunkOf_writerL L verify mode c (cmdOf m) codec ps pre post hcm1 rfl hcm3 hcm4 hall hpost hfile
  rw [chunkBytes_eq] at hcw
  obtain ⟨k1, k2, k3⟩ := hcw
  obtain ⟨hok, hrows⟩ := chunkOk_writerS _ c ps hshape k1 k2 k3
  rw [← writtenRows_eq_tableRows c ps hshape, ← hrows]
  exact (Carquet.Proofs.Cursor.outs_ok (chunkRows _) cops (ColumnReader.getColumn _) 0 (inv_getColumn _ hok)
    (by rw [pending_getColumn]; rfl) (Nat.zero_le _) rfl hok.2 hops).1

end Carquet.Proofs.Roundtrip
