import Carquet.Spec.File.Write
import Carquet.Proofs.SpecFileEnvelope
import Carquet.Proofs.RleSpecEncoder
import Carquet.Proofs.RleSpecDecoder
import Carquet.Proofs.PlainBytes
import Carquet.Proofs.PlainBool
/-
Page layer of the reference writer / independent reader pair: level streams written with any
admissible run plan are read back, PLAIN values of every physical type are read back, entries are
re-assembled from levels and dense values, and hence a v1 data page body written by
`Spec.File.v1Body` is decoded by `Spec.File.decodeDataPage` to the entries it was written from.
-/
namespace Carquet.Proofs.SpecFile
open Carquet.Spec Carquet.Spec.File

/-! ### levels -/

theorem all_zero_of_le_zero : ∀ (ls : List Nat), (∀ l ∈ ls, l ≤ 0) → ls = List.replicate ls.length 0
  | [], _ => rfl
  | l :: r, h => by
    have h0 : l = 0 := Nat.le_zero.mp (h l (by simp))
    have := all_zero_of_le_zero r (fun x hx => h x (by simp [hx]))
    simp only [List.length_cons, List.replicate_succ]
    rw [h0, ← this]

/-- a level stream written by the reference writer (any run plan the Spec encoder accepts) is read
back by the independent reader, which stops exactly at the end of the stream -/
theorem readLevels_written (maxLevel : Nat) (runs : List RleHybrid.Choice) (ls : List Nat) (bs rest : Bytes)
    (hb : levelBytes maxLevel runs ls = some bs) (hle : ∀ l ∈ ls, l ≤ maxLevel) (hlen : bs.length < 2 ^ 32) :
    readLevels maxLevel ls.length ((if maxLevel = 0 then [] else prefixed bs) ++ rest) = .ok (ls, rest) := by
  unfold readLevels
  by_cases h0 : maxLevel = 0
  · subst h0
    simp only [if_true, List.nil_append]
    rw [← all_zero_of_le_zero ls hle]
  · simp only [h0, if_false]
    unfold levelBytes at hb
    simp only [h0, if_false] at hb
    obtain ⟨pad, hruns⟩ := Carquet.Proofs.RleSpecEncoder.encodeWith_sound _ _ _ _ hb
    have hdec := Carquet.Proofs.RleSpecDecoder.decode_complete hruns ls.length (by simp)
    simp only [List.take_left] at hdec
    have hp4 : (prefixed bs ++ rest).take 4 = File.leBytes 4 bs.length := by
      unfold prefixed
      rw [List.append_assoc]
      exact List.take_left' (leBytes_length 4 _)
    have hd4 : (prefixed bs ++ rest).drop 4 = bs ++ rest := by
      unfold prefixed
      rw [List.append_assoc]
      exact List.drop_left' (leBytes_length 4 _)
    have hl : (prefixed bs ++ rest).length = 4 + bs.length + rest.length := by
      simp [prefixed, leBytes_length]; omega
    have hn : leNat (File.leBytes 4 bs.length) = bs.length := leNat_leBytes 4 _ (by simpa using hlen)
    rw [if_neg (by omega), hp4, hd4, hn, if_neg (by simp), List.take_left, hdec]
    have hall : ls.all (· ≤ maxLevel) = true := by
      rw [List.all_eq_true]; intro l hl'; simpa using hle l hl'
    simp [hall]

/-! ### PLAIN values -/

/-- what the reference writer demands of a value of a column -/
theorem validValue_length {leaf : LeafInfo} {v : Bytes} (h : validValue leaf v = true) :
    (leaf.ptype = .int32 → v.length = 4) ∧ (leaf.ptype = .int64 → v.length = 8) ∧ (leaf.ptype = .int96 → v.length = 12) ∧
    (leaf.ptype = .float → v.length = 4) ∧ (leaf.ptype = .double → v.length = 8) ∧
    (leaf.ptype = .flba → v.length = leaf.typeLength) ∧ (leaf.ptype = .byteArray → v.length < 2 ^ 31) ∧
    (leaf.ptype = .boolean → v = [0] ∨ v = [1]) := by
  unfold validValue at h
  refine ⟨?_, ?_, ?_, ?_, ?_, ?_, ?_, ?_⟩ <;> intro hp <;> rw [hp] at h <;> simp only [] at h
  · have := of_decide_eq_true h; simpa [Order.Valid, Order.PType.width] using this
  · have := of_decide_eq_true h; simpa [Order.Valid, Order.PType.width] using this
  · have := of_decide_eq_true h; simpa [Order.Valid, Order.PType.width] using this
  · have := of_decide_eq_true h; simpa [Order.Valid, Order.PType.width] using this
  · have := of_decide_eq_true h; simpa [Order.Valid, Order.PType.width] using this
  · simpa using h
  · exact of_decide_eq_true h
  · simpa using h

theorem bool_roundtrip : ∀ (vs : List Bytes), (∀ v ∈ vs, v = [0] ∨ v = [1]) →
    (vs.map (fun v => v == [1])).map boolByte = vs
  | [], _ => rfl
  | v :: r, h => by
    have ih := bool_roundtrip r (fun x hx => h x (by simp [hx]))
    rcases h v (by simp) with rfl | rfl
    · simp only [List.map_cons, ih]; rfl
    · simp only [List.map_cons, ih]; rfl

/-- PLAIN values written by the reference writer are read back, for every physical type; the
reader stops exactly behind them (BOOLEAN: behind the last, zero-padded byte) -/
theorem plainValues_written (leaf : LeafInfo) (vs : List Bytes) (hv : ∀ v ∈ vs, validValue leaf v = true)
    (rest : Bytes) (hrest : leaf.ptype = .boolean → rest = []) :
    plainValues leaf vs.length (plainEncode leaf vs ++ rest) = some (vs, rest) := by
  unfold plainValues plainEncode
  cases hp : leaf.ptype
  · -- BOOLEAN
    simp only []
    have hr : rest = [] := hrest hp
    subst hr
    have hb : ∀ v ∈ vs, v = [0] ∨ v = [1] := fun v hm => (validValue_length (hv v hm)).2.2.2.2.2.2.2 hp
    have := Carquet.Proofs.Plain.spec_decodeBool_encode (vs.map (fun v => v == [1])) []
    simp only [List.length_map] at this
    rw [this]
    simp only [bool_roundtrip vs hb, List.append_nil]
    have hl := Carquet.Proofs.Plain.encodeBool_length (vs.map (fun v => v == [1]))
    simp only [List.length_map] at hl
    rw [List.drop_eq_nil_of_le (by rw [hl]; unfold Plain.boolBytes; exact Nat.le_refl _)]
  · simp only []
    exact Carquet.Proofs.Plain.spec_decodeFlba_encode 4 vs (fun v hm => (validValue_length (hv v hm)).1 hp) rest
  · simp only []
    exact Carquet.Proofs.Plain.spec_decodeFlba_encode 8 vs (fun v hm => (validValue_length (hv v hm)).2.1 hp) rest
  · simp only []
    exact Carquet.Proofs.Plain.spec_decodeFlba_encode 12 vs (fun v hm => (validValue_length (hv v hm)).2.2.1 hp) rest
  · simp only []
    exact Carquet.Proofs.Plain.spec_decodeFlba_encode 4 vs (fun v hm => (validValue_length (hv v hm)).2.2.2.1 hp) rest
  · simp only []
    exact Carquet.Proofs.Plain.spec_decodeFlba_encode 8 vs (fun v hm => (validValue_length (hv v hm)).2.2.2.2.1 hp) rest
  · simp only []
    exact Carquet.Proofs.Plain.spec_decodeByteArray_encode vs rest
      (fun v hm => Nat.lt_trans ((validValue_length (hv v hm)).2.2.2.2.2.2.1 hp) (by decide))
  · simp only []
    exact Carquet.Proofs.Plain.spec_decodeFlba_encode leaf.typeLength vs
      (fun v hm => (validValue_length (hv v hm)).2.2.2.2.2.1 hp) rest

/-! ### entries from levels and dense values -/

theorem assemble_written (leaf : LeafInfo) : ∀ (es : List Entry), (∀ e ∈ es, wellFormedEntry leaf e = true) →
    File.assemble leaf.maxDef (es.map (·.rep)) (es.map (·.dl)) (es.filterMap (·.val)) = es
  | [], _ => rfl
  | e :: r, h => by
    have ih := assemble_written leaf r (fun x hx => h x (by simp [hx]))
    have he := h e (by simp)
    obtain ⟨rp, d, v⟩ := e
    unfold wellFormedEntry at he
    cases v with
    | none =>
      simp only [Bool.and_eq_true, decide_eq_true_eq] at he
      have hne : d ≠ leaf.maxDef := by omega
      simp only [List.map_cons, List.filterMap_cons, File.assemble, hne, if_false, ih]
    | some val =>
      simp only [Bool.and_eq_true, decide_eq_true_eq, beq_iff_eq] at he
      have hd : d = leaf.maxDef := he.2.1
      subst hd
      simp only [List.map_cons, List.filterMap_cons, File.assemble, if_true, ih]

theorem nonNullCount_written (leaf : LeafInfo) : ∀ (es : List Entry), (∀ e ∈ es, wellFormedEntry leaf e = true) →
    nonNullCount leaf.maxDef (es.map (·.dl)) = (es.filterMap (·.val)).length
  | [], _ => rfl
  | e :: r, h => by
    have ih := nonNullCount_written leaf r (fun x hx => h x (by simp [hx]))
    have he := h e (by simp)
    obtain ⟨rp, d, v⟩ := e
    unfold wellFormedEntry at he
    unfold nonNullCount at ih ⊢
    cases v with
    | none =>
      simp only [Bool.and_eq_true, decide_eq_true_eq] at he
      have hne : (d == leaf.maxDef) = false := by simp; omega
      simp only [List.map_cons, List.filter_cons, hne, List.filterMap_cons]
      simpa using ih
    | some val =>
      simp only [Bool.and_eq_true, decide_eq_true_eq, beq_iff_eq] at he
      have hd : (d == leaf.maxDef) = true := by simp [he.2.1]
      simp only [List.map_cons, List.filter_cons, hd, List.filterMap_cons, if_true, List.length_cons, ih]




/-- **a v1 data page body (PLAIN values) written by the reference writer is decoded to the entries
it was written from** — any run plan for the level streams, any physical type, nested levels. -/
theorem decodeDataPage_written (leaf : LeafInfo) (dict : Option (List Bytes)) (es : List Entry)
    (repRuns defRuns : List RleHybrid.Choice) (repB defB : Bytes)
    (hr : levelBytes leaf.maxRep repRuns (es.map (·.rep)) = some repB)
    (hd : levelBytes leaf.maxDef defRuns (es.map (·.dl)) = some defB)
    (hwf : ∀ e ∈ es, wellFormedEntry leaf e = true)
    (hlr : repB.length < 2 ^ 32) (hld : defB.length < 2 ^ 32) :
    decodeDataPage leaf dict ⟨es.length, 0, 3, 3, none⟩
      (v1Body leaf .v1 es repB defB (plainEncode leaf (es.filterMap (·.val)))) = .ok es := by
  have hrep : ∀ l ∈ es.map (·.rep), l ≤ leaf.maxRep := by
    intro l hl
    obtain ⟨e, he, rfl⟩ := List.mem_map.mp hl
    have := hwf e he
    unfold wellFormedEntry at this
    simp only [Bool.and_eq_true, decide_eq_true_eq] at this
    exact this.1.1
  have hdef : ∀ l ∈ es.map (·.dl), l ≤ leaf.maxDef := by
    intro l hl
    obtain ⟨e, he, rfl⟩ := List.mem_map.mp hl
    have := hwf e he
    unfold wellFormedEntry at this
    simp only [Bool.and_eq_true, decide_eq_true_eq] at this
    exact this.1.2
  have hvals : ∀ v ∈ es.filterMap (·.val), validValue leaf v = true := by
    intro v hv
    obtain ⟨e, he, hev⟩ := List.mem_filterMap.mp hv
    have := hwf e he
    unfold wellFormedEntry at this
    rw [hev] at this
    simp only [Bool.and_eq_true] at this
    exact this.2.2
  have h1 := readLevels_written leaf.maxRep repRuns (es.map (·.rep))
    repB ((if leaf.maxDef = 0 then [] else prefixed defB) ++ plainEncode leaf (es.filterMap (·.val))) hr hrep hlr
  have h2 := readLevels_written leaf.maxDef defRuns (es.map (·.dl)) defB (plainEncode leaf (es.filterMap (·.val))) hd hdef hld
  have h3 := plainValues_written leaf (es.filterMap (·.val)) hvals [] (fun _ => rfl)
  simp only [List.length_map, List.append_nil] at h1 h2 h3
  have hbody : v1Body leaf .v1 es repB defB (plainEncode leaf (es.filterMap (·.val))) =
      (if leaf.maxRep = 0 then [] else prefixed repB) ++
        ((if leaf.maxDef = 0 then [] else prefixed defB) ++ plainEncode leaf (es.filterMap (·.val))) := by
    simp [v1Body, List.append_assoc]
  have hnn := nonNullCount_written leaf es hwf
  have hasm := assemble_written leaf es hwf
  unfold decodeDataPage
  simp only [hbody, legalEncoding, bind, Except.bind, pure, Except.pure, h1, h2, hnn, readValues, h3, checkStats]
  simp
  exact hasm
end Carquet.Proofs.SpecFile
