import Carquet.Impl.Simd
import Carquet.Proofs.SimdBlocked
import Carquet.Proofs.SimdPrefix
import Carquet.Proofs.SimdBools
/-
C15 helper lemmas: definition-level kernels (count_non_nulls, build_null_bitmap, fill), run-length
search, CRC-32C.
-/
namespace Carquet.Proofs.SimdLevels
open Carquet Carquet.Impl.Simd Carquet.Proofs.SimdBlocked Carquet.Proofs.SimdPrefix Carquet.Proofs.SimdBools

/-! ### compare + movemask -/

theorem cmpMask_replicate {w : Nat} (r : BitVec w → BitVec w → Bool) (m : BitVec w) (a : List (BitVec w)) :
    cmpMask r a (set1 a.length m) = a.map fun x => if r x m then BitVec.allOnes w else 0#w := by
  unfold cmpMask set1
  induction a with
  | nil => rfl
  | cons x xs ih => simp [List.replicate_succ, ih]

theorem movemask16_cmp (r : BitVec 16 → BitVec 16 → Bool) (m : BitVec 16) (a : List (BitVec 16)) :
    movemaskLanes (cmpMask r a (set1 a.length m)) = a.flatMap fun x => [r x m, r x m] := by
  rw [cmpMask_replicate]
  unfold movemaskLanes
  induction a with
  | nil => rfl
  | cons x xs ih =>
    simp only [List.map_cons, List.flatMap_cons, ih]
    congr 1
    cases r x m <;> decide

theorem movemask32_cmp (r : BitVec 32 → BitVec 32 → Bool) (m : BitVec 32) (a : List (BitVec 32)) :
    movemaskLanes (cmpMask r a (set1 a.length m)) = a.flatMap fun x => List.replicate 4 (r x m) := by
  rw [cmpMask_replicate]
  unfold movemaskLanes
  induction a with
  | nil => rfl
  | cons x xs ih =>
    simp only [List.map_cons, List.flatMap_cons, ih]
    congr 1
    cases r x m <;> decide

/-! ### count_non_nulls -/

theorem cnn_fold (mx : BitVec 16) (b : List (BitVec 16)) :
    ∀ c, b.foldl (cnnStep mx) c = c + (b.filter (· == mx)).length := by
  induction b with
  | nil => intro c; rfl
  | cons x xs ih =>
    intro c
    simp only [List.foldl_cons, ih, cnnStep, List.filter_cons]
    by_cases h : (x == mx) = true <;> simp [h] <;> omega

theorem popcount_pairs (mx : BitVec 16) (b : List (BitVec 16)) :
    popcount (b.flatMap fun x => [x == mx, x == mx]) = 2 * (b.filter (· == mx)).length := by
  unfold popcount
  induction b with
  | nil => rfl
  | cons x xs ih =>
    simp only [List.flatMap_cons, List.count_append, ih, List.filter_cons]
    by_cases h : (x == mx) = true <;> simp [h] <;> omega

/-- all blocks, all carries (the block width is not even used) -/
theorem sse_count_block (mx : BitVec 16) (c : Nat) (b : List (BitVec 16)) :
    sseCountNonNullsBlk mx c b = b.foldl (cnnStep mx) c := by
  unfold sseCountNonNullsBlk
  rw [movemask16_cmp, popcount_pairs, cnn_fold]
  omega

/-! ### null bitmap -/

theorem packs_movemask (r : BitVec 16 → BitVec 16 → Bool) (m : BitVec 16) (a : List (BitVec 16)) :
    movemaskEpi8 (packsEpi16Zero (cmpMask r a (set1 a.length m))) =
      a.map (fun x => r x m) ++ List.replicate 8 false := by
  rw [cmpMask_replicate]
  unfold movemaskEpi8 packsEpi16Zero
  rw [List.map_append, List.map_map, List.map_map]
  congr 1
  apply List.map_congr_left
  intro x _
  simp only [Function.comp]
  cases r x m <;> decide

theorem sse_null_bitmap_block (mx : BitVec 16) (b : List (BitVec 16)) (h : b.length = 8) :
    sseNullBitmapBlk mx b = nullBitmapScalar mx b := by
  simp only [sseNullBitmapBlk, nullBitmapScalar, bytesOfMask, packs_movemask]
  obtain ⟨c0, c1, c2, c3, c4, c5, c6, c7, hc⟩ := list_len8 (b.map fun x => x.slt mx) (by simpa using h)
  rw [hc]
  simp [Spec.Kernels.packBits, List.replicate]

theorem nullBitmapScalar_append (mx : BitVec 16) (a r : List (BitVec 16)) (h : a.length = 8) :
    nullBitmapScalar mx (a ++ r) = nullBitmapScalar mx a ++ nullBitmapScalar mx r := by
  unfold nullBitmapScalar
  rw [List.map_append, packBits_append _ 1 (by simpa using h)]

/-! ### fill -/

theorem sse_fill_block (v : BitVec 16) (old : List (BitVec 16)) : sseFillBlk v old = old.map fun _ => v := by
  unfold sseFillBlk set1
  induction old with
  | nil => rfl
  | cons x xs ih => simp [List.replicate_succ, ih]

/-! ### run-length search -/

theorem firstIdx_not_map {α : Type} (f : α → Bool) (l : List α) :
    firstIdx (fun b => !b) (l.map f) = firstIdx (fun x => !f x) l := by
  induction l with
  | nil => rfl
  | cons x xs ih => simp [firstIdx, ih]

theorem firstIdx_4true (r : List Bool) :
    firstIdx (fun b => !b) (List.replicate 4 true ++ r) = firstIdx (fun b => !b) r + 4 := by
  simp [List.replicate, firstIdx]

theorem firstIdx_4false (r : List Bool) : firstIdx (fun b => !b) (List.replicate 4 false ++ r) = 0 := by
  simp [List.replicate, firstIdx]

theorem firstIdx_replicate4 {α : Type} (f : α → Bool) (l : List α) :
    firstIdx (fun b => !b) (l.flatMap fun x => List.replicate 4 (f x)) = 4 * firstIdx (fun x => !f x) l := by
  induction l with
  | nil => rfl
  | cons x xs ih =>
    simp only [List.flatMap_cons, firstIdx]
    by_cases hf : f x = true
    · simp only [hf, firstIdx_4true, ih, Bool.not_true, Bool.false_eq_true, if_false]
      omega
    · have hf' : f x = false := by simpa using hf
      simp only [hf', firstIdx_4false, Bool.not_false, if_true]

theorem all_id_map {α : Type} (f : α → Bool) (l : List α) :
    ((l.map f).all id = true) ↔ ¬ (firstIdx (fun x => !f x) l < l.length) := by
  induction l with
  | nil => simp [firstIdx]
  | cons x xs ih =>
    cases hf : f x
    · simp [firstIdx, hf]
    · simp only [List.map_cons, List.all_cons, id, hf, Bool.true_and, firstIdx, Bool.not_true,
        Bool.false_eq_true, if_false, List.length_cons, Nat.add_lt_add_iff_right]
      exact ih

theorem all_id_replicate4 {α : Type} (f : α → Bool) (l : List α) :
    ((l.flatMap fun x => List.replicate 4 (f x)).all id = true) ↔ ((l.map f).all id = true) := by
  induction l with
  | nil => simp
  | cons x xs ih =>
    simp only [List.flatMap_cons, List.all_append, List.map_cons, List.all_cons, Bool.and_eq_true, ih]
    cases f x <;> simp [List.replicate]

theorem bne_as_not (first x : BitVec 32) : (x != first) = !(x == first) := rfl

theorem sse_run_block (first : BitVec 32) (b : List (BitVec 32)) (h : b.length = 4) :
    sseRunBlk first b =
      if firstIdx (· != first) b < 4 then some (firstIdx (· != first) b) else none := by
  unfold sseRunBlk
  simp only [movemask32_cmp, ctzNot, firstIdx_replicate4]
  have hall := (all_id_replicate4 (· == first) b).trans (all_id_map (· == first) b)
  rw [h] at hall
  by_cases hlt : firstIdx (fun x => !(x == first)) b < 4
  · have : ¬ ((b.flatMap fun x => List.replicate 4 (x == first)).all id = true) := fun e => (hall.mp e) hlt
    have e : (fun x : BitVec 32 => x != first) = (fun x => !(x == first)) := rfl
    rw [e, if_pos hlt, if_neg this, Nat.mul_div_cancel_left _ (by decide : 0 < 4)]
  · have : (b.flatMap fun x => List.replicate 4 (x == first)).all id = true := hall.mpr hlt
    have e : (fun x : BitVec 32 => x != first) = (fun x => !(x == first)) := rfl
    rw [e, if_neg hlt, if_pos this]

theorem avx2_run_block (first : BitVec 32) (b : List (BitVec 32)) (h : b.length = 8) :
    avx2RunBlk first b =
      if firstIdx (· != first) b < 8 then some (firstIdx (· != first) b) else none := by
  unfold avx2RunBlk
  simp only [movemask32_cmp]
  have hall := (all_id_replicate4 (· == first) b).trans (all_id_map (· == first) b)
  rw [h] at hall
  have e : (fun x : BitVec 32 => x != first) = (fun x => !(x == first)) := rfl
  by_cases hlt : firstIdx (fun x => !(x == first)) b < 8
  · have : ¬ ((b.flatMap fun x => List.replicate 4 (x == first)).all id = true) := fun e => (hall.mp e) hlt
    rw [e, if_pos hlt, if_neg this]
  · have : (b.flatMap fun x => List.replicate 4 (x == first)).all id = true := hall.mpr hlt
    rw [e, if_neg hlt, if_pos this]

theorem avx512_run_block (first : BitVec 32) (b : List (BitVec 32)) (h : b.length = 16) :
    avx512RunBlk first b =
      if firstIdx (· != first) b < 16 then some (firstIdx (· != first) b) else none := by
  unfold avx512RunBlk
  simp only [ctzNot, firstIdx_not_map]
  have hall := all_id_map (· == first) b
  rw [h] at hall
  have e : (fun x : BitVec 32 => x != first) = (fun x => !(x == first)) := rfl
  by_cases hlt : firstIdx (fun x => !(x == first)) b < 16
  · have : ¬ ((b.map (· == first)).all id = true) := fun e => (hall.mp e) hlt
    rw [e, if_pos hlt, if_neg this]
  · have : (b.map (· == first)).all id = true := hall.mpr hlt
    rw [e, if_neg hlt, if_pos this]

/-- the model's `firstIdx` is the Spec's -/
theorem firstIdx_spec {α : Type} (p : α → Bool) (l : List α) : firstIdx p l = Spec.Kernels.firstIdx p l := by
  induction l with
  | nil => rfl
  | cons x xs ih => simp [firstIdx, Spec.Kernels.firstIdx, ih]

/-! ### CRC-32C -/

theorem sseCrcLoops_eq (c : BitVec 32) (data : List UInt8) :
    sseCrcLoops c data = data.foldl Spec.Kernels.crcByte c := by
  unfold sseCrcLoops
  have h2 : ∀ c t, blockedFold 2 crc32Instr crc32Instr c t = t.foldl Spec.Kernels.crcByte c :=
    fun c t => blockedFold_eq 2 (by decide) _ _ _ (fun _ _ _ => rfl) (fun _ _ _ => rfl) c t
  have h4 : ∀ c t, blockedFold 4 crc32Instr (blockedFold 2 crc32Instr crc32Instr) c t =
      t.foldl Spec.Kernels.crcByte c :=
    fun c t => blockedFold_eq 4 (by decide) _ _ _ (fun _ _ _ => rfl) (fun c t _ => h2 c t) c t
  exact blockedFold_eq 8 (by decide) _ _ _ (fun _ _ _ => rfl) (fun c t _ => h4 c t) c data

end Carquet.Proofs.SimdLevels
