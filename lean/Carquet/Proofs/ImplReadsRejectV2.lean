import Carquet.Proofs.ImplReadsReject
import Carquet.Proofs.ImplReadsHeader
/-
C06, negative half, from the reference writer's side: a DATA_PAGE_V2 page as `writeDataPage` lays it out
(`PageKind.v2`: page type 3, member struct 8) has a header that carquet's parser accepts in every Thrift
form, with unknown fields, and reads as type 3 — so `load_next_page` answers NOT_IMPLEMENTED at that page.
-/
namespace Carquet.Proofs.ImplReads
open Carquet.Spec Carquet.Spec.File Carquet.Spec.Thrift Carquet.Spec.ParquetThrift
open Carquet.Impl
open Carquet.Impl.Reader hiding Bytes
open Carquet.Impl.ThriftParquet Carquet.Impl.ThriftParquetReq
open Carquet.Proofs.Thrift Carquet.Proofs.ReaderHeaderReads

theorem tblDataPageV2_sub (R : Nat) (id : Int) (h : (lookupT (tblDataPageV2 R) id).isSome = true) :
    (dataPageHeaderV2.find id).isSome = true := by
  have := lookupT_isSome_mem _ _ h
  simp only [tblDataPageV2, List.map_cons, List.map_nil, List.mem_cons, List.not_mem_nil, or_false] at this
  rcases this with rfl | rfl | rfl | rfl | rfl | rfl | rfl | rfl <;> rfl

/-- the header value of a v2 data page of the reference writer -/
def v2PageHdrTV (pl : PageLayout) (usize csize : Nat) (crc : Option Int) (n nulls rows : Int) (dlen rlen : Nat) : TVal :=
  pageHdrTV 3 usize csize crc 8
    (.struct (withExtras
      [(1, .i32 n), (2, .i32 nulls), (3, .i32 rows), (4, .i32 (valueEncTag pl.values)),
       (5, .i32 dlen), (6, .i32 rlen), (7, .bool (pl.comp.codec != 0))] pl.memberExtra))
    pl.hdrExtra

/-- the member struct of a v2 page is acceptable to `parse_data_page_header_v2` -/
theorem v2Member_ok (pl : PageLayout) (n nulls rows : Int) (dlen rlen : Nat)
    (hmx : extrasOk dataPageHeaderV2 pl.memberExtra = true) (hmd : extrasDepth 28 pl.memberExtra = true) :
    okFields (tblDataPageV2 27) 28 (withExtras
      [(1, .i32 n), (2, .i32 nulls), (3, .i32 rows), (4, .i32 (valueEncTag pl.values)),
       (5, .i32 dlen), (6, .i32 rlen), (7, .bool (pl.comp.codec != 0))] pl.memberExtra) := by
  have hnone := lookupT_none_of_extrasOk (tblDataPageV2 27) _ _ (tblDataPageV2_sub 27) hmx
  apply okFields_withExtras _ _ _ _ ?_ hnone hmd
  refine okFields_cons _ _ _ _ _ ⟨_, rfl⟩ (okFields_cons _ _ _ _ _ ⟨_, rfl⟩ (okFields_cons _ _ _ _ _ ⟨_, rfl⟩
    (okFields_cons _ _ _ _ _ ⟨_, rfl⟩ (okFields_cons _ _ _ _ _ ⟨_, rfl⟩ (okFields_cons _ _ _ _ _ ⟨_, rfl⟩
    (okFields_cons _ _ _ _ _ ⟨_, rfl⟩ (okFields_nil _ _)))))))

/-- **a v2 page header is read as type 3**, in any header form, with unknown fields, with anything behind it -/
theorem parse_v2PageHdr (pl : PageLayout) (usize csize : Nat) (crc : Option Int) (n nulls rows : Int) (dlen rlen : Nat)
    (hhx : extrasOk pageHeader pl.hdrExtra = true) (hhd : extrasDepth 29 pl.hdrExtra = true)
    (hmx : extrasOk dataPageHeaderV2 pl.memberExtra = true) (hmd : extrasDepth 28 pl.memberExtra = true)
    (hwf : (v2PageHdrTV pl usize csize crc n nulls rows dlen rlen).wf = true) :
    ∃ hdr : ThriftParquetReq.PageHdr, hdr.type = 3 ∧ hdr.compressed = (csize : Int) ∧ hdr.uncompressed = (usize : Int) ∧
      ∀ rest : File.Bytes,
        parsePageHeaderC (encodeValF pl.form (v2PageHdrTV pl usize csize crc n nulls rows dlen rlen) ++ rest) =
          .ok (hdr, (encodeValF pl.form (v2PageHdrTV pl usize csize crc n nulls rows dlen rlen)).length) := by
  unfold v2PageHdrTV at hwf ⊢
  obtain ⟨fs, hf1, hf2, hf3⟩ := pageHdrTV_ok 3 usize csize crc 8 _ pl.hdrExtra
    (show okT (tblPageHdrC 27) 29 8 _ from ⟨_, rfl, v2Member_ok pl n nulls rows dlen rlen hmx hmd⟩) hhx hhd
  rw [hf1] at hwf ⊢
  have henc := Carquet.Proofs.SpecFile.enc_encodeValF pl.form _ hwf
  refine ⟨(ofFields (tblPageHdrC 27) ⟨initHdr, none⟩ fs).val, ?_, ?_, ?_, ?_⟩
  · rw [hf3]; rfl
  · rw [hf3]; rfl
  · rw [hf3]; rfl
  · intro rest
    obtain ⟨res, hres, h1, h2, h3⟩ := parsePageHeaderCX_reads 27 (by simp [Carquet.Impl.Thrift.maxNesting]) fs _ henc hf2 rest
    unfold parsePageHeaderC
    rw [hres]
    obtain ⟨st', v, k, ov⟩ := res
    simp only at h1 h2 h3
    subst h1 h2 h3
    rfl

/-- **a DATA_PAGE_V2 page of the reference writer is refused**: at the offset the (settled) column reader points
at, in the mapped modes (and in fread mode when the header is found by the window), `load_next_page` returns
NOT_IMPLEMENTED -/
theorem loadPage_v2_layout (L : Libs) (verify : Bool) (mode : Mode) (pre post body : File.Bytes) (c : Col) (st : PState)
    (pl : PageLayout) (usize : Nat) (crc : Option Int) (n nulls rows : Int) (dlen rlen : Nat)
    (hhx : extrasOk pageHeader pl.hdrExtra = true) (hhd : extrasDepth 29 pl.hdrExtra = true)
    (hmx : extrasOk dataPageHeaderV2 pl.memberExtra = true) (hmd : extrasDepth 28 pl.memberExtra = true)
    (hwf : (v2PageHdrTV pl usize body.length crc n nulls rows dlen rlen).wf = true)
    (hwin : mode = .fread → WindowOk (encodeValF pl.form (v2PageHdrTV pl usize body.length crc n nulls rows dlen rlen)))
    (hsettled : c.cm.dictionaryPageOffset = none ∨ st.dict.isSome = true)
    (hoff : st.dataStart + st.currentPage = (pre.length : Int)) (hpost : 8 ≤ post.length) :
    (loadPage Fixes.all L verify mode
        (pre ++ (encodeValF pl.form (v2PageHdrTV pl usize body.length crc n nulls rows dlen rlen) ++ body) ++ post) c st).result =
      .error .notImplemented := by
  obtain ⟨hdr, h3, hc, hu, hany⟩ := parse_v2PageHdr pl usize body.length crc n nulls rows dlen rlen hhx hhd hmx hmd hwf
  exact loadPage_v2 L verify mode pre post c
    ⟨encodeValF pl.form (v2PageHdrTV pl usize body.length crc n nulls rows dlen rlen), body, hdr⟩ st
    ⟨hany, hc, by rw [hu]; omega, hwin⟩ h3 hsettled hoff hpost

/-- what `writeDataPage` lays out for a `PageKind.v2` page: a v2 header followed by levels ++ (compressed) values -/
theorem writeDataPage_v2 {leaf : LeafInfo} {dict : Option (List File.Bytes)} {pl : PageLayout} {es : List Entry} {a : Written}
    (hk : pl.kind = .v2) (hw : writeDataPage leaf dict pl es = some a) :
    ∃ (usize : Nat) (crc : Option Int) (n nulls rows : Int) (dlen rlen : Nat) (body : File.Bytes),
      a.bytes = encodeValF pl.form (v2PageHdrTV pl usize body.length crc n nulls rows dlen rlen) ++ body := by
  unfold writeDataPage at hw
  rw [hk] at hw
  cases hr : levelBytes leaf.maxRep pl.repRuns (es.map (·.rep)) with
  | none => simp [hr] at hw
  | some repB =>
    cases hd : (levelBytes leaf.maxDef pl.defRuns (es.map (·.dl))).map (cutTail pl.damage.defCut) with
    | none => simp [hr, hd] at hw
    | some defB =>
      cases hv : (valueBytes leaf dict pl.values (es.filterMap (·.val))).map (damageValues pl.damage) with
      | none => simp [hr, hd, hv] at hw
      | some valB =>
        simp only [hr, hd, hv] at hw
        cases hc : compressWith pl.comp valB with
        | none => simp [hc] at hw
        | some cv =>
          simp only [hc, Option.some.injEq, mkPage] at hw
          refine ⟨repB.length + defB.length + valB.length, (if pl.crc then some (crcField (repB ++ defB ++ cv)) else none),
            es.length, ((es.filter (fun e => e.val.isNone)).length), (rowsOf leaf.maxRep es), defB.length, repB.length,
            repB ++ defB ++ cv, ?_⟩
          rw [← hw]
          simp [v2PageHdrTV, List.length_append, Nat.add_assoc]

end Carquet.Proofs.ImplReads
