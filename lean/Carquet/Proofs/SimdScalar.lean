import Carquet.Impl.SimdMore
import Carquet.Spec.Kernels
import Carquet.Proofs.SimdBlocked
import Carquet.Proofs.SimdPrefix
import Carquet.Proofs.SimdBools
import Carquet.Proofs.SimdLevels
import Carquet.Proofs.SimdKernels
/-
C15 helper lemmas: the scalar fallbacks of dispatch.c (as loops) equal the `Spec.Kernels`
definitions, and BYTE_STREAM_SPLIT for doubles (SSE / AVX2: plain byte moves, 2 / 4 values per
iteration).
-/
namespace Carquet.Proofs.SimdScalar
open Carquet Carquet.Impl.Simd Carquet.Proofs.SimdBlocked Carquet.Proofs.SimdPrefix
open Carquet.Proofs.SimdBools Carquet.Proofs.SimdLevels Carquet.Proofs.SimdKernels

/-! ### generic `mapM` facts (Option monad) -/

theorem mapM_some {α β : Type} (f : α → Option β) (g : α → β) (l : List α) (h : ∀ x ∈ l, f x = some (g x)) :
    l.mapM f = some (l.map g) := by
  induction l with
  | nil => rfl
  | cons x xs ih =>
    rw [List.mapM_cons, h x (by simp), ih (fun y hy => h y (by simp [hy]))]
    rfl

theorem mapM_none {α β : Type} (f : α → Option β) (l : List α) (x : α) (hx : x ∈ l) (h : f x = none) :
    l.mapM f = none := by
  induction l with
  | nil => simp at hx
  | cons y ys ih =>
    rw [List.mapM_cons]
    cases hy : f y with
    | none => rfl
    | some v =>
      have : x ∈ ys := by
        rcases List.mem_cons.mp hx with e | e
        · rw [e, hy] at h; simp at h
        · exact e
      rw [ih this]; rfl

/-! ### prefix sums, run length, levels -/

theorem scalar_prefix {w : Nat} (init : BitVec w) (vals : List (BitVec w)) :
    scalarPrefixSum init vals = Spec.Kernels.prefixSum init vals := (prefixSum_eq_scan vals init).symm

theorem scalar_find_run (vals : List (BitVec 32)) : scalarFindRunLength vals = Spec.Kernels.findRunLength vals := by
  cases vals with
  | nil => rfl
  | cons x xs =>
    show 1 + firstIdx (· != x) xs = Spec.Kernels.firstIdx (· != x) (x :: xs)
    simp only [Spec.Kernels.firstIdx, bne_self_eq_false, Bool.false_eq_true, if_false, firstIdx_spec]
    omega

theorem scalar_count (levels : List (BitVec 16)) (mx : BitVec 16) :
    scalarCountNonNulls levels mx = Spec.Kernels.countNonNulls levels mx := by
  unfold scalarCountNonNulls Spec.Kernels.countNonNulls
  rw [cnn_fold]; omega

theorem scalar_fill (old : List (BitVec 16)) (v : BitVec 16) :
    scalarFillDefLevels old v = Spec.Kernels.fillDefLevels old.length v := by
  unfold scalarFillDefLevels Spec.Kernels.fillDefLevels
  exact map_const_replicate v old

/-! ### booleans -/

theorem bit_of_byte : ∀ (x : UInt8) (j : Fin 8),
    ((x >>> UInt8.ofNat j.val) &&& 1) = if x.toNat.testBit j.val then 1 else 0 :=
  forall_uint8 _ (by decide +kernel)

theorem bitsOfByte_length (x : UInt8) : (Spec.Kernels.bitsOfByte x).length = 8 := by
  simp [Spec.Kernels.bitsOfByte]

/-- element `i` of the expanded flags -/
theorem flags_getElem? (bytes : List UInt8) : ∀ i,
    (bytes.flatMap Spec.Kernels.bitsOfByte)[i]? =
      (bytes[i / 8]?).map fun x => if x.toNat.testBit (i % 8) then (1 : UInt8) else 0 := by
  induction bytes with
  | nil => intro i; simp
  | cons x xs ih =>
    intro i
    rw [List.flatMap_cons]
    by_cases hi : i < 8
    · rw [List.getElem?_append_left (by rw [bitsOfByte_length]; exact hi)]
      have h0 : i / 8 = 0 := Nat.div_eq_of_lt hi
      have hm : i % 8 = i := Nat.mod_eq_of_lt hi
      rw [h0, hm]
      simp [Spec.Kernels.bitsOfByte, List.getElem?_map, List.getElem?_range hi]
    · have hge : 8 ≤ i := by omega
      rw [List.getElem?_append_right (by rw [bitsOfByte_length]; exact hge), bitsOfByte_length, ih]
      have h1 : i / 8 = (i - 8) / 8 + 1 := by omega
      have h2 : i % 8 = (i - 8) % 8 := by omega
      rw [h1, h2]; simp

theorem take_eq_map_range {α : Type} (l : List α) (f : Nat → Option α) :
    ∀ n, n ≤ l.length → (∀ i, i < n → f i = l[i]?) → (List.range n).mapM f = some (l.take n)
  | 0, _, _ => by simp
  | n + 1, h, hf => by
    rw [List.range_succ, List.mapM_append, take_eq_map_range l f n (by omega) (fun i hi => hf i (by omega))]
    rw [List.take_add_one, List.mapM_cons, List.mapM_nil, hf n (by omega), List.getElem?_eq_getElem (by omega)]
    simp

theorem scalar_unpack (bytes : List UInt8) (count : Nat) :
    scalarUnpackBools bytes count = Spec.Kernels.unpackBools bytes count := by
  unfold scalarUnpackBools Spec.Kernels.unpackBools
  by_cases h : count ≤ 8 * bytes.length
  · rw [if_pos h]
    apply take_eq_map_range _ _ count
    · have : (bytes.flatMap Spec.Kernels.bitsOfByte).length = 8 * bytes.length := unpackScalar_length bytes
      omega
    · intro i _
      rw [flags_getElem?]
      congr 1
      funext x
      exact bit_of_byte x ⟨i % 8, Nat.mod_lt _ (by decide)⟩
  · rw [if_neg h]
    apply mapM_none _ _ (8 * bytes.length) (by simp; omega)
    have : 8 * bytes.length / 8 = bytes.length := by omega
    rw [this, List.getElem?_eq_none (Nat.le_refl _)]
    rfl

/-! ### BYTE_STREAM_SPLIT -/

theorem scalar_bss_enc_float (vals : List (BitVec 32)) :
    scalarBssEncodeFloat vals = Spec.Kernels.bssEncode (k := 4) vals := streams_spec vals

theorem bytesLE_getD (k : Nat) (v : BitVec (8 * k)) (b : Nat) (hb : b < k) :
    (bytesLE k v).getD b 0 = Spec.Kernels.byteOf v b := by
  unfold bytesLE
  rw [List.getD_eq_getElem?_getD, List.getElem?_map, List.getElem?_range hb]
  rfl

theorem streamsK_rows (k : Nat) (vals : List (BitVec (8 * k))) :
    streamsK k (bssEncRows k vals) = Spec.Kernels.bssEncode vals := by
  unfold streamsK bssEncRows Spec.Kernels.bssEncode
  have : ∀ l : List Nat, (∀ b ∈ l, b < k) →
      (l.flatMap fun b => (vals.map (bytesLE k)).map fun r => r.getD b 0) =
      (l.flatMap fun b => vals.map fun v => Spec.Kernels.byteOf v b) := by
    intro l
    induction l with
    | nil => intro _; rfl
    | cons b bs ih =>
      intro hb
      rw [List.flatMap_cons, List.flatMap_cons, ih (fun c hc => hb c (by simp [hc])), List.map_map]
      congr 1
      apply List.map_congr_left
      intro v _
      exact bytesLE_getD k v b (hb b (by simp))
  exact this _ (fun b hb => List.mem_range.mp hb)

theorem scalar_bss_enc_double (vals : List (BitVec 64)) :
    scalarBssEncodeDouble vals = Spec.Kernels.bssEncode (k := 8) vals := streamsK_rows 8 vals

theorem sse_enc_double_block (b : List (BitVec 64)) (h : b.length = 2) : sseBssEncDoubleBlk b = bssEncRows 8 b := by
  obtain ⟨a0, a1, rfl⟩ := list_len2 b h
  rfl

theorem avx2_enc_double_block (b : List (BitVec 64)) (h : b.length = 4) : avx2BssEncDoubleBlk b = bssEncRows 8 b := by
  obtain ⟨a0, a1, a2, a3, rfl⟩ := list_len4 b h
  rfl

theorem sse_bss_enc_double (vals : List (BitVec 64)) :
    sseBssEncodeDouble vals = Spec.Kernels.bssEncode (k := 8) vals := by
  unfold sseBssEncodeDouble
  rw [blockedMap_eq 2 (by decide) _ _ (bssEncRows 8) sse_enc_double_block (fun _ _ => rfl)
    (fun a r _ => by simp [bssEncRows]), streamsK_rows]

theorem avx2_bss_enc_double (vals : List (BitVec 64)) :
    avx2BssEncodeDouble vals = Spec.Kernels.bssEncode (k := 8) vals := by
  unfold avx2BssEncodeDouble
  rw [blockedMap_eq 4 (by decide) _ _ (bssEncRows 8) avx2_enc_double_block (fun _ _ => rfl)
    (fun a r _ => by simp [bssEncRows]), streamsK_rows]

/-- the plain decode loop, any value width -/
theorem scalar_bss_dec (k n : Nat) (data : List UInt8) (h : data.length = k * n) :
    scalarBssDecode k n data = Spec.Kernels.bssDecode k n data := by
  unfold scalarBssDecode Spec.Kernels.bssDecode
  rw [if_pos h]
  apply mapM_some
  intro i hi
  have hi' : i < n := List.mem_range.mp hi
  have : ((List.range k).mapM fun b => data[b * n + i]?) =
      some ((List.range k).map fun b => data.getD (b * n + i) 0) := by
    apply mapM_some
    intro b hb
    have hb' : b < k := List.mem_range.mp hb
    have hlt : b * n + i < data.length := by
      rw [h]
      calc b * n + i < b * n + n := by omega
        _ = (b + 1) * n := by rw [Nat.succ_mul]
        _ ≤ k * n := Nat.mul_le_mul_right n hb'
    rw [List.getD_eq_getElem?_getD, List.getElem?_eq_getElem hlt]; rfl
  rw [this]; rfl

end Carquet.Proofs.SimdScalar
