import Carquet.Impl.Arena
/-
Helper lemmas about the Impl model of carquet_arena (C19).
-/
namespace Carquet.Impl.Alloc.Arena
open Carquet.Impl.Alloc

theorem alignUp_ge (v a : Nat) (ha : 0 < a) : v ≤ alignUp v a := by
  unfold alignUp
  have h1 := Nat.div_add_mod (v + a - 1) a
  have h2 := Nat.mod_lt (v + a - 1) ha
  have h3 : (v + a - 1) / a * a = a * ((v + a - 1) / a) := Nat.mul_comm _ _
  omega

theorem alignUp_lt (v a : Nat) (ha : 0 < a) : alignUp v a < v + a := by
  unfold alignUp
  have h1 := Nat.div_add_mod (v + a - 1) a
  have h3 : (v + a - 1) / a * a = a * ((v + a - 1) / a) := Nat.mul_comm _ _
  omega

theorem alignUp_mod (v a : Nat) : alignUp v a % a = 0 := by
  unfold alignUp; exact Nat.mul_mod_left _ _

theorem alignedOffset_ge (b : Block) (used a : Nat) (ha : 0 < a) : used ≤ alignedOffset b used a := by
  unfold alignedOffset
  have := alignUp_ge (b.base + used) a ha
  omega

theorem alignedOffset_lt (b : Block) (used a : Nat) (ha : 0 < a) : alignedOffset b used a < used + a := by
  unfold alignedOffset
  have := alignUp_lt (b.base + used) a ha
  omega

theorem alignedOffset_aligned (b : Block) (used a : Nat) (ha : 0 < a) :
    (b.base + alignedOffset b used a) % a = 0 := by
  unfold alignedOffset
  have h := alignUp_ge (b.base + used) a ha
  have : b.base + (alignUp (b.base + used) a - b.base) = alignUp (b.base + used) a := by omega
  rw [this]; exact alignUp_mod _ _

theorem effAlign_pos (a : Nat) : 0 < effAlign a := by
  unfold effAlign; split <;> omega

theorem findFit_some (bs : List Block) (i s a j : Nat) (h : findFit bs i s a = some j) :
    i ≤ j ∧ ∃ b, bs[j - i]? = some b ∧ fits b s a = true := by
  induction bs generalizing i with
  | nil => simp [findFit] at h
  | cons b bs ih =>
    simp only [findFit] at h
    by_cases hf : fits b s a = true
    · simp [hf] at h; subst h; simp [hf]
    · simp [hf] at h
      obtain ⟨h1, b', h2, h3⟩ := ih (i + 1) h
      refine ⟨by omega, b', ?_, h3⟩
      have : j - i = (j - (i + 1)) + 1 := by omega
      rw [this]; simpa using h2

/-- `used` of block `i`, 0 for a block that does not exist (yet) -/
def usedAt (ar : Arena) (i : Nat) : Nat := (ar.blocks[i]?.map (·.used)).getD 0

/-- What a successful carquet_arena_alloc_aligned guarantees. -/
structure AllocOk (ar ar' : Arena) (size a i off : Nat) : Prop where
  lower : usedAt ar i ≤ off
  upper : usedAt ar' i = off + size
  inBlock : ∃ b' : Block, ar'.blocks[i]? = some b' ∧ off + size ≤ b'.size ∧ (b'.base + off) % a = 0
  others : ∀ j, j ≠ i → usedAt ar' j = usedAt ar j
  geometry : ∀ (j : Nat) (b : Block), ar.blocks[j]? = some b → ∃ b' : Block, ar'.blocks[j]? = some b' ∧ b'.base = b.base ∧ b'.size = b.size
  inv : Inv ar'

theorem inv_set (ar : Arena) (j : Nat) (b : Block) (h : Inv ar) (hb : b.used ≤ b.size) (c : Nat) (hc : c < ar.blocks.length) :
    c < (ar.blocks.set j b).length ∧ ∀ x ∈ ar.blocks.set j b, x.used ≤ x.size := by
  refine ⟨by simpa using hc, ?_⟩
  intro x hx
  rcases List.mem_or_eq_of_mem_set hx with h1 | h1
  · exact h.2 x h1
  · subst h1; exact hb

theorem usedAt_set_self (ar : Arena) (j : Nat) (b : Block) (hj : j < ar.blocks.length) (ar' : Arena)
    (h : ar'.blocks = ar.blocks.set j b) : usedAt ar' j = b.used := by
  simp [usedAt, h, hj]

theorem usedAt_set_ne (ar : Arena) (j k : Nat) (b : Block) (hk : k ≠ j) (ar' : Arena)
    (h : ar'.blocks = ar.blocks.set j b) : usedAt ar' k = usedAt ar k := by
  simp [usedAt, h, List.getElem?_set_ne (Ne.symm hk)]

/-- the case "the request fits into an existing block `j`" -/
theorem allocOk_of_fit (ar ar' : Arena) (size a j c : Nat) (bj : Block) (hinv : Inv ar) (ha : 0 < a)
    (hbj : ar.blocks[j]? = some bj) (hfit : fits bj size a = true)
    (hblocks : ar'.blocks = ar.blocks.set j (bump bj size a)) (hcur : ar'.current = c) (hc : c < ar.blocks.length) :
    AllocOk ar ar' size a j (alignedOffset bj bj.used a) := by
  have hj : j < ar.blocks.length := by
    have := List.getElem?_eq_some_iff.mp hbj; exact this.1
  have hfit' : alignedOffset bj bj.used a + size ≤ bj.size := by simpa [fits] using hfit
  refine ⟨?_, ?_, ?_, ?_, ?_, ?_⟩
  · simp [usedAt, hbj]; exact alignedOffset_ge bj bj.used a ha
  · rw [usedAt_set_self ar j _ hj ar' hblocks]; rfl
  · refine ⟨bump bj size a, ?_, hfit', alignedOffset_aligned bj bj.used a ha⟩
    simp [hblocks, hj]
  · intro k hk; exact usedAt_set_ne ar j k _ hk ar' hblocks
  · intro k b hb
    by_cases hkj : k = j
    · subst hkj
      rw [hbj] at hb; cases hb
      exact ⟨bump bj size a, by simp [hblocks, hj], rfl, rfl⟩
    · exact ⟨b, by simp [hblocks, List.getElem?_set_ne (Ne.symm hkj), hb], rfl, rfl⟩
  · have := inv_set ar j (bump bj size a) hinv (by simpa [bump] using hfit') c hc
    exact ⟨by rw [hcur, hblocks]; exact this.1, by rw [hblocks]; exact this.2⟩

theorem blockSizeFor_ge (n : Nat) : n ≤ blockSizeFor n := by
  unfold blockSizeFor
  split
  · omega
  · exact alignUp_ge n _ (by decide)

/-- Full specification of carquet_arena_alloc_aligned on a well-formed arena. -/
theorem allocAligned_spec (ar : Arena) (size align nb : Nat) (o : Oracle) (hinv : Inv ar) :
    match allocAligned ar size align nb o with
    | (some (i, off), ar', _) => 0 < size ∧ AllocOk ar ar' size (effAlign align) i off
    | (none, ar', _) => ar' = ar := by
  unfold allocAligned
  by_cases h0 : size = 0
  · simp [h0]
  · simp only [h0, if_false]
    have ha := effAlign_pos align
    have hcur : ar.current < ar.blocks.length := hinv.1
    have hget : ar.blocks[ar.current]? = some ar.blocks[ar.current] := List.getElem?_eq_getElem hcur
    rw [hget]
    simp only
    by_cases hf : fits ar.blocks[ar.current] size (effAlign align) = true
    · simp only [hf, if_true]
      exact ⟨by omega, allocOk_of_fit ar _ size _ ar.current ar.current _ hinv ha hget hf rfl rfl hcur⟩
    · simp only [hf]
      cases hff : findFit (ar.blocks.drop (ar.current + 1)) (ar.current + 1) size (effAlign align) with
      | some j =>
        obtain ⟨hle, b, hb, hfit⟩ := findFit_some _ _ _ _ _ hff
        have hbj : ar.blocks[j]? = some b := by
          rw [List.getElem?_drop] at hb
          have : ar.current + 1 + (j - (ar.current + 1)) = j := by omega
          rwa [this] at hb
        simp only [hbj]
        have hj : j < ar.blocks.length := (List.getElem?_eq_some_iff.mp hbj).1
        exact ⟨by omega, allocOk_of_fit ar _ size _ j j b hinv ha hbj hfit rfl rfl hj⟩
      | none =>
        simp only [newBlock]
        by_cases hg : o.grant = true
        · simp only [hg, if_true]
          refine ⟨by omega, ?_⟩
          generalize hreq : (if size + effAlign align > ar.defaultBlockSize then size + effAlign align
              else ar.defaultBlockSize) = req
          have hreq' : size + effAlign align ≤ req := by rw [← hreq]; split <;> omega
          have hbs := blockSizeFor_ge req
          have hoff := alignedOffset_lt ⟨nb, blockSizeFor req, 0⟩ 0 (effAlign align) ha
          refine ⟨?_, ?_, ?_, ?_, ?_, ?_⟩
          · simp [usedAt]
          · simp [usedAt, bump]
          · refine ⟨bump ⟨nb, blockSizeFor req, 0⟩ size (effAlign align), by simp, ?_, ?_⟩
            · simp [bump]; omega
            · simpa [bump] using alignedOffset_aligned ⟨nb, blockSizeFor req, 0⟩ 0 (effAlign align) ha
          · intro k hk
            simp only [usedAt]
            by_cases hkl : k < ar.blocks.length
            · simp [List.getElem?_append_left hkl]
            · have h1 : ar.blocks[k]? = none := by simp; omega
              have h2 : (ar.blocks ++ [bump ⟨nb, blockSizeFor req, 0⟩ size (effAlign align)])[k]? = none := by
                simp; omega
              simp [h1, h2]
          · intro k b hb
            have hk : k < ar.blocks.length := (List.getElem?_eq_some_iff.mp hb).1
            exact ⟨b, by simp [List.getElem?_append_left hk, hb], rfl, rfl⟩
          · refine ⟨by simp, ?_⟩
            intro x hx
            simp only [List.mem_append, List.mem_singleton] at hx
            rcases hx with hx | hx
            · exact hinv.2 x hx
            · subst hx; simp [bump]; omega
        · simp [hg]

theorem alloc_none_unchanged (ar : Arena) (size align nb : Nat) (o : Oracle) (hinv : Inv ar)
    (h : (allocAligned ar size align nb o).1 = none) : (allocAligned ar size align nb o).2.1 = ar := by
  have := allocAligned_spec ar size align nb o hinv
  generalize allocAligned ar size align nb o = r at *
  obtain ⟨res, ar', o'⟩ := r
  cases res with
  | none => simpa using this
  | some p => simp at h

end Carquet.Impl.Alloc.Arena
