import Carquet.Proofs.ThriftStructs
/-
The two top-level parsers (`parquet_parse_file_metadata`, `parquet_parse_page_header`): on any
admitted encoding of a struct whose fields are acceptable they return OK, the value the tables
describe, and have consumed exactly the encoding.
-/
namespace Carquet.Proofs.Thrift
open Carquet.Spec.Thrift
open Carquet.Impl.Thrift
open Carquet.Impl.ThriftParquet

/-- invariant of the top-level loops on the accepted path: no early return has happened -/
def NoAbort {α : Type} (s : Top α) : Prop := s.abort = none

/-- a list-valued member of a top-level struct (`topListOf`) -/
def semTopList {α β : Type} (max : Int) (shapeE : TVal → Prop) (conv : TVal → β) (set : α → List β → α) : FieldSem (Top α) :=
  ⟨fun v => ∃ et xs, v = .list et xs ∧ (xs.length : Int) ≤ max ∧ ∀ x ∈ xs, shapeE x,
   fun s v => { s with val := set s.val ((asElems v).map conv) }⟩

theorem entry_topList {α β : Type} (body : Nat → Int → Dec → Top α → Top α × Dec) (k : Nat) (id : Int)
    (max : Int) (elem : Dec → β × Dec) (shapeE : TVal → Prop) (conv : TVal → β) (set : α → List β → α)
    (helem : ∀ x, shapeE x → ∀ b, Enc (.val x) b → Reads k elem b (conv x))
    (hbody : ∀ ty d s, d.status = none → body ty id d s = topListOf max elem set d s) :
    EntryOK NoAbort body k (id, semTopList max shapeE conv set) := by
  refine ⟨?_, ?_⟩
  · rintro b ⟨_, _, h, _⟩
    cases h
  rintro v _ ⟨et, xs, rfl, hmax, hsh⟩ bs henc s _ d r hd
  obtain ⟨hdr, body', rfl, hlen, _, hh, he⟩ := enc_list_inv henc
  have hblen : xs.length ≤ body'.length := enc_len he
  have hr0 : d.rest = hdr ++ (body' ++ r) := by rw [hd.rest]; simp
  obtain ⟨ec, _, hlb⟩ := readListBegin_hdr hh hlen d (body' ++ r) hr0 (by simp; omega)
  have hrd : Ready (d.atb (body' ++ r) (d.pos + hdr.length) d.boolValue) body' r k :=
    ⟨rfl, hd.ok, hd.nb, hd.room, by have := hd.bud; rw [hr0] at this; simp at this ⊢; omega⟩
  obtain ⟨bv, hm⟩ := readMany_elems elem conv k xs body' (fun x hx => helem x (hsh x hx)) he _ r hrd
  refine ⟨bv, ?_⟩
  show body _ id d s = _
  rw [hbody _ _ _ hd.ok]
  unfold topListOf
  have hn1 : ¬ ((xs.length : Int) < 0 ∨ max < (xs.length : Int)) := by omega
  simp only [hlb, hn1, if_false, Int.toNat_natCast, hm, atb_atb, atb_pos, List.length_append]
  rw [show d.pos + hdr.length + body'.length = d.pos + (hdr.length + body'.length) from by omega]
  rfl

theorem foldl_inv {σ : Type} (Inv : σ → Prop) (step : σ → Int → TVal → σ) (h : ∀ s id v, Inv s → Inv (step s id v)) :
    ∀ (fs : List (Int × TVal)) (s : σ), Inv s → Inv (fs.foldl (fun s f => step s f.1 f.2) s) := by
  intro fs
  induction fs with
  | nil => intro s hs; exact hs
  | cons f r ih => intro s hs; exact ih _ (h s f.1 f.2 hs)

/-- the shared frame of the two top-level parsers -/
theorem topParse_by_table {α : Type} (tbl : Table (Top α)) (hinv : ∀ e ∈ tbl, ∀ s v, NoAbort s → NoAbort (e.2.upd s v))
    (body : Nat → Int → Dec → Top α → Top α × Dec) (R : Nat) (hR : R + 1 ≤ maxNesting)
    (hentries : ∀ e ∈ tbl, EntryOK NoAbort body R e)
    (hunknown : ∀ id, id ∉ tbl.map (·.1) → ∀ ty d s, d.status = none → body ty id d s = (s, skipField Cfg.fixed ty d))
    (init : α) (fs : List (Int × TVal)) (bs : List UInt8) (henc : Enc (.val (.struct fs)) bs)
    (hok : ∀ f ∈ fs, okT tbl R f.1 f.2) (r : List UInt8) :
    ∃ res : ParseResult α, topParse body init (bs ++ r) = res ∧ res.status = none ∧
      res.val = (ofFields tbl ⟨init, none⟩ fs).val ∧ res.consumed = bs.length ∧ res.overlay = false := by
  obtain ⟨hstep, hb, hv⟩ := loop_by_table (fun s : Top α => s.abort.isSome) NoAbort
    (fun s hs => by unfold NoAbort at hs; simp [hs]) tbl hinv body R (by omega) hentries hunknown fs hok
  obtain ⟨body', rfl, hf⟩ := enc_struct_inv henc
  have hlen : fs.length ≤ body'.length := enc_len hf
  have hsb : structBegin (Dec.init (body' ++ [0] ++ r))
      = ⟨body' ++ [0] ++ r, 0, [0], false, false, none, false, (body' ++ [0] ++ r).length + 1⟩ := rfl
  obtain ⟨bv, hl⟩ := fieldLoop_reads (fun s : Top α => s.abort.isSome) NoAbort
    (fun s hs => by unfold NoAbort at hs; simp [hs]) body (stepT tbl) hstep R fs 0 body' hf hb hv
    ((body' ++ [0] ++ r).length + 1)
    (⟨body' ++ [0] ++ r, 0, [0], false, false, none, false, (body' ++ [0] ++ r).length + 1⟩ : Dec) r ⟨init, none⟩ [] rfl
    (by simp) rfl rfl rfl (by simp only [List.length_nil]; omega) (by simp) (by simp; omega)
  have hfin : NoAbort (fs.foldl (fun s f => stepT tbl s f.1 f.2) (⟨init, none⟩ : Top α)) :=
    foldl_inv NoAbort (stepT tbl) hstep fs _ rfl
  unfold NoAbort at hfin
  have hres : topParse body init (body' ++ [0] ++ r) =
      ⟨none, (fs.foldl (fun s f => stepT tbl s f.1 f.2) (⟨init, none⟩ : Top α)).val, (body' ++ [0]).length, false⟩ := by
    unfold topParse
    rw [hsb, hl]
    unfold topFinish
    simp only [hfin]
    simp [structEnd, Dec.upd]
  exact ⟨_, hres, rfl, rfl, rfl, rfl⟩

/-! ### FileMetaData -/

def tblFileMeta (R : Nat) : Table (Top (FileMetaData × Required)) :=
  [(1, semI32 (fun s x => { s with val := ({ s.val.1 with version := x }, { s.val.2 with version := true }) })),
   (2, semTopList maxSchemaElements (isStructOf (tblSchema R) (R + 3)) (fun v => ofFields (tblSchema R) {} (asFields v))
         (fun m xs => ({ m.1 with schema := xs }, { m.2 with schema := true }))),
   (3, semI64 (fun s x => { s with val := ({ s.val.1 with numRows := x }, { s.val.2 with numRows := true }) })),
   (4, semTopList maxRowGroups (isStructOf (tblRowGroup R) (R + 3)) (fun v => ofFields (tblRowGroup R) {} (asFields v))
         (fun m xs => ({ m.1 with rowGroups := xs }, { m.2 with rowGroups := true }))),
   (5, semTopList maxKeyValuePairs (isStructOf tblKV R) (fun v => ofFields tblKV {} (asFields v))
         (fun m xs => ({ m.1 with keyValueMetadata := xs }, m.2))),
   (6, semStr (fun s x => { s with val := ({ s.val.1 with createdBy := x }, s.val.2) }))]

/-- what `parquet_parse_file_metadata` makes of a field list: the structure and which required
fields were met -/
def ofFileMetaFields (R : Nat) (fs : List (Int × TVal)) : FileMetaData × Required :=
  (ofFields (tblFileMeta R) ⟨({}, {}), none⟩ fs).val

theorem parseFileMetaData_reads (R : Nat) (hR : R + 5 ≤ maxNesting) (fs : List (Int × TVal)) (bs : List UInt8)
    (henc : Enc (.val (.struct fs)) bs) (hok : okFields (tblFileMeta R) (R + 4) fs)
    (hreq : (ofFileMetaFields R fs).2.all = true) (r : List UInt8) :
    parseFileMetaDataX Cfg.fixed (bs ++ r) = ⟨none, (ofFileMetaFields R fs).1, bs.length, false⟩ := by
  obtain ⟨res, hres, h1, h2, h3, h4⟩ := topParse_by_table (tblFileMeta R) (by
      intro e he s v hs
      simp only [tblFileMeta, List.mem_cons, List.not_mem_nil, or_false] at he
      rcases he with rfl | rfl | rfl | rfl | rfl | rfl <;> exact hs)
    (fileMetaDataBody Cfg.fixed) (R + 4) (by omega) (by
      intro e he
      simp only [tblFileMeta, List.mem_cons, List.not_mem_nil, or_false] at he
      rcases he with rfl | rfl | rfl | rfl | rfl | rfl
      · apply entry_i32; intro _ d s hs; simp only [fileMetaDataBody, hs]; rfl
      · apply entry_topList _ _ _ maxSchemaElements (parseSchemaElement Cfg.fixed)
        · rintro x ⟨fs', rfl, hok'⟩ b hb; exact parseSchemaElement_reads R (by omega) fs' b hb hok'
        · intro _ d s hs; simp only [fileMetaDataBody, hs]; rfl
      · apply entry_i64; intro _ d s hs; simp only [fileMetaDataBody, hs]; rfl
      · apply entry_topList _ _ _ maxRowGroups (parseRowGroup Cfg.fixed)
        · rintro x ⟨fs', rfl, hok'⟩ b hb; exact parseRowGroup_reads R (by omega) fs' b hb hok'
        · intro _ d s hs; simp only [fileMetaDataBody, hs]; rfl
      · apply entry_topList _ _ _ maxKeyValuePairs (parseKeyValue Cfg.fixed)
        · rintro x ⟨fs', rfl, hok'⟩ b hb
          exact (parseKeyValue_reads R (by omega) fs' b hb hok').weaken (by omega)
        · intro _ d s hs; simp only [fileMetaDataBody, hs]; rfl
      · apply entry_str; intro _ d s hs; simp only [fileMetaDataBody, hs]; rfl)
    (by
      intro id hid ty d s hs
      simp [tblFileMeta] at hid
      simp [fileMetaDataBody, hs, hid])
    (({}, {}) : FileMetaData × Required) fs bs henc hok r
  unfold parseFileMetaDataX
  rw [hres]
  obtain ⟨st, v, n, ov⟩ := res
  simp only at h1 h2 h3 h4
  subst h1 h2 h3 h4
  unfold ofFileMetaFields at hreq ⊢
  simp only [requiredCheck, hreq, if_true]

/-! ### PageHeader -/

def tblPageHeader (R : Nat) : Table (Top (PageHeader × Seen)) :=
  [(1, semI32 (fun s x => { s with val := ({ s.val.1 with type := x }, s.val.2) })),
   (2, semI32 (fun s x => { s with val := ({ s.val.1 with uncompressedPageSize := x }, s.val.2) })),
   (3, semI32 (fun s x => { s with val := ({ s.val.1 with compressedPageSize := x }, s.val.2) })),
   (4, semI32 (fun s x => { s with val := ({ s.val.1 with crc := some x }, s.val.2) })),
   (5, semStructS (okFields (tblDataPage R) (R + 1)) (fun s fs => ofFields (tblDataPage R) s.val.1.dataPageHeader fs)
         (fun s m => { s with val := ({ s.val.1 with dataPageHeader := m }, { s.val.2 with data := true }) })),
   (7, semStructS (okFields tblDictPage R) (fun s fs => ofFields tblDictPage s.val.1.dictionaryPageHeader fs)
         (fun s m => { s with val := ({ s.val.1 with dictionaryPageHeader := m }, { s.val.2 with dict := true }) })),
   (8, semStructS (okFields (tblDataPageV2 R) (R + 1))
         (fun s fs => ofFields (tblDataPageV2 R) { s.val.1.dataPageHeaderV2 with isCompressed := true } fs)
         (fun s m => { s with val := ({ s.val.1 with dataPageHeaderV2 := m }, { s.val.2 with v2 := true }) }))]

theorem parsePageHeaderTop_reads (R : Nat) (hR : R + 3 ≤ maxNesting) (fs : List (Int × TVal)) (bs : List UInt8)
    (henc : Enc (.val (.struct fs)) bs) (hok : okFields (tblPageHeader R) (R + 2) fs) (r : List UInt8) :
    ∃ res, topParse (pageHeaderBody Cfg.fixed) (({}, {}) : PageHeader × Seen) (bs ++ r) = res ∧ res.status = none ∧
      res.val = (ofFields (tblPageHeader R) ⟨({}, {}), none⟩ fs).val ∧ res.consumed = bs.length ∧ res.overlay = false := by
  refine topParse_by_table (tblPageHeader R) ?_ (pageHeaderBody Cfg.fixed) (R + 2) (by omega) ?_ ?_ _ fs bs henc hok r
  · intro e he s v hs
    simp only [tblPageHeader, List.mem_cons, List.not_mem_nil, or_false] at he
    rcases he with rfl | rfl | rfl | rfl | rfl | rfl | rfl <;> exact hs
  · intro e he
    simp only [tblPageHeader, List.mem_cons, List.not_mem_nil, or_false] at he
    rcases he with rfl | rfl | rfl | rfl | rfl | rfl | rfl
    · apply entry_i32; intro _ d s hs; simp only [pageHeaderBody, hs]; rfl
    · apply entry_i32; intro _ d s hs; simp only [pageHeaderBody, hs]; rfl
    · apply entry_i32; intro _ d s hs; simp only [pageHeaderBody, hs]; rfl
    · apply entry_i32; intro _ d s hs; simp only [pageHeaderBody, hs]; rfl
    · apply entry_structS _ _ _ _ (fun s d => parseStruct (dataPageHeaderBody Cfg.fixed) s.val.1.dataPageHeader d)
      · intro s fs' bs' he' hok'; exact parseDataPage_reads R (by omega) _ fs' bs' he' hok'
      · intro _ d s hs; simp only [pageHeaderBody, hs]; rfl
    · apply entry_structS _ _ _ _ (fun s d => parseStruct (dictionaryPageHeaderBody Cfg.fixed) s.val.1.dictionaryPageHeader d)
      · intro s fs' bs' he' hok'
        exact (parseDictPage_reads R (by omega) _ fs' bs' he' hok').weaken (by omega)
      · intro _ d s hs; simp only [pageHeaderBody, hs]; rfl
    · apply entry_structS _ _ _ _
        (fun s d => parseStruct (dataPageHeaderV2Body Cfg.fixed) { s.val.1.dataPageHeaderV2 with isCompressed := true } d)
      · intro s fs' bs' he' hok'; exact parseDataPageV2_reads R (by omega) _ fs' bs' he' hok'
      · intro _ d s hs; simp only [pageHeaderBody, hs]; rfl
  · intro id hid ty d s hs
    simp [tblPageHeader] at hid
    simp [pageHeaderBody, hs, hid]

end Carquet.Proofs.Thrift
