import Carquet.Impl.ColumnReader
/-
Fuel bounds for the two `while` loops of the column reader model (for every variant of the code
and every state): `readLoop` never needs more than `k - total_read + 1` iterations, `skipLoop`
never more than `n - total_skipped + 1`; beyond that the result does not depend on the fuel.
-/
namespace Carquet.Proofs.Cursor
open Carquet.Impl.ColumnReader

theorem toInt32_le (m : Int) (h : 0 ≤ m) : toInt32 m ≤ m := by
  unfold toInt32; omega

/-- a successful `carquet_read_next_page` returns at most `max_values` rows -/
theorem readNextPage_rows_le (fx : Fixes) (r : Reader α) (m : Int) (hm : 0 ≤ m) (r' : Reader α) (c : PageCopy α)
    (h : readNextPage fx r m = (r', .ok c)) : (c.rows : Int) ≤ m := by
  unfold readNextPage at h
  cases hp : preparePage fx r with
  | mk r1 e =>
    rw [hp] at h
    cases e with
    | some e => simp at h
    | none =>
      simp only at h
      split at h
      · simp at h
      · rename_i hneg
        simp only [Prod.mk.injEq, Except.ok.injEq] at h
        rw [← h.2]
        simp only [pageCopy]
        have h1 : toCopyOf r1 m ≤ toInt32 m := by
          unfold toCopyOf; split <;> omega
        have h2 := toInt32_le m hm
        omega

/-- **fuel bound for the read loop** -/
theorem readLoop_fuel (fx : Fixes) (wd wr : Bool) (k : Nat) : ∀ (f1 f2 : Nat) (r : Reader α) (st : LoopSt α),
    k - st.totalRead < f1 → k - st.totalRead < f2 →
    readLoop fx wd wr k f1 r st = readLoop fx wd wr k f2 r st := by
  intro f1
  induction f1 with
  | zero => intro f2 r st h; omega
  | succ f1 ih =>
    intro f2 r st h1 h2
    cases f2 with
    | zero => omega
    | succ f2 =>
      unfold readLoop
      split
      · rename_i hc
        cases hrn : readNextPage fx r ((k : Int) - (st.totalRead : Int)) with
        | mk r' res =>
          cases res with
          | error e => rfl
          | ok c =>
            simp only
            split
            · rfl
            · rename_i hc0
              have hle := readNextPage_rows_le fx r _ (by omega) r' c hrn
              have htr : (st.push fx wd wr c).totalRead = st.totalRead + c.rows := rfl
              exact ih f2 r' _ (by rw [htr]; omega) (by rw [htr]; omega)
      · rfl

/-- the read loop never reports more than `k` rows -/
theorem readLoop_count_le (fx : Fixes) (wd wr : Bool) (k : Nat) : ∀ (fuel : Nat) (r : Reader α) (st : LoopSt α),
    st.totalRead ≤ k → (readLoop fx wd wr k fuel r st).2.count ≤ k := by
  intro fuel
  induction fuel with
  | zero => intro r st h; simp [readLoop, LoopSt.result]; omega
  | succ fuel ih =>
    intro r st h
    unfold readLoop
    split
    · rename_i hc
      cases hrn : readNextPage fx r ((k : Int) - (st.totalRead : Int)) with
      | mk r' res =>
        cases res with
        | error e =>
          simp only
          split <;> simp [LoopSt.result] <;> omega
        | ok c =>
          simp only
          split
          · simp [LoopSt.result]; omega
          · have hle := readNextPage_rows_le fx r _ (by omega) r' c hrn
            have htr : (st.push fx wd wr c).totalRead = st.totalRead + c.rows := rfl
            exact ih r' _ (by rw [htr]; omega)
    · simp [LoopSt.result]; omega

theorem readBatch_count_le (fx : Fixes) (r : Reader α) (k : Nat) (wd wr : Bool) :
    (readBatch fx r (k : Int) wd wr).2.count ≤ k := by
  unfold readBatch
  split
  · simp
  · split
    · split <;> simp
    · split
      · simp [LoopSt.result]
      · simp only [Int.toNat_natCast]
        exact readLoop_count_le fx wd wr k _ _ _ (by simp [LoopSt.init])

/-- **fuel bound for the skip loop** -/
theorem skipLoop_fuel (fx : Fixes) (n : Nat) : ∀ (f1 f2 : Nat) (r : Reader α) (total : Nat),
    n - total < f1 → n - total < f2 → skipLoop fx n f1 r total = skipLoop fx n f2 r total := by
  intro f1
  induction f1 with
  | zero => intro f2 r total h; omega
  | succ f1 ih =>
    intro f2 r total h1 h2
    cases f2 with
    | zero => omega
    | succ f2 =>
      unfold skipLoop
      split
      · rename_i hc
        have hle := readBatch_count_le fx r (min (n - total) Gen.Cursor.skipChunkSize) false false
        cases hrb : readBatch fx r ((min (n - total) Gen.Cursor.skipChunkSize : Nat) : Int) false false with
        | mk r' res =>
          rw [hrb] at hle
          simp only at hle ⊢
          split
          · rfl
          · rename_i hpos
            exact ih f2 r' _ (by omega) (by omega)
      · rfl

end Carquet.Proofs.Cursor
