import Carquet.Proofs.ThriftWriteStructs
import Carquet.Spec.ParquetThriftPageIndex
/-
The two serialisers of metadata/page_index.c against the compact protocol:
`carquet_offset_index_serialize` writes the canonical encoding of `offsetIndexWrittenTV`,
`carquet_column_index_serialize` writes an admitted encoding of `columnIndexTV` (canonical except
that `thrift_write_bool` spells a false list element 0 where the canonical encoder writes 2).
-/
namespace Carquet.Proofs.Thrift
open Carquet.Spec.Thrift Carquet.Spec.ParquetThrift
open Carquet.Impl.Thrift
open Carquet.Impl.ThriftParquet Carquet.Impl.ThriftPageIndex

/-! ### OffsetIndex -/

theorem pageLocation_ok (p : OIPage) : ValW 1 (fun e => writePageLocation e p) (pageLocationTV p) :=
  ValW.struct _ _ (((stepI64 0 1 (by omega) (by omega) p.offset).comp
    (stepI32 0 2 (by omega) (by omega) p.compressedSize)).comp
    (stepI64 0 3 (by omega) (by omega) p.firstRowIndex))

theorem pageLocations_field (b : OffsetIndexB) (hlen : b.pages.length < 2 ^ 31) :
    FieldsW 1 (fun e => wEach writePageLocation (writeListBegin (writeFieldHeader e tList 1) tStruct b.pages.length) b.pages)
      (f1 1 (.list .struct (b.pages.map pageLocationTV))) :=
  FieldsW.field 1 (by omega) (by omega) tList
    (fun e => wEach writePageLocation (writeListBegin e tStruct b.pages.length) b.pages)
    (.list .struct (b.pages.map pageLocationTV)) (by simp [TVal.ty]) rfl
    (ValW.list .struct writePageLocation pageLocationTV b.pages hlen (fun p _ => pageLocation_ok p))

theorem intList_field (k : Nat) (id : Int) (h0 : 0 ≤ id) (h1 : id ≤ 32767) (et : TType) (code : Nat) (hcode : code = et.code)
    (mk : Int → TVal) (hmk : ∀ x, ValW 0 (fun e => writeI e x) (mk x)) (hty : ∀ xs : List Int, (TVal.list et (xs.map mk)).ty ≠ .bool)
    (xs : List Int) (hn : xs.length < 2 ^ 31) :
    FieldsW k (fun e => wEach writeI (writeListBegin (writeFieldHeader e tList id) code (xs.length : Int)) xs)
      (f1 id (.list et (xs.map mk))) := by
  subst hcode
  have hv : ValW k (fun e => wEach writeI (writeListBegin e et.code (xs.length : Int)) xs) (.list et (xs.map mk)) :=
    (ValW.list et writeI mk xs hn (fun x _ => hmk x)).mono (Nat.zero_le k)
  exact FieldsW.field id h0 h1 tList _ _ (hty xs) rfl hv

theorem uncompressedSizes_field (b : OffsetIndexB) (hlen : b.pages.length < 2 ^ 31) :
    FieldsW 1 (fun e => wUncompressedSizes e b)
      (if b.trackUncompressed then f1 2 (.list .i32 (b.pages.map (fun p => .i32 p.uncompressedSize))) else []) := by
  unfold wUncompressedSizes
  cases b.trackUncompressed with
  | false => exact FieldsW.nil 1
  | true =>
    simp only [if_true]
    have hl : (b.pages.map (·.uncompressedSize)).length = b.pages.length := List.length_map _
    have h := intList_field 1 2 (by omega) (by omega) .i32 tI32 rfl .i32 ValW.i32 (fun _ => by simp [TVal.ty])
      (b.pages.map (·.uncompressedSize)) (by rw [hl]; exact hlen)
    rw [hl, List.map_map] at h
    exact h

/-- before the F70 repair: the canonical encoding of a struct with a second, non-standard field -/
theorem writeOffsetIndexPreFix_eq (b : OffsetIndexB) (hlen : b.pages.length < 2 ^ 31) :
    writeOffsetIndexPreFix b = encode (offsetIndexWrittenTV b) := by
  have h := ValW.struct _ _ ((pageLocations_field b hlen).comp (uncompressedSizes_field b hlen))
  obtain ⟨h1, _, _⟩ := h Enc.init rfl (by simp [Enc.init, maxNesting])
  have e0 : Enc.init.out = [] := rfl
  rw [e0, List.nil_append] at h1
  exact h1

/-- `carquet_offset_index_serialize` (repaired) appends the canonical encoding of the OffsetIndex value -/
theorem writeOffsetIndex_eq (b : OffsetIndexB) (hlen : b.pages.length < 2 ^ 31) :
    writeOffsetIndex b = encode (offsetIndexTV b) ∧ writeOffsetIndexStatus b = none := by
  have h := ValW.struct _ _ (pageLocations_field b hlen)
  obtain ⟨h1, _, h3⟩ := h Enc.init rfl (by simp [Enc.init, maxNesting])
  refine ⟨?_, h3⟩
  have e0 : Enc.init.out = [] := rfl
  rw [e0, List.nil_append] at h1
  exact h1

theorem wfElems_map {α : Type} (et : TType) (tv : α → TVal) (xs : List α)
    (h : ∀ x ∈ xs, (tv x).ty = et ∧ (tv x).wf = true) : wfElems et (xs.map tv) = true := by
  induction xs with
  | nil => rfl
  | cons x r ih =>
    obtain ⟨h1, h2⟩ := h x List.mem_cons_self
    simp only [List.map_cons, wfElems, h1, h2, decide_true, Bool.true_and]
    exact ih (fun y hy => h y (List.mem_cons_of_mem _ hy))

theorem pageLocationTV_wf (p : OIPage) (h : p.wf = true) : (pageLocationTV p).wf = true := by
  simp only [OIPage.wf, isI64, isI32, Bool.and_eq_true, decide_eq_true_eq] at h
  simp [pageLocationTV, f1, TVal.wf, wfFields, inI16, inI32, inI64, h]

theorem offsetIndexTV_wf (b : OffsetIndexB) (h : b.wf = true) : (offsetIndexTV b).wf = true := by
  simp only [OffsetIndexB.wf, Bool.and_eq_true, decide_eq_true_eq, List.all_eq_true] at h
  obtain ⟨hp, hl⟩ := h
  have hl' : b.pages.length < 2 ^ 31 := by
    have : (2:Nat) ^ 31 = 2147483648 := by decide
    omega
  have h1 : wfElems .struct (b.pages.map pageLocationTV) = true :=
    wfElems_map _ _ _ (fun p hm => ⟨rfl, pageLocationTV_wf p (hp p hm)⟩)
  simp [offsetIndexTV, f1, TVal.wf, wfFields, inI16, h1, hl']

theorem offsetIndexWrittenTV_wf (b : OffsetIndexB) (h : b.wf = true) : (offsetIndexWrittenTV b).wf = true := by
  simp only [OffsetIndexB.wf, Bool.and_eq_true, decide_eq_true_eq, List.all_eq_true] at h
  obtain ⟨hp, hl⟩ := h
  have hl' : b.pages.length < 2 ^ 31 := by
    have : (2:Nat) ^ 31 = 2147483648 := by decide
    omega
  have h1 : wfElems .struct (b.pages.map pageLocationTV) = true :=
    wfElems_map _ _ _ (fun p hm => ⟨rfl, pageLocationTV_wf p (hp p hm)⟩)
  have h2 : wfElems .i32 (b.pages.map (fun p => TVal.i32 p.uncompressedSize)) = true :=
    wfElems_map _ _ _ (fun p hm => by
      have := hp p hm
      simp only [OIPage.wf, isI64, isI32, Bool.and_eq_true, decide_eq_true_eq] at this
      exact ⟨rfl, by simp [TVal.wf, inI32, this]⟩)
  unfold offsetIndexWrittenTV
  cases b.trackUncompressed <;>
    simp [f1, TVal.wf, wfFields, inI16, h1, h2, hl']

/-! ### ColumnIndex -/

/-- what `thrift_write_bool` writes for the elements of the null_pages list -/
def boolBytes (bs : List Bool) : List UInt8 := bs.map (fun b => if b then 1 else 0)

/-- the list header `thrift_write_list_begin(enc, THRIFT_TYPE_TRUE, n)` writes -/
def boolListHdr (n : Nat) : List UInt8 := if n < 15 then shortListHdr 1 n else longListHdr 1 n

theorem wEach_writeBool (bs : List Bool) : ∀ e : Enc,
    (wEach writeBool e bs).out = e.out ++ boolBytes bs ∧ (wEach writeBool e bs).lastId = e.lastId ∧
      (wEach writeBool e bs).status = e.status := by
  induction bs with
  | nil => intro e; simp [wEach, boolBytes]
  | cons b r ih =>
    intro e
    obtain ⟨h1, h2, h3⟩ := ih (writeBool e b)
    simp only [wEach, List.foldl_cons] at h1 h2 h3 ⊢
    refine ⟨?_, by rw [h2]; simp [writeBool, writeByte], by rw [h3]; simp [writeBool, writeByte]⟩
    rw [h1]
    cases b <;> simp [writeBool, writeByte, boolBytes]

theorem writeListBegin_bool (e : Enc) (n : Nat) (hn : n < 2 ^ 31) :
    (writeListBegin e (tBool true) (n : Int)).out = e.out ++ boolListHdr n ∧
    (writeListBegin e (tBool true) (n : Int)).lastId = e.lastId ∧
    (writeListBegin e (tBool true) (n : Int)).status = e.status := by
  have h31 : (2:Nat)^31 = 2147483648 := by decide
  rw [h31] at hn
  unfold writeListBegin boolListHdr
  by_cases h15 : n < 15
  · have : ((n : Int) < 15) := by omega
    have hm : ((n : Int) % 16).toNat = n := by omega
    simp [this, h15, writeByte, shortListHdr, hm, tBool]
  · have : ¬ ((n : Int) < 15) := by omega
    have hu := toU64_nat n (Nat.lt_trans hn (by decide))
    simp [this, h15, writeByte, writeVarint, longListHdr, varintBytes_eq, hu, tBool]

theorem nullPages_field (e : Enc) (stk : List Int) (hl : e.lastId = 0 :: stk) (bs : List Bool) (hn : bs.length < 2 ^ 31) :
    (wEach writeBool (writeListBegin (writeFieldHeader e tList 1) (tBool true) (bs.length : Int)) bs).out =
      e.out ++ fieldHdr 0 1 9 ++ boolListHdr bs.length ++ boolBytes bs ∧
    (wEach writeBool (writeListBegin (writeFieldHeader e tList 1) (tBool true) (bs.length : Int)) bs).lastId = 1 :: stk ∧
    (wEach writeBool (writeListBegin (writeFieldHeader e tList 1) (tBool true) (bs.length : Int)) bs).status = e.status := by
  obtain ⟨a1, a2, a3⟩ := writeFieldHeader_spec e tList 1 0 stk hl (by simp [tList]) (by omega) (by omega) (by omega) (by omega)
  obtain ⟨b1, b2, b3⟩ := writeListBegin_bool (writeFieldHeader e tList 1) bs.length hn
  obtain ⟨c1, c2, c3⟩ := wEach_writeBool bs (writeListBegin (writeFieldHeader e tList 1) (tBool true) (bs.length : Int))
  refine ⟨by rw [c1, b1, a1]; rfl, by rw [c2, b2, a2], by rw [c3, b3, a3]⟩

/-- fields 2..5 of the ColumnIndex value -/
def columnIndexRest (b : ColumnIndexB) : Fields :=
  f1 2 (.list .binary (b.pages.map (fun p => boundTV p.minV))) ++
  f1 3 (.list .binary (b.pages.map (fun p => boundTV p.maxV))) ++
  f1 4 (.i32 b.boundaryOrder) ++
  f1 5 (.list .i64 (b.pages.map (fun p => .i64 p.nullCount)))

theorem optBin_ok (o : Option Bytes) : ValW 0 (fun e => writeOptBin e o) (boundTV o) := by
  cases o with
  | none => exact ValW.binary []
  | some x => exact ValW.binary x

theorem boundList_field (id : Int) (h0 : 0 ≤ id) (h1 : id ≤ 32767) (os : List (Option Bytes)) (hn : os.length < 2 ^ 31) :
    FieldsW 0 (fun e => wEach writeOptBin (writeListBegin (writeFieldHeader e tList id) tBinary (os.length : Nat)) os)
      (f1 id (.list .binary (os.map boundTV))) :=
  FieldsW.field id h0 h1 tList (fun e => wEach writeOptBin (writeListBegin e tBinary (os.length : Nat)) os)
    (.list .binary (os.map boundTV)) (by simp [TVal.ty]) rfl
    (ValW.list .binary writeOptBin boundTV os hn (fun o _ => optBin_ok o))

theorem columnIndexRest_ok (b : ColumnIndexB) (hlen : b.pages.length < 2 ^ 31) :
    FieldsW 0 (fun e =>
      wEach writeI (writeListBegin (writeFieldHeader
        (wI
          (wEach writeOptBin (writeListBegin (writeFieldHeader
            (wEach writeOptBin (writeListBegin (writeFieldHeader e tList 2) tBinary b.pages.length) (b.pages.map (·.minV)))
            tList 3) tBinary b.pages.length) (b.pages.map (·.maxV)))
          tI32 4 b.boundaryOrder)
        tList 5) tI64 b.pages.length) (b.pages.map (·.nullCount)))
      (columnIndexRest b) := by
  have l1 : (b.pages.map (·.minV)).length = b.pages.length := List.length_map _
  have l2 : (b.pages.map (·.maxV)).length = b.pages.length := List.length_map _
  have l3 : (b.pages.map (·.nullCount)).length = b.pages.length := List.length_map _
  have f2 := boundList_field 2 (by omega) (by omega) (b.pages.map (·.minV)) (by rw [l1]; exact hlen)
  have f3 := boundList_field 3 (by omega) (by omega) (b.pages.map (·.maxV)) (by rw [l2]; exact hlen)
  have f4 := stepI32 0 4 (by omega) (by omega) b.boundaryOrder
  have f5 := intList_field 0 5 (by omega) (by omega) .i64 tI64 rfl .i64 ValW.i64 (fun _ => by simp [TVal.ty])
    (b.pages.map (·.nullCount)) (by rw [l3]; exact hlen)
  rw [l1, List.map_map] at f2
  rw [l2, List.map_map] at f3
  rw [l3, List.map_map] at f5
  exact ((f2.comp f3).comp f4).comp f5

/-- the bytes `carquet_column_index_serialize` appends -/
theorem writeColumnIndex_bytes (b : ColumnIndexB) (hlen : b.pages.length < 2 ^ 31) :
    writeColumnIndex b = fieldHdr 0 1 9 ++ boolListHdr b.pages.length ++ boolBytes (b.pages.map (·.nullPage)) ++
      encodeFields 1 (columnIndexRest b) ++ [0] ∧ writeColumnIndexStatus b = none := by
  have l0 : (b.pages.map (·.nullPage)).length = b.pages.length := List.length_map _
  have hb : writeStructBegin Enc.init = { Enc.init with lastId := [0] } := by
    simp [writeStructBegin, Enc.init, maxNesting]
  obtain ⟨a1, a2, a3⟩ := nullPages_field { Enc.init with lastId := [0] } [] rfl (b.pages.map (·.nullPage))
    (by rw [l0]; exact hlen)
  rw [l0] at a1 a2 a3
  obtain ⟨r1, r2, r3, _, _⟩ := columnIndexRest_ok b hlen _ 1 [] a2 (by rw [a3]; rfl) (by omega) (by omega)
    (by simp [maxNesting])
  unfold writeColumnIndex writeColumnIndexStatus writeColumnIndexEnc
  rw [hb]
  refine ⟨?_, ?_⟩
  · rw [writeStructEnd_out, r1, a1]
    simp [Enc.init, Enc.out]
  · simp [writeStructEnd, writeFieldStop, writeByte, r3]

theorem enc_boolElems (bs : List Bool) : Enc (.elems (bs.map TVal.bool)) (boolBytes bs) := by
  induction bs with
  | nil => exact Enc.elemsNil
  | cons b r ih =>
    have : boolBytes (b :: r) = [if b then 1 else 0] ++ boolBytes r := rfl
    rw [List.map_cons, this]
    refine Enc.elemsCons ?_ ih
    cases b
    · exact Enc.boolF0
    · exact Enc.boolT

theorem boolListHdr_ok (n : Nat) : ListHdr .bool n (boolListHdr n) := by
  unfold boolListHdr ListHdr
  refine ⟨1, Or.inr ⟨rfl, rfl⟩, ?_⟩
  split
  · rename_i h; exact Or.inl ⟨h, rfl⟩
  · exact Or.inr rfl

theorem columnIndexRest_wf (b : ColumnIndexB) (h : b.wf = true) : wfFields (columnIndexRest b) = true := by
  simp only [ColumnIndexB.wf, Bool.and_eq_true, decide_eq_true_eq, List.all_eq_true, isI32] at h
  obtain ⟨⟨hp, hl⟩, ho⟩ := h
  have hl' : b.pages.length < 2 ^ 31 := by
    have : (2:Nat) ^ 31 = 2147483648 := by decide
    omega
  have hb : ∀ (sel : CIPage → Option Bytes), (∀ p ∈ b.pages, okOpt (fun x => isBin x && !x.isEmpty) (sel p) = true) →
      wfElems .binary (b.pages.map (fun p => boundTV (sel p))) = true := by
    intro sel hs
    refine wfElems_map _ _ _ (fun p hm => ⟨rfl, ?_⟩)
    have := hs p hm
    cases hsel : sel p with
    | none => simp [boundTV, TVal.wf]
    | some x =>
      rw [hsel] at this
      simp only [okOpt, isBin, Bool.and_eq_true, decide_eq_true_eq] at this
      have h31 : (2:Nat) ^ 31 = 2147483648 := by decide
      simp [boundTV, TVal.wf, h31, this.1]
  have h2 := hb (·.minV) (fun p hm => by
    have := hp p hm; simp only [CIPage.wf, Bool.and_eq_true] at this; exact this.1.2)
  have h3 := hb (·.maxV) (fun p hm => by
    have := hp p hm; simp only [CIPage.wf, Bool.and_eq_true] at this; exact this.2)
  have h5 : wfElems .i64 (b.pages.map (fun p => TVal.i64 p.nullCount)) = true :=
    wfElems_map _ _ _ (fun p hm => by
      have := hp p hm
      simp only [CIPage.wf, isI64, Bool.and_eq_true, decide_eq_true_eq] at this
      exact ⟨rfl, by simp [TVal.wf, inI64, this.1.1]⟩)
  simp [columnIndexRest, f1, wfFields, TVal.wf, inI16, inI32, h2, h3, h5, hl', ho]

/-- **`carquet_column_index_serialize` writes an admitted compact-protocol encoding of the
ColumnIndex value** (canonical except for the spelling 0 of a false list element) -/
theorem writeColumnIndex_encodes (b : ColumnIndexB) (h : b.wf = true) :
    Encodes (columnIndexTV b) (writeColumnIndex b) ∧ writeColumnIndexStatus b = none := by
  have hl' : b.pages.length < 2 ^ 31 := by
    simp only [ColumnIndexB.wf, Bool.and_eq_true, decide_eq_true_eq] at h
    have : (2:Nat) ^ 31 = 2147483648 := by decide
    omega
  obtain ⟨hb, hs⟩ := writeColumnIndex_bytes b hl'
  refine ⟨?_, hs⟩
  rw [hb]
  have hrest := enc_encodeFields (columnIndexRest b) (columnIndexRest_wf b h) 1
  have hlist : Enc (.val (.list .bool (b.pages.map (fun p => TVal.bool p.nullPage))))
      (boolListHdr b.pages.length ++ boolBytes (b.pages.map (·.nullPage))) := by
    have he := enc_boolElems (b.pages.map (·.nullPage))
    rw [List.map_map] at he
    have hlen : (b.pages.map (fun p => TVal.bool p.nullPage)).length = b.pages.length := List.length_map _
    refine Enc.list (by rw [hlen]; exact hl') ?_ (by rw [hlen]; exact boolListHdr_ok _) he
    intro x hx
    obtain ⟨p, _, rfl⟩ := List.mem_map.mp hx
    rfl
  have hf : Enc (.fields 0 ((1, .list .bool (b.pages.map (fun p => TVal.bool p.nullPage))) :: columnIndexRest b))
      (fieldHdr 0 1 9 ++ (boolListHdr b.pages.length ++ boolBytes (b.pages.map (·.nullPage))) ++
        encodeFields 1 (columnIndexRest b)) :=
    Enc.fieldsCons (by unfold inI16; omega) (by simp [TVal.ty]) (fieldHdr_ok 0 1 9) hlist hrest
  have := Enc.struct hf
  simpa [Encodes, columnIndexTV, columnIndexRest, f1, List.append_assoc] using this

end Carquet.Proofs.Thrift
