import Carquet.Impl.CSem
/-
What the builtins of Impl/CSem.lean compute, in terms of `Nat.testBit` (used by Properties/C11/CFun.lean for
`carquet_ctz32`, `carquet_popcount32/64`).
-/
namespace Carquet.Proofs.CFun
open Carquet.Impl.CSem (ctzAux popAux)

/-- number of set bits among the low `w` bits of `n` -/
def bitCount (w n : Nat) : Nat := ((List.range w).filter (fun i => n.testBit i)).length

theorem bitCount_succ (w n : Nat) : bitCount (w + 1) n = n % 2 + bitCount w (n / 2) := by
  unfold bitCount
  rw [List.range_succ_eq_map, List.filter_cons, List.filter_map]
  have h0 : n.testBit 0 = decide (n % 2 = 1) := Nat.testBit_zero n
  have hs : ((fun i => n.testBit i) ∘ Nat.succ) = (fun i => (n / 2).testBit i) := by
    funext i; simp [Function.comp, Nat.testBit_succ]
  rw [hs, h0]
  by_cases h : n % 2 = 1
  · simp [h]; omega
  · have : n % 2 = 0 := by omega
    simp [this]

theorem popAux_eq (w : Nat) : ∀ n, popAux w n = bitCount w n := by
  induction w with
  | zero => intro n; rfl
  | succ w ih => intro n; rw [bitCount_succ, ← ih]; rfl

/-- `ctzAux` finds the lowest set bit of a non-zero number below `2^fuel` -/
theorem ctzAux_spec (fuel : Nat) : ∀ n, n ≠ 0 → n < 2 ^ fuel →
    ctzAux fuel n < fuel ∧ n % 2 ^ (ctzAux fuel n) = 0 ∧ n / 2 ^ (ctzAux fuel n) % 2 = 1 := by
  induction fuel with
  | zero => intro n h0 h; simp at h; omega
  | succ fuel ih =>
    intro n h0 h
    unfold ctzAux
    by_cases h1 : n % 2 = 1
    · simp [h1, Nat.mod_one]
    · have hn : n / 2 ≠ 0 := by omega
      have hl : n / 2 < 2 ^ fuel := by rw [Nat.pow_succ] at h; omega
      obtain ⟨a, b, c⟩ := ih (n / 2) hn hl
      rw [if_neg h1]
      have e : 1 + ctzAux fuel (n / 2) = ctzAux fuel (n / 2) + 1 := by omega
      rw [e]
      refine ⟨by omega, ?_, ?_⟩
      · rw [Nat.pow_succ, Nat.mul_comm]
        have : n % (2 * 2 ^ ctzAux fuel (n / 2)) = n % 2 + 2 * (n / 2 % 2 ^ ctzAux fuel (n / 2)) := Nat.mod_mul
        rw [this, b]; omega
      · rw [Nat.pow_succ, Nat.mul_comm, ← Nat.div_div_eq_div_mul]; exact c

end Carquet.Proofs.CFun
