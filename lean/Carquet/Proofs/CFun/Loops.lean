import Carquet.Impl.CSem
import Carquet.Gen.CFun
import Carquet.Proofs.CFun.Basic
/-
The four `while (v > 0) { width++; v >>= 1; }` loops among the translated functions: what the generated fuel-bounded
helpers compute, that they stay defined (`width++` does not overflow an `int`), and that the fuel given in
translate/gen_cfun.py is enough (`bitLen v < fuel`).
-/
set_option linter.unusedSimpArgs false
namespace Carquet.Proofs.CFun
open Carquet Carquet.Impl
open Carquet.Impl.CSem (bitLen)

/-- `bit_width_required` (delta.c): `uint64_t value`, `int width` -/
theorem bit_width_required_loop (fuel : Nat) : ∀ (value : BitVec 64) (width : BitVec 32),
    bitLen value.toNat < fuel → width.toNat + bitLen value.toNat < 2 ^ 31 →
    (Gen.CFun.bit_width_required_loop1 fuel value width).toNat = width.toNat + bitLen value.toNat ∧
    Gen.CFun.bit_width_required_loop1_defined fuel value width = true := by
  induction fuel with
  | zero => intro value width h; omega
  | succ fuel ih =>
    intro value width hf hw
    unfold Gen.CFun.bit_width_required_loop1 Gen.CFun.bit_width_required_loop1_defined
    -- the loop test may be spelled `value > 0` or `value != 0`
    by_cases hz0 : value = 0#64
    · subst hz0; simp [bitLen_zero]
    · have hpos : 0 < value.toNat := Nat.pos_of_ne_zero (fun e => hz0 (BitVec.eq_of_toNat_eq e))
      have hv : 0#64 < value := by rw [BitVec.lt_def]; exact hpos
      have hne : (value != 0#64) = true := by simp [hz0]
      have hb := bitLen_pos value.toNat hpos
      have hsh : (value >>> 1).toNat = value.toNat / 2 := by simp [Nat.shiftRight_eq_div_pow]
      have hw1 : (width + 1#32).toNat = width.toNat + 1 := by bv_omega
      have ok : CSem.sAddOk width 1#32 = true := sAddOk_32 _ _ (by simp; omega)
      obtain ⟨r1, r2⟩ := ih (value >>> 1) (width + 1#32) (by rw [hsh]; omega) (by rw [hsh, hw1]; omega)
      simp only [hv, hne, decide_true, if_true, ok, Bool.true_and, r1, r2, hsh, hw1]
      exact ⟨by omega, trivial⟩

/-- `bit_width_for_count` (dictionary.c): `uint32_t count`, `int width`; what follows the loop is
`return width > 0 ? width : 1` -/
theorem bit_width_for_count_loop (fuel : Nat) : ∀ (count width : BitVec 32),
    bitLen count.toNat < fuel → width.toNat + bitLen count.toNat < 2 ^ 31 →
    (Gen.CFun.bit_width_for_count_loop1 fuel count width).toNat =
      (if 0 < width.toNat + bitLen count.toNat then width.toNat + bitLen count.toNat else 1) ∧
    Gen.CFun.bit_width_for_count_loop1_defined fuel count width = true := by
  induction fuel with
  | zero => intro count width h; omega
  | succ fuel ih =>
    intro count width hf hw
    unfold Gen.CFun.bit_width_for_count_loop1 Gen.CFun.bit_width_for_count_loop1_defined
    by_cases hz0 : count = 0#32
    · subst hz0
      have hs := slt_zero_32 width (by omega)
      have hzz : (0#32 : BitVec 32).toNat = 0 := rfl
      simp only [BitVec.lt_def, Nat.lt_irrefl, decide_false, bne_self_eq_false, Bool.false_eq_true, if_false, hzz,
        bitLen_zero, Nat.add_zero, hs, and_true]
      by_cases hw0 : 0 < width.toNat <;> simp [hw0]
    · have hpos : 0 < count.toNat := Nat.pos_of_ne_zero (fun e => hz0 (BitVec.eq_of_toNat_eq e))
      have hv : 0#32 < count := by rw [BitVec.lt_def]; exact hpos
      have hne : (count != 0#32) = true := by simp [hz0]
      have hb := bitLen_pos count.toNat hpos
      have hsh : (count >>> 1).toNat = count.toNat / 2 := by simp [Nat.shiftRight_eq_div_pow]
      have hw1 : (width + 1#32).toNat = width.toNat + 1 := by bv_omega
      have ok : CSem.sAddOk width 1#32 = true := sAddOk_32 _ _ (by simp; omega)
      obtain ⟨r1, r2⟩ := ih (count >>> 1) (width + 1#32) (by rw [hsh]; omega) (by rw [hsh, hw1]; omega)
      simp only [hv, hne, decide_true, if_true, ok, Bool.true_and, r1, r2, hsh, hw1]
      refine ⟨?_, trivial⟩
      rw [hb]
      have e : width.toNat + 1 + bitLen (count.toNat / 2) = width.toNat + (bitLen (count.toNat / 2) + 1) := by omega
      rw [e]

/-- `bit_width_for_max` (page_reader.c): `int max_val` (non-negative), `int width` -/
theorem page_reader_bit_width_for_max_loop (fuel : Nat) : ∀ (m width : BitVec 32),
    m.toNat < 2 ^ 31 → bitLen m.toNat < fuel → width.toNat + bitLen m.toNat < 2 ^ 31 →
    (Gen.CFun.page_reader_bit_width_for_max_loop1 fuel m width).toNat = width.toNat + bitLen m.toNat ∧
    Gen.CFun.page_reader_bit_width_for_max_loop1_defined fuel m width = true := by
  induction fuel with
  | zero => intro m width _ h; omega
  | succ fuel ih =>
    intro m width hm hf hw
    unfold Gen.CFun.page_reader_bit_width_for_max_loop1 Gen.CFun.page_reader_bit_width_for_max_loop1_defined
    rw [slt_zero_32 m hm]
    by_cases hpos : 0 < m.toNat
    · have hb := bitLen_pos m.toNat hpos
      have hsh := sshiftRight_one_32 m hm
      have hw1 : (width + 1#32).toNat = width.toNat + 1 := by bv_omega
      have ok : CSem.sAddOk width 1#32 = true := sAddOk_32 _ _ (by simp; omega)
      obtain ⟨r1, r2⟩ := ih (BitVec.sshiftRight m 1) (width + 1#32) (by rw [hsh]; omega) (by rw [hsh]; omega)
        (by rw [hsh, hw1]; omega)
      simp only [hpos, decide_true, if_true, ok, Bool.true_and, r1, r2, hsh, hw1]
      exact ⟨by omega, trivial⟩
    · have hz : m.toNat = 0 := by omega
      simp [hz, bitLen_zero]

/-- `bit_width_for_max` (page_writer.c): `int16_t val` (non-negative) promoted to `int` for the test and the shift and
converted back, `int width`; the parameter `max_level` is carried along unchanged -/
theorem page_writer_bit_width_for_max_loop (fuel : Nat) : ∀ (ml : BitVec 16) (width : BitVec 32) (val : BitVec 16),
    val.toNat < 2 ^ 15 → bitLen val.toNat < fuel → width.toNat + bitLen val.toNat < 2 ^ 31 →
    (Gen.CFun.page_writer_bit_width_for_max_loop1 fuel ml width val).toNat = width.toNat + bitLen val.toNat ∧
    Gen.CFun.page_writer_bit_width_for_max_loop1_defined fuel ml width val = true := by
  induction fuel with
  | zero => intro ml width val _ h; omega
  | succ fuel ih =>
    intro ml width val hm hf hw
    unfold Gen.CFun.page_writer_bit_width_for_max_loop1 Gen.CFun.page_writer_bit_width_for_max_loop1_defined
    have hx := signExtend_16_32 val hm
    have hx31 : (BitVec.signExtend 32 val).toNat < 2 ^ 31 := by rw [hx]; omega
    rw [slt_zero_32 _ hx31, hx]
    by_cases hpos : 0 < val.toNat
    · have hb := bitLen_pos val.toNat hpos
      have hsh : (BitVec.setWidth 16 (BitVec.sshiftRight (BitVec.signExtend 32 val) 1)).toNat = val.toNat / 2 := by
        rw [BitVec.toNat_setWidth, sshiftRight_one_32 _ hx31, hx]; omega
      have hw1 : (width + 1#32).toNat = width.toNat + 1 := by bv_omega
      have ok : CSem.sAddOk width 1#32 = true := sAddOk_32 _ _ (by simp; omega)
      obtain ⟨r1, r2⟩ := ih ml (width + 1#32) (BitVec.setWidth 16 (BitVec.sshiftRight (BitVec.signExtend 32 val) 1))
        (by rw [hsh]; omega) (by rw [hsh]; omega) (by rw [hsh, hw1]; omega)
      simp only [hpos, decide_true, if_true, ok, Bool.true_and, r1, r2, hsh, hw1]
      exact ⟨by omega, trivial⟩
    · have hz : val.toNat = 0 := by omega
      simp [hz, bitLen_zero]

end Carquet.Proofs.CFun
