import Carquet.Impl.CSem
import Carquet.Impl.Buffer
import Carquet.Impl.Arena
import Carquet.Gen.CFun
/-
Helper lemmas for Properties/C19/CFun.lean (link between the translated `next_power_of_two` / `align_up` and the
`Impl.Alloc` models).
-/
namespace Carquet.Proofs.CFun.C19
open Carquet Carquet.Impl

theorem orShift_lt (x k n : Nat) (h : x < 2 ^ n) : Impl.Alloc.Buffer.orShift x k < 2 ^ n := by
  unfold Impl.Alloc.Buffer.orShift
  apply Nat.or_lt_two_pow h
  exact Nat.lt_of_le_of_lt (Nat.shiftRight_le _ _) h

theorem smear_lt (x n : Nat) (h : x < 2 ^ n) : Impl.Alloc.Buffer.smear x < 2 ^ n := by
  unfold Impl.Alloc.Buffer.smear
  repeat apply orShift_lt
  exact h

theorem orShift_toNat (x : BitVec 64) (k : Nat) : (x ||| x >>> k).toNat = Impl.Alloc.Buffer.orShift x.toNat k := by
  simp [Impl.Alloc.Buffer.orShift]

/-- the six `n |= n >> k` statements of `next_power_of_two` are the model's `smear` -/
theorem smear_eq (n : BitVec 64) :
    (Gen.CFun.next_power_of_two_v3 n).toNat = Impl.Alloc.Buffer.smear ((n - 1#64).toNat) := by
  simp only [Gen.CFun.next_power_of_two_v3, Gen.CFun.next_power_of_two_v2, Gen.CFun.next_power_of_two_v1,
    Impl.Alloc.Buffer.smear, orShift_toNat]

/-- clearing the low `k` bits = rounding down to a multiple of `2^k` -/
theorem and_not_low (x : BitVec 64) (k : Nat) (hk : k < 64) :
    (x &&& ~~~(BitVec.ofNat 64 (2 ^ k) - 1#64)).toNat = x.toNat / 2 ^ k * 2 ^ k := by
  have hp : 2 ^ k < 2 ^ 64 := Nat.pow_lt_pow_right (by decide) hk
  have hpos : 0 < 2 ^ k := Nat.two_pow_pos k
  have hm : (BitVec.ofNat 64 (2 ^ k) - 1#64).toNat = 2 ^ k - 1 := by
    have : (BitVec.ofNat 64 (2 ^ k)).toNat = 2 ^ k := by simp [Nat.mod_eq_of_lt hp]
    bv_omega
  apply Nat.eq_of_testBit_eq
  intro i
  rw [BitVec.testBit_toNat, BitVec.getLsbD_and, BitVec.getLsbD_not, ← BitVec.testBit_toNat (BitVec.ofNat 64 (2 ^ k) - 1#64),
    hm, Nat.testBit_two_pow_sub_one, Nat.testBit_mul_two_pow, Nat.testBit_div_two_pow, ← BitVec.testBit_toNat]
  by_cases h1 : i < k
  · simp [h1]; omega
  · have h2 : k ≤ i := by omega
    have h3 : i - k + k = i := by omega
    by_cases h4 : i < 64
    · simp [h1, h2, h3, h4]
    · have : x.toNat.testBit i = false :=
        Nat.testBit_lt_two_pow (Nat.lt_of_lt_of_le x.isLt (Nat.pow_le_pow_right (by decide) (by omega)))
      simp [h1, h2, h3, h4, this]

end Carquet.Proofs.CFun.C19
