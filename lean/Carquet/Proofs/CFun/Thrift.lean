import Carquet.Impl.Thrift
/-
Helper for Properties/C13/CFun.lean: the Thrift model's list test `lengthGe` is a length comparison.
-/
namespace Carquet.Proofs.CFun

theorem lengthGe_eq (l : List UInt8) (n : Nat) : Carquet.Impl.Thrift.lengthGe l n = decide (n ≤ l.length) := by
  induction l generalizing n with
  | nil => cases n <;> simp [Carquet.Impl.Thrift.lengthGe]
  | cons a r ih => cases n <;> simp [Carquet.Impl.Thrift.lengthGe, ih]

end Carquet.Proofs.CFun
