import Carquet.Impl.CSem
/-
Generic `BitVec` facts used by the link theorems `Properties/Cnn/CFun.lean` (how the translated C conversions read as
numbers).  Core Lean only.
-/
namespace Carquet.Proofs.CFun

/-- `(size_t)x` / `(uint64_t)x` of an `int32_t x`, as a number -/
theorem toNat_signExtend_32_64 (x : BitVec 32) :
    (BitVec.signExtend 64 x).toNat = if x.toInt < 0 then 2 ^ 64 - x.toInt.natAbs else x.toInt.toNat := by
  rw [BitVec.toNat_signExtend, BitVec.msb_eq_decide]
  simp only [BitVec.toNat_setWidth, BitVec.toInt_eq_toNat_cond]
  have := x.isLt
  by_cases h : 2 * x.toNat < 2 ^ 32
  · have h1 : ¬ (2 ^ (32 - 1) ≤ x.toNat) := by omega
    have h2 : ¬ ((x.toNat : Int) < 0) := by omega
    simp only [h, h1, h2, if_true, if_false, decide_false, Bool.false_eq_true]
    omega
  · have h1 : (2 ^ (32 - 1) ≤ x.toNat) := by omega
    have h2 : ((x.toNat : Int) - ((2 ^ 32 : Nat) : Int) < 0) := by omega
    simp only [h, h1, h2, if_true, if_false, decide_true]
    omega

/-- a non-negative `int32_t` keeps its value when converted to a 64-bit type -/
theorem toNat_signExtend_32_64_of_nonneg (x : BitVec 32) (h : 0 ≤ x.toInt) :
    (BitVec.signExtend 64 x).toNat = x.toInt.toNat := by
  rw [toNat_signExtend_32_64]
  have : ¬ x.toInt < 0 := by omega
  simp [this]

/-- a non-negative signed value read as unsigned -/
theorem toNat_of_toInt_nonneg {w : Nat} (x : BitVec w) (h : 0 ≤ x.toInt) : x.toNat = x.toInt.toNat := by
  rw [BitVec.toInt_eq_toNat_cond] at h ⊢
  split at h <;> rename_i h1
  · simp [h1]
  · have := x.isLt; omega

/-- comparing an enum-typed value with an enumerator -/
theorem beq_lit32 (t : BitVec 32) (k : Nat) (hk : k < 2 ^ 32) :
    (t == BitVec.ofNat 32 k) = decide ((t.toNat : Int) = (k : Int)) := by
  by_cases h : t = BitVec.ofNat 32 k
  · subst h; simp [Nat.mod_eq_of_lt hk]
  · have : t.toNat ≠ k := fun e => h (BitVec.eq_of_toNat_eq (by simp [e, Nat.mod_eq_of_lt hk]))
    have h2 : ¬ ((t.toNat : Int) = (k : Int)) := by omega
    simp [h, h2]

/-! ### `bitLen` (number of bits of a number) and the `width++` of the bit-width loops -/

open Carquet.Impl.CSem (bitLen)

theorem bitLen_zero : bitLen 0 = 0 := rfl

theorem bitLen_pos (n : Nat) (h : 0 < n) : bitLen n = bitLen (n / 2) + 1 := by
  unfold bitLen
  have hn : n ≠ 0 := by omega
  rw [if_neg hn, Nat.log2_def n]
  by_cases h2 : 2 ≤ n
  · have : n / 2 ≠ 0 := by omega
    rw [if_pos h2, if_neg this]
  · have : n = 1 := by omega
    subst this; rfl

theorem bitLen_le_of_lt (n k : Nat) (h : n < 2 ^ k) : bitLen n ≤ k := by
  unfold bitLen
  by_cases hn : n = 0
  · simp [hn]
  · rw [if_neg hn]
    have := (Nat.log2_lt hn).mpr h
    omega

theorem bitLen_eq_zero_iff (n : Nat) : bitLen n = 0 ↔ n = 0 := by
  unfold bitLen; by_cases h : n = 0 <;> simp [h]

/-- the hand-written models' loop `while (v > 0) { w++; v >>= 1; }` on numbers computes `w + bitLen v` -/
theorem natLoop_eq (loop : Nat → Nat → Nat → Nat)
    (h0 : ∀ v w, loop 0 v w = w)
    (hs : ∀ f v w, loop (f + 1) v w = if 0 < v then loop f (v / 2) (w + 1) else w) :
    ∀ (f v w : Nat), v < 2 ^ f → loop f v w = w + bitLen v := by
  intro f
  induction f with
  | zero => intro v w h; have : v = 0 := by simpa using h
            subst this; simp [h0, bitLen_zero]
  | succ f ih =>
    intro v w h
    rw [hs]
    by_cases hv : 0 < v
    · rw [if_pos hv, ih (v / 2) (w + 1) (by rw [Nat.pow_succ] at h; omega), bitLen_pos v hv]; omega
    · have : v = 0 := by omega
      subst this; simp [bitLen_zero]

/-- `width++` on an `int` that stays below 2^31 does not overflow -/
theorem sAddOk_32 (x y : BitVec 32) (h : x.toNat + y.toNat < 2 ^ 31) : Carquet.Impl.CSem.sAddOk x y = true := by
  have hx : x.toInt = x.toNat := by rw [BitVec.toInt_eq_toNat_of_lt]; omega
  have hy : y.toInt = y.toNat := by rw [BitVec.toInt_eq_toNat_of_lt]; omega
  have h1 : ¬ ((x.toNat : Int) + y.toNat ≥ 2 ^ (32 - 1)) := by omega
  have h2 : ¬ ((x.toNat : Int) + y.toNat < -2 ^ (32 - 1)) := by omega
  simp only [Carquet.Impl.CSem.sAddOk, BitVec.saddOverflow, hx, hy, h1, h2, decide_false, Bool.or_self, Bool.not_false]

/-- `0 < x` on a non-negative `int` -/
theorem slt_zero_32 (x : BitVec 32) (h : x.toNat < 2 ^ 31) : BitVec.slt 0#32 x = decide (0 < x.toNat) := by
  have hx : x.toInt = x.toNat := by rw [BitVec.toInt_eq_toNat_of_lt]; omega
  rw [BitVec.slt_eq_decide, hx]
  simp

/-- `x >> 1` on a non-negative `int` -/
theorem sshiftRight_one_32 (x : BitVec 32) (h : x.toNat < 2 ^ 31) : (BitVec.sshiftRight x 1).toNat = x.toNat / 2 := by
  have hm : x.msb = false := by rw [BitVec.msb_eq_decide]; simp; omega
  rw [BitVec.toNat_sshiftRight, hm]
  simp [Nat.shiftRight_eq_div_pow]

/-- `(int)x` of a non-negative `int16_t` -/
theorem signExtend_16_32 (x : BitVec 16) (h : x.toNat < 2 ^ 15) : (BitVec.signExtend 32 x).toNat = x.toNat := by
  have hm : x.msb = false := by rw [BitVec.msb_eq_decide]; simp; omega
  rw [BitVec.toNat_signExtend, hm]
  simp; omega

end Carquet.Proofs.CFun
