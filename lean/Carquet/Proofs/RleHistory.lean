import Carquet.Proofs.RleEncoder
/-
Arbitrary put / put_repeat / flush histories of the (repaired) RLE encoder.

Invariant `InvH w e D`: the bytes emitted so far are complete runs denoting `xs`, and
`xs ++ e.buf ++ replicate e.rep e.prev = D`, where `D` is the *denotation* of the history so far:
the values put, in order, with `flushPad` zeros after each flush.  Unlike `RleEncoder.Inv` it
survives a flush (after which `has_prev` stays set while `repeat_count = 0`).
-/
namespace Carquet.Proofs.RleHistory
open Carquet.Impl Carquet.Impl.Rle Carquet.Spec Carquet.Spec.RleHybrid
open Carquet.Proofs.RleGrammar Carquet.Proofs.RleEncoder

structure InvH (w : Nat) (e : Enc) (D : List Nat) : Prop where
  core : ∃ xs, Core w e xs ∧ xs ++ e.buf ++ List.replicate e.rep e.prev = D
  prevLt : e.hasPrev = true → e.prev < 2 ^ w
  idle : e.rep = 0 → e.buf = []
  noPrev : e.hasPrev = false → e.rep = 0

theorem invH_init (w : Nat) : InvH w (Enc.init w) [] :=
  ⟨⟨[], ⟨rfl, rfl, by simp [Enc.init], fun v h => by simp [Enc.init] at h, Runs.nil⟩, by simp [Enc.init]⟩,
   fun h => by simp [Enc.init] at h, fun _ => rfl, fun _ => rfl⟩

theorem invH_put {w : Nat} (hw : w ≤ 32) (e : Enc) (D : List Nat) (v : Nat) (hi : InvH w e D)
    (hv : v < 2 ^ w) : InvH w (put e v) (D ++ [v]) := by
  obtain ⟨⟨xs, hc, hD⟩, hp, hidle, hn⟩ := hi
  unfold put
  by_cases h1 : e.hasPrev = false
  · rw [if_pos h1]
    have r0 := hn h1
    have b0 := hidle r0
    refine ⟨⟨xs, ⟨hc.width, hc.total, hc.lt8, hc.bufLt, hc.runs⟩, ?_⟩, fun _ => hv,
      fun h => by simp at h, fun h => by simp at h⟩
    rw [← hD, r0, b0]; simp
  · rw [if_neg h1]
    have h1' : e.hasPrev = true := by simpa using h1
    have hpl := hp h1'
    by_cases h2 : v = e.prev
    · rw [if_pos h2]
      refine ⟨⟨xs, ⟨hc.width, hc.total, hc.lt8, hc.bufLt, hc.runs⟩, ?_⟩, fun _ => hpl,
        fun h => by simp at h, fun h => by simp [h1'] at h⟩
      rw [← hD, h2]
      simp [List.replicate_succ', List.append_assoc]
    · rw [if_neg h2]
      obtain ⟨xs1, c1, e1, q1⟩ := endRun_spec hw e xs hc hpl
      refine ⟨⟨xs1, ⟨c1.width, c1.total, c1.lt8, c1.bufLt, c1.runs⟩, ?_⟩, fun _ => hv,
        fun h => by simp at h, fun h => by simp [q1, h1'] at h⟩
      show xs1 ++ (endRun e).buf ++ List.replicate 1 v = D ++ [v]
      rw [e1, hD]; rfl

theorem invH_putRepeat {w : Nat} (hw : w ≤ 32) (v : Nat) (hv : v < 2 ^ w) : ∀ (n : Nat) (e : Enc) (D : List Nat),
    InvH w e D → InvH w (putRepeat e v n) (D ++ List.replicate n v) := by
  intro n
  induction n with
  | zero => intro e D h; simpa [putRepeat] using h
  | succ n ih =>
    intro e D h
    have := ih (put e v) (D ++ [v]) (invH_put hw e D v h hv)
    simpa [putRepeat, List.replicate_succ, List.append_assoc] using this

/-! ### the group buffer after pushing a run -/

theorem flushBitpack_buf (e : Enc) (h : e.buf.length ≠ 0) : (flushBitpack e).buf = [] := by
  unfold flushBitpack; rw [if_neg h]

theorem push1_buf_length (e : Enc) (h : e.buf.length < 8) : (push1 e).buf.length = (e.buf.length + 1) % 8 := by
  unfold push1
  by_cases h8 : (e.buf ++ [e.prev]).length = 8
  · rw [if_pos h8, flushBitpack_buf _ (by show (e.buf ++ [e.prev]).length ≠ 0; omega)]
    simp only [List.length_append, List.length_singleton] at h8
    simp only [List.length_nil]; omega
  · rw [if_neg h8]
    simp only [List.length_append, List.length_singleton] at h8 ⊢
    omega

theorem pushRun_buf_length : ∀ (n : Nat) (e : Enc), e.buf.length < 8 →
    (pushRun n e).buf.length = (e.buf.length + n) % 8 := by
  intro n
  induction n with
  | zero => intro e h; simp only [pushRun, Nat.add_zero]; omega
  | succ n ih =>
    intro e h
    have h1 := push1_buf_length e h
    have hlt : (push1 e).buf.length < 8 := by rw [h1]; omega
    simp only [pushRun]
    rw [ih (push1 e) hlt, h1]
    omega

/-- **`flush` in any state**: the stream gains exactly `flushPad e` zeros of padding, everything
pending is written out (`repeat_count = 0`, empty group buffer), and the invariant survives. -/
theorem invH_flush {w : Nat} (hw : w ≤ 32) (e : Enc) (D : List Nat) (hi : InvH w e D) :
    InvH w (flush e) (D ++ List.replicate (flushPad e) 0) ∧ (flush e).rep = 0 ∧ flushPad e < 8 := by
  obtain ⟨⟨xs, hc, hD⟩, hp, hidle, hn⟩ := hi
  have hpad8 : flushPad e < 8 := by unfold flushPad; split <;> omega
  refine ⟨?_, ?_, hpad8⟩
  · unfold flush
    by_cases h8 : e.rep ≥ 8
    · rw [if_pos h8]
      have hpad : flushPad e = 0 := by unfold flushPad; rw [if_neg (by omega)]
      have h1 : e.hasPrev = true := by
        by_cases h : e.hasPrev = true
        · exact h
        · have := hn (by simpa using h); omega
      have hpl := hp h1
      obtain ⟨xs1, c1, b1, e1, p1, q1, _⟩ := completeGroup_spec hw e xs hc hpl h8
      obtain ⟨R, hR, hruns⟩ := flushRle_spec (completeGroup e) c1.width (by rw [p1]; exact hpl)
      rw [hR, hpad]
      rw [p1] at hruns
      refine ⟨⟨xs1 ++ List.replicate (completeGroup e).rep e.prev,
        ⟨c1.width, c1.total, c1.lt8, c1.bufLt, runs_append c1.runs hruns⟩, ?_⟩,
        fun h => by rw [p1]; exact hp (by rw [← q1]; exact h), fun _ => b1, fun h => rfl⟩
      show xs1 ++ List.replicate (completeGroup e).rep e.prev ++ (completeGroup e).buf ++
        List.replicate 0 (completeGroup e).prev = D ++ List.replicate 0 0
      rw [b1, e1, hD]; simp
    · rw [if_neg h8]
      by_cases h0 : e.rep > 0
      · rw [if_pos h0]
        have h1 : e.hasPrev = true := by
          by_cases h : e.hasPrev = true
          · exact h
          · have := hn (by simpa using h); omega
        have hpl := hp h1
        obtain ⟨xs1, c1, e1, p1, r1, q1⟩ := pushRun_spec hw e.rep e xs hc hpl
        have hbl := pushRun_buf_length e.rep e hc.lt8
        have hpad : flushPad e = (8 - (pushRun e.rep e).buf.length) % 8 := by
          unfold flushPad; rw [if_pos ⟨h0, by omega⟩, hbl]
        by_cases hb : ({ pushRun e.rep e with rep := 0 } : Enc).buf.length > 0
        · rw [if_pos hb]
          have hb' : 0 < (pushRun e.rep e).buf.length := hb
          obtain ⟨G, hG, hruns⟩ := flushBitpack_spec hw { pushRun e.rep e with rep := 0 } c1.width hb
            (Nat.le_of_lt c1.lt8) c1.total c1.bufLt
          rw [hG]
          have hk : flushPad e = 8 - (pushRun e.rep e).buf.length := by
            rw [hpad]; have := c1.lt8; omega
          refine ⟨⟨xs1 ++ ((pushRun e.rep e).buf ++ List.replicate (8 - (pushRun e.rep e).buf.length) 0),
            ⟨c1.width, rfl, by simp, fun v h => by simp at h, runs_append c1.runs hruns⟩, ?_⟩,
            fun h => by show (pushRun e.rep e).prev < 2 ^ w; rw [p1]; exact hp (by rw [← q1]; exact h),
            fun _ => rfl, fun _ => rfl⟩
          show xs1 ++ ((pushRun e.rep e).buf ++ List.replicate (8 - (pushRun e.rep e).buf.length) 0) ++ [] ++
            List.replicate 0 (pushRun e.rep e).prev = D ++ List.replicate (flushPad e) 0
          rw [hk, ← hD, ← e1]; simp [List.append_assoc]
        · rw [if_neg hb]
          have hb0 : (pushRun e.rep e).buf = [] := List.eq_nil_of_length_eq_zero (by
            have : ¬ (pushRun e.rep e).buf.length > 0 := hb
            omega)
          have hk : flushPad e = 0 := by rw [hpad, hb0]; rfl
          refine ⟨⟨xs1, ⟨c1.width, c1.total, c1.lt8, c1.bufLt, c1.runs⟩, ?_⟩,
            fun h => by show (pushRun e.rep e).prev < 2 ^ w; rw [p1]; exact hp (by rw [← q1]; exact h),
            fun _ => hb0, fun _ => rfl⟩
          show xs1 ++ (pushRun e.rep e).buf ++ List.replicate 0 (pushRun e.rep e).prev =
            D ++ List.replicate (flushPad e) 0
          rw [hk, ← hD, ← e1, hb0]; simp
      · rw [if_neg h0]
        have hr0 : e.rep = 0 := by omega
        have hk : flushPad e = 0 := by unfold flushPad; rw [if_neg (by omega)]
        rw [hk]
        exact ⟨⟨xs, hc, by simpa using hD⟩, hp, hidle, hn⟩
  · unfold flush
    by_cases h8 : e.rep ≥ 8
    · rw [if_pos h8]
      have h1 : e.hasPrev = true := by
        by_cases h : e.hasPrev = true
        · exact h
        · have := hn (by simpa using h); omega
      obtain ⟨xs1, c1, b1, e1, p1, q1, _⟩ := completeGroup_spec hw e xs hc (hp h1) h8
      obtain ⟨R, hR, _⟩ := flushRle_spec (completeGroup e) c1.width (by rw [p1]; exact hp h1)
      rw [hR]
    · rw [if_neg h8]
      by_cases h0 : e.rep > 0
      · rw [if_pos h0]
        by_cases hb : ({ pushRun e.rep e with rep := 0 } : Enc).buf.length > 0
        · rw [if_pos hb]
          unfold flushBitpack
          rw [if_neg (by omega)]
        · rw [if_neg hb]
      · rw [if_neg h0]; omega

/-- the invariant along a whole history -/
theorem invH_history {w : Nat} (hw : w ≤ 32) (ops : List EncOp) : ∀ (e : Enc) (D : List Nat), InvH w e D →
    (∀ v ∈ histValues ops, v < 2 ^ w) →
    InvH w (runEncOps e ops) (D ++ denoteWith (flushPads e ops) ops) ∧
    (flushPads e ops).length = (ops.filter (· = .flush)).length ∧ ∀ k ∈ flushPads e ops, k < 8 := by
  induction ops with
  | nil => intro e D h _; exact ⟨by simpa [runEncOps, denoteWith] using h, rfl, fun k hk => by simp [flushPads] at hk⟩
  | cons op ops ih =>
    intro e D h hv
    cases op with
    | put v =>
      have hv0 : v < 2 ^ w := hv v (by simp [histValues])
      obtain ⟨i1, i2, i3⟩ := ih (put e v) (D ++ [v]) (invH_put hw e D v h hv0)
        (fun x hx => hv x (by simp [histValues, hx]))
      refine ⟨by simpa [runEncOps, flushPads, denoteWith, List.append_assoc] using i1, ?_, by simpa [flushPads] using i3⟩
      simpa [flushPads] using i2
    | rep v n =>
      by_cases hn0 : n = 0
      · subst hn0
        obtain ⟨i1, i2, i3⟩ := ih e D h (fun x hx => hv x (by simp [histValues, hx]))
        refine ⟨by simpa [runEncOps, flushPads, denoteWith, putRepeat] using i1, ?_, by simpa [flushPads, putRepeat] using i3⟩
        simpa [flushPads, putRepeat] using i2
      · have hv0 : v < 2 ^ w := hv v (by
          simp only [histValues, List.mem_append, List.mem_replicate]
          exact Or.inl ⟨hn0, trivial⟩)
        obtain ⟨i1, i2, i3⟩ := ih (putRepeat e v n) (D ++ List.replicate n v) (invH_putRepeat hw v hv0 n e D h)
          (fun x hx => hv x (by simp [histValues, hx]))
        refine ⟨by simpa [runEncOps, flushPads, denoteWith, List.append_assoc] using i1, ?_, by simpa [flushPads] using i3⟩
        simpa [flushPads] using i2
    | flush =>
      obtain ⟨j1, _, j3⟩ := invH_flush hw e D h
      obtain ⟨i1, i2, i3⟩ := ih (flush e) (D ++ List.replicate (flushPad e) 0) j1
        (fun x hx => hv x (by simpa [histValues] using hx))
      refine ⟨by simpa [runEncOps, flushPads, denoteWith, List.append_assoc] using i1, ?_, ?_⟩
      · simp [flushPads, i2]
      · intro k hk
        simp only [flushPads, List.mem_cons] at hk
        rcases hk with rfl | hk
        · exact j3
        · exact i3 k hk

theorem histValues_append_flush (ops : List EncOp) : histValues (ops ++ [EncOp.flush]) = histValues ops := by
  induction ops with
  | nil => rfl
  | cons op ops ih => cases op <;> simp [histValues, ih]

theorem runEncOps_append (e : Enc) (a b : List EncOp) : runEncOps e (a ++ b) = runEncOps (runEncOps e a) b := by
  induction a generalizing e with
  | nil => rfl
  | cons op a ih => cases op <;> simp [runEncOps, ih]

/-- **Any history that ends with a flush writes complete runs denoting the values put, in order,
with `pads[i] < 8` zeros after the values preceding the i-th flush.** -/
theorem history_runs {w : Nat} (hw : w ≤ 32) (ops : List EncOp) (hv : ∀ v ∈ histValues ops, v < 2 ^ w) :
    Runs w (runEncOps (Enc.init w) (ops ++ [.flush])).out
      (denoteWith (flushPads (Enc.init w) (ops ++ [.flush])) (ops ++ [.flush])) ∧
    (flushPads (Enc.init w) (ops ++ [.flush])).length = (ops.filter (· = .flush)).length + 1 ∧
    ∀ k ∈ flushPads (Enc.init w) (ops ++ [.flush]), k < 8 := by
  have hv' : ∀ v ∈ histValues (ops ++ [.flush]), v < 2 ^ w := by
    intro v h
    apply hv
    rwa [histValues_append_flush] at h
  obtain ⟨i1, i2, i3⟩ := invH_history hw (ops ++ [.flush]) (Enc.init w) [] (invH_init w) hv'
  refine ⟨?_, by simpa using i2, i3⟩
  -- after the final flush nothing is pending
  obtain ⟨⟨xs, hc, hD⟩, _, hidle, _⟩ := i1
  have hrep : (runEncOps (Enc.init w) (ops ++ [.flush])).rep = 0 := by
    rw [runEncOps_append]
    simp only [runEncOps]
    have hpre := (invH_history hw ops (Enc.init w) [] (invH_init w) hv).1
    exact (invH_flush hw _ _ hpre).2.1
  have hbuf := hidle hrep
  rw [hrep, hbuf] at hD
  simp only [List.append_nil, List.replicate_zero, List.nil_append] at hD
  rw [← hD]
  exact hc.runs

/-- with all padding counts 0 the denotation is the values put -/
theorem denoteWith_zero (ops : List EncOp) (ps : List Nat) (h : ∀ k ∈ ps, k = 0) :
    denoteWith ps ops = histValues ops := by
  induction ops generalizing ps with
  | nil => cases ps <;> rfl
  | cons op ops ih =>
    cases op with
    | put v => simp [denoteWith, histValues, ih ps h]
    | rep v n => simp [denoteWith, histValues, ih ps h]
    | flush =>
      cases ps with
      | nil => simp [denoteWith, histValues, ih [] h]
      | cons k ps =>
        have hk : k = 0 := h k (by simp)
        subst hk
        simp [denoteWith, histValues, ih ps (fun x hx => h x (by simp [hx]))]

end Carquet.Proofs.RleHistory
