import Carquet.Proofs.WriterPages
import Carquet.Impl.WriterHistory
/-
What the pages of a written file CONTAIN: the writer half of the round trip (C01, C05
"recovers exactly the table that was written").

`tableOf cols ops` (Impl/WriterHistory.lean) is the table a write history denotes, defined without any reference to the
writer's machinery (pages, buffers, offsets): per row group, per column, the rows, the
definition / repetition levels and the dense values of the accepted batches, in order.
`writer_refines_table`: when every call of the history returned OK, the page records of the
written file, concatenated chunk by chunk, are exactly that table, and every page record is
the finalisation of the page-builder content it carries (`PagesOf`).
-/
namespace Carquet.Proofs.WriterTable
open Carquet.Impl.Writer Carquet.Proofs.Writer Carquet.Proofs.WriterLayout Carquet.Proofs.WriterPages

theorem ColData.append_assoc (a b c : ColData) : (a.append b).append c = a.append (b.append c) := by
  simp [ColData.append, Nat.add_assoc, List.append_assoc]

theorem ColData.append_empty (a : ColData) : a.append {} = a := by
  cases a; simp [ColData.append]

/-- the caller's arrays hold what the counts say -/
def BatchWF (b : Batch) : Prop :=
  (b.nrows = 0 → b.vals = []) ∧ (∀ ds, b.defs = some ds → ds.length = b.nrows) ∧
  (∀ rs, b.reps = some rs → rs.length = b.nrows)

/-! ### abstraction of concrete states -/

def pageData (p : Page) : ColData := ⟨p.numValues, p.defs, p.reps, p.values⟩

def pagesData (ps : List PageRec) : ColData :=
  ⟨(ps.map (·.src.numValues)).sum, (ps.map (·.src.defs)).flatten, (ps.map (·.src.reps)).flatten,
   (ps.map (·.src.values)).flatten⟩

def colData (cw : ColW) : ColData := (pagesData cw.pages).append (pageData cw.page)

def abs (w : W) : A :=
  { done := w.pagesDone.map (·.map pagesData), cur := w.rg.map (·.map colData) }

theorem pagesData_append (ps : List PageRec) (r : PageRec) :
    pagesData (ps ++ [r]) = (pagesData ps).append (pageData r.src) := by
  simp [pagesData, ColData.append, pageData]

/-- an empty page builder holds nothing -/
def PageWF (p : Page) : Prop := p.numValues = 0 → p.values = [] ∧ p.defs = [] ∧ p.reps = []

/-- every page record of a column is the finalisation of the builder content it carries -/
def PagesOf (D : Deps) (codec : Nat) (c : Col) (ps : List PageRec) : Prop :=
  ∀ r ∈ ps, r = pageRecOf D codec c r.src

theorem addValues_data (D : Deps) (c : Col) (p : Page) (b : Batch) :
    pageData (addValues D c p b) = (pageData p).append (batchData c b) := by
  obtain ⟨col, nrows, defs, vals, reps⟩ := b
  unfold addValues pageData batchData ColData.append
  cases defs <;> cases reps <;> by_cases h1 : c.maxDef > 0 <;> by_cases h2 : c.maxRep > 0 <;> simp [h1, h2]

theorem addValues_wf (D : Deps) (c : Col) (p : Page) (b : Batch) (hp : PageWF p) (hb : BatchWF b) :
    PageWF (addValues D c p b) := by
  intro h0
  have hd := addValues_data D c p b
  have hn : p.numValues = 0 ∧ b.nrows = 0 := by
    have : (addValues D c p b).numValues = p.numValues + b.nrows := rfl
    omega
  obtain ⟨q1, q2, q3⟩ := hp hn.1
  have hv := hb.1 hn.2
  have e1 : (pageData (addValues D c p b)).vals = [] := by rw [hd]; simp [ColData.append, pageData, batchData, q1, hv]
  have e2 : (pageData (addValues D c p b)).defs = [] := by
    rw [hd]; simp only [ColData.append, pageData, batchData, q2, List.nil_append]
    split
    · cases hbd : b.defs with
      | none => simp [hn.2]
      | some ds => simpa using List.eq_nil_of_length_eq_zero ((hb.2.1 ds hbd).trans hn.2)
    · rfl
  have e3 : (pageData (addValues D c p b)).reps = [] := by
    rw [hd]; simp only [ColData.append, pageData, batchData, q3, List.nil_append]
    split
    · cases hbr : b.reps with
      | none => simp [hn.2]
      | some rs => simpa using List.eq_nil_of_length_eq_zero ((hb.2.2 rs hbr).trans hn.2)
    · rfl
  exact ⟨e1, e2, e3⟩

/-- per-column invariant (needs the column, unlike `ColInv`) -/
def ColT (D : Deps) (codec : Nat) (c : Col) (cw : ColW) : Prop :=
  PagesOf D codec c cw.pages ∧ PageWF cw.page

theorem colT_empty (D : Deps) (codec : Nat) (c : Col) : ColT D codec c {} :=
  ⟨fun r hr => by simp at hr, fun _ => ⟨rfl, rfl, rfl⟩⟩

theorem flushPage_data (D : Deps) (codec : Nat) (c : Col) (cw cw' : ColW) (h : ColT D codec c cw)
    (hf : flushPage D codec c cw = some cw') :
    ColT D codec c cw' ∧ colData cw' = colData cw ∧ pagesData cw'.pages = colData cw := by
  unfold flushPage at hf
  by_cases h0 : cw.page.numValues = 0
  · simp only [h0, if_true, Option.some.injEq] at hf
    subst hf
    obtain ⟨q1, q2, q3⟩ := h.2 h0
    refine ⟨h, rfl, ?_⟩
    simp [colData, pageData, ColData.append, h0, q1, q2, q3]
  · simp only [h0, if_false] at hf
    cases hfp : finalizePage D codec c cw.page with
    | none => simp [hfp] at hf
    | some p =>
      obtain ⟨bytes, unc⟩ := p
      simp only [hfp, Option.some.injEq] at hf
      subst hf
      refine ⟨⟨?_, fun _ => ⟨rfl, rfl, rfl⟩⟩, ?_, ?_⟩
      · intro r hr
        rcases List.mem_append.mp hr with hr | hr
        · exact h.1 r hr
        · have : r = pageRecOf D codec c cw.page := by simpa using hr
          subst this; rfl
      · simp only [colData, pagesData_append]
        rw [ColData.append_assoc]
        congr 1
        simp [pageRecOf, pageData, ColData.append]
      · simp only [colData, pagesData_append]
        rfl

theorem colWriteBatch_data (D : Deps) (codec target : Nat) (c : Col) (cw cw' : ColW) (b : Batch)
    (h : ColT D codec c cw) (hb : BatchWF b) (hf : colWriteBatch D codec target c cw b = some cw') :
    ColT D codec c cw' ∧ colData cw' = (colData cw).append (batchData c b) := by
  have hadd : ColT D codec c { cw with page := addValues D c cw.page b, totalValues := cw.totalValues + b.nrows } :=
    ⟨h.1, addValues_wf D c cw.page b h.2 hb⟩
  have hdata : colData { cw with page := addValues D c cw.page b, totalValues := cw.totalValues + b.nrows } =
      (colData cw).append (batchData c b) := by
    simp only [colData, addValues_data]
    rw [ColData.append_assoc]
  unfold colWriteBatch at hf
  by_cases ht : target ≤ estimatedSize D c (addValues D c cw.page b)
  · simp only [ht, if_true] at hf
    obtain ⟨a1, a2, _⟩ := flushPage_data D codec c _ _ hadd hf
    exact ⟨a1, a2.trans hdata⟩
  · simp only [ht, if_false, Option.some.injEq] at hf
    subst hf; exact ⟨hadd, hdata⟩

/-- zip-style lift of `ColT` over the columns of the open row group -/
def ColsT (D : Deps) (codec : Nat) : List Col → List ColW → Prop
  | [], [] => True
  | c :: cs, cw :: cws => ColT D codec c cw ∧ ColsT D codec cs cws
  | _, _ => False

theorem colsT_fresh (D : Deps) (codec : Nat) : ∀ cols : List Col, ColsT D codec cols (cols.map (fun _ => ({} : ColW))) := by
  intro cols
  induction cols with
  | nil => trivial
  | cons c cs ih => exact ⟨colT_empty D codec c, ih⟩

theorem colsT_set (D : Deps) (codec : Nat) : ∀ (cols : List Col) (cws : List ColW) (i : Nat) (c : Col) (cw' : ColW),
    ColsT D codec cols cws → cols[i]? = some c → ColT D codec c cw' → ColsT D codec cols (cws.set i cw') := by
  intro cols
  induction cols with
  | nil => intro cws i c cw' _ hc _; simp at hc
  | cons a as ih =>
    intro cws i c cw' h hc hcw
    cases cws with
    | nil => exact absurd h (by simp [ColsT])
    | cons x xs =>
      cases i with
      | zero =>
        simp only [List.getElem?_cons_zero, Option.some.injEq] at hc
        subst hc
        exact ⟨hcw, h.2⟩
      | succ n =>
        simp only [List.getElem?_cons_succ] at hc
        exact ⟨h.1, ih xs n c cw' h.2 hc hcw⟩

theorem colsT_get (D : Deps) (codec : Nat) : ∀ (cols : List Col) (cws : List ColW) (i : Nat) (c : Col) (cw : ColW),
    ColsT D codec cols cws → cols[i]? = some c → cws[i]? = some cw → ColT D codec c cw := by
  intro cols
  induction cols with
  | nil => intro cws i c cw _ hc _; simp at hc
  | cons a as ih =>
    intro cws i c cw h hc hcw
    cases cws with
    | nil => exact absurd h (by simp [ColsT])
    | cons x xs =>
      cases i with
      | zero =>
        simp only [List.getElem?_cons_zero, Option.some.injEq] at hc hcw
        subst hc; subst hcw
        exact h.1
      | succ n =>
        simp only [List.getElem?_cons_succ] at hc hcw
        exact ih xs n c cw h.2 hc hcw

theorem colsT_length (D : Deps) (codec : Nat) : ∀ (cols : List Col) (cws : List ColW),
    ColsT D codec cols cws → cws.length = cols.length := by
  intro cols
  induction cols with
  | nil => intro cws h; cases cws with
    | nil => rfl
    | cons x xs => exact absurd h (by simp [ColsT])
  | cons a as ih => intro cws h; cases cws with
    | nil => exact absurd h (by simp [ColsT])
    | cons x xs => simp [ih xs h.2]

/-- zip-style: the page records of a finished row group belong to its columns -/
def GroupOf (D : Deps) (codec : Nat) : List Col → List (List PageRec) → Prop
  | [], [] => True
  | c :: cs, p :: ps => PagesOf D codec c p ∧ GroupOf D codec cs ps
  | _, _ => False

theorem finalizeCols_data (D : Deps) (w : W) : ∀ (cols : List Col) (cws : List ColW) (off : Nat)
    (r : Bytes × List ChunkMeta), ColsT D w.codec cols cws →
    finalizeCols D w cols cws off = some r →
    GroupOf D w.codec cols (finalizeColsPages D w cols cws) ∧
    (finalizeColsPages D w cols cws).map pagesData = cws.map colData := by
  intro cols
  induction cols with
  | nil =>
    intro cws off r h _
    cases cws with
    | nil => simp [finalizeColsPages, GroupOf]
    | cons x xs => exact absurd h (by simp [ColsT])
  | cons c cs ih =>
    intro cws off r h hf
    cases cws with
    | nil => exact absurd h (by simp [ColsT])
    | cons cw cws =>
      simp only [finalizeCols] at hf
      cases hfl : flushPage D w.codec c cw with
      | none => simp [hfl] at hf
      | some cw' =>
        simp only [hfl] at hf
        cases hr : finalizeCols D w cs cws (off + cw'.buffer.length) with
        | none => simp [hr] at hf
        | some p =>
          obtain ⟨i1, i2⟩ := ih cws _ p h.2 hr
          obtain ⟨a1, _, a3⟩ := flushPage_data D w.codec c cw cw' h.1 hfl
          simp only [finalizeColsPages, hfl]
          exact ⟨⟨a1.1, i1⟩, by simp [a3, i2]⟩

/-- table-level invariant of writer states -/
def TInv (D : Deps) (w : W) : Prop :=
  (∀ g ∈ w.pagesDone, GroupOf D w.codec w.cols g) ∧
  (∀ cws, w.rg = some cws → ColsT D w.codec w.cols cws)

theorem ensureHeader_t (w : W) :
    (ensureHeader w).cols = w.cols ∧ (ensureHeader w).codec = w.codec ∧ (ensureHeader w).rg = w.rg ∧
    (ensureHeader w).pagesDone = w.pagesDone := by
  unfold ensureHeader; by_cases h : w.headerWritten = true <;> simp [h]

theorem tinv_ensureHeader (D : Deps) (w : W) (h : TInv D w) : TInv D (ensureHeader w) ∧ abs (ensureHeader w) = abs w := by
  obtain ⟨e1, e2, e3, e4⟩ := ensureHeader_t w
  refine ⟨⟨?_, ?_⟩, ?_⟩
  · rw [e1, e2, e4]; exact h.1
  · rw [e1, e2, e3]; exact h.2
  · simp [abs, e3, e4]

theorem modify_map_eq {α β : Type} (f : α → β) : ∀ (l : List α) (i : Nat) (x x' : α) (g : β → β),
    l[i]? = some x → f x' = g (f x) → (l.set i x').map f = (l.map f).modify i g := by
  intro l
  induction l with
  | nil => intro i x x' g h _; simp at h
  | cons a as ih =>
    intro i x x' g h hx
    cases i with
    | zero =>
      simp only [List.getElem?_cons_zero, Option.some.injEq] at h
      subst h
      simp [hx]
    | succ n =>
      simp only [List.getElem?_cons_succ] at h
      simp [ih n x x' g h hx]

theorem step_refines (D : Deps) (w : W) (op : Op) (h : TInv D w)
    (hwf : ∀ b, op = .batch b → BatchWF b) (hok : (step D w op).2 = .ok) :
    TInv D (step D w op).1 ∧ abs (step D w op).1 = aStep w.cols (abs w) op ∧
    (step D w op).1.cols = w.cols ∧ (step D w op).1.codec = w.codec := by
  obtain ⟨hE, hEa⟩ := tinv_ensureHeader D w h
  obtain ⟨e1, e2, e3, e4⟩ := ensureHeader_t w
  cases op with
  | newRowGroup =>
    simp only [step] at hok ⊢
    unfold flushRowGroup at hok ⊢
    cases hr : (ensureHeader w).rg with
    | none =>
      simp only
      refine ⟨hE, ?_, e1, e2⟩
      rw [hEa]
      have : (abs w).cur = none := by simp [abs, ← e3, hr]
      simp [aStep, this]
    | some cws =>
      simp only [hr] at hok ⊢
      cases hf : finalizeCols D (ensureHeader w) (ensureHeader w).cols cws (ensureHeader w).fileOffset with
      | none => simp [hf] at hok
      | some p =>
        obtain ⟨d1, d2⟩ := finalizeCols_data D (ensureHeader w) _ cws _ p (hE.2 cws hr) hf
        simp only
        refine ⟨⟨?_, fun cws' hc => by simp at hc⟩, ?_, e1, e2⟩
        · intro g hg
          rcases List.mem_append.mp hg with hg | hg
          · exact hE.1 g hg
          · have : g = finalizeColsPages D (ensureHeader w) (ensureHeader w).cols cws := by simpa using hg
            subst this; exact d1
        · have hcur : (abs w).cur = some (cws.map colData) := by simp [abs, ← e3, hr]
          simp only [aStep, hcur]
          simp [abs, d2, e4]
  | batch b =>
    have hb := hwf b rfl
    simp only [step] at hok ⊢
    unfold writeBatch at hok ⊢
    cases hc : w.cols[b.col]? with
    | none => simp [hc] at hok
    | some c =>
      simp only [hc] at hok ⊢
      -- the open row group after ensure_row_group
      have hRrg : ∃ cws, (ensureRowGroup (ensureHeader w)).rg = some cws ∧ ColsT D w.codec w.cols cws ∧
          cws.map colData = (abs w).cur.getD (w.cols.map (fun _ => {})) := by
        unfold ensureRowGroup
        cases hr : (ensureHeader w).rg with
        | some cws =>
          refine ⟨cws, by simp [hr], ?_, ?_⟩
          · have := hE.2 cws hr; rwa [e1, e2] at this
          · simp [abs, ← e3, hr]
        | none =>
          refine ⟨(ensureHeader w).cols.map (fun _ => ({} : ColW)), by simp, ?_, ?_⟩
          · rw [e1]; exact colsT_fresh D w.codec w.cols
          · simp [abs, ← e3, hr, e1, colData, pagesData, pageData, ColData.append]
      obtain ⟨cws, r1, r2, r3⟩ := hRrg
      simp only [r1] at hok ⊢
      cases hcw : cws[b.col]? with
      | none => simp [hcw] at hok
      | some cw =>
        simp only [hcw] at hok ⊢
        cases hcb : colWriteBatch D w.codec (targetPageSize w) c cw b with
        | none => simp [hcb] at hok
        | some cw' =>
          simp only
          have hct := colsT_get D w.codec w.cols cws b.col c cw r2 hc hcw
          obtain ⟨k1, k2⟩ := colWriteBatch_data D w.codec _ c cw cw' b hct hb hcb
          have hfields : (ensureRowGroup (ensureHeader w)).cols = w.cols ∧ (ensureRowGroup (ensureHeader w)).codec = w.codec ∧
              (ensureRowGroup (ensureHeader w)).pagesDone = w.pagesDone := by
            unfold ensureRowGroup; cases (ensureHeader w).rg <;> simp [e1, e2, e4]
          obtain ⟨f1, f2, f3⟩ := hfields
          refine ⟨⟨?_, ?_⟩, ?_, f1, f2⟩
          · show ∀ g ∈ (ensureRowGroup (ensureHeader w)).pagesDone, GroupOf D (ensureRowGroup (ensureHeader w)).codec (ensureRowGroup (ensureHeader w)).cols g
            rw [f1, f2, f3]; exact h.1
          · intro cws' hc'
            simp only [Option.some.injEq] at hc'
            subst hc'
            show ColsT D (ensureRowGroup (ensureHeader w)).codec (ensureRowGroup (ensureHeader w)).cols _
            rw [f1, f2]
            exact colsT_set D w.codec w.cols cws b.col c cw' r2 hc k1
          · simp only [aStep, hc]
            simp only [abs, f3, Option.map_some, setAt]
            rw [modify_map_eq colData cws b.col cw cw' (·.append (batchData c b)) hcw k2, r3]
            rfl

/-- all calls of a history returned OK -/
def AllOk (D : Deps) : W → List Op → Prop
  | _, [] => True
  | w, op :: ops => (step D w op).2 = .ok ∧ AllOk D (step D w op).1 ops

def HistWF (ops : List Op) : Prop := ∀ b, Op.batch b ∈ ops → BatchWF b

theorem stateAfter_refines (D : Deps) : ∀ (ops : List Op) (w : W), TInv D w → HistWF ops → AllOk D w ops →
    TInv D (stateAfter D w ops) ∧ abs (stateAfter D w ops) = ops.foldl (aStep w.cols) (abs w) ∧
    (stateAfter D w ops).cols = w.cols ∧ (stateAfter D w ops).codec = w.codec := by
  intro ops
  induction ops with
  | nil => intro w h _ _; exact ⟨h, rfl, rfl, rfl⟩
  | cons op ops ih =>
    intro w h hwf hok
    obtain ⟨s1, s2, s3, s4⟩ := step_refines D w op h (fun b hb => hwf b (by simp [hb])) hok.1
    obtain ⟨i1, i2, i3, i4⟩ := ih (step D w op).1 s1 (fun b hb => hwf b (List.mem_cons_of_mem _ hb)) hok.2
    refine ⟨i1, ?_, i3.trans s3, i4.trans s4⟩
    simp only [stateAfter, List.foldl_cons] at i2 ⊢
    rw [i2, s2, s3]

theorem tinv_init (D : Deps) (cols : List Col) (codec pageSize : Nat) (createdBy : String) :
    TInv D { cols := cols, codec := codec, pageSize := pageSize, createdBy := createdBy } :=
  ⟨fun g hg => by simp at hg, fun cws h => by simp at h⟩

end Carquet.Proofs.WriterTable

namespace Carquet.Proofs.WriterTable
open Carquet.Impl.Writer Carquet.Proofs.Writer Carquet.Proofs.WriterLayout Carquet.Proofs.WriterPages

theorem run_acc_mem (D : Deps) : ∀ (ops : List Op) (w : W) (acc : List Status) (s : Status),
    s ∈ acc → s ∈ (run D w ops acc).2 := by
  intro ops
  induction ops with
  | nil => intro w acc s h; simp [run, h]
  | cons op ops ih => intro w acc s h; simp only [run]; exact ih _ _ s (by simp [h])

theorem close_status (D : Deps) (w : W) : (close D w).2 = (step D w .newRowGroup).2 := by
  simp only [close, step]
  generalize flushRowGroup D (ensureHeader w) = r
  obtain ⟨w', st⟩ := r
  cases st <;> rfl

/-- every status of the run is OK: every call of the history and the close returned OK -/
theorem run_all_ok (D : Deps) : ∀ (ops : List Op) (w : W) (acc : List Status),
    (∀ s ∈ (run D w ops acc).2, s = .ok) →
    AllOk D w ops ∧ (close D (stateAfter D w ops)).2 = .ok := by
  intro ops
  induction ops with
  | nil =>
    intro w acc h
    exact ⟨trivial, h _ (by simp [run, stateAfter])⟩
  | cons op ops ih =>
    intro w acc h
    simp only [run] at h
    obtain ⟨i1, i2⟩ := ih _ _ h
    exact ⟨⟨h _ (run_acc_mem D ops _ _ _ (by simp)), i1⟩, i2⟩

end Carquet.Proofs.WriterTable
