import Carquet.Proofs.AllocFlow
/-
Schema builder model (C19): growth keeps what is there, failures leave the columns intact.
-/
namespace Carquet.Impl.Alloc.Flow
open Carquet.Impl.Alloc

theorem growCap_ge (fuel cap required : Nat) (hc : 0 < cap) (hf : required ≤ cap + fuel) :
    required ≤ growCap fuel cap required ∧ cap ≤ growCap fuel cap required := by
  induction fuel generalizing cap with
  | zero => simp [growCap]; omega
  | succ n ih =>
    simp only [growCap]
    have h2 : Gen.schemaGrowthFactor = 2 := rfl
    split
    · have := ih (cap * Gen.schemaGrowthFactor) (by rw [h2]; omega) (by rw [h2]; omega)
      rw [h2] at this ⊢
      omega
    · omega

/-- capacity bookkeeping: the four arrays are at least `capacity` long, `capacity` is positive -/
def CapInv (s : Schema) : Prop :=
  0 < s.capacity ∧ s.capacity ≤ s.elemsLen ∧ s.capacity ≤ s.leafLen ∧ s.capacity ≤ s.defLen ∧ s.capacity ≤ s.repLen

/-- the builder's invariant: every element and every leaf entry has a slot -/
def SchemaInv (s : Schema) : Prop :=
  CapInv s ∧ s.elems.length ≤ s.capacity ∧ s.leaves.length + 1 ≤ s.elems.length

instance (s : Schema) : Decidable (SchemaInv s) := by unfold SchemaInv CapInv; infer_instance

theorem newSchemaCap_ge (s : Schema) (required : Nat) (h : 0 < s.capacity) :
    required ≤ newSchemaCap s required ∧ s.capacity ≤ newSchemaCap s required :=
  growCap_ge required s.capacity required h (by omega)

theorem ensureS_same (s : Schema) (required : Nat) (o : Oracle) :
    (schemaEnsureCapacityS s required o).2.1.elems = s.elems ∧
    (schemaEnsureCapacityS s required o).2.1.leaves = s.leaves ∧
    (schemaEnsureCapacityS s required o).2.1.arena = s.arena := by
  unfold schemaEnsureCapacityS
  repeat' split
  all_goals simp

theorem ensureS_capInv (s : Schema) (required : Nat) (o : Oracle) (h : CapInv s) :
    CapInv (schemaEnsureCapacityS s required o).2.1 := by
  have hn := newSchemaCap_ge s required h.1
  unfold schemaEnsureCapacityS CapInv at *
  repeat' split
  all_goals (simp; omega)

theorem ensureS_status (s : Schema) (required : Nat) (o : Oracle) (h : CapInv s) :
    ((schemaEnsureCapacityS s required o).1 = .ok ∧ required ≤ (schemaEnsureCapacityS s required o).2.1.capacity) ∨
    ((schemaEnsureCapacityS s required o).1 = .oom ∧ (schemaEnsureCapacityS s required o).2.1.capacity = s.capacity) := by
  have hn := newSchemaCap_ge s required h.1
  unfold schemaEnsureCapacityS
  repeat' split
  all_goals (simp; try omega)

theorem ensureS_cap_mono (s : Schema) (required : Nat) (o : Oracle) (h : CapInv s) :
    s.capacity ≤ (schemaEnsureCapacityS s required o).2.1.capacity := by
  have hn := newSchemaCap_ge s required h.1
  unfold schemaEnsureCapacityS
  repeat' split
  all_goals (simp; try omega)

theorem grant_of_not {o : Oracle} (h : ¬(!o.grant) = true) : o.grant = true := by
  cases hg : o.grant <;> simp_all

theorem ensureS_ok_indep (s : Schema) (required : Nat) (o : Oracle) (h : (schemaEnsureCapacityS s required o).1 = .ok) :
    Granted o (schemaEnsureCapacityS s required o).2.2 ∧
    schemaEnsureCapacityS s required [] = (.ok, (schemaEnsureCapacityS s required o).2.1, []) := by
  unfold schemaEnsureCapacityS at *
  by_cases h0 : required ≤ s.capacity
  · simp [h0]; exact Granted.refl _
  · simp only [h0, if_false] at *
    by_cases h1 : (!o.grant) = true
    · simp [h1] at h
    · by_cases h2 : (!o.rest.grant) = true
      · simp [h1, h2] at h
      · by_cases h3 : (!o.rest.rest.grant) = true
        · simp [h1, h2, h3] at h
        · by_cases h4 : (!o.rest.rest.rest.grant) = true
          · simp [h1, h2, h3, h4] at h
          · simp only [h1, h2, h3, h4, if_false]
            refine ⟨?_, by simp⟩
            exact (Granted.step _ (grant_of_not h1)).trans ((Granted.step _ (grant_of_not h2)).trans
              ((Granted.step _ (grant_of_not h3)).trans (Granted.step _ (grant_of_not h4))))

/-- What carquet_schema_add_column guarantees under every oracle. -/
theorem addColumnS_spec (checked : Bool) (s : Schema) (name : List UInt8) (rep : Nat) (o : Oracle) (hinv : SchemaInv s) :
    SchemaInv (schemaAddColumnS checked s name rep o).2.1 ∧
    ((schemaAddColumnS checked s name rep o).1 ≠ .ok →
        (schemaAddColumnS checked s name rep o).1 = .oom ∧
        (schemaAddColumnS checked s name rep o).2.1.elems = s.elems ∧
        (schemaAddColumnS checked s name rep o).2.1.leaves = s.leaves ∧
        s.capacity ≤ (schemaAddColumnS checked s name rep o).2.1.capacity) ∧
    ((schemaAddColumnS checked s name rep o).1 = .ok →
        ∃ nm, (schemaAddColumnS checked s name rep o).2.1.elems = s.elems ++ [⟨nm, rep⟩] ∧
          (schemaAddColumnS checked s name rep o).2.1.leaves = s.leaves ++ [(s.elems.length, maxDefOf rep, maxRepOf rep)] ∧
          (checked = true → nm = some name)) := by
  obtain ⟨hcap, hlen, hleaf⟩ := hinv
  have hsame := ensureS_same s (s.elems.length + 1) o
  have hci := ensureS_capInv s (s.elems.length + 1) o hcap
  have hst := ensureS_status s (s.elems.length + 1) o hcap
  have hmono := ensureS_cap_mono s (s.elems.length + 1) o hcap
  unfold schemaAddColumnS
  generalize hr : schemaEnsureCapacityS s (s.elems.length + 1) o = r at *
  obtain ⟨st, s1, o1⟩ := r
  simp only at hsame hci hst hmono
  obtain ⟨he, hl, _⟩ := hsame
  cases st with
  | ok =>
    have hreq : s.elems.length + 1 ≤ s1.capacity := by
      rcases hst with ⟨_, h⟩ | ⟨h, _⟩
      · exact h
      · simp at h
    simp only
    generalize hsd : Arena.strdup s1.arena name.length 8 o1 = sd
    obtain ⟨res, ar', o2⟩ := sd
    cases res with
    | some p =>
      simp only
      refine ⟨⟨?_, ?_, ?_⟩, ?_, ?_⟩
      · simpa [pushColumn, CapInv] using hci
      · simp [pushColumn, he]; omega
      · simp [pushColumn, he, hl]; omega
      · intro h; simp at h
      · intro _; exact ⟨some name, by simp [pushColumn, he], by simp [pushColumn, he, hl], fun _ => rfl⟩
    | none =>
      cases checked with
      | true =>
        simp only [if_true]
        refine ⟨⟨?_, ?_, ?_⟩, ?_, ?_⟩
        · simpa [CapInv] using hci
        · simp [he]; omega
        · simp [he, hl]; omega
        · intro _; exact ⟨by trivial, he, hl, hmono⟩
        · intro h; simp at h
      | false =>
        simp only [Bool.false_eq_true, if_false]
        refine ⟨⟨?_, ?_, ?_⟩, ?_, ?_⟩
        · simpa [pushColumn, CapInv] using hci
        · simp [pushColumn, he]; omega
        · simp [pushColumn, he, hl]; omega
        · intro h; simp at h
        · intro _; exact ⟨none, by simp [pushColumn, he], by simp [pushColumn, he, hl], fun h => by simp at h⟩
  | oom =>
    simp only
    have hc : s1.capacity = s.capacity := by
      rcases hst with ⟨h, _⟩ | ⟨_, h⟩
      · simp at h
      · exact h
    refine ⟨⟨hci, by rw [he, hc]; exact hlen, by rw [he, hl]; exact hleaf⟩, ?_, ?_⟩
    · intro _; exact ⟨by trivial, he, hl, Nat.le_of_eq hc.symm⟩
    · intro h; simp at h
  | other =>
    rcases hst with ⟨h, _⟩ | ⟨h, _⟩ <;> simp at h

theorem addColumnS_ok_indep (s : Schema) (name : List UInt8) (rep : Nat) (o : Oracle)
    (h : (schemaAddColumnS true s name rep o).1 = .ok) :
    Granted o (schemaAddColumnS true s name rep o).2.2 ∧
    schemaAddColumnS true s name rep [] = (.ok, (schemaAddColumnS true s name rep o).2.1, []) := by
  unfold schemaAddColumnS at *
  have hE := ensureS_ok_indep s (s.elems.length + 1) o
  generalize hr : schemaEnsureCapacityS s (s.elems.length + 1) o = r at *
  obtain ⟨st, s1, o1⟩ := r
  cases st with
  | ok =>
    obtain ⟨g1, e1⟩ := hE rfl
    simp only at g1 e1 h ⊢
    rw [e1]; simp only
    have hA := allocAligned_some_indep s1.arena (min name.length name.length + 1) 1 8 o1
    unfold Arena.strdup Arena.strndup at *
    generalize hsd : Arena.allocAligned s1.arena (min name.length name.length + 1) 1 8 o1 = sd at *
    obtain ⟨res, ar', o2⟩ := sd
    cases res with
    | some p =>
      obtain ⟨g2, e2⟩ := hA p rfl
      simp only at g2 e2 ⊢
      rw [e2]
      exact ⟨g1.trans g2, rfl⟩
    | none => simp at h
  | oom => simp at h
  | other => simp at h

theorem clean_schemaAddColumn (s : Schema) (name : List UInt8) (rep : Nat) : Clean (schemaAddColumn true s name rep) := by
  refine ⟨?_, ?_⟩
  · intro o a o' h
    unfold schemaAddColumn at h
    have hI := addColumnS_ok_indep s name rep o
    generalize hr : schemaAddColumnS true s name rep o = r at *
    obtain ⟨st, s', o1⟩ := r
    cases st <;> simp at h
    obtain ⟨h1, h2⟩ := h; subst h1; subst h2
    obtain ⟨g, e⟩ := hI rfl
    refine ⟨g, ?_⟩
    unfold schemaAddColumn; rw [e]
  · intro o o' h
    unfold schemaAddColumn at h
    generalize schemaAddColumnS true s name rep o = r at h
    obtain ⟨st, s', o1⟩ := r
    cases st <;> simp at h

end Carquet.Impl.Alloc.Flow
