import Carquet.Impl.CSem
/-
Memory lemmas for the stage-2 link theorems (arrays as lists, pointers as offsets): reading through `List.drop`,
splitting the bytes ahead of a pointer into the next `k` bytes and the rest, bounds predicates.
-/
namespace Carquet.Proofs.CFun2
open Carquet.Impl.CSem

theorem rd8_drop (d : List UInt8) (p i : Nat) : rd8 (d.drop p) i = rd8 d (p + i) := by
  simp [rd8, List.getD, List.getElem?_drop]

theorem rd_drop (d : List (BitVec w)) (p i : Nat) : rd (d.drop p) i = rd d (p + i) := by
  simp [rd, List.getD, List.getElem?_drop]

@[simp] theorem rd8_cons_zero (b : UInt8) (r : List UInt8) : rd8 (b :: r) 0 = b.toBitVec := rfl
@[simp] theorem rd8_cons_succ (b : UInt8) (r : List UInt8) (i : Nat) : rd8 (b :: r) (i + 1) = rd8 r i := by
  simp [rd8, List.getD]

theorem inb_iff (a : List α) (i n : Nat) : inb a i n = true ↔ i + n ≤ a.length := by simp [inb]

@[simp] theorem inb_drop (d : List α) (p i n : Nat) : inb (d.drop p) i n = decide (p + i + n ≤ d.length ∨ (i + n = 0)) := by
  simp only [inb, List.length_drop]
  by_cases h : i + n = 0
  · have : i = 0 ∧ n = 0 := by omega
    simp [this.1, this.2]
  · simp only [h, or_false]
    congr 1
    apply propext
    omega

/-- the byte at offset `p` and the rest -/
theorem drop_eq_cons (d : List UInt8) (p : Nat) (h : p < d.length) :
    d.drop p = d.getD p 0 :: d.drop (p + 1) := by
  rw [List.drop_eq_getElem_cons h]
  simp [List.getD, List.getElem?_eq_getElem h]

theorem drop_eq_cons4 (d : List UInt8) (p : Nat) (h : p + 4 ≤ d.length) :
    d.drop p = d.getD p 0 :: d.getD (p + 1) 0 :: d.getD (p + 2) 0 :: d.getD (p + 3) 0 :: d.drop (p + 4) := by
  rw [drop_eq_cons d p (by omega), drop_eq_cons d (p + 1) (by omega), drop_eq_cons d (p + 2) (by omega),
    drop_eq_cons d (p + 3) (by omega)]

theorem drop_eq_cons8 (d : List UInt8) (p : Nat) (h : p + 8 ≤ d.length) :
    d.drop p = d.getD p 0 :: d.getD (p + 1) 0 :: d.getD (p + 2) 0 :: d.getD (p + 3) 0 :: d.getD (p + 4) 0 ::
      d.getD (p + 5) 0 :: d.getD (p + 6) 0 :: d.getD (p + 7) 0 :: d.drop (p + 8) := by
  rw [drop_eq_cons4 d p (by omega), drop_eq_cons4 d (p + 4) (by omega)]

/-- a list of at most `k` elements that is not of the form `_ :: … :: rest` (k+1 conses) -/
theorem drop_short (d : List α) (p : Nat) (h : d.length ≤ p) : d.drop p = [] := by
  simp [List.drop_eq_nil_iff, h]

theorem rd8_eq (d : List UInt8) (i : Nat) : rd8 d i = (d.getD i 0).toBitVec := rfl

end Carquet.Proofs.CFun2
