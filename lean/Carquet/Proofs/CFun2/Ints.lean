import Carquet.Impl.CSem
namespace Carquet.Proofs.CFun2
open Carquet Carquet.Impl Carquet.Impl.CSem

/-! ### small-number facts about `int` loop counters -/

theorem ofNat_toInt_small (n : Nat) (h : n < 2 ^ 31) : (BitVec.ofNat 32 n).toInt = (n : Int) := by
  rw [BitVec.toInt_eq_toNat_of_lt] <;> simp [BitVec.toNat_ofNat] <;> omega

theorem ofNat_toNat_small (n : Nat) (h : n < 2 ^ 31) : (BitVec.ofNat 32 n).toNat = n := by
  simp [BitVec.toNat_ofNat]; omega

theorem slt_ofNat (n m : Nat) (hn : n < 2 ^ 31) (hm : m < 2 ^ 31) :
    BitVec.slt (BitVec.ofNat 32 n) (BitVec.ofNat 32 m) = decide (n < m) := by
  rw [BitVec.slt_eq_decide, ofNat_toInt_small n hn, ofNat_toInt_small m hm]
  simp

theorem ofNat_add_one (n : Nat) : BitVec.ofNat 32 n + 1#32 = BitVec.ofNat 32 (n + 1) := by
  apply BitVec.eq_of_toNat_eq; simp [BitVec.toNat_add, BitVec.toNat_ofNat]

theorem ofNat_sub_one (n : Nat) (h : 0 < n) (h2 : n < 2 ^ 31) : BitVec.ofNat 32 n - 1#32 = BitVec.ofNat 32 (n - 1) := by
  apply BitVec.eq_of_toNat_eq
  simp [BitVec.toNat_sub, BitVec.toNat_ofNat]
  omega

theorem msb_ofNat_small (n : Nat) (h : n < 2 ^ 31) : (BitVec.ofNat 32 n).msb = false := by
  rw [BitVec.msb_eq_decide]; simp [BitVec.toNat_ofNat]; omega

theorem sAddOk_small (n : Nat) (h : n < 2 ^ 30) : sAddOk (BitVec.ofNat 32 n) 1#32 = true := by
  simp only [sAddOk, BitVec.saddOverflow, ofNat_toInt_small n (by omega)]
  simp
  omega

theorem padd_nat (a n : Nat) : padd a (n : Int) = a + n := by
  simp [padd]; omega

theorem paddOk_nat (a n : Nat) : paddOk a (n : Int) = true := by
  simp [paddOk]; omega
end Carquet.Proofs.CFun2
