import Carquet.Proofs.CFun2.Varint
import Carquet.Proofs.CFun2.Loads
import Carquet.Impl.Snappy
/-
Stage-2 link lemmas for src/compression/snappy.c `snappy_read_varint` (a `(p, end)` pointer pair, `*p++`, `p - start`)
against Impl.Snappy.readVarint (which adds where the C code ORs: the accumulated value is below `2^shift`).
-/
namespace Carquet.Proofs.CFun2
open Carquet Carquet.Impl Carquet.Impl.CSem

theorem payload_snappy_lit (r : BitVec 32) (b : UInt8) (s : Nat) (hs : s ≤ 28) (hr : r.toNat < 2 ^ s) :
    (r ||| ((BitVec.setWidth 32 b.toBitVec &&& 127#32) <<< s)).toNat =
      (r.toNat + (b.toNat % 128 * 2 ^ s) % 2 ^ 32) % 2 ^ 32 ∧
    (r ||| ((BitVec.setWidth 32 b.toBitVec &&& 127#32) <<< s)).toNat < 2 ^ (s + 7) := by
  have hb := byte_lt b
  have h7 : b.toNat &&& 127 = b.toNat % 128 := by
    rw [show (127 : Nat) = 2 ^ 7 - 1 from rfl, Nat.and_two_pow_sub_one_eq_mod]
  have h128 : b.toNat % 128 < 128 := Nat.mod_lt _ (by omega)
  have key : (r ||| ((BitVec.setWidth 32 b.toBitVec &&& 127#32) <<< s)).toNat =
      r.toNat + ((b.toNat % 128) * 2 ^ s) % 2 ^ 32 ∧
      r.toNat + ((b.toNat % 128) * 2 ^ s) % 2 ^ 32 < 2 ^ 32 ∧ r.toNat + ((b.toNat % 128) * 2 ^ s) % 2 ^ 32 < 2 ^ (s + 7) := by
    simp only [BitVec.toNat_or, BitVec.toNat_shiftLeft, BitVec.toNat_and, BitVec.toNat_setWidth, UInt8.toNat_toBitVec,
      Nat.mod_eq_of_lt (show b.toNat < 2 ^ 32 by omega), BitVec.toNat_ofNat, Nat.shiftLeft_eq]
    rw [show (127 % 2 ^ 32 : Nat) = 127 from rfl, h7]
    generalize b.toNat % 128 = c at h128
    have hp : (2 : Nat) ^ (s + 7) = 2 ^ s * 128 := by rw [Nat.pow_add]
    have h32 : (2 : Nat) ^ 32 = 2 ^ s * 2 ^ (32 - s) := by rw [← Nat.pow_add]; congr 1; omega
    have hpos : 0 < 2 ^ s := Nat.pos_of_ne_zero (by simp)
    -- c * 2^s mod 2^32 = (c mod 2^(32-s)) * 2^s: a multiple of 2^s, below 128 * 2^s
    have hm : c * 2 ^ s % 2 ^ 32 = (c % 2 ^ (32 - s)) * 2 ^ s := by
      rw [h32, Nat.mul_comm c, Nat.mul_mod_mul_left, Nat.mul_comm]
    rw [hm, ← Nat.shiftLeft_eq, or_shl_add _ _ _ hr, Nat.shiftLeft_eq]
    have hc' : c % 2 ^ (32 - s) ≤ c := Nat.mod_le _ _
    have hc2 : c % 2 ^ (32 - s) < 2 ^ (32 - s) := Nat.mod_lt _ (Nat.pos_of_ne_zero (by simp))
    refine ⟨rfl, ?_, ?_⟩
    · calc r.toNat + c % 2 ^ (32 - s) * 2 ^ s < 2 ^ s + c % 2 ^ (32 - s) * 2 ^ s := by omega
        _ = (c % 2 ^ (32 - s) + 1) * 2 ^ s := by rw [Nat.add_mul]; omega
        _ ≤ 2 ^ (32 - s) * 2 ^ s := Nat.mul_le_mul_right _ hc2
        _ = 2 ^ 32 := by rw [← Nat.pow_add]; congr 1; omega
    · calc r.toNat + c % 2 ^ (32 - s) * 2 ^ s < 2 ^ s + c % 2 ^ (32 - s) * 2 ^ s := by omega
        _ = (c % 2 ^ (32 - s) + 1) * 2 ^ s := by rw [Nat.add_mul]; omega
        _ ≤ 128 * 2 ^ s := Nat.mul_le_mul_right _ (by omega)
        _ = 2 ^ (s + 7) := by rw [hp, Nat.mul_comm]
  exact ⟨by rw [key.1, Nat.mod_eq_of_lt key.2.1], by rw [key.1]; exact key.2.2⟩
theorem lt128_iff : ∀ n : Fin 256, (n.val < 128 ↔ n.val &&& 0x80 = 0) := by decide +kernel

theorem snappy_loop (p : List UInt8) :
    ∀ (fuel k : Nat) (value : BitVec 32), k ≤ 4 → 5 - k < fuel → value.toNat < 2 ^ (7 * k) →
      (match Snappy.readVarintLoop Snappy.Fixes.all p.toArray (5 - k) k (7 * k) value.toNat with
       | some (v, n) => Gen.CFun.snappy_read_varint_loop1 fuel p k p.length value (BitVec.ofNat 32 (7 * k)) =
            (BitVec.ofNat 64 n, BitVec.ofNat 32 v)
       | none => (Gen.CFun.snappy_read_varint_loop1 fuel p k p.length value (BitVec.ofNat 32 (7 * k))).1 = 0#64) ∧
      Gen.CFun.snappy_read_varint_loop1_defined fuel p k p.length value (BitVec.ofNat 32 (7 * k)) = true := by
  intro fuel
  induction fuel with
  | zero => intro k _ _ hf; omega
  | succ f ih =>
    intro k value hk hf hval
    obtain ⟨f', hf'⟩ : ∃ f', 5 - k = f' + 1 := ⟨4 - k, by omega⟩
    simp only [Gen.CFun.snappy_read_varint_loop1, Gen.CFun.snappy_read_varint_loop1_defined, hf', Snappy.readVarintLoop]
    have hsh : (BitVec.ofNat 32 (7 * k)).toNat = 7 * k := ofNatW_toNat 32 _ (by omega)
    by_cases hin : k < p.length
    · have hsz : k < p.toArray.size := by simpa using hin
      have hget : p.toArray[k] = p.getD k 0 := by simp [List.getD, List.getElem?_eq_getElem hin]
      have hpl := payload_snappy_lit value (p.getD k 0) (7 * k) (by omega) hval
      have hb := byte_lt (p.getD k 0)
      have c28 : (BitVec.ofNat 32 (7 * k) == 28#32) = decide (7 * k = 28) := by
        rw [Bool.eq_iff_iff]; simp only [beq_iff_eq, decide_eq_true_eq]
        constructor
        · intro h; have := congrArg BitVec.toNat h; simpa [hsh] using this
        · intro h; rw [h]
      have c15 : BitVec.slt 15#32 (BitVec.setWidth 32 (p.getD k 0).toBitVec) = decide ((p.getD k 0).toNat > 15) := by
        have hb' : (p[k]?.getD 0).toNat < 256 := byte_lt _
        have h1 : (BitVec.setWidth 32 (p.getD k 0).toBitVec).toInt = ((p.getD k 0).toNat : Int) := by
          rw [BitVec.toInt_eq_toNat_of_lt (by simp; omega)]; simp
        rw [BitVec.slt_eq_decide, h1, show (15#32 : BitVec 32).toInt = 15 from by decide]
        exact decide_eq_decide.mpr (by omega)
      have c128 : decide ((p.getD k 0).toNat < 128) = decide ((p.getD k 0).toNat &&& 0x80 = 0) :=
        decide_eq_decide.mpr (lt128_iff ⟨(p.getD k 0).toNat, hb⟩)
      have c32 : BitVec.sle 32#32 (BitVec.ofNat 32 (7 * k) + 7#32) = decide (7 * k + 7 ≥ 32) := by
        rw [show (7#32 : BitVec 32) = BitVec.ofNat 32 7 from rfl, ofNatW_add, show (32#32 : BitVec 32) = BitVec.ofNat 32 32 from rfl,
          BitVec.sle_eq_decide, ofNat_toInt_small _ (by omega), ofNat_toInt_small _ (by omega)]
        exact decide_eq_decide.mpr (by omega)
      have hv1 : Gen.CFun.snappy_read_varint_v1 p k p.length value (BitVec.ofNat 32 (7 * k)) =
          value ||| ((BitVec.setWidth 32 (p.getD k 0).toBitVec &&& 127#32) <<< (7 * k)) := by
        simp only [Gen.CFun.snappy_read_varint_v1, hsh, rd8_eq]
      have hinb : inb p k 1 = true := by rw [inb_iff]; omega
      have hsc : shCountOk true 32 (BitVec.ofNat 32 (7 * k)) = true := by
        simp only [shCountOk, hsh, msb_ofNat_small _ (by omega : 7 * k < 2 ^ 31)]; simp; omega
      have hsa : sAddOk (BitVec.ofNat 32 (7 * k)) 7#32 = true := by
        simp only [sAddOk, BitVec.saddOverflow, ofNat_toInt_small _ (by omega : 7 * k < 2 ^ 31)]
        simp; omega
      simp only [hin, hsz, decide_true, if_true, dite_true, hget, c28, Snappy.Fixes.all, Bool.true_and, rd8_eq,
        cont_bit, beq_iff_eq, c15, c32, hv1, hinb, hsc, hsa]
      by_cases hA : 7 * k = 28 ∧ (p.getD k 0).toNat > 15
      · have hA1 : (decide (7 * k = 28) && decide ((p.getD k 0).toNat > 15)) = true := by
          simp only [hA.1, hA.2, decide_true, Bool.and_self]
        have hA2 : (7 * k == 28 && decide ((p.getD k 0).toNat > 15)) = true := by
          simp only [hA.1, hA.2, beq_self_eq_true, decide_true, Bool.and_self]
        simp only [hA1, hA2, if_true]
        exact ⟨trivial, trivial⟩
      · have hA' : (decide (7 * k = 28) && decide ((p.getD k 0).toNat > 15)) = false := by
          simp only [Bool.and_eq_false_iff, decide_eq_false_iff_not]; omega
        have hA'' : (7 * k == 28 && decide ((p.getD k 0).toNat > 15)) = false := by
          simp only [Bool.and_eq_false_iff, beq_eq_false_iff_ne, decide_eq_false_iff_not]; omega
        simp only [hA', hA'', Bool.false_eq_true, if_false]
        by_cases hc : (p.getD k 0).toNat < 128
        · have hc' : (p.getD k 0).toNat &&& 128 = 0 := (lt128_iff ⟨_, hb⟩).mp hc
          simp only [hc, hc', decide_true, if_true]
          refine ⟨?_, trivial⟩
          rw [← hpl.1, BitVec.ofNat_toNat, BitVec.setWidth_eq]
          congr 1
        · have hc' : ¬ (p.getD k 0).toNat &&& 128 = 0 := fun h => hc ((lt128_iff ⟨_, hb⟩).mpr h)
          simp only [hc, hc', decide_false, Bool.false_eq_true, if_false]
          by_cases h32 : 7 * k + 7 ≥ 32
          · simp [h32]
          · simp only [h32, decide_false, Bool.false_eq_true, if_false]
            have hnext := ih (k + 1) (value ||| ((BitVec.setWidth 32 (p.getD k 0).toBitVec &&& 127#32) <<< (7 * k)))
              (by omega) (by omega) (by rw [show 7 * (k + 1) = 7 * k + 7 from by omega]; exact hpl.2)
            have hf2 : 5 - (k + 1) = f' := by omega
            rw [hf2, hpl.1, show 7 * (k + 1) = 7 * k + 7 from by omega] at hnext
            rw [show (7#32 : BitVec 32) = BitVec.ofNat 32 7 from rfl, ofNatW_add]
            exact ⟨hnext.1, by rw [hnext.2]⟩
    · have hsz : ¬ k < p.toArray.size := by simpa using hin
      simp [hin, hsz]

/-- `snappy_read_varint(p, end, &value)` with `end` the end of the buffer -/
theorem snappy_read_varint_eq (p : List UInt8) (value : BitVec 32) :
    (match Snappy.readVarint Snappy.Fixes.all p.toArray with
     | some (v, n) => Gen.CFun.snappy_read_varint p p.length value = (BitVec.ofNat 64 n, BitVec.ofNat 32 v)
     | none => (Gen.CFun.snappy_read_varint p p.length value).1 = 0#64) ∧
    Gen.CFun.snappy_read_varint_defined p p.length value = true := by
  have h := snappy_loop p 6 0 0#32 (by omega) (by omega) (by simp)
  simpa [Gen.CFun.snappy_read_varint, Gen.CFun.snappy_read_varint_defined, Snappy.readVarint] using h
end Carquet.Proofs.CFun2
