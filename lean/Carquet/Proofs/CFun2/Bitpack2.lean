import Carquet.Proofs.CFun2.Bitpack
/-
Stage-2 link lemmas for the remaining specialised unpackers of src/core/bitpack.c: read_le16/40/48/56 and
carquet_bitunpack8_1bit/2bit/5bit/6bit/7bit.
-/
namespace Carquet.Proofs.CFun2
open Carquet Carquet.Impl Carquet.Impl.CSem
open Carquet.Proofs.Bloom (exists_cons8)

theorem exists_cons5 (l : List UInt8) (h : 5 ≤ l.length) : ∃ x0 x1 x2 x3 x4 r, l = x0 :: x1 :: x2 :: x3 :: x4 :: r := by
  rcases l with _ | ⟨x0, _ | ⟨x1, _ | ⟨x2, _ | ⟨x3, _ | ⟨x4, r⟩⟩⟩⟩⟩
  all_goals first | exact ⟨_, _, _, _, _, _, rfl⟩ | (simp at h; done) | (simp at h; omega)

theorem bleNat_cons5 (x0 x1 x2 x3 x4 : UInt8) (r : List UInt8) :
    Bitpack.leNat ((x0 :: x1 :: x2 :: x3 :: x4 :: r).take 5) =
    x0.toNat + x1.toNat * 2 ^ 8 + x2.toNat * 2 ^ 16 + x3.toNat * 2 ^ 24 + x4.toNat * 2 ^ 32 := by
  simp only [List.take_succ_cons, List.take_zero, Bitpack.leNat]
  omega

theorem read_le40_toNat (p : List UInt8) (hp : 5 ≤ p.length) : (Gen.CFun.read_le40 p).toNat = Bitpack.leNat (p.take 5) := by
  have hsum : Bitpack.leNat (p.take 5) = (p.getD 0 0).toNat + (p.getD 1 0).toNat * 2 ^ 8 + (p.getD 2 0).toNat * 2 ^ 16 +
      (p.getD 3 0).toNat * 2 ^ 24 + (p.getD 4 0).toNat * 2 ^ 32 := by
    obtain ⟨x0, x1, x2, x3, x4, r, rfl⟩ := exists_cons5 p hp
    rw [bleNat_cons5]; simp [List.getD]
  have h0 := byte_lt' (p.getD 0 0)
  have h1 := byte_lt' (p.getD 1 0)
  have h2 := byte_lt' (p.getD 2 0)
  have h3 := byte_lt' (p.getD 3 0)
  have h4 := byte_lt' (p.getD 4 0)
  rw [hsum]
  simp only [Gen.CFun.read_le40, rd8_eq, BitVec.toNat_or, BitVec.toNat_shiftLeft, BitVec.toNat_setWidth, UInt8.toNat_toBitVec]
  rw [Nat.mod_eq_of_lt (by omega : (p.getD 0 0).toNat < 2 ^ 64), Nat.mod_eq_of_lt (by omega : (p.getD 1 0).toNat < 2 ^ 64),
    Nat.mod_eq_of_lt (by omega : (p.getD 2 0).toNat < 2 ^ 64), Nat.mod_eq_of_lt (by omega : (p.getD 3 0).toNat < 2 ^ 64),
    Nat.mod_eq_of_lt (by omega : (p.getD 4 0).toNat < 2 ^ 64)]
  simp only [Nat.shiftLeft_eq]
  rw [Nat.mod_eq_of_lt (by omega : (p.getD 1 0).toNat * 2 ^ 8 < 2 ^ 64), Nat.mod_eq_of_lt (by omega : (p.getD 2 0).toNat * 2 ^ 16 < 2 ^ 64),
    Nat.mod_eq_of_lt (by omega : (p.getD 3 0).toNat * 2 ^ 24 < 2 ^ 64), Nat.mod_eq_of_lt (by omega : (p.getD 4 0).toNat * 2 ^ 32 < 2 ^ 64)]
  simp only [← Nat.shiftLeft_eq]
  rw [or_shl_add _ _ 8 (by omega), or_shl_add _ _ 16 (by omega), or_shl_add _ _ 24 (by omega), or_shl_add _ _ 32 (by omega)]
  simp only [Nat.shiftLeft_eq]

theorem mod32_and (x m : Nat) (hm : (2 ^ 32 - 1) &&& m = m) : x % 2 ^ 32 &&& m = x &&& m := by
  rw [← Nat.and_two_pow_sub_one_eq_mod, Nat.and_assoc, hm]

theorem bitunpack8_5bit_eq (input : List UInt8) (values : List (BitVec 32)) (hi : 5 ≤ input.length) (hv : 8 ≤ values.length) :
    (Gen.CFun.carquet_bitunpack8_5bit input values).map BitVec.toNat =
      Bitpack.unpack8_5bit input ++ (values.drop 8).map BitVec.toNat := by
  obtain ⟨v0, v1, v2, v3, v4, v5, v6, v7, rest, rfl⟩ := exists_cons8 values hv
  simp [Gen.CFun.carquet_bitunpack8_5bit, wr, Bitpack.unpack8_5bit, Bitpack.extract, read_le40_toNat input hi,
    mod32_and _ 31 (by decide)]

theorem exists_cons6 (l : List UInt8) (h : 6 ≤ l.length) : ∃ x0 x1 x2 x3 x4 x5 r, l = x0 :: x1 :: x2 :: x3 :: x4 :: x5 :: r := by
  rcases l with _ | ⟨x0, _ | ⟨x1, _ | ⟨x2, _ | ⟨x3, _ | ⟨x4, _ | ⟨x5, r⟩⟩⟩⟩⟩⟩
  all_goals first | exact ⟨_, _, _, _, _, _, _, rfl⟩ | (simp at h; done) | (simp at h; omega)

theorem bleNat_cons6 (x0 x1 x2 x3 x4 x5 : UInt8) (r : List UInt8) :
    Bitpack.leNat ((x0 :: x1 :: x2 :: x3 :: x4 :: x5 :: r).take 6) = x0.toNat + x1.toNat * 2 ^ 8 + x2.toNat * 2 ^ 16 + x3.toNat * 2 ^ 24 + x4.toNat * 2 ^ 32 + x5.toNat * 2 ^ 40 := by
  simp only [List.take_succ_cons, List.take_zero, Bitpack.leNat]
  omega

theorem read_le48_toNat (p : List UInt8) (hp : 6 ≤ p.length) : (Gen.CFun.read_le48 p).toNat = Bitpack.leNat (p.take 6) := by
  have hsum : Bitpack.leNat (p.take 6) = (p.getD 0 0).toNat + (p.getD 1 0).toNat * 2 ^ 8 + (p.getD 2 0).toNat * 2 ^ 16 + (p.getD 3 0).toNat * 2 ^ 24 + (p.getD 4 0).toNat * 2 ^ 32 + (p.getD 5 0).toNat * 2 ^ 40 := by
    obtain ⟨x0, x1, x2, x3, x4, x5, r, rfl⟩ := exists_cons6 p hp
    rw [bleNat_cons6]; simp [List.getD]
  have h0 := byte_lt' (p.getD 0 0)
  have h1 := byte_lt' (p.getD 1 0)
  have h2 := byte_lt' (p.getD 2 0)
  have h3 := byte_lt' (p.getD 3 0)
  have h4 := byte_lt' (p.getD 4 0)
  have h5 := byte_lt' (p.getD 5 0)
  rw [hsum]
  simp only [Gen.CFun.read_le48, rd8_eq, BitVec.toNat_or, BitVec.toNat_shiftLeft, BitVec.toNat_setWidth, UInt8.toNat_toBitVec]
  rw [Nat.mod_eq_of_lt (by omega : (p.getD 0 0).toNat < 2 ^ 64), Nat.mod_eq_of_lt (by omega : (p.getD 1 0).toNat < 2 ^ 64), Nat.mod_eq_of_lt (by omega : (p.getD 2 0).toNat < 2 ^ 64), Nat.mod_eq_of_lt (by omega : (p.getD 3 0).toNat < 2 ^ 64), Nat.mod_eq_of_lt (by omega : (p.getD 4 0).toNat < 2 ^ 64), Nat.mod_eq_of_lt (by omega : (p.getD 5 0).toNat < 2 ^ 64)]
  simp only [Nat.shiftLeft_eq]
  rw [Nat.mod_eq_of_lt (by omega : (p.getD 1 0).toNat * 2 ^ 8 < 2 ^ 64), Nat.mod_eq_of_lt (by omega : (p.getD 2 0).toNat * 2 ^ 16 < 2 ^ 64), Nat.mod_eq_of_lt (by omega : (p.getD 3 0).toNat * 2 ^ 24 < 2 ^ 64), Nat.mod_eq_of_lt (by omega : (p.getD 4 0).toNat * 2 ^ 32 < 2 ^ 64), Nat.mod_eq_of_lt (by omega : (p.getD 5 0).toNat * 2 ^ 40 < 2 ^ 64)]
  simp only [← Nat.shiftLeft_eq]
  rw [or_shl_add _ _ 8 (by omega), or_shl_add _ _ 16 (by omega), or_shl_add _ _ 24 (by omega), or_shl_add _ _ 32 (by omega), or_shl_add _ _ 40 (by omega)]
  simp only [Nat.shiftLeft_eq]

theorem bitunpack8_6bit_eq (input : List UInt8) (values : List (BitVec 32)) (hi : 6 ≤ input.length) (hv : 8 ≤ values.length) :
    (Gen.CFun.carquet_bitunpack8_6bit input values).map BitVec.toNat =
      Bitpack.unpack8_6bit input ++ (values.drop 8).map BitVec.toNat := by
  obtain ⟨v0, v1, v2, v3, v4, v5, v6, v7, rest, rfl⟩ := exists_cons8 values hv
  simp [Gen.CFun.carquet_bitunpack8_6bit, wr, Bitpack.unpack8_6bit, Bitpack.extract, read_le48_toNat input hi,
    mod32_and _ 63 (by decide)]

theorem exists_cons7 (l : List UInt8) (h : 7 ≤ l.length) : ∃ x0 x1 x2 x3 x4 x5 x6 r, l = x0 :: x1 :: x2 :: x3 :: x4 :: x5 :: x6 :: r := by
  rcases l with _ | ⟨x0, _ | ⟨x1, _ | ⟨x2, _ | ⟨x3, _ | ⟨x4, _ | ⟨x5, _ | ⟨x6, r⟩⟩⟩⟩⟩⟩⟩
  all_goals first | exact ⟨_, _, _, _, _, _, _, _, rfl⟩ | (simp at h; done) | (simp at h; omega)

theorem bleNat_cons7 (x0 x1 x2 x3 x4 x5 x6 : UInt8) (r : List UInt8) :
    Bitpack.leNat ((x0 :: x1 :: x2 :: x3 :: x4 :: x5 :: x6 :: r).take 7) = x0.toNat + x1.toNat * 2 ^ 8 + x2.toNat * 2 ^ 16 + x3.toNat * 2 ^ 24 + x4.toNat * 2 ^ 32 + x5.toNat * 2 ^ 40 + x6.toNat * 2 ^ 48 := by
  simp only [List.take_succ_cons, List.take_zero, Bitpack.leNat]
  omega

theorem read_le56_toNat (p : List UInt8) (hp : 7 ≤ p.length) : (Gen.CFun.read_le56 p).toNat = Bitpack.leNat (p.take 7) := by
  have hsum : Bitpack.leNat (p.take 7) = (p.getD 0 0).toNat + (p.getD 1 0).toNat * 2 ^ 8 + (p.getD 2 0).toNat * 2 ^ 16 + (p.getD 3 0).toNat * 2 ^ 24 + (p.getD 4 0).toNat * 2 ^ 32 + (p.getD 5 0).toNat * 2 ^ 40 + (p.getD 6 0).toNat * 2 ^ 48 := by
    obtain ⟨x0, x1, x2, x3, x4, x5, x6, r, rfl⟩ := exists_cons7 p hp
    rw [bleNat_cons7]; simp [List.getD]
  have h0 := byte_lt' (p.getD 0 0)
  have h1 := byte_lt' (p.getD 1 0)
  have h2 := byte_lt' (p.getD 2 0)
  have h3 := byte_lt' (p.getD 3 0)
  have h4 := byte_lt' (p.getD 4 0)
  have h5 := byte_lt' (p.getD 5 0)
  have h6 := byte_lt' (p.getD 6 0)
  rw [hsum]
  simp only [Gen.CFun.read_le56, rd8_eq, BitVec.toNat_or, BitVec.toNat_shiftLeft, BitVec.toNat_setWidth, UInt8.toNat_toBitVec]
  rw [Nat.mod_eq_of_lt (by omega : (p.getD 0 0).toNat < 2 ^ 64), Nat.mod_eq_of_lt (by omega : (p.getD 1 0).toNat < 2 ^ 64), Nat.mod_eq_of_lt (by omega : (p.getD 2 0).toNat < 2 ^ 64), Nat.mod_eq_of_lt (by omega : (p.getD 3 0).toNat < 2 ^ 64), Nat.mod_eq_of_lt (by omega : (p.getD 4 0).toNat < 2 ^ 64), Nat.mod_eq_of_lt (by omega : (p.getD 5 0).toNat < 2 ^ 64), Nat.mod_eq_of_lt (by omega : (p.getD 6 0).toNat < 2 ^ 64)]
  simp only [Nat.shiftLeft_eq]
  rw [Nat.mod_eq_of_lt (by omega : (p.getD 1 0).toNat * 2 ^ 8 < 2 ^ 64), Nat.mod_eq_of_lt (by omega : (p.getD 2 0).toNat * 2 ^ 16 < 2 ^ 64), Nat.mod_eq_of_lt (by omega : (p.getD 3 0).toNat * 2 ^ 24 < 2 ^ 64), Nat.mod_eq_of_lt (by omega : (p.getD 4 0).toNat * 2 ^ 32 < 2 ^ 64), Nat.mod_eq_of_lt (by omega : (p.getD 5 0).toNat * 2 ^ 40 < 2 ^ 64), Nat.mod_eq_of_lt (by omega : (p.getD 6 0).toNat * 2 ^ 48 < 2 ^ 64)]
  simp only [← Nat.shiftLeft_eq]
  rw [or_shl_add _ _ 8 (by omega), or_shl_add _ _ 16 (by omega), or_shl_add _ _ 24 (by omega), or_shl_add _ _ 32 (by omega), or_shl_add _ _ 40 (by omega), or_shl_add _ _ 48 (by omega)]
  simp only [Nat.shiftLeft_eq]

theorem bitunpack8_7bit_eq (input : List UInt8) (values : List (BitVec 32)) (hi : 7 ≤ input.length) (hv : 8 ≤ values.length) :
    (Gen.CFun.carquet_bitunpack8_7bit input values).map BitVec.toNat =
      Bitpack.unpack8_7bit input ++ (values.drop 8).map BitVec.toNat := by
  obtain ⟨v0, v1, v2, v3, v4, v5, v6, v7, rest, rfl⟩ := exists_cons8 values hv
  simp [Gen.CFun.carquet_bitunpack8_7bit, wr, Bitpack.unpack8_7bit, Bitpack.extract, read_le56_toNat input hi,
    mod32_and _ 127 (by decide)]

/-- a zero-extended narrower value is non-negative as an `int`: `>>` on it is the logical shift -/
theorem sshr_setWidth {n : Nat} (x : BitVec n) (hn : n < 32) (s : Nat) :
    BitVec.sshiftRight (BitVec.setWidth 32 x) s = BitVec.setWidth 32 x >>> s := by
  apply BitVec.sshiftRight_eq_of_msb_false
  rw [BitVec.msb_eq_decide]
  have := x.isLt
  have h2 : (2 : Nat) ^ n ≤ 2 ^ 31 := Nat.pow_le_pow_right (by omega) (by omega)
  simp only [BitVec.toNat_setWidth, decide_eq_false_iff_not, Nat.not_le]
  have : x.toNat % 2 ^ 32 = x.toNat := Nat.mod_eq_of_lt (by omega)
  omega

theorem read_le16_toNat (p : List UInt8) : (Gen.CFun.read_le16 p).toNat = Bitpack.leNat (p.take 2) := by
  have h0 := byte_lt' (p.getD 0 0)
  have h1 := byte_lt' (p.getD 1 0)
  rw [bleNat_take2]
  simp only [Gen.CFun.read_le16, rd8_eq, BitVec.toNat_or, BitVec.toNat_shiftLeft, BitVec.toNat_setWidth, UInt8.toNat_toBitVec]
  rw [Nat.mod_eq_of_lt (by omega : (p.getD 0 0).toNat < 2 ^ 16), Nat.mod_eq_of_lt (by omega : (p.getD 1 0).toNat < 2 ^ 16),
    Nat.mod_eq_of_lt (by omega : (p.getD 0 0).toNat < 2 ^ 32), Nat.mod_eq_of_lt (by omega : (p.getD 1 0).toNat < 2 ^ 32)]
  simp only [Nat.shiftLeft_eq]
  rw [Nat.mod_eq_of_lt (by omega : (p.getD 1 0).toNat * 2 ^ 8 < 2 ^ 32)]
  simp only [← Nat.shiftLeft_eq]
  rw [or_shl_add _ _ 8 (by omega)]
  simp only [Nat.shiftLeft_eq]
  exact Nat.mod_eq_of_lt (by omega)

theorem bitunpack8_2bit_eq (input : List UInt8) (values : List (BitVec 32)) (hv : 8 ≤ values.length) :
    (Gen.CFun.carquet_bitunpack8_2bit input values).map BitVec.toNat =
      Bitpack.unpack8_2bit input ++ (values.drop 8).map BitVec.toNat := by
  obtain ⟨v0, v1, v2, v3, v4, v5, v6, v7, rest, rfl⟩ := exists_cons8 values hv
  have hl : Bitpack.leNat (input.take 2) % 4294967296 = Bitpack.leNat (input.take 2) := by
    rw [← read_le16_toNat]; exact Nat.mod_eq_of_lt (by have := (Gen.CFun.read_le16 input).isLt; omega)
  simp only [Gen.CFun.carquet_bitunpack8_2bit, sshr_setWidth _ (by omega : 16 < 32)]
  simp [wr, Bitpack.unpack8_2bit, Bitpack.extract, read_le16_toNat, hl]

theorem bitunpack8_1bit_eq (input : List UInt8) (values : List (BitVec 32)) (hv : 8 ≤ values.length) :
    (Gen.CFun.carquet_bitunpack8_1bit input values).map BitVec.toNat =
      Bitpack.unpack8_1bit input ++ (values.drop 8).map BitVec.toNat := by
  obtain ⟨v0, v1, v2, v3, v4, v5, v6, v7, rest, rfl⟩ := exists_cons8 values hv
  have hb := byte_lt' (input.getD 0 0)
  have hm : (input.getD 0 0).toNat % 2 ^ 32 = (input.getD 0 0).toNat := Nat.mod_eq_of_lt (by omega)
  simp only [Gen.CFun.carquet_bitunpack8_1bit, sshr_setWidth _ (by omega : 8 < 32)]
  simp [wr, Bitpack.unpack8_1bit, Bitpack.extract, Bitpack.byteAt, rd8_eq, hm]

/-- the dispatch part of `carquet_bitunpack8_32`: widths 0..8 -/
theorem bitunpack8_32_small (input : List UInt8) (values : List (BitVec 32)) (w : Nat) (hw : w ≤ 8)
    (hi : w ≤ input.length) (hv : 8 ≤ values.length) :
    (Gen.CFun.carquet_bitunpack8_32 input (BitVec.ofNat 32 w) values).map BitVec.toNat =
      Bitpack.unpack8 w input ++ (values.drop 8).map BitVec.toNat := by
  have hc : w = 0 ∨ w = 1 ∨ w = 2 ∨ w = 3 ∨ w = 4 ∨ w = 5 ∨ w = 6 ∨ w = 7 ∨ w = 8 := by omega
  rcases hc with rfl | rfl | rfl | rfl | rfl | rfl | rfl | rfl | rfl
  · simp [Gen.CFun.carquet_bitunpack8_32, Bitpack.unpack8, fill, List.take_zero]
  · simp [Gen.CFun.carquet_bitunpack8_32, Bitpack.unpack8, bitunpack8_1bit_eq input values hv]
  · simp [Gen.CFun.carquet_bitunpack8_32, Bitpack.unpack8, bitunpack8_2bit_eq input values hv]
  · simp [Gen.CFun.carquet_bitunpack8_32, Bitpack.unpack8, bitunpack8_3bit_eq input values hv]
  · simp [Gen.CFun.carquet_bitunpack8_32, Bitpack.unpack8, bitunpack8_4bit_eq input values hv]
  · simp [Gen.CFun.carquet_bitunpack8_32, Bitpack.unpack8, bitunpack8_5bit_eq input values hi hv]
  · simp [Gen.CFun.carquet_bitunpack8_32, Bitpack.unpack8, bitunpack8_6bit_eq input values hi hv]
  · simp [Gen.CFun.carquet_bitunpack8_32, Bitpack.unpack8, bitunpack8_7bit_eq input values hi hv]
  · simp [Gen.CFun.carquet_bitunpack8_32, Bitpack.unpack8, bitunpack8_8bit_eq input values hv]
end Carquet.Proofs.CFun2
