import Carquet.Proofs.CFun2.Mem
import Carquet.Properties.C20.CFun
namespace Carquet.Proofs.CFun2
open Carquet Carquet.Impl Carquet.Impl.CSem Carquet.Properties.C20

theorem read64_le_drop (d : List UInt8) (p : Nat) :
    Gen.CFun.read64_le (d.drop p) =
      Xxh64.read64le (d.getD p 0) (d.getD (p + 1) 0) (d.getD (p + 2) 0) (d.getD (p + 3) 0) (d.getD (p + 4) 0)
        (d.getD (p + 5) 0) (d.getD (p + 6) 0) (d.getD (p + 7) 0) := by
  simp [Gen.CFun.read64_le, rd8_drop, rd8_eq, Xxh64.read64le, Xxh64.u64]

theorem read32_le_drop (d : List UInt8) (p : Nat) :
    Gen.CFun.read32_le (d.drop p) =
      Xxh64.read32le (d.getD p 0) (d.getD (p + 1) 0) (d.getD (p + 2) 0) (d.getD (p + 3) 0) := by
  simp [Gen.CFun.read32_le, rd8_drop, rd8_eq, Xxh64.read32le, Xxh64.u32]

theorem read64_le_defined_drop (d : List UInt8) (p : Nat) :
    Gen.CFun.read64_le_defined (d.drop p) = decide (p + 8 ≤ d.length) := by
  rw [Bool.eq_iff_iff]
  simp [Gen.CFun.read64_le_defined]
  omega

theorem read32_le_defined_drop (d : List UInt8) (p : Nat) :
    Gen.CFun.read32_le_defined (d.drop p) = decide (p + 4 ≤ d.length) := by
  rw [Bool.eq_iff_iff]
  simp [Gen.CFun.read32_le_defined]
  omega
end Carquet.Proofs.CFun2

namespace Carquet.Proofs.CFun2
open Carquet Carquet.Impl Carquet.Impl.CSem Carquet.Properties.C20

theorem hp1 : Xxh64.prime1 = 11400714785074694791#64 := by decide
theorem hp2 : Xxh64.prime2 = 14029467366897019727#64 := by decide
theorem hp3 : Xxh64.prime3 = 1609587929392839161#64 := by decide
theorem hp4 : Xxh64.prime4 = 9650029242287828579#64 := by decide
theorem hp5 : Xxh64.prime5 = 2870177450012600261#64 := by decide

theorem rotl_lit (x : BitVec 64) (r : BitVec 32) (h : r.toNat ≤ 64) (n : Nat) (hn : r.toNat = n) :
    Gen.CFun.xxh64_rotl x r = Xxh64.rotl x n := by
  rw [C20_cfun_xxh64_rotl x r h, hn]

/-- `while (p < end)` and the final mix -/
theorem loop3_eq (d : List UInt8) (len seed : BitVec 64) :
    ∀ (fuel p : Nat) (h : BitVec 64), p ≤ d.length → d.length - p < fuel →
      Gen.CFun.carquet_xxhash64_loop3 fuel d len seed p d.length h = Xxh64.finalMix (Xxh64.tail1 h (d.drop p)) := by
  intro fuel
  induction fuel with
  | zero => intro p h _ hf; omega
  | succ f ih =>
    intro p h hp hf
    simp only [Gen.CFun.carquet_xxhash64_loop3]
    by_cases hlt : p < d.length
    · simp only [hlt, decide_true, if_true]
      rw [ih (p + 1) _ (by omega) (by omega), drop_eq_cons d p hlt]
      simp [Xxh64.tail1, Xxh64.while1, Xxh64.tail1Body, Xxh64.u64, rd8_eq, hp1, hp5,
        rotl_lit _ 11#32 (by decide) 11 (by decide)]
    · have : d.drop p = [] := drop_short d p (by omega)
      simp [hlt, this, Xxh64.tail1, Xxh64.while1, Xxh64.finalMix, hp2, hp3]
end Carquet.Proofs.CFun2

namespace Carquet.Proofs.CFun2
open Carquet Carquet.Impl Carquet.Impl.CSem Carquet.Properties.C20

theorem while8_short {σ : Type} (body : σ → UInt8 → UInt8 → UInt8 → UInt8 → UInt8 → UInt8 → UInt8 → UInt8 → σ) (s : σ)
    (l : List UInt8) (h : l.length < 8) : Xxh64.while8 body s l = (s, l) := by
  rw [Xxh64.while8.eq_2]
  intros; rename_i heq; subst heq; simp only [List.length_cons] at h; omega

set_option maxRecDepth 100000 in
theorem while32_short {σ : Type} (body : σ → UInt8 → UInt8 → UInt8 → UInt8 → UInt8 → UInt8 → UInt8 → UInt8 → UInt8 → UInt8 → UInt8 → UInt8 → UInt8 → UInt8 → UInt8 → UInt8 → UInt8 → UInt8 → UInt8 → UInt8 → UInt8 → UInt8 → UInt8 → UInt8 → UInt8 → UInt8 → UInt8 → UInt8 → UInt8 → UInt8 → UInt8 → UInt8 → σ) (s : σ)
    (l : List UInt8) (h : l.length < 32) : Xxh64.while32 body s l = (s, l) := by
  rw [Xxh64.while32.eq_2]
  intros; rename_i heq; subst heq; simp only [List.length_cons] at h; omega

theorem tail4_short (hh : BitVec 64) (l : List UInt8) (h : l.length < 4) : Xxh64.tail4 hh l = (hh, l) := by
  rw [Xxh64.tail4.eq_2]
  intros; rename_i heq; subst heq; simp only [List.length_cons] at h; omega

theorem finish_cons8 (h : BitVec 64) (b0 b1 b2 b3 b4 b5 b6 b7 : UInt8) (r : List UInt8) :
    Xxh64.finish h (b0 :: b1 :: b2 :: b3 :: b4 :: b5 :: b6 :: b7 :: r) =
      Xxh64.finish (Xxh64.tail8Body h b0 b1 b2 b3 b4 b5 b6 b7) r := by
  simp [Xxh64.finish, Xxh64.tail8, Xxh64.while8]

/-- `while (p + 8 <= end)`, the 4-byte step, the byte loop and the final mix -/
theorem loop2_eq (d : List UInt8) (len seed : BitVec 64) (hlen : len.toNat = d.length) :
    ∀ (fuel p : Nat) (h : BitVec 64), p ≤ d.length → (d.length - p) / 8 < fuel →
      Gen.CFun.carquet_xxhash64_loop2 fuel d len seed p d.length h = Xxh64.finish h (d.drop p) := by
  intro fuel
  induction fuel with
  | zero => intro p h _ hf; omega
  | succ f ih =>
    intro p h hp hf
    simp only [Gen.CFun.carquet_xxhash64_loop2]
    by_cases h8 : p + 8 ≤ d.length
    · simp only [h8, decide_true, if_true]
      rw [ih (p + 8) _ (by omega) (by omega), drop_eq_cons8 d p h8, finish_cons8]
      simp [Xxh64.tail8Body, read64_le_drop, C20_cfun_xxh64_round, hp1, hp4, rotl_lit _ 27#32 (by decide) 27 (by decide)]
    · simp only [h8, decide_false]
      have ht8 : Xxh64.tail8 h (d.drop p) = (h, d.drop p) := while8_short _ _ _ (by simp; omega)
      simp only [Xxh64.finish, ht8]
      by_cases h4 : p + 4 ≤ d.length
      · simp only [h4, decide_true, if_true]
        rw [loop3_eq d len seed _ _ _ (by omega) (by omega), drop_eq_cons4 d p h4]
        simp [h4, Xxh64.tail4, Xxh64.tail4Body, read32_le_drop, hp1, hp2, hp3, rotl_lit _ 23#32 (by decide) 23 (by decide)]
      · simp only [h4, decide_false]
        rw [loop3_eq d len seed _ _ _ (by simp only [if_false, Bool.false_eq_true]; omega) (by simp only [if_false, Bool.false_eq_true]; omega)]
        have ht4 : Xxh64.tail4 h (d.drop p) = (h, d.drop p) := tail4_short _ _ (by simp; omega)
        simp [h4, ht4]
end Carquet.Proofs.CFun2

namespace Carquet.Proofs.CFun2
open Carquet Carquet.Impl Carquet.Impl.CSem Carquet.Properties.C20

theorem k1_eq (d : List UInt8) (len seed : BitVec 64) (hlen : len.toNat = d.length) (p : Nat) (h : BitVec 64)
    (hp : p ≤ d.length) :
    Gen.CFun.carquet_xxhash64_k1 d len seed p d.length h = Xxh64.finish (h + len) (d.drop p) := by
  simp only [Gen.CFun.carquet_xxhash64_k1]
  exact loop2_eq d len seed hlen _ _ _ hp (by omega)

theorem drop_eq_cons32 (d : List UInt8) (p : Nat) (h : p + 32 ≤ d.length) :
    d.drop p = d.getD p 0 :: d.getD (p + 1) 0 :: d.getD (p + 2) 0 :: d.getD (p + 3) 0 :: d.getD (p + 4) 0 ::
      d.getD (p + 5) 0 :: d.getD (p + 6) 0 :: d.getD (p + 7) 0 ::
      d.getD (p + 8) 0 :: d.getD (p + 8 + 1) 0 :: d.getD (p + 8 + 2) 0 :: d.getD (p + 8 + 3) 0 :: d.getD (p + 8 + 4) 0 ::
      d.getD (p + 8 + 5) 0 :: d.getD (p + 8 + 6) 0 :: d.getD (p + 8 + 7) 0 ::
      d.getD (p + 16) 0 :: d.getD (p + 16 + 1) 0 :: d.getD (p + 16 + 2) 0 :: d.getD (p + 16 + 3) 0 :: d.getD (p + 16 + 4) 0 ::
      d.getD (p + 16 + 5) 0 :: d.getD (p + 16 + 6) 0 :: d.getD (p + 16 + 7) 0 ::
      d.getD (p + 24) 0 :: d.getD (p + 24 + 1) 0 :: d.getD (p + 24 + 2) 0 :: d.getD (p + 24 + 3) 0 :: d.getD (p + 24 + 4) 0 ::
      d.getD (p + 24 + 5) 0 :: d.getD (p + 24 + 6) 0 :: d.getD (p + 24 + 7) 0 :: d.drop (p + 32) := by
  rw [drop_eq_cons8 d p (by omega), drop_eq_cons8 d (p + 8) (by omega), drop_eq_cons8 d (p + 16) (by omega),
    drop_eq_cons8 d (p + 24) (by omega)]

/-- the stripe loop `do { … } while (p <= limit)`, the merge rounds and everything after them -/
theorem loop1_eq (d : List UInt8) (len seed : BitVec 64) (hlen : len.toNat = d.length) :
    ∀ (fuel p : Nat) (v1 v2 v3 v4 : BitVec 64), p + 32 ≤ d.length → (d.length - p) / 32 ≤ fuel →
      Gen.CFun.carquet_xxhash64_loop1 fuel d len seed p d.length (d.length - 32) v1 v2 v3 v4 =
        Xxh64.finish (Xxh64.mergeAll (Xxh64.stripeLoop ⟨v1, v2, v3, v4⟩ (d.drop p)).1 + len)
          (Xxh64.stripeLoop ⟨v1, v2, v3, v4⟩ (d.drop p)).2 := by
  intro fuel
  induction fuel with
  | zero => intro p v1 v2 v3 v4 hp hf; omega
  | succ f ih =>
    intro p v1 v2 v3 v4 hp hf
    simp only [Gen.CFun.carquet_xxhash64_loop1]
    simp only [read64_le_drop, C20_cfun_xxh64_round]
    rw [drop_eq_cons32 d p hp]
    simp only [Xxh64.stripeLoop, Xxh64.while32.eq_1, Xxh64.stripeBody]
    by_cases hl : p + 32 ≤ d.length - 32
    · simp only [hl, decide_true, if_true]
      rw [ih (p + 32) _ _ _ _ (by omega) (by omega)]
      rfl
    · simp only [hl, decide_false]
      have hs : ∀ v, Xxh64.while32 Xxh64.stripeBody v (d.drop (p + 32)) = (v, d.drop (p + 32)) :=
        fun v => while32_short _ _ _ (by simp; omega)
      simp only [Gen.CFun.carquet_xxhash64_k2, hs]
      rw [k1_eq d len seed hlen _ _ (by omega)]
      simp [Xxh64.mergeAll, C20_cfun_xxh64_merge_round, rotl_lit _ 1#32 (by decide) 1 (by decide),
        rotl_lit _ 7#32 (by decide) 7 (by decide), rotl_lit _ 12#32 (by decide) 12 (by decide),
        rotl_lit _ 18#32 (by decide) 18 (by decide)]

/-- `carquet_xxhash64(data, length, seed)` as translated from the C source is the model `xxh64`, for every byte
string whose length is what `length` says -/
theorem xxhash64_eq (d : List UInt8) (len seed : BitVec 64) (hlen : len.toNat = d.length) :
    Gen.CFun.carquet_xxhash64 d len seed = Xxh64.xxh64 d seed := by
  have hl : BitVec.ofNat 64 d.length = len := by rw [← hlen]; simp
  have hle : (32#64 ≤ len) ↔ 32 ≤ d.length := by rw [BitVec.le_def, hlen]; rfl
  simp only [Gen.CFun.carquet_xxhash64, Xxh64.xxh64, Xxh64.start, hl]
  by_cases h32 : 32 ≤ d.length
  · simp only [hle, h32, decide_true, if_true, hlen]
    rw [loop1_eq d len seed hlen _ 0 _ _ _ _ (by omega) (by omega)]
    simp [hp1, hp2]
  · simp only [hle, h32, decide_false, hlen]
    rw [k1_eq d len seed hlen 0 _ (by omega)]
    simp [hp5]
end Carquet.Proofs.CFun2

namespace Carquet.Proofs.CFun2
open Carquet Carquet.Impl Carquet.Impl.CSem Carquet.Properties.C20

theorem rotl_defined_lit (x : BitVec 64) (r : BitVec 32) (h : 0 < r.toNat ∧ r.toNat < 64) :
    Gen.CFun.xxh64_rotl_defined x r = true := by
  rw [C20_cfun_xxh64_rotl_defined]; simpa using h

theorem loop3_defined (d : List UInt8) (len seed : BitVec 64) :
    ∀ (fuel p : Nat) (h : BitVec 64), p ≤ d.length → d.length - p < fuel →
      Gen.CFun.carquet_xxhash64_loop3_defined fuel d len seed p d.length h = true := by
  intro fuel
  induction fuel with
  | zero => intro p h _ hf; omega
  | succ f ih =>
    intro p h hp hf
    simp only [Gen.CFun.carquet_xxhash64_loop3_defined]
    by_cases hlt : p < d.length
    · simp only [hlt, decide_true, if_true, ih (p + 1) _ (by omega) (by omega),
        rotl_defined_lit _ 11#32 (by decide), Bool.and_true, inb_iff]
      omega
    · simp [hlt]

theorem loop2_defined (d : List UInt8) (len seed : BitVec 64) (hlen : len.toNat = d.length) :
    ∀ (fuel p : Nat) (h : BitVec 64), p ≤ d.length → (d.length - p) / 8 < fuel →
      Gen.CFun.carquet_xxhash64_loop2_defined fuel d len seed p d.length h = true := by
  intro fuel
  induction fuel with
  | zero => intro p h _ hf; omega
  | succ f ih =>
    intro p h hp hf
    simp only [Gen.CFun.carquet_xxhash64_loop2_defined]
    by_cases h8 : p + 8 ≤ d.length
    · simp [h8, ih (p + 8) _ (by omega) (by omega), rotl_defined_lit _ 27#32 (by decide), read64_le_defined_drop,
        C20_cfun_xxh64_round_defined]
    · by_cases h4 : p + 4 ≤ d.length
      · simp only [h8, h4, decide_true, decide_false, if_true]
        rw [loop3_defined d len seed _ _ _ (by omega) (by omega)]
        simp [read32_le_defined_drop, h4, rotl_defined_lit _ 23#32 (by decide)]
      · simp only [h8, h4, decide_false]
        rw [loop3_defined d len seed _ _ _ (by simp only [if_false, Bool.false_eq_true]; omega)
          (by simp only [if_false, Bool.false_eq_true]; omega)]
        simp

theorem k1_defined (d : List UInt8) (len seed : BitVec 64) (hlen : len.toNat = d.length) (p : Nat) (h : BitVec 64)
    (hp : p ≤ d.length) : Gen.CFun.carquet_xxhash64_k1_defined d len seed p d.length h = true := by
  simp only [Gen.CFun.carquet_xxhash64_k1_defined]
  exact loop2_defined d len seed hlen _ _ _ hp (by omega)

theorem loop1_defined (d : List UInt8) (len seed : BitVec 64) (hlen : len.toNat = d.length) :
    ∀ (fuel p : Nat) (v1 v2 v3 v4 : BitVec 64), p + 32 ≤ d.length → (d.length - p) / 32 ≤ fuel →
      Gen.CFun.carquet_xxhash64_loop1_defined fuel d len seed p d.length (d.length - 32) v1 v2 v3 v4 = true := by
  intro fuel
  induction fuel with
  | zero => intro p v1 v2 v3 v4 hp hf; omega
  | succ f ih =>
    intro p v1 v2 v3 v4 hp hf
    simp only [Gen.CFun.carquet_xxhash64_loop1_defined, read64_le_defined_drop, C20_cfun_xxh64_round_defined]
    have e1 : p + 8 ≤ d.length := by omega
    have e2 : p + 8 + 8 ≤ d.length := by omega
    have e3 : p + 16 + 8 ≤ d.length := by omega
    have e4 : p + 24 + 8 ≤ d.length := by omega
    simp only [e1, e2, e3, e4, decide_true, Bool.true_and]
    by_cases hl : p + 32 ≤ d.length - 32
    · simp only [hl, decide_true, if_true]
      exact ih (p + 32) _ _ _ _ (by omega) (by omega)
    · simp only [hl, decide_false]
      simp [Gen.CFun.carquet_xxhash64_k2_defined, C20_cfun_xxh64_merge_round_defined,
        k1_defined d len seed hlen (p + 32) _ (by omega), rotl_defined_lit _ 1#32 (by decide),
        rotl_defined_lit _ 7#32 (by decide), rotl_defined_lit _ 12#32 (by decide), rotl_defined_lit _ 18#32 (by decide)]

/-- no out-of-bounds read, no undefined arithmetic, enough loop fuel: for every input whose `length` argument is the
length of the buffer -/
theorem xxhash64_defined (d : List UInt8) (len seed : BitVec 64) (hlen : len.toNat = d.length) :
    Gen.CFun.carquet_xxhash64_defined d len seed = true := by
  have hle : (32#64 ≤ len) ↔ 32 ≤ d.length := by rw [BitVec.le_def, hlen]; rfl
  simp only [Gen.CFun.carquet_xxhash64_defined]
  by_cases h32 : 32 ≤ d.length
  · simp only [hle, h32, decide_true, if_true, hlen, Bool.true_and]
    exact loop1_defined d len seed hlen _ 0 _ _ _ _ (by omega) (by omega)
  · simp only [hle, h32, decide_false, hlen]
    exact k1_defined d len seed hlen 0 _ (by omega)
end Carquet.Proofs.CFun2
