import Carquet.Proofs.CFun2.Loads
import Carquet.Proofs.CFun2.Ints
import Carquet.Impl.Stats
import Carquet.Proofs.Bloom
import Carquet.Gen.CFun
namespace Carquet.Proofs.CFun2
open Carquet Carquet.Impl Carquet.Impl.CSem
open Carquet.Spec.Order (leNat)

theorem getD_drop' (a : List UInt8) (k i : Nat) : (a.drop k).getD i 0 = a.getD (k + i) 0 := by
  simp [List.getD, List.getElem?_drop]

theorem leNat_take1 (a : List UInt8) : leNat (a.take 1) = (a.getD 0 0).toNat := by
  rcases a with _ | ⟨x0, r⟩ <;> simp [leNat]

theorem leNat_take4 (a : List UInt8) : leNat (a.take 4) =
    (a.getD 0 0).toNat + (a.getD 1 0).toNat * 2 ^ 8 + (a.getD 2 0).toNat * 2 ^ 16 + (a.getD 3 0).toNat * 2 ^ 24 := by
  rcases a with _ | ⟨x0, _ | ⟨x1, _ | ⟨x2, _ | ⟨x3, r⟩⟩⟩⟩ <;> simp [leNat] <;> omega

theorem leNat_cons8 (x0 x1 x2 x3 x4 x5 x6 x7 : UInt8) (r : List UInt8) :
    leNat ((x0 :: x1 :: x2 :: x3 :: x4 :: x5 :: x6 :: x7 :: r).take 8) =
    x0.toNat + x1.toNat * 2 ^ 8 + x2.toNat * 2 ^ 16 + x3.toNat * 2 ^ 24 +
    x4.toNat * 2 ^ 32 + x5.toNat * 2 ^ 40 + x6.toNat * 2 ^ 48 + x7.toNat * 2 ^ 56 := by
  simp only [List.take_succ_cons, List.take_zero, leNat]
  omega

theorem ld32le_readU (a : List UInt8) : (ld32le a 0).toNat = Stats.readU 4 a := by
  rw [ld32le_toNat, Stats.readU, leNat_take4]

theorem ld64le_readU (a : List UInt8) (h : 8 ≤ a.length) : (ld64le a 0).toNat = Stats.readU 8 a := by
  obtain ⟨x0, x1, x2, x3, x4, x5, x6, x7, r, rfl⟩ := Proofs.Bloom.exists_cons8 a h
  rw [ld64le_toNat, Stats.readU, leNat_cons8]
  simp [List.getD]

theorem ld32le_word (a : List UInt8) (i : Nat) : (ld32le a (i * 4)).toNat = Stats.word a i := by
  rw [ld32le_toNat, Stats.word, leNat_take4]
  simp only [getD_drop', Nat.mul_comm i 4, Nat.add_zero]

theorem toInt_toSigned32 (x : BitVec 32) : x.toInt = Stats.toSigned 32 x.toNat := by
  simp only [BitVec.toInt, Stats.toSigned]
  split <;> split <;> first | rfl | omega | (simp; omega)

theorem toInt_toSigned64 (x : BitVec 64) : x.toInt = Stats.toSigned 64 x.toNat := by
  simp only [BitVec.toInt, Stats.toSigned]
  split <;> split <;> first | rfl | omega | (simp; omega)

theorem sgn_toInt (p q : Bool) : (ofBool p - ofBool q).toInt = Stats.sgn3 p q := by
  cases p <;> cases q <;> decide

theorem sgn_subOk (p q : Bool) : sSubOk (ofBool p) (ofBool q) = true := by
  cases p <;> cases q <;> decide

theorem compare_int32_eq (a b : List UInt8) : (Gen.CFun.stats_compare_int32 a b).toInt = Stats.cmpI32 a b := by
  rw [Gen.CFun.stats_compare_int32, sgn_toInt]
  simp only [Stats.cmpI32, BitVec.slt_eq_decide, toInt_toSigned32, ld32le_readU, gt_iff_lt]

theorem compare_int64_eq (a b : List UInt8) (ha : 8 ≤ a.length) (hb : 8 ≤ b.length) :
    (Gen.CFun.stats_compare_int64 a b).toInt = Stats.cmpI64 a b := by
  rw [Gen.CFun.stats_compare_int64, sgn_toInt]
  simp only [Stats.cmpI64, BitVec.slt_eq_decide, toInt_toSigned64, ld64le_readU a ha, ld64le_readU b hb, gt_iff_lt]
theorem compare_boolean_eq (a b : List UInt8) : (Gen.CFun.stats_compare_boolean a b).toInt = Stats.cmpBool a b := by
  rw [Gen.CFun.stats_compare_boolean, sgn_toInt]
  have hx : ∀ x y : UInt8, BitVec.slt (BitVec.setWidth 32 x.toBitVec) (BitVec.setWidth 32 y.toBitVec) = decide (x.toNat < y.toNat) := by
    intro x y
    have hx := byte_lt' x
    have hy := byte_lt' y
    rw [BitVec.slt_eq_decide, BitVec.toInt_eq_toNat_of_lt (by simp; omega), BitVec.toInt_eq_toNat_of_lt (by simp; omega)]
    simp
  simp only [Stats.cmpBool, Stats.readU, leNat_take1, rd8_eq, hx, gt_iff_lt]

theorem compare_int96_eq (a b : List UInt8) : (Gen.CFun.stats_compare_int96 a b).toInt = Stats.cmpI96 a b := by
  have hne : ∀ i, (ld32le a (i * 4) != ld32le b (i * 4)) = decide (Stats.word a i ≠ Stats.word b i) := by
    intro i
    rw [← ld32le_word, ← ld32le_word, Bool.eq_iff_iff]
    simp [BitVec.toNat_inj]
  have hlt : ∀ x y : List UInt8, ∀ i, decide (ld32le x (i * 4) < ld32le y (i * 4)) = decide (Stats.word x i < Stats.word y i) := by
    intro x y i
    rw [← ld32le_word, ← ld32le_word]
    exact decide_eq_decide.mpr BitVec.lt_def
  have h2 := hne 2; have h1 := hne 1; have h0 := hne 0
  have l2 := hlt a b 2; have l1 := hlt a b 1; have l0 := hlt a b 0
  have g2 := hlt b a 2; have g1 := hlt b a 1; have g0 := hlt b a 0
  simp only [Nat.reduceMul] at h2 h1 h0 l2 l1 l0 g2 g1 g0
  simp only [Gen.CFun.stats_compare_int96, Gen.CFun.stats_compare_int96_loop1]
  simp only [show BitVec.sle 0#32 2#32 = true from by decide, show BitVec.sle 0#32 1#32 = true from by decide,
    show BitVec.sle 0#32 0#32 = true from by decide, show (2#32 : BitVec 32) - 1#32 = 1#32 from by decide,
    show (1#32 : BitVec 32) - 1#32 = 0#32 from by decide, show BitVec.sle 0#32 (0#32 - 1#32) = false from by decide,
    show (2#32 : BitVec 32).toInt.toNat * 4 = 8 from by decide, show (1#32 : BitVec 32).toInt.toNat * 4 = 4 from by decide,
    show (0#32 : BitVec 32).toInt.toNat * 4 = 0 from by decide, if_true, h2, h1, h0, l2, l1, l0, g2, g1, g0, Stats.cmpI96]
  by_cases c2 : Stats.word a 2 ≠ Stats.word b 2
  · simp only [c2, decide_true, if_true, sgn_toInt, gt_iff_lt, ne_eq, not_false_eq_true]
  · simp only [c2, decide_false, Bool.false_eq_true, if_false]
    by_cases c1 : Stats.word a 1 ≠ Stats.word b 1
    · simp only [c1, decide_true, if_true, sgn_toInt, gt_iff_lt, ne_eq, not_false_eq_true]
    · simp only [c1, decide_false, Bool.false_eq_true, if_false]
      by_cases c0 : Stats.word a 0 ≠ Stats.word b 0
      · simp only [c0, decide_true, if_true, sgn_toInt, gt_iff_lt, ne_eq, not_false_eq_true]
      · simp only [c0, decide_false, Bool.false_eq_true, if_false]
        decide

/-! the comparators read exactly `width` bytes from each operand, at offset 0 (aligned if the operand is) -/

theorem compare_int32_defined (a b : List UInt8) :
    Gen.CFun.stats_compare_int32_defined a b = decide (4 ≤ a.length ∧ 4 ≤ b.length) := by
  rw [Bool.eq_iff_iff]
  simp [Gen.CFun.stats_compare_int32_defined, sgn_subOk, inb]

theorem compare_int64_defined (a b : List UInt8) :
    Gen.CFun.stats_compare_int64_defined a b = decide (8 ≤ a.length ∧ 8 ≤ b.length) := by
  rw [Bool.eq_iff_iff]
  simp [Gen.CFun.stats_compare_int64_defined, sgn_subOk, inb]

theorem compare_boolean_defined (a b : List UInt8) :
    Gen.CFun.stats_compare_boolean_defined a b = decide (1 ≤ a.length ∧ 1 ≤ b.length) := by
  rw [Bool.eq_iff_iff]
  simp [Gen.CFun.stats_compare_boolean_defined, sgn_subOk, inb]

theorem compare_int96_defined (a b : List UInt8) (ha : 12 ≤ a.length) (hb : 12 ≤ b.length) :
    Gen.CFun.stats_compare_int96_defined a b = true := by
  simp only [Gen.CFun.stats_compare_int96_defined, Gen.CFun.stats_compare_int96_loop1_defined]
  simp only [show BitVec.sle 0#32 2#32 = true from by decide, show BitVec.sle 0#32 1#32 = true from by decide,
    show BitVec.sle 0#32 0#32 = true from by decide, show (2#32 : BitVec 32) - 1#32 = 1#32 from by decide,
    show (1#32 : BitVec 32) - 1#32 = 0#32 from by decide, show BitVec.sle 0#32 (0#32 - 1#32) = false from by decide,
    show (2#32 : BitVec 32).toInt.toNat * 4 = 8 from by decide, show (1#32 : BitVec 32).toInt.toNat * 4 = 4 from by decide,
    show (0#32 : BitVec 32).toInt.toNat * 4 = 0 from by decide, sgn_subOk, if_true,
    show (2#32 : BitVec 32).msb = false from by decide, show (1#32 : BitVec 32).msb = false from by decide,
    show (0#32 : BitVec 32).msb = false from by decide, show sSubOk (2#32 : BitVec 32) 1#32 = true from by decide,
    show sSubOk (1#32 : BitVec 32) 1#32 = true from by decide, show sSubOk (0#32 : BitVec 32) 1#32 = true from by decide]
  have i1 : inb a 8 4 = true := by rw [inb_iff]; omega
  have i2 : inb b 8 4 = true := by rw [inb_iff]; omega
  have i3 : inb a 4 4 = true := by rw [inb_iff]; omega
  have i4 : inb b 4 4 = true := by rw [inb_iff]; omega
  have i5 : inb a 0 4 = true := by rw [inb_iff]; omega
  have i6 : inb b 0 4 = true := by rw [inb_iff]; omega
  simp [i1, i2, i3, i4, i5, i6]
end Carquet.Proofs.CFun2
