import Carquet.Proofs.CFun2.Mem
import Carquet.Proofs.CFun2.Ints
import Carquet.Impl.Varint
import Carquet.Impl.Delta
import Carquet.Gen.CFun
/-
Stage-2 link lemmas for the varint readers / writers: src/core/endian.h carquet_decode_varint32/64, carquet_encode_varint32/64,
src/encoding/delta.c read_uleb128, src/encoding/rle.c read_varint, as translated from the C source, against Impl.Varint / Impl.Delta.
-/
namespace Carquet.Proofs.CFun2
open Carquet Carquet.Impl Carquet.Impl.CSem

/-! ### counters of any width -/

theorem ofNatW_toNat (w n : Nat) (h : n < 2 ^ w) : (BitVec.ofNat w n).toNat = n := by
  simp [BitVec.toNat_ofNat, Nat.mod_eq_of_lt h]

theorem ofNatW_add (w n m : Nat) : BitVec.ofNat w n + BitVec.ofNat w m = BitVec.ofNat w (n + m) := by
  apply BitVec.eq_of_toNat_eq; simp [BitVec.toNat_add, BitVec.toNat_ofNat]

theorem ofNat64_lt (k : Nat) (x : BitVec 64) (hk : k < 2 ^ 64) : (BitVec.ofNat 64 k < x) ↔ k < x.toNat := by
  rw [BitVec.lt_def, ofNatW_toNat 64 k hk]

theorem setWidth32_ofNat64 (k : Nat) (hk : k < 2 ^ 32) : BitVec.setWidth 32 (BitVec.ofNat 64 k) = BitVec.ofNat 32 k := by
  apply BitVec.eq_of_toNat_eq
  simp [BitVec.toNat_ofNat]

/-! ### the byte tests of the varint readers -/

theorem byte_lt (b : UInt8) : b.toNat < 256 := by
  have := b.toBitVec.isLt
  simpa using this

theorem cont_bit (b : UInt8) : ((BitVec.setWidth 32 b.toBitVec &&& 128#32) == 0#32) = decide (b.toNat &&& 0x80 = 0) := by
  have hb := byte_lt b
  rw [Bool.eq_iff_iff]
  simp only [beq_iff_eq, decide_eq_true_eq]
  constructor
  · intro h
    have := congrArg BitVec.toNat h
    simpa [BitVec.toNat_and, BitVec.toNat_setWidth, Nat.mod_eq_of_lt (show b.toNat < 2 ^ 32 by omega)] using this
  · intro h
    apply BitVec.eq_of_toNat_eq
    simpa [BitVec.toNat_and, BitVec.toNat_setWidth, Nat.mod_eq_of_lt (show b.toNat < 2 ^ 32 by omega)] using h

theorem payload32 (r : BitVec 32) (b : UInt8) (s : Nat) :
    (r ||| ((BitVec.setWidth 32 b.toBitVec &&& 127#32) <<< s)).toNat = r.toNat ||| (((b.toNat &&& 0x7F) <<< s) % 2 ^ 32) := by
  have hb := byte_lt b
  simp [BitVec.toNat_or, BitVec.toNat_shiftLeft, BitVec.toNat_and, BitVec.toNat_setWidth,
    Nat.mod_eq_of_lt (show b.toNat < 2 ^ 32 by omega)]

/-- `while (i < len && i < 5)` of `carquet_decode_varint32` -/
theorem decode32_loop (p : List UInt8) (len : BitVec 64) (out : BitVec 32) (hlen : len.toNat = p.length) :
    ∀ (fuel k : Nat) (result : BitVec 32), k ≤ 5 → 5 - k < fuel →
      Gen.CFun.carquet_decode_varint32_loop1 fuel p len out result (BitVec.ofNat 32 (7 * k)) (BitVec.ofNat 64 k) =
        (match Varint.readLoop 32 (5 - k) (7 * k) result.toNat (p.drop k) with
         | some (v, rest) => (BitVec.ofNat 32 (p.length - rest.length), BitVec.ofNat 32 v)
         | none => (4294967295#32, out)) ∧
      Gen.CFun.carquet_decode_varint32_loop1_defined fuel p len out result (BitVec.ofNat 32 (7 * k)) (BitVec.ofNat 64 k) = true := by
  intro fuel
  induction fuel with
  | zero => intro k _ _ hf; omega
  | succ f ih =>
    intro k result hk hf
    have hplen : p.length < 2 ^ 64 := by rw [← hlen]; exact len.isLt
    simp only [Gen.CFun.carquet_decode_varint32_loop1, Gen.CFun.carquet_decode_varint32_loop1_defined]
    have c1 : decide (BitVec.ofNat 64 k < len) = decide (k < p.length) := by
      rw [← hlen]; exact decide_eq_decide.mpr (ofNat64_lt k len (by omega))
    have c2 : decide (BitVec.ofNat 64 k < 5#64) = decide (k < 5) :=
      decide_eq_decide.mpr (by rw [ofNat64_lt k _ (by omega)]; rfl)
    rw [c1, c2]
    by_cases hin : k < p.length ∧ k < 5
    · obtain ⟨h1, h2⟩ := hin
      have hik : (BitVec.ofNat 64 k).toNat = k := ofNatW_toNat 64 k (by omega)
      have hsh : (BitVec.ofNat 32 (7 * k)).toNat = 7 * k := ofNatW_toNat 32 _ (by omega)
      obtain ⟨f', hf'⟩ : ∃ f', 5 - k = f' + 1 := ⟨4 - k, by omega⟩
      have hnext := ih (k + 1) (Gen.CFun.carquet_decode_varint32_v1 p len out result (BitVec.ofNat 32 (7 * k)) (BitVec.ofNat 64 k))
        (by omega) (by omega)
      have hf2 : 5 - (k + 1) = f' := by omega
      rw [hf2] at hnext
      have hd := hnext.2
      simp only [h1, h2, decide_true, Bool.and_self, if_true, hik, hsh, rd8_eq, cont_bit, drop_eq_cons p k h1, hf', Varint.readLoop]
      simp only [Gen.CFun.carquet_decode_varint32_v1, hik, hsh, rd8_eq] at hnext
      by_cases hc : (p.getD k 0).toNat &&& 0x80 = 0
      · simp only [hc, decide_true, if_true]
        refine ⟨?_, ?_⟩
        · simp only [Gen.CFun.carquet_decode_varint32_v1, hik, hsh, rd8_eq, ← payload32, BitVec.ofNat_toNat, BitVec.setWidth_eq,
            List.length_drop, show (1#64 : BitVec 64) = BitVec.ofNat 64 1 from rfl, ofNatW_add, setWidth32_ofNat64 (k + 1) (by omega)]
          congr 2
          omega
        · simp [inb, shCountOk, hsh, BitVec.msb_eq_decide]
          omega
      · simp only [hc, decide_false]
        have e1 : BitVec.ofNat 32 (7 * k) + 7#32 = BitVec.ofNat 32 (7 * (k + 1)) := by
          rw [show (7#32 : BitVec 32) = BitVec.ofNat 32 7 from rfl, ofNatW_add]; congr 1
        have e2 : BitVec.ofNat 64 k + 1#64 = BitVec.ofNat 64 (k + 1) := by
          rw [show (1#64 : BitVec 64) = BitVec.ofNat 64 1 from rfl, ofNatW_add]
        rw [e1, e2]
        rw [← payload32] 
        refine ⟨by simpa [Gen.CFun.carquet_decode_varint32_v1, hik, hsh, rd8_eq, Nat.mul_add] using hnext.1, ?_⟩
        have hti : (BitVec.ofNat 32 (7 * k)).toInt = ((7 * k : Nat) : Int) := ofNat_toInt_small _ (by omega)
        simp only [hd, Bool.and_true, Bool.false_eq_true, if_false]
        simp only [inb, shCountOk, hsh, BitVec.msb_eq_decide, sAddOk, BitVec.saddOverflow, hti]
        simp
        omega
    · have : (decide (k < p.length) && decide (k < 5)) = false := by
        simp only [Bool.and_eq_false_iff, decide_eq_false_iff_not]; omega
      simp only [this, Bool.false_eq_true, if_false]
      refine ⟨?_, trivial⟩
      by_cases h5 : k < 5
      · have : p.drop k = [] := drop_short p k (by omega)
        obtain ⟨f', hf'⟩ : ∃ f', 5 - k = f' + 1 := ⟨4 - k, by omega⟩
        simp [this, hf', Varint.readLoop]
      · have : 5 - k = 0 := by omega
        simp [this, Varint.readLoop]

theorem decode_varint32_eq (p : List UInt8) (out : BitVec 32) (hlen : p.length < 2 ^ 64) :
    Gen.CFun.carquet_decode_varint32 p (BitVec.ofNat 64 p.length) out =
      (match Varint.decodeVarint32 p with
       | some (v, rest) => (BitVec.ofNat 32 (p.length - rest.length), BitVec.ofNat 32 v)
       | none => (4294967295#32, out)) ∧
    Gen.CFun.carquet_decode_varint32_defined p (BitVec.ofNat 64 p.length) out = true := by
  have h := decode32_loop p (BitVec.ofNat 64 p.length) out (ofNatW_toNat 64 _ hlen) 6 0 0#32 (by omega) (by omega)
  simpa [Gen.CFun.carquet_decode_varint32, Gen.CFun.carquet_decode_varint32_defined, Varint.decodeVarint32] using h
theorem sext_payload (b : UInt8) :
    BitVec.signExtend 64 (BitVec.setWidth 32 b.toBitVec &&& 127#32) = BitVec.setWidth 64 (BitVec.setWidth 32 b.toBitVec &&& 127#32) := by
  apply BitVec.signExtend_eq_setWidth_of_msb_false
  have : (127#32 : BitVec 32).msb = false := by decide
  simp [BitVec.msb_and, this]

theorem payload64 (r : BitVec 64) (b : UInt8) (s : Nat) :
    (r ||| (BitVec.signExtend 64 (BitVec.setWidth 32 b.toBitVec &&& 127#32) <<< s)).toNat =
      r.toNat ||| (((b.toNat &&& 0x7F) <<< s) % 2 ^ 64) := by
  have hb := byte_lt b
  have h7 : b.toNat &&& 127 < 2 ^ 32 := Nat.lt_of_le_of_lt Nat.and_le_right (by omega)
  rw [sext_payload]
  simp [BitVec.toNat_or, BitVec.toNat_shiftLeft, BitVec.toNat_and, BitVec.toNat_setWidth,
    Nat.mod_eq_of_lt (show b.toNat < 2 ^ 32 by omega), Nat.mod_eq_of_lt h7]

/-- `while (i < len && i < 10)` of `carquet_decode_varint64` -/
theorem decode64_loop (p : List UInt8) (len : BitVec 64) (out : BitVec 64) (hlen : len.toNat = p.length) :
    ∀ (fuel k : Nat) (result : BitVec 64), k ≤ 10 → 10 - k < fuel →
      Gen.CFun.carquet_decode_varint64_loop1 fuel p len out result (BitVec.ofNat 32 (7 * k)) (BitVec.ofNat 64 k) =
        (match Varint.readLoop 64 (10 - k) (7 * k) result.toNat (p.drop k) with
         | some (v, rest) => (BitVec.ofNat 32 (p.length - rest.length), BitVec.ofNat 64 v)
         | none => (4294967295#32, out)) ∧
      Gen.CFun.carquet_decode_varint64_loop1_defined fuel p len out result (BitVec.ofNat 32 (7 * k)) (BitVec.ofNat 64 k) = true := by
  intro fuel
  induction fuel with
  | zero => intro k _ _ hf; omega
  | succ f ih =>
    intro k result hk hf
    have hplen : p.length < 2 ^ 64 := by rw [← hlen]; exact len.isLt
    simp only [Gen.CFun.carquet_decode_varint64_loop1, Gen.CFun.carquet_decode_varint64_loop1_defined]
    have c1 : decide (BitVec.ofNat 64 k < len) = decide (k < p.length) := by
      rw [← hlen]; exact decide_eq_decide.mpr (ofNat64_lt k len (by omega))
    have c2 : decide (BitVec.ofNat 64 k < 10#64) = decide (k < 10) :=
      decide_eq_decide.mpr (by rw [ofNat64_lt k _ (by omega)]; rfl)
    rw [c1, c2]
    by_cases hin : k < p.length ∧ k < 10
    · obtain ⟨h1, h2⟩ := hin
      have hik : (BitVec.ofNat 64 k).toNat = k := ofNatW_toNat 64 k (by omega)
      have hsh : (BitVec.ofNat 32 (7 * k)).toNat = 7 * k := ofNatW_toNat 32 _ (by omega)
      obtain ⟨f', hf'⟩ : ∃ f', 10 - k = f' + 1 := ⟨9 - k, by omega⟩
      have hnext := ih (k + 1) (Gen.CFun.carquet_decode_varint64_v1 p len out result (BitVec.ofNat 32 (7 * k)) (BitVec.ofNat 64 k))
        (by omega) (by omega)
      have hf2 : 10 - (k + 1) = f' := by omega
      rw [hf2] at hnext
      have hd := hnext.2
      simp only [h1, h2, decide_true, Bool.and_self, if_true, hik, hsh, rd8_eq, cont_bit, drop_eq_cons p k h1, hf', Varint.readLoop]
      simp only [Gen.CFun.carquet_decode_varint64_v1, hik, hsh, rd8_eq] at hnext
      by_cases hc : (p.getD k 0).toNat &&& 0x80 = 0
      · simp only [hc, decide_true, if_true]
        refine ⟨?_, ?_⟩
        · simp only [Gen.CFun.carquet_decode_varint64_v1, hik, hsh, rd8_eq, ← payload64, BitVec.ofNat_toNat, BitVec.setWidth_eq,
            List.length_drop, show (1#64 : BitVec 64) = BitVec.ofNat 64 1 from rfl, ofNatW_add, setWidth32_ofNat64 (k + 1) (by omega)]
          congr 2
          omega
        · simp [inb, shCountOk, hsh, BitVec.msb_eq_decide]
          omega
      · simp only [hc, decide_false]
        have e1 : BitVec.ofNat 32 (7 * k) + 7#32 = BitVec.ofNat 32 (7 * (k + 1)) := by
          rw [show (7#32 : BitVec 32) = BitVec.ofNat 32 7 from rfl, ofNatW_add]; congr 1
        have e2 : BitVec.ofNat 64 k + 1#64 = BitVec.ofNat 64 (k + 1) := by
          rw [show (1#64 : BitVec 64) = BitVec.ofNat 64 1 from rfl, ofNatW_add]
        rw [e1, e2]
        rw [← payload64] 
        refine ⟨by simpa [Gen.CFun.carquet_decode_varint64_v1, hik, hsh, rd8_eq, Nat.mul_add] using hnext.1, ?_⟩
        have hti : (BitVec.ofNat 32 (7 * k)).toInt = ((7 * k : Nat) : Int) := ofNat_toInt_small _ (by omega)
        simp only [hd, Bool.and_true, Bool.false_eq_true, if_false]
        simp only [inb, shCountOk, hsh, BitVec.msb_eq_decide, sAddOk, BitVec.saddOverflow, hti]
        simp
        omega
    · have : (decide (k < p.length) && decide (k < 10)) = false := by
        simp only [Bool.and_eq_false_iff, decide_eq_false_iff_not]; omega
      simp only [this, Bool.false_eq_true, if_false]
      refine ⟨?_, trivial⟩
      by_cases h5 : k < 10
      · have : p.drop k = [] := drop_short p k (by omega)
        obtain ⟨f', hf'⟩ : ∃ f', 10 - k = f' + 1 := ⟨9 - k, by omega⟩
        simp [this, hf', Varint.readLoop]
      · have : 10 - k = 0 := by omega
        simp [this, Varint.readLoop]

theorem decode_varint64_eq (p : List UInt8) (out : BitVec 64) (hlen : p.length < 2 ^ 64) :
    Gen.CFun.carquet_decode_varint64 p (BitVec.ofNat 64 p.length) out =
      (match Varint.decodeVarint64 p with
       | some (v, rest) => (BitVec.ofNat 32 (p.length - rest.length), BitVec.ofNat 64 v)
       | none => (4294967295#32, out)) ∧
    Gen.CFun.carquet_decode_varint64_defined p (BitVec.ofNat 64 p.length) out = true := by
  have h := decode64_loop p (BitVec.ofNat 64 p.length) out (ofNatW_toNat 64 _ hlen) 11 0 0#64 (by omega) (by omega)
  simpa [Gen.CFun.carquet_decode_varint64, Gen.CFun.carquet_decode_varint64_defined, Varint.decodeVarint64] using h
/-! ### delta.c `read_uleb128` -/

theorem payload_uleb (r : BitVec 64) (b : UInt8) (s : Nat) :
    r ||| (BitVec.signExtend 64 (BitVec.setWidth 32 b.toBitVec &&& 127#32) <<< s) =
      r ||| (BitVec.ofNat 64 (b.toNat &&& 0x7F) <<< s) := by
  have hb := byte_lt b
  have h7 : b.toNat &&& 127 < 2 ^ 32 := Nat.lt_of_le_of_lt Nat.and_le_right (by omega)
  rw [sext_payload]
  congr 2
  apply BitVec.eq_of_toNat_eq
  simp [BitVec.toNat_and, BitVec.toNat_setWidth, Nat.mod_eq_of_lt (show b.toNat < 2 ^ 32 by omega), Nat.mod_eq_of_lt h7]

theorem uleb_loop (p : List UInt8) (len : BitVec 64) (hlen : len.toNat = p.length) :
    ∀ (fuel k : Nat) (result : BitVec 64), k ≤ 10 → 10 - k < fuel →
      (match Delta.readUlebLoop (10 - k) (7 * k) result k (p.drop k) with
       | some (v, n) => Gen.CFun.read_uleb128_loop1 fuel p len result (BitVec.ofNat 32 (7 * k)) (BitVec.ofNat 64 k) = (BitVec.ofNat 64 n, v)
       | none => (Gen.CFun.read_uleb128_loop1 fuel p len result (BitVec.ofNat 32 (7 * k)) (BitVec.ofNat 64 k)).1 = 0#64) ∧
      Gen.CFun.read_uleb128_loop1_defined fuel p len result (BitVec.ofNat 32 (7 * k)) (BitVec.ofNat 64 k) = true := by
  intro fuel
  induction fuel with
  | zero => intro k _ _ hf; omega
  | succ f ih =>
    intro k result hk hf
    have hplen : p.length < 2 ^ 64 := by rw [← hlen]; exact len.isLt
    simp only [Gen.CFun.read_uleb128_loop1, Gen.CFun.read_uleb128_loop1_defined]
    have c1 : decide (BitVec.ofNat 64 k < len) = decide (k < p.length) := by
      rw [← hlen]; exact decide_eq_decide.mpr (ofNat64_lt k len (by omega))
    have c2 : decide (BitVec.ofNat 64 k < 10#64) = decide (k < 10) :=
      decide_eq_decide.mpr (by rw [ofNat64_lt k _ (by omega)]; rfl)
    rw [c1, c2]
    by_cases hin : k < p.length ∧ k < 10
    · obtain ⟨h1, h2⟩ := hin
      have hik : (BitVec.ofNat 64 k).toNat = k := ofNatW_toNat 64 k (by omega)
      have hsh : (BitVec.ofNat 32 (7 * k)).toNat = 7 * k := ofNatW_toNat 32 _ (by omega)
      obtain ⟨f', hf'⟩ : ∃ f', 10 - k = f' + 1 := ⟨9 - k, by omega⟩
      have hnext := ih (k + 1) (Gen.CFun.read_uleb128_v1 p len result (BitVec.ofNat 32 (7 * k)) (BitVec.ofNat 64 k))
        (by omega) (by omega)
      have hf2 : 10 - (k + 1) = f' := by omega
      rw [hf2] at hnext
      have hd := hnext.2
      simp only [h1, h2, decide_true, Bool.and_self, if_true, hik, hsh, rd8_eq, cont_bit, drop_eq_cons p k h1, hf', Delta.readUlebLoop]
      simp only [Gen.CFun.read_uleb128_v1, hik, hsh, rd8_eq, payload_uleb] at hnext
      by_cases hc : (p.getD k 0).toNat &&& 0x80 = 0
      · simp only [hc, decide_true, if_true]
        refine ⟨?_, ?_⟩
        · simp only [Gen.CFun.read_uleb128_v1, hik, hsh, rd8_eq, payload_uleb,
            show (1#64 : BitVec 64) = BitVec.ofNat 64 1 from rfl, ofNatW_add]
        · simp [inb, shCountOk, hsh, BitVec.msb_eq_decide]
          omega
      · simp only [hc, decide_false]
        have e1 : BitVec.ofNat 32 (7 * k) + 7#32 = BitVec.ofNat 32 (7 * (k + 1)) := by
          rw [show (7#32 : BitVec 32) = BitVec.ofNat 32 7 from rfl, ofNatW_add]; congr 1
        have e2 : BitVec.ofNat 64 k + 1#64 = BitVec.ofNat 64 (k + 1) := by
          rw [show (1#64 : BitVec 64) = BitVec.ofNat 64 1 from rfl, ofNatW_add]
        rw [e1, e2]
        refine ⟨?_, ?_⟩
        · simp only [Gen.CFun.read_uleb128_v1, hik, hsh, rd8_eq, payload_uleb]
          rw [show 7 * k + 7 = 7 * (k + 1) from by omega]
          exact hnext.1
        · have hti : (BitVec.ofNat 32 (7 * k)).toInt = ((7 * k : Nat) : Int) := ofNat_toInt_small _ (by omega)
          simp only [hd, Bool.and_true, Bool.false_eq_true, if_false]
          simp only [inb, shCountOk, hsh, BitVec.msb_eq_decide, sAddOk, BitVec.saddOverflow, hti]
          simp
          omega
    · have : (decide (k < p.length) && decide (k < 10)) = false := by
        simp only [Bool.and_eq_false_iff, decide_eq_false_iff_not]; omega
      simp only [this, Bool.false_eq_true, if_false]
      refine ⟨?_, trivial⟩
      by_cases h5 : k < 10
      · have : p.drop k = [] := drop_short p k (by omega)
        obtain ⟨f', hf'⟩ : ∃ f', 10 - k = f' + 1 := ⟨9 - k, by omega⟩
        simp [this, hf', Delta.readUlebLoop]
      · have : 10 - k = 0 := by omega
        simp [this, Delta.readUlebLoop]

theorem read_uleb128_eq (p : List UInt8) (value : BitVec 64) (hlen : p.length < 2 ^ 64) :
    (match Delta.readUleb128 p with
     | some (v, n) => Gen.CFun.read_uleb128 p (BitVec.ofNat 64 p.length) value = (BitVec.ofNat 64 n, v)
     | none => (Gen.CFun.read_uleb128 p (BitVec.ofNat 64 p.length) value).1 = 0#64) ∧
    Gen.CFun.read_uleb128_defined p (BitVec.ofNat 64 p.length) value = true := by
  have h := uleb_loop p (BitVec.ofNat 64 p.length) (ofNatW_toNat 64 _ hlen) 11 0 0#64 (by omega) (by omega)
  simpa [Gen.CFun.read_uleb128, Gen.CFun.read_uleb128_defined, Delta.readUleb128] using h
/-! ### rle.c `read_varint` -/

theorem rle_loop (p : List UInt8) (len pos : BitVec 64) (out : BitVec 32) (hlen : len.toNat = p.length) :
    ∀ (fuel k : Nat) (result : BitVec 32), k ≤ 5 → 5 - k < fuel → pos.toNat + k ≤ p.length →
      Gen.CFun.rle_read_varint_loop1 fuel p len pos out result (BitVec.ofNat 32 (7 * k)) (BitVec.ofNat 64 (pos.toNat + k)) =
        (match Varint.readLoop 32 (5 - k) (7 * k) result.toNat (p.drop (pos.toNat + k)) with
         | some (v, rest) => (0#32, BitVec.ofNat 64 (p.length - rest.length), BitVec.ofNat 32 v)
         | none => (4294967295#32, pos, out)) ∧
      Gen.CFun.rle_read_varint_loop1_defined fuel p len pos out result (BitVec.ofNat 32 (7 * k)) (BitVec.ofNat 64 (pos.toNat + k)) = true := by
  intro fuel
  induction fuel with
  | zero => intro k _ _ hf; omega
  | succ f ih =>
    intro k result hk hf hpk
    have hplen : p.length < 2 ^ 64 := by rw [← hlen]; exact len.isLt
    simp only [Gen.CFun.rle_read_varint_loop1, Gen.CFun.rle_read_varint_loop1_defined]
    have c1 : decide (BitVec.ofNat 64 (pos.toNat + k) < len) = decide (pos.toNat + k < p.length) := by
      rw [← hlen]; exact decide_eq_decide.mpr (ofNat64_lt _ len (by omega))
    have c2 : BitVec.slt (BitVec.ofNat 32 (7 * k)) 32#32 = decide (k < 5) := by
      rw [show (32#32 : BitVec 32) = BitVec.ofNat 32 32 from rfl, slt_ofNat _ _ (by omega) (by omega)]
      exact decide_eq_decide.mpr (by omega)
    rw [c1, c2]
    by_cases hin : pos.toNat + k < p.length ∧ k < 5
    · obtain ⟨h1, h2⟩ := hin
      have hik : (BitVec.ofNat 64 (pos.toNat + k)).toNat = pos.toNat + k := ofNatW_toNat 64 _ (by omega)
      have hsh : (BitVec.ofNat 32 (7 * k)).toNat = 7 * k := ofNatW_toNat 32 _ (by omega)
      obtain ⟨f', hf'⟩ : ∃ f', 5 - k = f' + 1 := ⟨4 - k, by omega⟩
      have hnext := ih (k + 1) (Gen.CFun.rle_read_varint_v1 p len pos out result (BitVec.ofNat 32 (7 * k)) (BitVec.ofNat 64 (pos.toNat + k)))
        (by omega) (by omega) (by omega)
      have hf2 : 5 - (k + 1) = f' := by omega
      rw [hf2] at hnext
      have hd := hnext.2
      simp only [h1, h2, decide_true, Bool.and_self, if_true, hik, hsh, rd8_eq, cont_bit, drop_eq_cons p _ h1, hf', Varint.readLoop]
      by_cases hc : (p.getD (pos.toNat + k) 0).toNat &&& 0x80 = 0
      · simp only [hc, decide_true, if_true]
        refine ⟨?_, ?_⟩
        · simp only [Gen.CFun.rle_read_varint_v1, hik, hsh, rd8_eq, ← payload32, BitVec.ofNat_toNat, BitVec.setWidth_eq,
            List.length_drop, show (1#64 : BitVec 64) = BitVec.ofNat 64 1 from rfl, ofNatW_add]
          congr 3
          omega
        · simp [inb, shCountOk, hsh, BitVec.msb_eq_decide]
          omega
      · simp only [hc, decide_false]
        have e1 : BitVec.ofNat 32 (7 * k) + 7#32 = BitVec.ofNat 32 (7 * (k + 1)) := by
          rw [show (7#32 : BitVec 32) = BitVec.ofNat 32 7 from rfl, ofNatW_add]; congr 1
        have e2 : BitVec.ofNat 64 (pos.toNat + k) + 1#64 = BitVec.ofNat 64 (pos.toNat + (k + 1)) := by
          rw [show (1#64 : BitVec 64) = BitVec.ofNat 64 1 from rfl, ofNatW_add]; congr 1
        rw [e1, e2]
        refine ⟨?_, ?_⟩
        · have h1' := hnext.1
          simp only [Gen.CFun.rle_read_varint_v1, hik, hsh, rd8_eq, payload32] at h1' ⊢
          rw [show 7 * k + 7 = 7 * (k + 1) from by omega, show pos.toNat + k + 1 = pos.toNat + (k + 1) from by omega]
          exact h1'
        · have hti : (BitVec.ofNat 32 (7 * k)).toInt = ((7 * k : Nat) : Int) := ofNat_toInt_small _ (by omega)
          simp only [hd, Bool.and_true, Bool.false_eq_true, if_false]
          simp only [inb, shCountOk, hsh, BitVec.msb_eq_decide, sAddOk, BitVec.saddOverflow, hti]
          simp
          omega
    · have : (decide (pos.toNat + k < p.length) && decide (k < 5)) = false := by
        simp only [Bool.and_eq_false_iff, decide_eq_false_iff_not]; omega
      simp only [this, Bool.false_eq_true, if_false]
      refine ⟨?_, trivial⟩
      by_cases h5 : k < 5
      · have : p.drop (pos.toNat + k) = [] := drop_short p _ (by omega)
        obtain ⟨f', hf'⟩ : ∃ f', 5 - k = f' + 1 := ⟨4 - k, by omega⟩
        simp [this, hf', Varint.readLoop]
      · have : 5 - k = 0 := by omega
        simp [this, Varint.readLoop]

/-- rle.c `read_varint(data, size, &pos, &out)` with `size` the length of `data` and `*pos` inside it: the model reads
the bytes from `*pos` on; on failure `*pos` and `*out` keep their values -/
theorem rle_read_varint_eq (p : List UInt8) (pos : BitVec 64) (out : BitVec 32) (hlen : p.length < 2 ^ 64)
    (hpos : pos.toNat ≤ p.length) :
    Gen.CFun.rle_read_varint p (BitVec.ofNat 64 p.length) pos out =
      (match Varint.readVarintRle (p.drop pos.toNat) with
       | some (v, rest) => (0#32, BitVec.ofNat 64 (p.length - rest.length), BitVec.ofNat 32 v)
       | none => (4294967295#32, pos, out)) ∧
    Gen.CFun.rle_read_varint_defined p (BitVec.ofNat 64 p.length) pos out = true := by
  have h := rle_loop p (BitVec.ofNat 64 p.length) pos out (ofNatW_toNat 64 _ hlen) 6 0 0#32 (by omega) (by omega) (by omega)
  simpa [Gen.CFun.rle_read_varint, Gen.CFun.rle_read_varint_defined, Varint.readVarintRle] using h
end Carquet.Proofs.CFun2

namespace Carquet.Proofs.CFun2
open Carquet Carquet.Impl Carquet.Impl.CSem

theorem writeLoop_fuel : ∀ (f v : Nat), v < 2 ^ (7 * (f + 1)) → Varint.writeLoop (f + 1) v = Varint.writeLoop f v := by
  intro f
  induction f with
  | zero => intro v hv; simp [Varint.writeLoop]; omega
  | succ f ih =>
    intro v hv
    have : v >>> 7 < 2 ^ (7 * (f + 1)) := by
      rw [Nat.shiftRight_eq_div_pow]
      have : 2 ^ (7 * (f + 1 + 1)) = 2 ^ (7 * (f + 1)) * 2 ^ 7 := by rw [← Nat.pow_add]; congr 1
      omega
    conv => lhs; rw [Varint.writeLoop]
    conv => rhs; rw [Varint.writeLoop]
    rw [ih _ this]

theorem writeLoop_pos (f v : Nat) : 0 < (Varint.writeLoop f v).length := by
  cases f <;> simp [Varint.writeLoop] <;> split <;> simp

theorem byte_of_setWidth {w : Nat} (x : BitVec w) : UInt8.ofBitVec (BitVec.setWidth 8 x) = UInt8.ofNat x.toNat := by
  apply UInt8.eq_of_toBitVec_eq
  apply BitVec.eq_of_toNat_eq
  simp [BitVec.toNat_setWidth]

theorem set_mid (pre : List UInt8) (r0 : UInt8) (rest : List UInt8) (b : UInt8) :
    (pre ++ r0 :: rest).set pre.length b = pre ++ b :: rest := by
  simp [List.set_append]

theorem inb_mid (pre : List UInt8) (r0 : UInt8) (rest : List UInt8) : inb (pre ++ r0 :: rest) pre.length 1 = true := by
  simp [inb]

/-- the `while (v >= 0x80)` loop of `carquet_encode_varint32`, on a buffer split at the write position -/
theorem write32_loop : ∀ (fuel : Nat) (v : BitVec 32) (pre rest : List UInt8), pre.length + fuel < 2 ^ 20 →
    (Varint.writeLoop fuel v.toNat).length ≤ rest.length →
      Gen.CFun.carquet_encode_varint32_loop1 fuel (pre ++ rest) v (BitVec.ofNat 32 pre.length) =
        (BitVec.ofNat 32 (pre.length + (Varint.writeLoop fuel v.toNat).length),
         pre ++ Varint.writeLoop fuel v.toNat ++ rest.drop (Varint.writeLoop fuel v.toNat).length) := by
  intro fuel
  induction fuel with
  | zero =>
    intro v pre rest hk hl
    have hi : (BitVec.ofNat 32 pre.length).toInt.toNat = pre.length := by rw [ofNat_toInt_small _ (by omega)]; simp
    obtain ⟨r0, rest', rfl⟩ : ∃ r0 rest', rest = r0 :: rest' := by
      cases rest with
      | nil => simp [Varint.writeLoop] at hl
      | cons a b => exact ⟨a, b, rfl⟩
    simp [Gen.CFun.carquet_encode_varint32_loop1, hi, wr8, byte_of_setWidth, ofNat_add_one, set_mid, Varint.writeLoop]
  | succ f ih =>
    intro v pre rest hk hl
    have hi : (BitVec.ofNat 32 pre.length).toInt.toNat = pre.length := by rw [ofNat_toInt_small _ (by omega)]; simp
    obtain ⟨r0, rest', rfl⟩ : ∃ r0 rest', rest = r0 :: rest' := by
      cases rest with
      | nil => have := writeLoop_pos (f + 1) v.toNat; simp only [List.length_nil] at hl; omega
      | cons a b => exact ⟨a, b, rfl⟩
    simp only [Gen.CFun.carquet_encode_varint32_loop1, hi, wr8, set_mid]
    have hc : decide (128#32 ≤ v) = decide (v.toNat ≥ 0x80) := decide_eq_decide.mpr (by rw [BitVec.le_def]; rfl)
    rw [hc]
    rw [Varint.writeLoop] at hl ⊢
    by_cases h128 : v.toNat ≥ 0x80
    · simp only [h128, decide_true, if_true, List.length_cons] at hl ⊢
      have hv7 : (v >>> 7).toNat = v.toNat >>> 7 := by simp [BitVec.toNat_ushiftRight]
      have hb : ((v &&& 127#32) ||| 128#32).toNat = (v.toNat &&& 0x7F) ||| 0x80 := by
        simp [BitVec.toNat_or, BitVec.toNat_and]
      have hl' : (Varint.writeLoop f (v.toNat >>> 7)).length ≤ rest'.length := by simpa using hl
      have := ih (v >>> 7) (pre ++ [UInt8.ofNat (v.toNat &&& 127 ||| 128)]) rest' (by simp; omega) (by rw [hv7]; exact hl')
      simp only [List.append_assoc, List.singleton_append, List.length_append, List.length_singleton, hv7] at this
      rw [ofNat_add_one, byte_of_setWidth, hb, this]
      simp [Nat.add_assoc, Nat.add_comm 1]
    · simp only [h128, decide_false, List.length_singleton] at hl ⊢
      simp [byte_of_setWidth, ofNat_add_one]
theorem write32_defined : ∀ (fuel : Nat) (v : BitVec 32) (pre rest : List UInt8), pre.length + fuel < 2 ^ 20 →
    0 < fuel → v.toNat < 2 ^ (7 * fuel) → (Varint.writeLoop fuel v.toNat).length ≤ rest.length →
      Gen.CFun.carquet_encode_varint32_loop1_defined fuel (pre ++ rest) v (BitVec.ofNat 32 pre.length) = true := by
  intro fuel
  induction fuel with
  | zero => intro v pre rest _ h0; omega
  | succ f ih =>
    intro v pre rest hk _ hv hl
    have hi : (BitVec.ofNat 32 pre.length).toInt.toNat = pre.length := by rw [ofNat_toInt_small _ (by omega)]; simp
    obtain ⟨r0, rest', rfl⟩ : ∃ r0 rest', rest = r0 :: rest' := by
      cases rest with
      | nil => have := writeLoop_pos (f + 1) v.toNat; simp only [List.length_nil] at hl; omega
      | cons a b => exact ⟨a, b, rfl⟩
    simp only [Gen.CFun.carquet_encode_varint32_loop1_defined, hi, wr8, set_mid, inb_mid, sAddOk_small _ (by omega : pre.length < 2 ^ 30),
      msb_ofNat_small _ (by omega : pre.length < 2 ^ 31), Bool.not_false, Bool.and_self, Bool.true_and]
    have hc : decide (128#32 ≤ v) = decide (v.toNat ≥ 0x80) := decide_eq_decide.mpr (by rw [BitVec.le_def]; rfl)
    rw [hc]
    rw [Varint.writeLoop] at hl
    by_cases h128 : v.toNat ≥ 0x80
    · simp only [h128, decide_true, if_true, List.length_cons] at hl ⊢
      have hv7 : (v >>> 7).toNat = v.toNat >>> 7 := by simp [BitVec.toNat_ushiftRight]
      have hl' : (Varint.writeLoop f (v.toNat >>> 7)).length ≤ rest'.length := by simpa using hl
      have hlt : v.toNat >>> 7 < 2 ^ (7 * f) := by
        rw [Nat.shiftRight_eq_div_pow]
        have : 2 ^ (7 * (f + 1)) = 2 ^ (7 * f) * 2 ^ 7 := by rw [← Nat.pow_add]; congr 1
        omega
      have hf0 : 0 < f := by
        rcases Nat.eq_zero_or_pos f with h | h
        · subst h; simp at hv; omega
        · exact h
      have := ih (v >>> 7) (pre ++ [UInt8.ofBitVec (BitVec.setWidth 8 (v &&& 127#32 ||| 128#32))]) rest' (by simp; omega) hf0
        (by rw [hv7]; exact hlt) (by rw [hv7]; exact hl')
      simp only [List.append_assoc, List.singleton_append, List.length_append, List.length_singleton] at this
      rw [ofNat_add_one, this]
    · simp [h128]

/-- `carquet_encode_varint32(p, v)` on a buffer that has room for the encoding (at most 5 bytes): the number of bytes and
the buffer afterwards — the model's bytes followed by the untouched rest -/
theorem encode_varint32_eq (p : List UInt8) (v : BitVec 32) (h : (Varint.writeVarint32 v.toNat).length ≤ p.length) :
    Gen.CFun.carquet_encode_varint32 p v =
      (BitVec.ofNat 32 (Varint.writeVarint32 v.toNat).length,
       Varint.writeVarint32 v.toNat ++ p.drop (Varint.writeVarint32 v.toNat).length) ∧
    Gen.CFun.carquet_encode_varint32_defined p v = true := by
  have hf : Varint.writeLoop 5 v.toNat = Varint.writeLoop 4 v.toNat := writeLoop_fuel 4 _ (by have := v.isLt; omega)
  have h1 := write32_loop 5 v [] p (by simp) (by rw [hf]; exact h)
  have h2 := write32_defined 5 v [] p (by simp) (by omega) (by have := v.isLt; omega) (by rw [hf]; exact h)
  simp only [List.nil_append, List.length_nil, Nat.zero_add, hf, show (BitVec.ofNat 32 0 : BitVec 32) = 0#32 from rfl] at h1 h2
  exact ⟨h1, h2⟩
/-- the `while (v >= 0x80)` loop of `carquet_encode_varint64`, on a buffer split at the write position -/
theorem write64_loop : ∀ (fuel : Nat) (v : BitVec 64) (pre rest : List UInt8), pre.length + fuel < 2 ^ 20 →
    (Varint.writeLoop fuel v.toNat).length ≤ rest.length →
      Gen.CFun.carquet_encode_varint64_loop1 fuel (pre ++ rest) v (BitVec.ofNat 32 pre.length) =
        (BitVec.ofNat 32 (pre.length + (Varint.writeLoop fuel v.toNat).length),
         pre ++ Varint.writeLoop fuel v.toNat ++ rest.drop (Varint.writeLoop fuel v.toNat).length) := by
  intro fuel
  induction fuel with
  | zero =>
    intro v pre rest hk hl
    have hi : (BitVec.ofNat 32 pre.length).toInt.toNat = pre.length := by rw [ofNat_toInt_small _ (by omega)]; simp
    obtain ⟨r0, rest', rfl⟩ : ∃ r0 rest', rest = r0 :: rest' := by
      cases rest with
      | nil => simp [Varint.writeLoop] at hl
      | cons a b => exact ⟨a, b, rfl⟩
    simp [Gen.CFun.carquet_encode_varint64_loop1, hi, wr8, byte_of_setWidth, ofNat_add_one, set_mid, Varint.writeLoop]
  | succ f ih =>
    intro v pre rest hk hl
    have hi : (BitVec.ofNat 32 pre.length).toInt.toNat = pre.length := by rw [ofNat_toInt_small _ (by omega)]; simp
    obtain ⟨r0, rest', rfl⟩ : ∃ r0 rest', rest = r0 :: rest' := by
      cases rest with
      | nil => have := writeLoop_pos (f + 1) v.toNat; simp only [List.length_nil] at hl; omega
      | cons a b => exact ⟨a, b, rfl⟩
    simp only [Gen.CFun.carquet_encode_varint64_loop1, hi, wr8, set_mid]
    have hc : decide (128#64 ≤ v) = decide (v.toNat ≥ 0x80) := decide_eq_decide.mpr (by rw [BitVec.le_def]; rfl)
    rw [hc]
    rw [Varint.writeLoop] at hl ⊢
    by_cases h128 : v.toNat ≥ 0x80
    · simp only [h128, decide_true, if_true, List.length_cons] at hl ⊢
      have hv7 : (v >>> 7).toNat = v.toNat >>> 7 := by simp [BitVec.toNat_ushiftRight]
      have hb : ((v &&& 127#64) ||| 128#64).toNat = (v.toNat &&& 0x7F) ||| 0x80 := by
        simp [BitVec.toNat_or, BitVec.toNat_and]
      have hl' : (Varint.writeLoop f (v.toNat >>> 7)).length ≤ rest'.length := by simpa using hl
      have := ih (v >>> 7) (pre ++ [UInt8.ofNat (v.toNat &&& 127 ||| 128)]) rest' (by simp; omega) (by rw [hv7]; exact hl')
      simp only [List.append_assoc, List.singleton_append, List.length_append, List.length_singleton, hv7] at this
      rw [ofNat_add_one, byte_of_setWidth, hb, this]
      simp [Nat.add_assoc, Nat.add_comm 1]
    · simp only [h128, decide_false, List.length_singleton] at hl ⊢
      simp [byte_of_setWidth, ofNat_add_one]
theorem write64_defined : ∀ (fuel : Nat) (v : BitVec 64) (pre rest : List UInt8), pre.length + fuel < 2 ^ 20 →
    0 < fuel → v.toNat < 2 ^ (7 * fuel) → (Varint.writeLoop fuel v.toNat).length ≤ rest.length →
      Gen.CFun.carquet_encode_varint64_loop1_defined fuel (pre ++ rest) v (BitVec.ofNat 32 pre.length) = true := by
  intro fuel
  induction fuel with
  | zero => intro v pre rest _ h0; omega
  | succ f ih =>
    intro v pre rest hk _ hv hl
    have hi : (BitVec.ofNat 32 pre.length).toInt.toNat = pre.length := by rw [ofNat_toInt_small _ (by omega)]; simp
    obtain ⟨r0, rest', rfl⟩ : ∃ r0 rest', rest = r0 :: rest' := by
      cases rest with
      | nil => have := writeLoop_pos (f + 1) v.toNat; simp only [List.length_nil] at hl; omega
      | cons a b => exact ⟨a, b, rfl⟩
    simp only [Gen.CFun.carquet_encode_varint64_loop1_defined, hi, wr8, set_mid, inb_mid, sAddOk_small _ (by omega : pre.length < 2 ^ 30),
      msb_ofNat_small _ (by omega : pre.length < 2 ^ 31), Bool.not_false, Bool.and_self, Bool.true_and]
    have hc : decide (128#64 ≤ v) = decide (v.toNat ≥ 0x80) := decide_eq_decide.mpr (by rw [BitVec.le_def]; rfl)
    rw [hc]
    rw [Varint.writeLoop] at hl
    by_cases h128 : v.toNat ≥ 0x80
    · simp only [h128, decide_true, if_true, List.length_cons] at hl ⊢
      have hv7 : (v >>> 7).toNat = v.toNat >>> 7 := by simp [BitVec.toNat_ushiftRight]
      have hl' : (Varint.writeLoop f (v.toNat >>> 7)).length ≤ rest'.length := by simpa using hl
      have hlt : v.toNat >>> 7 < 2 ^ (7 * f) := by
        rw [Nat.shiftRight_eq_div_pow]
        have : 2 ^ (7 * (f + 1)) = 2 ^ (7 * f) * 2 ^ 7 := by rw [← Nat.pow_add]; congr 1
        omega
      have hf0 : 0 < f := by
        rcases Nat.eq_zero_or_pos f with h | h
        · subst h; simp at hv; omega
        · exact h
      have := ih (v >>> 7) (pre ++ [UInt8.ofBitVec (BitVec.setWidth 8 (v &&& 127#64 ||| 128#64))]) rest' (by simp; omega) hf0
        (by rw [hv7]; exact hlt) (by rw [hv7]; exact hl')
      simp only [List.append_assoc, List.singleton_append, List.length_append, List.length_singleton] at this
      rw [ofNat_add_one, this]
    · simp [h128]

/-- `carquet_encode_varint64(p, v)` on a buffer that has room for the encoding (at most 10 bytes): the number of bytes and
the buffer afterwards — the model's bytes followed by the untouched rest -/
theorem encode_varint64_eq (p : List UInt8) (v : BitVec 64) (h : (Varint.writeVarint64 v.toNat).length ≤ p.length) :
    Gen.CFun.carquet_encode_varint64 p v =
      (BitVec.ofNat 32 (Varint.writeVarint64 v.toNat).length,
       Varint.writeVarint64 v.toNat ++ p.drop (Varint.writeVarint64 v.toNat).length) ∧
    Gen.CFun.carquet_encode_varint64_defined p v = true := by
  have hf : Varint.writeLoop 10 v.toNat = Varint.writeLoop 9 v.toNat := writeLoop_fuel 9 _ (by have := v.isLt; omega)
  have h1 := write64_loop 10 v [] p (by simp) (by rw [hf]; exact h)
  have h2 := write64_defined 10 v [] p (by simp) (by omega) (by have := v.isLt; omega) (by rw [hf]; exact h)
  simp only [List.nil_append, List.length_nil, Nat.zero_add, hf, show (BitVec.ofNat 32 0 : BitVec 32) = 0#32 from rfl] at h1 h2
  exact ⟨h1, h2⟩
end Carquet.Proofs.CFun2
