import Carquet.Proofs.CFun2.Loads
import Carquet.Proofs.Bloom
import Carquet.Impl.Bitpack
import Carquet.Gen.CFun
/-
Stage-2 link lemmas for src/core/bitpack.c (read_le24/32, carquet_bitunpack8_3bit/4bit/8bit) and the little-endian loads of
src/core/endian.h, against Impl.Bitpack.
-/
namespace Carquet.Proofs.CFun2
open Carquet Carquet.Impl Carquet.Impl.CSem
open Carquet.Proofs.Bloom (exists_cons8)

theorem bleNat_take3 (a : List UInt8) : Bitpack.leNat (a.take 3) =
    (a.getD 0 0).toNat + (a.getD 1 0).toNat * 2 ^ 8 + (a.getD 2 0).toNat * 2 ^ 16 := by
  rcases a with _ | ⟨x0, _ | ⟨x1, _ | ⟨x2, r⟩⟩⟩ <;> simp [Bitpack.leNat] <;> omega

theorem bleNat_take4 (a : List UInt8) : Bitpack.leNat (a.take 4) =
    (a.getD 0 0).toNat + (a.getD 1 0).toNat * 2 ^ 8 + (a.getD 2 0).toNat * 2 ^ 16 + (a.getD 3 0).toNat * 2 ^ 24 := by
  rcases a with _ | ⟨x0, _ | ⟨x1, _ | ⟨x2, _ | ⟨x3, r⟩⟩⟩⟩ <;> simp [Bitpack.leNat] <;> omega

/-- `read_le24(p)` is the little-endian integer of the first three bytes -/
theorem read_le24_toNat (p : List UInt8) : (Gen.CFun.read_le24 p).toNat = Bitpack.leNat (p.take 3) := by
  have h0 := byte_lt' (p.getD 0 0)
  have h1 := byte_lt' (p.getD 1 0)
  have h2 := byte_lt' (p.getD 2 0)
  rw [bleNat_take3]
  simp only [Gen.CFun.read_le24, rd8_eq, BitVec.toNat_or, BitVec.toNat_shiftLeft, BitVec.toNat_setWidth, UInt8.toNat_toBitVec]
  rw [Nat.mod_eq_of_lt (by omega : (p.getD 0 0).toNat < 2 ^ 32), Nat.mod_eq_of_lt (by omega : (p.getD 1 0).toNat < 2 ^ 32),
    Nat.mod_eq_of_lt (by omega : (p.getD 2 0).toNat < 2 ^ 32)]
  simp only [Nat.shiftLeft_eq]
  rw [Nat.mod_eq_of_lt (by omega : (p.getD 1 0).toNat * 2 ^ 8 < 2 ^ 32), Nat.mod_eq_of_lt (by omega : (p.getD 2 0).toNat * 2 ^ 16 < 2 ^ 32)]
  simp only [← Nat.shiftLeft_eq]
  rw [or_shl_add _ _ 8 (by omega), or_shl_add _ _ 16 (by omega)]
  simp only [Nat.shiftLeft_eq]

theorem read_le24_defined_iff (p : List UInt8) : Gen.CFun.read_le24_defined p = decide (3 ≤ p.length) := by
  rw [Bool.eq_iff_iff]
  simp [Gen.CFun.read_le24_defined, inb]
  omega

/-- `read_le32(p)` (bitpack.c) likewise -/
theorem read_le32_toNat (p : List UInt8) : (Gen.CFun.read_le32 p).toNat = Bitpack.leNat (p.take 4) := by
  have := ld32le_toNat p 0
  rw [bleNat_take4]
  simpa [Gen.CFun.read_le32, ld32le] using this

/-- `carquet_bitunpack8_3bit(input, values)`: the eight values written, the rest of `values` untouched -/
theorem bitunpack8_3bit_eq (input : List UInt8) (values : List (BitVec 32)) (hv : 8 ≤ values.length) :
    (Gen.CFun.carquet_bitunpack8_3bit input values).map BitVec.toNat =
      Bitpack.unpack8_3bit input ++ (values.drop 8).map BitVec.toNat := by
  obtain ⟨v0, v1, v2, v3, v4, v5, v6, v7, rest, rfl⟩ := exists_cons8 values hv
  simp [Gen.CFun.carquet_bitunpack8_3bit, wr, Bitpack.unpack8_3bit, Bitpack.extract, read_le24_toNat]

theorem bitunpack8_3bit_defined (input : List UInt8) (values : List (BitVec 32)) (hi : 3 ≤ input.length)
    (hv : 8 ≤ values.length) : Gen.CFun.carquet_bitunpack8_3bit_defined input values = true := by
  simp [Gen.CFun.carquet_bitunpack8_3bit_defined, read_le24_defined_iff, hi, inb, wr]
  omega

theorem bitunpack8_4bit_eq (input : List UInt8) (values : List (BitVec 32)) (hv : 8 ≤ values.length) :
    (Gen.CFun.carquet_bitunpack8_4bit input values).map BitVec.toNat =
      Bitpack.unpack8_4bit input ++ (values.drop 8).map BitVec.toNat := by
  obtain ⟨v0, v1, v2, v3, v4, v5, v6, v7, rest, rfl⟩ := exists_cons8 values hv
  simp [Gen.CFun.carquet_bitunpack8_4bit, wr, Bitpack.unpack8_4bit, Bitpack.extract, read_le32_toNat]

theorem bitunpack8_8bit_eq (input : List UInt8) (values : List (BitVec 32)) (hv : 8 ≤ values.length) :
    (Gen.CFun.carquet_bitunpack8_8bit input values).map BitVec.toNat =
      Bitpack.unpack8_8bit input ++ (values.drop 8).map BitVec.toNat := by
  obtain ⟨v0, v1, v2, v3, v4, v5, v6, v7, rest, rfl⟩ := exists_cons8 values hv
  simp [Gen.CFun.carquet_bitunpack8_8bit, wr, Bitpack.unpack8_8bit, Bitpack.byteAt, rd8_eq]
/-! ### src/core/endian.h: `memcpy(&v, p, sizeof v)` loads -/

theorem bleNat_take2 (a : List UInt8) : Bitpack.leNat (a.take 2) = (a.getD 0 0).toNat + (a.getD 1 0).toNat * 2 ^ 8 := by
  rcases a with _ | ⟨x0, _ | ⟨x1, r⟩⟩ <;> simp [Bitpack.leNat] <;> omega

theorem bleNat_cons8 (x0 x1 x2 x3 x4 x5 x6 x7 : UInt8) (r : List UInt8) :
    Bitpack.leNat ((x0 :: x1 :: x2 :: x3 :: x4 :: x5 :: x6 :: x7 :: r).take 8) =
    x0.toNat + x1.toNat * 2 ^ 8 + x2.toNat * 2 ^ 16 + x3.toNat * 2 ^ 24 +
    x4.toNat * 2 ^ 32 + x5.toNat * 2 ^ 40 + x6.toNat * 2 ^ 48 + x7.toNat * 2 ^ 56 := by
  simp only [List.take_succ_cons, List.take_zero, Bitpack.leNat]
  omega

theorem read_u16_le_toNat (p : List UInt8) : (Gen.CFun.carquet_read_u16_le p).toNat = Bitpack.leNat (p.take 2) := by
  rw [bleNat_take2, Gen.CFun.carquet_read_u16_le, ld16le_toNat]

theorem read_u32_le_toNat (p : List UInt8) : (Gen.CFun.carquet_read_u32_le p).toNat = Bitpack.leNat (p.take 4) := by
  rw [bleNat_take4, Gen.CFun.carquet_read_u32_le, ld32le_toNat]

theorem read_u64_le_toNat (p : List UInt8) (h : 8 ≤ p.length) :
    (Gen.CFun.carquet_read_u64_le p).toNat = Bitpack.leNat (p.take 8) := by
  obtain ⟨x0, x1, x2, x3, x4, x5, x6, x7, r, rfl⟩ := exists_cons8 p h
  rw [bleNat_cons8, Gen.CFun.carquet_read_u64_le, ld64le_toNat]
  simp [List.getD]
end Carquet.Proofs.CFun2
