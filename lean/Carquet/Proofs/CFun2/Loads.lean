import Carquet.Proofs.CFun2.Mem
/-
Values of the little-endian loads of the stage-2 prelude (`CSem.ld16le / ld32le / ld64le`) as sums of bytes.
-/
namespace Carquet.Proofs.CFun2
open Carquet Carquet.Impl.CSem

theorem or_shl_add (x y i : Nat) (hx : x < 2 ^ i) : x ||| (y <<< i) = x + y * 2 ^ i := by
  rw [Nat.or_comm, ← Nat.shiftLeft_add_eq_or_of_lt hx, Nat.shiftLeft_eq, Nat.add_comm]

theorem byte_lt' (b : UInt8) : b.toNat < 256 := by
  have := b.toBitVec.isLt
  simpa using this

/-- value of a 2-byte little-endian load -/
theorem ld16le_toNat (d : List UInt8) (p : Nat) :
    (ld16le d p).toNat = (d.getD p 0).toNat + (d.getD (p + 1) 0).toNat * 2 ^ 8 := by
  have h0 := byte_lt' (d.getD p 0)
  have h1 := byte_lt' (d.getD (p + 1) 0)
  simp only [ld16le, rd8_eq, BitVec.toNat_or, BitVec.toNat_shiftLeft, BitVec.toNat_setWidth, UInt8.toNat_toBitVec]
  rw [Nat.mod_eq_of_lt (by omega : (d.getD p 0).toNat < 2 ^ 16), Nat.mod_eq_of_lt (by omega : (d.getD (p + 1) 0).toNat < 2 ^ 16),
    Nat.shiftLeft_eq, Nat.mod_eq_of_lt (by omega), ← Nat.shiftLeft_eq, or_shl_add _ _ 8 (by omega)]
  simp only [Nat.shiftLeft_eq]

/-- value of a 4-byte little-endian load -/
theorem ld32le_toNat (d : List UInt8) (p : Nat) :
    (ld32le d p).toNat = (d.getD p 0).toNat + (d.getD (p + 1) 0).toNat * 2 ^ 8 + (d.getD (p + 2) 0).toNat * 2 ^ 16 +
      (d.getD (p + 3) 0).toNat * 2 ^ 24 := by
  have h0 := byte_lt' (d.getD p 0)
  have h1 := byte_lt' (d.getD (p + 1) 0)
  have h2 := byte_lt' (d.getD (p + 2) 0)
  have h3 := byte_lt' (d.getD (p + 3) 0)
  simp only [ld32le, rd8_eq, BitVec.toNat_or, BitVec.toNat_shiftLeft, BitVec.toNat_setWidth, UInt8.toNat_toBitVec]
  rw [Nat.mod_eq_of_lt (by omega : (d.getD p 0).toNat < 2 ^ 32), Nat.mod_eq_of_lt (by omega : (d.getD (p + 1) 0).toNat < 2 ^ 32),
    Nat.mod_eq_of_lt (by omega : (d.getD (p + 2) 0).toNat < 2 ^ 32), Nat.mod_eq_of_lt (by omega : (d.getD (p + 3) 0).toNat < 2 ^ 32)]
  simp only [Nat.shiftLeft_eq]
  rw [Nat.mod_eq_of_lt (by omega : (d.getD (p + 1) 0).toNat * 2 ^ 8 < 2 ^ 32), Nat.mod_eq_of_lt (by omega : (d.getD (p + 2) 0).toNat * 2 ^ 16 < 2 ^ 32),
    Nat.mod_eq_of_lt (by omega : (d.getD (p + 3) 0).toNat * 2 ^ 24 < 2 ^ 32)]
  simp only [← Nat.shiftLeft_eq]
  rw [or_shl_add _ _ 8 (by omega), or_shl_add _ _ 16 (by omega), or_shl_add _ _ 24 (by omega)]
  simp only [Nat.shiftLeft_eq]
end Carquet.Proofs.CFun2

namespace Carquet.Proofs.CFun2
open Carquet Carquet.Impl.CSem

/-- value of an 8-byte little-endian load -/
theorem ld64le_toNat (d : List UInt8) (p : Nat) :
    (ld64le d p).toNat = (d.getD p 0).toNat + (d.getD (p + 1) 0).toNat * 2 ^ 8 + (d.getD (p + 2) 0).toNat * 2 ^ 16 +
      (d.getD (p + 3) 0).toNat * 2 ^ 24 + (d.getD (p + 4) 0).toNat * 2 ^ 32 + (d.getD (p + 5) 0).toNat * 2 ^ 40 +
      (d.getD (p + 6) 0).toNat * 2 ^ 48 + (d.getD (p + 7) 0).toNat * 2 ^ 56 := by
  have h0 := byte_lt' (d.getD p 0)
  have h1 := byte_lt' (d.getD (p + 1) 0)
  have h2 := byte_lt' (d.getD (p + 2) 0)
  have h3 := byte_lt' (d.getD (p + 3) 0)
  have h4 := byte_lt' (d.getD (p + 4) 0)
  have h5 := byte_lt' (d.getD (p + 5) 0)
  have h6 := byte_lt' (d.getD (p + 6) 0)
  have h7 := byte_lt' (d.getD (p + 7) 0)
  simp only [ld64le, rd8_eq, BitVec.toNat_or, BitVec.toNat_shiftLeft, BitVec.toNat_setWidth, UInt8.toNat_toBitVec]
  rw [Nat.mod_eq_of_lt (by omega : (d.getD p 0).toNat < 2 ^ 64), Nat.mod_eq_of_lt (by omega : (d.getD (p + 1) 0).toNat < 2 ^ 64),
    Nat.mod_eq_of_lt (by omega : (d.getD (p + 2) 0).toNat < 2 ^ 64), Nat.mod_eq_of_lt (by omega : (d.getD (p + 3) 0).toNat < 2 ^ 64),
    Nat.mod_eq_of_lt (by omega : (d.getD (p + 4) 0).toNat < 2 ^ 64), Nat.mod_eq_of_lt (by omega : (d.getD (p + 5) 0).toNat < 2 ^ 64),
    Nat.mod_eq_of_lt (by omega : (d.getD (p + 6) 0).toNat < 2 ^ 64), Nat.mod_eq_of_lt (by omega : (d.getD (p + 7) 0).toNat < 2 ^ 64)]
  simp only [Nat.shiftLeft_eq]
  rw [Nat.mod_eq_of_lt (by omega : (d.getD (p + 1) 0).toNat * 2 ^ 8 < 2 ^ 64), Nat.mod_eq_of_lt (by omega : (d.getD (p + 2) 0).toNat * 2 ^ 16 < 2 ^ 64),
    Nat.mod_eq_of_lt (by omega : (d.getD (p + 3) 0).toNat * 2 ^ 24 < 2 ^ 64), Nat.mod_eq_of_lt (by omega : (d.getD (p + 4) 0).toNat * 2 ^ 32 < 2 ^ 64),
    Nat.mod_eq_of_lt (by omega : (d.getD (p + 5) 0).toNat * 2 ^ 40 < 2 ^ 64), Nat.mod_eq_of_lt (by omega : (d.getD (p + 6) 0).toNat * 2 ^ 48 < 2 ^ 64),
    Nat.mod_eq_of_lt (by omega : (d.getD (p + 7) 0).toNat * 2 ^ 56 < 2 ^ 64)]
  simp only [← Nat.shiftLeft_eq]
  rw [or_shl_add _ _ 8 (by omega), or_shl_add _ _ 16 (by omega), or_shl_add _ _ 24 (by omega), or_shl_add _ _ 32 (by omega),
    or_shl_add _ _ 40 (by omega), or_shl_add _ _ 48 (by omega), or_shl_add _ _ 56 (by omega)]
  simp only [Nat.shiftLeft_eq]
end Carquet.Proofs.CFun2
