import Carquet.Proofs.CFun2.Mem
import Carquet.Proofs.Bloom
import Carquet.Gen.CFun
/-
Stage-2 link lemmas for src/metadata/bloom_filter.c: the block loops as translated from the C source
(`uint32_t* block`: a list of words) against the word-level view of the byte model (`Proofs.Bloom.insWords / chkWords`).
-/
namespace Carquet.Proofs.CFun2
open Carquet Carquet.Impl Carquet.Impl.CSem
open Carquet.Proofs.Bloom (insWords chkWords exists_cons8 bitpos_lt)

/-- the table the translator read from the initialiser of `SALT[8]` in the AST is the table the model uses (which is
re-extracted from the source text by translate/gen.py) -/
theorem salt_table_eq : Gen.CFun.bloom_filter_SALT = Impl.Bloom.salt := by decide

theorem block_insert_words (ws : List (BitVec 32)) (hash : BitVec 64) (h : 8 ≤ ws.length) :
    Gen.CFun.bloom_filter_block_insert ws hash = insWords (hash.setWidth 32) Impl.Bloom.salt ws := by
  obtain ⟨w0, w1, w2, w3, w4, w5, w6, w7, rest, rfl⟩ := exists_cons8 ws h
  rw [← salt_table_eq]
  simp [Gen.CFun.bloom_filter_block_insert, Gen.CFun.bloom_filter_block_insert_loop1, Gen.CFun.bloom_filter_SALT,
    insWords, Impl.Bloom.bitOf, wr, rd]

theorem shcount_bitpos (x : BitVec 32) : shCountOk false 32 (x >>> 27) = true := by
  have := bitpos_lt x
  simpa [shCountOk] using this

theorem msb_small : (2#32).msb = false ∧ (3#32).msb = false ∧ (4#32).msb = false ∧ (5#32).msb = false ∧
    (6#32).msb = false ∧ (7#32).msb = false := by decide

theorem block_insert_defined (ws : List (BitVec 32)) (hash : BitVec 64) (h : 8 ≤ ws.length) :
    Gen.CFun.bloom_filter_block_insert_defined ws hash = true := by
  obtain ⟨w0, w1, w2, w3, w4, w5, w6, w7, rest, rfl⟩ := exists_cons8 ws h
  simp [Gen.CFun.bloom_filter_block_insert_defined, Gen.CFun.bloom_filter_block_insert_loop1_defined, shcount_bitpos,
    inb, wr, sAddOk, BitVec.saddOverflow, msb_small]

theorem block_check_words (ws : List (BitVec 32)) (hash : BitVec 64) (h : 8 ≤ ws.length) :
    Gen.CFun.bloom_filter_block_check ws hash = chkWords (hash.setWidth 32) Impl.Bloom.salt ws := by
  obtain ⟨w0, w1, w2, w3, w4, w5, w6, w7, rest, rfl⟩ := exists_cons8 ws h
  rw [← salt_table_eq]
  simp [Gen.CFun.bloom_filter_block_check, Gen.CFun.bloom_filter_block_check_loop1, Gen.CFun.bloom_filter_SALT,
    chkWords, Impl.Bloom.bitOf, rd]

theorem block_check_defined (ws : List (BitVec 32)) (hash : BitVec 64) (h : 8 ≤ ws.length) :
    Gen.CFun.bloom_filter_block_check_defined ws hash = true := by
  obtain ⟨w0, w1, w2, w3, w4, w5, w6, w7, rest, rfl⟩ := exists_cons8 ws h
  simp [Gen.CFun.bloom_filter_block_check_defined, Gen.CFun.bloom_filter_block_check_loop1_defined, shcount_bitpos,
    inb, sAddOk, BitVec.saddOverflow, msb_small]

end Carquet.Proofs.CFun2
