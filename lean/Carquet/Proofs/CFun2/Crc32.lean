import Carquet.Proofs.CFun2.Mem
import Carquet.Proofs.CFun2.Ints
import Carquet.Impl.Crc32
import Carquet.Gen.CFun
namespace Carquet.Proofs.CFun2
open Carquet Carquet.Impl Carquet.Impl.CSem

/-- `T` is the content of `crc32_tables[8][256]` (flat, row-major) after `crc32_init_tables` -/
def IsCrcTable (T : List (BitVec 32)) : Prop :=
  T.length = 2048 ∧ ∀ k i, k < 8 → i < 256 → rd T (i + 256 * k) = Crc32.table k i

theorem and255_lt (x : BitVec 32) : (x &&& 255#32).toNat < 256 := by
  have : (x &&& 255#32).toNat ≤ (255#32 : BitVec 32).toNat := by
    rw [BitVec.toNat_and]; exact Nat.and_le_right
  simpa using Nat.lt_succ_of_le this

theorem shr24_lt (x : BitVec 32) : (x >>> 24).toNat < 256 := by
  rw [BitVec.toNat_ushiftRight, Nat.shiftRight_eq_div_pow]
  have := x.isLt
  omega

theorem ld32le_drop (d : List UInt8) (p : Nat) :
    ld32le d p = Crc32.le32 (d.getD p 0) (d.getD (p + 1) 0) (d.getD (p + 2) 0) (d.getD (p + 3) 0) := by
  simp [ld32le, Crc32.le32, rd8_eq]

theorem crc_loop2_eq (d : List UInt8) (T : List (BitVec 32)) (fl : BitVec 32) (hT : IsCrcTable T) :
    ∀ (fuel : Nat) (crc : BitVec 32) (off : Nat) (len : BitVec 64), off + len.toNat = d.length → len.toNat < fuel →
      Gen.CFun.crc32_slicing_by_8_loop2 fuel d crc off len T fl = (~~~ ((d.drop off).foldl Crc32.tailStep crc), T, fl) := by
  intro fuel
  induction fuel with
  | zero => intro crc off len _ hf; omega
  | succ f ih =>
    intro crc off len hoff hf
    simp only [Gen.CFun.crc32_slicing_by_8_loop2]
    by_cases h0 : len = 0#64
    · subst h0
      have : d.drop off = [] := drop_short d off (by simp at hoff; omega)
      simp [this]
    · have hpos : 0 < len.toNat := by
        rcases Nat.eq_zero_or_pos len.toNat with h | h
        · exact absurd (BitVec.eq_of_toNat_eq (by simpa using h)) h0
        · exact h
      have hsub : (len - 1#64).toNat = len.toNat - 1 := by bv_omega
      simp only [bne_iff_ne, ne_eq, h0, not_false_eq_true, if_true]
      rw [ih _ _ _ (by omega) (by omega), drop_eq_cons d off (by omega)]
      have hidx := and255_lt (crc ^^^ BitVec.setWidth 32 (rd8 d off))
      have := hT.2 0 _ (by omega) hidx
      simp only [Nat.mul_zero, Nat.add_zero] at this
      simp only [Gen.CFun.crc32_slicing_by_8_v2, this, List.foldl_cons, Crc32.tailStep]
      simp only [rd8_eq]
end Carquet.Proofs.CFun2

namespace Carquet.Proofs.CFun2
open Carquet Carquet.Impl Carquet.Impl.CSem

theorem shr24_and (x : BitVec 32) : (x >>> 24) &&& 255#32 = x >>> 24 := by
  apply BitVec.eq_of_toNat_eq
  have h := shr24_lt x
  rw [BitVec.toNat_and]
  show (x >>> 24).toNat &&& 255 = _
  rw [show (255 : Nat) = 2 ^ 8 - 1 from rfl, Nat.and_two_pow_sub_one_eq_mod]
  exact Nat.mod_eq_of_lt h

theorem crc_loop_short (crc : BitVec 32) (l : List UInt8) (h : l.length < 8) :
    Crc32.loop crc l = l.foldl Crc32.tailStep crc := by
  rw [Crc32.loop.eq_2]
  intros; rename_i heq; subst heq; simp only [List.length_cons] at h; omega

theorem crc_loop1_eq (d : List UInt8) (T : List (BitVec 32)) (fl : BitVec 32) (hT : IsCrcTable T) :
    ∀ (fuel : Nat) (crc : BitVec 32) (off : Nat) (len : BitVec 64), off + len.toNat = d.length → len.toNat / 8 < fuel →
      Gen.CFun.crc32_slicing_by_8_loop1 fuel d crc off len T fl = (~~~ (Crc32.loop crc (d.drop off)), T, fl) := by
  intro fuel
  induction fuel with
  | zero => intro crc off len _ hf; omega
  | succ f ih =>
    intro crc off len hoff hf
    simp only [Gen.CFun.crc32_slicing_by_8_loop1]
    by_cases h8 : 8#64 ≤ len
    · have h8n : 8 ≤ len.toNat := by simpa [BitVec.le_def] using h8
      have hsub : (len - 8#64).toNat = len.toNat - 8 := by bv_omega
      simp only [h8, decide_true, if_true]
      rw [ih _ _ _ (by omega) (by omega), drop_eq_cons8 d off (by omega), Crc32.loop.eq_1]
      have t7 := fun i hi => hT.2 7 i (by omega) hi
      have t6 := fun i hi => hT.2 6 i (by omega) hi
      have t5 := fun i hi => hT.2 5 i (by omega) hi
      have t4 := fun i hi => hT.2 4 i (by omega) hi
      have t3 := fun i hi => hT.2 3 i (by omega) hi
      have t2 := fun i hi => hT.2 2 i (by omega) hi
      have t1 := fun i hi => hT.2 1 i (by omega) hi
      have t0 := fun i hi => hT.2 0 i (by omega) hi
      simp only [Nat.reduceMul, Nat.add_zero] at t7 t6 t5 t4 t3 t2 t1 t0
      simp only [Gen.CFun.crc32_slicing_by_8_v1, t7 _ (and255_lt _), t6 _ (and255_lt _), t5 _ (and255_lt _),
        t4 _ (shr24_lt _), t3 _ (and255_lt _), t2 _ (and255_lt _), t1 _ (and255_lt _), t0 _ (shr24_lt _)]
      simp only [Crc32.slice8, Crc32.idx, ld32le_drop, shr24_and, BitVec.ushiftRight_zero]
    · have h8n : len.toNat < 8 := by
        have : ¬ (8 ≤ len.toNat) := by simpa [BitVec.le_def] using h8
        omega
      simp only [h8, decide_false]
      rw [crc_loop2_eq d T fl hT _ _ _ _ hoff (by omega), crc_loop_short _ _ (by simp; omega)]
      simp
end Carquet.Proofs.CFun2

namespace Carquet.Proofs.CFun2
open Carquet Carquet.Impl Carquet.Impl.CSem

/-- entry `n` of the flat table: `crc32_tables[n / 256][n % 256]` -/
def tb (n : Nat) : BitVec 32 := Crc32.table (n / 256) (n % 256)

/-- the table when the first `m` entries have been generated, on top of the initial content `T0` -/
def F (T0 : List (BitVec 32)) (m : Nat) : List (BitVec 32) := (List.range m).map tb ++ T0.drop m

theorem F_length (T0 : List (BitVec 32)) (m : Nat) (h0 : T0.length = 2048) (hm : m ≤ 2048) : (F T0 m).length = 2048 := by
  simp [F]; omega

theorem rd_F (T0 : List (BitVec 32)) (m j : Nat) (hj : j < m) : rd (F T0 m) j = tb j := by
  simp [rd, F, List.getD, List.getElem?_append_left, hj]

theorem wr_F (T0 : List (BitVec 32)) (m : Nat) (h0 : T0.length = 2048) (hm : m < 2048) :
    wr (F T0 m) m (tb m) = F T0 (m + 1) := by
  have hl : ((List.range m).map tb).length = m := by simp
  have hd : T0.drop m = T0[m]'(by omega) :: T0.drop (m + 1) := List.drop_eq_getElem_cons (by omega)
  simp only [wr, F, List.set_append, hl, Nat.lt_irrefl, if_false, Nat.sub_self, hd, List.set_cons_zero,
    List.range_succ, List.map_append, List.append_assoc]
  rfl

theorem F_zero (T0 : List (BitVec 32)) : F T0 0 = T0 := by simp [F]

theorem and1_ne0 (x : BitVec 32) : (x &&& 1#32 != 0#32) = decide (x &&& 1#32 = 1#32) := by
  rw [BitVec.and_one_eq_setWidth_ofBool_getLsbD]
  cases x.getLsbD 0 <;> decide

/-- the inner loop `for (j = 0; j < 8; j++)` -/
theorem init_loop2_eq (T : List (BitVec 32)) (fl i crc : BitVec 32) :
    Gen.CFun.crc32_init_tables_loop2 9 T fl i crc 0#32 =
      (Crc32.tblStep (Crc32.tblStep (Crc32.tblStep (Crc32.tblStep (Crc32.tblStep (Crc32.tblStep (Crc32.tblStep (Crc32.tblStep crc))))))), 8#32) := by
  have hstep : ∀ c : BitVec 32, (if c &&& 1#32 = 0#32 then c >>> 1 else (c >>> 1) ^^^ 3988292384#32) = Crc32.tblStep c := by
    intro c
    have := and1_ne0 c
    simp only [Crc32.tblStep, Crc32.poly]
    by_cases h : c &&& 1#32 = 0#32
    · simp [h]
    · have h1 : c &&& 1#32 = 1#32 := by
        have h2 : (c &&& 1#32 != 0#32) = true := by simp [h]
        rw [this] at h2
        exact of_decide_eq_true h2
      simp [h1]
  simp [Gen.CFun.crc32_init_tables_loop2, hstep]

theorem init_loop2_defined (T : List (BitVec 32)) (fl i crc : BitVec 32) :
    Gen.CFun.crc32_init_tables_loop2_defined 9 T fl i crc 0#32 = true := by
  simp [Gen.CFun.crc32_init_tables_loop2_defined, sAddOk, BitVec.saddOverflow]
end Carquet.Proofs.CFun2

namespace Carquet.Proofs.CFun2
open Carquet Carquet.Impl Carquet.Impl.CSem

theorem sSubOk_small (n : Nat) (h : 0 < n) (h2 : n < 2 ^ 30) : sSubOk (BitVec.ofNat 32 n) 1#32 = true := by
  simp only [sSubOk, BitVec.ssubOverflow, ofNat_toInt_small n (by omega)]
  simp
  omega

theorem tb_row0 (n : Nat) (h : n < 256) : tb n = Crc32.table0 n := by
  simp [tb, Nat.div_eq_of_lt h, Nat.mod_eq_of_lt h, Crc32.table]

theorem tb_row (k n : Nat) (h : n < 256) : tb (k * 256 + n) = Crc32.table k n := by
  have h1 : (k * 256 + n) / 256 = k := by omega
  have h2 : (k * 256 + n) % 256 = n := by omega
  simp [tb, h1, h2]

/-- loop #3/#4 of `crc32_init_tables`: row `kk` from the rows before it -/
theorem init_loop4_eq (T0 : List (BitVec 32)) (fl : BitVec 32) (h0 : T0.length = 2048) (kk : Nat) (hk1 : 1 ≤ kk) (hk8 : kk < 8) :
    ∀ (fuel n : Nat), n ≤ 256 → 256 - n < fuel →
      Gen.CFun.crc32_init_tables_loop4 fuel (F T0 (kk * 256 + n)) fl (BitVec.ofNat 32 kk) (BitVec.ofNat 32 n) =
        (F T0 (kk * 256 + 256), 256#32) ∧
      Gen.CFun.crc32_init_tables_loop4_defined fuel (F T0 (kk * 256 + n)) fl (BitVec.ofNat 32 kk) (BitVec.ofNat 32 n) = true := by
  intro fuel
  induction fuel with
  | zero => intro n _ hf; omega
  | succ f ih =>
    intro n hn hf
    simp only [Gen.CFun.crc32_init_tables_loop4, Gen.CFun.crc32_init_tables_loop4_defined]
    rw [show (256#32 : BitVec 32) = BitVec.ofNat 32 256 from rfl, slt_ofNat n 256 (by omega) (by omega)]
    by_cases hlt : n < 256
    · have ik : (BitVec.ofNat 32 kk).toInt.toNat = kk := by rw [ofNat_toInt_small kk (by omega)]; simp
      have ik1 : (BitVec.ofNat 32 kk - 1#32).toInt.toNat = kk - 1 := by
        rw [ofNat_sub_one kk (by omega) (by omega), ofNat_toInt_small _ (by omega)]; simp
      have hprev : rd (F T0 (kk * 256 + n)) ((kk - 1) * 256 + n) = Crc32.table (kk - 1) n := by
        rw [rd_F _ _ _ (by omega), tb_row _ _ hlt]
      have hidx := and255_lt (Crc32.table (kk - 1) n)
      have hrow0 : rd (F T0 (kk * 256 + n)) (Crc32.table (kk - 1) n &&& 255#32).toNat =
          Crc32.table0 (Crc32.table (kk - 1) n &&& 255#32).toNat := by
        rw [rd_F _ _ _ (by omega), tb_row0 _ hidx]
      have hnew : (Crc32.table (kk - 1) n >>> 8) ^^^ Crc32.table0 (Crc32.table (kk - 1) n &&& 255#32).toNat = tb (kk * 256 + n) := by
        rw [tb_row _ _ hlt]
        obtain ⟨k', rfl⟩ : ∃ k', kk = k' + 1 := ⟨kk - 1, by omega⟩
        simp [Crc32.table]
      simp only [hlt, decide_true, if_true, ik, ik1, ofNat_toInt_small n (by omega), padd_nat, paddOk_nat, hprev,
        hrow0, hnew, ofNat_add_one]
      rw [wr_F T0 _ h0 (by omega)]
      have := ih (n + 1) (by omega) (by omega)
      rw [show kk * 256 + (n + 1) = kk * 256 + n + 1 from by omega] at this
      refine ⟨this.1, ?_⟩
      simp only [this.2, msb_ofNat_small kk (by omega), msb_ofNat_small (kk - 1) (by omega), sAddOk_small n (by omega),
        ofNat_sub_one kk (by omega) (by omega), ofNat_toInt_small kk (by omega), ofNat_toInt_small (kk - 1) (by omega),
        sSubOk_small kk (by omega) (by omega), Bool.not_false, Bool.true_and, Bool.and_true, decide_eq_true_eq]
      simp only [Bool.and_eq_true, decide_eq_true_eq]
      have := hidx
      omega
    · have : n = 256 := by omega
      subst this
      simp
end Carquet.Proofs.CFun2

namespace Carquet.Proofs.CFun2
open Carquet Carquet.Impl Carquet.Impl.CSem

/-- the loop over the rows 1..7 -/
theorem init_loop3_eq (T0 : List (BitVec 32)) (fl : BitVec 32) (h0 : T0.length = 2048) :
    ∀ (fuel kk : Nat), 1 ≤ kk → kk ≤ 8 → 8 - kk < fuel →
      Gen.CFun.crc32_init_tables_loop3 fuel (F T0 (kk * 256)) fl (BitVec.ofNat 32 kk) = (F T0 2048, 1#32) ∧
      Gen.CFun.crc32_init_tables_loop3_defined fuel (F T0 (kk * 256)) fl (BitVec.ofNat 32 kk) = true := by
  intro fuel
  induction fuel with
  | zero => intro kk _ _ hf; omega
  | succ f ih =>
    intro kk hk1 hk8 hf
    simp only [Gen.CFun.crc32_init_tables_loop3, Gen.CFun.crc32_init_tables_loop3_defined]
    rw [show (8#32 : BitVec 32) = BitVec.ofNat 32 8 from rfl, slt_ofNat kk 8 (by omega) (by omega)]
    by_cases hlt : kk < 8
    · have h4 := init_loop4_eq T0 fl h0 kk hk1 hlt 257 0 (by omega) (by omega)
      simp only [Nat.add_zero, show (BitVec.ofNat 32 0 : BitVec 32) = 0#32 from rfl] at h4
      have := ih (kk + 1) (by omega) (by omega) (by omega)
      rw [show (kk + 1) * 256 = kk * 256 + 256 from by omega] at this
      simp only [hlt, decide_true, if_true, h4.1, h4.2, ofNat_add_one, this.1, this.2, sAddOk_small kk (by omega),
        Bool.true_and]
      trivial
    · have : kk = 8 := by omega
      subst this
      simp
end Carquet.Proofs.CFun2

namespace Carquet.Proofs.CFun2
open Carquet Carquet.Impl Carquet.Impl.CSem

/-- the loop over row 0 (and, in its exit branch, the rest of the function) -/
theorem init_loop1_eq (T0 : List (BitVec 32)) (fl : BitVec 32) (h0 : T0.length = 2048) :
    ∀ (fuel n : Nat), n ≤ 256 → 256 - n < fuel →
      Gen.CFun.crc32_init_tables_loop1 fuel (F T0 n) fl (BitVec.ofNat 32 n) = (F T0 2048, 1#32) ∧
      Gen.CFun.crc32_init_tables_loop1_defined fuel (F T0 n) fl (BitVec.ofNat 32 n) = true := by
  intro fuel
  induction fuel with
  | zero => intro n _ hf; omega
  | succ f ih =>
    intro n hn hf
    simp only [Gen.CFun.crc32_init_tables_loop1, Gen.CFun.crc32_init_tables_loop1_defined]
    rw [show (256#32 : BitVec 32) = BitVec.ofNat 32 256 from rfl, slt_ofNat n 256 (by omega) (by omega)]
    by_cases hlt : n < 256
    · have hi : (BitVec.ofNat 32 n).toInt.toNat = n := by rw [ofNat_toInt_small n (by omega)]; simp
      have hv : Crc32.tblStep (Crc32.tblStep (Crc32.tblStep (Crc32.tblStep (Crc32.tblStep (Crc32.tblStep (Crc32.tblStep
          (Crc32.tblStep (BitVec.ofNat 32 n)))))))) = tb n := by rw [tb_row0 n hlt]; rfl
      have := ih (n + 1) (by omega) (by omega)
      have hw := wr_F T0 n h0 (by omega)
      have hm := msb_ofNat_small n (by omega)
      have ha := sAddOk_small n (by omega)
      have hti := ofNat_toInt_small n (by omega)
      simp only [hlt, decide_true, if_true]
      rw [init_loop2_eq, init_loop2_defined]
      simp only [hi, hv]
      simp only [hw, ofNat_add_one]
      rw [this.1, this.2, hm, ha, hti]
      refine ⟨rfl, ?_⟩
      have hd : decide ((n : Int) < 256) = true := decide_eq_true (by omega)
      rw [hd]
      rfl
    · have : n = 256 := by omega
      subst this
      have h3 := init_loop3_eq T0 fl h0 8 1 (by omega) (by omega) (by omega)
      simp only [Nat.one_mul, show (BitVec.ofNat 32 1 : BitVec 32) = 1#32 from rfl] at h3
      simp [h3.1, h3.2]

theorem isCrcTable_F (T0 : List (BitVec 32)) (h0 : T0.length = 2048) : IsCrcTable (F T0 2048) := by
  refine ⟨F_length T0 2048 h0 (by omega), ?_⟩
  intro k i hk hi
  rw [rd_F _ _ _ (by omega), show i + 256 * k = k * 256 + i from by omega, tb_row k i hi]

/-- `crc32_init_tables()`: on a table that is not yet initialised it writes all 2048 entries (whatever the memory held
before) — the result is the table of the model —, sets the flag, and reaches no undefined behaviour; on an initialised
one it does nothing -/
theorem init_tables_eq (T0 : List (BitVec 32)) (h0 : T0.length = 2048) :
    Gen.CFun.crc32_init_tables T0 0#32 = (F T0 2048, 1#32) ∧ Gen.CFun.crc32_init_tables_defined T0 0#32 = true := by
  have h1 := init_loop1_eq T0 0#32 h0 257 0 (by omega) (by omega)
  simp only [F_zero, show (BitVec.ofNat 32 0 : BitVec 32) = 0#32 from rfl] at h1
  simp [Gen.CFun.crc32_init_tables, Gen.CFun.crc32_init_tables_defined, h1.1, h1.2, h0]
end Carquet.Proofs.CFun2

namespace Carquet.Proofs.CFun2
open Carquet Carquet.Impl Carquet.Impl.CSem

theorem crc_loop2_defined (d : List UInt8) (T : List (BitVec 32)) (fl : BitVec 32) :
    ∀ (fuel : Nat) (crc : BitVec 32) (off : Nat) (len : BitVec 64), off + len.toNat = d.length → len.toNat < fuel →
      Gen.CFun.crc32_slicing_by_8_loop2_defined fuel d crc off len T fl = true := by
  intro fuel
  induction fuel with
  | zero => intro crc off len _ hf; omega
  | succ f ih =>
    intro crc off len hoff hf
    simp only [Gen.CFun.crc32_slicing_by_8_loop2_defined]
    by_cases h0 : len = 0#64
    · simp [h0]
    · have hpos : 0 < len.toNat := by
        rcases Nat.eq_zero_or_pos len.toNat with h | h
        · exact absurd (BitVec.eq_of_toNat_eq (by simpa using h)) h0
        · exact h
      have hsub : (len - 1#64).toNat = len.toNat - 1 := by bv_omega
      have hin : inb d off 1 = true := by rw [inb_iff]; omega
      have hidx := and255_lt (crc ^^^ BitVec.setWidth 32 (rd8 d off))
      simp only [bne_iff_ne, ne_eq, h0, not_false_eq_true, if_true, hin, ih _ _ _ (by omega : off + 1 + (len - 1#64).toNat = d.length) (by omega),
        decide_eq_true hidx, Bool.and_self]

theorem crc_loop1_defined (d : List UInt8) (T : List (BitVec 32)) (fl : BitVec 32) :
    ∀ (fuel : Nat) (crc : BitVec 32) (off : Nat) (len : BitVec 64), off + len.toNat = d.length → len.toNat / 8 < fuel →
      Gen.CFun.crc32_slicing_by_8_loop1_defined fuel d crc off len T fl = true := by
  intro fuel
  induction fuel with
  | zero => intro crc off len _ hf; omega
  | succ f ih =>
    intro crc off len hoff hf
    simp only [Gen.CFun.crc32_slicing_by_8_loop1_defined]
    by_cases h8 : 8#64 ≤ len
    · have h8n : 8 ≤ len.toNat := by simpa [BitVec.le_def] using h8
      have hsub : (len - 8#64).toNat = len.toNat - 8 := by bv_omega
      have hin1 : inb d off 4 = true := by rw [inb_iff]; omega
      have hin2 : inb d (off + 4) 4 = true := by rw [inb_iff]; omega
      simp only [h8, decide_true, if_true, hin1, hin2, ih _ _ _ (by omega : off + 8 + (len - 8#64).toNat = d.length) (by omega),
        decide_eq_true (and255_lt _), decide_eq_true (shr24_lt _), Bool.and_self]
    · have h8n : len.toNat < 8 := by
        have : ¬ (8 ≤ len.toNat) := by simpa [BitVec.le_def] using h8
        omega
      simp only [h8, decide_false]
      exact crc_loop2_defined d T fl _ _ _ _ hoff (by omega)

/-- the state of the lazily built table: not yet built (the flag is 0; the memory has the right size, its content does not
matter), or built -/
def CrcState (T : List (BitVec 32)) (fl : BitVec 32) : Prop :=
  (fl = 0#32 ∧ T.length = 2048) ∨ (fl ≠ 0#32 ∧ IsCrcTable T)

theorem slicing_eq (T : List (BitVec 32)) (fl crc : BitVec 32) (d : List UInt8) (len : BitVec 64)
    (hlen : len.toNat = d.length) (hst : CrcState T fl) :
    (Gen.CFun.crc32_slicing_by_8 T fl crc d len).1 = Crc32.slicingBy8 crc d ∧
    CrcState (Gen.CFun.crc32_slicing_by_8 T fl crc d len).2.1 (Gen.CFun.crc32_slicing_by_8 T fl crc d len).2.2 ∧
    (Gen.CFun.crc32_slicing_by_8 T fl crc d len).2.2 ≠ 0#32 ∧
    Gen.CFun.crc32_slicing_by_8_defined T fl crc d len = true := by
  have hk : ∀ T' fl', IsCrcTable T' →
      Gen.CFun.crc32_slicing_by_8_k1 d crc len T' fl' = (Crc32.slicingBy8 crc d, T', fl') ∧
      Gen.CFun.crc32_slicing_by_8_k1_defined d crc len T' fl' = true := by
    intro T' fl' hT'
    simp only [Gen.CFun.crc32_slicing_by_8_k1, Gen.CFun.crc32_slicing_by_8_k1_defined]
    rw [crc_loop1_eq d T' fl' hT' _ _ 0 len (by omega) (by omega),
      crc_loop1_defined d T' fl' _ _ 0 len (by omega) (by omega)]
    simp [Crc32.slicingBy8]
  rcases hst with ⟨hfl, hT⟩ | ⟨hfl, hT⟩
  · subst hfl
    have hi := init_tables_eq T hT
    have hF := isCrcTable_F T hT
    have := hk (F T 2048) 1#32 hF
    simp only [Gen.CFun.crc32_slicing_by_8, Gen.CFun.crc32_slicing_by_8_defined, hi.1, hi.2, this.1, this.2, hT]
    refine ⟨by simp, ?_, by simp, by simp⟩
    right
    exact ⟨by simp, hF⟩
  · have := hk T fl hT
    have hne : (fl != 0#32) = true := by simpa using hfl
    simp only [Gen.CFun.crc32_slicing_by_8, Gen.CFun.crc32_slicing_by_8_defined, hne, this.1, this.2, hT.1]
    refine ⟨by simp, ?_, by simpa using hfl, by simp⟩
    right
    exact ⟨hfl, hT⟩
end Carquet.Proofs.CFun2
