import Carquet.Proofs.CursorBatchCol
/-
C02 / C03, batch reader over a whole file: valid files, the per-row-group invariant, and the
abstract machine (`absNext`, `absRun`) that `carquet_batch_reader_next` refines in every I/O mode.
-/
namespace Carquet.Proofs.Cursor
open Carquet.Spec.Cursor (Row)
open Carquet.Impl.ColumnReader (Fixes Reader Page)
open Carquet.Impl.BatchReader

/-! ### valid files and projections -/

/-- rows of a stored column chunk -/
def chunkDataRows (col : Column) (cd : ChunkData α) : List (Row α) := rowsOfPages col.maxDef cd.pages

/-- A valid file as far as the readers are concerned: every row group has one chunk per column,
every chunk's pages load and are well formed, `num_values` is the chunk's row count, and all chunks
of a row group have the same number of rows. -/
structure FileOk (f : File α) : Prop where
  shape : ∀ rg ∈ f.rowGroups, rg.length = f.columns.length
  chunks : ∀ rg ∈ f.rowGroups, ∀ (i : Nat) (col : Column) (cd : ChunkData α),
    f.columns[i]? = some col → rg[i]? = some cd →
    (∀ p ∈ cd.pages, ∃ q, p = some q ∧ PageOk col.maxDef q) ∧ cd.numValues = (chunkDataRows col cd).length
  sameRows : ∀ rg ∈ f.rowGroups, ∃ n : Nat, ∀ (i : Nat) (col : Column) (cd : ChunkData α),
    f.columns[i]? = some col → rg[i]? = some cd → (chunkDataRows col cd).length = n

/-- schema leaves of the projected columns -/
def projCols (f : File α) (proj : List Nat) : List Column := proj.filterMap (fun c => f.columns[c]?)

/-- rows of the projected columns of one row group -/
def projRows (f : File α) (proj : List Nat) (rg : List (ChunkData α)) : List (List (Row α)) :=
  proj.filterMap (fun c =>
    match f.columns[c]?, rg[c]? with
    | some col, some cd => some (chunkDataRows col cd)
    | _, _ => none)

theorem projectedColumns_eq (f : File α) (proj : List Nat) :
    projectedColumns f (proj.map Int.ofNat) = projCols f proj := by
  simp [projectedColumns, projCols, List.filterMap_map, Function.comp_def]

/-! ### readers of a row group -/

/-- readers `rs` of the columns `cols` represent the pending rows `Ps` -/
def ColsInv : List Column → List (Reader α) → List (List (Row α)) → Prop
  | col :: cols, r :: rs, P :: Ps => (Inv r ∧ r.chunk.maxDef = col.maxDef ∧ pending r = P) ∧ ColsInv cols rs Ps
  | [], [], [] => True
  | _, _, _ => False

theorem getColumn_ok (mode : IOMode) (f : File α) (hf : FileOk f) (g c : Nat) (rg : List (ChunkData α))
    (col : Column) (hrg : f.rowGroups[g]? = some rg) (hcol : f.columns[c]? = some col) :
    ∃ r cd, rg[c]? = some cd ∧ getColumn mode f (g : Int) (c : Int) = .ok r ∧ Inv r ∧
      r.chunk.maxDef = col.maxDef ∧ pending r = chunkDataRows col cd := by
  have hg : g < f.rowGroups.length := by
    rcases Nat.lt_or_ge g f.rowGroups.length with h | h
    · exact h
    · rw [List.getElem?_eq_none h] at hrg; cases hrg
  have hc : c < f.columns.length := by
    rcases Nat.lt_or_ge c f.columns.length with h | h
    · exact h
    · rw [List.getElem?_eq_none h] at hcol; cases hcol
  have hmem : rg ∈ f.rowGroups := List.mem_of_getElem? hrg
  have hshape := hf.shape rg hmem
  have hcd : rg[c]? = some rg[c] := List.getElem?_eq_getElem (by omega)
  obtain ⟨hpages, hnum⟩ := hf.chunks rg hmem c col rg[c] hcol hcd
  refine ⟨Carquet.Impl.ColumnReader.getColumn
      ⟨rg[c].pages, rg[c].numValues, col.maxDef, chunkIsView mode col rg[c], chunkRetains mode col rg[c]⟩,
    rg[c], hcd, ?_, ?_, rfl, ?_⟩
  · unfold getColumn
    have h1 : ¬ ((g : Int) < 0 ∨ (g : Int) ≥ f.rowGroups.length) := by omega
    have h2 : ¬ ((c : Int) < 0 ∨ (c : Int) ≥ f.columns.length) := by omega
    simp only [h1, h2, if_false, Int.toNat_natCast, hrg, hcol, hcd]
  · exact inv_getColumn _ ⟨hpages, hnum⟩
  · rw [pending_getColumn]; rfl

theorem openReaders_ok (mode : IOMode) (f : File α) (hf : FileOk f) (g : Nat) (rg : List (ChunkData α))
    (hrg : f.rowGroups[g]? = some rg) (proj : List Nat) (hproj : ∀ c ∈ proj, c < f.columns.length) :
    ∃ rs, openReaders mode f (g : Int) (proj.map Int.ofNat) = .ok rs ∧
      ColsInv (projCols f proj) rs (projRows f proj rg) := by
  induction proj with
  | nil => exact ⟨[], rfl, trivial⟩
  | cons c proj ih =>
    have hc : c < f.columns.length := hproj c (by simp)
    have hcol : f.columns[c]? = some f.columns[c] := List.getElem?_eq_getElem hc
    obtain ⟨r, cd, hcd, hget, hinv, hmd, hpend⟩ := getColumn_ok mode f hf g c rg _ hrg hcol
    obtain ⟨rs, hopen, hcols⟩ := ih (fun x hx => hproj x (by simp [hx]))
    refine ⟨r :: rs, ?_, ?_⟩
    · simp only [List.map_cons, openReaders]
      have : getColumn mode f (g : Int) (Int.ofNat c) = .ok r := hget
      rw [this, hopen]
    · simp only [projCols, projRows, List.filterMap_cons, hcol, hcd]
      exact ⟨⟨hinv, hmd, hpend⟩, hcols⟩

theorem colsInv_prefetch : ∀ (cols : List Column) (rs : List (Reader α)) (Ps : List (List (Row α))),
    ColsInv cols rs Ps → ColsInv cols (rs.map (prefetch Fixes.all)) Ps
  | col :: cols, r :: rs, P :: Ps, h => by
    obtain ⟨⟨hinv, hmd, hpend⟩, hrest⟩ := h
    obtain ⟨hinv', hchunk', hpend'⟩ := prefetch_ok r hinv
    exact ⟨⟨hinv', by rw [hchunk']; exact hmd, by rw [hpend']; exact hpend⟩, colsInv_prefetch cols rs Ps hrest⟩
  | [], [], [], _ => trivial
  | [], _ :: _, _, h => by cases h
  | [], [], _ :: _, h => by cases h
  | _ :: _, [], _, h => by cases h
  | _ :: _, _ :: _, [], h => by cases h

/-- a batch column without its ownership flag (the only thing that distinguishes a zero-copy view) -/
def ColData.erase (cd : ColData α) : ColData α := { cd with view := false }
def Batch.erase (b : Batch α) : Batch α := ⟨b.numRows, b.cols.map ColData.erase⟩

theorem specCol_erase (maxDef rtr : Nat) (rows : List (Row α)) (view : Bool) :
    ColData.erase (specCol maxDef rtr rows view) = specCol maxDef rtr rows false := rfl

/-- the columns of one abstract batch -/
def absCols (rtr : Nat) : List Column → List (List (Row α)) → List (ColData α)
  | col :: cols, P :: Ps => specCol col.maxDef rtr (P.take rtr) false :: absCols rtr cols Ps
  | _, _ => []

/-- **All columns of one batch**: each delivers its next `rtr` pending rows. -/
theorem readColumns_ok (mode : IOMode) (rtr : Nat) (h0 : 0 < rtr) (h31 : rtr < 2147483648) :
    ∀ (cols : List Column) (rs : List (Reader α)) (Ps : List (List (Row α))),
      ColsInv cols rs Ps → (∀ P ∈ Ps, rtr ≤ P.length) → (∀ col ∈ cols, ColFits col rtr) →
      ∃ rs' cds, readColumns Fixes.all mode (rtr : Int) cols rs = (rs', some cds) ∧
        ColsInv cols rs' (Ps.map (List.drop rtr)) ∧ cds.map ColData.erase = absCols rtr cols Ps
  | col :: cols, r :: rs, P :: Ps, h, hlen, hfit => by
    obtain ⟨⟨hinv, hmd, hpend⟩, hrest⟩ := h
    obtain ⟨r', view, heq, hinv', hchunk', hpend'⟩ := readColumn_ok mode col r hinv hmd rtr h0
      (by rw [hpend]; exact hlen P (by simp)) h31 (hfit col (by simp))
    obtain ⟨rs', cds, heq2, hcols', hcds⟩ := readColumns_ok mode rtr h0 h31 cols rs Ps hrest
      (fun Q hQ => hlen Q (by simp [hQ])) (fun c hc => hfit c (by simp [hc]))
    refine ⟨r' :: rs', specCol col.maxDef rtr ((pending r).take rtr) view :: cds, ?_, ?_, ?_⟩
    · simp only [readColumns, heq, heq2]
    · exact ⟨⟨hinv', by rw [hchunk']; exact hmd, by rw [hpend', hpend]⟩, hcols'⟩
    · simp only [List.map_cons, specCol_erase, absCols, hcds, hpend]
  | [], [], [], _, _, _ => ⟨[], [], by simp [readColumns], trivial, rfl⟩
  | [], _ :: _, _, h, _, _ => by cases h
  | [], [], _ :: _, h, _, _ => by cases h
  | _ :: _, [], _, h, _, _ => by cases h
  | _ :: _, _ :: _, [], h, _, _ => by cases h

end Carquet.Proofs.Cursor
