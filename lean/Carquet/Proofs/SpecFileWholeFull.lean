import Carquet.Proofs.SpecFileChunkFull
import Carquet.Proofs.SpecFileFooterFull
import Carquet.Proofs.SpecFileWhole
/-
Whole-file layer for ADMISSIBLE layouts (`layoutAdm`): dictionary pages and dictionary-encoded data
pages, every compression plan, unknown Thrift fields at every level, chunk statistics — on top of
what the PLAIN class already had free (page split, run plans, header forms, CRCs, page statistics,
gaps, row groups, nesting, physical types, version, created_by).
-/
namespace Carquet.Proofs.SpecFile
open Carquet.Spec Carquet.Spec.File Carquet.Spec.Thrift Carquet.Spec.ParquetThrift

structure ChunkAdm (cl : ChunkLayout) : Prop where
  codecTag : cl.codecTag.getD cl.codec = cl.codec
  pages : ∀ pl ∈ cl.pages, PageAdm pl
  dict : ∀ d, cl.dict = some d → DictAdm d
  metaExtra : extrasOk columnMetaData cl.metaExtra = true
  chunkExtra : extrasOk columnChunk cl.chunkExtra = true

theorem chunkAdm_iff {cl : ChunkLayout} (h : chunkAdm cl = true) : ChunkAdm cl := by
  unfold chunkAdm at h
  simp only [Bool.and_eq_true, beq_iff_eq, List.all_eq_true] at h
  obtain ⟨⟨⟨⟨h1, h2⟩, h3⟩, h4⟩, h5⟩ := h
  refine ⟨h1, fun pl hpl => pageAdm_iff (h2 pl hpl), ?_, h4, h5⟩
  intro d hd
  rw [hd] at h3
  exact dictAdm_iff h3

def statsFieldsOf (s : StatsMeta) : Fields :=
  optField 1 .binary s.max ++ optField 2 .binary s.min ++ optField 3 .i64 s.nullCount ++
    optField 5 .binary s.maxValue ++ optField 6 .binary s.minValue

/-- what the footer says about a chunk the reference writer placed at `pos` -/
def chunkDesc (leaf : LeafInfo) (cl : ChunkLayout) (es : Chunk) (pos : Nat) (dp pages : Written) : CcDesc :=
  ⟨pos + cl.gapBefore.length,
   ⟨ptypeCode leaf.ptype, usedEncodings cl, leaf.path.map strBytes, cl.codec, es.length,
    dp.usize + pages.usize, dp.bytes.length + pages.bytes.length,
    (match cl.dict with
     | some d => if d.offsetPresent then pos + cl.gapBefore.length + dp.bytes.length else pos + cl.gapBefore.length
     | none => pos + cl.gapBefore.length),
    (match cl.dict with
     | some d => if d.offsetPresent then some (pos + cl.gapBefore.length) else none
     | none => none)⟩,
   if cl.chunkStats then
     some (statsFieldsOf ⟨none, none, some ((es.filter (fun e => e.val.isNone)).length : Int),
                          maxOf leaf.ptype (es.filterMap (·.val)), minOf leaf.ptype (es.filterMap (·.val))⟩)
   else none,
   cl.metaExtra, cl.chunkExtra⟩

theorem writeChunk_adm {leaf : LeafInfo} {cl : ChunkLayout} {es : Chunk} {pos : Nat} {c : ChunkOut}
    (hp : ChunkAdm cl) (hw : writeChunk leaf cl es pos = some c) :
    ∃ dp pages,
      (match cl.dict with
       | none => some (⟨[], [], 0⟩ : Written)
       | some d => writeDictPage leaf d) = some dp ∧
      writeDataPages leaf (cl.dict.map (·.values)) cl.pages es = some pages ∧
      wellFormedChunk leaf es = true ∧
      (∀ pl ∈ cl.pages, pl.comp.codec = cl.codec) ∧
      (∀ d, cl.dict = some d → d.comp.codec = cl.codec ∧ ∀ v ∈ d.values, validValue leaf v = true) ∧
      c.bytes = cl.gapBefore ++ dp.bytes ++ pages.bytes ∧
      c.cmeta = .struct (chunkDesc leaf cl es pos dp pages).fields ∧
      c.oracle = dp.oracle ++ pages.oracle ∧
      c.endPos = pos + cl.gapBefore.length + dp.bytes.length + pages.bytes.length ∧
      c.usize = dp.usize + pages.usize := by
  unfold writeChunk at hw
  simp only [Option.ite_none_left_eq_some] at hw
  obtain ⟨hcond, hw⟩ := hw
  simp only [Bool.or_eq_true, Bool.not_eq_eq_eq_not, Bool.not_true, not_or, Bool.not_eq_false] at hcond
  obtain ⟨⟨hwf, hcodecs⟩, hdictc⟩ := hcond
  have hcod : ∀ pl ∈ cl.pages, pl.comp.codec = cl.codec := by
    intro pl hpl
    rw [List.all_eq_true] at hcodecs
    simpa using hcodecs pl hpl
  rw [hp.codecTag] at hw
  cases hdict : cl.dict with
  | none =>
    rw [hdict] at hw
    simp only [Option.map_none] at hw
    cases hpg : writeDataPages leaf none cl.pages es with
    | none => simp [hpg] at hw
    | some pages =>
      simp only [hpg, Option.some.injEq] at hw
      subst hw
      refine ⟨⟨[], [], 0⟩, pages, rfl, hpg, hwf, hcod, ?_, rfl, ?_, rfl, rfl, rfl⟩
      · intro d hd; cases hd
      · simp only [chunkDesc, hdict]
        cases cl.chunkStats <;> rfl
  | some d =>
    rw [hdict] at hw hdictc
    simp only [Option.map_some] at hw
    cases hdp : writeDictPage leaf d with
    | none => simp [hdp] at hw
    | some dp =>
      cases hpg : writeDataPages leaf (some d.values) cl.pages es with
      | none => simp [hdp, hpg] at hw
      | some pages =>
        simp only [hdp, hpg, Option.some.injEq] at hw
        subst hw
        refine ⟨dp, pages, hdp, hpg, hwf, hcod, ?_, rfl, ?_, rfl, rfl, rfl⟩
        · intro d' hd'
          cases hd'
          simp only [Bool.and_eq_true, beq_iff_eq, List.all_eq_true] at hdictc
          exact hdictc
        · simp only [chunkDesc, hdict]
          cases cl.chunkStats <;> rfl

theorem chunkDesc_ok (leaf : LeafInfo) (cl : ChunkLayout) (es : Chunk) (pos : Nat) (dp pages : Written) (hp : ChunkAdm cl) :
    (chunkDesc leaf cl es pos dp pages).Ok := ⟨hp.metaExtra, hp.chunkExtra⟩

theorem chunkStart_chunkDesc (leaf : LeafInfo) (cl : ChunkLayout) (es : Chunk) (pos : Nat) (dp pages : Written) :
    chunkStart (chunkDesc leaf cl es pos dp pages).m = pos + cl.gapBefore.length := by
  unfold chunkStart chunkDesc
  cases cl.dict with
  | none => rfl
  | some d =>
    dsimp only
    cases d.offsetPresent <;> rfl

theorem legal_usedEncodings_gen (cl : ChunkLayout) (hp : ChunkAdm cl) : (usedEncodings cl).all legalEncoding = true := by
  unfold usedEncodings
  rw [List.all_eq_true]
  intro x hx
  have hx' := List.mem_eraseDups.mp hx
  simp only [List.mem_append, List.mem_map] at hx'
  rcases hx' with (hd | ⟨p, hp', rfl⟩) | ⟨p, hp', rfl⟩
  · cases hdict : cl.dict with
    | none => rw [hdict] at hd; cases hd
    | some d =>
      rw [hdict] at hd
      simp only [List.mem_singleton] at hd
      rcases (hp.dict d hdict).encoding with h | h <;> rw [hd, h] <;> rfl
  · have := (hp.pages p hp').values
    cases hv : p.values with
    | plain => rfl
    | other t q => rw [hv] at this; cases this
    | dict tag w runs =>
      rw [hv] at this
      simp only [valuesOk, Bool.or_eq_true, beq_iff_eq] at this
      rcases this with rfl | rfl <;> rfl
  · rw [(hp.pages p hp').kind]; rfl

theorem contains_usedEncodings (cl : ChunkLayout) : ∀ pl ∈ cl.pages, (usedEncodings cl).contains (valueEncTag pl.values) = true := by
  intro pl hpl
  unfold usedEncodings
  rw [List.contains_eq_any_beq, List.any_eq_true]
  refine ⟨valueEncTag pl.values, ?_, by simp⟩
  apply List.mem_eraseDups.mpr
  simp only [List.mem_append, List.mem_map]
  exact Or.inl (Or.inr ⟨pl, hpl, rfl⟩)

/-- the chunk stage on what `writeChunk` laid out -/
theorem readChunk_of_writeChunk (cfg : Config) (leaf : LeafInfo) (cl : ChunkLayout) (es : Chunk) (pos : Nat) (dp pages : Written)
    (hp : ChunkAdm cl)
    (hdp : (match cl.dict with
            | none => some (⟨[], [], 0⟩ : Written)
            | some d => writeDictPage leaf d) = some dp)
    (hpages : writeDataPages leaf (cl.dict.map (·.values)) cl.pages es = some pages)
    (hwf : wellFormedChunk leaf es = true)
    (hcodecs : ∀ pl ∈ cl.pages, pl.comp.codec = cl.codec)
    (hdictc : ∀ d, cl.dict = some d → d.comp.codec = cl.codec ∧ ∀ v ∈ d.values, validValue leaf v = true)
    (hlen : dp.bytes.length + pages.bytes.length < 2 ^ 31) (hus : dp.usize + pages.usize < 2 ^ 31) (hes : es.length < 2 ^ 31)
    (ho : ∀ e ∈ dp.oracle ++ pages.oracle, oracleLookup cfg.oracle e.1 = some e.2) :
    readChunk cfg leaf (chunkDesc leaf cl es pos dp pages).m (pos + cl.gapBefore.length) (dp.bytes ++ pages.bytes) = .ok es := by
  have hlegal := legal_usedEncodings_gen cl hp
  have hcont := contains_usedEncodings cl
  cases hdict : cl.dict with
  | none =>
    rw [hdict] at hdp hpages
    simp only [Option.some.injEq] at hdp
    subst hdp
    simp only [Option.map_none, List.length_nil, Nat.zero_add, List.nil_append] at hpages hlen hus ho ⊢
    apply readChunk_written_nodict cfg leaf cl.pages es pages _ _ (fun pl hpl => ⟨hp.pages pl hpl, hcodecs pl hpl⟩) hpages hwf
      hlen hus hes hlegal hcont rfl ?_ ho
    simp only [chunkDesc, hdict]
  | some d =>
    rw [hdict] at hdp hpages
    simp only [Option.map_some] at hpages
    obtain ⟨hdc, hvalid⟩ := hdictc d hdict
    apply readChunk_written_dict cfg leaf d cl.pages es dp pages _ _ (hp.dict d hdict) hdc hdp hvalid
      (fun pl hpl => ⟨hp.pages pl hpl, hcodecs pl hpl⟩) hpages hwf hlen hus hes hlegal hcont rfl ?_ ho
    simp only [chunkDesc, hdict]
    cases d.offsetPresent <;> simp

/-- the chunk's `total_uncompressed_size`, as the independent reader evaluates it on what `writeChunk` laid out -/
theorem chunkUsize_of_writeChunk (cfg : Config) (leaf : LeafInfo) (cl : ChunkLayout) (es : Chunk) (dp pages : Written)
    (hp : ChunkAdm cl)
    (hdp : (match cl.dict with
            | none => some (⟨[], [], 0⟩ : Written)
            | some d => writeDictPage leaf d) = some dp)
    (hpages : writeDataPages leaf (cl.dict.map (·.values)) cl.pages es = some pages)
    (hwf : wellFormedChunk leaf es = true)
    (hcodecs : ∀ pl ∈ cl.pages, pl.comp.codec = cl.codec)
    (hdictc : ∀ d, cl.dict = some d → d.comp.codec = cl.codec ∧ ∀ v ∈ d.values, validValue leaf v = true)
    (hlen : dp.bytes.length + pages.bytes.length < 2 ^ 31) (hus : dp.usize + pages.usize < 2 ^ 31) (hes : es.length < 2 ^ 31)
    (ho : ∀ e ∈ dp.oracle ++ pages.oracle, oracleLookup cfg.oracle e.1 = some e.2) :
    chunkUsize (dp.bytes.length + pages.bytes.length + 1) (dp.bytes ++ pages.bytes) = some (dp.usize + pages.usize) := by
  cases hdict : cl.dict with
  | none =>
    rw [hdict] at hdp hpages
    simp only [Option.some.injEq] at hdp
    subst hdp
    simp only [Option.map_none, List.length_nil, Nat.zero_add, List.nil_append] at hpages hlen hus ho ⊢
    exact chunkUsize_written_nodict cfg cl.codec leaf cl.pages es pages (fun pl hpl => ⟨hp.pages pl hpl, hcodecs pl hpl⟩) hpages hwf
      hlen hus hes ho
  | some d =>
    rw [hdict] at hdp hpages
    simp only [Option.map_some] at hpages
    obtain ⟨hdc, hvalid⟩ := hdictc d hdict
    exact chunkUsize_written_dict cfg cl.codec leaf d cl.pages es dp pages (hp.dict d hdict) hdc hdp hvalid
      (fun pl hpl => ⟨hp.pages pl hpl, hcodecs pl hpl⟩) hpages hwf hlen hus hes ho

theorem drop_take_middle2 {α : Type} (a b c : List α) (n k : Nat) (hn : n = a.length) (hk : k = b.length) :
    ((a ++ b ++ c).drop n).take k = b := by
  subst hn hk
  exact drop_take_middle a b c

/-- chunks of one row group -/
theorem readChunks_written_gen (cfg : Config) (hcfg : cfg.strictTiling = false) :
    ∀ (leaves : List LeafInfo) (cls : List ChunkLayout) (ess : List Chunk) (pos : Nat) (g : GroupOut),
      (∀ cl ∈ cls, ChunkAdm cl) → writeChunks leaves cls ess pos = some g → 4 ≤ pos →
      (∀ es ∈ ess, es.length < 2 ^ 31) →
      (∀ mv ∈ g.metas, chunkUsizeOk mv = true) →
      (∀ e ∈ g.oracle, oracleLookup cfg.oracle e.1 = some e.2) →
      ∃ ds : List CcDesc, g.metas = ds.map (fun d => TVal.struct d.fields) ∧ (∀ d ∈ ds, d.Ok) ∧
        g.endPos = pos + g.bytes.length ∧
        g.usize = (ds.map (·.m.totalUncompressed)).sum ∧
        ∀ (pre post : Bytes) (footerStart p : Nat), pre.length = pos → pos + g.bytes.length ≤ footerStart →
          (pre ++ g.bytes ++ post).length < 2 ^ 31 →
          ∃ q, readChunks cfg (pre ++ g.bytes ++ post) footerStart leaves (ds.map (·.m)) p = .ok (ess, q)
  | [], [], [], pos, g, _, hw, _, _, _, _ => by
    simp only [writeChunks, Option.some.injEq] at hw
    subst hw
    exact ⟨[], rfl, (fun d hd => by cases hd), (by simp), rfl, fun pre post fs p _ _ _ => ⟨p, rfl⟩⟩
  | leaf :: ls, cl :: cls, es :: ess, pos, g, hpl, hw, hpos, hsmall, husz, ho => by
    simp only [writeChunks] at hw
    cases hc : writeChunk leaf cl es pos with
    | none => simp [hc] at hw
    | some c =>
      cases hr : writeChunks ls cls ess c.endPos with
      | none => simp [hc, hr] at hw
      | some g' =>
        simp only [hc, hr, Option.some.injEq] at hw
        subst hw
        simp only at husz ho
        have hcl := hpl cl (by simp)
        obtain ⟨dp, pages, hdp, hpages, hwf, hcodecs, hdictc, hbytes, hmeta, horacle, hend, hcus⟩ := writeChunk_adm hcl hc
        obtain ⟨ds', hds', hok', hend', hus', hread'⟩ := readChunks_written_gen cfg hcfg ls cls ess c.endPos g'
          (fun x hx => hpl x (by simp [hx])) hr (by omega) (fun x hx => hsmall x (by simp [hx]))
          (fun x hx => husz x (by simp [hx])) (fun e he => ho e (by simp [he]))
        have hdok := chunkDesc_ok leaf cl es pos dp pages hcl
        have hus : dp.usize + pages.usize < 2 ^ 31 := by
          have := chunkUsizeOk_desc _ hdok (by rw [← hmeta]; exact husz _ (by simp))
          exact this
        refine ⟨chunkDesc leaf cl es pos dp pages :: ds', ?_, ?_, ?_, ?_, ?_⟩
        · simp [hmeta, hds']
        · intro d hd
          rcases List.mem_cons.mp hd with rfl | hd'
          · exact hdok
          · exact hok' d hd'
        · simp only [List.length_append, hend', hend, hbytes]; omega
        · simp only [List.map_cons, List.sum_cons, hcus, hus']; rfl
        · intro pre post fs p hpre hfs hlen
          simp only [hbytes, List.length_append] at hfs hlen
          -- the recursive call sees the same file with a longer prefix
          obtain ⟨q, hq⟩ := hread' (pre ++ (cl.gapBefore ++ dp.bytes ++ pages.bytes)) post fs
            (pos + cl.gapBefore.length + (dp.bytes.length + pages.bytes.length))
            (by simp [hpre, hend]; omega) (by rw [hend]; omega) (by simp only [List.length_append] at hlen ⊢; omega)
          have hfile : pre ++ (cl.gapBefore ++ dp.bytes ++ pages.bytes ++ g'.bytes) ++ post =
              (pre ++ cl.gapBefore) ++ (dp.bytes ++ pages.bytes) ++ (g'.bytes ++ post) := by simp [List.append_assoc]
          have hfile2 : pre ++ (cl.gapBefore ++ dp.bytes ++ pages.bytes ++ g'.bytes) ++ post =
              pre ++ (cl.gapBefore ++ dp.bytes ++ pages.bytes) ++ g'.bytes ++ post := by simp [List.append_assoc]
          have hslice : ((pre ++ (cl.gapBefore ++ dp.bytes ++ pages.bytes ++ g'.bytes) ++ post).drop (pos + cl.gapBefore.length)).take
              (dp.bytes.length + pages.bytes.length) = dp.bytes ++ pages.bytes := by
            rw [hfile]
            exact drop_take_middle2 _ _ _ _ _ (by simp [hpre]) (by simp)
          have hchunk := readChunk_of_writeChunk cfg leaf cl es pos dp pages hcl hdp hpages hwf hcodecs hdictc (by omega) hus
            (hsmall es (by simp)) (fun e he => ho e (by rw [horacle]; simp only [List.mem_append] at he ⊢; exact Or.inl he))
          have husize := chunkUsize_of_writeChunk cfg leaf cl es dp pages hcl hdp hpages hwf hcodecs hdictc (by omega) hus
            (hsmall es (by simp)) (fun e he => ho e (by rw [horacle]; simp only [List.mem_append] at he ⊢; exact Or.inl he))
          have hstart := chunkStart_chunkDesc leaf cl es pos dp pages
          have hm1 : (chunkDesc leaf cl es pos dp pages).m.ptype = ptypeCode leaf.ptype := rfl
          have hm2 : (chunkDesc leaf cl es pos dp pages).m.path = leaf.path.map strBytes := rfl
          have hm3 : (chunkDesc leaf cl es pos dp pages).m.totalCompressed = dp.bytes.length + pages.bytes.length := rfl
          have hm4 : (chunkDesc leaf cl es pos dp pages).m.totalUncompressed = dp.usize + pages.usize := rfl
          refine ⟨q, ?_⟩
          simp only [List.map_cons, hbytes]
          generalize (chunkDesc leaf cl es pos dp pages).m = m at hchunk hstart hm1 hm2 hm3 hm4 ⊢
          unfold readChunks
          simp only [hstart, hm1, hm2, hm3, hm4, hcfg, Bool.false_and, Bool.false_eq_true, if_false, bind, Except.bind,
            pure, Except.pure]
          have h4 : ¬ (pos + cl.gapBefore.length < 4 ∨
              pos + cl.gapBefore.length + (dp.bytes.length + pages.bytes.length) > fs) := by omega
          simp only [ne_eq, not_true_eq_false, if_false, h4, hslice, hchunk, husize]
          rw [hfile2]
          simp only [hq]
  | [], _ :: _, _, _, _, _, hw, _, _, _, _ => by simp [writeChunks] at hw
  | [], [], _ :: _, _, _, _, hw, _, _, _, _ => by simp [writeChunks] at hw
  | _ :: _, [], _, _, _, _, hw, _, _, _, _ => by simp [writeChunks] at hw
  | _ :: _, _ :: _, [], _, _, _, hw, _, _, _, _ => by simp [writeChunks] at hw

/-- the row groups of a file -/
theorem readRowGroups_written_gen (cfg : Config) (hcfg : cfg.strictTiling = false) (leaves : List LeafInfo) (extra : Fields)
    (hx : extrasOk rowGroup extra = true) :
    ∀ (lay : List (List ChunkLayout)) (groups : List RowGroup) (pos : Nat) (G : GroupOut),
      (∀ g ∈ lay, ∀ cl ∈ g, ChunkAdm cl) → writeGroups leaves extra lay groups pos = some G → 4 ≤ pos →
      (∀ g ∈ groups, ∀ es ∈ g.chunks, es.length < 2 ^ 31) →
      (∀ rg ∈ G.metas, rgUsizeOk rg = true) →
      (∀ e ∈ G.oracle, oracleLookup cfg.oracle e.1 = some e.2) →
      ∃ ds : List RgDesc2, G.metas = ds.map (fun d => TVal.struct d.fields) ∧ (∀ d ∈ ds, d.Ok) ∧
        G.endPos = pos + G.bytes.length ∧
        ds.map (·.numRows) = groups.map (groupRows leaves) ∧
        ∀ (pre post : Bytes) (footerStart p : Nat), pre.length = pos → pos + G.bytes.length ≤ footerStart →
          (pre ++ G.bytes ++ post).length < 2 ^ 31 →
          ∃ q, readRowGroups cfg (pre ++ G.bytes ++ post) footerStart leaves (ds.map RgDesc2.meta') p = .ok (groups, q)
  | [], [], pos, G, _, hw, _, _, _, _ => by
    simp only [writeGroups, Option.some.injEq] at hw
    subst hw
    exact ⟨[], rfl, (fun d hd => by cases hd), (by simp), rfl, fun pre post fs p _ _ _ => ⟨p, rfl⟩⟩
  | cls :: r, g :: gs, pos, G, hpl, hw, hpos, hsmall, husz, ho => by
    simp only [writeGroups] at hw
    split at hw
    · cases hw
    · rename_i hrows
      cases hwc : writeChunks leaves cls g.chunks pos with
      | none => simp [hwc] at hw
      | some o =>
        cases hr : writeGroups leaves extra r gs o.endPos with
        | none => simp [hwc, hr] at hw
        | some rest =>
          simp only [hwc, hr, Option.some.injEq] at hw
          subst hw
          simp only at husz ho
          have husz0 := rgUsizeOk_withExtras o.metas o.usize (groupRows leaves g) extra hx (husz _ (by simp))
          obtain ⟨ms, hms, hmok, hend, hous, hread⟩ := readChunks_written_gen cfg hcfg leaves cls g.chunks pos o (hpl cls (by simp))
            hwc hpos (hsmall g (by simp)) husz0 (fun e he => ho e (by simp [he]))
          obtain ⟨ds', hds', hok', hend', hnr', hread'⟩ := readRowGroups_written_gen cfg hcfg leaves extra hx r gs o.endPos rest
            (fun x hx => hpl x (by simp [hx])) hr (by omega) (fun x hx => hsmall x (by simp [hx]))
            (fun x hx => husz x (by simp [hx])) (fun e he => ho e (by simp [he]))
          refine ⟨⟨ms, o.usize, groupRows leaves g, extra⟩ :: ds', ?_, ?_, ?_, ?_, ?_⟩
          · simp only [List.map_cons, hds', hms]
            rfl
          · intro d hd
            rcases List.mem_cons.mp hd with rfl | hd'
            · exact ⟨hx, hmok⟩
            · exact hok' d hd'
          · simp only [List.length_append, hend', hend]; omega
          · simp [hnr']
          · intro pre post fs p hpre hfs hlen
            simp only [List.length_append] at hfs hlen
            obtain ⟨q1, hq1⟩ := hread pre (rest.bytes ++ post) fs p hpre (by omega)
              (by simp only [List.length_append]; omega)
            obtain ⟨q2, hq2⟩ := hread' (pre ++ o.bytes) post fs q1 (by simp [hpre, hend]) (by rw [hend]; omega)
              (by simp only [List.length_append]; omega)
            refine ⟨q2, ?_⟩
            have hf1 : pre ++ (o.bytes ++ rest.bytes) ++ post = pre ++ o.bytes ++ (rest.bytes ++ post) := by
              simp [List.append_assoc]
            have hf2 : pre ++ (o.bytes ++ rest.bytes) ++ post = pre ++ o.bytes ++ rest.bytes ++ post := by
              simp [List.append_assoc]
            simp only [Bool.not_eq_true] at hrows
            have hrows' : (List.zipWith (fun (l : LeafInfo) c => rowsOf l.maxRep c == groupRows leaves g) leaves g.chunks).all id = true := by
              simpa using hrows
            unfold readRowGroups
            simp only [List.map_cons, RgDesc2.meta', bind, Except.bind, pure, Except.pure]
            rw [hf1, hq1]
            have hbs : ((ms.map (·.m)).map (·.totalUncompressed)).sum = o.usize := by
              rw [hous, List.map_map]; rfl
            simp only [hrows', Bool.not_true, Bool.false_eq_true, if_false, hbs, ne_eq, not_true_eq_false]
            rw [← hf1, hf2]
            rw [hq2]
  | [], _ :: _, _, _, _, hw, _, _, _, _ => by simp [writeGroups] at hw
  | _ :: _, [], _, _, _, hw, _, _, _, _ => by simp [writeGroups] at hw

/-! ### a schema the writer accepts has no empty group -/

mutual
theorem groupsNonEmpty_of_leafInfosOf : ∀ (n : Schema.Node) (d r : Nat) (path : List String) (ls : List LeafInfo),
    leafInfosOf n d r path = .ok ls → Schema.groupsNonEmpty n = true
  | .leaf i, _, _, _, _, _ => by simp [Schema.groupsNonEmpty]
  | .group i cs, d, r, path, ls, h => by
    simp only [leafInfosOf] at h
    split at h
    · cases h
    · split at h
      · cases h
      · split at h
        · cases h
        · rename_i hne
          have := groupsNonEmptyList_of_leafInfosOfList cs _ _ _ ls h
          simp only [Schema.groupsNonEmpty, this, Bool.and_true]
          simpa using hne
theorem groupsNonEmptyList_of_leafInfosOfList : ∀ (cs : List Schema.Node) (d r : Nat) (path : List String) (ls : List LeafInfo),
    leafInfosOfList cs d r path = .ok ls → Schema.groupsNonEmptyList cs = true
  | [], _, _, _, _, _ => by simp [Schema.groupsNonEmptyList]
  | c :: cs, d, r, path, ls, h => by
    simp only [leafInfosOfList] at h
    cases h1 : leafInfosOf c d r path with
    | error e => simp [h1] at h
    | ok a =>
      cases h2 : leafInfosOfList cs d r path with
      | error e => simp [h1, h2] at h
      | ok b =>
        simp only [Schema.groupsNonEmptyList, groupsNonEmpty_of_leafInfosOf c d r path a h1,
          groupsNonEmptyList_of_leafInfosOfList cs d r path b h2, Bool.and_true]
end

theorem groupsNonEmpty_of_columnsOf (root : Schema.Node) (ls : List LeafInfo) (h : columnsOf root = .ok ls) :
    Schema.groupsNonEmpty root = true := by
  cases root with
  | leaf i => simp [columnsOf] at h
  | group i cs =>
    simp only [columnsOf] at h
    split at h
    · cases h
    · split at h
      · cases h
      · rename_i hne
        have := groupsNonEmptyList_of_leafInfosOfList cs _ _ _ ls h
        simp only [Schema.groupsNonEmpty, this, Bool.and_true]
        simpa using hne

structure LayoutAdm (l : Layout) : Prop where
  chunks : ∀ g ∈ l.rowGroups, ∀ cl ∈ g, ChunkAdm cl
  footerExtra : extrasOk fileMetaData l.footerExtra = true
  schemaExtra : extrasOk schemaElement l.schemaExtra = true
  rowGroupExtra : extrasOk rowGroup l.rowGroupExtra = true

theorem layoutAdm_iff {l : Layout} (h : layoutAdm l = true) : LayoutAdm l := by
  unfold layoutAdm at h
  simp only [Bool.and_eq_true, List.all_eq_true] at h
  obtain ⟨⟨⟨h1, h2⟩, h3⟩, h4⟩ := h
  exact ⟨fun g hg cl hcl => chunkAdm_iff (h1 g hg cl hcl), h2, h3, h4⟩

/-- **whole file, every admissible layout**: what the reference writer writes, the independent reader
reads back — given any oracle table `o` in which every GZIP / ZSTD body the writer stored is found with
its contents (the writer's own table, or one filled by a real decompressor). -/
theorem read_write_full (t : Table) (l : Layout) (file : Bytes) (oracle : Oracle)
    (hadm : layoutAdm l = true) (hw : writeFull t l = some (file, oracle))
    (hwf : ∀ v, footerValue t l = some v → v.wf = true ∧ footerUsizeOk v = true)
    (hlen : file.length < 2 ^ 31)
    (hsmall : ∀ g ∈ t.rowGroups, ∀ es ∈ g.chunks, es.length < 2 ^ 31)
    (o : Oracle) (ho : ∀ e ∈ oracle, oracleLookup o e.1 = some e.2) :
    File.read file (oracle := o) = .ok t := by
  have hl := layoutAdm_iff hadm
  obtain ⟨schema, groups⟩ := t
  unfold writeFull at hw
  unfold footerValue at hwf
  simp only at hw hwf hsmall
  cases hcols : columnsOf schema with
  | error e => simp [hcols] at hw
  | ok leaves =>
    have hne := groupsNonEmpty_of_columnsOf schema leaves hcols
    simp only [hcols] at hw hwf
    cases hg : writeGroups leaves l.rowGroupExtra l.rowGroups groups 4 with
    | none => simp [hg] at hw
    | some G =>
      simp only [hg, Option.some.injEq, Prod.mk.injEq] at hw hwf
      obtain ⟨hfile, horacle⟩ := hw
      obtain ⟨hwfv, husv⟩ := hwf _ rfl
      -- the root is a group
      cases schema with
      | leaf i => simp [columnsOf] at hcols
      | group i cs =>
        have husz := footerUsizeOk_withExtras _ _ _ _ _ _ hl.footerExtra husv
        obtain ⟨ds, hds, hdok, hend, hnr, hread⟩ := readRowGroups_written_gen ⟨false, o⟩ rfl leaves l.rowGroupExtra
          hl.rowGroupExtra l.rowGroups groups 4 G hl.chunks hg (by omega) hsmall husz
          (fun e he => ho e (by rw [← horacle]; exact he))
        -- the footer
        have hfooterTV : fileMetaTV l.version ((Schema.flatten (.group i cs)).map (fun e => schemaElementTV e l.schemaExtra))
            ((groups.map (groupRows leaves)).sum) G.metas l.createdBy l.footerExtra =
            .struct (fmFields2 l.version (Schema.flatten (.group i cs)) l.schemaExtra ((groups.map (groupRows leaves)).sum) ds
              l.createdBy l.footerExtra) := by
          rw [hds]
          rfl
        rw [hfooterTV] at hwfv hfile
        have hdec := decodeStruct_encodeValF l.form _ hwfv
        generalize hft : encodeValF l.form (.struct (fmFields2 l.version (Schema.flatten (.group i cs)) l.schemaExtra
          ((groups.map (groupRows leaves)).sum) ds l.createdBy l.footerExtra)) = ft at hfile hdec
        -- shape of the file
        have hparts : file = fileOfParts G.bytes ft := by
          rw [← hfile]; simp [fileOfParts, List.append_assoc]
        have hflen := fileOfParts_length G.bytes ft
        rw [← hparts] at hflen
        have hsplit := splitFile_fileOfParts G.bytes ft (by omega)
        rw [← hparts] at hsplit
        have hfile' : magic ++ G.bytes ++ (ft ++ File.leBytes 4 ft.length ++ magic) = file := by
          rw [hparts]; simp [fileOfParts, List.append_assoc]
        obtain ⟨q, hq⟩ := hread magic (ft ++ File.leBytes 4 ft.length ++ magic) (4 + G.bytes.length) 4 rfl (by omega)
          (by rw [hfile']; exact hlen)
        rw [hfile'] at hq
        have hsum : ((ds.map RgDesc2.meta').map (·.numRows)).sum = (groups.map (groupRows leaves)).sum := by
          have : (ds.map RgDesc2.meta').map (·.numRows) = ds.map (·.numRows) := by
            simp [List.map_map, RgDesc2.meta', Function.comp_def]
          rw [this, hnr]
        unfold File.read readWith
        simp only [hsplit, bind, Except.bind, pure, Except.pure, parseFooter, hdec,
          fileMetaOf_fmFields2 _ _ _ _ _ _ _ hl.footerExtra hl.schemaExtra hdok,
          schemaOf_flatten i cs hne, hcols, hq, hsum]
        simp

end Carquet.Proofs.SpecFile
