import Carquet.Proofs.DeltaBits
import Carquet.Proofs.DeltaVarint
/-
The Impl decoder (model of the repaired delta.c) is correct for the grammar at geometry 128/4:
every well-formed `Spec.Delta.Stream` with that geometry, a count that fits `int32_t` and frames
of reference that fit `int64_t`, followed by any bytes, decodes to the values it denotes, and
`bytes_consumed` is the length of the stream.
-/
namespace Carquet.Impl.Delta
open Carquet.Spec.Delta (Stream Block Geometry fits packMinis pack packedSize ulebEncode zigzagEnc blocksWf totalDeltas)

/-! the Impl copies of the bit-string functions are the Spec ones -/

theorem bitsOfNat_eq (w n : Nat) : bitsOfNat w n = Spec.Delta.bitsOfNat w n := by
  induction w generalizing n with
  | zero => rfl
  | succ w ih => simp [bitsOfNat, Spec.Delta.bitsOfNat, ih]

theorem natOfBits_eq (l : List Bool) : natOfBits l = Spec.Delta.natOfBits l := by
  induction l with
  | nil => rfl
  | cons b bs ih => simp [natOfBits, Spec.Delta.natOfBits, ih]

theorem bytesOfBits_eq (n : Nat) (l : List Bool) : bytesOfBits n l = Spec.Delta.bytesOfBits n l := by
  induction n generalizing l with
  | zero => rfl
  | succ n ih => simp [bytesOfBits, Spec.Delta.bytesOfBits, ih, natOfBits_eq]

theorem bitsOfBytes_eq (bs : List UInt8) : bitsOfBytes bs = Spec.Delta.bitsOfBytes bs := by
  simp [bitsOfBytes, Spec.Delta.bitsOfBytes, bitsOfNat_eq]

theorem unpackNat_eq (w n : Nat) (l : List Bool) : unpackNat w n l = Spec.Delta.unpackBits w n l := by
  induction n generalizing l with
  | zero => rfl
  | succ n ih => simp [unpackNat, Spec.Delta.unpackBits, ih, natOfBits_eq]

theorem unpackBits_eq (w n : Nat) (bytes : List UInt8) :
    unpackBits w n bytes = (Spec.Delta.unpack w n bytes).map (BitVec.ofNat 64) := by
  simp [unpackBits, Spec.Delta.unpack, unpackNat_eq, bitsOfBytes_eq]

theorem bitsOfNat_mod (w : Nat) : ∀ n : Nat, Spec.Delta.bitsOfNat w n = Spec.Delta.bitsOfNat w (n % 2 ^ w) := by
  induction w with
  | zero => intro n; rfl
  | succ w ih =>
    intro n
    simp only [Spec.Delta.bitsOfNat]
    have h1 : n % 2 ^ (w + 1) % 2 = n % 2 := by
      rw [Nat.pow_succ, Nat.mul_comm, Nat.mod_mul_right_mod]
    have h2 : n % 2 ^ (w + 1) / 2 = (n / 2) % 2 ^ w := by
      rw [Nat.pow_succ, Nat.mul_comm, Nat.mod_mul_right_div_self]
    rw [h1, h2, ← ih (n / 2)]

theorem packBits_eq (w : Nat) (vals : List (BitVec 64)) :
    packBits w vals = pack w (vals.map (fun v => v.toNat % 2 ^ w)) := by
  unfold packBits pack packedSize
  simp only [List.length_map, bytesOfBits_eq]
  congr 1
  simp only [bitsOfNat_eq]
  induction vals with
  | nil => rfl
  | cons v vs ih =>
    simp only [List.flatMap_cons, List.map_cons, ih]
    rw [← bitsOfNat_mod]

/-! running sums in the 64-bit register -/

def sums (L : BitVec 64) : List (BitVec 64) → List (BitVec 64)
  | [] => []
  | x :: xs => (L + x) :: sums (L + x) xs

def sumLast (L : BitVec 64) : List (BitVec 64) → BitVec 64
  | [] => L
  | x :: xs => sumLast (L + x) xs

theorem sums_append (L : BitVec 64) (a b : List (BitVec 64)) :
    sums L (a ++ b) = sums L a ++ sums (sumLast L a) b := by
  induction a generalizing L with
  | nil => rfl
  | cons x xs ih => simp [sums, sumLast, ih]

theorem sumLast_append (L : BitVec 64) (a b : List (BitVec 64)) :
    sumLast L (a ++ b) = sumLast (sumLast L a) b := by
  induction a generalizing L with
  | nil => rfl
  | cons x xs ih => simp [sumLast, ih]

@[simp] theorem length_sums (L : BitVec 64) (a : List (BitVec 64)) : (sums L a).length = a.length := by
  induction a generalizing L with
  | nil => rfl
  | cons x xs ih => simp [sums, ih]

/-! the decoding loop -/

theorem decodeLoop_add (pre : Bool) (a b : Nat) (d : Dec) :
    decodeLoop pre (a + b) d =
      match decodeLoop pre a d with
      | .error s => .error s
      | .ok (vs, d') =>
        match decodeLoop pre b d' with
        | .error s => .error s
        | .ok (ws, d'') => .ok (vs ++ ws, d'') := by
  induction a generalizing d with
  | zero =>
    simp only [Nat.zero_add, decodeLoop]
    cases decodeLoop pre b d with
    | error s => rfl
    | ok p => rfl
  | succ a ih =>
    rw [Nat.succ_add]
    simp only [decodeLoop]
    cases next pre d with
    | error s => rfl
    | ok p =>
      obtain ⟨v, d1⟩ := p
      simp only [ih]
      cases decodeLoop pre a d1 with
      | error s => rfl
      | ok q =>
        obtain ⟨vs, d2⟩ := q
        simp only
        cases decodeLoop pre b d2 with
        | error s => rfl
        | ok r => rfl

/-- handing out buffered deltas -/
theorem decodeLoop_drain (pre : Bool) (ps : List (BitVec 64)) : ∀ (d : Dec) (qs : List (BitVec 64)),
    d.pending = ps ++ qs → 1 ≤ d.valuesDecoded → d.valuesDecoded + ps.length ≤ d.totalValues →
    decodeLoop pre ps.length d =
      .ok (sums d.lastValue ps, { d with pending := qs, lastValue := sumLast d.lastValue ps,
                                         valuesDecoded := d.valuesDecoded + ps.length }) := by
  induction ps with
  | nil =>
    intro d qs hp _ _
    simp only [List.nil_append] at hp
    simp [decodeLoop, sums, sumLast, ← hp]
  | cons p ps ih =>
    intro d qs hp h1 hT
    simp only [List.length_cons] at hT ⊢
    simp only [decodeLoop, next]
    rw [if_neg (by omega), if_neg (by omega)]
    simp only [hp, List.cons_append, popDelta]
    rw [ih _ qs rfl (by simp) (by simp; omega)]
    simp only [sums, sumLast, Except.ok.injEq, Prod.mk.injEq, true_and]
    simp [Nat.add_assoc, Nat.add_comm 1]

/-- one miniblock's data, width list in place -/
theorem readMiniData_pack (d : Dec) (w : UInt8) (ws : List UInt8) (vals : List Nat) (tail : List UInt8)
    (hbs : d.blockSize = 128) (hmb : d.miniBlocksPerBlock = 4)
    (hrest : d.rest = pack w.toNat vals ++ tail) (hlen : vals.length = 32) (hw : w.toNat ≤ 64)
    (hfit : ∀ v ∈ vals, v < 2 ^ w.toNat) :
    readMiniData false d w ws = .ok { d with
      pending := vals.map (fun a => d.minDelta + BitVec.ofNat 64 a),
      rest := tail, pos := d.pos + (pack w.toNat vals).length, widthsLeft := ws } := by
  unfold readMiniData
  rw [hbs, hmb]
  by_cases h0 : w.toNat = 0
  · rw [if_pos h0]
    have hz : vals = List.replicate 32 0 := by
      rw [List.eq_replicate_iff]
      refine ⟨hlen, fun v hv => ?_⟩
      have := hfit v hv
      rw [h0] at this
      omega
    rw [h0] at hrest
    simp only [Spec.Delta.pack_zero, List.nil_append] at hrest
    simp only [h0, Spec.Delta.pack_zero, List.length_nil, Nat.add_zero, ← hrest]
    subst hz
    simp
  · rw [if_neg h0, if_pos (by right; exact ⟨by simp, hw⟩)]
    have hpl : (pack w.toNat vals).length = (128 / 4 * w.toNat + 7) / 8 := by
      rw [Spec.Delta.length_pack, hlen]; rfl
    rw [if_neg (by rw [hrest, List.length_append, hpl]; omega)]
    rw [hrest, ← hpl, List.take_left' rfl, List.drop_left' rfl, unpackBits_eq]
    have hu := Spec.Delta.unpack_pack w.toNat vals [] hfit
    rw [hlen, List.append_nil] at hu
    rw [show (128 / 4 : Nat) = 32 from rfl, hu]
    simp [List.map_map, Function.comp_def]

theorem packMinis_nil (vpm : Nat) (ws : List UInt8) : packMinis vpm ws [] = [] := by
  cases ws <;> simp [packMinis]

/-- after a refill the next value comes from the refilled state -/
theorem decodeLoop_refill (j : Nat) (d d0 : Dec) (hp : d.pending = [])
    (hr : readMiniBlock false d = .ok d0) (hp0 : d0.pending ≠ [])
    (hv : d0.valuesDecoded = d.valuesDecoded) (ht : d0.totalValues = d.totalValues)
    (h1 : 1 ≤ d.valuesDecoded) :
    decodeLoop false (j + 1) d = decodeLoop false (j + 1) d0 := by
  have hn : next false d = next false d0 := by
    unfold next
    rw [hv, ht]
    by_cases hT : d.totalValues ≤ d.valuesDecoded
    · rw [if_pos hT, if_pos hT]
    · rw [if_neg hT, if_neg hT, if_neg (by omega), if_neg (by omega)]
      rw [hp, hr]
      cases hq : d0.pending with
      | nil => exact absurd hq hp0
      | cons x xs => rfl
  simp only [decodeLoop, hn]

/-- the needed miniblocks of one block, block header already read -/
theorem decodeLoop_minis (md : BitVec 64) (tail : List UInt8) (ws : List UInt8) :
    ∀ (xs : List Nat) (m : Nat) (d : Dec),
      d.pending = [] → d.widthsLeft = ws → d.rest = packMinis 32 ws xs ++ tail →
      d.blockSize = 128 → d.miniBlocksPerBlock = 4 → d.minDelta = md →
      1 ≤ d.valuesDecoded → d.valuesDecoded + m ≤ d.totalValues →
      fits 32 ws xs → xs.length % 32 = 0 → m ≤ xs.length → xs.length < m + 32 →
      decodeLoop false m d =
        .ok (sums d.lastValue ((xs.take m).map (fun a => md + BitVec.ofNat 64 a)),
             { d with pending := (xs.drop m).map (fun a => md + BitVec.ofNat 64 a),
                      rest := tail, pos := d.pos + (packMinis 32 ws xs).length,
                      widthsLeft := ws.drop (xs.length / 32),
                      lastValue := sumLast d.lastValue ((xs.take m).map (fun a => md + BitVec.ofNat 64 a)),
                      valuesDecoded := d.valuesDecoded + m }) := by
  induction ws with
  | nil =>
    intro xs m d hp hwl hrest _ _ _ _ _ hf _ hm _
    simp only [fits] at hf
    subst hf
    have : m = 0 := by simpa using hm
    subst this
    simp only [packMinis, List.nil_append] at hrest
    obtain ⟨rest, pos, bs, mb, tv, vd, fv, lv, mdl, wl, pend⟩ := d
    simp only at hp hwl hrest
    subst hp hwl hrest
    simp [decodeLoop, sums, sumLast, packMinis]
  | cons w ws ih =>
    intro xs m d hp hwl hrest hbs hmb hmd h1 hT hf hmod hm hlt
    by_cases hx : xs = []
    · subst hx
      have : m = 0 := by simpa using hm
      subst this
      simp only [packMinis_nil, List.nil_append] at hrest
      obtain ⟨rest, pos, bs, mb, tv, vd, fv, lv, mdl, wl, pend⟩ := d
      simp only at hp hwl hrest
      subst hp hwl hrest
      simp [decodeLoop, sums, sumLast, packMinis_nil]
    · have hlen : 32 ≤ xs.length := by
        have hpos : 0 < xs.length := List.length_pos_iff.mpr hx
        exact Nat.le_of_dvd hpos (Nat.dvd_of_mod_eq_zero hmod)
      simp only [fits] at hf
      rcases hf with hf | ⟨hw, hfit, hfrest⟩
      · exact absurd hf hx
      have htake : (xs.take 32).length = 32 := by simp [List.length_take, Nat.min_eq_left hlen]
      have hrest' : d.rest = pack w.toNat (xs.take 32) ++ (packMinis 32 ws (xs.drop 32) ++ tail) := by
        rw [hrest]; simp [packMinis, hx]
      have hrd := readMiniData_pack d w ws (xs.take 32) _ hbs hmb hrest' htake hw hfit
      have hrb : readMiniBlock false d = readMiniData false d w ws := by
        unfold readMiniBlock; rw [hwl]
      rw [hrd] at hrb
      obtain ⟨m', rfl⟩ : ∃ m', m = m' + 1 := ⟨m - 1, by omega⟩
      rw [decodeLoop_refill m' d _ hp hrb (by
            simp only [ne_eq, List.map_eq_nil_iff]
            intro h; rw [h] at htake; simp at htake) rfl rfl h1]
      have hpm : (packMinis 32 (w :: ws) xs).length =
          (pack w.toNat (xs.take 32)).length + (packMinis 32 ws (xs.drop 32)).length := by
        simp [packMinis, hx]
      by_cases hle : m' + 1 ≤ 32
      · -- the last needed miniblock
        have hxl : xs.length = 32 := by omega
        have hxt : xs.take 32 = xs := List.take_of_length_le (by omega)
        have hxd : xs.drop 32 = [] := List.drop_eq_nil_of_le (by omega)
        have hj : ((xs.take (m' + 1)).map (fun a => md + BitVec.ofNat 64 a)).length = m' + 1 := by
          simp [List.length_take]; omega
        have := decodeLoop_drain false ((xs.take (m' + 1)).map (fun a => md + BitVec.ofNat 64 a))
          { d with pending := (xs.take 32).map (fun a => d.minDelta + BitVec.ofNat 64 a),
                   rest := packMinis 32 ws (xs.drop 32) ++ tail,
                   pos := d.pos + (pack w.toNat (xs.take 32)).length, widthsLeft := ws }
          ((xs.drop (m' + 1)).map (fun a => md + BitVec.ofNat 64 a))
          (by simp only [hxt, hmd, ← List.map_append, List.take_append_drop])
          (by simpa using h1) (by simp only [hj]; exact hT)
        rw [hj] at this
        rw [this, hpm, hxd, packMinis_nil, hxl]
        simp
      · -- a full miniblock, then the rest
        have hsplit : m' + 1 = 32 + (m' + 1 - 32) := by omega
        rw [hsplit, decodeLoop_add]
        have hj : ((xs.take 32).map (fun a => md + BitVec.ofNat 64 a)).length = 32 := by
          rw [List.length_map, htake]
        have h32 := decodeLoop_drain false ((xs.take 32).map (fun a => md + BitVec.ofNat 64 a))
          { d with pending := (xs.take 32).map (fun a => d.minDelta + BitVec.ofNat 64 a),
                   rest := packMinis 32 ws (xs.drop 32) ++ tail,
                   pos := d.pos + (pack w.toNat (xs.take 32)).length, widthsLeft := ws }
          [] (by simp [hmd]) (by simpa using h1) (by simp only [hj]; omega)
        rw [hj] at h32
        rw [h32]
        simp only
        have e1 := ih (xs.drop 32) (m' + 1 - 32)
          { d with pending := [], rest := packMinis 32 ws (xs.drop 32) ++ tail,
                   pos := d.pos + (pack w.toNat (xs.take 32)).length, widthsLeft := ws,
                   lastValue := sumLast d.lastValue ((xs.take 32).map (fun a => md + BitVec.ofNat 64 a)),
                   valuesDecoded := d.valuesDecoded + 32 }
          rfl rfl rfl hbs hmb hmd (by simp only; omega) (by simp only; omega) hfrest
              (by rw [List.length_drop]; omega) (by rw [List.length_drop]; omega)
              (by rw [List.length_drop]; omega)
        simp only at e1
        rw [e1]
        simp only [Except.ok.injEq, Prod.mk.injEq]
        have htk : xs.take (32 + (m' + 1 - 32)) = xs.take 32 ++ (xs.drop 32).take (m' + 1 - 32) := by
          rw [List.take_add]
        have hdiv : xs.length / 32 = (xs.length - 32) / 32 + 1 := by omega
        constructor
        · rw [htk, List.map_append, sums_append]
        · rw [htk, List.map_append, sumLast_append, hpm, List.length_drop, hdiv, List.drop_drop]
          simp only [List.drop_succ_cons, Dec.mk.injEq, true_and, and_true]
          constructor <;> omega

open Carquet.Spec.Delta (inI64)

theorem readBlock_header (d : Dec) (md : Int) (widths body : List UInt8) (hmd : inI64 md)
    (hmb : d.miniBlocksPerBlock = 4) (hw : widths.length = 4)
    (hrest : d.rest = ulebEncode (zigzagEnc md) ++ (widths ++ body)) :
    readBlock d = .ok { d with minDelta := BitVec.ofInt 64 md, widthsLeft := widths, rest := body,
                               pos := d.pos + (ulebEncode (zigzagEnc md)).length + 4 } := by
  unfold readBlock
  have hne : d.rest ≠ [] := by
    rw [hrest]; intro h
    exact Spec.Delta.ulebEncode_ne_nil _ (List.append_eq_nil_iff.mp h).1
  rw [if_neg hne, hrest, readUleb128_ulebEncode _ _ (zigzagEnc_lt md hmd.1 hmd.2)]
  simp only
  rw [List.drop_left' rfl, hmb, if_neg (by simp [hw])]
  rw [← hw, List.take_left' rfl, List.drop_left' rfl, zigzagDecode64_zigzagEnc md hmd.1 hmd.2]

theorem next_after_header (d dh : Dec) (hp : d.pending = []) (hwl : d.widthsLeft = [])
    (hrb : readBlock d = .ok dh) (hwh : dh.widthsLeft ≠ []) (hph : dh.pending = [])
    (hv : dh.valuesDecoded = d.valuesDecoded) (ht : dh.totalValues = d.totalValues)
    (h1 : 1 ≤ d.valuesDecoded) :
    next false d = next false dh := by
  have : readMiniBlock false d = readMiniBlock false dh := by
    unfold readMiniBlock
    rw [hwl, hrb]
    simp only
    cases h : dh.widthsLeft with
    | nil => exact absurd h hwh
    | cons w ws => rfl
  unfold next
  rw [hv, ht, hp, hph, this]
  by_cases hT : d.totalValues ≤ d.valuesDecoded
  · rw [if_pos hT, if_pos hT]
  · rw [if_neg hT, if_neg hT, if_neg (by omega), if_neg (by omega)]

def bdeltas (b : Block) : List (BitVec 64) :=
  b.adj.map (fun a => BitVec.ofInt 64 b.minDelta + BitVec.ofNat 64 a)

/-- the decoder state after the values of block `b` have been handed out -/
def afterBlock (d : Dec) (b : Block) (tail : List UInt8) : Dec :=
  { d with pending := b.pad.map (fun a => BitVec.ofInt 64 b.minDelta + BitVec.ofNat 64 a),
           rest := tail, pos := d.pos + (b.bytes ⟨128, 4⟩).length,
           widthsLeft := b.widths.drop ((b.adj.length + b.pad.length) / 32),
           lastValue := sumLast d.lastValue (bdeltas b),
           valuesDecoded := d.valuesDecoded + b.adj.length,
           minDelta := BitVec.ofInt 64 b.minDelta }

/-- one block: header, then as many miniblocks as the `adj.length` values asked for need -/
theorem decodeLoop_block (b : Block) (tail : List UInt8) (d : Dec)
    (hwf : b.wf ⟨128, 4⟩) (hmd : inI64 b.minDelta)
    (hp : d.pending = []) (hwl : d.widthsLeft = [])
    (hrest : d.rest = b.bytes ⟨128, 4⟩ ++ tail)
    (hbs : d.blockSize = 128) (hmb : d.miniBlocksPerBlock = 4)
    (h1 : 1 ≤ d.valuesDecoded) (hT : d.valuesDecoded + b.adj.length ≤ d.totalValues) :
    decodeLoop false b.adj.length d =
      .ok (sums d.lastValue (bdeltas b), afterBlock d b tail) := by
  unfold afterBlock
  obtain ⟨hw4, hapos, _, hmod, _, hfits, _⟩ := hwf
  have hvpm : Geometry.vpm ⟨128, 4⟩ = 32 := rfl
  simp only [hvpm] at hmod hfits hw4
  have hw4' : b.widths.length = 4 := hw4
  have hrest' : d.rest = ulebEncode (zigzagEnc b.minDelta) ++ (b.widths ++ (packMinis 32 b.widths (b.adj ++ b.pad) ++ tail)) := by
    rw [hrest]; simp [Block.bytes, hvpm]
  have hrb := readBlock_header d b.minDelta b.widths _ hmd hmb hw4' hrest'
  obtain ⟨m', hm'⟩ : ∃ m', b.adj.length = m' + 1 := ⟨b.adj.length - 1, by omega⟩
  have hwne : b.widths ≠ [] := by
    intro h; rw [h] at hw4'; simp at hw4'
  have hn := next_after_header d _ hp hwl hrb (by simpa using hwne) (by simpa using hp) rfl rfl h1
  have hloop : decodeLoop false b.adj.length d = decodeLoop false b.adj.length
      { d with minDelta := BitVec.ofInt 64 b.minDelta, widthsLeft := b.widths,
               rest := packMinis 32 b.widths (b.adj ++ b.pad) ++ tail,
               pos := d.pos + (ulebEncode (zigzagEnc b.minDelta)).length + 4 } := by
    rw [hm']; simp only [decodeLoop, hn]
  rw [hloop]
  have := decodeLoop_minis (BitVec.ofInt 64 b.minDelta) tail b.widths (b.adj ++ b.pad) b.adj.length
    { d with minDelta := BitVec.ofInt 64 b.minDelta, widthsLeft := b.widths,
             rest := packMinis 32 b.widths (b.adj ++ b.pad) ++ tail,
             pos := d.pos + (ulebEncode (zigzagEnc b.minDelta)).length + 4 }
    (by simpa using hp) rfl rfl hbs hmb rfl h1 hT hfits (by simpa using hmod) (by simp) (by simp; omega)
  rw [this]
  simp only [List.take_left', List.drop_left', bdeltas, Block.bytes, hvpm, List.length_append, hw4']
  simp only [Except.ok.injEq, Prod.mk.injEq, true_and, Dec.mk.injEq, and_true]
  omega

/-- all blocks of a stream -/
theorem decodeLoop_blocks (blocks : List Block) :
    ∀ (tail : List UInt8) (d : Dec), blocksWf ⟨128, 4⟩ blocks → (∀ b ∈ blocks, inI64 b.minDelta) →
      d.pending = [] → d.widthsLeft = [] →
      d.rest = blocks.flatMap (Block.bytes ⟨128, 4⟩) ++ tail →
      d.blockSize = 128 → d.miniBlocksPerBlock = 4 →
      1 ≤ d.valuesDecoded → d.valuesDecoded + totalDeltas blocks ≤ d.totalValues →
      ∃ d', decodeLoop false (totalDeltas blocks) d = .ok (sums d.lastValue (blocks.flatMap bdeltas), d') ∧
            d'.pos = d.pos + (blocks.flatMap (Block.bytes ⟨128, 4⟩)).length := by
  induction blocks with
  | nil =>
    intro tail d _ _ _ _ _ _ _ _ _
    exact ⟨d, by simp [totalDeltas, decodeLoop, sums], by simp⟩
  | cons b bs ih =>
    intro tail d hwf hmd hp hwl hrest hbs hmb h1 hT
    have hbwf : b.wf ⟨128, 4⟩ := by
      cases bs with
      | nil => exact hwf
      | cons b' bs' => exact hwf.1
    have htot : totalDeltas (b :: bs) = b.adj.length + totalDeltas bs := by simp [totalDeltas]
    rw [htot] at hT ⊢
    rw [decodeLoop_add]
    have hrest' : d.rest = b.bytes ⟨128, 4⟩ ++ (bs.flatMap (Block.bytes ⟨128, 4⟩) ++ tail) := by
      rw [hrest]; simp
    rw [decodeLoop_block b _ d hbwf (hmd b (by simp)) hp hwl hrest' hbs hmb h1 (by omega)]
    simp only
    cases bs with
    | nil =>
      refine ⟨afterBlock d b (([] : List Block).flatMap (Block.bytes ⟨128, 4⟩) ++ tail), ?_, ?_⟩
      · simp [totalDeltas, decodeLoop]
      · simp [afterBlock]
    | cons b' bs' =>
      obtain ⟨_, hfull, hwf'⟩ := hwf
      obtain ⟨hw4, _, _, hmod, hpad, _, _⟩ := hbwf
      have hvpm : Geometry.vpm ⟨128, 4⟩ = 32 := rfl
      rw [hvpm] at hmod hpad
      have hfull' : b.adj.length = 128 := hfull
      have hpad0 : b.pad = [] := by
        apply List.eq_nil_of_length_eq_zero; omega
      have hw4' : b.widths.length = 4 := hw4
      have := ih tail (afterBlock d b ((b' :: bs').flatMap (Block.bytes ⟨128, 4⟩) ++ tail))
        hwf' (fun x hx => hmd x (by simp [hx])) (by simp [afterBlock, hpad0])
        (by simp only [afterBlock, hpad0, hfull', List.length_nil]
            exact List.drop_eq_nil_of_le (by omega))
        rfl hbs hmb (by simp only [afterBlock]; omega) (by simp only [afterBlock]; omega)
      obtain ⟨d', hd', hpos⟩ := this
      refine ⟨d', ?_, ?_⟩
      · rw [hd']
        simp [afterBlock, List.flatMap_cons, sums_append]
      · rw [hpos]; simp [afterBlock, List.flatMap_cons]; omega

/-- what the API and the 64-bit registers can hold -/
def Stream.fitsApi (s : Stream) : Prop :=
  s.count ≤ 2147483647 ∧ inI64 s.first ∧ ∀ b ∈ s.blocks, inI64 b.minDelta

theorem blocksWf_minDelta (g : Geometry) (bs : List Block) (h : blocksWf g bs) : ∀ b ∈ bs, inI64 b.minDelta := by
  induction bs with
  | nil => intro b hb; simp at hb
  | cons b bs ih =>
    intro x hx
    cases bs with
    | nil =>
      simp only [List.mem_singleton] at hx
      subst hx
      exact h.2.2.2.2.2.2
    | cons b' bs' =>
      simp only [List.mem_cons] at hx
      rcases hx with rfl | hx
      · exact h.1.2.2.2.2.2.2
      · exact ih h.2.2 x (by simpa using hx)

/-- a well-formed stream fits the API as soon as its count fits `int32_t` -/
theorem fitsApi_of_wf (s : Stream) (h : s.wf) (hc : s.count ≤ 2147483647) : Stream.fitsApi s :=
  ⟨hc, h.2.2.2.2.2.2, blocksWf_minDelta s.geom s.blocks h.2.1⟩

theorem drop_len_append (a b : List UInt8) : (a ++ b).drop a.length = b := List.drop_left' rfl

theorem init_header (s : Stream) (rest : List UInt8) (hg : s.geom = ⟨128, 4⟩)
    (hc : s.count ≤ 2147483647) (hf : inI64 s.first) :
    init (s.header ++ rest) = .ok
      { rest := rest, pos := s.header.length, blockSize := 128, miniBlocksPerBlock := 4,
        totalValues := s.count, valuesDecoded := 0, firstValue := BitVec.ofInt 64 s.first,
        lastValue := BitVec.ofInt 64 s.first, minDelta := 0#64, widthsLeft := [], pending := [] } := by
  unfold init Stream.header
  rw [hg]
  simp only [List.append_assoc]
  rw [readUleb128_ulebEncode 128 _ (by decide)]
  simp only
  have e128 : (BitVec.ofNat 64 128).toNat = 128 := by decide
  have e4 : (BitVec.ofNat 64 4).toNat = 4 := by decide
  rw [e128, if_neg (by decide), drop_len_append, readUleb128_ulebEncode 4 _ (by decide)]
  simp only
  rw [e4]
  rw [if_neg (by decide), if_neg (by decide), if_neg (by decide), if_neg (by decide), if_neg (by decide)]
  have d2 : ∀ (a b c : List UInt8), (a ++ (b ++ c)).drop (a.length + b.length) = c := by
    intro a b c; rw [← List.drop_drop, drop_len_append, drop_len_append]
  rw [d2, readUleb128_ulebEncode s.count _ (by omega)]
  simp only
  have ec : (BitVec.ofNat 64 s.count).toNat = s.count := by
    rw [BitVec.toNat_ofNat, Nat.mod_eq_of_lt (by omega)]
  rw [ec, if_neg (by omega)]
  have d3 : ∀ (a b c e : List UInt8), (a ++ (b ++ (c ++ e))).drop (a.length + b.length + c.length) = e := by
    intro a b c e; rw [← List.drop_drop, d2, drop_len_append]
  rw [d3, readUleb128_ulebEncode _ _ (zigzagEnc_lt s.first hf.1 hf.2)]
  simp only
  have d4 : ∀ (a b c e f : List UInt8),
      (a ++ (b ++ (c ++ (e ++ f)))).drop (a.length + b.length + c.length + e.length) = f := by
    intro a b c e f; rw [← List.drop_drop, d3, drop_len_append]
  rw [d4, zigzagDecode64_zigzagEnc s.first hf.1 hf.2]
  simp [List.length_append, Nat.add_assoc]

/-- the 64-bit values the Impl decoder produces for a stream -/
def implValues (s : Stream) : List (BitVec 64) :=
  if s.count = 0 then [] else BitVec.ofInt 64 s.first :: sums (BitVec.ofInt 64 s.first) (s.blocks.flatMap bdeltas)

/-- Main lemma: the Impl decoder on a well-formed 128/4 stream followed by any bytes. -/
theorem decodeV_stream (s : Stream) (tail : List UInt8) (hwf : s.wf) (hg : s.geom = ⟨128, 4⟩)
    (hapi : Stream.fitsApi s) :
    decodeV false (s.bytes ++ tail) s.count = .ok (implValues s, s.bytes.length) := by
  obtain ⟨_, hb, hc, _⟩ := hwf
  obtain ⟨hcnt, hfirst, hmds⟩ := hapi
  unfold decodeV Stream.bytes
  rw [List.append_assoc, init_header s _ hg hcnt hfirst]
  simp only
  rw [hg] at hb
  rcases hc with hc | ⟨hc, hnil⟩
  · have hR : s.count = 1 + totalDeltas s.blocks := by omega
    rw [hR, decodeLoop_add]
    have hfirst1 : ∀ d : Dec, d.valuesDecoded = 0 → 0 < d.totalValues →
        decodeLoop false 1 d = .ok ([d.firstValue], { d with valuesDecoded := 1 }) := by
      intro d h0 hT
      simp only [decodeLoop, next]
      rw [if_neg (by omega), if_pos h0]
    rw [hfirst1 _ rfl (by simp only; omega)]
    simp only
    have := decodeLoop_blocks s.blocks tail
      { rest := s.blocks.flatMap (Block.bytes s.geom) ++ tail, pos := s.header.length, blockSize := 128,
        miniBlocksPerBlock := 4, totalValues := 1 + totalDeltas s.blocks, valuesDecoded := 1,
        firstValue := BitVec.ofInt 64 s.first, lastValue := BitVec.ofInt 64 s.first, minDelta := 0#64,
        widthsLeft := [], pending := [] }
      hb hmds rfl rfl (by rw [hg]) rfl rfl (by simp) (by simp only; omega)
    obtain ⟨d', hd', hpos⟩ := this
    rw [hd']
    simp only [Except.ok.injEq, Prod.mk.injEq]
    constructor
    · simp [implValues, hR]
    · rw [hpos, hg]; simp [List.length_append]
  · rw [hc, hnil]
    simp [decodeLoop, implValues, hc]

/-! from the 64-bit register values to the values the stream denotes -/

theorem ofInt_wrap (W : Nat) (x : Int) : BitVec.ofInt W (Spec.Delta.wrap W x) = BitVec.ofInt W x := by
  apply BitVec.eq_of_toNat_eq
  simp only [BitVec.toNat_ofInt, Spec.Delta.wrap]
  rw [Int.bmod_emod]

theorem truncate_ofInt (W : Nat) (h : W ≤ 64) (x : Int) :
    BitVec.truncate W (BitVec.ofInt 64 x) = BitVec.ofInt W x := by
  apply BitVec.eq_of_toNat_eq
  simp only [BitVec.truncate_eq_setWidth, BitVec.toNat_setWidth, BitVec.toNat_ofInt]
  have hdvd : ((2 ^ W : Nat) : Int) ∣ ((2 ^ 64 : Nat) : Int) := by
    refine Int.natCast_dvd_natCast.mpr ?_
    exact Nat.pow_dvd_pow 2 h
  have hpos : (0 : Int) ≤ x % ((2 ^ 64 : Nat) : Int) := Int.emod_nonneg _ (by
    have := Nat.two_pow_pos 64; omega)
  have := Int.emod_emod_of_dvd x hdvd
  rw [← this]
  obtain ⟨n, hn⟩ := Int.eq_ofNat_of_zero_le hpos
  rw [hn, Int.toNat_natCast, ← Int.natCast_emod, Int.toNat_natCast]

theorem truncate_sums (W : Nat) (h : W ≤ 64) (L : BitVec 64) (x : Int) (hL : BitVec.truncate W L = BitVec.ofInt W x)
    (ds : List Int) :
    (sums L (ds.map (BitVec.ofInt 64))).map (BitVec.truncate W) =
      (Spec.Delta.accum W x ds).map (BitVec.ofInt W) := by
  induction ds generalizing L x with
  | nil => rfl
  | cons d ds ih =>
    simp only [List.map_cons, sums, Spec.Delta.accum]
    have hstep : BitVec.truncate W (L + BitVec.ofInt 64 d) = BitVec.ofInt W (Spec.Delta.wrap W (x + d)) := by
      rw [ofInt_wrap, BitVec.ofInt_add, ← hL, ← truncate_ofInt W h d]
      simp only [BitVec.truncate_eq_setWidth]
      exact BitVec.setWidth_add L (BitVec.ofInt 64 d) h
    rw [hstep, ih _ _ hstep]

theorem bdeltas_eq (b : Block) : bdeltas b = b.deltas.map (BitVec.ofInt 64) := by
  simp only [bdeltas, Block.deltas, List.map_map]
  apply List.map_congr_left
  intro a _
  simp [BitVec.ofInt_add]

theorem flatMap_bdeltas (bs : List Block) :
    bs.flatMap bdeltas = (bs.flatMap Block.deltas).map (BitVec.ofInt 64) := by
  induction bs with
  | nil => rfl
  | cons b bs ih => simp [List.flatMap_cons, ih, bdeltas_eq]

/-- the register values, narrowed to the column width, are the values the stream denotes -/
theorem implValues_truncate (W : Nat) (h : W ≤ 64) (s : Stream) :
    (implValues s).map (BitVec.truncate W) = (s.values W).map (BitVec.ofInt W) := by
  unfold implValues Stream.values
  by_cases hc : s.count = 0
  · simp [hc]
  · rw [if_neg hc, if_neg hc]
    simp only [List.map_cons]
    have h0 : BitVec.truncate W (BitVec.ofInt 64 s.first) = BitVec.ofInt W (Spec.Delta.wrap W s.first) := by
      rw [ofInt_wrap, truncate_ofInt W h]
    rw [h0, flatMap_bdeltas, truncate_sums W h _ _ h0]

end Carquet.Impl.Delta
