import Carquet.Spec.Kernels
import Carquet.Impl.Simd
import Carquet.Gen.Dispatch
/-
C15 helper lemmas: the byte-at-a-time table step of `scalar_crc32c` (dispatch.c) equals eight
shifts of the Castagnoli LFSR.  Same argument as C14's `Proofs/Crc32{Linear,Table}.lean` (the LFSR
step is GF(2)-linear whatever the polynomial is), re-proved here for `Spec.Kernels.crcStep1`
(polynomial 0x82F63B78) so that the two components stay independent.
-/
namespace Carquet.Proofs.SimdCrc
open Carquet.Spec.Kernels

/-- n-fold application -/
def iter {α : Type} (f : α → α) : Nat → α → α
  | 0, x => x
  | n + 1, x => iter f n (f x)

theorem step1_of_low_false {c : BitVec 32} (h : c.getLsbD 0 = false) : crcStep1 c = c >>> 1 := by
  unfold crcStep1; rw [h]; rfl

private theorem xor_cancel_rr (x y p : BitVec 32) : (x ^^^ p) ^^^ (y ^^^ p) = x ^^^ y := by
  ext i hi; simp only [BitVec.getElem_xor]; cases x[i] <;> cases y[i] <;> cases p[i] <;> rfl
private theorem xor_cancel_r (x y p : BitVec 32) : x ^^^ (y ^^^ p) = (x ^^^ y) ^^^ p := by
  ext i hi; simp only [BitVec.getElem_xor]; cases x[i] <;> cases y[i] <;> cases p[i] <;> rfl
private theorem xor_cancel_l (x y p : BitVec 32) : (x ^^^ p) ^^^ y = (x ^^^ y) ^^^ p := by
  ext i hi; simp only [BitVec.getElem_xor]; cases x[i] <;> cases y[i] <;> cases p[i] <;> rfl

/-- the zero-input LFSR step is GF(2)-linear -/
theorem step1_xor (a b : BitVec 32) : crcStep1 (a ^^^ b) = crcStep1 a ^^^ crcStep1 b := by
  unfold crcStep1
  rw [BitVec.getLsbD_xor]
  cases ha : a.getLsbD 0 <;> cases hb : b.getLsbD 0 <;>
    simp only [Bool.xor_false, Bool.xor_true, Bool.not_true, Bool.not_false, if_true, if_false,
      Bool.false_eq_true, BitVec.ushiftRight_xor_distrib]
  · exact (xor_cancel_r _ _ _).symm
  · exact (xor_cancel_l _ _ _).symm
  · exact (xor_cancel_rr _ _ _).symm

theorem step8_eq_iter (c : BitVec 32) : crcStep8 c = iter crcStep1 8 c := rfl

theorem iter_step1_xor (n : Nat) (a b : BitVec 32) :
    iter crcStep1 n (a ^^^ b) = iter crcStep1 n a ^^^ iter crcStep1 n b := by
  induction n generalizing a b with
  | zero => rfl
  | succ n ih => simp [iter, step1_xor, ih]

/-- if the low `n` bits are zero, `n` LFSR steps are a plain shift -/
theorem iter_step1_of_low_zero (n : Nat) (c : BitVec 32) (h : ∀ k, k < n → c.getLsbD k = false) :
    iter crcStep1 n c = c >>> n := by
  induction n generalizing c with
  | zero => simp [iter]
  | succ n ih =>
    have h0 : c.getLsbD 0 = false := h 0 (by omega)
    rw [iter, step1_of_low_false h0, ih, ← BitVec.shiftRight_add, Nat.add_comm]
    intro k hk
    rw [BitVec.getLsbD_ushiftRight]
    exact h (1 + k) (by omega)

theorem step8_xor (a b : BitVec 32) : crcStep8 (a ^^^ b) = crcStep8 a ^^^ crcStep8 b := by
  simp only [step8_eq_iter, iter_step1_xor]

theorem getLsbD_ff (i : Nat) : (0xFF#32).getLsbD i = decide (i < 8) := by
  have : (0xFF#32) = BitVec.ofNat 32 (2 ^ 8 - 1) := rfl
  rw [this, BitVec.getLsbD_ofNat, Nat.testBit_two_pow_sub_one]
  by_cases h : i < 8
  · have : i < 32 := by omega
    simp [h, this]
  · simp [h]

/-- a register = its low byte xor the rest -/
theorem split_low_byte (c : BitVec 32) : c = (c &&& 0xFF#32) ^^^ ((c >>> 8) <<< 8) := by
  apply BitVec.eq_of_getLsbD_eq
  intro i hi
  simp only [BitVec.getLsbD_xor, BitVec.getLsbD_and, getLsbD_ff, BitVec.getLsbD_shiftLeft,
    BitVec.getLsbD_ushiftRight]
  by_cases h : i < 8
  · simp [h]
  · have : 8 + (i - 8) = i := by omega
    simp [h, hi, this]

theorem shl8_shr8 (x : BitVec 32) : ((x >>> 8) <<< 8) >>> 8 = x >>> 8 := by
  apply BitVec.eq_of_getLsbD_eq
  intro i hi
  simp only [BitVec.getLsbD_shiftLeft, BitVec.getLsbD_ushiftRight]
  by_cases h : 8 + i < 32
  · have : 8 + (8 + i - 8) = 8 + i := by omega
    simp [h]
  · have : x.getLsbD (8 + i) = false := BitVec.getLsbD_of_ge _ _ (by omega)
    simp [h, this]

/-- the table-driven byte update: eight LFSR steps = (eight steps of the low byte) xor (c >> 8) -/
theorem step8_split (c : BitVec 32) : crcStep8 c = crcStep8 (c &&& 0xFF#32) ^^^ (c >>> 8) := by
  conv => lhs; rw [split_low_byte c]
  rw [step8_xor]
  congr 1
  rw [step8_eq_iter, iter_step1_of_low_zero, shl8_shr8]
  intro k hk
  simp [BitVec.getLsbD_shiftLeft]; omega

/-- a zero-extended byte has nothing above bit 7 -/
theorem byte_shr8 (b : UInt8) : (b.toBitVec.setWidth 32) >>> 8 = 0#32 := by
  apply BitVec.eq_of_getLsbD_eq
  intro i hi
  simp only [BitVec.getLsbD_ushiftRight, BitVec.getLsbD_setWidth, BitVec.getLsbD_zero]
  simp

theorem and_ff_lt (x : BitVec 32) : (x &&& 0xFF#32).toNat < 256 := by
  rw [BitVec.toNat_and]
  exact Nat.lt_of_le_of_lt Nat.and_le_right (by decide)

/-- one iteration of the loop of `scalar_crc32c`, for any table whose 256 entries are eight LFSR
steps of their index -/
def tableStep (table : List Nat) (c : BitVec 32) (b : UInt8) : BitVec 32 :=
  BitVec.ofNat 32 (table.getD ((c ^^^ b.toBitVec.setWidth 32) &&& 0xFF#32).toNat 0) ^^^ (c >>> 8)

theorem tableStep_eq_crcByte (table : List Nat)
    (ht : ∀ i : Fin 256, table[i.val]? = some (crcStep8 (BitVec.ofNat 32 i.val)).toNat)
    (c : BitVec 32) (b : UInt8) : tableStep table c b = crcByte c b := by
  unfold tableStep crcByte
  have hlt := and_ff_lt (c ^^^ b.toBitVec.setWidth 32)
  have hi := ht ⟨_, hlt⟩
  simp only at hi
  rw [List.getD_eq_getElem?_getD, hi, Option.getD_some]
  rw [BitVec.ofNat_toNat, BitVec.setWidth_eq, BitVec.ofNat_toNat, BitVec.setWidth_eq]
  rw [step8_split (c ^^^ b.toBitVec.setWidth 32), BitVec.ushiftRight_xor_distrib, byte_shr8]
  simp

theorem scalarCrc32c_eq (table : List Nat)
    (ht : ∀ i : Fin 256, table[i.val]? = some (crcStep8 (BitVec.ofNat 32 i.val)).toNat)
    (crc : BitVec 32) (data : List UInt8) :
    Carquet.Impl.Simd.scalarCrc32c table crc data = crc32c crc data := by
  unfold Carquet.Impl.Simd.scalarCrc32c crc32c
  congr 1
  generalize ~~~crc = c
  induction data generalizing c with
  | nil => rfl
  | cons b bs ih =>
    simp only [List.foldl_cons]
    have := tableStep_eq_crcByte table ht c b
    unfold tableStep at this
    rw [this]
    exact ih _

end Carquet.Proofs.SimdCrc
