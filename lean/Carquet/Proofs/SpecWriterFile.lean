import Carquet.Proofs.SpecWriterChunk
import Carquet.Proofs.SpecWriterFooter
import Carquet.Proofs.SpecWriterRun
/-
Schema, row-group and whole-file stages of `Spec.File.read` on a file the writer model reports
complete, over the abstract facts of `RunFacts` (Proofs/SpecWriterRun.lean): the column chunks lie
inside `[4, footer)`, tile it exactly in file order (strict tiling), every chunk's bytes are the
pages of its records, the rows of every chunk are the row group's `num_rows`, and the file's
`num_rows` is their sum.
-/
namespace Carquet.Proofs.SpecWriter
open Carquet.Impl Carquet.Impl.Writer Carquet.Impl.FileReal
open Carquet.Spec Carquet.Spec.File
open Carquet.Proofs.WriterTable Carquet.Proofs.WriterPages Carquet.Proofs.WriterLayout Carquet.Proofs.SpecFile

/-! ### schema stage -/

/-- what the schema must satisfy (flat REQUIRED / OPTIONAL / REPEATED columns): a
FIXED_LEN_BYTE_ARRAY column has a positive length -/
structure ColOk (c : Col) : Prop where
  flbaLen : c.ptype = .flba → 0 < c.typeLen

/-- a column that is not REPEATED (hypothesis of the statements not yet lifted to REPEATED columns) -/
def ColFlat (c : Col) : Prop := c.rep ≠ .repeated

instance (c : Col) : Decidable (ColFlat c) := by unfold ColFlat; exact inferInstance

theorem maxRep_of_flat {c : Col} (h : ColFlat c) : c.maxRep = 0 := by
  simp [Col.maxRep, ColFlat] at h ⊢; exact h

theorem maxRep_lt (c : Col) : c.maxRep < 2 ^ 32 := by
  unfold Col.maxRep; split <;> decide

theorem maxDef_le_one (c : Col) : c.maxDef < 2 ^ 32 := by
  unfold Col.maxDef; split <;> decide

theorem groupsNonEmptyList_leaves (cols : List Col) : Schema.groupsNonEmptyList (cols.map specLeafNode) = true := by
  induction cols with
  | nil => rfl
  | cons c cs ih => simp [Schema.groupsNonEmptyList, Schema.groupsNonEmpty, specLeafNode, ih]

theorem schemaOf_written (cols : List Col) (hne : cols ≠ []) :
    schemaOf (Schema.flatten (specSchemaOf cols)) = .ok (specSchemaOf cols) := by
  unfold specSchemaOf
  apply schemaOf_flatten
  simp only [Schema.groupsNonEmpty, groupsNonEmptyList_leaves, Bool.and_true]
  cases cols with
  | nil => exact absurd rfl hne
  | cons c cs => rfl

theorem ptypeOf_code (t : PType) : ptypeOf t.code = some (specPType t) := by cases t <;> rfl

theorem leafInfosOf_leaf (c : Col) (h : ColOk c) :
    leafInfosOf (specLeafNode c) 0 0 [] = .ok [leafOf c] := by
  have hfl := h.flbaLen
  unfold specLeafNode
  rw [leafInfosOf]
  simp only [Option.bind_some, ptypeOf_code]
  have hcond : ¬ ((c.typeLen : Int) < 0 ∨ (specPType c.ptype = .flba ∧ (c.typeLen : Int) = 0)) := by
    intro hc
    rcases hc with hc | ⟨h1, h2⟩
    · omega
    · have : c.ptype = .flba := by cases hp : c.ptype <;> simp [hp, specPType] at h1 ⊢
      have := hfl this
      omega
  simp only [hcond, if_false]
  have hd : Schema.defInc (some (specRep c.rep)) = c.maxDef := by
    cases hr : c.rep <;> simp [specRep, Schema.defInc, Col.maxDef, hr]
  have hr : Schema.repInc (some (specRep c.rep)) = c.maxRep := by
    cases hr : c.rep <;> simp [specRep, Schema.repInc, Col.maxRep, hr]
  simp [leafOf, hd, hr]

theorem leafInfosOfList_leaves : ∀ (cols : List Col), (∀ c ∈ cols, ColOk c) →
    leafInfosOfList (cols.map specLeafNode) 0 0 [] = .ok (cols.map leafOf)
  | [], _ => by simp [leafInfosOfList]
  | c :: cs, h => by
    have ih := leafInfosOfList_leaves cs (fun x hx => h x (by simp [hx]))
    simp only [List.map_cons, leafInfosOfList, leafInfosOf_leaf c (h c (by simp)), ih]
    simp

theorem columnsOf_written (cols : List Col) (hne : cols ≠ []) (h : ∀ c ∈ cols, ColOk c) :
    columnsOf (specSchemaOf cols) = .ok (cols.map leafOf) := by
  unfold specSchemaOf columnsOf
  have : (cols.map specLeafNode).isEmpty = false := by cases cols <;> simp at hne ⊢
  simp [this, leafInfosOfList_leaves cols h]

/-! ### chunks of one row group -/

theorem sumRows_eq_rows {o : FileReal.Oracle} {codec : Nat} {c : Col} : ∀ (ps : List PageRec),
    (∀ r ∈ ps, PageFacts o codec c r) → sumRows ps = (pagesData ps).rows
  | [], _ => rfl
  | r :: ps, h => by
    have ih := sumRows_eq_rows ps (fun x hx => h x (by simp [hx]))
    have hr := pageFacts_rows (h r (by simp))
    simp only [sumRows, pagesData, List.map_cons, List.sum_cons] at ih ⊢
    rw [ih, hr]

theorem groupBytes_cons (D : Deps) (ps : List PageRec) (pss : List (List PageRec)) :
    groupBytes D (ps :: pss) = pagesBytes D ps ++ groupBytes D pss := by
  simp [groupBytes]

theorem drop_take_middle' {α : Type} (a b c : List α) (n : Nat) (hn : n = a.length) :
    ((a ++ b ++ c).drop n).take b.length = b := by
  subst hn
  rw [List.append_assoc, List.drop_left, List.take_left]

theorem ptypeCode_spec (t : PType) : ptypeCode (specPType t) = t.code := by cases t <;> rfl

/-- zip-style: the content of every chunk of a row group begins with repetition level 0 -/
def FirstZip : List Col → List (List PageRec) → Prop
  | c :: cs, p :: ps => FirstRepZero c (pagesData p) ∧ FirstZip cs ps
  | _, _ => True

/-- zip-style: every chunk of a row group holds `n` rows -/
def RecsZip (n : Nat) : List Col → List (List PageRec) → Prop
  | c :: cs, p :: ps => (pagesData p).recs c.maxRep = n ∧ RecsZip n cs ps
  | _, _ => True

theorem firstZip_of_zip : ∀ (cols : List Col) (pss : List (List PageRec)),
    (∀ cd ∈ List.zip cols (pss.map pagesData), FirstRepZero cd.1 cd.2) → FirstZip cols pss
  | [], _, _ => by simp [FirstZip]
  | _ :: _, [], _ => by simp [FirstZip]
  | c :: cs, p :: ps, h => by
    refine ⟨h (c, pagesData p) (by simp), firstZip_of_zip cs ps (fun cd hcd => h cd ?_)⟩
    simp only [List.map_cons, List.zip_cons_cons, List.mem_cons]
    exact Or.inr hcd

theorem recsZip_of_zip (n : Nat) : ∀ (cols : List Col) (pss : List (List PageRec)),
    (∀ x ∈ List.zipWith (fun (c : Col) (d : ColData) => d.recs c.maxRep) cols (pss.map pagesData), x = n) →
    RecsZip n cols pss
  | [], _, _ => by simp [RecsZip]
  | _ :: _, [], _ => by simp [RecsZip]
  | c :: cs, p :: ps, h => by
    refine ⟨h _ (by simp), recsZip_of_zip n cs ps (fun x hx => h x ?_)⟩
    simp only [List.map_cons, List.zipWith_cons_cons, List.mem_cons]
    exact Or.inr hx

theorem readChunks_written (o : FileReal.Oracle) (cfg : Config) (hstrict : cfg.strictTiling = true) (codec : Nat)
    (hcodec : codec = 0 ∨ codec = 1 ∨ codec = 5 ∨ codec = 7) (footerStart : Nat) :
    ∀ (cols : List Col) (ms : List ChunkMeta) (pss : List (List PageRec)) (pos : Nat) (pre post : List UInt8),
      (∀ c ∈ cols, ColOk c) → AllChunks (deps o) codec ms pss → ChunksAt ms pos → ChunksFor codec cols ms →
      GroupOf (deps o) codec cols pss → GroupP (goodPred o) cols pss → (∀ ps ∈ pss, ∀ r ∈ ps, PageSmall r) →
      FirstZip cols pss →
      pre.length = pos → 4 ≤ pos → pos + (groupBytes (deps o) pss).length ≤ footerStart →
      readChunks cfg (pre ++ groupBytes (deps o) pss ++ post) footerStart (cols.map leafOf) (ms.map cmOf) pos =
        .ok (List.zipWith specChunkOf cols (pss.map pagesData), pos + (groupBytes (deps o) pss).length)
  | [], [], [], pos, pre, post, _, _, _, _, _, _, _, _, _, _, _ => by
    simp [readChunks, groupBytes]
  | c :: cs, m :: ms, ps :: pss, pos, pre, post, hcols, hall, hat, hfor, hof, hgood, hsmall, hfz, hpre, h4, hfs => by
    obtain ⟨⟨m1, m2, m3, m4, m5⟩, hall'⟩ := hall
    obtain ⟨a1, hat'⟩ := hat
    obtain ⟨⟨f1, f2, _⟩, hfor'⟩ := hfor
    obtain ⟨o1, hof'⟩ := hof
    obtain ⟨g1, hgood'⟩ := hgood
    have hck := hcols c (by simp)
    have hfacts : ∀ r ∈ ps, PageFacts o codec c r := fun r hr =>
      ⟨o1 r hr, m5 r hr, g1 r hr, hsmall ps (by simp) r hr⟩
    rw [groupBytes_cons] at hfs ⊢
    simp only [List.length_append] at hfs
    have ih := readChunks_written o cfg hstrict codec hcodec footerStart cs ms pss (pos + m.totalCompressed)
      (pre ++ pagesBytes (deps o) ps) post (fun x hx => hcols x (by simp [hx])) hall' hat' hfor' hof' hgood'
      (fun x hx => hsmall x (by simp [hx])) hfz.2 (by simp [hpre, m2]) (by omega) (by rw [m2]; omega)
    have hchunk := readChunk_written o cfg codec hcodec c (maxRep_lt c) (maxDef_le_one c) ps hfacts hfz.1 (cmOf m)
      rfl m4 rfl m1 pos
    have hfile : pre ++ (pagesBytes (deps o) ps ++ groupBytes (deps o) pss) ++ post =
        pre ++ pagesBytes (deps o) ps ++ (groupBytes (deps o) pss ++ post) := by simp [List.append_assoc]
    have hfile2 : pre ++ (pagesBytes (deps o) ps ++ groupBytes (deps o) pss) ++ post =
        pre ++ pagesBytes (deps o) ps ++ groupBytes (deps o) pss ++ post := by simp [List.append_assoc]
    have hslice : ((pre ++ (pagesBytes (deps o) ps ++ groupBytes (deps o) pss) ++ post).drop pos).take
        (pagesBytes (deps o) ps).length = pagesBytes (deps o) ps := by
      rw [hfile]; exact drop_take_middle' _ _ _ _ hpre.symm
    have hcs : chunkStart (cmOf m) = pos := by simp [chunkStart, cmOf, a1]
    have htc : (cmOf m).totalCompressed = (pagesBytes (deps o) ps).length := by simp [cmOf, m2]
    have htu : (cmOf m).totalUncompressed = sumUsize (deps o) ps := by simp [cmOf, m3]
    have husize := chunkUsize_written o cfg codec hcodec c ps ((pagesBytes (deps o) ps).length + 1)
      (by have := pages_le_bytes ps hfacts; omega) hfacts
    have hpt : (cmOf m).ptype = ptypeCode (leafOf c).ptype := by simp [cmOf, leafOf, ptypeCode_spec, f1]
    have hpath : (cmOf m).path = (leafOf c).path.map File.strBytes := by simp [cmOf, leafOf, f2]
    simp only [List.map_cons, List.zipWith_cons_cons]
    unfold readChunks
    simp only [hcs, htc, htu, hpt, hpath, hstrict, Bool.true_and, bind, Except.bind, pure, Except.pure, ne_eq,
      not_true_eq_false, if_false, Nat.lt_irrefl, decide_false, Bool.false_eq_true, gt_iff_lt]
    have hin : ¬ (pos < 4 ∨ footerStart < pos + (pagesBytes (deps o) ps).length) := by omega
    simp only [hin, if_false, hslice, hchunk, husize, not_true_eq_false]
    rw [m2] at ih
    rw [hfile2, ih]
    simp [Nat.add_assoc]
  | [], _ :: _, _, _, _, _, _, _, _, hfor, _, _, _, _, _, _, _ => by simp [ChunksFor] at hfor
  | _ :: _, [], _, _, _, _, _, _, _, hfor, _, _, _, _, _, _, _ => by simp [ChunksFor] at hfor
  | [], [], _ :: _, _, _, _, _, hall, _, _, _, _, _, _, _, _, _ => by simp [AllChunks] at hall
  | _ :: _, _ :: _, [], _, _, _, _, hall, _, _, _, _, _, _, _, _, _ => by simp [AllChunks] at hall

/-! ### row groups -/

/-- the row group the reader returns for the page records of a written row group -/
def groupTable (cols : List Col) (g : List (List PageRec)) : RowGroup :=
  ⟨List.zipWith specChunkOf cols (g.map pagesData)⟩

theorem dataBytes_cons (D : Deps) (g : List (List PageRec)) (gs : List (List (List PageRec))) :
    dataBytes D (g :: gs) = groupBytes D g ++ dataBytes D gs := by
  simp [dataBytes]

theorem chunksSize_eq_groupBytes (D : Deps) (codec : Nat) : ∀ (ms : List ChunkMeta) (pss : List (List PageRec)),
    AllChunks D codec ms pss → chunksSize ms = (groupBytes D pss).length
  | [], [], _ => by simp [chunksSize, groupBytes]
  | m :: ms, ps :: pss, h => by
    have ih := chunksSize_eq_groupBytes D codec ms pss h.2
    have := h.1.2.1
    simp only [chunksSize, List.map_cons, List.sum_cons] at ih ⊢
    rw [groupBytes_cons, List.length_append, ih, this]
  | [], _ :: _, h => by simp [AllChunks] at h
  | _ :: _, [], h => by simp [AllChunks] at h

/-- the rows the reader counts in a chunk are the rows of the column's content -/
theorem rowsOf_specChunkOf {o : FileReal.Oracle} {codec : Nat} {c : Col} (ps : List PageRec)
    (h : ∀ r ∈ ps, PageFacts o codec c r) :
    rowsOf (leafOf c).maxRep (specChunkOf c (pagesData ps)) = (pagesData ps).recs c.maxRep := by
  obtain ⟨l1, l2⟩ := specReps_pagesData_length ps h
  have hlen := specChunkOf_pagesData_length ps h
  rw [sumRows_eq_rows ps h] at hlen
  have hmap := specEntriesR_reps c.maxDef (specReps c (pagesData ps)) (specDefs c (pagesData ps)) (pagesData ps).vals
    (l1.trans l2.symm)
  have hmr : (leafOf c).maxRep = c.maxRep := rfl
  unfold rowsOf ColData.recs
  rw [hmr]
  by_cases h0 : c.maxRep = 0
  · simp [h0, hlen]
  · simp only [h0, if_false]
    have hr : specReps c (pagesData ps) = (pagesData ps).reps := by simp [specReps, h0]
    rw [hr] at hmap
    have hcount : ∀ es : List Entry,
        (es.filter (fun e => e.rep == 0)).length = ((es.map (·.rep)).filter (· == 0)).length := by
      intro es
      induction es with
      | nil => rfl
      | cons e es ih =>
        simp only [List.filter_cons, List.map_cons]
        by_cases he : e.rep = 0 <;> simp [he, ih]
    unfold specChunkOf
    rw [hcount, hr, hmap]

/-- the rows of every chunk of a written row group are the row group's `num_rows` -/
theorem rows_check (o : FileReal.Oracle) (codec : Nat) (n : Nat) :
    ∀ (cols : List Col) (ms : List ChunkMeta) (pss : List (List PageRec)),
      AllChunks (deps o) codec ms pss →
      GroupOf (deps o) codec cols pss → GroupP (goodPred o) cols pss → (∀ ps ∈ pss, ∀ r ∈ ps, PageSmall r) →
      RecsZip n cols pss →
      (List.zipWith (fun (l : LeafInfo) ch => rowsOf l.maxRep ch == n) (cols.map leafOf)
        (List.zipWith specChunkOf cols (pss.map pagesData))).all id = true
  | [], _, _, _, _, _, _, _ => by simp
  | _ :: _, _, [], _, _, _, _, _ => by simp
  | c :: cs, [], _ :: _, hall, _, _, _, _ => by simp [AllChunks] at hall
  | c :: cs, m :: ms, ps :: pss, hall, hof, hgood, hsmall, hrows => by
    have ih := rows_check o codec n cs ms pss hall.2 hof.2 hgood.2
      (fun x hx => hsmall x (by simp [hx])) hrows.2
    have hfacts : ∀ r ∈ ps, PageFacts o codec c r := fun r hr =>
      ⟨hof.1 r hr, hall.1.2.2.2.2 r hr, hgood.1 r hr, hsmall ps (by simp) r hr⟩
    have h1 : (rowsOf (leafOf c).maxRep (specChunkOf c (pagesData ps)) == n) = true := by
      rw [rowsOf_specChunkOf ps hfacts, hrows.1]; simp
    simp only [List.map_cons, List.zipWith_cons_cons, List.all_cons, ih, Bool.and_true, id, h1]

theorem readRowGroups_written (o : FileReal.Oracle) (cfg : Config) (hstrict : cfg.strictTiling = true) (codec : Nat)
    (hcodec : codec = 0 ∨ codec = 1 ∨ codec = 5 ∨ codec = 7) (footerStart : Nat) (cols : List Col)
    (hcols : ∀ c ∈ cols, ColOk c) :
    ∀ (gms : List RgMeta) (gs : List (List (List PageRec))) (pos : Nat) (pre post : List UInt8),
      AllGroups (deps o) codec gms gs → GroupsAt gms pos → (∀ g ∈ gms, ChunksFor codec cols g.chunks) →
      (∀ g ∈ gs, GroupOf (deps o) codec cols g) → (∀ g ∈ gs, GroupP (goodPred o) cols g) → RowsZip cols gms gs →
      (∀ g ∈ gs, RecsZip (firstRecs cols (g.map pagesData)) cols g) → (∀ g ∈ gs, FirstZip cols g) →
      (∀ g ∈ gs, ∀ ps ∈ g, ∀ r ∈ ps, PageSmall r) →
      pre.length = pos → 4 ≤ pos → pos + (dataBytes (deps o) gs).length ≤ footerStart →
      readRowGroups cfg (pre ++ dataBytes (deps o) gs ++ post) footerStart (cols.map leafOf) (gms.map rgMetaOf) pos =
        .ok (gs.map (groupTable cols), pos + (dataBytes (deps o) gs).length)
  | [], [], pos, pre, post, _, _, _, _, _, _, _, _, _, _, _, _ => by
    simp [readRowGroups, dataBytes]
  | gm :: gms, g :: gs, pos, pre, post, hall, hat, hfor, hof, hgood, hrz, hal, hfz, hsmall, hpre, h4, hfs => by
    obtain ⟨hall1, hall'⟩ := hall
    obtain ⟨_, a2, a3, a4, hat'⟩ := hat
    obtain ⟨z1, hrz'⟩ := hrz
    have hsz := chunksSize_eq_groupBytes (deps o) codec gm.chunks g hall1
    rw [dataBytes_cons] at hfs ⊢
    simp only [List.length_append] at hfs
    have ih := readRowGroups_written o cfg hstrict codec hcodec footerStart cols hcols gms gs (pos + gm.totalCompressed)
      (pre ++ groupBytes (deps o) g) post hall' hat' (fun x hx => hfor x (by simp [hx]))
      (fun x hx => hof x (by simp [hx])) (fun x hx => hgood x (by simp [hx])) hrz'
      (fun x hx => hal x (by simp [hx])) (fun x hx => hfz x (by simp [hx])) (fun x hx => hsmall x (by simp [hx]))
      (by simp [hpre, a3, hsz]) (by omega) (by rw [a3, hsz]; omega)
    have hchunks := readChunks_written o cfg hstrict codec hcodec footerStart cols gm.chunks g pos pre
      (dataBytes (deps o) gs ++ post) hcols hall1 a2 (hfor gm (by simp)) (hof g (by simp)) (hgood g (by simp))
      (hsmall g (by simp)) (hfz g (by simp)) hpre h4 (by omega)
    have hrows := rows_check o codec gm.numRows cols gm.chunks g hall1 (hof g (by simp)) (hgood g (by simp))
      (hsmall g (by simp)) (by rw [z1]; exact hal g (by simp))
    have hf1 : pre ++ (groupBytes (deps o) g ++ dataBytes (deps o) gs) ++ post =
        pre ++ groupBytes (deps o) g ++ (dataBytes (deps o) gs ++ post) := by simp [List.append_assoc]
    have hf2 : pre ++ (groupBytes (deps o) g ++ dataBytes (deps o) gs) ++ post =
        pre ++ groupBytes (deps o) g ++ dataBytes (deps o) gs ++ post := by simp [List.append_assoc]
    rw [a3, hsz] at ih
    simp only [List.map_cons]
    unfold readRowGroups
    simp only [rgMetaOf, bind, Except.bind, pure, Except.pure]
    rw [hf1, hchunks]
    have hbs : ((gm.chunks.map cmOf).map (·.totalUncompressed)).sum = gm.totalByteSize := by
      rw [a4, List.map_map]; rfl
    simp only [hrows, Bool.not_true, Bool.false_eq_true, if_false, hbs, ne_eq, not_true_eq_false]
    rw [← hf1, hf2, ih]
    simp [groupTable, Nat.add_assoc]
  | [], _ :: _, _, _, _, hall, _, _, _, _, _, _, _, _, _, _, _ => by simp [AllGroups] at hall
  | _ :: _, [], _, _, _, hall, _, _, _, _, _, _, _, _, _, _, _ => by simp [AllGroups] at hall

/-! ### the whole file -/

/-- the numbers of a run fit the C types: footer within the Thrift parser's limits and the
`int64_t` / `int16_t` fields (`footerOk`), footer shorter than 4 GiB, every page's body, stored body
and row count below 2^31 -/
structure RunSmall (md : FooterData) (gs : List (List (List PageRec))) : Prop where
  footer : Carquet.Proofs.FileRealFooter.footerOk md = true
  footerLen : (FileReal.footer md).length < 2 ^ 32
  pages : ∀ g ∈ gs, ∀ ps ∈ g, ∀ r ∈ ps, PageSmall r

/-- **whole-file stage**: over the facts of a completed run, the independent reader (strict tiling)
returns the table the history denotes -/
theorem read_written (o : FileReal.Oracle) (codec : Nat) (hcodec : codec = 0 ∨ codec = 1 ∨ codec = 5 ∨ codec = 7)
    (cols : List Col) (hne : cols ≠ []) (hcols : ∀ c ∈ cols, ColOk c) (ops : List Op) (createdBy : String)
    (file : List UInt8) (md : FooterData) (gs : List (List (List PageRec)))
    (hf : RunFacts (deps o) (goodPred o) cols codec createdBy ops file md gs)
    (hal : ∀ g ∈ tableOf cols ops, ∀ n ∈ List.zipWith (fun (c : Col) (d : ColData) => d.recs c.maxRep) cols g,
      n = firstRecs cols g)
    (hfirst : ∀ g ∈ tableOf cols ops, ∀ cd ∈ List.zip cols g, FirstRepZero cd.1 cd.2)
    (hsm : RunSmall md gs) (oracle : File.Oracle) :
    File.read file (strictTiling := true) (oracle := oracle) = .ok (specTableOf cols ops) := by
  -- the envelope
  have hfile : file = fileOfParts (dataBytes (deps o) gs) (FileReal.footer md) := by
    rw [hf.file_eq, le32_eq_leBytes]; rfl
  have hsplit := splitFile_fileOfParts (dataBytes (deps o) gs) (FileReal.footer md) hsm.footerLen
  rw [← hfile] at hsplit
  -- footer, schema
  have hfooter := parseFooter_written md hsm.footer
  have hschema := schemaOf_written cols hne
  have hleaves := columnsOf_written cols hne hcols
  -- alignment of the rows of the columns of a row group
  have hmem : ∀ g ∈ gs, g.map pagesData ∈ tableOf cols ops := by
    intro g hg
    rw [← hf.table]; exact List.mem_map.mpr ⟨g, hg, rfl⟩
  have hal' : ∀ g ∈ gs, RecsZip (firstRecs cols (g.map pagesData)) cols g :=
    fun g hg => recsZip_of_zip _ cols g (hal _ (hmem g hg))
  have hfz : ∀ g ∈ gs, FirstZip cols g :=
    fun g hg => firstZip_of_zip cols g (hfirst _ (hmem g hg))
  -- row groups
  have hfile2 : file = File.magic ++ dataBytes (deps o) gs ++ (FileReal.footer md ++ File.leBytes 4 (FileReal.footer md).length ++ File.magic) := by
    rw [hfile]; simp [fileOfParts, List.append_assoc]
  have hrg := readRowGroups_written o ⟨true, oracle⟩ rfl codec hcodec (4 + (dataBytes (deps o) gs).length) cols hcols
    md.rowGroups gs 4 File.magic (FileReal.footer md ++ File.leBytes 4 (FileReal.footer md).length ++ File.magic)
    hf.allGroups hf.groupsAt hf.chunksFor hf.groupOf hf.groupP hf.rowsZip hal' hfz hsm.pages rfl (Nat.le_refl _) (Nat.le_refl _)
  rw [← hfile2] at hrg
  have hsum : ((md.rowGroups.map rgMetaOf).map (·.numRows)).sum = md.numRows := by
    rw [hf.numRows_eq, List.map_map]; rfl
  have htab : (⟨specSchemaOf cols, gs.map (groupTable cols)⟩ : Table) = specTableOf cols ops := by
    unfold specTableOf specRowGroupsOf
    rw [← hf.table, List.map_map]
    rfl
  unfold File.read readWith
  simp only [hsplit, bind, Except.bind, pure, Except.pure, hfooter, fileMetaOfWritten, hf.cols_eq, hschema, hleaves, hrg]
  have hsum' : (List.map ((fun x => x.numRows) ∘ rgMetaOf) md.rowGroups).sum = md.numRows := by
    rw [← List.map_map]; exact hsum
  simp [hsum', htab]

end Carquet.Proofs.SpecWriter
