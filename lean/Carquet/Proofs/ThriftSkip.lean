import Carquet.Proofs.ThriftLoop
import Carquet.Impl.ThriftParquet
/-
Container headers, nested struct parsers, and `thrift_skip` (repaired code): it consumes exactly
the encoding of any value of the given wire type, at any nesting depth within the limit.
-/
namespace Carquet.Proofs.Thrift
open Carquet.Spec.Thrift
open Carquet.Impl.Thrift

/-! ### list and map headers -/

theorem readListBegin_hdr {et : TType} {n : Nat} {hdr : List UInt8} (h : ListHdr et n hdr) (hn : n < 2 ^ 31)
    (d : Dec) (r : List UInt8) (hr : d.rest = hdr ++ r) (hlen : n ≤ r.length) :
    ∃ code, ElemCode et code ∧
      readListBegin d = ⟨code, (n : Int), d.atb r (d.pos + hdr.length) d.boolValue⟩ := by
  obtain ⟨rest, pos, lastId, bp, bv, status, ov, bud⟩ := d
  simp only at hr
  subst hr
  obtain ⟨code, hc, hh⟩ := h
  obtain ⟨_, h1, h13⟩ := elemCode_elemType hc
  refine ⟨code, hc, ?_⟩
  have h31 : (2:Nat)^31 = 2147483648 := by decide
  rw [h31] at hn
  have hnn : ¬ ((n : Int) < 0) := by omega
  rcases hh with ⟨hlt, rfl⟩ | rfl
  · have hb : (UInt8.ofNat (n * 16 + code)).toNat = n * 16 + code := u8_toNat _ (by omega)
    have e1 : (n * 16 + code) % 16 = code := by omega
    have e2 : (n * 16 + code) / 16 = n := by omega
    have e3 : ¬ n = 15 := by omega
    have hhas : lengthGe r n = true := (lengthGe_iff r n).mpr hlen
    simp only [readListBegin, shortListHdr, List.singleton_append, readByteRaw, hb, e1, e2, e3, if_false, listCountChecks,
      hnn, Int.toNat_natCast, Dec.has, hhas, Bool.not_true, Bool.false_eq_true, List.length_singleton]
    rfl
  · have hb : (UInt8.ofNat (15 * 16 + code)).toNat = 15 * 16 + code := u8_toNat _ (by omega)
    have e1 : (15 * 16 + code) % 16 = code := by omega
    have e2 : (15 * 16 + code) / 16 = 15 := by omega
    have hn64 : n < 2 ^ 64 := Nat.lt_trans hn (by decide)
    have hv := readVarint_uleb n hn64 (⟨uleb n ++ r, pos + 1, lastId, bp, bv, status, ov, bud⟩ : Dec) r rfl
    have hi : toI32 (n : Int) = n := toI32_id _ (by unfold inI32; omega)
    have hhas : lengthGe r n = true := (lengthGe_iff r n).mpr hlen
    simp only [readListBegin, longListHdr, List.cons_append, readByteRaw, hb, e1, e2, if_true, hv, hi, listCountChecks,
      hnn, if_false, Int.toNat_natCast, Dec.has, at_rest, hhas, Bool.not_true, Bool.false_eq_true, List.length_cons]
    simp only [Dec.at, Dec.atb, ListBegin.mk.injEq, true_and, Dec.mk.injEq, and_true]
    omega

theorem readMapBegin_zero (d : Dec) (r : List UInt8) (hr : d.rest = 0 :: r) :
    readMapBegin d = ⟨0, 0, 0, d.atb r (d.pos + 1) d.boolValue⟩ := by
  obtain ⟨rest, pos, lastId, bp, bv, status, ov, bud⟩ := d
  simp only at hr
  subst hr
  have h0 : (0 : UInt8).toNat = 0 := rfl
  simp [readMapBegin, readVarint, readVarintLoop, h0, readMapBeginK, toI32, Dec.atb]

theorem readMapBegin_hdr (n : Nat) (hn0 : 0 < n) (hn : n < 2 ^ 31) (kc vc : Nat) (hk : kc ≤ 13) (hv : vc ≤ 13)
    (d : Dec) (r : List UInt8) (hr : d.rest = uleb n ++ UInt8.ofNat (kc * 16 + vc) :: r) (hlen : n ≤ r.length + 1) :
    readMapBegin d = ⟨kc, vc, (n : Int), d.atb r (d.pos + (uleb n).length + 1) d.boolValue⟩ := by
  obtain ⟨rest, pos, lastId, bp, bv, status, ov, bud⟩ := d
  simp only at hr
  subst hr
  have h31 : (2:Nat)^31 = 2147483648 := by decide
  rw [h31] at hn
  have hn64 : n < 2 ^ 64 := Nat.lt_trans hn (by decide)
  have hvv := readVarint_uleb n hn64
    (⟨uleb n ++ UInt8.ofNat (kc * 16 + vc) :: r, pos, lastId, bp, bv, status, ov, bud⟩ : Dec) _ rfl
  have hi : toI32 (n : Int) = n := toI32_id _ (by unfold inI32; omega)
  have hnn : ¬ ((n : Int) < 0) := by omega
  have hn0' : ¬ ((n : Int) = 0) := by omega
  have hb : (UInt8.ofNat (kc * 16 + vc)).toNat = kc * 16 + vc := u8_toNat _ (by omega)
  have e1 : (kc * 16 + vc) / 16 = kc := by omega
  have e2 : (kc * 16 + vc) % 16 = vc := by omega
  have hhas : lengthGe (UInt8.ofNat (kc * 16 + vc) :: r) n = true := (lengthGe_iff _ n).mpr (by simp; omega)
  simp only [readMapBegin, hvv, hi, readMapBeginK, hnn, hn0', if_false, Int.toNat_natCast, Dec.has, at_rest, hhas,
    Bool.not_true, Bool.false_eq_true, readByteRaw, Dec.at, hb, e1, e2]
  simp only [Dec.atb, MapBegin.mk.injEq, true_and, Dec.mk.injEq, and_true]

/-! ### loops over elements -/

theorem repeatOk_elems (g : Dec → Dec) (k : Nat) : ∀ (xs : List TVal) (bs : List UInt8),
    (∀ x ∈ xs, ∀ b, Enc (.val x) b → Reads k (fun d => ((), g d)) b ()) → Enc (.elems xs) bs →
    Reads k (fun d => ((), repeatOk g xs.length d)) bs () := by
  intro xs
  induction xs with
  | nil =>
    intro bs _ henc d r hd
    have := enc_elems_nil henc; subst this
    exact ⟨d.boolValue, by simp only [List.length_nil, repeatOk, Nat.add_zero]; have := hd.rest; simp at this; rw [← this]; rfl⟩
  | cons x rest ih =>
    intro bs hx henc d r hd
    obtain ⟨b1, b2, rfl, h1, h2⟩ := enc_elems_cons henc
    obtain ⟨bv, e1⟩ := hx x List.mem_cons_self b1 h1 d (b2 ++ r) hd.split
    have e1' : g d = d.atb (b2 ++ r) (d.pos + b1.length) bv := by simpa using e1
    obtain ⟨bv', e2⟩ := ih b2 (fun y hy => hx y (List.mem_cons_of_mem _ hy)) h2 _ r
      (hd.split.next rfl (Nat.le_refl k) (d.pos + b1.length) bv)
    refine ⟨bv', ?_⟩
    simp only [Prod.mk.injEq, true_and] at e2
    simp only [List.length_cons, repeatOk, hd.ok, e1', e2, atb_atb, atb_pos, List.length_append, Prod.mk.injEq, true_and]
    congr 1
    omega

theorem repeatOk_kvs (g1 g2 : Dec → Dec) (k : Nat) : ∀ (kvs : List (TVal × TVal)) (bs : List UInt8),
    (∀ p ∈ kvs, ∀ b, Enc (.val p.1) b → Reads k (fun d => ((), g1 d)) b ()) →
    (∀ p ∈ kvs, ∀ b, Enc (.val p.2) b → Reads k (fun d => ((), g2 d)) b ()) → Enc (.kvs kvs) bs →
    Reads k (fun d => ((), repeatOk (fun x => g2 (g1 x)) kvs.length d)) bs () := by
  intro kvs
  induction kvs with
  | nil =>
    intro bs _ _ henc d r hd
    have := enc_kvs_nil henc; subst this
    exact ⟨d.boolValue, by simp only [List.length_nil, repeatOk, Nat.add_zero]; have := hd.rest; simp at this; rw [← this]; rfl⟩
  | cons p rest ih =>
    obtain ⟨kk, vv⟩ := p
    intro bs hk hv henc d r hd
    obtain ⟨b1, b2, b3, rfl, h1, h2, h3⟩ := enc_kvs_cons henc
    have hd1 : Ready d b1 (b2 ++ (b3 ++ r)) k := ⟨by rw [hd.rest]; simp, hd.ok, hd.nb, hd.room, hd.bud⟩
    obtain ⟨bv, e1⟩ := hk (kk, vv) List.mem_cons_self b1 h1 d _ hd1
    have e1' : g1 d = d.atb (b2 ++ (b3 ++ r)) (d.pos + b1.length) bv := by simpa using e1
    obtain ⟨bv2, e2⟩ := hv (kk, vv) List.mem_cons_self b2 h2 _ (b3 ++ r) (hd1.next rfl (Nat.le_refl k) (d.pos + b1.length) bv)
    have e2' : g2 (d.atb (b2 ++ (b3 ++ r)) (d.pos + b1.length) bv) = d.atb (b3 ++ r) (d.pos + b1.length + b2.length) bv2 := by
      simpa using e2
    obtain ⟨bv', e3⟩ := ih b3 (fun y hy => hk y (List.mem_cons_of_mem _ hy)) (fun y hy => hv y (List.mem_cons_of_mem _ hy)) h3 _ r
      ((hd1.next rfl (Nat.le_refl k) (d.pos + b1.length) bv).next (bs' := b3) (r' := r) rfl (Nat.le_refl k) (d.pos + b1.length + b2.length) bv2)
    refine ⟨bv', ?_⟩
    simp only [Prod.mk.injEq, true_and, atb_atb] at e3
    simp only [List.length_cons, repeatOk, hd.ok, e1', e2', e3, atb_atb, atb_pos, List.length_append, Prod.mk.injEq, true_and]
    congr 1
    omega

/-! ### nested struct parsers -/

theorem parseStruct_reads {σ : Type} (body : Nat → Int → Dec → σ → σ × Dec) (step : σ → Int → TVal → σ) (k : Nat)
    (init : σ) (fs : List (Int × TVal)) (bs : List UInt8) (henc : Enc (.val (.struct fs)) bs)
    (hbool : ∀ id b, (id, TVal.bool b) ∈ fs → BoolFieldOK (fun _ => True) body step k id b)
    (hval : ∀ id v, (id, v) ∈ fs → v.ty ≠ .bool → ValFieldOK (fun _ => True) body step k id v) :
    Reads (k + 1) (Carquet.Impl.ThriftParquet.parseStruct body init) bs (fs.foldl (fun s f => step s f.1 f.2) init) := by
  intro d r hd
  obtain ⟨body', rfl, hf⟩ := enc_struct_inv henc
  have hroom := hd.room
  have hsb := structBegin_ok d (by omega)
  have hlen : fs.length ≤ body'.length := enc_len hf
  have hbud := hd.bud
  rw [hd.rest] at hbud
  simp only [List.length_append, List.length_singleton] at hbud
  obtain ⟨bv, hl⟩ := fieldLoop_reads (fun _ => false) (fun _ => True) (fun _ _ => rfl) body step (fun _ _ _ _ => trivial)
    k fs 0 body' hf hbool hval d.budget
    (d.upd d.rest d.pos (0 :: d.lastId) d.boolValue) r init d.lastId trivial
    (by simp [hd.rest]) hd.ok hd.nb rfl (by omega) (by simp; rw [hd.rest]; simp; omega) (by omega)
  refine ⟨bv, ?_⟩
  unfold Carquet.Impl.ThriftParquet.parseStruct
  rw [hsb]
  simp only [upd_budget] at hl ⊢
  rw [hl]
  simp only [structEnd, upd_lastId, List.tail_cons, upd_pos, List.length_append, List.length_singleton, Prod.mk.injEq, true_and]
  simp only [Dec.upd, Dec.atb, Dec.mk.injEq, true_and, and_true]
  omega

/-! ### `thrift_skip` consumes exactly one value -/

/-- skipping `v` as a container element announced with type nibble `code`: consumes exactly an
encoding of `v` (as a field value when `code` is `v`'s own type code and `v` is not a bool) -/
def SkipOK (v : TVal) : Prop :=
  ∀ bs, Enc (.val v) bs → ∀ stk code, ElemCode v.ty code → v.depth < stk →
    Reads v.depth (fun d => ((), skipElement Cfg.fixed (skip Cfg.fixed stk) code d)) bs ()

theorem elemCode_nonbool {v : TVal} {code : Nat} (h : ElemCode v.ty code) (hnb : v.ty ≠ .bool) :
    code = v.ty.code ∧ 3 ≤ code := by
  rcases h with rfl | ⟨hb, _⟩
  · exact ⟨rfl, by cases hv : v.ty <;> simp_all [TType.code]⟩
  · exact absurd hb hnb

theorem skipElement_nonbool (sk : Nat → Dec → Dec) (code : Nat) (d : Dec) (hs : d.status = none) (h3 : 3 ≤ code) :
    skipElement Cfg.fixed sk code d = sk code d := by
  unfold skipElement
  have h1 : ¬ (code = 1 ∨ code = 2) := by omega
  simp [Cfg.fixed, hs, h1]

theorem skip_ok (cfg : Cfg) (stk ty : Nat) (d : Dec) (hs : d.status = none) :
    skip cfg (stk + 1) ty d = skipCase cfg (skip cfg stk) ty d := by
  rw [skip]; simp only [hs]
theorem skip_1 (cfg : Cfg) (stk : Nat) (d : Dec) (hs : d.status = none) :
    skip cfg (stk + 1) 1 d = { d with boolPending := false } := by rw [skip_ok _ _ _ _ hs]; simp [skipCase]
theorem skip_2 (cfg : Cfg) (stk : Nat) (d : Dec) (hs : d.status = none) :
    skip cfg (stk + 1) 2 d = { d with boolPending := false } := by rw [skip_ok _ _ _ _ hs]; simp [skipCase]
theorem skip_3 (cfg : Cfg) (stk : Nat) (d : Dec) (hs : d.status = none) :
    skip cfg (stk + 1) 3 d = d.skipFixed cfg 1 := by rw [skip_ok _ _ _ _ hs]; simp [skipCase]
theorem skip_4 (cfg : Cfg) (stk : Nat) (d : Dec) (hs : d.status = none) :
    skip cfg (stk + 1) 4 d = (readVarint d).2 := by rw [skip_ok _ _ _ _ hs]; simp [skipCase]
theorem skip_5 (cfg : Cfg) (stk : Nat) (d : Dec) (hs : d.status = none) :
    skip cfg (stk + 1) 5 d = (readVarint d).2 := by rw [skip_ok _ _ _ _ hs]; simp [skipCase]
theorem skip_6 (cfg : Cfg) (stk : Nat) (d : Dec) (hs : d.status = none) :
    skip cfg (stk + 1) 6 d = (readVarint d).2 := by rw [skip_ok _ _ _ _ hs]; simp [skipCase]
theorem skip_7 (cfg : Cfg) (stk : Nat) (d : Dec) (hs : d.status = none) :
    skip cfg (stk + 1) 7 d = d.skipFixed cfg 8 := by rw [skip_ok _ _ _ _ hs]; simp [skipCase]
theorem skip_8 (cfg : Cfg) (stk : Nat) (d : Dec) (hs : d.status = none) :
    skip cfg (stk + 1) 8 d = (readBinary d).2.2 := by rw [skip_ok _ _ _ _ hs]; simp [skipCase]
theorem skip_9 (cfg : Cfg) (stk : Nat) (d : Dec) (hs : d.status = none) :
    skip cfg (stk + 1) 9 d = skipContainer cfg (skipListBody cfg (skip cfg stk)) d := by
  rw [skip_ok _ _ _ _ hs]; simp [skipCase]
theorem skip_10 (cfg : Cfg) (stk : Nat) (d : Dec) (hs : d.status = none) :
    skip cfg (stk + 1) 10 d = skipContainer cfg (skipListBody cfg (skip cfg stk)) d := by
  rw [skip_ok _ _ _ _ hs]; simp [skipCase]
theorem skip_11 (cfg : Cfg) (stk : Nat) (d : Dec) (hs : d.status = none) :
    skip cfg (stk + 1) 11 d = skipContainer cfg (skipMapBody cfg (skip cfg stk)) d := by
  rw [skip_ok _ _ _ _ hs]; simp [skipCase]
theorem skip_12 (cfg : Cfg) (stk : Nat) (d : Dec) (hs : d.status = none) :
    skip cfg (stk + 1) 12 d = structEnd (skipFields (skip cfg stk) d.budget (structBegin d)) := by
  rw [skip_ok _ _ _ _ hs]; simp [skipCase]
theorem skip_13 (cfg : Cfg) (stk : Nat) (d : Dec) (hs : d.status = none) :
    skip cfg (stk + 1) 13 d = d.skipFixed cfg 16 := by rw [skip_ok _ _ _ _ hs]; simp [skipCase]

/-- scalars: one frame, no nesting -/
theorem skip_scalar (v : TVal) (hnb : v.ty ≠ .bool) (bs : List UInt8) (n : Nat) (hn : n = v.ty.code)
    (hsk : ∀ stk d r, Ready d bs r 0 → skip Cfg.fixed (stk + 1) n d = d.atb r (d.pos + bs.length) d.boolValue)
    (hdep : v.depth = 0) :
    ∀ stk code, ElemCode v.ty code → v.depth < stk →
      Reads v.depth (fun d => ((), skipElement Cfg.fixed (skip Cfg.fixed stk) code d)) bs () := by
  intro stk code hc hst d r hd
  obtain ⟨hcode, h3⟩ := elemCode_nonbool hc hnb
  obtain ⟨stk, rfl⟩ : ∃ s, stk = s + 1 := ⟨stk - 1, by omega⟩
  refine ⟨d.boolValue, ?_⟩
  dsimp only
  rw [skipElement_nonbool _ _ _ hd.ok h3, hcode, ← hn, hsk stk d r (by rw [hdep] at hd; exact hd)]

theorem readerSkip_append (d : Dec) (bs r : List UInt8) (h : d.rest = bs ++ r) :
    d.skipFixed Cfg.fixed bs.length = d.atb r (d.pos + bs.length) d.boolValue := by
  unfold Dec.skipFixed
  simp only [Cfg.fixed, if_true]
  rw [has_append d bs r h, if_pos rfl, advance_append d bs r h]

theorem skipContainer_fixed (body : Dec → Dec) (d : Dec) (h : d.lastId.length < maxNesting) :
    skipContainer Cfg.fixed body d = leaveContainer (body (d.upd d.rest d.pos (0 :: d.lastId) d.boolValue)) := by
  unfold skipContainer enterContainer
  simp only [Cfg.fixed, if_true, Nat.not_le.mpr h, if_false]
  rfl

mutual
theorem skip_val : ∀ v : TVal, SkipOK v
  | .bool b => by
    intro bs henc stk code hc _ d r hd
    have hcode : code = 1 ∨ code = 2 := by
      rcases hc with rfl | ⟨_, rfl⟩ <;> simp [TVal.ty, TType.code]
    have hbs : ∃ x, bs = [x] := by cases henc <;> exact ⟨_, rfl⟩
    obtain ⟨x, rfl⟩ := hbs
    refine ⟨d.boolValue, ?_⟩
    unfold skipElement
    simp only [Cfg.fixed, if_true, hd.ok, hcode, readByteRaw_cons d x r (by simpa using hd.rest), List.length_singleton]
  | .i8 v => by
    intro bs henc
    have hbs : bs = [byteOf v] := by cases henc; rfl
    subst hbs
    exact skip_scalar (.i8 v) (by simp [TVal.ty]) _ 3 rfl
      (fun stk d r hd => by rw [skip_3 _ _ _ hd.ok]; exact readerSkip_append d [byteOf v] r hd.rest) rfl
  | .i16 v => by
    intro bs henc
    have hbs : bs = uleb (zigzag v) ∧ inI16 v := by cases henc with | i16 h => exact ⟨rfl, h⟩
    obtain ⟨rfl, hv⟩ := hbs
    exact skip_scalar (.i16 v) (by simp [TVal.ty]) _ 4 rfl
      (fun stk d r hd => by
        rw [skip_4 _ _ _ hd.ok, readVarint_uleb _ (zigzag_lt v (inI64_of_inI16 hv)) d r hd.rest]; rfl) rfl
  | .i32 v => by
    intro bs henc
    have hbs : bs = uleb (zigzag v) ∧ inI32 v := by cases henc with | i32 h => exact ⟨rfl, h⟩
    obtain ⟨rfl, hv⟩ := hbs
    exact skip_scalar (.i32 v) (by simp [TVal.ty]) _ 5 rfl
      (fun stk d r hd => by
        rw [skip_5 _ _ _ hd.ok, readVarint_uleb _ (zigzag_lt v (inI64_of_inI32 hv)) d r hd.rest]; rfl) rfl
  | .i64 v => by
    intro bs henc
    have hbs : bs = uleb (zigzag v) ∧ inI64 v := by cases henc with | i64 h => exact ⟨rfl, h⟩
    obtain ⟨rfl, hv⟩ := hbs
    exact skip_scalar (.i64 v) (by simp [TVal.ty]) _ 6 rfl
      (fun stk d r hd => by
        rw [skip_6 _ _ _ hd.ok, readVarint_uleb _ (zigzag_lt v hv) d r hd.rest]; rfl) rfl
  | .double bits => by
    intro bs henc
    have hbs : bs = Carquet.Spec.Thrift.leBytes 8 bits := by cases henc; rfl
    subst hbs
    exact skip_scalar (.double bits) (by simp [TVal.ty]) _ 7 rfl
      (fun stk d r hd => by
        have := readerSkip_append d _ r hd.rest
        rw [leBytes_length] at this
        rw [skip_7 _ _ _ hd.ok, this, leBytes_length]) rfl
  | .binary b => by
    intro bs henc
    have hbs : bs = uleb b.length ++ b ∧ b.length < 2 ^ 31 := by cases henc with | binary h => exact ⟨rfl, h⟩
    obtain ⟨rfl, hb⟩ := hbs
    exact skip_scalar (.binary b) (by simp [TVal.ty]) _ 8 rfl
      (fun stk d r hd => by rw [skip_8 _ _ _ hd.ok, readBinary_spec b hb d r hd.rest]) rfl
  | .uuid b => by
    intro bs henc
    have hbs : bs = b ∧ b.length = 16 := by cases henc with | uuid h => exact ⟨rfl, h⟩
    obtain ⟨rfl, hb⟩ := hbs
    exact skip_scalar (.uuid bs) (by simp [TVal.ty]) _ 13 rfl
      (fun stk d r hd => by
        have := readerSkip_append d _ r hd.rest
        rw [hb] at this
        rw [skip_13 _ _ _ hd.ok, this, hb]) rfl
  | .list et xs => by
    intro bs henc stk code hc hst d r hd
    obtain ⟨hcode, h3⟩ := elemCode_nonbool hc (by simp [TVal.ty])
    obtain ⟨stk, rfl⟩ : ∃ s, stk = s + 1 := ⟨stk - 1, by omega⟩
    obtain ⟨hdr, body, rfl, hlen, hty, hh, he⟩ := enc_list_inv henc
    have hroom := hd.room
    simp only [TVal.depth] at hroom hst
    have hblen : xs.length ≤ body.length := enc_len he
    have hr0 : (d.upd d.rest d.pos (0 :: d.lastId) d.boolValue).rest = hdr ++ (body ++ r) := by simp [hd.rest]
    obtain ⟨ec, hec, hlb⟩ := readListBegin_hdr hh hlen _ (body ++ r) hr0 (by simp; omega)
    have hbud := hd.bud
    rw [hd.rest] at hbud
    simp only [List.length_append] at hbud
    have hrd : Ready ((d.upd d.rest d.pos (0 :: d.lastId) d.boolValue).atb (body ++ r) (d.pos + hdr.length) d.boolValue)
        body r (depthElems xs) :=
      ⟨rfl, hd.ok, hd.nb, by simp; omega, by simp; omega⟩
    obtain ⟨bv, hrep⟩ := repeatOk_elems (skipElement Cfg.fixed (skip Cfg.fixed stk) ec) (depthElems xs) xs body
      (fun x hx b hb => (skip_elems xs x hx b hb stk ec (by rw [hty x hx]; exact hec)
        (by have := depth_le_elems hx; omega)).weaken (depth_le_elems hx)) he _ r hrd
    refine ⟨bv, ?_⟩
    simp only [Prod.mk.injEq, true_and] at hrep
    dsimp only
    rw [skipElement_nonbool _ _ _ hd.ok h3, hcode]
    simp only [TVal.ty, TType.code]
    first | rw [skip_9 _ _ _ hd.ok] | rw [skip_10 _ _ _ hd.ok]
    simp only [skipContainer_fixed _ d (by unfold maxNesting at *; omega), skipListBody, hlb, Int.toNat_natCast]
    simp only [upd_pos, upd_boolValue] at hrep ⊢
    rw [hrep]
    simp only [leaveContainer, Dec.atb, Dec.upd, List.tail_cons, List.length_append, Prod.mk.injEq, true_and, Dec.mk.injEq, and_true]
    omega
  | .set et xs => by
    intro bs henc stk code hc hst d r hd
    obtain ⟨hcode, h3⟩ := elemCode_nonbool hc (by simp [TVal.ty])
    obtain ⟨stk, rfl⟩ : ∃ s, stk = s + 1 := ⟨stk - 1, by omega⟩
    obtain ⟨hdr, body, rfl, hlen, hty, hh, he⟩ := enc_set_inv henc
    have hroom := hd.room
    simp only [TVal.depth] at hroom hst
    have hblen : xs.length ≤ body.length := enc_len he
    have hr0 : (d.upd d.rest d.pos (0 :: d.lastId) d.boolValue).rest = hdr ++ (body ++ r) := by simp [hd.rest]
    obtain ⟨ec, hec, hlb⟩ := readListBegin_hdr hh hlen _ (body ++ r) hr0 (by simp; omega)
    have hbud := hd.bud
    rw [hd.rest] at hbud
    simp only [List.length_append] at hbud
    have hrd : Ready ((d.upd d.rest d.pos (0 :: d.lastId) d.boolValue).atb (body ++ r) (d.pos + hdr.length) d.boolValue)
        body r (depthElems xs) :=
      ⟨rfl, hd.ok, hd.nb, by simp; omega, by simp; omega⟩
    obtain ⟨bv, hrep⟩ := repeatOk_elems (skipElement Cfg.fixed (skip Cfg.fixed stk) ec) (depthElems xs) xs body
      (fun x hx b hb => (skip_elems xs x hx b hb stk ec (by rw [hty x hx]; exact hec)
        (by have := depth_le_elems hx; omega)).weaken (depth_le_elems hx)) he _ r hrd
    refine ⟨bv, ?_⟩
    simp only [Prod.mk.injEq, true_and] at hrep
    dsimp only
    rw [skipElement_nonbool _ _ _ hd.ok h3, hcode]
    simp only [TVal.ty, TType.code]
    first | rw [skip_9 _ _ _ hd.ok] | rw [skip_10 _ _ _ hd.ok]
    simp only [skipContainer_fixed _ d (by unfold maxNesting at *; omega), skipListBody, hlb, Int.toNat_natCast]
    simp only [upd_pos, upd_boolValue] at hrep ⊢
    rw [hrep]
    simp only [leaveContainer, Dec.atb, Dec.upd, List.tail_cons, List.length_append, Prod.mk.injEq, true_and, Dec.mk.injEq, and_true]
    omega
  | .map [] => by
    intro bs henc stk code hc hst d r hd
    obtain ⟨hcode, h3⟩ := elemCode_nonbool hc (by simp [TVal.ty])
    obtain ⟨stk, rfl⟩ : ∃ s, stk = s + 1 := ⟨stk - 1, by omega⟩
    have := enc_map_nil henc; subst this
    have hroom := hd.room
    simp only [TVal.depth] at hroom
    have hmb := readMapBegin_zero (d.upd d.rest d.pos (0 :: d.lastId) d.boolValue) r (by simp [hd.rest])
    refine ⟨d.boolValue, ?_⟩
    dsimp only
    rw [skipElement_nonbool _ _ _ hd.ok h3, hcode]
    simp only [TVal.ty, TType.code]
    rw [skip_11 _ _ _ hd.ok]
    simp only [skipContainer_fixed _ d (by unfold maxNesting at *; omega), skipMapBody, hmb, Int.toNat_zero, repeatOk]
    simp [leaveContainer, Dec.atb, Dec.upd]
  | .map ((k, v) :: rest) => by
    intro bs henc stk code hc hst d r hd
    obtain ⟨hcode, h3⟩ := elemCode_nonbool hc (by simp [TVal.ty])
    obtain ⟨stk, rfl⟩ : ∃ s, stk = s + 1 := ⟨stk - 1, by omega⟩
    obtain ⟨body, rfl, hlen, hty, he⟩ := enc_map_cons henc
    have hroom := hd.room
    simp only [TVal.depth] at hroom hst
    have hblen : (rest.length + 1) ≤ body.length := by have := enc_len he; simpa [LenP] using this
    have hkc := code_pos k.ty
    have hvc := code_pos v.ty
    have hmb := readMapBegin_hdr (rest.length + 1) (by omega) hlen k.ty.code v.ty.code hkc.2 hvc.2
      (d.upd d.rest d.pos (0 :: d.lastId) d.boolValue) (body ++ r) (by simp [hd.rest]) (by simp; omega)
    have hbud := hd.bud
    rw [hd.rest] at hbud
    simp only [List.length_append, List.length_cons] at hbud
    have hrd : Ready ((d.upd d.rest d.pos (0 :: d.lastId) d.boolValue).atb (body ++ r)
        (d.pos + (uleb (rest.length + 1)).length + 1) d.boolValue) body r (depthKVs ((k, v) :: rest)) :=
      ⟨rfl, hd.ok, hd.nb, by simp; omega, by simp; omega⟩
    obtain ⟨bv, hrep⟩ := repeatOk_kvs (skipElement Cfg.fixed (skip Cfg.fixed stk) k.ty.code)
      (skipElement Cfg.fixed (skip Cfg.fixed stk) v.ty.code) (depthKVs ((k, v) :: rest)) ((k, v) :: rest) body
      (fun p hp b hb => (skip_kvs ((k, v) :: rest) p hp |>.1 b hb stk k.ty.code (by rw [(hty p hp).1]; exact Or.inl rfl)
        (by have := depth_le_kvs hp; omega)).weaken (depth_le_kvs hp).1)
      (fun p hp b hb => (skip_kvs ((k, v) :: rest) p hp |>.2 b hb stk v.ty.code (by rw [(hty p hp).2]; exact Or.inl rfl)
        (by have := depth_le_kvs hp; omega)).weaken (depth_le_kvs hp).2) he _ r hrd
    refine ⟨bv, ?_⟩
    simp only [Prod.mk.injEq, true_and, List.length_cons] at hrep
    dsimp only
    rw [skipElement_nonbool _ _ _ hd.ok h3, hcode]
    simp only [TVal.ty, TType.code]
    rw [skip_11 _ _ _ hd.ok]
    simp only [skipContainer_fixed _ d (by unfold maxNesting at *; omega), skipMapBody, hmb, Int.toNat_natCast]
    simp only [upd_pos, upd_boolValue] at hrep ⊢
    rw [hrep]
    simp only [leaveContainer, Dec.atb, Dec.upd, List.tail_cons, List.length_append, List.length_cons, Prod.mk.injEq, true_and,
      Dec.mk.injEq, and_true]
    omega
  | .struct fs => by
    intro bs henc stk code hc hst d r hd
    obtain ⟨hcode, h3⟩ := elemCode_nonbool hc (by simp [TVal.ty])
    obtain ⟨stk, rfl⟩ : ∃ s, stk = s + 1 := ⟨stk - 1, by omega⟩
    simp only [TVal.depth] at hst
    have hstk : 0 < stk := by omega
    obtain ⟨stk', rfl⟩ : ∃ s, stk = s + 1 := ⟨stk - 1, by omega⟩
    have hps := parseStruct_reads (σ := Unit) (fun ty _ d s => (s, skip Cfg.fixed (stk' + 1) ty d)) (fun s _ _ => s)
      (depthFields fs) () fs bs henc
      (by
        intro id b _ d s _ hs hp hv _ _
        refine ⟨d.boolValue, ?_⟩
        cases b
        · simp only [fieldCode]; rw [skip_2 _ _ _ hs]
        · simp only [fieldCode]; rw [skip_1 _ _ _ hs])
      (by
        intro id v hm hnb b2 hb2 s _ d r hd
        obtain ⟨bv, h⟩ := (skip_fields fs (id, v) hm b2 hb2 (stk' + 1) v.ty.code (Or.inl rfl)
          (by have : v.depth ≤ depthFields fs := depth_le_fields hm; show v.depth < stk' + 1; omega)).weaken (depth_le_fields hm) d r hd
        obtain ⟨_, h3'⟩ := fieldCode_of_ne_bool v hnb
        dsimp only at h ⊢
        rw [skipElement_nonbool _ _ _ hd.ok h3'] at h
        exact ⟨bv, by simpa using h⟩)
    have hd' : Ready d bs r (depthFields fs + 1) := by
      have := hd.room; simp only [TVal.depth] at this
      exact ⟨hd.rest, hd.ok, hd.nb, by omega, hd.bud⟩
    obtain ⟨bv, hp⟩ := hps d r hd'
    refine ⟨bv, ?_⟩
    dsimp only
    rw [skipElement_nonbool _ _ _ hd.ok h3, hcode]
    simp only [TVal.ty, TType.code]
    rw [skip_12 _ _ _ hd.ok]
    simp only [skipFields]
    unfold Carquet.Impl.ThriftParquet.parseStruct at hp
    generalize hfl : fieldLoop (fun _ => false) (fun ty _ d s => (s, skip Cfg.fixed (stk' + 1) ty d)) d.budget (structBegin d) () = res at hp
    obtain ⟨u, d1⟩ := res
    have hp2 := congrArg Prod.snd hp
    simp only at hp2
    simp only [hp2]
theorem skip_elems : ∀ (xs : List TVal), ∀ x ∈ xs, SkipOK x
  | [], _, h => by cases h
  | y :: r, x, h => by
    rcases List.mem_cons.mp h with h1 | h'
    · rw [h1]; exact skip_val y
    · exact skip_elems r x h'
theorem skip_kvs : ∀ (kvs : List (TVal × TVal)), ∀ p ∈ kvs, SkipOK p.1 ∧ SkipOK p.2
  | [], _, h => by cases h
  | (k, v) :: r, p, h => by
    rcases List.mem_cons.mp h with h1 | h'
    · rw [h1]; exact ⟨skip_val k, skip_val v⟩
    · exact skip_kvs r p h'
theorem skip_fields : ∀ (fs : List (Int × TVal)), ∀ f ∈ fs, SkipOK f.2
  | [], _, h => by cases h
  | (i, v) :: r, f, h => by
    rcases List.mem_cons.mp h with h1 | h'
    · rw [h1]; exact skip_val v
    · exact skip_fields r f h'
end

/-- **`thrift_skip` consumes exactly one value** (repaired code): for every value `v` of a
non-bool wire type, every admitted encoding `bs` of it, at any position with room for `v`'s
nesting depth, `thrift_skip(dec, type of v)` ends without error exactly behind `bs`. -/
theorem skip_consumes (v : TVal) (hnb : v.ty ≠ .bool) (bs : List UInt8) (henc : Encodes v bs) (stk : Nat) (hstk : v.depth < stk) :
    Reads v.depth (fun d => ((), skip Cfg.fixed stk v.ty.code d)) bs () := by
  intro d r hd
  obtain ⟨bv, h⟩ := skip_val v bs henc stk v.ty.code (Or.inl rfl) hstk d r hd
  obtain ⟨_, h3⟩ := fieldCode_of_ne_bool v hnb
  dsimp only at h ⊢
  rw [skipElement_nonbool _ _ _ hd.ok h3] at h
  exact ⟨bv, h⟩

end Carquet.Proofs.Thrift
