import Carquet.Proofs.ThriftRoundtripTop
/-
Unknown fields: a field list extended by fields whose ids the parser does not know (any wire
type, nested at most `R` deep) is as acceptable as the original and parses to the same value.
-/
namespace Carquet.Proofs.Thrift
open Carquet.Spec.Thrift Carquet.Spec.ParquetThrift
open Carquet.Impl.Thrift
open Carquet.Impl.ThriftParquet

/-- `ext` is `base` with extra fields inserted anywhere, each with an id outside `known` and a
value (of any wire type) nested at most `R` deep -/
inductive Extends (known : List Int) (R : Nat) : Fields → Fields → Prop
  | nil : Extends known R [] []
  | keep {f base ext} : Extends known R base ext → Extends known R (f :: base) (f :: ext)
  | add {id v base ext} : id ∉ known → v.depth ≤ R → Extends known R base ext → Extends known R base ((id, v) :: ext)

theorem lookupT_none_of_not_mem {σ : Type} (tbl : Table σ) (id : Int) (h : id ∉ tbl.map (·.1)) : lookupT tbl id = none := by
  induction tbl with
  | nil => rfl
  | cons e r ih =>
    obtain ⟨k, g⟩ := e
    simp only [List.map_cons, List.mem_cons, not_or] at h
    simp only [lookupT, h.1, if_false]
    exact ih h.2

theorem extends_ok {σ : Type} (tbl : Table σ) (R : Nat) {base ext : Fields}
    (h : Extends (tbl.map (·.1)) R base ext) (hb : okFields tbl R base) : okFields tbl R ext := by
  induction h with
  | nil => exact hb
  | keep _ ih =>
    intro f hf
    rcases List.mem_cons.mp hf with rfl | hf'
    · exact hb _ List.mem_cons_self
    · exact ih (fun g hg => hb g (List.mem_cons_of_mem _ hg)) f hf'
  | @add id v _ _ hid hd _ ih =>
    intro f hf
    rcases List.mem_cons.mp hf with rfl | hf'
    · unfold okT; rw [lookupT_none_of_not_mem tbl id hid]; exact hd
    · exact ih hb f hf'

theorem extends_of {σ : Type} (tbl : Table σ) (R : Nat) {base ext : Fields}
    (h : Extends (tbl.map (·.1)) R base ext) : ∀ s : σ, ofFields tbl s ext = ofFields tbl s base := by
  induction h with
  | nil => intro s; rfl
  | keep _ ih => intro s; simp only [ofFields, List.foldl_cons] at ih ⊢; exact ih _
  | @add id v _ _ hid _ _ ih =>
    intro s
    simp only [ofFields, List.foldl_cons] at ih ⊢
    have : stepT tbl s id v = s := by simp [stepT, lookupT_none_of_not_mem tbl id hid]
    rw [this]; exact ih s

/-- ids the file-metadata parser dispatches on (7, 8, 9 are skipped like unknown ones) -/
def fileMetaKnown : List Int := [1, 2, 3, 4, 5, 6]
/-- ids the page-header parser dispatches on -/
def pageHeaderKnown : List Int := [1, 2, 3, 4, 5, 7, 8]

theorem fileMetaKnown_eq (R : Nat) : (tblFileMeta R).map (·.1) = fileMetaKnown := rfl
theorem pageHeaderKnown_eq (R : Nat) : (tblPageHeader R).map (·.1) = pageHeaderKnown := rfl

/-- FileMetaData: any encoding (any header forms) of the structure's Thrift value extended by
unknown top-level fields parses to `norm` -/
theorem accepts_filemetadata (m : FileMetaData) (h : m.wf = true) (fs : Fields)
    (hext : Extends fileMetaKnown 31 (fmFields m) fs) (bs : List UInt8) (henc : Encodes (.struct fs) bs) (r : List UInt8) :
    parseFileMetaDataX Cfg.fixed (bs ++ r) = ⟨none, m.norm, bs.length, false⟩ := by
  have hext' : Extends ((tblFileMeta 27).map (·.1)) 31 (fmFields m) fs := by rw [fileMetaKnown_eq]; exact hext
  have hok := extends_ok (tblFileMeta 27) 31 hext' (fm_ok 27 (by omega) m h)
  have hof : ofFileMetaFields 27 fs = ofFileMetaFields 27 (fmFields m) := by
    unfold ofFileMetaFields; rw [extends_of (tblFileMeta 27) 31 hext']
  have hp := parseFileMetaData_reads 27 (by simp [maxNesting]) fs bs henc hok (by rw [hof, fm_of 27 m h]; rfl) r
  rw [hp, hof, fm_of 27 m h]

/-- PageHeader: the same -/
theorem accepts_pageheader (h : PageHeader) (fs : Fields)
    (hext : Extends pageHeaderKnown 29 (phFields h) fs) (bs : List UInt8) (henc : Encodes (.struct fs) bs) (r : List UInt8) :
    parsePageHeaderX Cfg.fixed (bs ++ r) = ⟨none, h.norm, bs.length, false⟩ := by
  have hext' : Extends ((tblPageHeader 27).map (·.1)) 29 (phFields h) fs := by rw [pageHeaderKnown_eq]; exact hext
  have hok := extends_ok (tblPageHeader 27) 29 hext' (ph_ok 27 h)
  obtain ⟨res, hres, h1, h2, h3, h4⟩ := parsePageHeaderTop_reads 27 (by simp [maxNesting]) fs bs henc hok r
  unfold parsePageHeaderX
  rw [hres]
  obtain ⟨st, v, n, ov⟩ := res
  simp only at h1 h2 h3 h4
  subst h1 h3 h4
  rw [h2, extends_of (tblPageHeader 27) 29 hext', ph_of 27 h]
  simp [unionConsistent_norm]

end Carquet.Proofs.Thrift
