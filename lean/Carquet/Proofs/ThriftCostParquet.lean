import Carquet.Proofs.ThriftCost
import Carquet.Proofs.ThriftSafeParquet
/-
The parsers of parquet_types.c take a number of steps LINEAR in the size of their input, on
arbitrary bytes (repaired code).  A step is a `thrift_read_field_begin`, a `thrift_skip`
invocation, or one cell of an array allocated for a list (Impl.ThriftCost), so the bound is also
a bound on the number of array cells allocated.

Accounting.  Every step is paid 36-fold by a consumed byte, except after the first error: the
element loops of parquet_types.c are not guarded by the decoder status, so after an error each
enclosing loop still visits the rest of its `count ≤ remaining bytes` cells (two steps each).
`pen B M d d'` is that surcharge: nothing when `d'` is OK, `B + M·|remaining at d|` otherwise;
`M` grows by 2 per level of list nesting, `B` by 1 per level of struct nesting.
-/
namespace Carquet.Proofs.ThriftSafe
open Carquet.Impl.Thrift
open Carquet.Impl.ThriftParquet

def pen (B M : Nat) (d d' : Dec) : Nat :=
  match d'.status with
  | none => 0
  | some _ => B + M * d.rest.length

theorem pen_ok {B M : Nat} {d d' : Dec} (h : d'.status = none) : pen B M d d' = 0 := by unfold pen; rw [h]
theorem pen_bad {B M : Nat} {d d' : Dec} (h : d'.status ≠ none) : pen B M d d' = B + M * d.rest.length := by
  unfold pen
  cases hs : d'.status with
  | none => exact absurd hs h
  | some _ => rfl

theorem pen_mono {B M B' M' : Nat} (hB : B ≤ B') (hM : M ≤ M') (d d' : Dec) : pen B M d d' ≤ pen B' M' d d' := by
  unfold pen
  cases d'.status with
  | none => exact Nat.le_refl _
  | some _ => exact Nat.add_le_add hB (Nat.mul_le_mul_right _ hM)

/-- a struct parser or an element reader: pays for itself with two steps to spare -/
structure SClaim (B M : Nat) (d d' : Dec) (n : Nat) : Prop where
  ok : d.status = none → n + 2 + 36 * d'.rest.length ≤ 36 * d.rest.length + pen B M d d'
  bad : d.status ≠ none → n ≤ 1

/-- a field handler: may also spend 33 steps of the header byte its loop has consumed -/
structure PClaim (B M : Nat) (d d' : Dec) (n : Nat) : Prop where
  ok : d.status = none → n + 36 * d'.rest.length ≤ 36 * d.rest.length + 33 + pen B M d d'
  bad : d.status ≠ none → n ≤ 2 * d.rest.length + 1

theorem SClaim.mono {B M B' M' : Nat} {d d' : Dec} {n : Nat} (h : SClaim B M d d' n) (hB : B ≤ B') (hM : M ≤ M') :
    SClaim B' M' d d' n :=
  ⟨fun hs => by have := h.ok hs; have := pen_mono hB hM d d'; omega, h.bad⟩

theorem PClaim.mono {B M B' M' : Nat} {d d' : Dec} {n : Nat} (h : PClaim B M d d' n) (hB : B ≤ B') (hM : M ≤ M') :
    PClaim B' M' d d' n :=
  ⟨fun hs => by have := h.ok hs; have := pen_mono hB hM d d'; omega, h.bad⟩

theorem SClaim.toP {B M : Nat} {d d' : Dec} {n : Nat} (h : SClaim B M d d' n) : PClaim B M d d' n :=
  ⟨fun hs => by have := h.ok hs; omega, fun hs => by have := h.bad hs; omega⟩

theorem PClaim.congr {B M : Nat} {d d1 d2 : Dec} {n : Nat} (h : PClaim B M d d1 n) (hr : d2.rest = d1.rest)
    (hs : d2.status = d1.status) : PClaim B M d d2 n := by
  have hp : pen B M d d2 = pen B M d d1 := by unfold pen; rw [hs]
  exact ⟨fun h0 => by rw [hr, hp]; exact h.ok h0, h.bad⟩

/-- straight-line handler (scalar, string, binary): no step of its own -/
theorem scalar_pclaim {B M : Nat} {d d' : Dec} (ha : Adv d d') : PClaim B M d d' 0 :=
  ⟨fun _ => by have := ha.len; omega, fun _ => by omega⟩

/-- element reader without steps of its own (`thrift_read_i32`, `arena_strdup_thrift`) -/
theorem read_sclaim {B M : Nat} {d d' : Dec} (hB : 2 ≤ B) (ha : Adv d d')
    (hok : d'.status = none → d'.rest.length + 1 ≤ d.rest.length) : SClaim B M d d' 0 := by
  refine ⟨fun _ => ?_, fun _ => by omega⟩
  have := ha.len
  cases hs : d'.status with
  | none => have := hok hs; rw [pen_ok hs]; omega
  | some x => rw [pen_bad (by rw [hs]; simp)]; omega

theorem skip_pclaim {B M : Nat} (hB : 2 ≤ B) (ty : Nat) (d : Dec) (hg : Good d) :
    PClaim B M d (skipField Cfg.fixed ty d) (skipFieldSteps Cfg.fixed ty d) := by
  refine ⟨fun hs => ?_, fun hs => ?_⟩
  · have hc := skip_claim stackBudget ty d hg hs (stackBudget_ok d)
    have hl := (skipField_adv ty d hg).len
    unfold skipField skipFieldSteps at *
    generalize skip Cfg.fixed stackBudget ty d = d' at *
    generalize skipSteps Cfg.fixed stackBudget ty d = n at *
    by_cases hb : boolTy ty
    · obtain ⟨h1, _, _⟩ := hc.bool hb; omega
    · have := hc.prog hb
      cases hs' : d'.status with
      | none => rw [err_ok hs'] at this; omega
      | some x =>
        have hne : d'.status ≠ none := by rw [hs']; simp
        rw [err_bad hne] at this
        rw [pen_bad hne]
        omega
  · unfold skipFieldSteps
    rw [skipSteps_of_err _ _ _ _ hs]
    omega

/-! ### `while (read_field_begin) switch (field_id) …` -/

theorem fieldLoop_of_err_snd {σ : Type} (stop : σ → Bool) (body : Nat → Int → Dec → σ → σ × Dec) (f : Nat) (d : Dec) (s : σ)
    (x : Err) (h : d.status = some x) : (fieldLoop stop body (f + 1) d s).2 = d := by
  rw [fieldLoop_of_err stop body f d s x h]

/-- the handlers of a struct parser: safe and paid for -/
def BodyClaim {σ : Type} (B M : Nat) (body : Nat → Int → Dec → σ → σ × Dec) (c : Nat → Int → Dec → σ → Nat) : Prop :=
  ∀ ty fid d s, Good d → Adv d (body ty fid d s).2 ∧ PClaim B M d (body ty fid d s).2 (c ty fid d s)

theorem BodyClaim.safe {σ : Type} {B M : Nat} {body : Nat → Int → Dec → σ → σ × Dec} {c : Nat → Int → Dec → σ → Nat}
    (h : BodyClaim B M body c) (N : Nat) : BodySafe (fun _ => True) N (fun _ => True) body :=
  fun ty fid d s hg _ _ _ => ⟨(h ty fid d s hg).1, trivial⟩

theorem fieldLoop_steps {σ : Type} (stop : σ → Bool) (body : Nat → Int → Dec → σ → σ × Dec)
    (c : Nat → Int → Dec → σ → Nat) (B M : Nat) (hB : 2 ≤ B) (hM : 2 ≤ M) (hb : BodyClaim B M body c) :
    ∀ (fuel : Nat) (d : Dec) (s : σ), Good d → d.status = none → d.rest.length < fuel →
      fieldLoopSteps stop body c fuel d s + 2 + 36 * (fieldLoop stop body fuel d s).2.rest.length ≤
        36 * d.rest.length + pen (B + 1) M d (fieldLoop stop body fuel d s).2
  | 0, d, _, _, _, hf => by omega
  | f + 1, d, s, hg, hs, hf => by
    have h1 := readFieldBegin_adv d
    have hl1 := h1.len
    unfold fieldLoopSteps fieldLoop
    cases hm : (readFieldBegin d).more with
    | false =>
      simp only []
      cases hs1 : (readFieldBegin d).dec.status with
      | none => have := readFieldBegin_stop_ok d hm hs1; rw [pen_ok hs1]; omega
      | some x => rw [pen_bad (by rw [hs1]; simp)]; omega
    | true =>
      have hp := readFieldBegin_progress d hm
      simp only []
      generalize hy : (readFieldBegin d).dec = y at *
      generalize (readFieldBegin d).ty = ty at *
      generalize (readFieldBegin d).fid = fid at *
      obtain ⟨f', rfl⟩ : ∃ f', f = f' + 1 := ⟨f - 1, by omega⟩
      have hgy := h1.good hg
      obtain ⟨ha, hc⟩ := hb ty fid y s hgy
      have hl2 := ha.len
      generalize hy' : body ty fid y s = r at *
      have hMy : M * y.rest.length ≤ M * d.rest.length := Nat.mul_le_mul_left _ (by omega)
      have hMy' : M * r.2.rest.length ≤ M * d.rest.length := Nat.mul_le_mul_left _ (by omega)
      have hM2 : 2 * d.rest.length ≤ M * d.rest.length := Nat.mul_le_mul_right _ hM
      cases hsy : y.status with
      | some x =>
        -- the header itself failed (long-form field id): the handler runs on an errored decoder
        have hne : y.status ≠ none := by rw [hsy]; simp
        have hne' : r.2.status ≠ none := fun h => hne (ha.ok h)
        have hcb := hc.bad hne
        cases hsy' : r.2.status with
        | none => exact absurd hsy' hne'
        | some x' =>
          split
          · rw [pen_bad hne']; omega
          · rw [fieldLoop_of_err_snd _ _ f' r.2 r.1 x' hsy', fieldLoopSteps_of_err _ _ _ f' r.2 r.1 x' hsy']
            rw [pen_bad hne']
            omega
      | none =>
        have hco := hc.ok hsy
        cases hsy' : r.2.status with
        | some x' =>
          have hne' : r.2.status ≠ none := by rw [hsy']; simp
          rw [pen_bad hne'] at hco
          split
          · rw [pen_bad hne']; omega
          · rw [fieldLoop_of_err_snd _ _ f' r.2 r.1 x' hsy', fieldLoopSteps_of_err _ _ _ f' r.2 r.1 x' hsy']
            rw [pen_bad hne']
            omega
        | none =>
          rw [pen_ok hsy'] at hco
          split
          · rw [pen_ok hsy']; omega
          · have ih := fieldLoop_steps stop body c B M hB hM hb (f' + 1) r.2 r.1 (ha.good hgy) hsy' (by omega)
            generalize fieldLoopSteps stop body c (f' + 1) r.2 r.1 = FL at *
            generalize (fieldLoop stop body (f' + 1) r.2 r.1).2 = fin at *
            cases hsf : fin.status with
            | none => rw [pen_ok hsf] at ih ⊢; omega
            | some xf =>
              have hnf : fin.status ≠ none := by rw [hsf]; simp
              rw [pen_bad hnf] at ih ⊢
              omega

/-- every nested struct parser: `steps + 2 + 36·|left| ≤ 36·|before| + pen` -/
theorem struct_sclaim {σ : Type} (body : Nat → Int → Dec → σ → σ × Dec) (c : Nat → Int → Dec → σ → Nat)
    (B M : Nat) (hB : 2 ≤ B) (hM : 2 ≤ M) (hb : BodyClaim B M body c) (init : σ) (d : Dec) (hg : Good d) :
    SClaim (B + 1) M d (parseStruct body init d).2 (parseStructSteps body c init d) := by
  rw [parseStruct_snd]
  unfold parseStructSteps
  obtain ⟨b, hbud⟩ : ∃ b, d.budget = b + 1 := ⟨d.budget - 1, by have := hg.bud; omega⟩
  have hrs : ∀ x : Dec, (structEnd x).rest = x.rest := fun _ => rfl
  have hps : ∀ x : Dec, pen (B + 1) M d (structEnd x) = pen (B + 1) M d x := fun _ => rfl
  refine ⟨fun hs => ?_, fun hs => ?_⟩
  · rw [hrs, hps]
    unfold structBegin
    split
    · have hne := setError_status_ne d Err.decode
      cases hse : (d.setError Err.decode).status with
      | none => exact absurd hse hne
      | some x =>
        rw [hbud, fieldLoop_of_err_snd _ _ b _ init x hse, fieldLoopSteps_of_err _ _ _ b _ init x hse]
        rw [pen_bad hne, setError_rest]
        omega
    · exact fieldLoop_steps (fun _ => false) body c B M hB hM hb d.budget { d with lastId := 0 :: d.lastId } init
        ⟨hg.bud, hg.nofuel, hg.nostack⟩ hs hg.bud
  · cases hsd : d.status with
    | none => exact absurd hsd hs
    | some x =>
      have : (structBegin d).status = some x := by
        unfold structBegin
        split
        · rw [setError_of_some d _ x hsd]; exact hsd
        · exact hsd
      rw [hbud, fieldLoopSteps_of_err _ _ _ b _ init x this]
      exact Nat.le_refl 1

/-! ### element loops of parquet_types.c (not guarded by the status) -/

theorem readMany_snd {α : Type} (elem : Dec → α × Dec) (n : Nat) (d : Dec) :
    (readMany elem (n + 1) d).2 = (readMany elem n (elem d).2).2 := by
  rw [readMany]

/-- element parsers: safe, and paid for (with two steps to spare) -/
def ElemClaim {α : Type} (B M : Nat) (elem : Dec → α × Dec) (c : Dec → Nat) : Prop :=
  ∀ d, Good d → Adv d (elem d).2 ∧ SClaim B M d (elem d).2 (c d)

theorem readMany_bad {α : Type} (elem : Dec → α × Dec) (c : Dec → Nat) (B M : Nat) (he : ElemClaim B M elem c) :
    ∀ (n : Nat) (d : Dec), Good d → d.status ≠ none → readManySteps elem c n d ≤ 2 * n
  | 0, _, _, _ => by simp [readManySteps]
  | n + 1, d, hg, hs => by
    obtain ⟨ha, hc⟩ := he d hg
    have := hc.bad hs
    have ih := readMany_bad elem c B M he n (elem d).2 (ha.good hg) (fun h => hs (ha.ok h))
    unfold readManySteps
    omega

theorem readMany_steps {α : Type} (elem : Dec → α × Dec) (c : Dec → Nat) (B M : Nat) (he : ElemClaim B M elem c) :
    ∀ (n : Nat) (d : Dec), Good d → d.status = none →
      readManySteps elem c n d + 36 * (readMany elem n d).2.rest.length ≤
        36 * d.rest.length + (match (readMany elem n d).2.status with
          | none => 0
          | some _ => B + M * d.rest.length + 2 * n)
  | 0, d, _, hs => by simp [readManySteps, readMany, hs]
  | n + 1, d, hg, hs => by
    obtain ⟨ha, hc⟩ := he d hg
    have hco := hc.ok hs
    have hl := ha.len
    have hfin := (readMany_adv elem (fun x hx => (he x hx).1) n (elem d).2 (ha.good hg)).1
    have hlf := hfin.len
    rw [readMany_snd]
    unfold readManySteps
    have hMx : M * (elem d).2.rest.length ≤ M * d.rest.length := Nat.mul_le_mul_left _ hl
    cases hsx : (elem d).2.status with
    | some x =>
      have hne : (elem d).2.status ≠ none := by rw [hsx]; simp
      have hb := readMany_bad elem c B M he n (elem d).2 (ha.good hg) hne
      have hnf : (readMany elem n (elem d).2).2.status ≠ none := fun h => hne (hfin.ok h)
      rw [pen_bad hne] at hco
      cases hsf : (readMany elem n (elem d).2).2.status with
      | none => exact absurd hsf hnf
      | some xf => simp only []; omega
    | none =>
      rw [pen_ok hsx] at hco
      have ih := readMany_steps elem c B M he n (elem d).2 (ha.good hg) hsx
      cases hsf : (readMany elem n (elem d).2).2.status with
      | none => rw [hsf] at ih; simp only [] at ih ⊢; omega
      | some xf => rw [hsf] at ih; simp only [] at ih ⊢; omega

/-- a list-valued field below the top level, as a field handler -/
theorem list_pclaim {α : Type} (max : Int) (elem : Dec → α × Dec) (c : Dec → Nat) (B M : Nat) (he : ElemClaim B M elem c)
    (d : Dec) (hg : Good d) :
    PClaim B (M + 2) d (parseListOf max elem d).2 (parseListOfSteps max elem c d) := by
  have h1 := readListBegin_adv d
  have hl := h1.len
  have hcnt := (readListBegin_count d).2
  have hgy := h1.good hg
  unfold parseListOf parseListOfSteps
  split
  · -- count refused
    refine ⟨fun _ => ?_, fun _ => by omega⟩
    simp only []
    omega
  · generalize (readListBegin d).count.toNat = n at *
    generalize hy : (readListBegin d).dec = y at *
    have hsnd : ∀ p : List α × Dec, (match p with | (xs, d1) => (some xs, d1)).2 = p.2 := fun p => rfl
    rw [hsnd]
    have hfin := (readMany_adv elem (fun x hx => (he x hx).1) n y hgy).1
    have hlf := hfin.len
    have hMy : M * y.rest.length ≤ M * d.rest.length := Nat.mul_le_mul_left _ hl
    refine ⟨fun hs => ?_, fun hs => ?_⟩
    · cases hsy : y.status with
      | some x =>
        have hne : y.status ≠ none := by rw [hsy]; simp
        have hb := readMany_bad elem c B M he n y hgy hne
        have hnf : (readMany elem n y).2.status ≠ none := fun h => hne (hfin.ok h)
        rw [pen_bad hnf, Nat.add_mul]
        omega
      | none =>
        have := readMany_steps elem c B M he n y hgy hsy
        cases hsf : (readMany elem n y).2.status with
        | none => rw [hsf] at this; simp only [] at this; rw [pen_ok hsf]; omega
        | some xf =>
          rw [hsf] at this; simp only [] at this
          rw [pen_bad (by rw [hsf]; simp), Nat.add_mul]
          omega
    · have hne : y.status ≠ none := fun h => hs (h1.ok h)
      have hb := readMany_bad elem c B M he n y hgy hne
      omega

/-- a top-level list (`VALIDATE_COUNT_STATUS`) -/
theorem topList_pclaim {σ α : Type} (max : Int) (elem : Dec → α × Dec) (c : Dec → Nat) (B M : Nat)
    (he : ElemClaim B M elem c) (set : σ → List α → σ) (d : Dec) (s : Top σ) (hg : Good d) :
    PClaim B (M + 2) d (topListOf max elem set d s).2 (topListOfSteps max elem c d) := by
  have hp := list_pclaim max elem c B M he d hg
  have h1 := readListBegin_adv d
  have hl := h1.len
  unfold topListOf topListOfSteps parseListOfSteps at *
  unfold parseListOf at hp
  split
  · rename_i hbad
    refine ⟨fun _ => ?_, fun _ => by omega⟩
    simp only []
    omega
  · rename_i hbad
    simp only [hbad, if_false] at hp
    exact hp


/-! ### the parsers, one by one (the step counters follow the handlers' `if` chains in lock step) -/

theorem ite_pclaim {c : Prop} [Decidable c] {α : Type} (B M : Nat) (d : Dec) (x y : α × Dec) (a b : Nat)
    (h1 : PClaim B M d x.2 a) (h2 : PClaim B M d y.2 b) :
    PClaim B M d (if c then x else y).2 (if c then a else b) := by
  split
  · exact h1
  · exact h2

theorem snd_mk_pclaim {α : Type} (a : α) (B M : Nat) (d d' : Dec) (n : Nat) (h : PClaim B M d d' n) :
    PClaim B M d (a, d').2 n := h

/-- a nested struct parser as a field handler / element reader, at any larger `B` -/
theorem struct_sclaim' {σ : Type} (body : Nat → Int → Dec → σ → σ × Dec) (c : Nat → Int → Dec → σ → Nat)
    (B M B' : Nat) (hB : 2 ≤ B) (hM : 2 ≤ M) (hB' : B + 1 ≤ B') (hb : BodyClaim B M body c) (init : σ) (d : Dec)
    (hg : Good d) : SClaim B' M d (parseStruct body init d).2 (parseStructSteps body c init d) :=
  (struct_sclaim body c B M hB hM hb init d hg).mono hB' (Nat.le_refl _)

theorem readI32_claim : ElemClaim 3 2 readI32 (fun _ => 0) :=
  fun d _ => ⟨readI32_adv d, read_sclaim (by omega) (readI32_adv d) (readVarint_ok d)⟩

theorem snd_status {α : Type} (a : α) (d' : Dec) : (a, d').2.status = d'.status := rfl
theorem snd_rest {α : Type} (a : α) (d' : Dec) : (a, d').2.rest = d'.rest := rfl

theorem strdupBytes_ok (d : Dec) (h : (strdupBytes d).2.status = none) : (strdupBytes d).2.rest.length + 1 ≤ d.rest.length := by
  unfold strdupBytes at h ⊢
  rw [snd_status] at h
  rw [snd_rest]
  exact readBinary_ok d h

theorem strdupBytes_claim : ElemClaim 3 2 strdupBytes (fun _ => 0) :=
  fun d _ => ⟨strdupBytes_adv d, read_sclaim (by omega) (strdupBytes_adv d) (strdupBytes_ok d)⟩

section
local notation "cfg" => Cfg.fixed

/- the unifier must never look inside the readers when a leaf lemma does not fit -/
attribute [local irreducible] bindupThrift strdupThrift strdupBytes readI32 readI64 readI16 readI8 readBool readBinary
  skipField skipFieldSteps noteOverlay

macro "pc_leaf" : tactic =>
  `(tactic| first
    | with_reducible exact scalar_pclaim (readI32_adv _) | with_reducible exact scalar_pclaim (readI64_adv _)
    | with_reducible exact scalar_pclaim (readI16_adv _) | with_reducible exact scalar_pclaim (readI8_adv _)
    | with_reducible exact scalar_pclaim (readBool_adv _) | with_reducible exact scalar_pclaim (bindupThrift_adv _)
    | with_reducible exact scalar_pclaim (strdupThrift_adv _) | with_reducible exact scalar_pclaim (strdupBytes_adv _)
    | with_reducible exact skip_pclaim (by omega) _ _ ‹Good _›)

theorem statisticsBody_claim : BodyClaim 2 2 (statisticsBody cfg) (statisticsBodySteps cfg) := by
  intro ty fid d s hg
  refine ⟨statisticsBody_adv ty fid d s hg, ?_⟩
  unfold statisticsBody statisticsBodySteps
  repeat' (with_reducible apply ite_pclaim)
  all_goals with_reducible apply snd_mk_pclaim
  all_goals pc_leaf

theorem parseStatistics_sclaim (B : Nat) (hB : 3 ≤ B) (d : Dec) (hg : Good d) :
    SClaim B 2 d (parseStatistics cfg d).2 (parseStatisticsSteps cfg d) :=
  struct_sclaim' _ _ 2 2 B (by omega) (by omega) (by omega) statisticsBody_claim _ d hg

theorem decimalBody_claim : BodyClaim 2 2 (decimalBody cfg) (decimalBodySteps cfg) := by
  intro ty fid d s hg
  refine ⟨decimalBody_adv ty fid d s hg, ?_⟩
  unfold decimalBody decimalBodySteps
  repeat' (with_reducible apply ite_pclaim)
  all_goals with_reducible apply snd_mk_pclaim
  all_goals pc_leaf

theorem timeUnitBody_claim : BodyClaim 2 2 (timeUnitBody cfg) (timeUnitBodySteps cfg) := by
  intro ty fid d s hg
  refine ⟨timeUnitBody_adv ty fid d s hg, ?_⟩
  unfold timeUnitBody timeUnitBodySteps
  with_reducible apply snd_mk_pclaim
  pc_leaf

theorem timeBody_claim : BodyClaim 3 2 (timeBody cfg) (timeBodySteps cfg) := by
  intro ty fid d s hg
  refine ⟨timeBody_adv ty fid d s hg, ?_⟩
  unfold timeBody timeBodySteps
  have h2 := (struct_sclaim' _ _ 2 2 3 (by omega) (by omega) (by omega) timeUnitBody_claim s.2 d hg).toP
  repeat' (with_reducible apply ite_pclaim)
  all_goals with_reducible apply snd_mk_pclaim
  all_goals first | pc_leaf | with_reducible exact h2

theorem integerBody_claim : BodyClaim 2 2 (integerBody cfg) (integerBodySteps cfg) := by
  intro ty fid d s hg
  refine ⟨integerBody_adv ty fid d s hg, ?_⟩
  unfold integerBody integerBodySteps
  repeat' (with_reducible apply ite_pclaim)
  all_goals with_reducible apply snd_mk_pclaim
  all_goals pc_leaf

theorem logicalBody_claim : BodyClaim 4 2 (logicalBody cfg) (logicalBodySteps cfg) := by
  intro ty fid d s hg
  refine ⟨logicalBody_adv ty fid d s hg, ?_⟩
  unfold logicalBody logicalBodySteps plainMember
  have hd := (struct_sclaim' _ _ 2 2 4 (by omega) (by omega) (by omega) decimalBody_claim (0, 0) d hg).toP
  have ht := (struct_sclaim' _ _ 3 2 4 (by omega) (by omega) (by omega) timeBody_claim (false, TimeUnit.millis) d hg).toP
  have hi := (struct_sclaim' _ _ 2 2 4 (by omega) (by omega) (by omega) integerBody_claim (0, false) d hg).toP
  repeat' (with_reducible apply ite_pclaim)
  all_goals with_reducible apply snd_mk_pclaim
  all_goals first | pc_leaf | with_reducible exact hd | with_reducible exact ht | with_reducible exact hi

theorem parseLogicalType_sclaim (d : Dec) (hg : Good d) :
    SClaim 5 2 d (parseLogicalType cfg d).2 (parseLogicalTypeSteps cfg d) :=
  struct_sclaim' _ _ 4 2 5 (by omega) (by omega) (by omega) logicalBody_claim _ d hg

theorem noteOverlay_rest (b : Bool) (d : Dec) : (noteOverlay b d).rest = d.rest := by
  unfold noteOverlay; split <;> rfl
theorem noteOverlay_status (b : Bool) (d : Dec) : (noteOverlay b d).status = d.status := by
  unfold noteOverlay; split <;> rfl

theorem schemaElementBody_claim : BodyClaim 5 2 (schemaElementBody cfg) (schemaElementBodySteps cfg) := by
  intro ty fid d s hg
  refine ⟨schemaElementBody_adv ty fid d s hg, ?_⟩
  unfold schemaElementBody schemaElementBodySteps
  have hl : PClaim 5 2 d (noteOverlay (parseLogicalType cfg d).1.2 (parseLogicalType cfg d).2) (parseLogicalTypeSteps cfg d) :=
    (parseLogicalType_sclaim d hg).toP.congr (noteOverlay_rest _ _) (noteOverlay_status _ _)
  repeat' (with_reducible apply ite_pclaim)
  -- the tenth handler (logicalType) first: its decoder is `noteOverlay …`, which the leaf tactic must not see
  rotate_left 9
  · with_reducible apply snd_mk_pclaim
    exact hl
  all_goals with_reducible apply snd_mk_pclaim
  all_goals pc_leaf

theorem parseSchemaElement_claim : ElemClaim 6 2 (parseSchemaElement cfg) (parseSchemaElementSteps cfg) :=
  fun d hg => ⟨parseSchemaElement_adv d hg,
    struct_sclaim' _ _ 5 2 6 (by omega) (by omega) (by omega) schemaElementBody_claim _ d hg⟩

theorem keyValueBody_claim : BodyClaim 2 2 (keyValueBody cfg) (keyValueBodySteps cfg) := by
  intro ty fid d s hg
  refine ⟨keyValueBody_adv ty fid d s hg, ?_⟩
  unfold keyValueBody keyValueBodySteps
  repeat' (with_reducible apply ite_pclaim)
  all_goals with_reducible apply snd_mk_pclaim
  all_goals pc_leaf

theorem parseKeyValue_claim : ElemClaim 3 2 (parseKeyValue cfg) (parseKeyValueSteps cfg) :=
  fun d hg => ⟨parseKeyValue_adv d hg,
    struct_sclaim' _ _ 2 2 3 (by omega) (by omega) (by omega) keyValueBody_claim _ d hg⟩

theorem encodingStatsBody_claim : BodyClaim 2 2 (encodingStatsBody cfg) (encodingStatsBodySteps cfg) := by
  intro ty fid d s hg
  refine ⟨encodingStatsBody_adv ty fid d s hg, ?_⟩
  unfold encodingStatsBody encodingStatsBodySteps
  repeat' (with_reducible apply ite_pclaim)
  all_goals with_reducible apply snd_mk_pclaim
  all_goals pc_leaf

theorem parseEncodingStats_claim : ElemClaim 3 2 (parseEncodingStats cfg) (parseEncodingStatsSteps cfg) :=
  fun d hg => ⟨parseEncodingStats_adv d hg,
    struct_sclaim' _ _ 2 2 3 (by omega) (by omega) (by omega) encodingStatsBody_claim _ d hg⟩

theorem columnMetaDataBody_claim : BodyClaim 3 4 (columnMetaDataBody cfg) (columnMetaDataBodySteps cfg) := by
  intro ty fid d s hg
  refine ⟨columnMetaDataBody_adv ty fid d s hg, ?_⟩
  unfold columnMetaDataBody columnMetaDataBodySteps setList
  have h2 := list_pclaim maxEncodings readI32 (fun _ => 0) 3 2 readI32_claim d hg
  have h3 := list_pclaim maxPathElements strdupBytes (fun _ => 0) 3 2 strdupBytes_claim d hg
  have h8 := list_pclaim maxKeyValuePairs (parseKeyValue cfg) (parseKeyValueSteps cfg) 3 2 parseKeyValue_claim d hg
  have h13 := list_pclaim maxEncodingStats (parseEncodingStats cfg) (parseEncodingStatsSteps cfg) 3 2 parseEncodingStats_claim d hg
  have h12 : PClaim 3 4 d (parseStatistics cfg d).2 (parseStatisticsSteps cfg d) :=
    (parseStatistics_sclaim 3 (by omega) d hg).toP.mono (by omega) (by omega)
  repeat' (with_reducible apply ite_pclaim)
  all_goals with_reducible apply snd_mk_pclaim
  all_goals first
    | pc_leaf | with_reducible exact h2 | with_reducible exact h3 | with_reducible exact h8
    | with_reducible exact h13 | with_reducible exact h12

theorem parseColumnMetaData_sclaim (d : Dec) (hg : Good d) :
    SClaim 4 4 d (parseColumnMetaData cfg d).2 (parseColumnMetaDataSteps cfg d) :=
  struct_sclaim' _ _ 3 4 4 (by omega) (by omega) (by omega) columnMetaDataBody_claim _ d hg

theorem columnChunkBody_claim : BodyClaim 4 4 (columnChunkBody cfg) (columnChunkBodySteps cfg) := by
  intro ty fid d s hg
  refine ⟨columnChunkBody_adv ty fid d s hg, ?_⟩
  unfold columnChunkBody columnChunkBodySteps
  have h3 := (parseColumnMetaData_sclaim d hg).toP
  repeat' (with_reducible apply ite_pclaim)
  all_goals with_reducible apply snd_mk_pclaim
  all_goals first | pc_leaf | with_reducible exact h3

theorem parseColumnChunk_claim : ElemClaim 5 4 (parseColumnChunk cfg) (parseColumnChunkSteps cfg) :=
  fun d hg => ⟨parseColumnChunk_adv d hg,
    struct_sclaim' _ _ 4 4 5 (by omega) (by omega) (by omega) columnChunkBody_claim _ d hg⟩

theorem rowGroupBody_claim : BodyClaim 5 6 (rowGroupBody cfg) (rowGroupBodySteps cfg) := by
  intro ty fid d s hg
  refine ⟨rowGroupBody_adv ty fid d s hg, ?_⟩
  unfold rowGroupBody rowGroupBodySteps setList
  have h1 := list_pclaim maxColumnsPerRg (parseColumnChunk cfg) (parseColumnChunkSteps cfg) 5 4 parseColumnChunk_claim d hg
  repeat' (with_reducible apply ite_pclaim)
  all_goals with_reducible apply snd_mk_pclaim
  all_goals first | pc_leaf | with_reducible exact h1

theorem parseRowGroup_claim : ElemClaim 6 6 (parseRowGroup cfg) (parseRowGroupSteps cfg) :=
  fun d hg => ⟨parseRowGroup_adv d hg,
    struct_sclaim' _ _ 5 6 6 (by omega) (by omega) (by omega) rowGroupBody_claim _ d hg⟩

theorem topListOf_adv' {σ α : Type} (max : Int) (elem : Dec → α × Dec) (he : ∀ d, Good d → Adv d (elem d).2)
    (set : σ → List α → σ) (d : Dec) (s : Top σ) (hg : Good d) : Adv d (topListOf max elem set d s).2 := by
  have h1 := readListBegin_adv d
  unfold topListOf
  split
  · exact h1
  · have h2 := readMany_adv elem he (readListBegin d).count.toNat (readListBegin d).dec (h1.good hg)
    split
    rename_i xs d1 heq
    exact h1.trans (adv_of_eq heq h2.1)

theorem fileMetaDataBody_adv : BodyAdv (fileMetaDataBody cfg) := by
  intro ty fid d s hg
  unfold fileMetaDataBody
  split
  · exact Adv.refl d
  · have h2 := topListOf_adv' maxSchemaElements (parseSchemaElement cfg) parseSchemaElement_adv
      (fun (v : FileMetaData × Required) xs => ({ v.1 with schema := xs }, { v.2 with schema := true })) d s hg
    have h4 := topListOf_adv' maxRowGroups (parseRowGroup cfg) parseRowGroup_adv
      (fun (v : FileMetaData × Required) xs => ({ v.1 with rowGroups := xs }, { v.2 with rowGroups := true })) d s hg
    have h5 := topListOf_adv' maxKeyValuePairs (parseKeyValue cfg) parseKeyValue_adv
      (fun (v : FileMetaData × Required) xs => ({ v.1 with keyValueMetadata := xs }, v.2)) d s hg
    repeat' (with_reducible apply ite_adv)
    all_goals first
      | with_reducible exact h2 | with_reducible exact h4 | with_reducible exact h5
      | (with_reducible apply snd_mk_adv
         first
          | with_reducible exact readI32_adv _ | with_reducible exact readI64_adv _
          | with_reducible exact strdupThrift_adv _ | with_reducible exact skipField_adv _ _ hg)

theorem fileMetaDataBody_claim : BodyClaim 6 8 (fileMetaDataBody cfg) (fileMetaDataBodySteps cfg) := by
  intro ty fid d s hg
  refine ⟨fileMetaDataBody_adv ty fid d s hg, ?_⟩
  unfold fileMetaDataBody fileMetaDataBodySteps
  cases hs : d.status with
  | some e =>
    simp only []
    exact scalar_pclaim (Adv.refl d)
  | none =>
    simp only []
    have h2 : PClaim 6 8 d _ _ := (topList_pclaim maxSchemaElements (parseSchemaElement cfg) (parseSchemaElementSteps cfg) 6 2
      parseSchemaElement_claim
      (fun (v : FileMetaData × Required) xs => ({ v.1 with schema := xs }, { v.2 with schema := true })) d s hg).mono
        (by omega) (by omega)
    have h4 := topList_pclaim maxRowGroups (parseRowGroup cfg) (parseRowGroupSteps cfg) 6 6 parseRowGroup_claim
      (fun (v : FileMetaData × Required) xs => ({ v.1 with rowGroups := xs }, { v.2 with rowGroups := true })) d s hg
    have h5 : PClaim 6 8 d _ _ := (topList_pclaim maxKeyValuePairs (parseKeyValue cfg) (parseKeyValueSteps cfg) 3 2
      parseKeyValue_claim
      (fun (v : FileMetaData × Required) xs => ({ v.1 with keyValueMetadata := xs }, v.2)) d s hg).mono (by omega) (by omega)
    repeat' (with_reducible apply ite_pclaim)
    all_goals first
      | with_reducible exact h2 | with_reducible exact h4 | with_reducible exact h5
      | (with_reducible apply snd_mk_pclaim
         pc_leaf)

theorem pageStatsField_pclaim (ty : Nat) (d : Dec) (hg : Good d) :
    PClaim 3 2 d (pageStatsField cfg ty d).2 (pageStatsFieldSteps cfg ty d) := by
  unfold pageStatsField pageStatsFieldSteps
  have h := (parseStatistics_sclaim 3 (by omega) d hg).toP
  with_reducible apply ite_pclaim
  · with_reducible apply snd_mk_pclaim
    with_reducible exact h
  · with_reducible apply snd_mk_pclaim
    pc_leaf

theorem dataPageHeaderBody_claim : BodyClaim 3 2 (dataPageHeaderBody cfg) (dataPageHeaderBodySteps cfg) := by
  intro ty fid d s hg
  refine ⟨dataPageHeaderBody_adv ty fid d s hg, ?_⟩
  unfold dataPageHeaderBody dataPageHeaderBodySteps
  have h5 := pageStatsField_pclaim ty d hg
  repeat' (with_reducible apply ite_pclaim)
  all_goals with_reducible apply snd_mk_pclaim
  all_goals first | pc_leaf | with_reducible exact h5

theorem dictionaryPageHeaderBody_claim : BodyClaim 2 2 (dictionaryPageHeaderBody cfg) (dictionaryPageHeaderBodySteps cfg) := by
  intro ty fid d s hg
  refine ⟨dictionaryPageHeaderBody_adv ty fid d s hg, ?_⟩
  unfold dictionaryPageHeaderBody dictionaryPageHeaderBodySteps
  repeat' (with_reducible apply ite_pclaim)
  all_goals with_reducible apply snd_mk_pclaim
  all_goals pc_leaf

theorem dataPageHeaderV2Body_claim : BodyClaim 3 2 (dataPageHeaderV2Body cfg) (dataPageHeaderV2BodySteps cfg) := by
  intro ty fid d s hg
  refine ⟨dataPageHeaderV2Body_adv ty fid d s hg, ?_⟩
  unfold dataPageHeaderV2Body dataPageHeaderV2BodySteps
  have h8 := pageStatsField_pclaim ty d hg
  repeat' (with_reducible apply ite_pclaim)
  all_goals with_reducible apply snd_mk_pclaim
  all_goals first | pc_leaf | with_reducible exact h8

theorem pageHeaderBody_adv : BodyAdv (pageHeaderBody cfg) := by
  intro ty fid d s hg
  unfold pageHeaderBody
  split
  · exact Adv.refl d
  · have h5 := parseStruct_adv _ dataPageHeaderBody_adv s.val.1.dataPageHeader d hg
    have h7 := parseStruct_adv _ dictionaryPageHeaderBody_adv s.val.1.dictionaryPageHeader d hg
    have h8 := parseStruct_adv _ dataPageHeaderV2Body_adv { s.val.1.dataPageHeaderV2 with isCompressed := true } d hg
    repeat' (with_reducible apply ite_adv)
    all_goals with_reducible apply snd_mk_adv
    all_goals first
      | with_reducible exact readI32_adv _ | with_reducible exact skipField_adv _ _ hg
      | with_reducible exact h5 | with_reducible exact h7 | with_reducible exact h8

theorem pageHeaderBody_claim : BodyClaim 4 2 (pageHeaderBody cfg) (pageHeaderBodySteps cfg) := by
  intro ty fid d s hg
  refine ⟨pageHeaderBody_adv ty fid d s hg, ?_⟩
  unfold pageHeaderBody pageHeaderBodySteps
  cases hs : d.status with
  | some e =>
    simp only []
    exact scalar_pclaim (Adv.refl d)
  | none =>
    simp only []
    have h5 := (struct_sclaim' _ _ 3 2 4 (by omega) (by omega) (by omega) dataPageHeaderBody_claim s.val.1.dataPageHeader d hg).toP
    have h7 := (struct_sclaim' _ _ 2 2 4 (by omega) (by omega) (by omega) dictionaryPageHeaderBody_claim
      s.val.1.dictionaryPageHeader d hg).toP
    have h8 := (struct_sclaim' _ _ 3 2 4 (by omega) (by omega) (by omega) dataPageHeaderV2Body_claim
      { s.val.1.dataPageHeaderV2 with isCompressed := true } d hg).toP
    repeat' (with_reducible apply ite_pclaim)
    all_goals with_reducible apply snd_mk_pclaim
    all_goals first | pc_leaf | with_reducible exact h5 | with_reducible exact h7 | with_reducible exact h8

end

theorem pen_le (B M : Nat) (d d' : Dec) : pen B M d d' ≤ B + M * d.rest.length := by
  unfold pen
  cases d'.status with
  | none => exact Nat.zero_le _
  | some _ => exact Nat.le_refl _

/-- a top-level parser whose handlers are paid for takes `≤ (36 + M)·|bs| + B − 1` steps -/
theorem topParse_steps {α : Type} (body : Nat → Int → Dec → Top α → Top α × Dec) (c : Nat → Int → Dec → Top α → Nat)
    (B M : Nat) (hB : 2 ≤ B) (hM : 2 ≤ M) (hb : BodyClaim B M body c) (init : α) (bs : Bytes) :
    topParseSteps body c init bs + 2 ≤ 36 * bs.length + (B + 1) + M * bs.length := by
  unfold topParseSteps
  rw [structBegin_init]
  have hg : Good { Dec.init bs with lastId := [0] } := ⟨by simp [Dec.init], by simp [Dec.init], by simp [Dec.init]⟩
  have h := fieldLoop_steps (fun s => s.abort.isSome) body c B M hB hM hb (bs.length + 1)
    { Dec.init bs with lastId := [0] } ⟨init, none⟩ hg rfl (by simp [Dec.init])
  have hp := pen_le (B + 1) M { Dec.init bs with lastId := [0] }
    (fieldLoop (fun s => s.abort.isSome) body (bs.length + 1) { Dec.init bs with lastId := [0] } ⟨init, none⟩).2
  have hr : ({ Dec.init bs with lastId := [0] } : Dec).rest.length = bs.length := rfl
  rw [hr] at h hp
  omega

/-- **`parquet_parse_file_metadata` takes at most `44·|bs| + 5` steps on every byte string** -/
theorem parseFileMetaDataSteps_le (bs : Bytes) : parseFileMetaDataSteps Cfg.fixed bs ≤ 44 * bs.length + 5 := by
  have := topParse_steps (fileMetaDataBody Cfg.fixed) (fileMetaDataBodySteps Cfg.fixed) 6 8 (by omega) (by omega)
    fileMetaDataBody_claim (({}, {}) : FileMetaData × Required) bs
  unfold parseFileMetaDataSteps
  omega

/-- **`parquet_parse_page_header` takes at most `38·|bs| + 3` steps on every byte string** -/
theorem parsePageHeaderSteps_le (bs : Bytes) : parsePageHeaderSteps Cfg.fixed bs ≤ 38 * bs.length + 3 := by
  have := topParse_steps (pageHeaderBody Cfg.fixed) (pageHeaderBodySteps Cfg.fixed) 4 2 (by omega) (by omega)
    pageHeaderBody_claim (({}, {}) : PageHeader × Seen) bs
  unfold parsePageHeaderSteps
  omega

end Carquet.Proofs.ThriftSafe
