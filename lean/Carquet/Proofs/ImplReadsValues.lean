import Carquet.Proofs.ImplReadsDefs
import Carquet.Proofs.SpecFileChunkFull
import Carquet.Proofs.ReaderPageRoundtrip
import Carquet.Proofs.RleLevelsF58
import Carquet.Proofs.RleSpecEncoder
import Carquet.Proofs.RleDecoder
/-
C06, implementation half — stage "values": `carquet_read_data_page_v1` (levels by the repaired fast
path `carquet_rle_decode_levels`, PLAIN by the Impl decoders, dictionary indices by
`carquet_rle_decode_all` + gather) on the body of a v1 data page of the reference writer, and
`carquet_read_dictionary_page` on its PLAIN dictionary page.
-/
namespace Carquet.Proofs.ImplReads
open Carquet.Spec Carquet.Spec.File
open Carquet.Impl
open Carquet.Impl.Reader hiding Bytes
open Carquet.Proofs.SpecFile (validValue_length)


/-! ### little-endian lengths -/

theorem file_leBytes_eq (k n : Nat) : File.leBytes k n = Bitpack.leBytes k n := by
  induction k generalizing n with
  | zero => rfl
  | succ k ih => simp only [File.leBytes, Bitpack.leBytes, ih]

theorem plain_leBytes_eq (k n : Nat) : Spec.Plain.leBytes k n = Bitpack.leBytes k n := by
  induction k generalizing n with
  | zero => rfl
  | succ k ih => simp only [Spec.Plain.leBytes, Bitpack.leBytes, ih]

theorem le32_leBytes (n : Nat) (h : n < 2 ^ 32) (rest : Bytes) : le32 (Bitpack.leBytes 4 n ++ rest) = n := by
  unfold le32
  rw [List.take_left' (Carquet.Proofs.NatBits.leBytes_length 4 n), Carquet.Proofs.NatBits.leNat_leBytes]
  exact Nat.mod_eq_of_lt h

/-! ### the BYTE_ARRAY dictionary page -/

theorem encodeByteArray_cons (v : Bytes) (vs : List Bytes) :
    Spec.Plain.encodeByteArray (v :: vs) = Bitpack.leBytes 4 v.length ++ (v ++ Spec.Plain.encodeByteArray vs) := by
  simp [Spec.Plain.encodeByteArray, plain_leBytes_eq, List.append_assoc]

theorem dictScan_encode : ∀ (vs : List Bytes), (∀ v ∈ vs, v.length < 2 ^ 32) → ∀ (pre extra : Bytes),
    dictScan (pre ++ (Spec.Plain.encodeByteArray vs ++ extra)) vs.length pre.length = some (dictOffsets pre.length vs) := by
  intro vs
  induction vs with
  | nil => intro _ pre extra; rfl
  | cons v vs ih =>
    intro hv pre extra
    have hlen : v.length < 2 ^ 32 := hv v (by simp)
    have ih' := ih (fun w hw => hv w (by simp [hw])) (pre ++ (Bitpack.leBytes 4 v.length ++ v)) extra
    have hin : pre ++ (Spec.Plain.encodeByteArray (v :: vs) ++ extra)
        = (pre ++ (Bitpack.leBytes 4 v.length ++ v)) ++ (Spec.Plain.encodeByteArray vs ++ extra) := by
      rw [encodeByteArray_cons]; simp [List.append_assoc]
    have hdrop : List.drop pre.length (pre ++ (Spec.Plain.encodeByteArray (v :: vs) ++ extra))
        = Bitpack.leBytes 4 v.length ++ (v ++ (Spec.Plain.encodeByteArray vs ++ extra)) := by
      rw [List.drop_left, encodeByteArray_cons]; simp [List.append_assoc]
    have htot : (pre ++ (Spec.Plain.encodeByteArray (v :: vs) ++ extra)).length
        = pre.length + (4 + v.length) + (Spec.Plain.encodeByteArray vs).length + extra.length := by
      rw [encodeByteArray_cons]
      simp only [List.length_append, Carquet.Proofs.NatBits.leBytes_length]; omega
    have hpl : (pre ++ (Bitpack.leBytes 4 v.length ++ v)).length = pre.length + 4 + v.length := by
      simp only [List.length_append, Carquet.Proofs.NatBits.leBytes_length]; omega
    rw [List.length_cons, dictScan, hdrop, le32_leBytes _ hlen, htot, if_neg (by omega), if_neg (by omega)]
    rw [hin, ← hpl, ih', hpl]
    rfl

theorem dictOffsets_get : ∀ (vs : List Bytes), (∀ v ∈ vs, v.length < 2 ^ 32) → ∀ (pre extra : Bytes) (i : Nat) (v : Bytes),
    vs[i]? = some v →
    ∃ off, (dictOffsets pre.length vs)[i]? = some off ∧
      slice (pre ++ (Spec.Plain.encodeByteArray vs ++ extra)) (off + 4)
        (le32 ((pre ++ (Spec.Plain.encodeByteArray vs ++ extra)).drop off)) = v := by
  intro vs
  induction vs with
  | nil => intro _ pre extra i v h; simp at h
  | cons w vs ih =>
    intro hv pre extra i v h
    have hlen : w.length < 2 ^ 32 := hv w (by simp)
    have hin : pre ++ (Spec.Plain.encodeByteArray (w :: vs) ++ extra)
        = (pre ++ (Bitpack.leBytes 4 w.length ++ w)) ++ (Spec.Plain.encodeByteArray vs ++ extra) := by
      rw [encodeByteArray_cons]; simp [List.append_assoc]
    have hpl : (pre ++ (Bitpack.leBytes 4 w.length ++ w)).length = pre.length + 4 + w.length := by
      simp only [List.length_append, Carquet.Proofs.NatBits.leBytes_length]; omega
    cases i with
    | zero =>
      simp only [List.getElem?_cons_zero, Option.some.injEq] at h
      subst h
      refine ⟨pre.length, by simp [dictOffsets], ?_⟩
      have hdrop : List.drop pre.length (pre ++ (Spec.Plain.encodeByteArray (w :: vs) ++ extra))
          = Bitpack.leBytes 4 w.length ++ (w ++ (Spec.Plain.encodeByteArray vs ++ extra)) := by
        rw [List.drop_left, encodeByteArray_cons]; simp [List.append_assoc]
      rw [hdrop, le32_leBytes _ hlen]
      unfold slice
      rw [← List.drop_drop, hdrop, List.drop_left' (Carquet.Proofs.NatBits.leBytes_length 4 _), List.take_left]
    | succ i =>
      simp only [List.getElem?_cons_succ] at h
      obtain ⟨off, ho, hs⟩ := ih (fun x hx => hv x (by simp [hx])) (pre ++ (Bitpack.leBytes 4 w.length ++ w)) extra i v h
      refine ⟨off, ?_, ?_⟩
      · simp only [dictOffsets, List.getElem?_cons_succ]
        rw [← hpl]; exact ho
      · rw [hin]; exact hs

/-! ### the dictionary page -/

/-- **the dictionary page**: the PLAIN page of `values` is loaded as `dictOf leaf values` -/
theorem readDictionaryPage_written (leaf : LeafInfo) (cm : ThriftParquet.ColumnMetaData) (values : List Bytes)
    (hvalid : ∀ v ∈ values, validValue leaf v = true) (hnb : leaf.ptype ≠ .boolean)
    (hflba : leaf.ptype = .flba → 0 < leaf.typeLength)
    (hsz : (plainEncode leaf values).length < 2 ^ 31) (hn : values.length < 2 ^ 31) :
    (readDictionaryPage Fixes.all (colOfLeaf leaf cm) (plainEncode leaf values) (values.length : Int)).1 =
      .ok (dictOf leaf values) := by
  have hfix : ∀ (code k : Nat), (code : Int) ≠ 6 → fixedWidth (code : Int) = true →
      dictValueSize (code : Int) (leaf.typeLength : Int) = k → (∀ v ∈ values, v.length = k) →
      (readDictionaryPage Fixes.all ⟨cm, leaf.maxDef, leaf.maxRep, (code : Int), (leaf.typeLength : Int)⟩
        values.flatten (values.length : Int)).1 = .ok ⟨values.flatten, (values.length : Int), []⟩ := by
    intro code k h6 hfw hk hl
    have hlen := Carquet.Proofs.Dictionary.flatten_length_of_all values hl
    unfold readDictionaryPage
    simp only [h6, if_false, hfw, not_true_eq_false, hk, Int.toNat_natCast]
    rw [if_neg (by rw [hlen, Nat.mul_comm]; omega), List.take_of_length_le (by rw [hlen, Nat.mul_comm]; omega)]
  have hvl := fun v hm => validValue_length (hvalid v hm)
  unfold colOfLeaf dictOf plainEncode
  cases hp : leaf.ptype with
  | boolean => exact absurd hp hnb
  | int32 =>
    simp only [reduceCtorEq, if_false, Spec.Plain.encodeFlba]
    exact hfix 1 4 (by decide) (by decide) (by simp [dictValueSize]) (fun v hm => (hvl v hm).1 hp)
  | int64 =>
    simp only [reduceCtorEq, if_false, Spec.Plain.encodeFlba]
    exact hfix 2 8 (by decide) (by decide) (by simp [dictValueSize]) (fun v hm => (hvl v hm).2.1 hp)
  | int96 =>
    simp only [reduceCtorEq, if_false, Spec.Plain.encodeFlba]
    exact hfix 3 12 (by decide) (by decide) (by simp [dictValueSize]) (fun v hm => (hvl v hm).2.2.1 hp)
  | float =>
    simp only [reduceCtorEq, if_false, Spec.Plain.encodeFlba]
    exact hfix 4 4 (by decide) (by decide) (by simp [dictValueSize]) (fun v hm => (hvl v hm).2.2.2.1 hp)
  | double =>
    simp only [reduceCtorEq, if_false, Spec.Plain.encodeFlba]
    exact hfix 5 8 (by decide) (by decide) (by simp [dictValueSize]) (fun v hm => (hvl v hm).2.2.2.2.1 hp)
  | flba =>
    simp only [reduceCtorEq, if_false, Spec.Plain.encodeFlba]
    exact hfix 7 leaf.typeLength (by decide) (by decide) (by simp [dictValueSize]) (fun v hm => (hvl v hm).2.2.2.2.2.1 hp)
  | byteArray =>
    simp only [if_true]
    have hs := dictScan_encode values (fun v hm => Nat.lt_trans ((hvl v hm).2.2.2.2.2.2.1 hp) (by decide)) [] []
    simp only [List.nil_append, List.append_nil, List.length_nil] at hs
    unfold readDictionaryPage
    have e6 : ((ptypeCode Order.PType.byteArray : Nat) : Int) = 6 := rfl
    simp only [e6, if_true, Int.toNat_natCast, hs]

/-! ### levels -/

theorem levelWidth_le (m : Nat) (h : m < 32768) : levelWidth m ≤ 32 := by
  unfold levelWidth
  split
  · omega
  · rename_i h0
    have : m.log2 < 15 := (Nat.log2_lt h0).mpr (by omega)
    omega

/-- one level block of the reference writer, whatever follows it -/
theorem levelBlock_written (maxLevel : Nat) (runs : List RleHybrid.Choice) (ls : List Nat) (bs rest : Bytes)
    (h0 : maxLevel ≠ 0) (hmax : maxLevel < 32768)
    (hb : levelBytes maxLevel runs ls = some bs) (hle : ∀ l ∈ ls, l ≤ maxLevel) (hlen : bs.length < 2 ^ 32) :
    levelBlock Fixes.all maxLevel ls.length (prefixed bs ++ rest) = .ok (ls, rest) := by
  unfold levelBytes at hb
  simp only [h0, if_false] at hb
  obtain ⟨pad, hruns⟩ := Carquet.Proofs.RleSpecEncoder.encodeWith_sound _ _ _ _ hb
  have hw : bitWidthForMax maxLevel = levelWidth maxLevel := rfl
  have hdec := Carquet.Proofs.RleLevels.decodeLevels_of_runs (levelWidth_le maxLevel hmax) hruns ls.length (by simp)
    (by
      intro v hv
      rw [List.take_left] at hv
      exact Nat.lt_of_le_of_lt (hle v hv) hmax)
  rw [List.take_left] at hdec
  have hpre : prefixed bs ++ rest = Bitpack.leBytes 4 bs.length ++ (bs ++ rest) := by
    unfold prefixed; rw [file_leBytes_eq, List.append_assoc]
  have h4 : (Bitpack.leBytes 4 bs.length).length = 4 := Carquet.Proofs.NatBits.leBytes_length 4 _
  have hl : (prefixed bs ++ rest).length = 4 + bs.length + rest.length := by
    rw [hpre]; simp only [List.length_append, h4]; omega
  have hle32 : le32 (prefixed bs ++ rest) = bs.length := by rw [hpre]; exact le32_leBytes _ hlen _
  have hdt : ((prefixed bs ++ rest).drop 4).take bs.length = bs := by
    rw [hpre, List.drop_left' h4, List.take_left]
  have hdd : (prefixed bs ++ rest).drop (4 + bs.length) = rest := by
    rw [hpre, ← List.drop_drop, List.drop_left' h4, List.drop_left]
  have hmap : (ls.map Int.ofNat).map Int.toNat = ls := by
    rw [List.map_map]
    conv => rhs; rw [← List.map_id ls]
    apply List.map_congr_left
    intro d _; simp
  unfold levelBlock
  rw [if_neg (by omega), hle32, if_neg (by omega), hw, hdt, hdec]
  simp only [List.length_map, ne_eq, not_true_eq_false, if_false, hmap, hdd]

theorem wf_rep_le {leaf : LeafInfo} {es : List Entry} (hwf : ∀ e ∈ es, wellFormedEntry leaf e = true) :
    ∀ l ∈ es.map (·.rep), l ≤ leaf.maxRep := by
  intro l hl
  obtain ⟨e, he, rfl⟩ := List.mem_map.mp hl
  have := hwf e he
  unfold wellFormedEntry at this
  simp only [Bool.and_eq_true, decide_eq_true_eq] at this
  exact this.1.1

theorem wf_def_le {leaf : LeafInfo} {es : List Entry} (hwf : ∀ e ∈ es, wellFormedEntry leaf e = true) :
    ∀ l ∈ es.map (·.dl), l ≤ leaf.maxDef := by
  intro l hl
  obtain ⟨e, he, rfl⟩ := List.mem_map.mp hl
  have := hwf e he
  unfold wellFormedEntry at this
  simp only [Bool.and_eq_true, decide_eq_true_eq] at this
  exact this.1.2

theorem wf_vals {leaf : LeafInfo} {es : List Entry} (hwf : ∀ e ∈ es, wellFormedEntry leaf e = true) :
    ∀ v ∈ es.filterMap (·.val), validValue leaf v = true := by
  intro v hv
  obtain ⟨e, he, hev⟩ := List.mem_filterMap.mp hv
  have := hwf e he
  unfold wellFormedEntry at this
  rw [hev] at this
  simp only [Bool.and_eq_true] at this
  exact this.2.2

/-- `rep_levels` of a page body -/
theorem repLevels_written (leaf : LeafInfo) (cm : ThriftParquet.ColumnMetaData) (es : List Entry)
    (runs : List RleHybrid.Choice) (bs rest : Bytes) (hmax : leaf.maxRep < 32768)
    (hb : levelBytes leaf.maxRep runs (es.map (·.rep)) = some bs) (hwf : ∀ e ∈ es, wellFormedEntry leaf e = true)
    (hlen : leaf.maxRep ≠ 0 → bs.length < 2 ^ 32) :
    repLevels Fixes.all (colOfLeaf leaf cm) es.length ((if leaf.maxRep = 0 then [] else prefixed bs) ++ rest) =
      .ok (es.map (·.rep), rest) := by
  unfold repLevels colOfLeaf
  by_cases h0 : leaf.maxRep = 0
  · have hz := Carquet.Proofs.SpecFile.all_zero_of_le_zero (es.map (·.rep)) (by
      intro l hl; have := wf_rep_le hwf l hl; omega)
    simp only [List.length_map] at hz
    simp only [h0, Nat.lt_irrefl, if_false, if_true, List.nil_append]
    rw [← hz]
  · have := levelBlock_written leaf.maxRep runs (es.map (·.rep)) bs rest h0 hmax hb (wf_rep_le hwf) (hlen h0)
    simp only [List.length_map] at this
    simp only [h0, if_false, Nat.pos_of_ne_zero h0, if_true, this]

/-- `def_levels` of a page body -/
theorem defLevels_written (leaf : LeafInfo) (cm : ThriftParquet.ColumnMetaData) (es : List Entry)
    (runs : List RleHybrid.Choice) (bs rest : Bytes) (hmax : leaf.maxDef < 32768)
    (hb : levelBytes leaf.maxDef runs (es.map (·.dl)) = some bs) (hwf : ∀ e ∈ es, wellFormedEntry leaf e = true)
    (hlen : leaf.maxDef ≠ 0 → bs.length < 2 ^ 32) :
    defLevels Fixes.all (colOfLeaf leaf cm) es.length ((if leaf.maxDef = 0 then [] else prefixed bs) ++ rest) =
      .ok (es.map (·.dl), rest) := by
  unfold defLevels colOfLeaf
  by_cases h0 : leaf.maxDef = 0
  · have hz := Carquet.Proofs.SpecFile.all_zero_of_le_zero (es.map (·.dl)) (by
      intro l hl; have := wf_def_le hwf l hl; omega)
    simp only [List.length_map] at hz
    simp only [h0, Nat.lt_irrefl, if_false, if_true, List.nil_append]
    rw [← hz]
  · have := levelBlock_written leaf.maxDef runs (es.map (·.dl)) bs rest h0 hmax hb (wf_def_le hwf) (hlen h0)
    simp only [List.length_map] at this
    simp only [h0, if_false, Nat.pos_of_ne_zero h0, if_true, this]

/-- `non_null_count` is the number of dense values -/
theorem nonNullCount_written (leaf : LeafInfo) (cm : ThriftParquet.ColumnMetaData) : ∀ (es : List Entry),
    (∀ e ∈ es, wellFormedEntry leaf e = true) →
    Reader.nonNullCount (colOfLeaf leaf cm) (es.map (·.dl)) = (es.filterMap (·.val)).length := by
  intro es hwf
  unfold Reader.nonNullCount colOfLeaf
  simp only []
  induction es with
  | nil => simp
  | cons e r ih =>
    have ih' := ih (fun x hx => hwf x (by simp [hx]))
    have he := hwf e (by simp)
    obtain ⟨rp, d, v⟩ := e
    unfold wellFormedEntry at he
    cases v with
    | none =>
      simp only [Bool.and_eq_true, decide_eq_true_eq] at he
      have hne : (d == leaf.maxDef) = false := by simp; omega
      have hpos : leaf.maxDef > 0 := by omega
      simp only [hpos, if_true, List.map_cons, List.filterMap_cons] at ih' ⊢
      rw [List.countP_cons_of_neg (by simp [hne])]
      exact ih'
    | some val =>
      simp only [Bool.and_eq_true, decide_eq_true_eq, beq_iff_eq] at he
      have hd : (d == leaf.maxDef) = true := by simp [he.2.1]
      simp only [List.map_cons, List.filterMap_cons, List.length_cons]
      split
      · rename_i hpos
        rw [if_pos hpos] at ih'
        rw [List.countP_cons_of_pos (by simp [hd]), ih']
      · rename_i hpos
        rw [if_neg hpos] at ih'
        rw [ih']

/-! ### PLAIN values -/

theorem plainValues_written (leaf : LeafInfo) (vs : List Bytes) (hv : ∀ v ∈ vs, validValue leaf v = true)
    (hflba : leaf.ptype = .flba → 0 < leaf.typeLength) (hsz : (plainEncode leaf vs).length < 2 ^ 64) :
    plainValues ((ptypeCode leaf.ptype : Nat) : Int) (leaf.typeLength : Int) (plainEncode leaf vs) vs.length = .ok vs := by
  have hvl := fun v hm => validValue_length (hv v hm)
  unfold plainEncode at hsz ⊢
  cases hp : leaf.ptype with
  | boolean =>
    simp only [ptypeCode]
    have hb : ∀ v ∈ vs, v = [0] ∨ v = [1] := fun v hm => (hvl v hm).2.2.2.2.2.2.2 hp
    have hrt := (Carquet.Properties.C11.C11_plain_boolean_roundtrip (vs.map (fun v => v.headD 0)) []).1
    rw [List.append_nil, List.length_map] at hrt
    have henc : Impl.Plain.encodeBoolean (vs.map (fun v => v.headD 0)) = Spec.Plain.encodeBool (vs.map (fun v => v == [1])) := by
      rw [Impl.Plain.encodeBoolean, Carquet.Proofs.Plain.packBools_eq_spec, List.map_map]
      congr 1
      apply List.map_congr_left
      intro v hm
      rcases hb v hm with h0 | h1
      · subst h0; rfl
      · subst h1; rfl
    rw [henc] at hrt
    simp only [Reader.plainValues, Int.natCast_zero, if_true, hrt, plainRes]
    congr 1
    rw [List.map_map, List.map_map]
    conv => rhs; rw [← List.map_id vs]
    apply List.map_congr_left
    intro v hm
    rcases hb v hm with h0 | h1
    · subst h0; rfl
    · subst h1; rfl
  | int32 =>
    rw [hp] at hsz
    simp only [ptypeCode, Spec.Plain.encodeFlba] at hsz ⊢
    exact Carquet.Proofs.ReaderPageRoundtrip.fixed_roundtrip 1 leaf.typeLength 4 vs (by simp [valueSize]) (by decide)
      (by intro h7; cases h7) (fun v hm => (hvl v hm).1 hp) hsz
  | int64 =>
    rw [hp] at hsz
    simp only [ptypeCode, Spec.Plain.encodeFlba] at hsz ⊢
    exact Carquet.Proofs.ReaderPageRoundtrip.fixed_roundtrip 2 leaf.typeLength 8 vs (by simp [valueSize]) (by decide)
      (by intro h7; cases h7) (fun v hm => (hvl v hm).2.1 hp) hsz
  | int96 =>
    rw [hp] at hsz
    simp only [ptypeCode, Spec.Plain.encodeFlba] at hsz ⊢
    exact Carquet.Proofs.ReaderPageRoundtrip.fixed_roundtrip 3 leaf.typeLength 12 vs (by simp [valueSize]) (by decide)
      (by intro h7; cases h7) (fun v hm => (hvl v hm).2.2.1 hp) hsz
  | float =>
    rw [hp] at hsz
    simp only [ptypeCode, Spec.Plain.encodeFlba] at hsz ⊢
    exact Carquet.Proofs.ReaderPageRoundtrip.fixed_roundtrip 4 leaf.typeLength 4 vs (by simp [valueSize]) (by decide)
      (by intro h7; cases h7) (fun v hm => (hvl v hm).2.2.2.1 hp) hsz
  | double =>
    rw [hp] at hsz
    simp only [ptypeCode, Spec.Plain.encodeFlba] at hsz ⊢
    exact Carquet.Proofs.ReaderPageRoundtrip.fixed_roundtrip 5 leaf.typeLength 8 vs (by simp [valueSize]) (by decide)
      (by intro h7; cases h7) (fun v hm => (hvl v hm).2.2.2.2.1 hp) hsz
  | flba =>
    rw [hp] at hsz
    simp only [ptypeCode, Spec.Plain.encodeFlba] at hsz ⊢
    exact Carquet.Proofs.ReaderPageRoundtrip.fixed_roundtrip 7 leaf.typeLength leaf.typeLength vs (by simp [valueSize]) (by decide)
      (by intro _; exact_mod_cast hflba hp) (fun v hm => (hvl v hm).2.2.2.2.2.1 hp) hsz
  | byteArray =>
    simp only [ptypeCode]
    have h31 : ∀ v ∈ vs, v.length < 2 ^ 31 := fun v hm => (hvl v hm).2.2.2.2.2.2.1 hp
    obtain ⟨slices, hd, hs⟩ := Carquet.Properties.C11.C11_plain_byte_array_roundtrip vs [] h31
    rw [List.append_nil] at hd hs
    rw [Carquet.Proofs.Plain.encodeByteArray_eq_spec vs (fun v hm => Nat.lt_trans (h31 v hm) (by decide))] at hd hs
    have e6 : ((6 : Nat) : Int) = 6 := rfl
    simp only [Reader.plainValues, e6, Int.reduceEq, ↓reduceIte, hd, plainRes, hs]

/-! ### dictionary-encoded values -/

theorem gatherBytes_written (d : List Bytes) (hd : ∀ v ∈ d, v.length < 2 ^ 32) (hlen : d.length < 2 ^ 31) :
    ∀ (vals : List Bytes), (∀ v ∈ vals, v ∈ d) →
    gatherBytes ⟨Spec.Plain.encodeByteArray d, (d.length : Int), dictOffsets 0 d⟩
      (vals.map (fun v => Spec.Dictionary.indexIn v d)) = .ok vals := by
  intro vals
  induction vals with
  | nil => intro _; rfl
  | cons v r ih =>
    intro h
    have hm : v ∈ d := h v (by simp)
    have hi := Carquet.Proofs.SpecFile.getElem?_indexIn v d hm
    have hlt : Spec.Dictionary.indexIn v d < d.length := by
      apply Classical.byContradiction
      intro hn
      rw [List.getElem?_eq_none (by omega)] at hi
      cases hi
    obtain ⟨off, ho, hs⟩ := dictOffsets_get d hd [] [] _ v hi
    simp only [List.nil_append, List.append_nil, List.length_nil] at ho hs
    have has : Impl.Dictionary.asInt32 (Spec.Dictionary.indexIn v d) = (Spec.Dictionary.indexIn v d : Int) := by
      unfold Impl.Dictionary.asInt32; rw [if_pos (by omega)]
    simp only [List.map_cons, gatherBytes, has, ho, hs, ih (fun x hx => h x (by simp [hx]))]
    rw [if_neg (by omega)]

theorem gatherFixed_written (k : Nat) (d : List Bytes) (hd : ∀ v ∈ d, v.length = k) (hlen : d.length < 2 ^ 31)
    (vals : List Bytes) (h : ∀ v ∈ vals, v ∈ d) :
    gatherFixed k ⟨d.flatten, (d.length : Int), []⟩ (vals.map (fun v => Spec.Dictionary.indexIn v d)) = .ok vals := by
  have hlt : ∀ v ∈ vals, Spec.Dictionary.indexIn v d < d.length := by
    intro v hm
    have hi := Carquet.Proofs.SpecFile.getElem?_indexIn v d (h v hm)
    apply Classical.byContradiction
    intro hn
    rw [List.getElem?_eq_none (by omega)] at hi
    cases hi
  unfold gatherFixed
  have hany : (vals.map (fun v => Spec.Dictionary.indexIn v d)).any
      (fun i => decide ((i : Int) ≥ ((d.length : Int) % 4294967296))) = false := by
    rw [List.any_eq_false]
    intro i hi
    obtain ⟨v, hm, rfl⟩ := List.mem_map.mp hi
    have := hlt v hm
    simp only [decide_eq_true_eq]
    omega
  simp only [hany, Bool.false_eq_true, if_false]
  congr 1
  rw [List.map_map]
  conv => rhs; rw [← List.map_id vals]
  apply List.map_congr_left
  intro v hm
  have hi := Carquet.Proofs.SpecFile.getElem?_indexIn v d (h v hm)
  have hr := Carquet.Proofs.Dictionary.readAt_flatten d hd _ v hi
  unfold Impl.Dictionary.readAt at hr
  split at hr
  · simp only [Option.some.injEq] at hr
    simp only [Function.comp, slice, id]
    exact hr
  · cases hr

/-- the dictionary branch on the value section of the reference writer -/
theorem dictValues_written (leaf : LeafInfo) (cm : ThriftParquet.ColumnMetaData) (d : List Bytes)
    (tag w : Nat) (runs : List RleHybrid.Choice) (vals : List Bytes) (valB : Bytes)
    (hv : valueBytes leaf (some d) (.dict tag w runs) vals = some valB)
    (hdv : ∀ v ∈ d, validValue leaf v = true) (hnb : leaf.ptype ≠ .boolean)
    (hflba : leaf.ptype = .flba → 0 < leaf.typeLength) (hdl : d.length < 2 ^ 31) :
    dictValues Fixes.all (colOfLeaf leaf cm) (some (dictOf leaf d)) valB vals.length = .ok vals := by
  simp only [valueBytes] at hv
  split at hv
  · cases hv
  · rename_i hcond
    have hw : w ≤ 32 := by omega
    have hall : ∀ v ∈ vals, v ∈ d := by
      intro v hm
      have : vals.all (fun v => d.contains v) = true := by
        apply Classical.byContradiction; intro hn; exact hcond (Or.inr hn)
      rw [List.all_eq_true] at this
      simpa using this v hm
    cases he : RleHybrid.encodeWith w runs (vals.map (fun v => Spec.Dictionary.indexIn v d)) with
    | none => simp [he] at hv
    | some bs =>
      simp only [he, Option.some.injEq] at hv
      subst hv
      obtain ⟨pad, hruns⟩ := Carquet.Proofs.RleSpecEncoder.encodeWith_sound _ _ _ _ he
      have hdec : Rle.decodeAll w bs vals.length = vals.map (fun v => Spec.Dictionary.indexIn v d) := by
        rw [Carquet.Proofs.RleDecoder.decodeAll_eq w hw, Carquet.Proofs.RleGrammar.allValues_of_runs hw hruns]
        have hlen : (vals.map (fun v => Spec.Dictionary.indexIn v d)).length = vals.length := by simp
        rw [← hlen, List.take_left]
      have hvl := fun v hm => validValue_length (hdv v hm)
      have hfix : ∀ (code k : Nat), (code : Int) ≠ 6 → fixedWidth (code : Int) = true → k ≠ 0 →
          dictValueSize (code : Int) (leaf.typeLength : Int) = k → (∀ v ∈ d, v.length = k) →
          dictValues Fixes.all ⟨cm, leaf.maxDef, leaf.maxRep, (code : Int), (leaf.typeLength : Int)⟩
            (some ⟨d.flatten, (d.length : Int), []⟩) (UInt8.ofNat w :: bs) vals.length = .ok vals := by
        intro code k h6 hfw hk0 hk hl
        unfold dictValues
        simp only [Carquet.Proofs.SpecFile.uint8_ofNat_toNat_le32 w hw, show ¬ (w > 32) by omega, if_false, hdec,
          List.length_map, ne_eq, not_true_eq_false, h6, hk, hk0, hfw, or_self]
        exact gatherFixed_written k d hl hdl vals hall
      unfold colOfLeaf dictOf plainEncode
      cases hp : leaf.ptype with
      | boolean => exact absurd hp hnb
      | int32 =>
        simp only [reduceCtorEq, if_false, Spec.Plain.encodeFlba]
        exact hfix 1 4 (by decide) (by decide) (by decide) (by simp [dictValueSize]) (fun v hm => (hvl v hm).1 hp)
      | int64 =>
        simp only [reduceCtorEq, if_false, Spec.Plain.encodeFlba]
        exact hfix 2 8 (by decide) (by decide) (by decide) (by simp [dictValueSize]) (fun v hm => (hvl v hm).2.1 hp)
      | int96 =>
        simp only [reduceCtorEq, if_false, Spec.Plain.encodeFlba]
        exact hfix 3 12 (by decide) (by decide) (by decide) (by simp [dictValueSize]) (fun v hm => (hvl v hm).2.2.1 hp)
      | float =>
        simp only [reduceCtorEq, if_false, Spec.Plain.encodeFlba]
        exact hfix 4 4 (by decide) (by decide) (by decide) (by simp [dictValueSize]) (fun v hm => (hvl v hm).2.2.2.1 hp)
      | double =>
        simp only [reduceCtorEq, if_false, Spec.Plain.encodeFlba]
        exact hfix 5 8 (by decide) (by decide) (by decide) (by simp [dictValueSize]) (fun v hm => (hvl v hm).2.2.2.2.1 hp)
      | flba =>
        simp only [reduceCtorEq, if_false, Spec.Plain.encodeFlba]
        exact hfix 7 leaf.typeLength (by decide) (by decide) (by have := hflba hp; omega) (by simp [dictValueSize])
          (fun v hm => (hvl v hm).2.2.2.2.2.1 hp)
      | byteArray =>
        simp only [if_true]
        have e6 : ((ptypeCode Order.PType.byteArray : Nat) : Int) = 6 := rfl
        unfold dictValues
        simp only [Carquet.Proofs.SpecFile.uint8_ofNat_toNat_le32 w hw, show ¬ (w > 32) by omega, if_false, hdec,
          List.length_map, ne_eq, not_true_eq_false, e6, if_true]
        exact gatherBytes_written d (fun v hm => Nat.lt_trans ((hvl v hm).2.2.2.2.2.2.1 hp) (by decide)) hdl vals hall

/-- **one data page body**: levels in any run plan, PLAIN or dictionary-encoded values (either tag, any
index run plan, width ≤ 32) come back as the entries' levels and dense values -/
theorem readDataPageV1_written (leaf : LeafInfo) (cm : ThriftParquet.ColumnMetaData) (dict : Option (List Bytes))
    (enc : ValueEnc) (es : List Entry) (repRuns defRuns : List RleHybrid.Choice) (repB defB valB : Bytes)
    (hr : levelBytes leaf.maxRep repRuns (es.map (·.rep)) = some repB)
    (hd : levelBytes leaf.maxDef defRuns (es.map (·.dl)) = some defB)
    (hv : valueBytes leaf dict enc (es.filterMap (·.val)) = some valB)
    (henc : valuesOk enc = true)
    (hwf : ∀ e ∈ es, wellFormedEntry leaf e = true)
    (hdictv : ∀ d, dict = some d → ∀ v ∈ d, validValue leaf v = true)
    (hnb : ∀ tag w runs, enc = .dict tag w runs → leaf.ptype ≠ .boolean)
    (hflba : leaf.ptype = .flba → 0 < leaf.typeLength)
    (hlev : leaf.maxDef < 32768 ∧ leaf.maxRep < 32768)
    (hsz : (v1Body leaf .v1 es repB defB valB).length < 2 ^ 31)
    (hdsz : ∀ d, dict = some d → (plainEncode leaf d).length < 2 ^ 31 ∧ d.length < 2 ^ 31) :
    readDataPageV1 Fixes.all (colOfLeaf leaf cm) (dict.map (dictOf leaf)) (v1Body leaf .v1 es repB defB valB) es.length
      (valueEncTag enc) = .ok (decodedOfEntries es) := by
  have hbody : v1Body leaf .v1 es repB defB valB =
      (if leaf.maxRep = 0 then [] else prefixed repB) ++ ((if leaf.maxDef = 0 then [] else prefixed defB) ++ valB) := by
    simp [v1Body, List.append_assoc]
  rw [hbody] at hsz ⊢
  have hpl : ∀ bs : Bytes, (prefixed bs).length = 4 + bs.length := by
    intro bs; unfold prefixed; rw [List.length_append, Carquet.Proofs.SpecFile.leBytes_length]
  have hrl : leaf.maxRep ≠ 0 → repB.length < 2 ^ 32 := by
    intro h0
    simp only [h0, if_false, List.length_append, hpl] at hsz
    omega
  have hdl : leaf.maxDef ≠ 0 → defB.length < 2 ^ 32 := by
    intro h0
    simp only [h0, if_false, List.length_append, hpl] at hsz
    omega
  have hvl : valB.length < 2 ^ 31 := by
    simp only [List.length_append] at hsz
    omega
  have h1 := repLevels_written leaf cm es repRuns repB ((if leaf.maxDef = 0 then [] else prefixed defB) ++ valB)
    hlev.2 hr hwf hrl
  have h2 := defLevels_written leaf cm es defRuns defB valB hlev.1 hd hwf hdl
  have hnn := nonNullCount_written leaf cm es hwf
  have hvals := wf_vals hwf
  have h3 : decodeValues Fixes.all (colOfLeaf leaf cm) (dict.map (dictOf leaf)) (valueEncTag enc) valB
      (es.filterMap (·.val)).length = .ok (es.filterMap (·.val)) := by
    cases enc with
    | plain =>
      simp only [valueBytes, Option.some.injEq] at hv
      subst hv
      simp only [decodeValues, valueEncTag, if_true, colOfLeaf]
      exact plainValues_written leaf _ hvals hflba (Nat.lt_trans hvl (by decide))
    | other tag payload => cases henc
    | dict tag w runs =>
      simp only [valuesOk, Bool.or_eq_true, beq_iff_eq] at henc
      have hne0 : ¬ ((tag : Int) = 0) := by rcases henc with rfl | rfl <;> decide
      have h28 : (tag : Int) = 8 ∨ (tag : Int) = 2 := by rcases henc with rfl | rfl <;> simp
      cases dict with
      | none => simp [valueBytes] at hv
      | some d =>
        simp only [decodeValues, valueEncTag, hne0, if_false, h28, if_true, Option.map_some]
        exact dictValues_written leaf cm d tag w runs _ valB hv (hdictv d rfl) (hnb tag w runs rfl) hflba (hdsz d rfl).2
  unfold readDataPageV1
  simp only [h1, h2, hnn, h3, decodedOfEntries]

end Carquet.Proofs.ImplReads
