import Carquet.Impl.ThriftParquet
/-
Safety of the Thrift compact decoder on ARBITRARY bytes (C04 / C08 for the metadata parser).

`Adv d d'` ("`d'` is reached from `d` by reading forward") packs the invariants every decoder
function maintains, whatever the bytes are:
  * the remaining bytes of `d'` are a suffix of those of `d`, and `pos` has advanced by exactly
    the number of bytes dropped (so `pos + |rest|` is constant: no read beyond the end);
  * the loop budget is unchanged;
  * an OK status at the end means an OK status at the start and the same nesting level;
  * the model artefacts `Err.fuel` (a `while (read_field_begin)` loop ran out of its budget) and
    `Err.stack` (`thrift_skip` needed more frames than granted) are never *introduced*.
Every function of Impl.Thrift is shown to be `Adv` from any `Good` state (budget larger than the
remaining bytes), `thrift_skip` for every stack grant of at least `maxNesting + 1 - nesting_level`
frames.
-/
namespace Carquet.Proofs.ThriftSafe
open Carquet.Impl.Thrift

/-- the loop budget exceeds the remaining bytes (true initially: `budget = size + 1`) and neither
model artefact has been reported so far -/
structure Good (d : Dec) : Prop where
  bud : d.rest.length < d.budget
  nofuel : d.status ≠ some .fuel
  nostack : d.status ≠ some .stack

structure Adv (d d' : Dec) : Prop where
  bud : d'.budget = d.budget
  rest : ∃ pre, d.rest = pre ++ d'.rest ∧ d'.pos = d.pos + pre.length
  ok : d'.status = none → d.status = none
  depth : d'.status = none → d'.lastId.length = d.lastId.length
  fuel : d'.status = some .fuel → d.status = some .fuel
  stack : d'.status = some .stack → d.status = some .stack

theorem Adv.refl (d : Dec) : Adv d d :=
  ⟨rfl, ⟨[], by simp, by simp⟩, id, fun _ => rfl, id, id⟩

theorem Adv.trans {a b c : Dec} (h1 : Adv a b) (h2 : Adv b c) : Adv a c := by
  obtain ⟨p1, hr1, hp1⟩ := h1.rest
  obtain ⟨p2, hr2, hp2⟩ := h2.rest
  exact ⟨h2.bud.trans h1.bud,
    ⟨p1 ++ p2, by rw [hr1, hr2, List.append_assoc], by rw [hp2, hp1, List.length_append]; omega⟩,
    fun h => h1.ok (h2.ok h), fun h => (h2.depth h).trans (h1.depth (h2.ok h)),
    fun h => h1.fuel (h2.fuel h), fun h => h1.stack (h2.stack h)⟩

theorem Adv.len {d d' : Dec} (h : Adv d d') : d'.rest.length ≤ d.rest.length := by
  obtain ⟨p, hr, _⟩ := h.rest
  rw [hr, List.length_append]; omega

/-- `pos + remaining` is constant: the position never passes the end of the buffer -/
theorem Adv.pos_len {d d' : Dec} (h : Adv d d') : d'.pos + d'.rest.length = d.pos + d.rest.length := by
  obtain ⟨p, hr, hp⟩ := h.rest
  rw [hr, hp, List.length_append]; omega

theorem Adv.good {d d' : Dec} (h : Adv d d') (g : Good d) : Good d' := by
  refine ⟨?_, fun hf => g.nofuel (h.fuel hf), fun hf => g.nostack (h.stack hf)⟩
  have := h.len
  have := g.bud
  rw [h.bud]; omega

/-- the general way to show `Adv`: `pre` was consumed, the nesting level is the same (when the
result is OK), the status is unchanged or became an error other than the two artefacts -/
theorem Adv.step' (d d' : Dec) (pre : List UInt8) (hb : d'.budget = d.budget) (hr : d.rest = pre ++ d'.rest)
    (hp : d'.pos = d.pos + pre.length) (hl : d'.status = none → d'.lastId.length = d.lastId.length)
    (hs : d'.status = d.status ∨ ∃ e, d'.status = some e ∧ e ≠ .fuel ∧ e ≠ .stack) : Adv d d' := by
  refine ⟨hb, ⟨pre, hr, hp⟩, ?_, hl, ?_, ?_⟩
  · intro h
    rcases hs with hs | ⟨e, he, _, _⟩
    · rw [← hs]; exact h
    · rw [he] at h; cases h
  · intro h
    rcases hs with hs | ⟨e, he, hf, _⟩
    · rw [← hs]; exact h
    · rw [he] at h; cases h; exact absurd rfl hf
  · intro h
    rcases hs with hs | ⟨e, he, _, hk⟩
    · rw [← hs]; exact h
    · rw [he] at h; cases h; exact absurd rfl hk

theorem Adv.step (d d' : Dec) (pre : List UInt8) (hb : d'.budget = d.budget) (hr : d.rest = pre ++ d'.rest)
    (hp : d'.pos = d.pos + pre.length) (hl : d'.lastId.length = d.lastId.length)
    (hs : d'.status = d.status ∨ ∃ e, d'.status = some e ∧ e ≠ .fuel ∧ e ≠ .stack) : Adv d d' :=
  Adv.step' d d' pre hb hr hp (fun _ => hl) hs

theorem setError_status (d : Dec) (e : Err) :
    (d.setError e).status = d.status ∨ (d.status = none ∧ (d.setError e).status = some e) := by
  unfold Dec.setError
  cases h : d.status with
  | none => exact Or.inr ⟨rfl, rfl⟩
  | some x => exact Or.inl h

@[simp] theorem setError_rest (d : Dec) (e : Err) : (d.setError e).rest = d.rest := by
  unfold Dec.setError; cases d.status <;> rfl
@[simp] theorem setError_pos (d : Dec) (e : Err) : (d.setError e).pos = d.pos := by
  unfold Dec.setError; cases d.status <;> rfl
@[simp] theorem setError_lastId (d : Dec) (e : Err) : (d.setError e).lastId = d.lastId := by
  unfold Dec.setError; cases d.status <;> rfl
@[simp] theorem setError_budget (d : Dec) (e : Err) : (d.setError e).budget = d.budget := by
  unfold Dec.setError; cases d.status <;> rfl
theorem setError_status_ne (d : Dec) (e : Err) : (d.setError e).status ≠ none := by
  unfold Dec.setError; cases h : d.status <;> simp [h]
theorem setError_of_some (d : Dec) (e x : Err) (h : d.status = some x) : d.setError e = d := by
  unfold Dec.setError; rw [h]

theorem setError_adv (d : Dec) (e : Err) (h1 : e ≠ .fuel) (h2 : e ≠ .stack) : Adv d (d.setError e) := by
  refine Adv.step d _ [] (by simp) (by simp) (by simp) (by simp) ?_
  rcases setError_status d e with h | ⟨_, h⟩
  · exact Or.inl h
  · exact Or.inr ⟨e, h, h1, h2⟩

/-! ### reader primitives -/

theorem lengthGe_iff (l : List UInt8) (n : Nat) : lengthGe l n = true ↔ n ≤ l.length := by
  induction l generalizing n with
  | nil => cases n <;> simp [lengthGe]
  | cons a l ih => cases n <;> simp [lengthGe, ih]

theorem advance_adv (d : Dec) (n : Nat) (h : d.has n = true) : Adv d (d.advance n) := by
  unfold Dec.has at h
  rw [lengthGe_iff] at h
  refine Adv.step d _ (d.rest.take n) rfl ?_ ?_ rfl (Or.inl rfl)
  · simp [Dec.advance]
  · simp [Dec.advance, Nat.min_eq_left h]

theorem readerSkip_adv (d : Dec) (n : Nat) : Adv d (d.readerSkip n) := by
  unfold Dec.readerSkip
  split
  · exact advance_adv d n ‹_›
  · exact Adv.refl d

theorem skipFixed_adv (cfg : Cfg) (d : Dec) (n : Nat) : Adv d (Dec.skipFixed cfg d n) := by
  unfold Dec.skipFixed
  split
  · split
    · exact advance_adv d n ‹_›
    · exact setError_adv d _ (by decide) (by decide)
  · exact readerSkip_adv d n

theorem readByteRaw_adv (d : Dec) : Adv d (readByteRaw d).2 := by
  unfold readByteRaw
  split
  · exact setError_adv d _ (by decide) (by decide)
  · rename_i b r h
    exact Adv.step d _ [b] rfl (by simp [h]) rfl rfl (Or.inl rfl)

theorem readVarintLoop_adv : ∀ (n shift acc : Nat) (d : Dec), Adv d (readVarintLoop n shift acc d).2
  | 0, _, _, d => by
    unfold readVarintLoop
    exact setError_adv d _ (by decide) (by decide)
  | n + 1, shift, acc, d => by
    unfold readVarintLoop
    split
    · exact setError_adv d _ (by decide) (by decide)
    · rename_i b r h
      have h1 : Adv d { d with rest := r, pos := d.pos + 1 } :=
        Adv.step d _ [b] rfl (by simp [h]) rfl rfl (Or.inl rfl)
      split
      · exact h1
      · exact h1.trans (readVarintLoop_adv n _ _ _)

theorem readVarint_adv (d : Dec) : Adv d (readVarint d).2 := readVarintLoop_adv 10 0 0 d
theorem readZigzag_adv (d : Dec) : Adv d (readZigzag d).2 := readVarint_adv d
theorem readI8_adv (d : Dec) : Adv d (readI8 d).2 := readByteRaw_adv d
theorem readI16_adv (d : Dec) : Adv d (readI16 d).2 := readVarint_adv d
theorem readI32_adv (d : Dec) : Adv d (readI32 d).2 := readVarint_adv d
theorem readI64_adv (d : Dec) : Adv d (readI64 d).2 := readVarint_adv d

theorem readDouble_adv (d : Dec) : Adv d (readDouble d).2 := by
  unfold readDouble
  split
  · exact advance_adv d 8 ‹_›
  · exact setError_adv d _ (by decide) (by decide)

theorem readBool_adv (d : Dec) : Adv d (readBool d).2 := by
  unfold readBool
  split
  · exact Adv.step d _ [] rfl (by simp) (by simp) rfl (Or.inl rfl)
  · exact readByteRaw_adv d

theorem readBinaryK_adv (n : Nat) (d : Dec) : Adv d (readBinaryK n d).2.2 := by
  unfold readBinaryK
  split
  · exact setError_adv d _ (by decide) (by decide)
  · split
    · exact advance_adv d _ ‹_›
    · exact setError_adv d _ (by decide) (by decide)

theorem readBinary_adv (d : Dec) : Adv d (readBinary d).2.2 :=
  (readVarint_adv d).trans (readBinaryK_adv _ _)

theorem readUuid_adv (d : Dec) : Adv d (readUuid d).2 := by
  unfold readUuid
  split
  · exact advance_adv d 16 ‹_›
  · exact setError_adv d _ (by decide) (by decide)

/-- what `thrift_read_binary` returns is a slice of the remaining input (never more than is left) -/
theorem readBinary_slice (d : Dec) (b : List UInt8) (h : (readBinary d).1 = some b) :
    b.length ≤ (readVarint d).2.rest.length ∧ b = (readVarint d).2.rest.take b.length := by
  unfold readBinary readBinaryK at h
  split at h
  · cases h
  · split at h
    · rename_i hh
      unfold Dec.has at hh
      rw [lengthGe_iff] at hh
      simp only [Option.some.injEq] at h
      subst h
      refine ⟨by simp only [List.length_take]; omega, ?_⟩
      simp only [List.length_take, Nat.min_eq_left hh]
    · cases h

/-! ### field headers -/

theorem notePendingBool_adv (ty : Nat) (d : Dec) : Adv d (notePendingBool ty d) := by
  unfold notePendingBool
  split
  · exact Adv.step d _ [] rfl (by simp) (by simp) rfl (Or.inl rfl)
  · split
    · exact Adv.step d _ [] rfl (by simp) (by simp) rfl (Or.inl rfl)
    · exact Adv.refl d

theorem setTop_length (l : List Int) (v : Int) : (setTop l v).length = l.length := by
  cases l <;> rfl

theorem readFieldBeginK_adv (h : UInt8) (d : Dec) : Adv d (readFieldBeginK h d).dec := by
  unfold readFieldBeginK
  split
  · refine (readI16_adv d).trans (Adv.trans ?_ (notePendingBool_adv _ _))
    exact Adv.step _ _ [] rfl (by simp) (by simp) (by simp [setTop_length]) (Or.inl rfl)
  · refine Adv.trans ?_ (notePendingBool_adv _ _)
    exact Adv.step _ _ [] rfl (by simp) (by simp) (by simp [setTop_length]) (Or.inl rfl)

theorem readFieldBegin_adv (d : Dec) : Adv d (readFieldBegin d).dec := by
  unfold readFieldBegin
  split
  · exact Adv.refl d
  · split
    · exact setError_adv d _ (by decide) (by decide)
    · rename_i b r h
      have h1 : Adv d { d with rest := r, pos := d.pos + 1 } :=
        Adv.step d _ [b] rfl (by simp [h]) rfl rfl (Or.inl rfl)
      split
      · exact h1
      · exact h1.trans (readFieldBeginK_adv _ _)

/-- an iteration of a `while (read_field_begin)` loop has consumed at least the header byte -/
theorem readFieldBegin_progress (d : Dec) (h : (readFieldBegin d).more = true) :
    (readFieldBegin d).dec.rest.length < d.rest.length := by
  unfold readFieldBegin at h ⊢
  split
  · rename_i hs; simp [hs] at h
  · rename_i hs
    split
    · rename_i hr; simp [hs, hr] at h
    · rename_i b r hr
      split
      · rename_i hb; simp [hs, hr, hb] at h
      · have := (readFieldBeginK_adv b { d with rest := r, pos := d.pos + 1 }).len
        simp only [] at this
        rw [hr, List.length_cons]
        omega

/-! ### container headers: the accepted count never exceeds the bytes that are left -/

theorem listCountChecks_adv (et : Nat) (c : Int) (d : Dec) : Adv d (listCountChecks et c d).dec := by
  unfold listCountChecks
  split
  · exact setError_adv d _ (by decide) (by decide)
  · split
    · exact setError_adv d _ (by decide) (by decide)
    · exact Adv.refl d

theorem listCountChecks_count (et : Nat) (c : Int) (d : Dec) :
    0 ≤ (listCountChecks et c d).count ∧
    (listCountChecks et c d).count.toNat ≤ (listCountChecks et c d).dec.rest.length := by
  unfold listCountChecks
  split
  · simp
  · split
    · simp
    · rename_i h1 h2
      have h2 : d.has c.toNat = true := by
        cases hh : d.has c.toNat
        · simp [hh] at h2
        · rfl
      unfold Dec.has at h2
      rw [lengthGe_iff] at h2
      dsimp only
      exact ⟨by omega, h2⟩

theorem readListBegin_adv (d : Dec) : Adv d (readListBegin d).dec := by
  unfold readListBegin
  split
  · exact (readByteRaw_adv d).trans ((readVarint_adv _).trans (listCountChecks_adv _ _ _))
  · exact (readByteRaw_adv d).trans (listCountChecks_adv _ _ _)

/-- **VALIDATE on the wire**: the count `thrift_read_list_begin` hands out is non-negative, below
2^31 and at most the number of bytes left behind the header. -/
theorem readListBegin_count (d : Dec) :
    0 ≤ (readListBegin d).count ∧ (readListBegin d).count.toNat ≤ (readListBegin d).dec.rest.length := by
  unfold readListBegin
  split
  · exact listCountChecks_count _ _ _
  · exact listCountChecks_count _ _ _

theorem readMapBeginK_adv (c : Int) (d : Dec) : Adv d (readMapBeginK c d).dec := by
  unfold readMapBeginK
  split
  · exact setError_adv d _ (by decide) (by decide)
  · split
    · exact Adv.refl d
    · split
      · exact setError_adv d _ (by decide) (by decide)
      · exact readByteRaw_adv d

theorem readMapBeginK_count (c : Int) (d : Dec) :
    0 ≤ (readMapBeginK c d).count ∧ (readMapBeginK c d).count.toNat ≤ (readMapBeginK c d).dec.rest.length + 1 := by
  unfold readMapBeginK
  split
  · simp
  · split
    · simp
    · split
      · simp
      · rename_i h1 h2 h3
        have h3 : d.has c.toNat = true := by
          cases hh : d.has c.toNat
          · simp [hh] at h3
          · rfl
        unfold Dec.has at h3
        rw [lengthGe_iff] at h3
        have := (readByteRaw_adv d).pos_len
        have hb : (readByteRaw d).2.rest.length + 1 = d.rest.length := by
          unfold readByteRaw
          split
          · rename_i hr; rw [hr] at h3; simp at h3; omega
          · rename_i b r hr; simp [hr]
        dsimp only
        refine ⟨by omega, ?_⟩
        omega

theorem readMapBegin_adv (d : Dec) : Adv d (readMapBegin d).dec :=
  (readVarint_adv d).trans (readMapBeginK_adv _ _)

/-- the count `thrift_read_map_begin` hands out is at most the bytes left (the types byte included) -/
theorem readMapBegin_count (d : Dec) :
    0 ≤ (readMapBegin d).count ∧ (readMapBegin d).count.toNat ≤ (readMapBegin d).dec.rest.length + 1 :=
  readMapBeginK_count _ _

/-! ### loops -/

/-- `for (i = 0; i < count && status == OK; i++) g(dec)`; `Q` is any property of the nesting level
the iterations rely on -/
theorem repeatOk_adv (g : Dec → Dec) (Q : Nat → Prop)
    (hg : ∀ d, Good d → d.status = none → Q d.lastId.length → Adv d (g d)) :
    ∀ (n : Nat) (d : Dec), Good d → (d.status = none → Q d.lastId.length) → Adv d (repeatOk g n d)
  | 0, d, _, _ => Adv.refl d
  | n + 1, d, hgd, hq => by
    unfold repeatOk
    split
    · exact Adv.refl d
    · rename_i hs
      have h1 := hg d hgd hs (hq hs)
      refine h1.trans (repeatOk_adv g Q hg n (g d) (h1.good hgd) ?_)
      intro h
      rw [h1.depth h]
      exact hq hs

/-- the body of a `while (read_field_begin)` loop is safe at nesting levels satisfying `Q`, from
states with at most `N` bytes left, and keeps the loop-state invariant `Inv` -/
def BodySafe {σ : Type} (Q : Nat → Prop) (N : Nat) (Inv : σ → Prop) (body : Nat → Int → Dec → σ → σ × Dec) : Prop :=
  ∀ ty fid d s, Good d → d.rest.length ≤ N → (d.status = none → Q d.lastId.length) → Inv s →
    Adv d (body ty fid d s).2 ∧ Inv (body ty fid d s).1

/-- **no `while (read_field_begin)` loop exhausts its budget**: with more fuel than bytes left the
loop is `Adv` — in particular it does not end in `Err.fuel` -/
theorem fieldLoop_adv {σ : Type} (stop : σ → Bool) (body : Nat → Int → Dec → σ → σ × Dec)
    (Q : Nat → Prop) (N : Nat) (Inv : σ → Prop) (hb : BodySafe Q N Inv body) :
    ∀ (fuel : Nat) (d : Dec) (s : σ), Good d → d.rest.length < fuel → d.rest.length ≤ N →
      (d.status = none → Q d.lastId.length) → Inv s →
      Adv d (fieldLoop stop body fuel d s).2 ∧ Inv (fieldLoop stop body fuel d s).1
  | 0, d, s, _, hf, _, _, _ => by omega
  | f + 1, d, s, hg, hf, hn, hq, hi => by
    unfold fieldLoop
    have h1 := readFieldBegin_adv d
    split
    · exact ⟨h1, hi⟩
    · rename_i hm
      have hp := readFieldBegin_progress d hm
      have hq1 : (readFieldBegin d).dec.status = none → Q (readFieldBegin d).dec.lastId.length := by
        intro h; rw [h1.depth h]; exact hq (h1.ok h)
      have h2 := hb (readFieldBegin d).ty (readFieldBegin d).fid (readFieldBegin d).dec s (h1.good hg)
        (by omega) hq1 hi
      split
      · exact ⟨h1.trans h2.1, h2.2⟩
      · have h12 := h1.trans h2.1
        have hl2 := h2.1.len
        have h3 := fieldLoop_adv stop body Q N Inv hb f _ _ (h12.good hg) (by omega) (by omega)
          (by intro h; rw [h12.depth h]; exact hq (h12.ok h)) h2.2
        exact ⟨h12.trans h3.1, h3.2⟩

/-- `struct_begin … struct_end` / `enter_container … leave_container` around an `Adv` run -/
theorem bracket_adv (d d2 : Dec) (h : Adv { d with lastId := 0 :: d.lastId } d2) :
    Adv d { d2 with lastId := d2.lastId.tail } := by
  obtain ⟨pre, hr, hp⟩ := h.rest
  refine ⟨h.bud, ⟨pre, hr, hp⟩, h.ok, ?_, h.fuel, h.stack⟩
  intro hs
  have := h.depth hs
  simp only [List.length_cons] at this
  simp only [List.length_tail]
  omega

theorem tail_adv_err (d d2 : Dec) (h : Adv d d2) (he : d2.status ≠ none) :
    Adv d { d2 with lastId := d2.lastId.tail } := by
  obtain ⟨pre, hr, hp⟩ := h.rest
  exact ⟨h.bud, ⟨pre, hr, hp⟩, fun hs => absurd hs he, fun hs => absurd hs he, h.fuel, h.stack⟩

/-- `thrift_read_struct_begin; while (read_field_begin) body; thrift_read_struct_end` -/
theorem structLoop_adv {σ : Type} (stop : σ → Bool) (body : Nat → Int → Dec → σ → σ × Dec)
    (Q : Nat → Prop) (N : Nat) (Inv : σ → Prop) (hb : BodySafe Q N Inv body)
    (d : Dec) (s : σ) (hg : Good d) (hn : d.rest.length ≤ N)
    (hq : d.status = none → d.lastId.length < maxNesting → Q (d.lastId.length + 1)) (hi : Inv s) :
    Adv d (structEnd (fieldLoop stop body d.budget (structBegin d) s).2) ∧
      Inv (fieldLoop stop body d.budget (structBegin d) s).1 := by
  unfold structBegin structEnd
  split
  · -- nesting limit reached
    have h0 := setError_adv d .decode (by decide) (by decide)
    have h1 := fieldLoop_adv stop body Q N Inv hb d.budget (d.setError .decode) s (h0.good hg)
      (by rw [setError_rest]; exact hg.bud) (by rw [setError_rest]; exact hn) (fun h => absurd h (setError_status_ne d _)) hi
    refine ⟨tail_adv_err d _ (h0.trans h1.1) ?_, h1.2⟩
    intro h
    exact setError_status_ne d _ (h1.1.ok h)
  · rename_i hlt
    have hg1 : Good { d with lastId := 0 :: d.lastId } := ⟨hg.bud, hg.nofuel, hg.nostack⟩
    have h1 := fieldLoop_adv stop body Q N Inv hb d.budget { d with lastId := 0 :: d.lastId } s hg1
      hg.bud hn (fun h => by simpa using hq h (by omega)) hi
    exact ⟨bracket_adv d _ h1.1, h1.2⟩

/-! ### `thrift_skip` -/

theorem skipElement_adv (sk : Nat → Dec → Dec) (ty : Nat) (d : Dec) (hs : d.status = none → Adv d (sk ty d)) :
    Adv d (skipElement Cfg.fixed sk ty d) := by
  unfold skipElement
  simp only [Cfg.fixed, if_true]
  split
  · exact Adv.refl d
  · rename_i h
    split
    · exact readByteRaw_adv d
    · exact hs h

theorem skip_of_err (cfg : Cfg) (stk ty : Nat) (d : Dec) (x : Err) (h : d.status = some x) : skip cfg stk ty d = d := by
  cases stk with
  | zero => unfold skip; exact setError_of_some d _ x h
  | succ k => unfold skip; simp only [h]

/-- what `thrift_skip` needs of its stack grant: one frame, and `maxNesting + 1` frames in all
counted from nesting level 0 -/
def StackOK (stk : Nat) (d : Dec) : Prop := 1 ≤ stk ∧ maxNesting + 1 ≤ stk + d.lastId.length

/-- **`thrift_skip` is safe on arbitrary bytes** (repaired code), for every wire type: it stays
inside the buffer, exhausts no loop budget, and `maxNesting + 1 − nesting_level` frames suffice. -/
theorem skip_adv : ∀ (stk ty : Nat) (d : Dec), Good d → (d.status = none → StackOK stk d) →
    Adv d (skip Cfg.fixed stk ty d)
  | 0, ty, d, _, hst => by
    unfold skip
    cases hs : d.status with
    | none => have := (hst hs).1; omega
    | some x => rw [setError_of_some d _ x hs]; exact Adv.refl d
  | stk + 1, ty, d, hg, hst => by
    unfold skip
    split
    · exact Adv.refl d
    · rename_i hs
      obtain ⟨_, hstk⟩ := hst hs
      -- the recursive calls happen one level deeper
      have hsk : ∀ ty' d', Good d' → d'.status = none → d'.lastId.length = d.lastId.length + 1 →
          d.lastId.length < maxNesting → Adv d' (skip Cfg.fixed stk ty' d') := by
        intro ty' d' hg' _ hl' hlt
        refine skip_adv stk ty' d' hg' (fun _ => ?_)
        unfold StackOK maxNesting at *
        omega
      have hcont : ∀ body : Dec → Dec,
          (∀ d1, Good d1 → d1.status = none → d1.lastId.length = d.lastId.length + 1 →
            d.lastId.length < maxNesting → Adv d1 (body d1)) →
          Adv d (skipContainer Cfg.fixed body d) := by
        intro body hbody
        unfold skipContainer enterContainer
        simp only [Cfg.fixed, if_true]
        split
        · simp only [Bool.false_eq_true, if_false]
          exact setError_adv d _ (by decide) (by decide)
        · rename_i hlt
          simp only [if_true]
          unfold leaveContainer
          exact bracket_adv d _ (hbody _ ⟨hg.bud, hg.nofuel, hg.nostack⟩ hs (by simp) (by omega))
      unfold skipCase
      split
      · exact setError_adv d _ (by decide) (by decide)
      split
      · exact Adv.step d _ [] rfl (by simp) (by simp) rfl (Or.inl rfl)
      split
      · exact skipFixed_adv _ d 1
      split
      · exact readVarint_adv d
      split
      · exact skipFixed_adv _ d 8
      split
      · exact readBinary_adv d
      split
      · refine hcont _ ?_
        intro d1 hg1 hs1 hl1 hlt
        unfold skipListBody
        have h1 := readListBegin_adv d1
        refine h1.trans (repeatOk_adv _ (· = d.lastId.length + 1) ?_ _ _ (h1.good hg1) ?_)
        · intro x hgx hsx hlx
          exact skipElement_adv _ _ x (fun h => hsk _ x hgx h hlx hlt)
        · intro h; rw [h1.depth h]; exact hl1
      split
      · refine hcont _ ?_
        intro d1 hg1 hs1 hl1 hlt
        unfold skipMapBody
        have h1 := readMapBegin_adv d1
        refine h1.trans (repeatOk_adv _ (· = d.lastId.length + 1) ?_ _ _ (h1.good hg1) ?_)
        · intro x hgx hsx hlx
          have hk := skipElement_adv (skip Cfg.fixed stk) (readMapBegin d1).keyTy x (fun h => hsk _ x hgx h hlx hlt)
          refine hk.trans (skipElement_adv _ _ _ (fun h => hsk _ _ (hk.good hgx) h ?_ hlt))
          rw [hk.depth h]; exact hlx
        · intro h; rw [h1.depth h]; exact hl1
      split
      · unfold skipFields
        have hb : BodySafe (· = d.lastId.length + 1 ∧ d.lastId.length < maxNesting) d.rest.length (fun _ : Unit => True)
            (fun ty _ d s => (s, skip Cfg.fixed stk ty d)) := by
          intro ty' fid d' s hg' _ hq _
          refine ⟨?_, trivial⟩
          cases hs' : d'.status with
          | none => exact hsk ty' d' hg' hs' (hq hs').1 (hq hs').2
          | some x =>
            show Adv d' (skip Cfg.fixed stk ty' d')
            rw [skip_of_err _ _ _ _ x hs']; exact Adv.refl d'
        exact (structLoop_adv (fun _ => false) _ _ d.rest.length _ hb d () hg (Nat.le_refl _)
          (fun _ hlt => ⟨rfl, hlt⟩) trivial).1
      split
      · exact skipFixed_adv _ d 16
      · exact setError_adv d _ (by decide) (by decide)

theorem stackBudget_ok (d : Dec) : StackOK stackBudget d := by
  unfold StackOK stackBudget maxNesting; omega

/-- `thrift_skip_field` as the parsers call it -/
theorem skipField_adv (ty : Nat) (d : Dec) (hg : Good d) : Adv d (skipField Cfg.fixed ty d) :=
  skip_adv stackBudget ty d hg (fun _ => stackBudget_ok d)

end Carquet.Proofs.ThriftSafe
