import Carquet.Impl.ColumnReader
/-
F28 / C01 lifetime clause, on the model's heap log: byte-array values handed back by a read call
point into page data buffers that are still allocated when the call returns (and therefore until
the next call on that column reader, which is the only place buffers are released).
No validity assumption on the chunk is needed.
-/
namespace Carquet.Proofs.Cursor
open Carquet.Impl.ColumnReader

/-- Consistency of the page-data heap log: ids handed out so far are below `nextBuf`, a buffer is
either live (current or retired) or freed, never both, never twice. -/
def HeapOk (r : Reader α) : Prop :=
  (∀ b ∈ liveBufs r, b < r.nextBuf) ∧ (∀ b ∈ r.freed, b < r.nextBuf) ∧ (liveBufs r ++ r.freed).Nodup

theorem heapOk_getColumn (c : Chunk α) : HeapOk (getColumn c) := by
  simp [HeapOk, getColumn, liveBufs]

/-- heap part of a state: what `liveBufs`/`HeapOk` look at -/
def heapEq (a b : Reader α) : Prop :=
  a.pageData = b.pageData ∧ a.retired = b.retired ∧ a.nextBuf = b.nextBuf ∧ a.freed = b.freed

theorem heapOk_of_heapEq {a b : Reader α} (h : heapEq a b) (hb : HeapOk b) : HeapOk a := by
  obtain ⟨h1, h2, h3, h4⟩ := h
  simpa [HeapOk, liveBufs, h1, h2, h3, h4] using hb

theorem liveBufs_of_heapEq {a b : Reader α} (h : heapEq a b) : liveBufs a = liveBufs b := by
  simp [liveBufs, h.1, h.2.1]

theorem heapEq_advance (r : Reader α) : heapEq (advance r) r := by
  unfold advance; split <;> exact ⟨rfl, rfl, rfl, rfl⟩

theorem heapEq_consume (fx : Fixes) (r : Reader α) (n : Nat) : heapEq (consume fx r n) r := ⟨rfl, rfl, rfl, rfl⟩

theorem heapEq_installPage (fx : Fixes) (r : Reader α) (p : Page α) : heapEq (installPage fx r p) (swapPageData fx r) :=
  ⟨rfl, rfl, rfl, rfl⟩

/-- replacing the page data under F28: the old buffer stays live, nothing is freed -/
theorem swapPageData_heap (r : Reader α) (h : HeapOk r) :
    HeapOk (swapPageData Fixes.all r) ∧ (∀ b ∈ liveBufs r, b ∈ liveBufs (swapPageData Fixes.all r)) ∧
      (swapPageData Fixes.all r).freed = r.freed ∧
      ((swapPageData Fixes.all r).chunk.retains = true → ∀ id, (swapPageData Fixes.all r).pageData = some id →
        id ∈ liveBufs (swapPageData Fixes.all r)) := by
  by_cases hr : r.chunk.retains = true
  · have e1 : (swapPageData Fixes.all r).pageData = some r.nextBuf := by simp [swapPageData, hr, Fixes.all]
    have e2 : (swapPageData Fixes.all r).retired = r.retired ++ r.pageData.toList := by
      simp [swapPageData, hr, Fixes.all]
    have e3 : (swapPageData Fixes.all r).nextBuf = r.nextBuf + 1 := by simp [swapPageData, hr, Fixes.all]
    have e4 : (swapPageData Fixes.all r).freed = r.freed := by simp [swapPageData, hr, Fixes.all]
    have el : liveBufs (swapPageData Fixes.all r) = r.nextBuf :: (r.retired ++ r.pageData.toList) := by
      simp [liveBufs, e1, e2]
    obtain ⟨h1, h2, h3⟩ := h
    have hmemOld : ∀ b, b ∈ r.retired ++ r.pageData.toList → b ∈ liveBufs r := by
      intro b hb
      simp only [liveBufs, List.mem_append] at hb ⊢
      exact hb.symm
    refine ⟨⟨?_, ?_, ?_⟩, ?_, e4, ?_⟩
    · intro b hb
      rw [el, List.mem_cons] at hb
      rw [e3]
      rcases hb with rfl | hb
      · omega
      · have := h1 b (hmemOld b hb); omega
    · intro b hb
      rw [e4] at hb; rw [e3]
      have := h2 b hb; omega
    · rw [el, e4]
      have hperm : (liveBufs r ++ r.freed).Perm (r.retired ++ r.pageData.toList ++ r.freed) := by
        apply List.Perm.append_right
        exact List.perm_append_comm
      have hnd : (r.retired ++ r.pageData.toList ++ r.freed).Nodup := (List.Perm.nodup_iff hperm).mp h3
      rw [List.cons_append, List.nodup_cons]
      refine ⟨?_, hnd⟩
      intro hmem
      rw [List.mem_append] at hmem
      rcases hmem with hmem | hmem
      · have := h1 r.nextBuf (hmemOld _ hmem); omega
      · have := h2 r.nextBuf hmem; omega
    · intro b hb
      rw [el, List.mem_cons]
      right
      simp only [liveBufs, List.mem_append] at hb ⊢
      exact hb.symm
    · intro _ id hid
      rw [e1] at hid
      simp only [Option.some.injEq] at hid
      rw [el, ← hid]; simp
  · have e : swapPageData Fixes.all r = r := by simp [swapPageData, hr]
    rw [e]
    exact ⟨h, fun b hb => hb, rfl, fun hc => absurd hc hr⟩

theorem swapPageData_chunk' (fx : Fixes) (r : Reader α) : (swapPageData fx r).chunk = r.chunk := by
  unfold swapPageData; split <;> (try split) <;> rfl

theorem heapEq_installEmpty (r : Reader α) : heapEq (installEmpty r) r := ⟨rfl, rfl, rfl, rfl⟩

/-- one `load_next_page` under F28 (F63: an empty page leaves the heap as it is) -/
theorem loadNextPage_heap (r r' : Reader α) (h : HeapOk r) (hl : loadNextPage Fixes.all r = .ok r') :
    HeapOk r' ∧ ∀ b ∈ liveBufs r, b ∈ liveBufs r' := by
  unfold loadNextPage at hl
  cases hp : r.chunk.pages[r.currentPage]? with
  | none => rw [hp] at hl; cases hl
  | some o =>
    rw [hp] at hl
    cases o with
    | none => cases hl
    | some p =>
      simp only at hl
      split at hl
      · cases hl
      · split at hl
        · cases hl
          exact ⟨heapOk_of_heapEq (heapEq_installEmpty r) h,
            fun b hb => by rw [liveBufs_of_heapEq (heapEq_installEmpty r)]; exact hb⟩
        · cases hl
          obtain ⟨s1, s2, _, _⟩ := swapPageData_heap r h
          have he := heapEq_installPage Fixes.all r p
          exact ⟨heapOk_of_heapEq he s1, fun b hb => by rw [liveBufs_of_heapEq he]; exact s2 b hb⟩

/-- the page-load loop under F28: live buffers stay live, nothing is freed -/
theorem prepareLoop_heap : ∀ (fuel : Nat) (r : Reader α), HeapOk r →
    HeapOk (prepareLoop Fixes.all fuel r).1 ∧ ∀ b ∈ liveBufs r, b ∈ liveBufs (prepareLoop Fixes.all fuel r).1 := by
  intro fuel
  induction fuel with
  | zero => intro r h; exact ⟨h, fun b hb => hb⟩
  | succ fuel ih =>
    intro r h
    unfold prepareLoop
    split
    · have ha : HeapOk (advance r) := heapOk_of_heapEq (heapEq_advance r) h
      have hla : ∀ b ∈ liveBufs r, b ∈ liveBufs (advance r) := by
        intro b hb; rw [liveBufs_of_heapEq (heapEq_advance r)]; exact hb
      cases hl : loadNextPage Fixes.all (advance r) with
      | error e => exact ⟨ha, hla⟩
      | ok r' =>
        obtain ⟨h1, h2⟩ := loadNextPage_heap (advance r) r' ha hl
        have hf63 : Fixes.all.f63 = true := rfl
        simp only [hf63, if_true]
        obtain ⟨h3, h4⟩ := ih r' h1
        exact ⟨h3, fun b hb => h4 b (h2 b (hla b hb))⟩
    · exact ⟨h, fun b hb => hb⟩

/-- `carquet_read_next_page` under F28: live buffers stay live, nothing is freed, and the values it
copies point into a live buffer. -/
theorem readNextPage_heap (r : Reader α) (h : HeapOk r) (m : Int) :
    HeapOk (readNextPage Fixes.all r m).1 ∧ (∀ b ∈ liveBufs r, b ∈ liveBufs (readNextPage Fixes.all r m).1) ∧
      ∀ c, (readNextPage Fixes.all r m).2 = .ok c → ∀ id, c.buf = some id → id ∈ liveBufs (readNextPage Fixes.all r m).1 := by
  -- the page preparation
  have hprep : HeapOk (preparePage Fixes.all r).1 ∧ (∀ b ∈ liveBufs r, b ∈ liveBufs (preparePage Fixes.all r).1) ∧
      ((preparePage Fixes.all r).2 = none → (preparePage Fixes.all r).1.chunk.retains = true →
        ∀ id, (preparePage Fixes.all r).1.pageData = some id → id ∈ liveBufs (preparePage Fixes.all r).1) := by
    unfold preparePage
    obtain ⟨h1, h2⟩ := prepareLoop_heap (r.chunk.pages.length + 1) r h
    refine ⟨h1, h2, ?_⟩
    intro _ _ id hid
    simp only [liveBufs, List.mem_append]
    left
    rw [hid]; simp
  unfold readNextPage
  obtain ⟨hp1, hp2, hp3⟩ := hprep
  cases hpp : preparePage Fixes.all r with
  | mk r1 e =>
    rw [hpp] at hp1 hp2 hp3
    simp only at hp1 hp2 hp3
    cases e with
    | some e => exact ⟨hp1, hp2, fun c hc => by cases hc⟩
    | none =>
      simp only
      split
      · exact ⟨hp1, hp2, fun c hc => by cases hc⟩
      · have he := heapEq_consume Fixes.all r1 (toCopyOf r1 m).toNat
        refine ⟨heapOk_of_heapEq he hp1, ?_, ?_⟩
        · intro b hb; rw [liveBufs_of_heapEq he]; exact hp2 b hb
        · intro c hc id hid
          simp only [Except.ok.injEq] at hc
          subst hc
          rw [liveBufs_of_heapEq he]
          simp only [pageCopy] at hid
          by_cases hret : r1.chunk.retains = true
          · simp only [hret, if_true] at hid
            exact hp3 rfl hret id hid
          · simp [hret] at hid

theorem readLoop_heap (wd wr : Bool) (k : Nat) : ∀ (fuel : Nat) (r : Reader α) (st : LoopSt α),
    HeapOk r → (∀ seg ∈ st.segs, ∀ id, seg.1 = some id → id ∈ liveBufs r) →
    HeapOk (readLoop Fixes.all wd wr k fuel r st).1 ∧
      ∀ seg ∈ (readLoop Fixes.all wd wr k fuel r st).2.segs, ∀ id, seg.1 = some id →
        id ∈ liveBufs (readLoop Fixes.all wd wr k fuel r st).1 := by
  intro fuel
  induction fuel with
  | zero => intro r st h hs; exact ⟨h, hs⟩
  | succ fuel ih =>
    intro r st h hs
    unfold readLoop
    split
    · obtain ⟨g1, g2, g3⟩ := readNextPage_heap r h ((k : Int) - (st.totalRead : Int))
      cases hrn : readNextPage Fixes.all r ((k : Int) - (st.totalRead : Int)) with
      | mk r' res =>
        rw [hrn] at g1 g2 g3
        simp only at g1 g2 g3
        have hs' : ∀ seg ∈ st.segs, ∀ id, seg.1 = some id → id ∈ liveBufs r' :=
          fun seg hseg id hid => g2 id (hs seg hseg id hid)
        cases res with
        | error e =>
          simp only
          split <;> exact ⟨g1, hs'⟩
        | ok c =>
          simp only
          split
          · exact ⟨g1, hs'⟩
          · apply ih r' _ g1
            intro seg hseg id hid
            simp only [LoopSt.push, List.mem_append, List.mem_singleton] at hseg
            rcases hseg with hseg | rfl
            · exact hs' seg hseg id hid
            · exact g3 c rfl id hid
    · exact ⟨h, hs⟩

theorem releaseRetired_heap (r : Reader α) (h : HeapOk r) : HeapOk (releaseRetired Fixes.all r) := by
  obtain ⟨h1, h2, h3⟩ := h
  simp only [releaseRetired, Fixes.all, if_true]
  refine ⟨?_, ?_, ?_⟩
  · intro b hb
    simp only [liveBufs, List.append_nil] at hb
    exact h1 b (by simp [liveBufs, hb])
  · intro b hb
    simp only [List.mem_append] at hb
    rcases hb with hb | hb
    · exact h2 b hb
    · exact h1 b (by simp [liveBufs, hb])
  · simp only [liveBufs, List.append_nil]
    have hperm : (r.pageData.toList ++ r.retired ++ r.freed).Perm (r.pageData.toList ++ (r.freed ++ r.retired)) := by
      rw [List.append_assoc]
      apply List.Perm.append_left
      exact List.perm_append_comm
    exact (List.Perm.nodup_iff hperm).mp h3

/-- **Returned buffers are alive** (model of the C01 lifetime clause, repaired code): after
`carquet_column_read_batch` returns, every page data buffer that returned byte-array values point
into is allocated and not freed — for every state, chunk and request. -/
theorem readBatch_alive (r : Reader α) (h : HeapOk r) (k : Int) (wd wr : Bool) :
    HeapOk (readBatch Fixes.all r k wd wr).1 ∧
      ∀ seg ∈ (readBatch Fixes.all r k wd wr).2.segs, ∀ id, seg.1 = some id →
        id ∈ liveBufs (readBatch Fixes.all r k wd wr).1 ∧ id ∉ (readBatch Fixes.all r k wd wr).1.freed := by
  have hmain : HeapOk (readBatch Fixes.all r k wd wr).1 ∧
      ∀ seg ∈ (readBatch Fixes.all r k wd wr).2.segs, ∀ id, seg.1 = some id →
        id ∈ liveBufs (readBatch Fixes.all r k wd wr).1 := by
    have h' := releaseRetired_heap r h
    unfold readBatch
    split
    · exact ⟨h', fun seg hseg => by cases hseg⟩
    · split
      · split
        · exact ⟨(readNextPage_heap _ h' 0).1, fun seg hseg => by cases hseg⟩
        · exact ⟨h', fun seg hseg => by cases hseg⟩
      · split
        · exact ⟨h', fun seg hseg => by simp [LoopSt.result, LoopSt.init] at hseg⟩
        · exact readLoop_heap wd wr k.toNat _ _ _ h' (fun seg hseg => by simp [LoopSt.init] at hseg)
  refine ⟨hmain.1, fun seg hseg id hid => ⟨hmain.2 seg hseg id hid, ?_⟩⟩
  intro hfreed
  have hnd := hmain.1.2.2
  have hlive := hmain.2 seg hseg id hid
  exact (List.nodup_append.mp hnd).2.2 id hlive id hfreed rfl

end Carquet.Proofs.Cursor
