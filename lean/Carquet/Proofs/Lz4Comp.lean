import Carquet.Spec.Lz4
import Carquet.Impl.Lz4
import Carquet.Proofs.Lz4Spec
/-
The compressor model: whatever the hash table holds, every emitted sequence describes a copy of
bytes that really are equal (copy validity); the emitted bytes are the Spec encoding of those
sequences; the sequences respect the end-of-block rules; the output fits the advertised bound.
-/
namespace Carquet.Proofs.Lz4Comp
open Carquet
open Carquet.Impl.Lz4

/-- `c` bytes at `p` equal the `c` bytes at `m` -/
def Agree (src : Bytes) (p m c : Nat) : Prop := ∀ i, i < c → byteAt src (p + i) = byteAt src (m + i)

theorem Agree.zero (src : Bytes) (p m : Nat) : Agree src p m 0 := by intro i h; omega

theorem Agree.append {src : Bytes} {p m a b : Nat} (h1 : Agree src p m a) (h2 : Agree src (p + a) (m + a) b) :
    Agree src p m (a + b) := by
  intro i hi
  by_cases h : i < a
  · exact h1 i h
  · have := h2 (i - a) (by omega)
    rw [show p + a + (i - a) = p + i by omega, show m + a + (i - a) = m + i by omega] at this
    exact this

theorem Agree.symm {src : Bytes} {p m c : Nat} (h : Agree src p m c) : Agree src m p c :=
  fun i hi => (h i hi).symm

/-! ### `lz4_count` only counts equal bytes -/

theorem firstDiff_agree (src : Bytes) : ∀ (fuel p m acc : Nat),
    ∃ k, firstDiff src fuel p m acc = acc + k ∧ Agree src p m k := by
  intro fuel
  induction fuel with
  | zero => intro p m acc; exact ⟨0, rfl, Agree.zero _ _ _⟩
  | succ fuel ih =>
    intro p m acc
    simp only [firstDiff]
    split
    · rename_i heq
      obtain ⟨k, hk, ha⟩ := ih (p + 1) (m + 1) (acc + 1)
      refine ⟨1 + k, by rw [hk]; omega, ?_⟩
      apply Agree.append (a := 1) _ ha
      intro i hi
      have : i = 0 := by omega
      subst this; exact heq
    · exact ⟨0, rfl, Agree.zero _ _ _⟩

theorem countTail_agree (src : Bytes) (limit : Nat) : ∀ (fuel p m acc : Nat),
    ∃ k, countTail src limit fuel p m acc = acc + k ∧ Agree src p m k := by
  intro fuel
  induction fuel with
  | zero => intro p m acc; exact ⟨0, rfl, Agree.zero _ _ _⟩
  | succ fuel ih =>
    intro p m acc
    simp only [countTail]
    split
    · rename_i heq
      obtain ⟨k, hk, ha⟩ := ih (p + 1) (m + 1) (acc + 1)
      refine ⟨1 + k, by rw [hk]; omega, ?_⟩
      apply Agree.append (a := 1) _ ha
      intro i hi
      have : i = 0 := by omega
      subst this; exact heq.2
    · exact ⟨0, rfl, Agree.zero _ _ _⟩

theorem eq8_agree {src : Bytes} {p m : Nat} (h : eq8 src p m = true) : Agree src p m 8 := by
  simp only [eq8, Bool.and_eq_true, beq_iff_eq] at h
  obtain ⟨⟨⟨⟨⟨⟨⟨h0, h1⟩, h2⟩, h3⟩, h4⟩, h5⟩, h6⟩, h7⟩ := h
  intro i hi
  have : i = 0 ∨ i = 1 ∨ i = 2 ∨ i = 3 ∨ i = 4 ∨ i = 5 ∨ i = 6 ∨ i = 7 := by omega
  rcases this with h | h | h | h | h | h | h | h <;> subst h <;> assumption

theorem countFast_agree (src : Bytes) (limit : Nat) : ∀ (fuel p m acc : Nat),
    ∃ k, countFast src limit fuel p m acc = acc + k ∧ Agree src p m k := by
  intro fuel
  induction fuel with
  | zero => intro p m acc; exact ⟨0, rfl, Agree.zero _ _ _⟩
  | succ fuel ih =>
    intro p m acc
    simp only [countFast]
    split
    · split
      · rename_i h8
        obtain ⟨k, hk, ha⟩ := ih (p + 8) (m + 8) (acc + 8)
        exact ⟨8 + k, by rw [hk]; omega, Agree.append (eq8_agree h8) ha⟩
      · exact firstDiff_agree src 8 p m acc
    · exact countTail_agree src limit _ p m acc

theorem count_agree (src : Bytes) (p m limit : Nat) : Agree src p m (count src p m limit) := by
  obtain ⟨k, hk, ha⟩ := countFast_agree src limit (limit - p + 1) p m 0
  unfold count
  rw [hk, Nat.zero_add]; exact ha

/-! ### the 4-byte test -/

theorem read32_agree {src : Bytes} {a b : Nat} (h : read32 src a = read32 src b) : Agree src a b 4 := by
  unfold read32 at h
  have h0 := (byteAt src a).toNat_lt
  have h1 := (byteAt src (a + 1)).toNat_lt
  have h2 := (byteAt src (a + 2)).toNat_lt
  have h3 := (byteAt src (a + 3)).toNat_lt
  have g0 := (byteAt src b).toNat_lt
  have g1 := (byteAt src (b + 1)).toNat_lt
  have g2 := (byteAt src (b + 2)).toNat_lt
  have g3 := (byteAt src (b + 3)).toNat_lt
  intro i hi
  have : i = 0 ∨ i = 1 ∨ i = 2 ∨ i = 3 := by omega
  rcases this with h' | h' | h' | h' <;> subst h' <;> apply UInt8.toNat_inj.mp <;> (try simp only [Nat.add_zero]) <;> omega

/-! ### copy validity, for any candidate position whatsoever -/

/-- what makes a sequence safe to emit at `ip` in a source of `n` bytes -/
structure MatchOk (src : Bytes) (n ip off mlen : Nat) : Prop where
  off_pos : 0 < off
  off_le : off ≤ ip
  off_le_max : off ≤ 65535
  mlen_ge : 4 ≤ mlen
  end_le : ip + mlen + 12 ≤ n
  agree : Agree src ip (ip - off) mlen

theorem probeAt_ok {src : Bytes} {n ip ref off mlen : Nat} (h : probeAt src n ip ref = some (off, mlen)) :
    MatchOk src n ip off mlen := by
  unfold probeAt at h
  split at h
  · cases h
  · rename_i hc
    split at h
    · cases h
    · rename_i hd
      simp only [Option.some.injEq, Prod.mk.injEq] at h
      obtain ⟨rfl, rfl⟩ := h
      have hc1 : ref < ip := by omega
      have hc2 : ip - ref ≤ 65535 := by omega
      have hc3 : read32 src ref = read32 src ip := by
        apply Classical.byContradiction; intro hne; exact hc (Or.inr (Or.inr hne))
      refine ⟨by omega, by omega, hc2, by omega, by omega, ?_⟩
      rw [show ip - (ip - ref) = ref by omega, Nat.add_comm]
      exact Agree.append (read32_agree hc3).symm (count_agree src (ip + 4) (ref + 4) (n - 12))

/-- **Copy validity, independent of the hash table**: whatever `tbl` contains, a sequence emitted
at `ip` has `0 < off ≤ ip`, `off ≤ 65535` and `src[ip + i] = src[ip − off + i]` for `i < mlen`. -/
theorem probe_ok {src : Bytes} {n ip off mlen : Nat} (tbl : Array UInt16)
    (h : probe src n ip tbl = some (off, mlen)) : MatchOk src n ip off mlen :=
  probeAt_ok h

/-! ### the match finder emits a chain of valid sequences -/

def SeqOk (src : Bytes) (n : Nat) (s : Seq) : Prop := s.anchor ≤ s.ip ∧ MatchOk src n s.ip s.off s.mlen

/-- sequences, most recent first, ending at `anchor` -/
def ChainRev (src : Bytes) (n : Nat) : List Seq → Nat → Prop
  | [], a => a = 0
  | s :: r, a => a = s.ip + s.mlen ∧ SeqOk src n s ∧ ChainRev src n r s.anchor

/-- sequences in emission order from anchor `a`, ending at anchor `b` -/
def Chain (src : Bytes) (n : Nat) : Nat → List Seq → Nat → Prop
  | a, [], b => a = b
  | a, s :: r, b => s.anchor = a ∧ SeqOk src n s ∧ Chain src n (s.ip + s.mlen) r b

theorem findLoop_chain (src : Bytes) (n : Nat) : ∀ (fuel ip anchor : Nat) (tbl : Array UInt16) (acc : List Seq),
    ChainRev src n acc anchor → anchor ≤ ip →
    ChainRev src n (findLoop src n fuel ip anchor tbl acc).1 (findLoop src n fuel ip anchor tbl acc).2 := by
  intro fuel
  induction fuel with
  | zero => intro ip anchor tbl acc h _; exact h
  | succ fuel ih =>
    intro ip anchor tbl acc h ha
    simp only [findLoop]
    split
    · split
      · rename_i off mlen hp
        apply ih
        · exact ⟨rfl, ⟨ha, probe_ok tbl hp⟩, h⟩
        · omega
      · apply ih _ _ _ _ h (by omega)
    · exact h

theorem chain_of_rev (src : Bytes) (n : Nat) : ∀ (acc : List Seq) (b : Nat), ChainRev src n acc b →
    ∀ (tail : List Seq) (c : Nat), Chain src n b tail c → Chain src n 0 (acc.reverse ++ tail) c := by
  intro acc
  induction acc with
  | nil => intro b h tail c ht; simp only [ChainRev] at h; subst h; simpa using ht
  | cons s r ih =>
    intro b h tail c ht
    obtain ⟨hb, hs, hr⟩ := h
    have := ih s.anchor hr (s :: tail) c ⟨rfl, hs, by rw [← hb]; exact ht⟩
    simpa using this

theorem ops_chain (src : Bytes) : Chain src src.size 0 (ops src).1 (ops src).2 := by
  have h := findLoop_chain src src.size src.size 0 0 emptyTable [] rfl (Nat.le_refl _)
  unfold ops
  generalize findLoop src src.size src.size 0 0 emptyTable [] = r at h
  obtain ⟨acc, anchor⟩ := r
  have := chain_of_rev src src.size acc anchor h [] anchor rfl
  simpa using this

theorem Chain.end_le {src : Bytes} {n : Nat} : ∀ {seqs : List Seq} {a b : Nat}, Chain src n a seqs b → a ≤ n → b ≤ n := by
  intro seqs
  induction seqs with
  | nil => intro a b h ha; simp only [Chain] at h; omega
  | cons s r ih =>
    intro a b h ha
    obtain ⟨_, hs, hr⟩ := h
    exact ih hr (by have := hs.2.end_le; omega)

/-! ### executing the sequences gives the source back -/

open Carquet.Spec.Lz4 (applyMatch copy1)

theorem byteAt_toArray (x : List UInt8) (i : Nat) (h : i < x.length) : byteAt x.toArray i = x[i] := by
  simp [byteAt, h]

theorem applyMatch_take (x : List UInt8) {off : Nat} (h0 : 0 < off) : ∀ (m p : Nat), off ≤ p → p + m ≤ x.length →
    Agree x.toArray p (p - off) m → applyMatch (x.take p) off m = x.take (p + m) := by
  intro m
  induction m with
  | zero => intro p _ _ _; simp [applyMatch]
  | succ m ih =>
    intro p hp hle ha
    have hlen : (x.take p).length = p := by simp; omega
    have hidx : p - off < p := by omega
    have hb : byteAt x.toArray p = byteAt x.toArray (p - off) := by simpa using ha 0 (by omega)
    rw [byteAt_toArray x p (by omega), byteAt_toArray x (p - off) (by omega)] at hb
    have hc : copy1 (x.take p) off = x.take (p + 1) := by
      simp only [copy1, hlen]
      rw [List.getElem?_take_of_lt hidx, List.getElem?_eq_getElem (by omega : p - off < x.length)]
      simp only
      rw [← hb, List.take_succ_eq_append_getElem (by omega)]
    simp only [applyMatch, hc]
    rw [ih (p + 1) (by omega) (by omega)]
    · congr 1; omega
    · intro i hi
      have := ha (i + 1) (by omega)
      rw [show p + 1 + i = p + (i + 1) by omega, show p + 1 - off + i = p - off + (i + 1) by omega]
      exact this

/-- the Spec view of an emitted sequence -/
def toSpec (src : Bytes) (s : Seq) : Spec.Lz4.Seq := ⟨slice src s.anchor s.ip, s.off, s.mlen⟩

theorem slice_toArray (x : List UInt8) (a b : Nat) : slice x.toArray a b = (x.take b).drop a := by
  simp [slice, List.extract_toArray, List.extract_eq_take_drop, List.drop_take]

theorem take_append_slice (x : List UInt8) (a b : Nat) (h : a ≤ b) :
    x.take a ++ slice x.toArray a b = x.take b := by
  rw [slice_toArray]
  have : x.take a = (x.take b).take a := by rw [List.take_take]; congr 1; omega
  rw [this, List.take_append_drop]

theorem exec_chain (x : List UInt8) : ∀ (seqs : List Seq) (a b : Nat), Chain x.toArray x.length a seqs b →
    a ≤ x.length →
    Spec.Lz4.exec (x.take a) (seqs.map (toSpec x.toArray)) (x.drop b) = some x := by
  intro seqs
  induction seqs with
  | nil =>
    intro a b h _
    simp only [Chain] at h
    subst h
    simp [Spec.Lz4.exec]
  | cons s r ih =>
    intro a b h ha
    obtain ⟨hsa, ⟨hanc, hm⟩, hr⟩ := h
    subst hsa
    have hend := hm.end_le
    simp only [List.map_cons, Spec.Lz4.exec, toSpec]
    rw [take_append_slice x s.anchor s.ip hanc]
    have hlen : (x.take s.ip).length = s.ip := by simp; omega
    rw [hlen, if_pos ⟨hm.off_pos, hm.off_le, hm.off_le_max, hm.mlen_ge⟩]
    rw [applyMatch_take x hm.off_pos s.mlen s.ip hm.off_le (by omega) hm.agree]
    exact ih _ _ hr (by omega)

/-! ### the emitted bytes are the Spec encoding of the sequences -/

theorem chainBytes_eq : ∀ (fuel rem : Nat), rem / 255 ≤ fuel →
    chainBytes fuel rem = List.replicate (rem / 255) 255 ++ [UInt8.ofNat (rem % 255)] := by
  intro fuel
  induction fuel with
  | zero =>
    intro rem h
    have h0 : rem / 255 = 0 := by omega
    have h1 : rem % 255 = rem := by omega
    simp [chainBytes, h0, h1]
  | succ fuel ih =>
    intro rem h
    simp only [chainBytes]
    split
    · rename_i hge
      rw [ih (rem - 255) (by omega)]
      rw [show rem / 255 = (rem - 255) / 255 + 1 by omega, show (rem - 255) % 255 = rem % 255 by omega]
      simp [List.replicate_succ]
    · have h0 : rem / 255 = 0 := by omega
      have h1 : rem % 255 = rem := by omega
      simp [h0, h1]

theorem lenBytes_eq (len : Nat) : lenBytes len = Spec.Lz4.lenExt len := by
  unfold lenBytes Spec.Lz4.lenExt
  by_cases h : 15 ≤ len
  · rw [if_pos h, if_neg (by omega), chainBytes_eq _ _ (by omega)]
  · rw [if_neg h, if_pos (by omega)]

theorem nibble_eq (len : Nat) : nibble len = Spec.Lz4.lenNibble len := by
  unfold nibble Spec.Lz4.lenNibble
  by_cases h : 15 ≤ len
  · rw [if_pos h, if_neg (by omega)]
  · rw [if_neg h, if_pos (by omega)]

theorem slice_length (src : Bytes) (a b : Nat) (hb : b ≤ src.size) : (slice src a b).length = b - a := by
  simp [slice]; omega

theorem seqBytes_eq (src : Bytes) (s : Seq) (h : s.ip ≤ src.size) :
    seqBytes src s = Spec.Lz4.encodeSeq (toSpec src s) := by
  simp only [seqBytes, Spec.Lz4.encodeSeq, toSpec, Spec.Lz4.token, slice_length src _ _ h, lenBytes_eq, nibble_eq]

theorem lastBytes_eq (src : Bytes) (a : Nat) :
    lastBytes src a = Spec.Lz4.encodeLast (slice src a src.size) := by
  have h0 : Spec.Lz4.lenNibble 0 = 0 := by simp [Spec.Lz4.lenNibble]
  simp only [lastBytes, Spec.Lz4.encodeLast, Spec.Lz4.token, slice_length src _ _ (Nat.le_refl _), lenBytes_eq,
    nibble_eq, h0, Nat.add_zero]

/-- all bytes the emission writes -/
def emitted (src : Bytes) (seqs : List Seq) (anchor : Nat) : List UInt8 :=
  Spec.Lz4.encode (seqs.map (toSpec src)) (slice src anchor src.size)

/-- number of additional length bytes -/
def extLen (len : Nat) : Nat := if 15 ≤ len then (len - 15) / 255 + 1 else 0

theorem lenBytes_length (len : Nat) : (lenBytes len).length = extLen len := by
  unfold extLen
  rw [lenBytes_eq]
  unfold Spec.Lz4.lenExt
  by_cases h : 15 ≤ len
  · rw [if_pos h, if_neg (by omega)]; simp
  · rw [if_neg h, if_pos (by omega)]; simp

theorem seqBytes_length (src : Bytes) (s : Seq) (h : s.ip ≤ src.size) :
    (seqBytes src s).length = 1 + extLen (s.ip - s.anchor) + (s.ip - s.anchor) + 2 + extLen (s.mlen - 4) := by
  simp only [seqBytes, List.length_cons, List.length_append, lenBytes_length, slice_length src _ _ h,
    List.length_nil]
  omega

theorem lastBytes_length (src : Bytes) (a : Nat) :
    (lastBytes src a).length = 1 + extLen (src.size - a) + (src.size - a) := by
  simp only [lastBytes, List.length_cons, List.length_append, lenBytes_length,
    slice_length src _ _ (Nat.le_refl _)]
  omega

/-- With the advertised bound as capacity neither the per-sequence test nor any store fails, and
the output is the Spec encoding of the emitted sequences. -/
theorem serialize_fits (src : Bytes) (cap : Nat) (hcap : src.size + src.size / 255 + 16 ≤ cap) :
    ∀ (seqs : List Seq) (a b : Nat) (out : List UInt8), Chain src src.size a seqs b → a ≤ src.size →
    out.length ≤ a + a / 255 →
    serialize src cap b seqs out.toArray = .ok (out ++ emitted src seqs b).toArray ∧
      (out ++ emitted src seqs b).length ≤ src.size + src.size / 255 + 2 := by
  intro seqs
  induction seqs with
  | nil =>
    intro a b out h ha ho
    simp only [Chain] at h
    subst h
    have hl := lastBytes_length src a
    simp only [serialize, wr, List.size_toArray, hl]
    have e : emitted src [] a = lastBytes src a := by simp [emitted, Spec.Lz4.encode, lastBytes_eq]
    rw [e]
    unfold extLen at hl
    have hlen : (out ++ lastBytes src a).length ≤ src.size + src.size / 255 + 2 := by
      rw [List.length_append, hl]; split <;> omega
    refine ⟨?_, hlen⟩
    rw [if_neg (by omega), if_neg (by rw [List.length_append] at hlen; rw [← lastBytes_length]; omega)]
    simp
  | cons s r ih =>
    intro a b out h ha ho
    obtain ⟨hsa, ⟨hanc, hm⟩, hr⟩ := h
    subst hsa
    have hend := hm.end_le
    have hge := hm.mlen_ge
    have hsl := seqBytes_length src s (by omega)
    have hcost : (seqBytes src s).length ≤ (s.ip - s.anchor + s.mlen) + (s.ip - s.anchor + s.mlen) / 255 := by
      rw [hsl]; unfold extLen; split <;> split <;> omega
    simp only [serialize, wr, List.size_toArray, maxOut]
    rw [if_neg (by omega), if_neg (by omega)]
    simp only [List.toArray_appendList]
    have := ih (s.ip + s.mlen) b (out ++ seqBytes src s) hr (by omega) (by rw [List.length_append]; omega)
    have e : emitted src (s :: r) b = seqBytes src s ++ emitted src r b := by
      simp [emitted, Spec.Lz4.encode, seqBytes_eq src s (by omega)]
    rw [e, ← List.append_assoc]
    exact this

/-! ### end-of-block rules -/

theorem chain_last {src : Bytes} {n : Nat} : ∀ {seqs : List Seq} {a b : Nat} {s : Seq}, Chain src n a seqs b →
    seqs.getLast? = some s → b = s.ip + s.mlen ∧ SeqOk src n s := by
  intro seqs
  induction seqs with
  | nil => intro a b s _ h; simp at h
  | cons t r ih =>
    intro a b s h hl
    obtain ⟨_, ht, hr⟩ := h
    cases r with
    | nil =>
      simp only [List.getLast?_singleton, Option.some.injEq] at hl
      subst hl
      simp only [Chain] at hr
      exact ⟨hr.symm, ht⟩
    | cons u r' =>
      rw [List.getLast?_cons_cons] at hl
      exact ih hr hl

theorem endRules_chain (src : Bytes) (seqs : List Seq) (b : Nat) (h : Chain src src.size 0 seqs b) :
    Spec.Lz4.EndRules (seqs.map (toSpec src)) (slice src b src.size) := by
  unfold Spec.Lz4.EndRules
  rw [List.getLast?_map]
  cases hl : seqs.getLast? with
  | none => simp
  | some s =>
    obtain ⟨hb, _, hm⟩ := chain_last h hl
    have := hm.end_le
    simp only [Option.map_some, toSpec, slice_length src _ _ (Nat.le_refl _)]
    omega

/-! ### the compressor as a whole -/

theorem finish_ok (l : List UInt8) : finish (.ok l.toArray) = .ok l := by simp [finish]

/-- With at least the advertised bound as capacity the compressor succeeds, its output is the
Spec encoding of sequences that reproduce `x`, respects the end-of-block rules, and is not longer
than the bound. -/
theorem compress_spec (x : List UInt8) (cap : Nat) (hcap : bound x.length ≤ cap) :
    ∃ seqs last, compress x cap = .ok (Spec.Lz4.encode seqs last) ∧
      Spec.Lz4.exec [] seqs last = some x ∧ Spec.Lz4.EndRules seqs last ∧
      (Spec.Lz4.encode seqs last).length ≤ bound x.length := by
  unfold bound at hcap
  by_cases h0 : x.length = 0
  · have hx : x = [] := List.eq_nil_of_length_eq_zero h0
    subst hx
    refine ⟨[], [], ?_, by simp [Spec.Lz4.exec], by simp [Spec.Lz4.EndRules], by decide⟩
    simp only [compress, compressA, bound, List.size_toArray, List.length_nil, wr]
    simp only [List.length_nil] at hcap
    rw [if_neg (by omega), if_pos True.intro, if_neg (by omega), if_neg (by simp; omega)]
    decide
  · by_cases h13 : x.length < 13
    · refine ⟨[], x, ?_, by simp [Spec.Lz4.exec], by simp [Spec.Lz4.EndRules], ?_⟩
      · simp only [compress, compressA, bound, List.size_toArray, small, wr]
        rw [if_neg (by omega), if_neg h0, if_pos h13, if_neg (by omega), if_pos (by omega)]
        rw [if_neg (by simp; omega)]
        have e : Spec.Lz4.encode [] x = UInt8.ofNat (x.length * 16) :: x := by
          simp only [Spec.Lz4.encode, Spec.Lz4.encodeLast, Spec.Lz4.token, Spec.Lz4.lenNibble, Spec.Lz4.lenExt]
          rw [if_pos (by omega), if_pos (by omega), if_pos (by omega)]
          simp
        rw [e]
        simp [finish]
      · simp only [Spec.Lz4.encode, Spec.Lz4.encodeLast, Spec.Lz4.lenExt, bound]
        rw [if_pos (by omega)]
        simp; omega
    · have hch := ops_chain x.toArray
      simp only [List.size_toArray] at hch
      have hb := Chain.end_le hch (Nat.zero_le _)
      refine ⟨(ops x.toArray).1.map (toSpec x.toArray), slice x.toArray (ops x.toArray).2 x.length, ?_, ?_, ?_, ?_⟩
      · have hs := (serialize_fits x.toArray cap (by simpa using hcap) _ 0 _ [] (by simpa using hch)
          (Nat.zero_le _) (by simp)).1
        simp only [compress, compressA, bound, List.size_toArray, compressMain]
        rw [if_neg (by omega), if_neg h0, if_neg h13]
        have e : (#[] : Array UInt8) = ([] : List UInt8).toArray := rfl
        rw [e, hs]
        simp [finish, emitted]
      · have := exec_chain x _ 0 _ hch (Nat.zero_le _)
        simpa [slice_toArray] using this
      · have := endRules_chain x.toArray _ _ (by simpa using hch)
        simpa using this
      · have hs := (serialize_fits x.toArray cap (by simpa using hcap) _ 0 _ [] (by simpa using hch)
          (Nat.zero_le _) (by simp)).2
        simp only [emitted, List.size_toArray, List.nil_append] at hs
        unfold bound
        omega

end Carquet.Proofs.Lz4Comp
