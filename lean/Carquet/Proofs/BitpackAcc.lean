import Carquet.Impl.BitpackAcc
import Carquet.Proofs.BitpackTails
/-
Read footprint of the raw unpackers: every index the generic loop reads is below `w`; the result of
`carquet_bitunpack8_32` / `carquet_bitunpack_32` is a function of the first `w` / `packed_size(count, w)`
input bytes only; the accesses of `carquet_bitunpack_32` tile exactly `[0, packed_size(count, w))`.
-/
namespace Carquet.Proofs.BitpackAcc
open Carquet.Impl.Bitpack Carquet.Proofs.NatBits Carquet.Proofs.BitpackImpl Carquet.Proofs.BitpackTails

/-- inner loop: with `byte_pos = bit_pos / 8`, every index read is below `(bit_pos + bits_needed + 7) / 8` -/
theorem genInnerIdx_lt (inp : List UInt8) : ∀ (fuel : Nat) (s : GenSt), s.bytePos = s.bitPos / 8 →
    ∀ i ∈ genInnerIdx inp fuel s, 8 * i < s.bitPos + s.bitsNeeded := by
  intro fuel
  induction fuel with
  | zero => intro s _ i hi; simp [genInnerIdx] at hi
  | succ f ih =>
    intro s hb i hi
    simp only [genInnerIdx] at hi
    split at hi
    · simp at hi
    · rename_i h0
      have hk1 : 1 ≤ bitsFromByte s := by unfold bitsFromByte; omega
      have hk2 : bitsFromByte s ≤ s.bitsNeeded := by unfold bitsFromByte; omega
      rcases List.mem_cons.mp hi with rfl | hi
      · omega
      · have hbyte : (genStep inp s).bytePos = (genStep inp s).bitPos / 8 := by
          simp only [genStep]
          have hk3 : bitsFromByte s ≤ 8 - s.bitPos % 8 := by unfold bitsFromByte; omega
          split <;> omega
        have := ih (genStep inp s) hbyte i hi
        simp only [genStep] at this
        omega

/-- outer loop started at value `j`: all indices below `w` (8 values of `w` bits = `w` bytes) -/
theorem genOuterIdx_lt (w : Nat) (inp : List UInt8) : ∀ (n j : Nat), j + n ≤ 8 →
    ∀ i ∈ genOuterIdx w inp n (w * j) (w * j / 8), i < w := by
  intro n
  induction n with
  | zero => intro j _ i hi; simp [genOuterIdx] at hi
  | succ n ih =>
    intro j hj i hi
    simp only [genOuterIdx] at hi
    obtain ⟨_, r2, r3⟩ := genInner_eq inp w ⟨0, w, 0, w * j, w * j / 8⟩ (w * j)
      (Nat.le_refl _) rfl rfl (by simp [Nat.mod_one])
    rcases List.mem_append.mp hi with hi | hi
    · have := genInnerIdx_lt inp w ⟨0, w, 0, w * j, w * j / 8⟩ rfl i hi
      simp only at this
      have h8 : w * j + w ≤ w * 8 := by
        rw [show w * j + w = w * (j + 1) by rw [Nat.mul_add]; omega]
        exact Nat.mul_le_mul_left w (by omega)
      omega
    · rw [r2, r3] at hi
      simp only at hi
      rw [show w * j + w = w * (j + 1) by rw [Nat.mul_add]; omega] at hi
      exact ih (j + 1) (by omega) i hi

/-- **`carquet_bitunpack8_32` reads `input[0 .. w)` only**, at every declared width -/
theorem unpack8Idx_lt (w : Nat) (inp : List UInt8) : ∀ i ∈ unpack8Idx w inp, i < w := by
  intro i hi
  unfold unpack8Idx at hi
  split at hi
  · simp at hi
  · split at hi
    · simpa using hi
    · have := genOuterIdx_lt w inp 8 0 (by omega) i
      simp only [Nat.mul_zero, Nat.zero_div] at this
      exact this hi

/-- … and its result depends on those bytes only -/
theorem unpack8_take {w : Nat} (hw : w ≤ 32) (inp : List UInt8) : unpack8 w inp = unpack8 w (inp.take w) := by
  rw [unpack8_eq hw inp, unpack8_eq hw (inp.take w), List.take_take, Nat.min_self]

theorem packedSize_split (n w : Nat) : packedSize n w = n / 8 * w + packedSize (n % 8) w := by
  unfold packedSize
  have e : n * w = 8 * (n / 8 * w) + n % 8 * w := by
    rw [← Nat.mul_assoc, ← Nat.add_mul, Nat.div_add_mod]
  rw [e]; omega

/-- **the accesses of `carquet_bitunpack_32` lie inside `[0, packed_size(count, w))`**, they are consecutive
from 0 and their lengths add up to `packed_size(count, w)` = the reported `bytes_consumed` -/
theorem unpackAccs_in (w count : Nat) :
    (∀ a ∈ unpackAccs w count, a.off + a.len ≤ packedSize count w) ∧
    ((unpackAccs w count).map (·.len)).sum = (if w = 0 then 0 else packedSize count w) := by
  unfold unpackAccs
  by_cases h0 : w = 0
  · simp [h0]
  · rw [if_neg h0, if_neg h0]
    have hsplit := packedSize_split count w
    constructor
    · intro a ha
      rcases List.mem_append.mp ha with h | h
      · simp only [List.mem_map, List.mem_range] at h
        obtain ⟨g, hg, rfl⟩ := h
        simp only
        have : g * w + w ≤ count / 8 * w := by
          rw [show g * w + w = (g + 1) * w by rw [Nat.add_mul]; omega]
          exact Nat.mul_le_mul_right w hg
        omega
      · split at h
        · simp at h
        · simp only [List.mem_singleton] at h
          subst h
          simp only
          omega
    · rw [List.map_append, List.sum_append, List.map_map]
      have hs : ∀ k, ((List.range k).map ((fun a : Acc => a.len) ∘ fun g => (⟨g * w, w⟩ : Acc))).sum = k * w := by
        intro k
        induction k with
        | zero => simp
        | succ k ih =>
          rw [List.range_succ, List.map_append, List.sum_append, ih]
          simp [Nat.add_mul]
      rw [hs]
      split
      · rename_i hr
        simp only [List.map_nil, List.sum_nil]
        rw [hsplit, hr]
        simp [packedSize]
      · simp only [List.map_cons, List.map_nil, List.sum_cons, List.sum_nil]
        omega

/-- **`carquet_bitunpack_32` is a function of the first `packed_size(count, w)` input bytes**: values and
`bytes_consumed` do not change when everything behind them is cut off -/
theorem unpack_take {w : Nat} (hw : w ≤ 32) (inp : List UInt8) (n : Nat) :
    unpack w inp n = unpack w (inp.take (packedSize n w)) n := by
  by_cases h0 : w = 0
  · subst h0; simp [unpack]
  · apply Prod.ext
    · rw [unpack_values hw h0, unpack_values hw h0]
      apply List.map_congr_left
      intro i hi
      have hin : i < n := by simpa using hi
      rw [leNat_take]
      symm
      apply nth_mod
      have : w * i + w ≤ w * n := by
        rw [show w * i + w = w * (i + 1) by rw [Nat.mul_add]; omega]
        exact Nat.mul_le_mul_left w hin
      unfold packedSize
      rw [Nat.mul_comm n w]
      omega
    · rw [unpack_consumed h0, unpack_consumed h0]

end Carquet.Proofs.BitpackAcc
