import Carquet.Proofs.FileRealFooter
import Carquet.Proofs.SpecFileFooter
import Carquet.Proofs.SpecFileSchema
import Carquet.Spec.ParquetThriftValue
import Carquet.Impl.WriterSpecTable
/-
Footer stage of `Spec.File.read` on the footer carquet's writer emits
(`Impl.FileReal.footer md = parquet_write_file_metadata (build_file_metadata …)`): the bytes are
the canonical compact encoding of the Thrift value parquet.thrift assigns to the structure (C13),
the independent generic decoder reads that value back consuming the footer exactly, and the
reader's extraction with the REQUIRED-field rules finds version 2, the schema elements of the
tree `specSchemaOf cols`, `num_rows`, and per row group / chunk the metadata carquet wrote
(the extra members `file_offset`, `total_compressed_size`, `ordinal`, `created_by` are legal and
ignored by the reader).  Then the schema stage: the element list parses back to the tree and its
leaves are the columns.
-/
namespace Carquet.Proofs.SpecWriter
open Carquet.Impl Carquet.Impl.Writer Carquet.Impl.FileReal Carquet.Impl.ThriftParquet
open Carquet.Spec Carquet.Spec.Thrift Carquet.Spec.ParquetThrift
open Carquet.Proofs.FileRealFooter Carquet.Proofs.SpecFile

/-! ### strings -/

theorem toList_loop (bs : ByteArray) : ∀ (k i : Nat) (r : List UInt8), bs.size - i = k →
    ByteArray.toList.loop bs i r = r.reverse ++ bs.data.toList.drop i := by
  have hsz : bs.data.toList.length = bs.size := by rw [Array.length_toList]; rfl
  intro k
  induction k with
  | zero =>
    intro i r h
    rw [ByteArray.toList.loop]
    have : ¬ i < bs.size := by omega
    simp only [this, if_false]
    have hd : bs.data.toList.drop i = [] := List.drop_eq_nil_of_le (by omega)
    rw [hd, List.append_nil]
  | succ k ih =>
    intro i r h
    rw [ByteArray.toList.loop]
    have hi : i < bs.size := by omega
    simp only [hi, if_true]
    rw [ih (i + 1) _ (by omega)]
    have hlt : i < bs.data.toList.length := by omega
    rw [List.drop_eq_getElem_cons hlt]
    have hg : bs.get! i = bs.data.toList[i] := by
      show bs.data[i]! = _
      rw [getElem!_pos bs.data i (by rw [← Array.length_toList]; exact hlt)]
      rfl
    rw [hg]
    simp

/-- the writer model's and the Spec's UTF-8 bytes of a string are the same -/
theorem strBytes_eq (s : String) : FileReal.strBytes s = File.strBytes s := by
  unfold FileReal.strBytes File.strBytes ByteArray.toList
  rw [toList_loop _ _ 0 [] rfl]
  rfl

/-! ### the metadata the reader extracts -/

/-- ColumnMetaData of a written chunk as the independent reader extracts it -/
def cmOf (ch : ChunkMeta) : File.ColumnMeta :=
  ⟨ch.ptype.code, [0, 3], [File.strBytes ch.path], ch.codec, ch.numValues, ch.totalUncompressed, ch.totalCompressed,
   ch.fileOffset, none⟩

def rgMetaOf (g : RgMeta) : File.RowGroupMeta := ⟨g.chunks.map cmOf, g.totalByteSize, g.numRows⟩

/-- FileMetaData of a written file as the independent reader extracts it -/
def fileMetaOfWritten (md : FooterData) : File.FileMeta :=
  ⟨2, Schema.flatten (specSchemaOf md.cols), md.numRows, md.rowGroups.map rgMetaOf⟩

/-! ### schema elements -/

theorem flattenList_leaves (cols : List Col) :
    Schema.flattenList (cols.map specLeafNode) =
      cols.map (fun c => (⟨⟨c.name, some (specRep c.rep), some c.ptype.code, (c.typeLen : Int), none, specLogicalOf c⟩, 0⟩ : Schema.Element)) := by
  induction cols with
  | nil => rfl
  | cons c cs ih => simp [Schema.flattenList, Schema.flatten, specLeafNode, ih]

theorem repCode_specRep (r : Rep) : File.repCode (specRep r) = (r.code : Int) := by cases r <;> rfl

theorem rootTV (n : Nat) :
    schemaElementTV ({ name := some (FileReal.strBytes "schema"), numChildren := n } : SchemaElement) =
      TVal.struct (seFields ⟨⟨"schema", none, none, 0, none, none⟩, n⟩) := by
  by_cases h0 : n = 0
  · simp [schemaElementTV, seFields, fOpt, fPos, fNonZero, fLogical, File.optField, strBytes_eq, h0]
  · have hpos : 0 < n := by omega
    simp [schemaElementTV, seFields, fOpt, fPos, fNonZero, fLogical, File.optField, strBytes_eq, hpos, h0]

/-- the Thrift value of a time unit, in the writer model's and in the independent reader's terms -/
theorem timeUnitTV_spec (u : TimeUnit) : timeUnitTV u = File.annotUnitTV (specUnit u) := by cases u <;> rfl

/-- **field 10 of a written column element**: what `write_schema_element` / `write_logical_type` emit for the
logical type `build_file_metadata` sets is the LogicalType union value that STATES the annotation the
column was created with (one member, every required field of the member struct) — and no field 10
at all for a NULL pointer or id UNKNOWN -/
theorem fLogical_written (c : Col) :
    fLogical (colLogical c) = File.optField 10 File.annotationTV (specLogicalOf c) := by
  unfold colLogical specLogicalOf
  cases c.logical with
  | none => rfl
  | some lt =>
    cases lt <;> first
      | rfl
      | simp [fLogical, logicalTypeTV, timeTV, f1, timeUnitTV_spec, specLogical, File.optField, File.annotationTV]

theorem leafTV (c : Col) :
    schemaElementTV (schemaElementOfCol c) =
      TVal.struct (seFields ⟨⟨c.name, some (specRep c.rep), some c.ptype.code, (c.typeLen : Int), none, specLogicalOf c⟩, 0⟩) := by
  have hl := fLogical_written c
  by_cases h0 : c.typeLen = 0
  · simp [schemaElementTV, schemaElementOfCol, seFields, fOpt, fPos, fNonZero, hl, File.optField, strBytes_eq, h0, repCode_specRep]
  · have hpos : 0 < c.typeLen := by omega
    simp [schemaElementTV, schemaElementOfCol, seFields, fOpt, fPos, fNonZero, hl, File.optField, strBytes_eq, hpos, h0,
      repCode_specRep]

theorem schema_written (md : FooterData) :
    (FileReal.fileMetaData md).schema.map schemaElementTV =
      (Schema.flatten (specSchemaOf md.cols)).map (fun e => TVal.struct (seFields e)) := by
  simp only [FileReal.fileMetaData, specSchemaOf, Schema.flatten, flattenList_leaves, List.map_cons, List.map_map,
    List.length_map, rootTV]
  congr 1
  apply List.map_congr_left
  intro c _
  exact leafTV c

/-! ### row groups -/

/-- the ColumnChunk / RowGroup structures `build_file_metadata` fills (as in `FileReal.fileMetaData`) -/
def chunkW (ch : ChunkMeta) : ColumnChunk :=
  { fileOffset := ch.fileOffset,
    metaData := some { type := ch.ptype.code, encodings := [0, 3], pathInSchema := [FileReal.strBytes ch.path],
                       codec := ch.codec, numValues := ch.numValues,
                       totalUncompressedSize := ch.totalUncompressed,
                       totalCompressedSize := ch.totalCompressed,
                       dataPageOffset := ch.fileOffset } }

def groupW (g : RgMeta) : RowGroup :=
  { columns := g.chunks.map chunkW,
    totalByteSize := g.totalByteSize, numRows := g.numRows, fileOffset := some g.fileOffset,
    totalCompressedSize := some g.totalCompressed, ordinal := some g.ordinal }

theorem rowGroups_written (md : FooterData) : (FileReal.fileMetaData md).rowGroups = md.rowGroups.map groupW := rfl

theorem columnChunkTV_written (ch : ChunkMeta) :
    columnChunkTV (chunkW ch) = TVal.struct (ccFields ch.fileOffset (cmOf ch)) := by
  simp [columnChunkTV, chunkW, columnMetaDataTV, ccFields, cmFields, cmOf, f1, fOpt, File.optField, strBytes_eq]

/-- the fields of the Thrift value of a written row group -/
def rgFieldsW (g : RgMeta) : File.Fields :=
  [(1, TVal.list .struct (g.chunks.map (fun ch => TVal.struct (ccFields ch.fileOffset (cmOf ch))))),
   (2, TVal.i64 g.totalByteSize), (3, TVal.i64 g.numRows), (5, TVal.i64 g.fileOffset), (6, TVal.i64 g.totalCompressed),
   (7, TVal.i16 g.ordinal)]

theorem rowGroupTV_written (g : RgMeta) : rowGroupTV (groupW g) = TVal.struct (rgFieldsW g) := by
  simp only [rowGroupTV, groupW, List.map_map, f1, fOpt, rgFieldsW, List.cons_append, List.nil_append]
  congr 4
  apply List.map_congr_left
  intro ch _
  exact columnChunkTV_written ch

theorem rowGroupOf_rgFieldsW (g : RgMeta) : File.rowGroupOf (rgFieldsW g) = .ok (rgMetaOf g) := by
  unfold File.rowGroupOf rgFieldsW
  rw [checkStruct_of _ _ rfl rfl]
  have h := structsOf_map "RowGroup.columns" (fun ch : ChunkMeta => ccFields ch.fileOffset (cmOf ch)) g.chunks
  have h2 := columnChunksOf_map (g.chunks.map (fun ch => (ch.fileOffset, cmOf ch)))
  simp only [List.map_map, Function.comp_def] at h2
  simp [bind, Except.bind, pure, Except.pure, File.getList, File.field?, h, h2, File.natField, File.getInt, File.intOf,
    natCast_not_neg, rgMetaOf]

theorem rowGroupsOf_map_W (gs : List RgMeta) : File.rowGroupsOf (gs.map rgFieldsW) = .ok (gs.map rgMetaOf) := by
  induction gs with
  | nil => rfl
  | cons g r ih =>
    simp [File.rowGroupsOf, rowGroupOf_rgFieldsW, ih, bind, Except.bind, pure, Except.pure]

/-! ### the file -/

/-- the fields of the Thrift value of a written FileMetaData -/
def fmFieldsW (md : FooterData) : File.Fields :=
  [(1, TVal.i32 2), (2, TVal.list .struct ((Schema.flatten (specSchemaOf md.cols)).map (fun e => TVal.struct (seFields e)))),
   (3, TVal.i64 md.numRows), (4, TVal.list .struct (md.rowGroups.map (fun g => TVal.struct (rgFieldsW g)))),
   (6, TVal.binary (FileReal.strBytes md.createdBy))]

theorem fileMetaDataTV_written (md : FooterData) :
    fileMetaDataTV (FileReal.fileMetaData md) = TVal.struct (fmFieldsW md) := by
  have hs := schema_written md
  have hg : (FileReal.fileMetaData md).rowGroups.map rowGroupTV = md.rowGroups.map (fun g => TVal.struct (rgFieldsW g)) := by
    rw [rowGroups_written, List.map_map]
    apply List.map_congr_left
    intro g _
    exact rowGroupTV_written g
  unfold fileMetaDataTV
  rw [hs, hg]
  simp [FileReal.fileMetaData, fmFieldsW, f1, fOpt, fKeyValues]

theorem fileMetaOf_fmFieldsW (md : FooterData) : File.fileMetaOf (fmFieldsW md) = .ok (fileMetaOfWritten md) := by
  unfold File.fileMetaOf fmFieldsW
  have h1 := structsOf_map "FileMetaData.schema" seFields (Schema.flatten (specSchemaOf md.cols))
  have h2 := structsOf_map "FileMetaData.row_groups" rgFieldsW md.rowGroups
  rw [checkStruct_of _ _ rfl rfl]
  simp [bind, Except.bind, pure, Except.pure, File.getList, File.field?, h1, h2, schemaElementsOf_map, rowGroupsOf_map_W,
    File.natField, File.getInt, File.intOf, natCast_not_neg, fileMetaOfWritten]

/-- the INDEPENDENT generic compact-protocol decoder reads the footer of a written file, to its last byte,
as the Thrift value `fmFieldsW md` (whose schema elements are `seFields` of the tree `specSchemaOf cols`) -/
theorem decodeStruct_written (md : FooterData) (hok : footerOk md = true) :
    decodeStruct (FileReal.footer md) = some (TVal.struct (fmFieldsW md)) := by
  have w := fileMetaData_wf md hok
  have hw := (Carquet.Proofs.Thrift.writeFileMetaData_eq (FileReal.fileMetaData md)
    (Carquet.Proofs.Thrift.lensOk_of_wf _ w)).1
  have hdec := Carquet.Proofs.Thrift.decode_encode (fileMetaDataTV (FileReal.fileMetaData md))
    (Carquet.Proofs.Thrift.fm_wf _ w) []
  rw [List.append_nil, fileMetaDataTV_written] at hdec
  rw [fileMetaDataTV_written] at hw
  have hty : (TVal.struct (fmFieldsW md)).ty = TType.struct := rfl
  rw [hty] at hdec
  unfold FileReal.footer decodeStruct
  rw [hw, hdec]

/-- **footer stage**: the independent reader parses the footer of a written file to the metadata
the writer assembled -/
theorem parseFooter_written (md : FooterData) (hok : footerOk md = true) :
    File.parseFooter (FileReal.footer md) = .ok (fileMetaOfWritten md) := by
  have w := fileMetaData_wf md hok
  have hw := (Carquet.Proofs.Thrift.writeFileMetaData_eq (FileReal.fileMetaData md)
    (Carquet.Proofs.Thrift.lensOk_of_wf _ w)).1
  have hdec := Carquet.Proofs.Thrift.decode_encode (fileMetaDataTV (FileReal.fileMetaData md))
    (Carquet.Proofs.Thrift.fm_wf _ w) []
  rw [List.append_nil, fileMetaDataTV_written] at hdec
  rw [fileMetaDataTV_written] at hw
  have hty : (TVal.struct (fmFieldsW md)).ty = TType.struct := rfl
  rw [hty] at hdec
  unfold File.parseFooter FileReal.footer decodeStruct
  rw [hw, hdec]
  exact fileMetaOf_fmFieldsW md

end Carquet.Proofs.SpecWriter
