import Carquet.Impl.CodecWrappers
/- Helper lemmas for the gzip / zstd wrapper theorems. -/
namespace Carquet.Proofs.CodecWrappers
open Carquet.Impl.CodecWrappers

theorem clamp_range (lo hi level : Int) (h : lo ≤ hi) : lo ≤ clamp lo hi level ∧ clamp lo hi level ≤ hi := by
  unfold clamp
  split <;> split <;> omega

theorem clamp_id (lo hi level : Int) (h1 : lo ≤ level) (h2 : level ≤ hi) : clamp lo hi level = level := by
  unfold clamp
  split <;> split <;> omega

/-- the identity "codec": a library that satisfies the contract, used for counterexamples -/
def storeLib : Lib where
  compress := fun _ x cap => if x.length ≤ cap then some x else none
  decompress := fun c cap => if c.length ≤ cap then some c else none
  bound := fun n => n

theorem storeLib_contract (lo hi : Int) : storeLib.Contract lo hi where
  fits := by intro lvl x cap _ _ h; exact ⟨x, by simp only [storeLib] at h ⊢; rw [if_pos h]⟩
  le_cap := by
    intro lvl x c cap h
    simp only [storeLib] at h
    split at h
    · cases h; assumption
    · cases h
  le_bound := by
    intro lvl x c cap _ _ h
    simp only [storeLib] at h ⊢
    split at h
    · cases h; exact Nat.le_refl _
    · cases h
  roundtrip := by
    intro lvl x c cap cap' _ _ h hc
    simp only [storeLib] at h ⊢
    split at h
    · cases h; rw [if_pos hc]
    · cases h
  dec_le_cap := by
    intro c y cap h
    simp only [storeLib] at h
    split at h
    · cases h; assumption
    · cases h

/-- generic shape of a (repaired) compress wrapper on lists -/
theorem compress_wrapper (L : Lib) (lo hi : Int) (hL : L.Contract lo hi) (x : List UInt8) (lvl : Int)
    (h1 : lo ≤ lvl) (h2 : lvl ≤ hi) :
    (∀ cap, L.bound x.length ≤ cap → ∃ c, L.compress lvl x cap = some c ∧ c.length ≤ cap ∧
        c.length ≤ L.bound x.length ∧ L.decompress c x.length = some x) ∧
    (∀ cap c, L.compress lvl x cap = some c → c.length ≤ cap ∧ L.decompress c x.length = some x) := by
  constructor
  · intro cap hcap
    obtain ⟨c, hc⟩ := hL.fits lvl x cap h1 h2 hcap
    exact ⟨c, hc, hL.le_cap _ _ _ _ hc, hL.le_bound _ _ _ _ h1 h2 hc,
      hL.roundtrip _ _ _ _ _ h1 h2 hc (Nat.le_refl _)⟩
  · intro cap c hc
    exact ⟨hL.le_cap _ _ _ _ hc, hL.roundtrip _ _ _ _ _ h1 h2 hc (Nat.le_refl _)⟩

end Carquet.Proofs.CodecWrappers
