import Carquet.Proofs.RleGrammar
/-
The separate fast path `carquet_rle_decode_levels` on legal streams, for the loop before repair
F58 (Impl.Rle.levelsLoopPreF58; Proofs/RleLevelsF58.lean carries it over to the repaired loop):
it returns the first `n` values as int16, provided they are below 2^15 (where the saturating
and the truncating conversion it mixes agree).
-/
namespace Carquet.Proofs.RleLevels
open Carquet.Impl Carquet.Impl.Rle Carquet.Spec Carquet.Spec.RleHybrid
open Carquet.Proofs.NatBits Carquet.Proofs.BitpackImpl Carquet.Proofs.BitPackSpec Carquet.Proofs.RleGrammar

theorem truncI16_small {v : Nat} (h : v < 32768) : truncI16 v = Int.ofNat v := by
  unfold truncI16
  have : v % 65536 = v := Nat.mod_eq_of_lt (by omega)
  rw [this, if_pos h]; rfl

theorem satI16_small {v : Nat} (h : v < 32768) : satI16 v = Int.ofNat v := by
  unfold satI16
  have : v % 4294967296 = v := Nat.mod_eq_of_lt (by omega)
  rw [this, if_pos (by omega), if_neg (by omega)]; rfl

theorem storeGroup_small (temp : List Nat) (want : Nat) (hlen : temp.length = 8)
    (h : ∀ v ∈ temp.take want, v < 32768) :
    storeGroup temp want = (temp.take want).map Int.ofNat := by
  unfold storeGroup
  by_cases h8 : want ≥ 8
  · rw [if_pos h8]
    have ht : temp.take want = temp := List.take_of_length_le (by omega)
    rw [ht] at h ⊢
    exact List.map_congr_left (fun v hv => satI16_small (h v hv))
  · rw [if_neg h8]
    exact List.map_congr_left (fun v hv => truncI16_small (h v hv))

/-- the `for` loop over the groups of a complete bit-packed run -/
theorem levelsGroups_spec {w : Nat} (hw : w ≤ 32) : ∀ (g : Nat) (data rest : List UInt8) (want : Nat),
    data.length = g * w →
    (∀ v ∈ (Bitpack.unpackGroups w g data).take want, v < 32768) →
    (levelsGroups w g (data ++ rest) want).1 = ((Bitpack.unpackGroups w g data).take want).map Int.ofNat ∧
    (8 * g ≤ want → (levelsGroups w g (data ++ rest) want).2 = rest) := by
  intro g
  induction g with
  | zero =>
    intro data rest want hlen _
    have : data = [] := List.eq_nil_of_length_eq_zero (by simpa using hlen)
    subst this
    simp [levelsGroups, Bitpack.unpackGroups]
  | succ g ih =>
    intro data rest want hlen hsmall
    have hw1 : w ≤ data.length := by rw [hlen, Nat.add_mul]; omega
    simp only [levelsGroups]
    by_cases h0 : want = 0
    · subst h0
      simp
    rw [if_neg h0]
    have hnot : ¬ (data ++ rest).length < w := by simp only [List.length_append]; omega
    rw [if_neg hnot]
    have hdrop : (data ++ rest).drop w = data.drop w ++ rest := by
      rw [List.drop_append_of_le_length hw1]
    have hu : Bitpack.unpack8 w (data ++ rest) = Bitpack.unpack8 w data := by
      rw [unpack8_eq hw, unpack8_eq hw, List.take_append_of_le_length hw1]
    have hl8 : (Bitpack.unpack8 w data).length = 8 := unpack8_length hw data
    rw [hdrop, hu]
    simp only [Bitpack.unpackGroups, List.take_append, hl8] at hsmall ⊢
    have hlen' : (data.drop w).length = g * w := by rw [List.length_drop, hlen, Nat.add_mul]; omega
    have hmin : want - min 8 want = want - 8 := by omega
    rw [hmin]
    obtain ⟨i1, i2⟩ := ih (data.drop w) rest (want - 8) hlen'
      (fun v hv => hsmall v (List.mem_append_right _ hv))
    constructor
    · show storeGroup _ want ++ _ = _
      rw [i1, storeGroup_small _ want hl8 (fun v hv => hsmall v (List.mem_append_left _ hv)), List.map_append]
    · intro h8
      exact i2 (by omega)

theorem levelsLoopPreF58_complete {w : Nat} (hw : w ≤ 32) {bs : List UInt8} {xs : List Nat} (h : Runs w bs xs) :
    ∀ (f n : Nat), bs.length < f → n ≤ xs.length → (∀ v ∈ xs.take n, v < 32768) →
      levelsLoopPreF58 w f bs n = (xs.take n).map Int.ofNat := by
  induction h with
  | nil =>
    intro f n _ hn _
    have : n = 0 := by simpa using hn
    subst this
    cases f <;> simp [levelsLoopPreF58]
  | rle hdr cnt v rest vals hh hv _ ih =>
    intro f n hf hn hsmall
    cases f with
    | zero => omega
    | succ f =>
      by_cases hn0 : n = 0
      · subst hn0; simp [levelsLoopPreF58]
      have hpos : 0 < hdr.length := List.length_pos_iff.mpr (isHeader_ne_nil hh)
      have hvb : (RleHybrid.leBytes (RleHybrid.valueBytes w) v).length = Rle.valueBytes w := by
        rw [spec_leBytes_eq]; exact leBytes_length _ _
      have hhdr : Varint.readHeaderLevels (hdr ++ (RleHybrid.leBytes (RleHybrid.valueBytes w) v ++ rest))
          = (2 * cnt, RleHybrid.leBytes (RleHybrid.valueBytes w) v ++ rest) :=
        VarintImpl.readHeaderLevels_of_readVarintRle (read_header hh _)
      simp only [List.length_append, List.length_replicate] at hf hn
      simp only [levelsLoopPreF58]
      rw [if_neg hn0, if_neg (by simp only [List.length_append]; omega), List.append_assoc, hhdr]
      simp only
      rw [if_pos (two_mul_and_one cnt), two_mul_shr]
      rw [if_neg (by simp only [List.length_append, hvb]; omega)]
      rw [List.drop_left' hvb]
      by_cases hc0 : cnt = 0
      · subst hc0
        rw [if_pos rfl]
        simp only [List.replicate_zero, List.nil_append] at hsmall ⊢
        exact ih f n (by omega) (by omega) hsmall
      · rw [if_neg hc0]
        have hval : Bitpack.leNat ((RleHybrid.leBytes (RleHybrid.valueBytes w) v ++ rest).take (Rle.valueBytes w))
            &&& valueMask w = v := by
          have := rle_value_read hw hv rest
          rw [← spec_leBytes_eq] at this
          exact this
        rw [hval]
        have hvs : v < 32768 := by
          apply hsmall v
          rw [List.take_append]
          apply List.mem_append_left
          rw [List.take_replicate]
          exact List.mem_replicate.mpr ⟨by omega, rfl⟩
        rw [truncI16_small hvs]
        rw [List.take_append, List.take_replicate, List.length_replicate] at hsmall ⊢
        rw [ih f (n - min cnt n) (by omega) (by omega)
          (fun x hx => hsmall x (List.mem_append_right _ (by
            have : n - min cnt n = n - cnt := by omega
            rw [← this]; exact hx)))]
        rw [List.map_append, Nat.min_comm]
        have : n - min n cnt = n - cnt := by omega
        rw [this]
        simp
  | packed hdr g data xs rest vals hh hlen hu _ ih =>
    intro f n hf hn hsmall
    cases f with
    | zero => omega
    | succ f =>
      by_cases hn0 : n = 0
      · subst hn0; simp [levelsLoopPreF58]
      have hpos : 0 < hdr.length := List.length_pos_iff.mpr (isHeader_ne_nil hh)
      have hhdr : Varint.readHeaderLevels (hdr ++ (data ++ rest)) = (2 * g + 1, data ++ rest) :=
        VarintImpl.readHeaderLevels_of_readVarintRle (read_header hh _)
      rw [unpackGroups_eq_spec hw g data hlen] at hu
      cases hu
      have hxl := unpackGroups_length hw g data hlen
      simp only [List.length_append] at hf hn
      simp only [levelsLoopPreF58]
      rw [if_neg hn0, if_neg (by simp only [List.length_append]; omega), List.append_assoc, hhdr]
      simp only
      rw [if_neg (two_mul_add_and_one g), two_mul_add_shr]
      by_cases hg0 : g = 0
      · subst hg0
        have : data = [] := List.eq_nil_of_length_eq_zero (by simpa using hlen)
        subst this
        rw [if_pos rfl]
        simp only [Bitpack.unpackGroups, List.nil_append] at hsmall ⊢
        exact ih f n (by simp only [List.length_nil] at hf; omega)
          (by simp only [Bitpack.unpackGroups, List.length_nil] at hn; omega) hsmall
      · rw [if_neg (by omega)]
        rw [List.take_append, hxl] at hsmall ⊢
        obtain ⟨l1, l2⟩ := levelsGroups_spec hw g data rest n hlen
          (fun v hv => hsmall v (List.mem_append_left _ hv))
        rw [l1, List.length_map, List.length_take, hxl, List.map_append]
        congr 1
        by_cases hfull : 8 * g ≤ n
        · rw [l2 hfull, Nat.min_eq_right hfull]
          exact ih f (n - 8 * g) (by omega) (by omega) (fun v hv => hsmall v (List.mem_append_right _ hv))
        · have h0 : n - min n (8 * g) = 0 := by omega
          have h1 : n - 8 * g = 0 := by omega
          rw [h0, h1]
          cases f <;> simp [levelsLoopPreF58]

/-- **`carquet_rle_decode_levels` on a legal stream** -/
theorem decodeLevelsPreF58_of_runs {w : Nat} (hw : w ≤ 32) {bs : List UInt8} {xs : List Nat} (h : Runs w bs xs)
    (n : Nat) (hn : n ≤ xs.length) (hsmall : ∀ v ∈ xs.take n, v < 32768) :
    decodeLevelsPreF58 w bs n = (xs.take n).map Int.ofNat :=
  levelsLoopPreF58_complete hw h (bs.length + 1) n (Nat.lt_succ_self _) hn hsmall

end Carquet.Proofs.RleLevels
